import DdoModel.Props.C01d
import DdoModel.Props.C10
/-! # Soundness of dominance pruning (C10, sentence 1) — definitions, the solver with the checker enabled, helper proofs

1. `Dominates D a va b vb` — what `SimpleDominanceChecker` tests: same key and `(a, va)` strictly better than `(b, vb)`
   (coordinate-wise `≥`, value included when `use_value`, not the other way round), coordinates read with the dimension of the
   *presented* state `b` as `Dominance::partial_cmp` does.  `Admissible D P H` / `AdmissibleAll D H` — the potential form of
   admissibility (value-to-go `H`, `none = −∞`, so feasibility is included).
2. `DSolverCfg`, `DSolverCfg.turn`, `DSolverCfg.solveLoop`, `DSolverCfg.init` — the sequential solver of `Props/C01d.lean` with
   `dom := some D` and the **shared** store threaded through every compilation (restricted and relaxed, every sub-problem).
3. `_filter_with_dominance` as a fold (`filterDom_eq`, `fdStep`), store lemmas (`StoreAll`, `query_storeAll`, `query_dominated`,
   `query_len`, `query_ne_none`), the fold invariant `FdInv` and the specification `filterDom_spec` (the layer changes in `theta`
   only: `ThEq`; every entry of the new store was there before or is a kept exact node of the layer; a dropped position holds an
   exact node dominated by such an entry; no panic).
4. `Protected D P H opt Prot`, `UndomOpt`, `StoreReach`, `query_protected`, `filterDom_protected`.
5. `stepLayer_dom` (one layer with the checker on), `buildLoop_ind` (induction principle carrying `MInv` of `Proofs/MddExact.lean`).
6. the exact phase: `DomHyp`, `SInv`, `stepLayer_sinv`, `compile_storeReach`; `XInv`, `stepLayer_xinv`, `compile_exact_phase`,
   `exact_diagram_dom`, `restricted_exact_dom`.
7. the abstract branch-and-bound invariant for a protected family: `OnMono`, `BBInv`, `DCompileOk`, `DCutsetOk`, `process_dinv`
   (both fringes), `dinv_complete`.
8. value-based admissibility alone, exact phase: `Carried`, `AdmHyp`, `AInv`, `stepLayer_ainv`, `exact_diagram_adm`.

The relaxed compilations with the checker on are in `Proofs/DomRelaxA.lean`, `DomRelaxB.lean`, `DomRelax.lean` (`relaxed_ub_dom`,
`relaxed_cutset_dom`) and `Proofs/DomTruth.lean` (`isSol_relaxed_dom`, `compile_no_crash_dom`); `Proofs/DomSim.lean` derives
`UndomOpt` from the simulation condition.  Property theorems and the counter-example: `Props/C10b.lean`. -/
set_option linter.unusedSectionVars false
set_option linter.unusedVariables false
namespace Ddo.C10
open Ddo Ddo.C01 Ddo.Closed Ddo.Truth
variable {S K : Type} [DecidableEq S] [DecidableEq K]

/-! ## 1. what the rule says, admissibility -/

/-- `(a, va)` dominates `(b, vb)` as `is_dominated_or_insert(b, _, vb)` sees it when `(a, va)` sits in the bucket of `b`'s key -/
def Dominates (D : DomRule S K) (a : S) (va : Int) (b : S) (vb : Int) : Prop :=
  (∃ k, D.key a = some k ∧ D.key b = some k) ∧
  domEnt D.useValue (D.ent (D.dims b) a va) (D.ent (D.dims b) b vb) = true

instance (D : DomRule S K) (a : S) (va : Int) (b : S) (vb : Int) : Decidable (Dominates D a va b vb) := by
  unfold Dominates
  have : Decidable (∃ k, D.key a = some k ∧ D.key b = some k) :=
    match ha : D.key a, hb : D.key b with
    | some k, some k' => if h : k = k' then isTrue ⟨k, rfl, by rw [h]⟩ else isFalse (by
        rintro ⟨k2, h1, h2⟩; cases h1; cases h2; exact h rfl)
    | none, _ => isFalse (by rintro ⟨k2, h1, _⟩; cases h1)
    | some _, none => isFalse (by rintro ⟨k2, _, h2⟩; cases h2)
  exact inferInstance

/-- **admissible rule, potential form**: whenever the rule says that `(a, va)` dominates `(b, vb)` at depth `d` — both reached
    exactly —, the best completion of `b` is matched by one of `a`: `H d b + vb ≤ H d a + va` in `EInt` (`none = −∞`: if `b` has a
    completion then so has `a`, i.e. feasibility is part of the statement). -/
def Admissible (D : DomRule S K) (P : Problem S) (H : Nat → S → EInt) : Prop :=
  ∀ d a va b vb pa pb, Reach P d a va pa → Reach P d b vb pb → Dominates D a va b vb →
    (H d b).addI vb ≤ (H d a).addI va

/-- the same for all pairs of values, reached or not (what one checks on a concrete rule) -/
def AdmissibleAll (D : DomRule S K) (H : Nat → S → EInt) : Prop :=
  ∀ d a va b vb, Dominates D a va b vb → (H d b).addI vb ≤ (H d a).addI va

theorem AdmissibleAll.admissible {D : DomRule S K} {P : Problem S} {H : Nat → S → EInt} (h : AdmissibleAll D H) :
    Admissible D P H := fun d a va b vb _ _ _ _ hd => h d a va b vb hd

/-! ## 2. the sequential solver with the dominance checker enabled -/

/-- a run of `SequentialSolver` with `SimpleDominanceChecker::new(D, nb_variables)`, `EmptyCache`, `NoCutoff` -/
structure DSolverCfg (S K : Type) where
  sv : SolverCfg S
  D : DomRule S K

/-- the `CompilationInput` of `process_one_node` for the node `N` with incumbent `lb` -/
def DSolverCfg.cfg (dv : DSolverCfg S K) (ct : CompType) (N : SubP S) (lb : Int) : Cfg S K :=
  { P := dv.sv.P, R := dv.sv.R, rank := dv.sv.rank, dom := some dv.D, useCache := false, kind := dv.sv.kind, ctype := ct,
    width := dv.sv.width N, root := N, lb := lb }

/-- solver state: the state of `SequentialSolver` and the contents of the (shared) dominance checker -/
structure DSt (S K : Type) where
  st : SeqSt S
  store : DomStore S K

/-- the restricted compilation of `N` from the store `store` -/
def DSolverCfg.compR (dv : DSolverCfg S K) (store : DomStore S K) (N : SubP S) (lb : Int) :=
  compile (dv.cfg .restricted N lb) (Cache.init dv.sv.P.nbVars) store 0 none
/-- the relaxed compilation of `N` from the store `store` -/
def DSolverCfg.compX (dv : DSolverCfg S K) (store : DomStore S K) (N : SubP S) (lb : Int) :=
  compile (dv.cfg .relaxed N lb) (Cache.init dv.sv.P.nbVars) store 0 none

/-- `process_one_node(N)` from the popped state: the restricted compilation reads and updates the store, the relaxed one (run
    only when the code reaches it) continues from the store the restricted one left.  `none` = a compilation did not end
    normally. -/
def DSolverCfg.turn (dv : DSolverCfg S K) (s : DSt S K) (N : SubP S) : Option (DSt S K) :=
  if N.ub ≤ s.st.bestLb then some s else
  let cR := dv.compR s.store N s.st.bestLb
  if cR.1 ≠ .ok then none else
  let r := toOut cR.2.1
  let st1 := s.st.updateBest r
  if r.isExact then some ⟨(s.st.process dv.sv.dedup N true (.ok r) (.ok r)).1, cR.2.2.2.store⟩ else
  let cX := dv.compX cR.2.2.2.store N st1.bestLb
  if cX.1 ≠ .ok then none else
  some ⟨(s.st.process dv.sv.dedup N true (.ok r) (.ok (toOut cX.2.1))).1, cX.2.2.2.store⟩

/-- the loop of `maximize` (deterministic pop `popMax`), stops when the fringe is empty, the fuel runs out or a compilation
    does not end normally -/
def DSolverCfg.solveLoop (dv : DSolverCfg S K) : Nat → DSt S K → DSt S K
  | 0, s => s
  | n + 1, s =>
    match popMax s.st.fringe with
    | none => s
    | some (N, rest) =>
      let st := popped s.st N rest (cleanLoop dv.sv.P.nbVars s.st.openByLayer dv.sv.P.nbVars s.st.firstActive)
      match dv.turn ⟨st, s.store⟩ N with
      | none => s
      | some s' => dv.solveLoop n s'

/-- `new` + `initialize`: the root on the fringe, an empty checker -/
def DSolverCfg.init (dv : DSolverCfg S K) : DSt S K :=
  ⟨SeqSt.init dv.sv.P none dv.sv.dedup, DomStore.init dv.sv.P.nbVars⟩

/-! ## 3. `_filter_with_dominance` as a fold -/


def fdStep (D : DomRule S K) (acc : List (Node S) × List Nat × DomStore S K × Bool) (p : Nat) :
    List (Node S) × List Nat × DomStore S K × Bool :=
  match acc.1[p]? with
  | none => acc
  | some n =>
    if n.isExact then
      match DomStore.query D acc.2.2.1 n.state n.depth n.value with
      | none => (acc.1, acc.2.1 ++ [p], acc.2.2.1, false)
      | some (st', dominated, thr) =>
        if dominated then (acc.1.set p { n with theta := thr }, acc.2.1, st', acc.2.2.2)
        else (acc.1, acc.2.1 ++ [p], st', acc.2.2.2)
    else (acc.1, acc.2.1 ++ [p], acc.2.2.1, acc.2.2.2)

def fdSorted (D : DomRule S K) (layer : List (Node S)) (cur : List Nat) : List Nat :=
  sortBy (fun a b => match layer[a]?, layer[b]? with
      | some x, some y => D.cmp x.state x.value y.state y.value == .gt
      | _, _ => false) cur

theorem filterDom_eq (cfg : Cfg S K) (D : DomRule S K) (hD : cfg.dom = some D) (store : DomStore S K)
    (layer : List (Node S)) (cur : List Nat) :
    filterDom cfg store layer cur = (fdSorted D layer cur).foldl (fdStep D) (layer, [], store, true) := by
  unfold filterDom
  rw [hD]
  rfl


/-! ## the store: every entry sits in the bucket of its key and satisfies a predicate -/

def StoreAll (D : DomRule S K) (Q : Nat → S → Int → Prop) (st : DomStore S K) : Prop :=
  ∀ d k a va, (a, va) ∈ bucketOf st d k → D.key a = some k ∧ Q d a va

theorem StoreAll.mono {D : DomRule S K} {Q Q' : Nat → S → Int → Prop} {st : DomStore S K} (h : StoreAll D Q st)
    (hq : ∀ d a va, Q d a va → Q' d a va) : StoreAll D Q' st :=
  fun d k a va hm => ⟨(h d k a va hm).1, hq _ _ _ (h d k a va hm).2⟩

theorem bucketOf_init (n d : Nat) (k : K) : bucketOf (DomStore.init n : DomStore S K) d k = [] := by
  unfold bucketOf DomStore.init
  simp only
  cases h : (List.replicate (n + 1) ([] : DLayer S K))[d]? with
  | none => rfl
  | some l =>
    have := List.mem_of_getElem? h
    rw [List.mem_replicate] at this
    rw [this.2]; rfl

theorem storeAll_init (D : DomRule S K) (Q : Nat → S → Int → Prop) (n : Nat) : StoreAll D Q (DomStore.init n) := by
  intro d k a va hm
  rw [bucketOf_init] at hm
  cases hm

/-- the members of a bucket after a query were there before or are the presented pair -/
theorem bucketQuery_sub (D : DomRule S K) (s : S) (v : Int) (b : Bucket S) :
    ∀ f ∈ (D.bucketQuery s v b).1, f ∈ b ∨ f = (s, v) := by
  intro f hf
  rw [D.bucketQuery_fst, (D.retain_char s v b).2] at hf
  split at hf
  · exact Or.inl (List.mem_filter.mp hf).1
  · rcases List.mem_append.mp hf with hf | hf
    · exact Or.inl (List.mem_filter.mp hf).1
    · simp at hf; exact Or.inr hf

theorem query_len (D : DomRule S K) (st st' : DomStore S K) (s : S) (d : Nat) (v : Int) (dom : Bool) (thr : Option Int)
    (h : DomStore.query D st s d v = some (st', dom, thr)) : st'.layers.length = st.layers.length := by
  unfold DomStore.query at h
  split at h
  · cases h; rfl
  · split at h
    · cases h
    · split at h
      · cases h; simp
      · cases h; simp

theorem query_ne_none (D : DomRule S K) (st : DomStore S K) (s : S) (d : Nat) (v : Int) (hd : d < st.layers.length) :
    DomStore.query D st s d v ≠ none := by
  unfold DomStore.query
  split
  · simp
  · rw [List.getElem?_eq_getElem hd]
    dsimp only
    split <;> simp

/-- a query keeps `StoreAll` when the presented triple satisfies the predicate -/
theorem query_storeAll (D : DomRule S K) (Q : Nat → S → Int → Prop) (st st' : DomStore S K) (s : S) (d : Nat) (v : Int)
    (dom : Bool) (thr : Option Int) (h : DomStore.query D st s d v = some (st', dom, thr))
    (hQ : StoreAll D Q st) (hs : Q d s v) : StoreAll D Q st' := by
  cases hk : D.key s with
  | none =>
    rw [query_no_key D st s d v hk] at h
    cases h; exact hQ
  | some k =>
    obtain ⟨h1, h2⟩ := query_refines_bucket D st st' s d v k dom thr hk h
    intro d2 k2 a va hm
    by_cases hne : d2 ≠ d ∨ k2 ≠ k
    · rw [h2 d2 k2 hne] at hm; exact hQ d2 k2 a va hm
    · have e1 : d2 = d := by
        rcases Nat.decEq d2 d with h' | h'
        · exact absurd (Or.inl h') hne
        · exact h'
      have e2 : k2 = k := by
        by_cases h' : k2 = k
        · exact h'
        · exact absurd (Or.inr h') hne
      subst e1; subst e2
      have hb : bucketOf st' d2 k2 = (D.bucketQuery s v (bucketOf st d2 k2)).1 := by rw [← h1]
      rw [hb] at hm
      rcases bucketQuery_sub D s v _ _ hm with hm | hm
      · exact hQ d2 k2 a va hm
      · cases hm; exact ⟨hk, hs⟩

/-- a `dominated` verdict comes from an entry of the store that `Dominates` the presented pair -/
theorem query_dominated (D : DomRule S K) (Q : Nat → S → Int → Prop) (st st' : DomStore S K) (s : S) (d : Nat) (v : Int)
    (thr : Option Int) (h : DomStore.query D st s d v = some (st', true, thr)) (hQ : StoreAll D Q st) :
    ∃ a va, Q d a va ∧ Dominates D a va s v := by
  cases hk : D.key s with
  | none =>
    rw [query_no_key D st s d v hk] at h
    cases h
  | some k =>
    obtain ⟨h1, _⟩ := query_refines_bucket D st st' s d v k true thr hk h
    have hd : (D.bucketQuery s v (bucketOf st d k)).2.1 = true := by rw [← h1]
    rw [D.bucketQuery_dom, (D.retain_char s v _).1] at hd
    obtain ⟨o, ho, hoq⟩ := List.any_eq_true.mp hd
    obtain ⟨hko, hqo⟩ := hQ d k o.1 o.2 ho
    exact ⟨o.1, o.2, hqo, ⟨k, hko, hk⟩, hoq⟩



/-- position-wise equality of two layers up to `theta` -/
def ThEq (ly ly' : List (Node S)) : Prop := ly.map Bounds.stripT = ly'.map Bounds.stripT

theorem ThEq.refl (ly : List (Node S)) : ThEq ly ly := rfl
theorem ThEq.symm {a b : List (Node S)} (h : ThEq a b) : ThEq b a := Eq.symm h
theorem ThEq.trans {a b c : List (Node S)} (h1 : ThEq a b) (h2 : ThEq b c) : ThEq a c := Eq.trans h1 h2
theorem ThEq.length {a b : List (Node S)} (h : ThEq a b) : a.length = b.length := by
  have := congrArg List.length h
  simpa using this
theorem ThEq.get {a b : List (Node S)} (h : ThEq a b) {p : Nat} {n : Node S} (hp : a[p]? = some n) :
    ∃ n0, b[p]? = some n0 ∧ Bounds.stripT n = Bounds.stripT n0 := by
  have := congrArg (fun l => l[p]?) h
  simp only [List.getElem?_map, hp, Option.map_some] at this
  cases hb : b[p]? with
  | none => rw [hb] at this; cases this
  | some n0 => rw [hb] at this; exact ⟨n0, rfl, by simpa using this⟩
theorem ThEq.set {a b : List (Node S)} (h : ThEq a b) {p : Nat} {n n' : Node S} (hp : a[p]? = some n)
    (hn : Bounds.stripT n' = Bounds.stripT n) : ThEq (a.set p n') b := by
  unfold ThEq at *
  rw [List.map_set, hn, ← h]
  exact List.set_self' (by rw [List.getElem?_map, hp]; rfl)

/-- the fields of a node that `_filter_with_dominance` does not touch -/
theorem stripT_all {a b : Node S} (h : Bounds.stripT a = Bounds.stripT b) :
    a.state = b.state ∧ a.value = b.value ∧ a.depth = b.depth ∧ a.isExact = b.isExact ∧ a.inb = b.inb ∧ a.best = b.best := by
  have h1 := congrArg Node.state h
  have h2 := congrArg Node.value h
  have h3 := congrArg Node.depth h
  have h4 := congrArg Node.fExact h
  have h5 := congrArg Node.fRelaxed h
  have h6 := congrArg Node.inb h
  have h7 := congrArg Node.best h
  simp only [Bounds.stripT] at h1 h2 h3 h4 h5 h6 h7
  exact ⟨h1, h2, h3, by unfold Node.isExact; rw [h4, h5], h6, h7⟩

section fold
variable (D : DomRule S K) (Q0 : Nat → S → Int → Prop) (layer : List (Node S))

/-- where an entry of the store may come from during `_filter_with_dominance`: it satisfied `Q0` (it was there before) or it
    is an exact node of the layer that was kept -/
def QK (keep : List Nat) (d : Nat) (a : S) (va : Int) : Prop :=
  Q0 d a va ∨ ∃ q ∈ keep, ∃ m, layer[q]? = some m ∧ m.isExact = true ∧ m.state = a ∧ m.value = va ∧ m.depth = d

theorem QK.mono {keep keep' : List Nat} (h : ∀ q ∈ keep, q ∈ keep') {d : Nat} {a : S} {va : Int}
    (hq : QK Q0 layer keep d a va) : QK Q0 layer keep' d a va := by
  rcases hq with hq | ⟨q, hq, m, h1⟩
  · exact Or.inl hq
  · exact Or.inr ⟨q, h q hq, m, h1⟩

/-- the invariant of the fold (`proc` = the positions processed so far) -/
structure FdInv (store : DomStore S K) (proc : List Nat) (acc : List (Node S) × List Nat × DomStore S K × Bool) : Prop where
  th : ThEq acc.1 layer
  sub : ∀ p ∈ acc.2.1, p ∈ proc
  st : StoreAll D (QK Q0 layer acc.2.1) acc.2.2.1
  ok : acc.2.2.2 = true
  len : acc.2.2.1.layers.length = store.layers.length
  pruned : ∀ p ∈ proc, p ∉ acc.2.1 → ∃ n, layer[p]? = some n ∧ n.isExact = true ∧
    ∃ a va, QK Q0 layer acc.2.1 n.depth a va ∧ Dominates D a va n.state n.value

theorem fdStep_inv (store : DomStore S K) (hdepth : ∀ n ∈ layer, n.isExact = true → n.depth < store.layers.length)
    (proc : List Nat) (acc : List (Node S) × List Nat × DomStore S K × Bool) (p : Nat) (hp : p < layer.length)
    (h : FdInv D Q0 layer store proc acc) : FdInv D Q0 layer store (proc ++ [p]) (fdStep D acc p) := by
  obtain ⟨ly, keep, st, ok⟩ := acc
  obtain ⟨hth, hsub, hst, hok, hlen, hpr⟩ := h
  dsimp only at hth hsub hst hok hlen hpr
  have hp' : p < ly.length := by rw [hth.length]; exact hp
  unfold fdStep
  dsimp only
  rw [List.getElem?_eq_getElem hp']
  dsimp only
  obtain ⟨n0, hn0, hs0⟩ := hth.get (List.getElem?_eq_getElem hp')
  obtain ⟨es, ev, ed, ee, _, _⟩ := stripT_all hs0
  have hmemApp : ∀ q ∈ keep, q ∈ keep ++ [p] := fun q hq => List.mem_append_left _ hq
  have hsubApp : ∀ q ∈ keep ++ [p], q ∈ proc ++ [p] := by
    intro q hq
    rcases List.mem_append.mp hq with hq | hq
    · exact List.mem_append_left _ (hsub q hq)
    · exact List.mem_append_right _ hq
  -- a position processed earlier and not kept stays justified when `keep` grows
  have hprMono : ∀ keep', (∀ q ∈ keep, q ∈ keep') → ∀ q ∈ proc, q ∉ keep' → ∃ n, layer[q]? = some n ∧ n.isExact = true ∧
      ∃ a va, QK Q0 layer keep' n.depth a va ∧ Dominates D a va n.state n.value := by
    intro keep' hk q hq hnq
    obtain ⟨n, h1, h2, a, va, h3, h4⟩ := hpr q hq (fun hqk => hnq (hk q hqk))
    exact ⟨n, h1, h2, a, va, h3.mono Q0 layer hk, h4⟩
  by_cases hex : ly[p].isExact = true
  · rw [if_pos hex]
    have hd : ly[p].depth < st.layers.length := by
      rw [hlen, ed]; exact hdepth n0 (List.mem_of_getElem? hn0) (by rw [← ee]; exact hex)
    cases hq : DomStore.query D st ly[p].state ly[p].depth ly[p].value with
    | none => exact absurd hq (query_ne_none D st _ _ _ hd)
    | some r =>
      obtain ⟨st', dom, thr⟩ := r
      dsimp only
      have hlen' := query_len D st st' _ _ _ dom thr hq
      cases dom with
      | true =>
        rw [if_pos rfl]
        obtain ⟨a, va, hqa, hda⟩ := query_dominated D _ st st' _ _ _ thr hq hst
        refine ⟨hth.set (List.getElem?_eq_getElem hp') rfl, fun q hq => List.mem_append_left _ (hsub q hq), ?_, hok,
          hlen'.trans hlen, ?_⟩
        · -- the store: the presented pair is not inserted when dominated; use the bucket inclusion with a trivially true side
          intro d2 k2 b vb hm
          -- entries of st' are entries of st (dominated ⇒ kept ⊆ old)
          cases hk : D.key ly[p].state with
          | none =>
            rw [query_no_key D st _ _ _ hk] at hq
            cases hq
          | some k =>
            obtain ⟨h1, h2⟩ := query_refines_bucket D st st' _ _ _ k true thr hk hq
            by_cases hne : d2 ≠ ly[p].depth ∨ k2 ≠ k
            · rw [h2 d2 k2 hne] at hm; exact hst d2 k2 b vb hm
            · have e1 : d2 = ly[p].depth := by
                rcases Nat.decEq d2 ly[p].depth with h' | h'
                · exact absurd (Or.inl h') hne
                · exact h'
              have e2 : k2 = k := by
                by_cases h' : k2 = k
                · exact h'
                · exact absurd (Or.inr h') hne
              subst e2
              rw [e1] at hm ⊢
              have hb : bucketOf st' ly[p].depth k2 = (D.bucketQuery ly[p].state ly[p].value (bucketOf st ly[p].depth k2)).1 := by
                rw [← h1]
              have hdm : (D.bucketQuery ly[p].state ly[p].value (bucketOf st ly[p].depth k2)).2.1 = true := by rw [← h1]
              rw [hb, D.bucketQuery_fst, (D.retain_char _ _ _).2] at hm
              rw [D.bucketQuery_dom] at hdm
              rw [hdm, if_pos rfl] at hm
              exact hst _ k2 b vb (List.mem_filter.mp hm).1
        · intro q hq hnq
          rcases List.mem_append.mp hq with hq | hq
          · exact hprMono keep (fun _ h => h) q hq hnq
          · have : q = p := by simpa using hq
            subst this
            refine ⟨n0, hn0, by rw [← ee]; exact hex, a, va, ?_, ?_⟩
            · rw [← ed]; exact hqa
            · rw [← es, ← ev]; exact hda
      | false =>
        rw [if_neg (by simp)]
        refine ⟨hth, hsubApp, ?_, hok, hlen'.trans hlen, ?_⟩
        · refine query_storeAll D _ st st' _ _ _ false thr hq (hst.mono (fun d a va h => h.mono Q0 layer hmemApp)) ?_
          exact Or.inr ⟨p, List.mem_append_right _ (List.mem_singleton.mpr rfl), n0, hn0, by rw [← ee]; exact hex, es.symm, ev.symm, ed.symm⟩
        · intro q hq hnq
          rcases List.mem_append.mp hq with hq | hq
          · exact hprMono _ hmemApp q hq hnq
          · exact absurd (List.mem_append_right _ hq) hnq
  · rw [if_neg hex]
    refine ⟨hth, hsubApp, hst.mono (fun d a va h => h.mono Q0 layer hmemApp), hok, hlen, ?_⟩
    intro q hq hnq
    rcases List.mem_append.mp hq with hq | hq
    · exact hprMono _ hmemApp q hq hnq
    · exact absurd (List.mem_append_right _ hq) hnq

theorem fdFold_inv (store : DomStore S K) (hdepth : ∀ n ∈ layer, n.isExact = true → n.depth < store.layers.length) :
    ∀ (l proc : List Nat) (acc : List (Node S) × List Nat × DomStore S K × Bool), (∀ p ∈ l, p < layer.length) →
      FdInv D Q0 layer store proc acc → FdInv D Q0 layer store (proc ++ l) (l.foldl (fdStep D) acc) := by
  intro l
  induction l with
  | nil => intro proc acc _ h; simpa using h
  | cons p ps ih =>
    intro proc acc hl h
    rw [List.foldl_cons]
    have := ih (proc ++ [p]) _ (fun q hq => hl q (List.mem_cons_of_mem _ hq))
      (fdStep_inv D Q0 layer store hdepth proc acc p (hl p List.mem_cons_self) h)
    simpa using this

end fold


/-- **specification of `_filter_with_dominance`** (checker enabled): the layer changes in `theta` only; the positions kept are
    positions of `cur`; the checker never panics when the depths of the exact nodes are in range; every entry of the new store
    sits in the bucket of its key and was in the store before (`Q0`) or is an exact node of the layer that was kept; a position
    that was dropped holds an exact node dominated (`Dominates`) by such an entry. -/
theorem filterDom_spec (cfg : Cfg S K) (D : DomRule S K) (hD : cfg.dom = some D) (Q0 : Nat → S → Int → Prop)
    (store : DomStore S K) (layer : List (Node S)) (cur : List Nat)
    (hcur : ∀ p ∈ cur, p < layer.length)
    (hdepth : ∀ n ∈ layer, n.isExact = true → n.depth < store.layers.length)
    (h0 : StoreAll D Q0 store) :
    ThEq (filterDom cfg store layer cur).1 layer ∧
    (∀ p ∈ (filterDom cfg store layer cur).2.1, p ∈ cur) ∧
    StoreAll D (QK Q0 layer (filterDom cfg store layer cur).2.1) (filterDom cfg store layer cur).2.2.1 ∧
    (filterDom cfg store layer cur).2.2.2 = true ∧
    (filterDom cfg store layer cur).2.2.1.layers.length = store.layers.length ∧
    (∀ p ∈ cur, p ∉ (filterDom cfg store layer cur).2.1 → ∃ n, layer[p]? = some n ∧ n.isExact = true ∧
      ∃ a va, QK Q0 layer (filterDom cfg store layer cur).2.1 n.depth a va ∧ Dominates D a va n.state n.value) := by
  rw [filterDom_eq cfg D hD]
  have hmem : ∀ p, p ∈ fdSorted D layer cur ↔ p ∈ cur := fun p => Cover.mem_sortBy _ _ _
  have hinit : FdInv D Q0 layer store [] (layer, [], store, true) :=
    ⟨ThEq.refl _, (fun p hp => by cases hp), h0.mono (fun d a va h => Or.inl h), rfl, rfl, (fun p hp => by cases hp)⟩
  have h := fdFold_inv D Q0 layer store hdepth (fdSorted D layer cur) [] _ (fun p hp => hcur p ((hmem p).mp hp)) hinit
  rw [List.nil_append] at h
  exact ⟨h.th, fun p hp => (hmem p).mp (h.sub p hp), h.st, h.ok, h.len, fun p hp hn => h.pruned p ((hmem p).mpr hp) hn⟩

/-! ## 4. the protected family -/

/-- **a protected optimal strategy**: a family `Prot depth state value` of exactly reached items that contains the root, lies on
    optimal solutions (`value + H = opt`), is closed under *some* decision of every variable `next_variable` may select, and none
    of whose items is dominated — in the sense of the rule — by an exactly reached item of the same depth. -/
structure Protected (D : DomRule S K) (P : Problem S) (H : Nat → S → EInt) (opt : Int) (Prot : Nat → S → Int → Prop) : Prop where
  root : Prot 0 P.init P.initVal
  reach : ∀ d s v, Prot d s v → ∃ p, Reach P d s v p
  opt : ∀ d s v, Prot d s v → (H d s).addI v = some opt
  step : ∀ d s v L x, Prot d s v → P.nextVar d L = some x → s ∈ L →
    ∃ dec ∈ P.domain x s, Prot (d + 1) (P.trans s ⟨x, dec⟩) (v + P.cost s (P.trans s ⟨x, dec⟩) ⟨x, dec⟩)
  undom : ∀ d s v a va pa, Prot d s v → Reach P d a va pa → ¬ Dominates D a va s v

/-- the rule has an undominated optimal strategy -/
def UndomOpt (D : DomRule S K) (P : Problem S) (H : Nat → S → EInt) (opt : Int) : Prop :=
  ∃ Prot, Protected D P H opt Prot

/-- every entry of the checker was reached exactly at its depth with its value (and sits in the bucket of its key) -/
def StoreReach (D : DomRule S K) (P : Problem S) (st : DomStore S K) : Prop :=
  StoreAll D (fun d a va => ∃ p, Reach P d a va p) st

theorem storeReach_init (D : DomRule S K) (P : Problem S) (n : Nat) : StoreReach D P (DomStore.init n) :=
  storeAll_init D _ n

/-- **the interleaving-independent core**: whatever the history of the (shared) checker — any order of queries, from any
    compilation or worker —, as long as its entries are exactly reached items, a protected item presented to it is never reported
    dominated, and the entries stay exactly reached -/
theorem query_protected (D : DomRule S K) (P : Problem S) (H : Nat → S → EInt) (opt : Int) (Prot : Nat → S → Int → Prop)
    (hPr : Protected D P H opt Prot) (st st' : DomStore S K) (s : S) (d : Nat) (v : Int) (dom : Bool) (thr : Option Int)
    (hst : StoreReach D P st) (hp : Prot d s v) (h : DomStore.query D st s d v = some (st', dom, thr)) :
    dom = false ∧ StoreReach D P st' := by
  refine ⟨?_, query_storeAll D _ st st' s d v dom thr h hst (hPr.reach d s v hp)⟩
  cases dom with
  | false => rfl
  | true =>
    obtain ⟨a, va, ⟨pa, hra⟩, hdom⟩ := query_dominated D _ st st' s d v thr h hst
    exact absurd hdom (hPr.undom d s v a va pa hp hra)

/-- `_filter_with_dominance` on a layer whose exact nodes are reached exactly, from a store of exactly reached entries:
    the new store has exactly reached entries, and **a node that is inexact or protected is never dropped** -/
theorem filterDom_protected (cfg : Cfg S K) (D : DomRule S K) (hD : cfg.dom = some D)
    (store : DomStore S K) (layer : List (Node S)) (cur : List Nat)
    (hcur : ∀ p ∈ cur, p < layer.length)
    (hdepth : ∀ n ∈ layer, n.isExact = true → n.depth < store.layers.length)
    (hreach : ∀ n ∈ layer, n.isExact = true → ∃ p, Reach cfg.P n.depth n.state n.value p)
    (h0 : StoreReach D cfg.P store) :
    StoreReach D cfg.P (filterDom cfg store layer cur).2.2.1 ∧
    ∀ (H : Nat → S → EInt) (opt : Int) (Prot : Nat → S → Int → Prop), Protected D cfg.P H opt Prot →
      ∀ p ∈ cur, ∀ n, layer[p]? = some n → (n.isExact = true → Prot n.depth n.state n.value) →
        p ∈ (filterDom cfg store layer cur).2.1 := by
  obtain ⟨_, _, hst, _, _, hpr⟩ := filterDom_spec cfg D hD _ store layer cur hcur hdepth h0
  have hq : ∀ d a va, QK (fun d a va => ∃ p, Reach cfg.P d a va p) layer (filterDom cfg store layer cur).2.1 d a va →
      ∃ p, Reach cfg.P d a va p := by
    intro d a va h
    rcases h with h | ⟨q, _, m, hm, hex, rfl, rfl, rfl⟩
    · exact h
    · exact hreach m (List.mem_of_getElem? hm) hex
  refine ⟨hst.mono hq, fun H opt Prot hP p hp n hn hprot => ?_⟩
  apply Classical.byContradiction
  intro hnot
  obtain ⟨n', hn', hex, a, va, hqa, hdom⟩ := hpr p hp hnot
  rw [hn] at hn'; cases hn'
  obtain ⟨pa, hra⟩ := hq _ a va hqa
  exact hP.undom _ _ _ a va pa (hprot hex) hra hdom



/-! ## 5. one layer of the build with the checker enabled, the loop -/

/-- what `_filter_with_dominance` is applied to (no cache) -/
def fdOf (cfg : Cfg S K) (dd : DD S K) := filterDom cfg dd.store dd.next (List.range dd.next.length)

theorem stepLayer_dom (cfg : Cfg S K) (dd : DD S K) (var : Nat) (hne : dd.next ≠ []) (hc : cfg.useCache = false)
    (hok : (fdOf cfg dd).2.2.2 = true) :
    (squash cfg dd (fdOf cfg dd).1 (fdOf cfg dd).2.1 = none → stepLayer cfg dd var = (none, .crash)) ∧
    ∀ sq, squash cfg dd (fdOf cfg dd).1 (fdOf cfg dd).2.1 = some sq →
      ∃ dd', stepLayer cfg dd var = (some dd', .ok) ∧
        dd'.layers = dd.layers ++ [(expandAll cfg var dd.layers.length sq.1 sq.2.1 sq.2.2.1).1] ∧
        dd'.next = (expandAll cfg var dd.layers.length sq.1 sq.2.1 sq.2.2.1).2.1 ∧
        dd'.depth = dd.depth + 1 ∧ dd'.lel = sq.2.2.2 ∧ dd'.store = (fdOf cfg dd).2.2.1 ∧ dd'.cache = dd.cache := by
  have h1 : dd.next.isEmpty = false := by
    cases h : dd.next with
    | nil => exact absurd h hne
    | cons _ _ => rfl
  have h2 : (if dd.layers.isEmpty then (dd.next, List.range dd.next.length)
      else filterCache cfg dd.cache dd.next (List.range dd.next.length)) = (dd.next, List.range dd.next.length) := by
    split
    · rfl
    · exact Cover.filterCache_id cfg dd.cache dd.next _ hc (fun p hp => List.mem_range.mp hp)
  unfold fdOf at hok ⊢
  constructor
  · intro hsq
    unfold stepLayer
    simp only [h1, h2, hok, hsq]
    rfl
  · intro sq hsq
    unfold stepLayer
    simp only [h1, h2, hok, hsq]
    exact ⟨_, rfl, rfl, rfl, rfl, rfl, rfl, rfl⟩

/-- induction principle for a compilation that ends normally: an invariant `J` (insensitive to the log and the poll counter) kept
    by every successful `stepLayer` — where the exactness invariant `MInv` of `Proofs/MddExact.lean` may be used — holds at the
    end.  `T` is what is wanted of the final diagram. -/
theorem buildLoop_ind (cfg : Cfg S K) (B : Int) (p0 : List Dec) (hB : NoClamp cfg.P cfg.R cfg.root.value B)
    (J T : DD S K → Prop)
    (htick : ∀ dd var, J dd → J (tick dd var))
    (hstep : ∀ dd var dd' oc, J dd → MInv cfg B p0 dd → dd.depth = cfg.root.depth + dd.layers.length →
      cfg.P.nextVar dd.depth (dd.next.map (·.state)) = some var → dd.layers.length ≤ cfg.P.nbVars + 1 →
      stepLayer cfg dd var = (some dd', oc) → (oc = .ok → J dd') ∧ (oc = .cutoff → T dd'))
    (hend : ∀ dd, J dd → MInv cfg B p0 dd → dd.depth = cfg.root.depth + dd.layers.length →
      cfg.P.nextVar dd.depth (dd.next.map (·.state)) = none → T (tick dd 0)) :
    ∀ (fuel : Nat) (dd : DD S K), J dd → MInv cfg B p0 dd → dd.depth = cfg.root.depth + dd.layers.length →
      dd.layers.length + fuel ≤ cfg.P.nbVars + 2 → (buildLoop cfg none fuel dd).2 = .ok →
      ∃ fin, T fin ∧ fin.layers = (buildLoop cfg none fuel dd).1.layers ∧ fin.next = (buildLoop cfg none fuel dd).1.next ∧
        fin.depth = (buildLoop cfg none fuel dd).1.depth ∧ fin.lel = (buildLoop cfg none fuel dd).1.lel ∧
        fin.store = (buildLoop cfg none fuel dd).1.store := by
  intro fuel
  induction fuel with
  | zero => intro dd _ _ _ _ h; simp [buildLoop] at h
  | succ fuel ih =>
    intro dd hJ hM hdepth hfuel hok
    cases hnv : cfg.P.nextVar dd.depth (dd.next.map (·.state)) with
    | none =>
      have e : buildLoop cfg none (fuel + 1) dd =
          ({ dd with log := Call.nextVar dd.depth (dd.next.map (·.state)) none :: dd.log }, .ok) := by
        unfold buildLoop; simp only [hnv]
      rw [e]
      exact ⟨_, hend dd hJ hM hdepth hnv, rfl, rfl, rfl, rfl, rfl⟩
    | some var =>
      rw [buildLoop_step cfg fuel dd var hnv] at hok ⊢
      have hM' : MInv cfg B p0 (tick dd var) := hM.congr rfl rfl
      have hs := hstep (tick dd var) var
      cases hst : stepLayer cfg (tick dd var) var with
      | mk o oc =>
        rw [hst] at hok
        cases o with
        | none => cases hok
        | some dd' =>
          obtain ⟨s1, s2⟩ := hs dd' oc (htick dd var hJ) hM' hdepth hnv (by show dd.layers.length ≤ _; omega) hst
          obtain ⟨m1, m2, _⟩ := Ddo.stepLayer_inv cfg B p0 hB (tick dd var) var hM' hdepth hnv
            (by show dd.layers.length ≤ _; omega) dd' oc hst
          cases oc with
          | cutoff => exact ⟨dd', s2 rfl, rfl, rfl, rfl, rfl, rfl⟩
          | crash => cases hok
          | ok =>
            obtain ⟨m2a, m2b⟩ := m2 rfl
            exact ih dd' (s1 rfl) m1 m2a (by rw [m2b]; show dd.layers.length + 1 + fuel ≤ _; omega) hok



/-! ## 6. the exact phase of a compilation (before anything is squashed) with the checker enabled -/

/-- what the diagram theorems with the checker enabled assume of one compilation -/
structure DomHyp (cfg : Cfg S K) (D : DomRule S K) (H : Nat → S → EInt) (opt : Int) (Prot : Nat → S → Int → Prop) (B : Int) :
    Prop where
  dom : cfg.dom = some D
  cache : cfg.useCache = false
  P : Potential cfg.P H
  R : RubOk cfg.R H
  B : NoClamp cfg.P cfg.R cfg.root.value B
  nv : NvBound cfg.P
  prot : Protected D cfg.P H opt Prot
  lb : InI cfg.lb
  gt : opt > cfg.lb
  optLe : opt ≤ iMax ∨ cfg.lb < iMax

/-- the store part of the invariant: exactly reached entries, `nb_variables + 1` layers -/
structure SInv (cfg : Cfg S K) (D : DomRule S K) (dd : DD S K) : Prop where
  store : StoreReach D cfg.P dd.store
  len : dd.store.layers.length = cfg.P.nbVars + 1

theorem nv_depth_lt {P : Problem S} (hNV : NvBound P) {k : Nat} {L : List S} {x : Nat} (h : P.nextVar k L = some x) :
    k < P.nbVars := by
  rcases Nat.lt_or_ge k P.nbVars with h' | h'
  · exact h'
  · rw [hNV k L h'] at h; cases h

/-- facts about `_filter_with_dominance` applied to the layer under construction of a diagram satisfying `MInv` -/
theorem fdOf_facts (cfg : Cfg S K) (D : DomRule S K) (hD : cfg.dom = some D) (hNV : NvBound cfg.P) (B : Int) (p0 : List Dec)
    (dd : DD S K) (var : Nat) (hS : SInv cfg D dd) (hM : MInv cfg B p0 dd)
    (hdepth : dd.depth = cfg.root.depth + dd.layers.length)
    (hnv : cfg.P.nextVar dd.depth (dd.next.map (·.state)) = some var) :
    ThEq (fdOf cfg dd).1 dd.next ∧ (∀ p ∈ (fdOf cfg dd).2.1, p < dd.next.length) ∧
    StoreReach D cfg.P (fdOf cfg dd).2.2.1 ∧ (fdOf cfg dd).2.2.2 = true ∧
    (fdOf cfg dd).2.2.1.layers.length = cfg.P.nbVars + 1 ∧
    ∀ (H : Nat → S → EInt) (opt : Int) (Prot : Nat → S → Int → Prop), Protected D cfg.P H opt Prot →
      ∀ p n, dd.next[p]? = some n → (n.isExact = true → Prot dd.depth n.state n.value) → p ∈ (fdOf cfg dd).2.1 := by
  have hlt := nv_depth_lt hNV hnv
  have hcur : ∀ p ∈ List.range dd.next.length, p < dd.next.length := fun p hp => List.mem_range.mp hp
  have hdep : ∀ n ∈ dd.next, n.isExact = true → n.depth < dd.store.layers.length := by
    intro n hn he
    obtain ⟨_, _, _, hd, _⟩ := hM.next n hn he
    rw [hS.len, hd, ← hdepth]; omega
  have hreach : ∀ n ∈ dd.next, n.isExact = true → ∃ p, Reach cfg.P n.depth n.state n.value p := by
    intro n hn he
    obtain ⟨q, _, hr, _, _⟩ := hM.next n hn he
    exact ⟨_, hr⟩
  obtain ⟨h1, h2, _, h4, h5, _⟩ := filterDom_spec cfg D hD _ dd.store dd.next _ hcur hdep hS.store
  obtain ⟨h6, h7⟩ := filterDom_protected cfg D hD dd.store dd.next _ hcur hdep hreach hS.store
  refine ⟨h1, fun p hp => hcur p (h2 p hp), h6, h4, h5.trans hS.len, fun H opt Prot hP p n hp hpr => ?_⟩
  refine h7 H opt Prot hP p (List.mem_range.mpr (Cover.lt_of_getElem?_some hp)) n hp (fun he => ?_)
  obtain ⟨_, _, _, hd, _⟩ := hM.next n (List.mem_of_getElem? hp) he
  rw [hd, ← hdepth]; exact hpr he

/-- the store invariant is kept by every step of the build (any compilation type) -/
theorem stepLayer_sinv (cfg : Cfg S K) (D : DomRule S K) (hD : cfg.dom = some D) (hc : cfg.useCache = false) (hNV : NvBound cfg.P)
    (B : Int) (p0 : List Dec) (dd dd' : DD S K) (var : Nat) (oc : Outcome) (hS : SInv cfg D dd) (hM : MInv cfg B p0 dd)
    (hdepth : dd.depth = cfg.root.depth + dd.layers.length)
    (hnv : cfg.P.nextVar dd.depth (dd.next.map (·.state)) = some var)
    (hst : stepLayer cfg dd var = (some dd', oc)) : SInv cfg D dd' := by
  by_cases hne : dd.next = []
  · rw [stepLayer_empty cfg dd var hne] at hst
    cases hst
    exact ⟨hS.store, hS.len⟩
  · obtain ⟨_, _, f3, f4, f5, _⟩ := fdOf_facts cfg D hD hNV B p0 dd var hS hM hdepth hnv
    obtain ⟨s1, s2⟩ := stepLayer_dom cfg dd var hne hc f4
    cases hsq : squash cfg dd (fdOf cfg dd).1 (fdOf cfg dd).2.1 with
    | none => rw [s1 hsq] at hst; cases hst
    | some sq =>
      obtain ⟨dd1, e, _, _, _, _, es, _⟩ := s2 sq hsq
      rw [e] at hst
      cases hst
      exact ⟨es ▸ f3, es ▸ f5⟩

/-- the invariant of the exact phase: as long as no layer was squashed (`lel = none`) every node of the layer under construction
    is exact and one of them is protected -/
structure XInv (cfg : Cfg S K) (D : DomRule S K) (Prot : Nat → S → Int → Prop) (dd : DD S K) : Prop extends SInv cfg D dd where
  ex : dd.lel = none → ∀ n ∈ dd.next, n.isExact = true
  wit : dd.lel = none → ∃ n ∈ dd.next, Prot dd.depth n.state n.value

theorem addI_some' {a : EInt} {c x : Int} (h : a.addI c = some x) : ∃ h0, a = some h0 ∧ x = h0 + c := by
  cases a with
  | none => cases h
  | some h0 => exact ⟨h0, rfl, by simpa [EInt.addI] using h.symm⟩

theorem stepLayer_xinv (cfg : Cfg S K) (D : DomRule S K) (H : Nat → S → EInt) (opt : Int) (Prot : Nat → S → Int → Prop) (B : Int)
    (hy : DomHyp cfg D H opt Prot B) (p0 : List Dec) (dd dd' : DD S K) (var : Nat) (oc : Outcome)
    (hX : XInv cfg D Prot dd) (hM : MInv cfg B p0 dd)
    (hdepth : dd.depth = cfg.root.depth + dd.layers.length)
    (hnv : cfg.P.nextVar dd.depth (dd.next.map (·.state)) = some var)
    (hlen : dd.layers.length ≤ cfg.P.nbVars + 1)
    (hst : stepLayer cfg dd var = (some dd', oc)) : XInv cfg D Prot dd' := by
  have hS' := stepLayer_sinv cfg D hy.dom hy.cache hy.nv B p0 dd dd' var oc hX.toSInv hM hdepth hnv hst
  obtain ⟨hM', hM2, _⟩ := Ddo.stepLayer_inv cfg B p0 hy.B dd var hM hdepth hnv hlen dd' oc hst
  by_cases hne : dd.next = []
  · rw [stepLayer_empty cfg dd var hne] at hst
    cases hst
    refine ⟨hS', fun hl n hn => ?_, fun hl => ?_⟩
    · rw [hne] at hn; cases hn
    · obtain ⟨n, hn, _⟩ := hX.wit hl
      rw [hne] at hn; cases hn
  · obtain ⟨f1, f2, f3, f4, f5, f6⟩ := fdOf_facts cfg D hy.dom hy.nv B p0 dd var hX.toSInv hM hdepth hnv
    obtain ⟨s1, s2⟩ := stepLayer_dom cfg dd var hne hy.cache f4
    cases hsq : squash cfg dd (fdOf cfg dd).1 (fdOf cfg dd).2.1 with
    | none => rw [s1 hsq] at hst; cases hst
    | some sq =>
      obtain ⟨dd1, e, el, en, ed, ell, es, _⟩ := s2 sq hsq
      rw [e] at hst
      simp only [Prod.mk.injEq, Option.some.injEq] at hst
      obtain ⟨hdd, hoc⟩ := hst
      subst hdd
      subst hoc
      obtain ⟨hd', hl'⟩ := hM2 rfl
      -- when `lel` is still unset nothing was squashed
      have key : dd1.lel = none → (∀ n ∈ dd1.next, n.isExact = true) ∧ ∃ n ∈ dd1.next, Prot dd1.depth n.state n.value := by
        intro hl
        obtain ⟨q1, q2, hl0⟩ := squash_lel_none cfg dd _ _ sq hsq (ell ▸ hl)
        have hex0 := hX.ex hl0
        obtain ⟨n, hn, hprot⟩ := hX.wit hl0
        obtain ⟨q, hq⟩ := List.mem_iff_getElem?.mp hn
        have hqk : q ∈ (fdOf cfg dd).2.1 := f6 H opt Prot hy.prot q n hq (fun _ => hprot)
        -- the filtered layer is all exact
        have hexF : ∀ m ∈ (fdOf cfg dd).1, m.isExact = true := by
          intro m hm
          obtain ⟨i, hi⟩ := List.mem_iff_getElem?.mp hm
          obtain ⟨m0, hm0, hs⟩ := f1.get hi
          rw [(stripT_all hs).2.2.2.1]
          exact hex0 m0 (List.mem_of_getElem? hm0)
        have hsubE : SubE (fdOf cfg dd).1 dd.next := (filterDom_subS cfg dd.store dd.next _).toSub
        have hpar0 : ∀ n ∈ dd.next, ParOk cfg B p0 dd.layers (dd.next.map (·.state)) n := fun n hn =>
          ⟨hM.next n hn, fun _ => List.mem_map.2 ⟨n, hn, rfl⟩⟩
        have hpar := ParOk.of_sub hsubE hpar0
        have hE := Ddo.expandAll_inv cfg B p0 hy.B dd.layers hlen (fdOf cfg dd).1 (dd.next.map (·.state)) var (hdepth ▸ hnv)
          hpar (fdOf cfg dd).2.1 sq.2.2.1
        rw [q1, q2] at en
        have hexN : ∀ c ∈ dd1.next, c.isExact = true := by
          rw [en]; exact hE.allEx hexF
        refine ⟨hexN, ?_⟩
        -- the protected child
        obtain ⟨n1, hn1, hs1⟩ := f1.symm.get hq
        obtain ⟨es1, ev1, _, _, _, _⟩ := stripT_all hs1
        obtain ⟨dec, hdec, hpc⟩ := hy.prot.step dd.depth n.state n.value _ var hprot hnv (List.mem_map_of_mem hn)
        obtain ⟨h, hH, hoh⟩ := addI_some' (hy.prot.opt _ _ _ hprot)
        obtain ⟨h', hH', hoh'⟩ := addI_some' (hy.prot.opt _ _ _ hpc)
        -- ranges
        have hnex := hex0 n hn
        obtain ⟨_, _, _, _, hbnd⟩ := hM.next n hn hnex
        have hcost := hy.B.cost n.state (cfg.P.trans n.state ⟨var, dec⟩) ⟨var, dec⟩
        have hsmall := hy.B.small
        have hnn := hy.B.nonneg
        have hltd := nv_depth_lt hy.nv hnv
        have hBl : ((dd.layers.length : Int) + 2) * B ≤ ((cfg.P.nbVars : Int) + 2) * B :=
          Int.mul_le_mul_of_nonneg_right (by omega) hnn
        have hBl2 : ((dd.layers.length : Int) + 2) * B = ((dd.layers.length : Int) + 1) * B + B := by
          rw [show ((dd.layers.length : Int) + 2) = ((dd.layers.length : Int) + 1) + 1 by omega, Int.add_mul, Int.one_mul]
        have hsat : satAdd n.value (cfg.P.cost n.state (cfg.P.trans n.state ⟨var, dec⟩) ⟨var, dec⟩) =
            n.value + cfg.P.cost n.state (cfg.P.trans n.state ⟨var, dec⟩) ⟨var, dec⟩ := by
          unfold Bnd at hbnd
          apply Cover.satAdd_eq <;> (simp only [iMin, iMax]; omega)
        have hrub : satAdd (cfg.R.rub n.state) n.value > cfg.lb := by
          unfold satAdd
          apply clamp_gt hy.lb hy.gt hy.optLe
          have := hy.R dd.depth n.state h hH
          omega
        have hhas := Cover.fold_has_new cfg var dd.layers.length (fdOf cfg dd).2.1 ((fdOf cfg dd).1, [], sq.2.2.1) q hqk
          n.state n.value (by
            show (((fdOf cfg dd).1).map Cover.key)[q]? = _
            rw [List.getElem?_map, hn1]
            simp only [Option.map_some, Cover.key, es1, ev1]) hrub dec hdec
        obtain ⟨m, hm, hms, hmv⟩ := hhas
        have hm' : m ∈ dd1.next := by rw [en]; exact hm
        refine ⟨m, hm', ?_⟩
        have hmex := hexN m hm'
        obtain ⟨_, _, hr, hmd, _⟩ := hM'.next m hm' hmex
        have hle := reach_le_root hy.P hr
        rw [hy.prot.opt _ _ _ hy.prot.root, hmd, ← hd', ed, hms, hH'] at hle
        have hle' : h' + m.value ≤ opt := by simpa [EInt.addI] using hle
        rw [hsat] at hmv
        have hval : m.value = n.value + cfg.P.cost n.state (cfg.P.trans n.state ⟨var, dec⟩) ⟨var, dec⟩ := by omega
        rw [ed, hms, hval]
        exact hpc
      exact ⟨hS', fun hl => (key hl).1, fun hl => (key hl).2⟩



/-- **the checker's entries stay exactly reached** across a whole compilation (any compilation type, any root reached exactly) -/
theorem compile_storeReach (cfg : Cfg S K) (D : DomRule S K) (hD : cfg.dom = some D) (hc : cfg.useCache = false)
    (hNV : NvBound cfg.P) (B : Int) (hB : NoClamp cfg.P cfg.R cfg.root.value B) (p0 : List Dec)
    (cache : Cache S) (store : DomStore S K) (polls : Nat)
    (hroot : Reach cfg.P cfg.root.depth cfg.root.state cfg.root.value p0)
    (hst : StoreReach D cfg.P store) (hlen : store.layers.length = cfg.P.nbVars + 1)
    (hok : (compile cfg cache store polls none).1 = .ok) :
    StoreReach D cfg.P (compile cfg cache store polls none).2.2.2.store ∧
    (compile cfg cache store polls none).2.2.2.store.layers.length = cfg.P.nbVars + 1 := by
  obtain ⟨hbl, hdd, _⟩ := Ddo.compile_ok cfg cache store polls none hok
  rw [hdd]
  have h := buildLoop_ind cfg B p0 hB (SInv cfg D) (SInv cfg D) (fun dd var h => ⟨h.store, h.len⟩)
    (fun dd var dd' oc hJ hM hd hnv _ hst =>
      ⟨fun _ => stepLayer_sinv cfg D hD hc hNV B p0 dd dd' var oc hJ hM hd hnv hst,
       fun _ => stepLayer_sinv cfg D hD hc hNV B p0 dd dd' var oc hJ hM hd hnv hst⟩)
    (fun dd hJ _ _ _ => ⟨hJ.store, hJ.len⟩) (cfg.P.nbVars + 2) (initDD cfg cache store polls) ⟨hst, hlen⟩
    (initDD_inv cfg B p0 hB hroot cache store polls) rfl (by simp only [initDD, List.length_nil]; omega) hbl
  obtain ⟨fin, hT, _, _, _, _, es⟩ := h
  rw [← es]
  exact ⟨hT.store, hT.len⟩

/-- what the exact phase gives at the end of a compilation -/
def XEnd (cfg : Cfg S K) (D : DomRule S K) (Prot : Nat → S → Int → Prop) (fin : DD S K) : Prop :=
  XInv cfg D Prot fin ∧ (fin.lel = none → cfg.P.nextVar fin.depth (fin.next.map (·.state)) = none)

/-- **exact phase, whole compilation** (any compilation type): from a protected root and a store of exactly reached entries, if
    nothing was squashed (`lel = none` at the end: the diagram is exact) a terminal node is exact and carries the optimum -/
theorem compile_exact_phase (cfg : Cfg S K) (D : DomRule S K) (H : Nat → S → EInt) (opt : Int) (Prot : Nat → S → Int → Prop)
    (B : Int) (hy : DomHyp cfg D H opt Prot B) (p0 : List Dec) (cache : Cache S) (store : DomStore S K) (polls : Nat)
    (hroot : Reach cfg.P cfg.root.depth cfg.root.state cfg.root.value p0)
    (hprot : Prot cfg.root.depth cfg.root.state cfg.root.value)
    (hst : StoreReach D cfg.P store) (hlen : store.layers.length = cfg.P.nbVars + 1)
    (hok : (compile cfg cache store polls none).1 = .ok) :
    (compile cfg cache store polls none).2.2.2.lel = none →
      ∃ n ∈ (compile cfg cache store polls none).2.2.2.next, n.isExact = true ∧ n.value = opt := by
  obtain ⟨hbl, hdd, _⟩ := Ddo.compile_ok cfg cache store polls none hok
  rw [hdd]
  have hX0 : XInv cfg D Prot (initDD cfg cache store polls) := by
    refine ⟨⟨hst, hlen⟩, fun _ n hn => ?_, fun _ => ⟨_, List.mem_singleton.mpr rfl, hprot⟩⟩
    simp only [initDD, List.mem_singleton] at hn
    subst hn; rfl
  have h := buildLoop_ind cfg B p0 hy.B (XInv cfg D Prot) (XEnd cfg D Prot)
    (fun dd var h => ⟨⟨h.store, h.len⟩, h.ex, h.wit⟩)
    (fun dd var dd' oc hJ hM hd hnv hl hst => by
      have hX' := stepLayer_xinv cfg D H opt Prot B hy p0 dd dd' var oc hJ hM hd hnv hl hst
      refine ⟨fun _ => hX', fun hoc => ⟨hX', fun hl' => ?_⟩⟩
      -- the `break`: the next layer is empty, impossible while a protected node is present
      exfalso
      obtain ⟨_, _, h3⟩ := Ddo.stepLayer_inv cfg B p0 hy.B dd var hM hd hnv hl dd' oc hst
      obtain ⟨n, hn, _⟩ := hX'.wit hl'
      rw [h3 (by rw [hoc]; decide)] at hn
      cases hn)
    (fun dd hJ _ _ hnv => ⟨⟨⟨hJ.store, hJ.len⟩, hJ.ex, hJ.wit⟩, fun _ => hnv⟩)
    (cfg.P.nbVars + 2) (initDD cfg cache store polls) hX0
    (initDD_inv cfg B p0 hy.B hroot cache store polls) rfl (by simp only [initDD, List.length_nil]; omega) hbl
  obtain ⟨fin, ⟨hX, hT⟩, _, en, _, el, _⟩ := h
  intro hl
  rw [← el] at hl
  rw [← en]
  obtain ⟨n, hn, hp⟩ := hX.wit hl
  refine ⟨n, hn, hX.ex hl n hn, ?_⟩
  have hterm := hy.P.term fin.depth _ n.state (hT hl) (List.mem_map_of_mem hn)
  have := hy.prot.opt _ _ _ hp
  rw [hterm] at this
  simpa [EInt.addI] using this



theorem maxValue_filter_ge (l : List (Node S)) (n : Node S) (hn : n ∈ l) (he : n.isExact = true) :
    ∃ w, maxValue (l.filter (·.isExact)) = some w ∧ n.value ≤ w :=
  Cover.maxValue_ge _ n (List.mem_filter.mpr ⟨hn, he⟩)

/-- **an exact diagram finds the optimum, checker enabled** (any compilation type): when the compilation of a protected
    sub-problem ends with `lel = none` (nothing was squashed), the reported `best_exact_value` is at least the optimum -/
theorem exact_diagram_dom (cfg : Cfg S K) (D : DomRule S K) (H : Nat → S → EInt) (opt : Int) (Prot : Nat → S → Int → Prop)
    (B : Int) (hy : DomHyp cfg D H opt Prot B) (p0 : List Dec) (cache : Cache S) (store : DomStore S K) (polls : Nat)
    (hroot : Reach cfg.P cfg.root.depth cfg.root.state cfg.root.value p0)
    (hprot : Prot cfg.root.depth cfg.root.state cfg.root.value)
    (hst : StoreReach D cfg.P store) (hlen : store.layers.length = cfg.P.nbVars + 1)
    (hok : (compile cfg cache store polls none).1 = .ok)
    (hl : (compile cfg cache store polls none).2.2.2.lel = none) :
    ∃ w, (compile cfg cache store polls none).2.1.bestExactValue = some w ∧ opt ≤ w := by
  obtain ⟨n, hn, he, hv⟩ := compile_exact_phase cfg D H opt Prot B hy p0 cache store polls hroot hprot hst hlen hok hl
  obtain ⟨_, hdd, hres⟩ := Ddo.compile_ok cfg cache store polls none hok
  rw [hres, Bounds.finalize_bestExactValue, terminals_finalizeLayers, ← hdd]
  split
  · obtain ⟨w, h1, h2⟩ := Cover.maxValue_ge _ n hn
    refine ⟨w, ?_, by omega⟩
    unfold Built.bestValue
    rw [terminals_finalizeLayers]; exact h1
  · obtain ⟨w, h1, h2⟩ := maxValue_filter_ge _ n hn he
    exact ⟨w, h1, by omega⟩

/-- the restricted compilation reports `is_exact` exactly when nothing was squashed -/
theorem restricted_isExact (cfg : Cfg S K) (cache : Cache S) (store : DomStore S K) (polls : Nat)
    (hres : cfg.ctype = .restricted) (hok : (compile cfg cache store polls none).1 = .ok)
    (he : (compile cfg cache store polls none).2.1.isExact = true) :
    (compile cfg cache store polls none).2.2.2.lel = none := by
  obtain ⟨_, hdd, hr⟩ := Ddo.compile_ok cfg cache store polls none hok
  rw [hr] at he
  have e2 : (cfg.ctype == CompType.relaxed) = false := by rw [hres]; decide
  rw [e2] at he
  have e3 : ∀ b : Built S K, b.ebpMust false = false := fun _ => rfl
  rw [e3] at he
  have : (finalizeLayers (buildLoop cfg none (cfg.P.nbVars + 2) (initDD cfg cache store polls)).1).isExactField = true := by
    simpa [finalize] using he
  rw [hdd]
  simpa [finalizeLayers] using this

/-- **`restricted_exact_dom`**: a restricted compilation of a protected sub-problem that reports `is_exact` reports a
    `best_exact_value` that is at least the optimum -/
theorem restricted_exact_dom (cfg : Cfg S K) (D : DomRule S K) (H : Nat → S → EInt) (opt : Int) (Prot : Nat → S → Int → Prop)
    (B : Int) (hy : DomHyp cfg D H opt Prot B) (p0 : List Dec) (cache : Cache S) (store : DomStore S K) (polls : Nat)
    (hres : cfg.ctype = .restricted)
    (hroot : Reach cfg.P cfg.root.depth cfg.root.state cfg.root.value p0)
    (hprot : Prot cfg.root.depth cfg.root.state cfg.root.value)
    (hst : StoreReach D cfg.P store) (hlen : store.layers.length = cfg.P.nbVars + 1)
    (hok : (compile cfg cache store polls none).1 = .ok)
    (he : (compile cfg cache store polls none).2.1.isExact = true) :
    ∃ w, (compile cfg cache store polls none).2.1.bestExactValue = some w ∧ opt ≤ w :=
  exact_diagram_dom cfg D H opt Prot B hy p0 cache store polls hroot hprot hst hlen hok
    (restricted_isExact cfg cache store polls hres hok he)



/-! ## 7. the branch-and-bound invariant for a protected family (abstract in the diagram) -/
section abstract
variable (On : SubP S → Prop) (opt : Int) (Sol : List Dec → Int → Prop)

/-- `On` reads a sub-problem through `(state, depth, value)` only and is upward closed in the value -/
def OnMono : Prop := ∀ a b : SubP S, a.state = b.state → a.depth = b.depth → a.value ≤ b.value → On a → On b

/-- the invariant: the incumbent is a feasible value, and as long as it is not optimal some open sub-problem lies on the
    protected family with a bound that does not cut the optimum off -/
structure BBInv (open_ : List (SubP S)) (lb : Int) (sol : Option (List Dec)) : Prop where
  lbOk : lb ≤ opt
  solOk : ∀ p, sol = some p → Sol p lb
  cover : opt > lb → ∃ c ∈ open_, On c ∧ opt ≤ c.ub

/-- contract of a compilation of `N` with incumbent `lb`, checker enabled: reported exact values are feasible; a diagram of a
    protected sub-problem that claims exactness reports at least the optimum -/
structure DCompileOk (N : SubP S) (lb : Int) (o : DDOut S) : Prop where
  sound : ∀ w, o.bestExact = some w → ∃ p, o.bestExactSol = some p ∧ Sol p w ∧ w ≤ opt
  exact : o.isExact = true → On N → opt > lb → ∃ w, o.bestExact = some w ∧ opt ≤ w

/-- contract of the cut-set of a relaxed diagram of a protected `N` that is not exact and did not find the optimum -/
def DCutsetOk (N : SubP S) (lb : Int) (o : DDOut S) : Prop :=
  On N → opt > lb → (∀ w, o.bestExact = some w → w < opt) → ∃ c ∈ o.cutset, On c ∧ opt ≤ c.ub

theorem updateBest_ok' (st : SeqSt S) (o : DDOut S)
    (hlb : st.bestLb ≤ opt) (hsol : ∀ p, st.bestSol = some p → Sol p st.bestLb)
    (hs : ∀ w, o.bestExact = some w → ∃ p, o.bestExactSol = some p ∧ Sol p w ∧ w ≤ opt) :
    (st.updateBest o).bestLb ≤ opt ∧ ∀ p, (st.updateBest o).bestSol = some p → Sol p (st.updateBest o).bestLb := by
  unfold SeqSt.updateBest
  cases hb : o.bestExact with
  | none => exact ⟨hlb, hsol⟩
  | some w =>
    obtain ⟨p, hp, hS, hw⟩ := hs w hb
    simp only
    split
    · refine ⟨hw, fun p' hp' => ?_⟩
      simp only at hp'
      rw [hp] at hp'; injection hp' with hp'; subst hp'; exact hS
    · exact ⟨hlb, hsol⟩

/-- `On` ignores the bound -/
theorem OnMono.ub {On : SubP S → Prop} (h : OnMono On) (c : SubP S) (u : Int) : On c → On { c with ub := u } :=
  h c { c with ub := u } rfl rfl (Int.le_refl _)

/-- **`process_dinv`** (plain fringe): one `process_one_node` preserves the invariant -/
theorem process_dinv_false (hOn : OnMono On) (st : SeqSt S) (N : SubP S) (r x : DDOut S)
    (hinv : BBInv On opt Sol (N :: st.fringe) st.bestLb st.bestSol)
    (hr : DCompileOk On opt Sol N st.bestLb r)
    (hx : DCompileOk On opt Sol N (st.updateBest r).bestLb x)
    (hcut : x.isExact = false → DCutsetOk On opt N (st.updateBest r).bestLb x) :
    BBInv On opt Sol (st.process false N true (.ok r) (.ok x)).1.fringe
      (st.process false N true (.ok r) (.ok x)).1.bestLb (st.process false N true (.ok r) (.ok x)).1.bestSol := by
  -- where can the cover witness be after `N` left the fringe?
  have coverRest : ∀ l, st.bestLb ≤ l → opt > l → (On N → opt ≤ N.ub → False) →
      ∃ c ∈ st.fringe, On c ∧ opt ≤ c.ub := by
    intro l hl hgt hN
    obtain ⟨c, hc, h1, h2⟩ := hinv.cover (by omega)
    rcases List.mem_cons.mp hc with e | e
    · subst e; exact absurd h2 (fun h => hN h1 h)
    · exact ⟨c, e, h1, h2⟩
  obtain ⟨f1, _, _, _, _⟩ := updateBest_fringe st r
  have hge1 := updateBest_lb_ge st r
  obtain ⟨hlb1, hsol1⟩ := updateBest_ok' opt Sol st r hinv.lbOk hinv.solOk hr.sound
  obtain ⟨f2, _, _, _, _⟩ := updateBest_fringe (st.updateBest r) x
  have hge2 := updateBest_lb_ge (st.updateBest r) x
  obtain ⟨hlb2, hsol2⟩ := updateBest_ok' opt Sol (st.updateBest r) x hlb1 hsol1 hx.sound
  unfold SeqSt.process
  by_cases hub : N.ub ≤ st.bestLb
  · simp only [hub, if_true]
    exact ⟨hinv.lbOk, hinv.solOk, fun hgt => coverRest st.bestLb (Int.le_refl _) hgt (fun _ h => by omega)⟩
  · simp only [hub, if_false, Bool.not_true, Bool.false_eq_true]
    by_cases hre : r.isExact = true
    · simp only [hre, if_true]
      refine ⟨hlb1, hsol1, fun hgt => ?_⟩
      rw [f1]
      refine coverRest _ hge1 hgt (fun hP _ => ?_)
      obtain ⟨w, hw, hle⟩ := hr.exact hre hP (by omega)
      have := updateBest_lb_ge_val st r w hw
      omega
    · simp only [hre, Bool.false_eq_true, if_false]
      by_cases hxe : x.isExact = true
      · simp only [hxe, if_true]
        refine ⟨hlb2, hsol2, fun hgt => ?_⟩
        rw [f2, f1]
        refine coverRest _ (Int.le_trans hge1 hge2) hgt (fun hP _ => ?_)
        obtain ⟨w, hw, hle⟩ := hx.exact hxe hP (by omega)
        have := updateBest_lb_ge_val (st.updateBest r) x w hw
        omega
      · simp only [hxe, Bool.false_eq_true, if_false]
        have hxe' : x.isExact = false := by simpa using hxe
        have hC := hcut hxe'
        obtain ⟨e1, e2, _, _, e5⟩ := enqueue_false_spec ((st.updateBest r).updateBest x) x.cutset
        rw [e1, e2]
        have hfr : ((st.updateBest r).updateBest x).fringe = st.fringe := f2.trans f1
        refine ⟨hlb2, hsol2, fun hgt => ?_⟩
        obtain ⟨c, hc, hP, hU⟩ := hinv.cover (by omega)
        rcases List.mem_cons.mp hc with e | e
        · subst e
          have hw : ∀ w, x.bestExact = some w → w < opt := by
            intro w hw
            have := updateBest_lb_ge_val (st.updateBest r) x w hw
            omega
          obtain ⟨c0, hc0, hOn0, hub0⟩ := hC hP (by omega) hw
          exact ⟨c0, (e5 _).mpr (Or.inr ⟨c0, hc0, rfl, by omega⟩), hOn0, hub0⟩
        · exact ⟨c, (e5 c).mpr (Or.inl (by rw [hfr]; exact e)), hP, hU⟩

/-- the invariant passes to any coalescing of the multiset of open sub-problems -/
theorem BBInv.of_coalesce (hOn : OnMono On) {L F : List (SubP S)} {lb : Int} {sol : Option (List Dec)}
    (hinv : BBInv On opt Sol L lb sol) (hco : Coalesces F (fun c => c ∈ L)) : BBInv On opt Sol F lb sol := by
  refine ⟨hinv.lbOk, hinv.solOk, fun hgt => ?_⟩
  obtain ⟨c, hc, h1, h2⟩ := hinv.cover hgt
  obtain ⟨s, hs, hd⟩ := hco.2 c hc
  exact ⟨s, hs, hOn c s hd.state.symm hd.depth.symm hd.value h1, by have := hd.ub; omega⟩

/-- **`process_dinv`**: both fringes -/
theorem process_dinv (hOn : OnMono On) (dedup : Bool) (st : SeqSt S) (N : SubP S) (r x : DDOut S)
    (hinv : BBInv On opt Sol (N :: st.fringe) st.bestLb st.bestSol)
    (hr : DCompileOk On opt Sol N st.bestLb r)
    (hx : DCompileOk On opt Sol N (st.updateBest r).bestLb x)
    (hcut : x.isExact = false → DCutsetOk On opt N (st.updateBest r).bestLb x) :
    BBInv On opt Sol (st.process dedup N true (.ok r) (.ok x)).1.fringe
      (st.process dedup N true (.ok r) (.ok x)).1.bestLb (st.process dedup N true (.ok r) (.ok x)).1.bestSol := by
  have h := process_dinv_false On opt Sol hOn st N r x hinv hr hx hcut
  cases dedup with
  | false => exact h
  | true =>
    obtain ⟨e1, e2, _, _, _, _, hco⟩ := C01b.process_dedup_rel st N true (.ok r) (.ok x)
    rw [e1, e2]
    exact BBInv.of_coalesce On opt Sol hOn h hco

/-- when the fringe is empty the incumbent is the optimum -/
theorem dinv_complete (lb : Int) (sol : Option (List Dec)) (h : BBInv On opt Sol [] lb sol) : lb = opt := by
  have := h.lbOk
  by_cases hlt : opt > lb
  · obtain ⟨c, hc, _⟩ := h.cover hlt; cases hc
  · omega

end abstract

/-! ## 8. the exact phase under the value-based admissibility alone: "a node of the layer or an entry of the store carries the
       optimum" -/

/-- some entry of the store the compilation started from, at a depth of the diagram, carries a potential `≥ o` -/
def Carried (cfg : Cfg S K) (H : Nat → S → EInt) (store0 : DomStore S K) (o : Int) : Prop :=
  ∃ d k a va, (a, va) ∈ bucketOf store0 d k ∧ cfg.root.depth ≤ d ∧ ∃ x, (H d a).addI va = some x ∧ o ≤ x

/-- hypotheses of the potential-form theorem -/
structure AdmHyp (cfg : Cfg S K) (D : DomRule S K) (H : Nat → S → EInt) (o : Int) (B : Int) : Prop where
  dom : cfg.dom = some D
  cache : cfg.useCache = false
  P : Potential cfg.P H
  R : RubOk cfg.R H
  B : NoClamp cfg.P cfg.R cfg.root.value B
  nv : NvBound cfg.P
  adm : Admissible D cfg.P H
  lb : InI cfg.lb
  gt : o > cfg.lb
  oLe : o ≤ iMax ∨ cfg.lb < iMax

/-- the invariant: the entries of the depths still to come are entries of the initial store; while nothing is squashed every node
    is exact and either the initial store carries `o` or a node of the layer under construction does -/
structure AInv (cfg : Cfg S K) (D : DomRule S K) (H : Nat → S → EInt) (store0 : DomStore S K) (o : Int) (dd : DD S K) : Prop
    extends SInv cfg D dd where
  sub : ∀ d k a va, dd.depth ≤ d → (a, va) ∈ bucketOf dd.store d k → (a, va) ∈ bucketOf store0 d k
  ex : dd.lel = none → ∀ n ∈ dd.next, n.isExact = true
  cov : dd.lel = none → Carried cfg H store0 o ∨ ∃ n ∈ dd.next, ∃ h, H dd.depth n.state = some h ∧ o ≤ n.value + h

theorem stepLayer_ainv (cfg : Cfg S K) (D : DomRule S K) (H : Nat → S → EInt) (o : Int) (B : Int)
    (hy : AdmHyp cfg D H o B) (store0 : DomStore S K) (p0 : List Dec) (dd dd' : DD S K) (var : Nat) (oc : Outcome)
    (hX : AInv cfg D H store0 o dd) (hM : MInv cfg B p0 dd)
    (hdepth : dd.depth = cfg.root.depth + dd.layers.length)
    (hnv : cfg.P.nextVar dd.depth (dd.next.map (·.state)) = some var)
    (hlen : dd.layers.length ≤ cfg.P.nbVars + 1)
    (hst : stepLayer cfg dd var = (some dd', oc)) : AInv cfg D H store0 o dd' := by
  have hS' := stepLayer_sinv cfg D hy.dom hy.cache hy.nv B p0 dd dd' var oc hX.toSInv hM hdepth hnv hst
  obtain ⟨hM', hM2, _⟩ := Ddo.stepLayer_inv cfg B p0 hy.B dd var hM hdepth hnv hlen dd' oc hst
  by_cases hne : dd.next = []
  · rw [stepLayer_empty cfg dd var hne] at hst
    cases hst
    refine ⟨hS', hX.sub, fun hl n hn => ?_, fun hl => ?_⟩
    · rw [hne] at hn; cases hn
    · rcases hX.cov hl with hc | ⟨n, hn, _⟩
      · exact Or.inl hc
      · rw [hne] at hn; cases hn
  · -- the filter, with the origin of the entries tracked
    have hlt := nv_depth_lt hy.nv hnv
    have hcur : ∀ p ∈ List.range dd.next.length, p < dd.next.length := fun p hp => List.mem_range.mp hp
    have hdep : ∀ n ∈ dd.next, n.isExact = true → n.depth < dd.store.layers.length := by
      intro n hn he
      obtain ⟨_, _, _, hd, _⟩ := hM.next n hn he
      rw [hX.len, hd, ← hdepth]; omega
    have hreach : ∀ n ∈ dd.next, n.isExact = true → n.depth = dd.depth ∧ ∃ p, Reach cfg.P n.depth n.state n.value p := by
      intro n hn he
      obtain ⟨q, _, hr, hd, _⟩ := hM.next n hn he
      exact ⟨by rw [hd, hdepth], _, hr⟩
    let Q0 : Nat → S → Int → Prop := fun d a va => (∃ k, (a, va) ∈ bucketOf dd.store d k) ∧ ∃ p, Reach cfg.P d a va p
    have h0 : StoreAll D Q0 dd.store := fun d k a va hm => ⟨(hX.store d k a va hm).1, ⟨k, hm⟩, (hX.store d k a va hm).2⟩
    obtain ⟨f1, f2, f3, f4, f5, f6⟩ := filterDom_spec cfg D hy.dom Q0 dd.store dd.next _ hcur hdep h0
    obtain ⟨s1, s2⟩ := stepLayer_dom cfg dd var hne hy.cache f4
    cases hsq : squash cfg dd (fdOf cfg dd).1 (fdOf cfg dd).2.1 with
    | none => rw [s1 hsq] at hst; cases hst
    | some sq =>
      obtain ⟨dd1, e, el, en, ed, ell, es, _⟩ := s2 sq hsq
      rw [e] at hst
      simp only [Prod.mk.injEq, Option.some.injEq] at hst
      obtain ⟨hdd, hoc⟩ := hst
      subst hdd
      subst hoc
      obtain ⟨hd', hl'⟩ := hM2 rfl
      -- the entries of the deeper levels still come from the initial store
      have hsub' : ∀ d k a va, dd1.depth ≤ d → (a, va) ∈ bucketOf dd1.store d k → (a, va) ∈ bucketOf store0 d k := by
        intro d k a va hd hm
        rw [es] at hm
        obtain ⟨hk, hq⟩ := f3 d k a va hm
        rcases hq with ⟨⟨k', hk'⟩, _⟩ | ⟨q, _, m, hm', hex, rfl, rfl, hmd⟩
        · have : k' = k := by
            have := (hX.store d k' a va hk').1
            rw [hk] at this; exact (Option.some.inj this).symm
          subst this
          exact hX.sub d k' a va (by rw [ed] at hd; omega) hk'
        · exfalso
          have := (hreach m (List.mem_of_getElem? hm') hex).1
          rw [ed] at hd; omega
      refine ⟨hS', hsub', ?_, ?_⟩ <;> intro hl
      all_goals
        obtain ⟨q1, q2, hl0⟩ := squash_lel_none cfg dd _ _ sq hsq (ell ▸ hl)
        have hex0 := hX.ex hl0
        have hexF : ∀ m ∈ (fdOf cfg dd).1, m.isExact = true := by
          intro m hm
          obtain ⟨i, hi⟩ := List.mem_iff_getElem?.mp hm
          obtain ⟨m0, hm0, hs⟩ := f1.get hi
          rw [(stripT_all hs).2.2.2.1]
          exact hex0 m0 (List.mem_of_getElem? hm0)
        have hsubE : SubE (fdOf cfg dd).1 dd.next := (filterDom_subS cfg dd.store dd.next _).toSub
        have hpar0 : ∀ n ∈ dd.next, ParOk cfg B p0 dd.layers (dd.next.map (·.state)) n := fun n hn =>
          ⟨hM.next n hn, fun _ => List.mem_map.2 ⟨n, hn, rfl⟩⟩
        have hpar := ParOk.of_sub hsubE hpar0
        have hE := Ddo.expandAll_inv cfg B p0 hy.B dd.layers hlen (fdOf cfg dd).1 (dd.next.map (·.state)) var (hdepth ▸ hnv)
          hpar (fdOf cfg dd).2.1 sq.2.2.1
        rw [q1, q2] at en
        have hexN : ∀ c ∈ dd1.next, c.isExact = true := by
          rw [en]; exact hE.allEx hexF
      · exact hexN
      · rcases hX.cov hl0 with hc | ⟨n, hn, h, hH, hle⟩
        · exact Or.inl hc
        · obtain ⟨q, hq⟩ := List.mem_iff_getElem?.mp hn
          -- a kept position whose node carries `o`
          have kept : Carried cfg H store0 o ∨ ∃ q' ∈ (fdOf cfg dd).2.1, ∃ m, dd.next[q']? = some m ∧
              ∃ h, H dd.depth m.state = some h ∧ o ≤ m.value + h := by
            by_cases hqk : q ∈ (fdOf cfg dd).2.1
            · exact Or.inr ⟨q, hqk, n, hq, h, hH, hle⟩
            · obtain ⟨n', hn', hex', a, va, hqa, hdom⟩ := f6 q (List.mem_range.mpr (Cover.lt_of_getElem?_some hq)) hqk
              have hnn' : n' = n := by rw [hq] at hn'; exact (Option.some.inj hn').symm
              subst hnn'
              obtain ⟨hnd, pn, hrn⟩ := hreach n' hn hex'
              -- the dominator is reached exactly at the same depth: its potential is at least that of the dropped node
              have key : ∀ pa, Reach cfg.P n'.depth a va pa → ∃ x, (H n'.depth a).addI va = some x ∧ o ≤ x := by
                intro pa hra
                have := hy.adm n'.depth a va n'.state n'.value pa pn hra hrn hdom
                rw [hnd, hH] at this
                rw [hnd]
                cases hc : (H dd.depth a).addI va with
                | none => rw [hc] at this; exact absurd this (by simp [EInt.addI])
                | some x =>
                  rw [hc] at this
                  have : h + n'.value ≤ x := by simpa [EInt.addI] using this
                  exact ⟨x, rfl, by omega⟩
              rcases hqa with ⟨⟨k, hk⟩, pa, hra⟩ | ⟨q', hq', m, hm, hmex, rfl, rfl, hmd⟩
              · left
                obtain ⟨x, hx, hox⟩ := key pa hra
                exact ⟨n'.depth, k, a, va, hX.sub _ k a va (by omega) hk, by rw [hnd, hdepth]; omega, x, hx, hox⟩
              · right
                obtain ⟨_, pm, hrm⟩ := hreach m (List.mem_of_getElem? hm) hmex
                obtain ⟨x, hx, hox⟩ := key pm (hmd ▸ hrm)
                obtain ⟨hm0, hHm, e0⟩ := addI_some' hx
                rw [hnd] at hHm
                exact ⟨q', hq', m, hm, hm0, hHm, by omega⟩
          rcases kept with hc | ⟨q', hqk, m, hm, h2, hH2, hle2⟩
          · exact Or.inl hc
          · right
            have hmn := List.mem_of_getElem? hm
            obtain ⟨n1, hn1, hs1⟩ := f1.symm.get hm
            obtain ⟨es1, ev1, _, _, _, _⟩ := stripT_all hs1
            obtain ⟨dec, hdec, h', hH', hle'⟩ := hy.P.att dd.depth _ var m.state h2 hnv (List.mem_map_of_mem hmn) hH2
            have hmex := hex0 m hmn
            obtain ⟨_, _, _, _, hbnd⟩ := hM.next m hmn hmex
            have hcost := hy.B.cost m.state (cfg.P.trans m.state ⟨var, dec⟩) ⟨var, dec⟩
            have hsmall := hy.B.small
            have hnn := hy.B.nonneg
            have hBl : ((dd.layers.length : Int) + 2) * B ≤ ((cfg.P.nbVars : Int) + 2) * B :=
              Int.mul_le_mul_of_nonneg_right (by omega) hnn
            have hBl2 : ((dd.layers.length : Int) + 2) * B = ((dd.layers.length : Int) + 1) * B + B := by
              rw [show ((dd.layers.length : Int) + 2) = ((dd.layers.length : Int) + 1) + 1 by omega, Int.add_mul, Int.one_mul]
            have hsat : satAdd m.value (cfg.P.cost m.state (cfg.P.trans m.state ⟨var, dec⟩) ⟨var, dec⟩) =
                m.value + cfg.P.cost m.state (cfg.P.trans m.state ⟨var, dec⟩) ⟨var, dec⟩ := by
              unfold Bnd at hbnd
              apply Cover.satAdd_eq <;> (simp only [iMin, iMax]; omega)
            have hrub : satAdd (cfg.R.rub m.state) m.value > cfg.lb := by
              unfold satAdd
              apply clamp_gt hy.lb hy.gt hy.oLe
              have := hy.R dd.depth m.state h2 hH2
              omega
            have hhas := Cover.fold_has_new cfg var dd.layers.length (fdOf cfg dd).2.1 ((fdOf cfg dd).1, [], sq.2.2.1) q' hqk
              m.state m.value (by
                show (((fdOf cfg dd).1).map Cover.key)[q']? = _
                have hn1' : (fdOf cfg dd).1[q']? = some n1 := hn1
                rw [List.getElem?_map, hn1']
                simp only [Option.map_some, Cover.key, es1, ev1]) hrub dec hdec
            obtain ⟨c, hc, hcs, hcv⟩ := hhas
            refine ⟨c, by rw [en]; exact hc, h', by rw [ed, hcs]; exact hH', ?_⟩
            rw [hsat] at hcv
            omega

/-- **exact phase, value-based admissibility** (any compilation type): with the checker enabled and a rule that is admissible in
    the potential form, from a store of exactly reached entries, a compilation that squashes nothing (`lel = none`: the diagram is
    exact) reports a `best_exact_value` at least the optimum `o` of its root sub-problem — **or an entry of the store it started
    from, at a depth of the diagram, carries a potential `≥ o`** (the pruned optimum lives on in the store; whether anybody will
    ever explore it is what the solver-level counter-example `Cyc` is about). -/
theorem exact_diagram_adm (cfg : Cfg S K) (D : DomRule S K) (H : Nat → S → EInt) (o : Int) (B : Int)
    (hy : AdmHyp cfg D H o B) (p0 : List Dec) (cache : Cache S) (store : DomStore S K) (polls : Nat)
    (hroot : Reach cfg.P cfg.root.depth cfg.root.state cfg.root.value p0)
    (ho : optOf H cfg.root = some o)
    (hst : StoreReach D cfg.P store) (hlen : store.layers.length = cfg.P.nbVars + 1)
    (hok : (compile cfg cache store polls none).1 = .ok)
    (hl : (compile cfg cache store polls none).2.2.2.lel = none) :
    (∃ w, (compile cfg cache store polls none).2.1.bestExactValue = some w ∧ o ≤ w) ∨ Carried cfg H store o := by
  obtain ⟨hbl, hdd, hres⟩ := Ddo.compile_ok cfg cache store polls none hok
  obtain ⟨h0, hH0, e0⟩ := addI_some' ho
  have hX0 : AInv cfg D H store o (initDD cfg cache store polls) := by
    refine ⟨⟨hst, hlen⟩, fun d k a va _ hm => hm, fun _ n hn => ?_, fun _ => Or.inr ⟨_, List.mem_singleton.mpr rfl, h0, hH0, ?_⟩⟩
    · simp only [initDD, List.mem_singleton] at hn
      subst hn; rfl
    · show o ≤ cfg.root.value + h0
      omega
  have h := buildLoop_ind cfg B p0 hy.B (AInv cfg D H store o)
    (fun fin => AInv cfg D H store o fin ∧ (fin.lel = none → fin.next ≠ [] → cfg.P.nextVar fin.depth (fin.next.map (·.state)) = none))
    (fun dd var h => ⟨⟨h.store, h.len⟩, h.sub, h.ex, h.cov⟩)
    (fun dd var dd' oc hJ hM hd hnv hl hst => by
      have hX' := stepLayer_ainv cfg D H o B hy store p0 dd dd' var oc hJ hM hd hnv hl hst
      refine ⟨fun _ => hX', fun hoc => ⟨hX', fun _ hne => ?_⟩⟩
      obtain ⟨_, _, h3⟩ := Ddo.stepLayer_inv cfg B p0 hy.B dd var hM hd hnv hl dd' oc hst
      exact absurd (h3 (by rw [hoc]; decide)) hne)
    (fun dd hJ _ _ hnv => ⟨⟨⟨hJ.store, hJ.len⟩, hJ.sub, hJ.ex, hJ.cov⟩, fun _ _ => hnv⟩)
    (cfg.P.nbVars + 2) (initDD cfg cache store polls) hX0
    (initDD_inv cfg B p0 hy.B hroot cache store polls) rfl (by simp only [initDD, List.length_nil]; omega) hbl
  obtain ⟨fin, ⟨hX, hT⟩, _, en, _, el, _⟩ := h
  rw [hdd, ← el] at hl
  rcases hX.cov hl with hc | ⟨n, hn, h, hH, hle⟩
  · exact Or.inr hc
  · left
    have hterm := hy.P.term fin.depth _ n.state (hT hl (List.ne_nil_of_mem hn)) (List.mem_map_of_mem hn)
    rw [hterm] at hH
    cases hH
    have hex := hX.ex hl n hn
    rw [hres, Bounds.finalize_bestExactValue, terminals_finalizeLayers, ← en]
    split
    · obtain ⟨w, h1, h2⟩ := Cover.maxValue_ge _ n hn
      refine ⟨w, ?_, by omega⟩
      unfold Built.bestValue
      rw [terminals_finalizeLayers, ← en]; exact h1
    · obtain ⟨w, h1, h2⟩ := maxValue_filter_ge _ n hn hex
      exact ⟨w, h1, by omega⟩


end Ddo.C10
