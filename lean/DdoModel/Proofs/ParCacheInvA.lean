import DdoModel.Proofs.ParCacheSys
import DdoModel.Proofs.ParCacheTheta
import DdoModel.Proofs.SeqCacheDedup
import DdoModel.Proofs.ParSysInv
/-! # The parallel caching solver — the coverage invariant `KPInv` (definitions and the transfer machinery)

Setting as in `Proofs/SeqCache.lean`: `H` the potential, `optOf H c` the potential of a sub-problem, `opt` the optimum, `Sol`
feasibility, `Rg` the magnitudes.  The system is `Proofs/ParCacheSys.lean`; its compilations are constrained by the
*contracts* `OkRc` / `OkXc` (the contract `CompC` of the sequential proof relative to the **virtual** cache the compilation
read and the **stale** incumbent the worker read, the strict threshold contract `ThetaStrict` of `Proofs/ParCacheTheta.lean`,
and `fresh1`).

* `Beats s x`: `x` beats the incumbent **and every exact value a worker has found and not yet published** (the thresholds
  of a compilation are written *before* its `maybe_update_best`).
* `Live s x d`: the potential `x` is carried at depth `≥ d` — by a fringe node the cache does not refuse, by a node **in the
  hand of a worker** (popped and kept, whatever the cache says now: its own pop-time write refuses it), or by a node of the
  **pending cut-set** of a finished relaxed compilation (not yet enqueued) the cache does not refuse.
* `Jst s (st, d, θ)`: the threshold is *justified*: whatever it prunes and `Beats` is `Live` at depth `≥ d`.
* `UbOk s c`: the potential of `c`, if it `Beats`, is below the bound of `c` or `Live` strictly deeper than `c`.

`KPInv`: the optimum is `Live` at depth 0 if it `Beats`; **every entry the shared cache ever held (`log`) is justified now**
(justification is monotone in time: that is what makes a read of an old value, a new value, or a value cleared since, equally
sound); every prunable node (fringe, pending cut-sets) and every node just popped is `UbOk`; what the workers carry
(`WOk`: the contracts, staleness `lb ≤ best_lb`, the entries of the virtual cache come from the log).

The transfer principle (`tp_of_local`): to show that every `Live` fact survives a step it is enough to show that every
*witness* either survives or is dominated by something `Live` **strictly deeper** before the step (induction on the depth,
which is bounded: `live_depth_bound`). -/
set_option linter.unusedSectionVars false
set_option linter.unusedVariables false
namespace Ddo.ParCache
open Ddo Ddo.C09 Ddo.ParSys Ddo.Theta
variable {S : Type} [DecidableEq S]

/-! ## thresholds -/

/-- the pop-time rule on one threshold -/
def prunBy (t : Thr) (v : Int) : Prop := v < t.value ∨ (v = t.value ∧ t.explored = true)

theorem prunBy_mono {a b : Thr} (h : Thr.le a b) {v : Int} (hp : prunBy a v) : prunBy b v := by
  unfold Thr.le at h
  unfold prunBy at *
  rcases h with h | ⟨h1, h2⟩
  · rcases hp with hp | ⟨hp, _⟩
    · exact .inl (by omega)
    · exact .inl (by omega)
  · rcases hp with hp | ⟨hp, he⟩
    · exact .inl (by omega)
    · exact .inr ⟨by omega, h2 he⟩

theorem prunM_iff_by (T : CView S) (c : SubP S) : prunM T c ↔ ∃ t, T c.state c.depth = some t ∧ prunBy t c.value := Iff.rfl

/-- the cell after an update is the join -/
theorem upd_cell (T : CView S) (u : Up S) : (T.upd u) u.1 u.2.1 = updCell (T u.1 u.2.1) (upThr u) := by
  unfold CView.upd upThr
  simp

theorem upd_other (T : CView S) (u : Up S) (s : S) (d : Nat) (h : ¬ (d = u.2.1 ∧ s = u.1)) : (T.upd u) s d = T s d := by
  unfold CView.upd
  rw [if_neg h]

/-- the new content of the written cell dominates the written threshold and the old content -/
theorem upd_cell_ge (T : CView S) (u : Up S) : ∃ t', (T.upd u) u.1 u.2.1 = some t' ∧ Thr.le (upThr u) t' ∧
    (∀ t, T u.1 u.2.1 = some t → Thr.le t t') ∧ (t' = upThr u ∨ T u.1 u.2.1 = some t') := by
  rw [upd_cell]
  cases hT : T u.1 u.2.1 with
  | none => exact ⟨upThr u, rfl, Thr.le_refl _, (fun t ht => by cases ht), .inl rfl⟩
  | some e =>
    refine ⟨Thr.join (upThr u) e, rfl, Thr.le_join_left _ _, (fun t ht => by cases ht; exact Thr.le_join_right _ _), ?_⟩
    unfold Thr.join
    split
    · exact .inr rfl
    · exact .inl rfl

/-- pruning is monotone in the cache -/
theorem prunM_upd_mono (T : CView S) (u : Up S) (c : SubP S) (h : prunM T c) : prunM (T.upd u) c := by
  obtain ⟨t, ht, hp⟩ := h
  by_cases hc : c.depth = u.2.1 ∧ c.state = u.1
  · obtain ⟨t', ht', _, hold, _⟩ := upd_cell_ge T u
    rw [← hc.1, ← hc.2] at ht' hold
    exact ⟨t', ht', prunBy_mono (hold t ht) hp⟩
  · exact ⟨t, by rw [upd_other T u _ _ hc]; exact ht, hp⟩

/-- a node that becomes refused was hit by the update, whose threshold is now the content of the cell -/
theorem prunM_upd_new (T : CView S) (u : Up S) (c : SubP S) (hn : ¬ prunM T c) (hp : prunM (T.upd u) c) :
    u.1 = c.state ∧ u.2.1 = c.depth ∧ prunBy (upThr u) c.value ∧ (T.upd u) c.state c.depth = some (upThr u) := by
  obtain ⟨t, ht, hpb⟩ := hp
  by_cases hc : c.depth = u.2.1 ∧ c.state = u.1
  · obtain ⟨t', ht', _, _, hor⟩ := upd_cell_ge T u
    rw [← hc.1, ← hc.2] at ht' hor
    rw [ht] at ht'
    cases ht'
    rcases hor with e | e
    · subst e; exact ⟨hc.2.symm, hc.1.symm, hpb, ht⟩
    · exact absurd ⟨t, e, hpb⟩ hn
  · rw [upd_other T u _ _ hc] at ht
    exact absurd ⟨t, ht, hpb⟩ hn

/-- a node of the written cell that the written threshold alone does not refuse is not refused by a cell that holds
    exactly that threshold -/
theorem not_prun_of_cell (T : CView S) (c : SubP S) (t : Thr) (hT : T c.state c.depth = some t) (h : ¬ prunBy t c.value) :
    ¬ prunM T c := by
  rintro ⟨t', ht', hp⟩
  rw [hT] at ht'; cases ht'
  exact h hp

section
variable (H : Nat → S → EInt) (opt : Int) (Sol : List Dec → Int → Prop) (Rg : Nat → Int → Prop)

/-! ## what carries a potential -/

def Carries (c : SubP S) (x : Int) (d : Nat) : Prop := d ≤ c.depth ∧ ∃ y, optOf H c = some y ∧ x ≤ y

theorem Carries.mono {c : SubP S} {x x' : Int} {d d' : Nat} (h : Carries H c x d) (hx : x' ≤ x) (hd : d' ≤ d) :
    Carries H c x' d' := by
  obtain ⟨h1, y, hy, h2⟩ := h
  exact ⟨by omega, y, hy, by omega⟩

/-- same cell, larger value: larger potential -/
theorem carries_cell {c n : SubP S} {x : Int} {d : Nat} (h : Carries H c x d) (hs : n.state = c.state) (hd : n.depth = c.depth)
    (hv : c.value ≤ n.value) : Carries H n x d := by
  obtain ⟨h1, y, hy, h2⟩ := h
  obtain ⟨hh, hH, hyh⟩ := optOf_some H c y hy
  refine ⟨by omega, n.value + hh, ?_, by omega⟩
  unfold optOf EInt.addI
  rw [hd, hs, hH]
  simp only [Option.map_some]
  congr 1
  omega

/-- carried by what worker `w` holds: the node in hand, or a node of its pending cut-set the cache does not refuse -/
def WLive (T : CView S) (w : KW S) (x : Int) (d : Nat) : Prop :=
  (∃ n, w.openNode = some n ∧ Carries H n x d) ∨ (∃ c ∈ w.pendCut, Carries H c x d ∧ ¬ prunM T c)

def LiveC (F : List (SubP S)) (T : CView S) (ws : List (KW S)) (x : Int) (d : Nat) : Prop :=
  (∃ c ∈ F, Carries H c x d ∧ ¬ prunM T c) ∨ ∃ (j : Nat) (w : KW S), ws[j]? = some w ∧ WLive H T w x d

def Live (s : KSys S) (x : Int) (d : Nat) : Prop := LiveC H s.crit.base.fringe (viewOf s.cache) s.ws x d

def BeatsC (lb : Int) (ws : List (KW S)) (x : Int) : Prop :=
  lb < x ∧ ∀ (j : Nat) (w : KW S) (v : Int), ws[j]? = some w → w.pendVal = some v → v < x

def Beats (s : KSys S) (x : Int) : Prop := BeatsC s.crit.base.bestLb s.ws x

theorem BeatsC.up {lb : Int} {ws : List (KW S)} {x x' : Int} (h : BeatsC lb ws x) (hx : x ≤ x') : BeatsC lb ws x' :=
  ⟨by have := h.1; omega, fun j w v hw hv => by have := h.2 j w v hw hv; omega⟩

theorem WLive.mono {T : CView S} {w : KW S} {x x' : Int} {d d' : Nat} (h : WLive H T w x d) (hx : x' ≤ x) (hd : d' ≤ d) :
    WLive H T w x' d' := by
  rcases h with ⟨n, hn, hc⟩ | ⟨c, hc, hcc, hp⟩
  · exact .inl ⟨n, hn, hc.mono H hx hd⟩
  · exact .inr ⟨c, hc, hcc.mono H hx hd, hp⟩

theorem LiveC.mono {F : List (SubP S)} {T : CView S} {ws : List (KW S)} {x x' : Int} {d d' : Nat}
    (h : LiveC H F T ws x d) (hx : x' ≤ x) (hd : d' ≤ d) : LiveC H F T ws x' d' := by
  rcases h with ⟨c, hc, hcc, hp⟩ | ⟨j, w, hw, hl⟩
  · exact .inl ⟨c, hc, hcc.mono H hx hd, hp⟩
  · exact .inr ⟨j, w, hw, hl.mono H hx hd⟩

/-- the threshold `(st, d, θ)` is justified in `s` -/
def Jst (s : KSys S) (st : S) (d : Nat) (θ : Int) : Prop :=
  ∀ v h, Rg d v → v ≤ θ → H d st = some h → Beats s (v + h) → Live H s (v + h) d

/-- the bound of `c` is valid, up to what is carried strictly deeper -/
def UbOk (s : KSys S) (c : SubP S) : Prop :=
  ∀ y, optOf H c = some y → Beats s y → y ≤ c.ub ∨ Live H s y (c.depth + 1)

/-! ## the contracts -/

/-- what is known about a finished compilation that records thresholds: the contract `CompC` of the sequential proof
    relative to the virtual cache `cv` and the stale incumbent `lb`, the strict threshold contract, and `fresh1` -/
structure CompK (n : SubP S) (lb : Int) (cv : Cache S) (o : DDOut S) (ups : List (Up S)) : Prop where
  c : CompC H opt Sol Rg n lb (viewOf cv) o ups (bkOf lb o.bestExact)
  th : ThetaStrict H Rg (viewOf cv) o ups (bkOf lb o.bestExact)
  fresh1 : ∀ u ∈ ups, ∀ c ∈ o.cutset, c.ub > bkOf lb o.bestExact → ¬ prunM ((viewOf cv).upd u) c

/-- contract of a restricted compilation: sound; if exact, `CompK`; if not, it records nothing -/
def OkRc (n : SubP S) (lb : Int) (cv : Cache S) (o : DDOut S) (ups : List (Up S)) : Prop :=
  (∀ w, o.bestExact = some w → ∃ p, o.bestExactSol = some p ∧ Sol p w ∧ w ≤ opt) ∧
  (o.isExact = true → CompK H opt Sol Rg n lb cv o ups) ∧ (o.isExact = false → ups = [])

/-- contract of a relaxed compilation -/
def OkXc (n : SubP S) (lb : Int) (cv : Cache S) (o : DDOut S) (ups : List (Up S)) : Prop :=
  CompK H opt Sol Rg n lb cv o ups

/-- every entry of the virtual cache was an entry of the shared cache -/
def CvOk (log : List (Cache S)) (cv : Cache S) : Prop :=
  ∀ st d t, viewOf cv st d = some t → ∃ c ∈ log, viewOf c st d = some t

theorem CvOk.mono {log log' : List (Cache S)} {cv : Cache S} (h : CvOk log cv) (hl : ∀ c ∈ log, c ∈ log') : CvOk log' cv :=
  fun st d t ht => by obtain ⟨c, hc, e⟩ := h st d t ht; exact ⟨c, hl c hc, e⟩

/-- what a worker carries -/
def WOk (lbNow : Int) (log : List (Cache S)) : KW S → Prop
  | .compR _ lb _ => lb ≤ lbNow
  | .compX _ lb _ => lb ≤ lbNow
  | .wrR n lb o cv ups todo => lb ≤ lbNow ∧ OkRc H opt Sol Rg n lb cv o ups ∧ (∀ u ∈ todo, u ∈ ups) ∧ CvOk log cv
  | .wrX n lb o cv ups todo => lb ≤ lbNow ∧ OkXc H opt Sol Rg n lb cv o ups ∧ (∀ u ∈ todo, u ∈ ups) ∧ CvOk log cv
  | .enq n lb o cv ups => lb ≤ lbNow ∧ OkXc H opt Sol Rg n lb cv o ups ∧ o.isExact = false ∧
      bkOf lb o.bestExact ≤ lbNow ∧ CvOk log cv
  | _ => True

theorem WOk.mono {lb lb' : Int} {log log' : List (Cache S)} (hlb : lb ≤ lb') (hl : ∀ c ∈ log, c ∈ log') {w : KW S}
    (h : WOk H opt Sol Rg lb log w) : WOk H opt Sol Rg lb' log' w := by
  cases w <;> simp only [WOk] at h ⊢
  · omega
  · exact ⟨by omega, h.2.1, h.2.2.1, h.2.2.2.mono hl⟩
  · omega
  · exact ⟨by omega, h.2.1, h.2.2.1, h.2.2.2.mono hl⟩
  · exact ⟨by omega, h.2.1, h.2.2.1, by omega, h.2.2.2.2.mono hl⟩

theorem wake_wok {lb : Int} {log : List (Cache S)} {w : KW S} (h : WOk H opt Sol Rg lb log w) :
    WOk H opt Sol Rg lb log w.wake := by
  cases w <;> first | exact h | trivial

/-! ## the invariant -/

/-- `c` can be refused by the cache: a fringe node or a node of a pending cut-set -/
def Prunable (s : KSys S) (c : SubP S) : Prop :=
  c ∈ s.crit.base.fringe ∨ ∃ (j : Nat) (w : KW S), s.ws[j]? = some w ∧ c ∈ w.pendCut

def Held (s : KSys S) (c : SubP S) : Prop := ∃ (j : Nat) (w : KW S), s.ws[j]? = some w ∧ w.openNode = some c

/-- just popped: the test `node.ub ≤ best_lb` of `process_one_node` is still ahead -/
def Fresh (s : KSys S) (c : SubP S) : Prop := ∃ j : Nat, s.ws[j]? = some (.gwW c) ∨ s.ws[j]? = some (.readR c)

structure KPInv (s : KSys S) : Prop where
  good : ∀ c, (Prunable s c ∨ Held s c) → Good (optOf H) opt c
  rng : ∀ c, Prunable s c → Rg c.depth c.value
  lbOk : s.crit.base.bestLb ≤ opt
  solOk : ∀ p, s.crit.base.bestSol = some p → Sol p s.crit.base.bestLb
  cur : s.cache ∈ s.log
  root : Beats s opt → Live H s opt 0
  jst : ∀ c ∈ s.log, ∀ st d t, viewOf c st d = some t → Jst H Rg s st d t.value
  ub : ∀ c, (Prunable s c ∨ Fresh s c) → UbOk H s c
  /-- between `gwKeep` and `gwTake` the kept node has the largest bound of the fringe (recorded; no other clause needs it:
      the best-first pop is only used by `gwStarve`) -/
  popmax : ∀ (j : Nat) (n : SubP S), s.ws[j]? = some (.gwW n) → ∀ c ∈ s.crit.base.fringe, c.ub ≤ n.ub
  wok : ∀ (j : Nat) (w : KW S), s.ws[j]? = some w → WOk H opt Sol Rg s.crit.base.bestLb s.log w
  doneOk : (∃ j : Nat, s.ws[j]? = some .done) → s.crit.base.bestLb = opt

/-! ## depth bound and the transfer principle -/

theorem ws_depth_bound (ws : List (KW S)) : ∃ D, ∀ (j : Nat) (w : KW S), ws[j]? = some w →
    (∀ n, w.openNode = some n → n.depth ≤ D) ∧ ∀ c ∈ w.pendCut, c.depth ≤ D := by
  induction ws with
  | nil => exact ⟨0, fun j w h => by simp at h⟩
  | cons a ws ih =>
    obtain ⟨D, hD⟩ := ih
    obtain ⟨D1, hD1⟩ := depth_bound a.pendCut
    have hopen : ∃ D2, ∀ n, a.openNode = some n → n.depth ≤ D2 := by
      cases ho : a.openNode with
      | none => exact ⟨0, fun n hn => by cases hn⟩
      | some m => exact ⟨m.depth, fun n hn => by cases hn; exact Nat.le_refl _⟩
    obtain ⟨D2, hD2⟩ := hopen
    refine ⟨max D (max D1 D2), fun j w hw => ?_⟩
    cases j with
    | zero =>
      simp only [List.getElem?_cons_zero, Option.some.injEq] at hw
      subst hw
      exact ⟨fun n hn => by have := hD2 n hn; omega, fun c hc => by have := hD1 c hc; omega⟩
    | succ j =>
      simp only [List.getElem?_cons_succ] at hw
      obtain ⟨h1, h2⟩ := hD j w hw
      exact ⟨fun n hn => by have := h1 n hn; omega, fun c hc => by have := h2 c hc; omega⟩

/-- nothing is carried beyond some depth -/
theorem live_depth_bound (s : KSys S) : ∃ D, ∀ x d, Live H s x d → d ≤ D := by
  obtain ⟨D1, hD1⟩ := depth_bound s.crit.base.fringe
  obtain ⟨D2, hD2⟩ := ws_depth_bound s.ws
  refine ⟨max D1 D2, fun x d h => ?_⟩
  rcases h with ⟨c, hc, hcc, _⟩ | ⟨j, w, hw, ⟨n, hn, hcc⟩ | ⟨c, hc, hcc, _⟩⟩
  · have := hD1 c hc; have := hcc.1; omega
  · have := (hD2 j w hw).1 n hn; have := hcc.1; omega
  · have := (hD2 j w hw).2 c hc; have := hcc.1; omega

/-- **the transfer principle**: if every `Live` fact of `s` whose potential still beats in `t` either holds in `t` or is
    dominated by a `Live` fact of `s` strictly deeper, then every such fact holds in `t` -/
theorem tp_of_local {s t : KSys S}
    (hloc : ∀ x d, Beats t x → Live H s x d → Live H t x d ∨ ∃ x' d', x ≤ x' ∧ d < d' ∧ Live H s x' d') :
    ∀ x d, Beats t x → Live H s x d → Live H t x d := by
  obtain ⟨D, hD⟩ := live_depth_bound H s
  have key : ∀ n x d, D < d + n → Beats t x → Live H s x d → Live H t x d := by
    intro n
    induction n with
    | zero => intro x d hd _ hl; have := hD x d hl; omega
    | succ n ih =>
      intro x d hd hb hl
      rcases hloc x d hb hl with h | ⟨x', d', hx, hdd, hl'⟩
      · exact h
      · exact (ih x' d' (by omega) (hb.up hx) hl').mono H hx (by omega)
  exact fun x d => key (D + 1) x d (by omega)

/-- what a transfer gives for free -/
theorem Jst.transfer {s t : KSys S} (hB : ∀ x, Beats t x → Beats s x)
    (hT : ∀ x d, Beats t x → Live H s x d → Live H t x d) {st : S} {d : Nat} {θ : Int} (h : Jst H Rg s st d θ) :
    Jst H Rg t st d θ :=
  fun v hh hrg hv hH hb => hT _ _ hb (h v hh hrg hv hH (hB _ hb))

theorem UbOk.transfer {s t : KSys S} (hB : ∀ x, Beats t x → Beats s x)
    (hT : ∀ x d, Beats t x → Live H s x d → Live H t x d) {c : SubP S} (h : UbOk H s c) : UbOk H t c := by
  intro y hy hb
  rcases h y hy (hB _ hb) with h1 | h1
  · exact .inl h1
  · exact .inr (hT _ _ hb h1)

/-! ## consequences of the invariant used by several steps -/

/-- what the virtual cache of a worker prunes deeper than `d` is carried strictly deeper than `d` -/
theorem cov_live {s : KSys S} (hI : KPInv H opt Sol Rg s) {cv : Cache S} (hcv : CvOk s.log cv) {d : Nat} {x : Int}
    (hc : CacheCov H Rg (viewOf cv) d x) (hb : Beats s x) : ∃ x' d', x ≤ x' ∧ d < d' ∧ Live H s x' d' := by
  obtain ⟨st, d', t, v, h, hT, hdd, hrg, hvt, hH, hle⟩ := hc
  obtain ⟨c, hc, hTc⟩ := hcv st d' t hT
  exact ⟨v + h, d', hle, hdd, hI.jst c hc st d' t hTc v h hrg hvt hH (hb.up hle)⟩

/-- the potential of a prunable node, if it beats, is carried at its depth: by itself, or — if the cache refuses it — by
    what justifies the entry that refuses it -/
theorem prunable_live {s : KSys S} (hI : KPInv H opt Sol Rg s) {c : SubP S} (hc : Prunable s c) {y : Int}
    (hy : optOf H c = some y) (hb : Beats s y) : Live H s y c.depth := by
  by_cases hp : prunM (viewOf s.cache) c
  · obtain ⟨t, ht, hpb⟩ := hp
    obtain ⟨hh, hH, hyh⟩ := optOf_some H c y hy
    have := hI.jst s.cache hI.cur c.state c.depth t ht c.value hh (hI.rng c hc)
      (by rcases hpb with h | ⟨h, _⟩ <;> omega) hH (by rw [← hyh]; exact hb)
    rw [← hyh] at this
    exact this
  · rcases hc with hc | ⟨j, w, hw, hc⟩
    · exact .inl ⟨c, hc, ⟨Nat.le_refl _, y, hy, Int.le_refl _⟩, hp⟩
    · exact .inr ⟨j, w, hw, .inr ⟨c, hc, ⟨Nat.le_refl _, y, hy, Int.le_refl _⟩, hp⟩⟩

end
end Ddo.ParCache
