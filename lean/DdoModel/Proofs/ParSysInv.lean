import DdoModel.ParSys
import DdoModel.Proofs.SeqInv
import DdoModel.Proofs.SeqInvDedup
/-! The coverage invariant `SysInv` of the concrete parallel transition system `ParSys` and its
    preservation by every `Step` (every section of every worker, in every interleaving), under the
    diagram contracts `CompileOk` / `CutsetOk` taken relative to the *stale* incumbent the worker read.
    Setting as in `Proofs/SeqInv.lean`: abstract `Phi`, `opt`, `Sol`.  Core Lean only. -/
set_option linter.unusedSectionVars false
set_option linter.unusedVariables false
namespace Ddo.ParSys
variable {S : Type} [DecidableEq S]

/-! ### lists -/

theorem get_set_self {α : Type} {l : List α} {i : Nat} {w a : α} (h : l[i]? = some w) : (l.set i a)[i]? = some a := by
  obtain ⟨hlt, _⟩ := List.getElem?_eq_some_iff.mp h
  exact List.getElem?_set_self hlt

theorem get_set_split {α : Type} {l : List α} {i j : Nat} {a b : α} (h : (l.set i a)[j]? = some b) :
    (j = i ∧ b = a) ∨ (j ≠ i ∧ l[j]? = some b) := by
  by_cases e : i = j
  · subst e
    rw [List.getElem?_set] at h
    simp only [if_true] at h
    split at h
    · injection h with h; exact Or.inl ⟨rfl, h.symm⟩
    · cases h
  · rw [List.getElem?_set_ne e] at h
    exact Or.inr ⟨fun e' => e e'.symm, h⟩

theorem countP_set {α : Type} (p : α → Bool) {l : List α} {i : Nat} {w : α} (a : α) (h : l[i]? = some w) :
    (l.set i a).countP p + (if p w then 1 else 0) = l.countP p + (if p a then 1 else 0) := by
  induction l generalizing i with
  | nil => cases h
  | cons x xs ih =>
    cases i with
    | zero =>
      simp only [List.getElem?_cons_zero] at h
      injection h with h; subst h
      simp only [List.set_cons_zero, List.countP_cons]
      omega
    | succ i =>
      simp only [List.getElem?_cons_succ] at h
      simp only [List.set_cons_succ, List.countP_cons]
      have := ih h
      omega

theorem foldl_max_ge_init (l : List Int) (a : Int) : a ≤ l.foldl max a := by
  induction l generalizing a with
  | nil => exact Int.le_refl _
  | cons x xs ih => simp only [List.foldl_cons]; have := ih (max a x); omega

theorem foldl_max_ge_mem (l : List Int) (a x : Int) (h : x ∈ l) : x ≤ l.foldl max a := by
  induction l generalizing a with
  | nil => cases h
  | cons y ys ih =>
    simp only [List.foldl_cons]
    rcases List.mem_cons.mp h with e | e
    · subst e; have := foldl_max_ge_init ys (max a x); omega
    · exact ih (max a y) e

/-! ### the critical sections, field by field -/

theorem popLoop_single (c : ParCrit S) (N : SubP S) :
    popLoop c [(N, true)] 0 =
      if N.ub ≤ c.base.bestLb then
        ({ c with base := { c.base with fringe := [], openByLayer := c.base.openByLayer.map (fun _ => 0) } }, some none, 1)
      else (c, some (some N), 1) := by
  simp [popLoop]

theorem take_spec {c c' : ParCrit S} {i : Nat} {nn : SubP S} (h : c.take i nn = some c') :
    c'.base.fringe = c.base.fringe ∧ c'.base.bestLb = c.base.bestLb ∧ c'.base.bestSol = c.base.bestSol ∧
    c'.base.bestUb = c.base.bestUb ∧ c'.base.abort = c.base.abort ∧ c'.ongoing = c.ongoing + 1 ∧
    c'.upperBounds = c.upperBounds.set i nn.ub ∧ i < c.upperBounds.length := by
  unfold ParCrit.take at h
  split at h
  · next hi =>
    split at h
    · injection h with h; subst h; exact ⟨rfl, rfl, rfl, rfl, rfl, rfl, rfl, hi⟩
    · cases h
  · cases h

theorem notify_spec {c c' : ParCrit S} {i d : Nat} (h : c.notifyFinished i d = some c') :
    c'.base = c.base ∧ c'.ongoing + 1 = c.ongoing ∧ c'.upperBounds = c.upperBounds.set i iMin ∧
    i < c.upperBounds.length := by
  unfold ParCrit.notifyFinished at h
  split at h
  · cases h
  · next ho =>
    split at h
    · next hi =>
      split at h
      · injection h with h; subst h; exact ⟨rfl, by simp only; omega, rfl, hi⟩
      · cases h
    · cases h


/-! ### the invariant -/

/-- `x` is open: in the fringe or in the hand of a worker that has not closed it yet -/
def Open (s : Sys S) (x : SubP S) : Prop :=
  x ∈ s.crit.base.fringe ∨ ∃ (i : Nat) (w : WSt S), s.ws[i]? = some w ∧ w.openNode = some x

theorem mem_openList (s : Sys S) (x : SubP S) : x ∈ s.openList ↔ Open s x := by
  unfold Sys.openList Open
  rw [List.mem_append, List.mem_filterMap]
  constructor
  · rintro (h | ⟨w, hw, hx⟩)
    · exact Or.inl h
    · obtain ⟨i, hi⟩ := List.mem_iff_getElem?.mp hw
      exact Or.inr ⟨i, w, hi, hx⟩
  · rintro (h | ⟨i, w, hi, hx⟩)
    · exact Or.inl h
    · exact Or.inr ⟨w, List.mem_iff_getElem?.mpr ⟨i, hi⟩, hx⟩

/-- open in the hand of a worker other than `i` -/
def Others (ws : List (WSt S)) (i : Nat) (x : SubP S) : Prop :=
  ∃ (j : Nat) (wj : WSt S), j ≠ i ∧ ws[j]? = some wj ∧ wj.openNode = some x

theorem open_split {s : Sys S} {i : Nat} {w : WSt S} (hw : s.ws[i]? = some w) (x : SubP S) :
    Open s x ↔ (x ∈ s.crit.base.fringe ∨ w.openNode = some x ∨ Others s.ws i x) := by
  unfold Open Others
  constructor
  · rintro (h | ⟨j, wj, hj, hx⟩)
    · exact Or.inl h
    · by_cases e : j = i
      · subst e; rw [hw] at hj; injection hj with hj; subst hj; exact Or.inr (Or.inl hx)
      · exact Or.inr (Or.inr ⟨j, wj, e, hj, hx⟩)
  · rintro (h | h | ⟨j, wj, _, hj, hx⟩)
    · exact Or.inl h
    · exact Or.inr ⟨i, w, hw, h⟩
    · exact Or.inr ⟨j, wj, hj, hx⟩

theorem others_set (ws : List (WSt S)) (i : Nat) (w' : WSt S) (x : SubP S) :
    Others (ws.set i w') i x ↔ Others ws i x := by
  unfold Others
  constructor
  · rintro ⟨j, wj, hne, hj, hx⟩
    rw [List.getElem?_set_ne (fun e => hne e.symm)] at hj
    exact ⟨j, wj, hne, hj, hx⟩
  · rintro ⟨j, wj, hne, hj, hx⟩
    exact ⟨j, wj, hne, by rw [List.getElem?_set_ne (fun e => hne e.symm)]; exact hj, hx⟩

theorem open_set {s : Sys S} {i : Nat} {w : WSt S} (hw : s.ws[i]? = some w) (c' : ParCrit S) (w' : WSt S) (x : SubP S) :
    Open { crit := c', ws := s.ws.set i w' } x ↔ (x ∈ c'.base.fringe ∨ w'.openNode = some x ∨ Others s.ws i x) := by
  rw [open_split (s := { crit := c', ws := s.ws.set i w' }) (get_set_self hw) x, others_set]

/-- the cell of `upper_bounds` a worker state determines (`none`: no constraint) -/
def WSt.slot : WSt S → Option Int
  | .idle | .waiting | .done => some iMin
  | .crashed _ => none
  | .readR n | .compR n _ | .updR n _ _ | .readX n | .compX n _ | .updX n _ _
  | .enq n _ _ | .abortS n | .fin n _ => some n.ub

theorem slot_of_open {w : WSt S} {n : SubP S} (h : w.openNode = some n) (hc : w.isCrashed = false) :
    w.slot = some n.ub := by
  cases w <;> simp_all [WSt.openNode, WSt.isCrashed, WSt.slot]

theorem wake_openNode (w : WSt S) : w.wake.openNode = w.openNode := by cases w <;> rfl
theorem wake_holds (w : WSt S) : w.wake.holds = w.holds := by cases w <;> rfl
theorem wake_slot (w : WSt S) : w.wake.slot = w.slot := by cases w <;> rfl
theorem wake_isCrashed (w : WSt S) : w.wake.isCrashed = w.isCrashed := by cases w <;> rfl

section
variable (Phi : SubP S → EInt) (opt : Int) (Sol : List Dec → Int → Prop)

/-- the contract of the restricted compilation -/
def OkR (n : SubP S) (lb : Int) (o : DDOut S) : Prop := CompileOk Phi opt Sol n lb o
/-- the contract of the relaxed compilation: the same, and the cut-set contract when it is not exact -/
def OkX (n : SubP S) (lb : Int) (o : DDOut S) : Prop :=
  CompileOk Phi opt Sol n lb o ∧ (o.isExact = false → CutsetOk Phi opt n lb o)

/-- what is assumed of `Phi`: it ignores the bound; with the duplicate-free fringe it reads a sub-problem
    through `(state, depth, value)` only, monotonically in the value -/
def PhiOk (dedup : Bool) : Prop :=
  (∀ (c : SubP S) (u : Int), Phi { c with ub := u } = Phi c) ∧ (dedup = true → PhiMono Phi)

/-- stage facts: what a worker knows is consistent with the *current* incumbent `lbNow` -/
def WOk (lbNow : Int) : WSt S → Prop
  | .compR _ lb => lb ≤ lbNow
  | .updR n lb o => lb ≤ lbNow ∧ CompileOk Phi opt Sol n lb o
  | .compX _ lb => lb ≤ lbNow
  | .updX n lb o => lb ≤ lbNow ∧ CompileOk Phi opt Sol n lb o ∧ (o.isExact = false → CutsetOk Phi opt n lb o)
  | .enq n lb o => lb ≤ lbNow ∧ CutsetOk Phi opt n lb o ∧ (∀ w, o.bestExact = some w → w ≤ lbNow)
  | _ => True

theorem WOk.mono {lb lb' : Int} (h : lb ≤ lb') {w : WSt S} (hw : WOk Phi opt Sol lb w) : WOk Phi opt Sol lb' w := by
  cases w <;> simp only [WOk] at hw ⊢
  case compR => omega
  case updR => exact ⟨by omega, hw.2⟩
  case compX => omega
  case updX => exact ⟨by omega, hw.2⟩
  case enq => exact ⟨by omega, hw.2.1, fun w hw' => by have := hw.2.2 w hw'; omega⟩

theorem wake_WOk (lb : Int) (w : WSt S) : WOk Phi opt Sol lb w.wake ↔ WOk Phi opt Sol lb w := by
  cases w <;> exact Iff.rfl

/-- facts about an open node, relative to the shared record `b` -/
def NodeOk (b : SeqSt S) (live : Bool) (n : SubP S) : Prop :=
  Good Phi opt n ∧ UbOk Phi b.bestLb n ∧ (b.abort = true → live = true → n.ub ≤ b.bestUb)

/-- the shared record moved forward: the incumbent did not decrease, an abort bound did not decrease -/
def CritLe (b b' : SeqSt S) : Prop :=
  b.bestLb ≤ b'.bestLb ∧ (b'.abort = true → b.abort = true ∧ b.bestUb ≤ b'.bestUb)

theorem CritLe.refl (b : SeqSt S) : CritLe b b := ⟨Int.le_refl _, fun h => ⟨h, Int.le_refl _⟩⟩

theorem NodeOk.mono {b b' : SeqSt S} (h : CritLe b b') {live : Bool} {n : SubP S} (hn : NodeOk Phi opt b live n) :
    NodeOk Phi opt b' live n :=
  ⟨hn.1, ubOk_mono Phi h.1 hn.2.1, fun ha hl => by
    obtain ⟨ha0, hle⟩ := h.2 ha
    have := hn.2.2 ha0 hl; omega⟩

/-- facts about a fringe entry, relative to the shared record `b`.  Since `enqueue_cutset` no longer caps the bound of a
    cut-set node by the bound of the node just processed (repair of D14), a worker that enqueues *after* another worker's
    `abort_search` may push nodes whose bound exceeds the recorded `best_ub`; what stays below the recorded bound is every
    *value* through such an entry that beats the incumbent (it is a value through the enqueuing worker's node, whose bound
    `abort_search` covered) -/
def FrNodeOk (b : SeqSt S) (n : SubP S) : Prop :=
  Good Phi opt n ∧ UbOk Phi b.bestLb n ∧ (b.abort = true → ∀ y, Phi n = some y → y > b.bestLb → y ≤ b.bestUb)

theorem FrNodeOk.mono {b b' : SeqSt S} (h : CritLe b b') {n : SubP S} (hn : FrNodeOk Phi opt b n) :
    FrNodeOk Phi opt b' n :=
  ⟨hn.1, ubOk_mono Phi h.1 hn.2.1, fun ha y hy hgt => by
    obtain ⟨ha0, hle⟩ := h.2 ha
    have := hn.2.2 ha0 y hy (by have := h.1; omega); omega⟩

/-- a fringe entry that is popped (the search is not aborted) is a fine node in hand -/
theorem FrNodeOk.toNode {b : SeqSt S} (ha : b.abort = false) (live : Bool) {n : SubP S} (hn : FrNodeOk Phi opt b n) :
    NodeOk Phi opt b live n :=
  ⟨hn.1, hn.2.1, fun h => by rw [ha] at h; cases h⟩

/-- everything the invariant says about worker `i` in state `w` -/
structure Loc (c : ParCrit S) (i : Nat) (w : WSt S) : Prop where
  stage : WOk Phi opt Sol c.base.bestLb w
  slot : ∀ u, w.slot = some u → c.upperBounds[i]? = some u
  node : ∀ n, w.openNode = some n → NodeOk Phi opt c.base (!w.isCrashed) n

theorem Loc.mono {c c' : ParCrit S} {i : Nat} {w : WSt S} (h : Loc Phi opt Sol c i w)
    (hle : CritLe c.base c'.base) (hub : c'.upperBounds[i]? = c.upperBounds[i]?) : Loc Phi opt Sol c' i w :=
  ⟨WOk.mono Phi opt Sol hle.1 h.stage, fun u hu => by rw [hub]; exact h.slot u hu,
   fun n hn => (h.node n hn).mono Phi opt hle⟩

/-- the same node stays in hand, in another stage -/
theorem Loc.next {c c' : ParCrit S} {i : Nat} {w w' : WSt S} (h : Loc Phi opt Sol c i w)
    (hle : CritLe c.base c'.base) (hub : c'.upperBounds[i]? = c.upperBounds[i]?)
    (hslot : w'.slot = w.slot) (hcr : w'.isCrashed = w.isCrashed)
    (hopen : ∀ n, w'.openNode = some n → w.openNode = some n)
    (hst : WOk Phi opt Sol c'.base.bestLb w') : Loc Phi opt Sol c' i w' :=
  ⟨hst, fun u hu => by rw [hub]; exact h.slot u (hslot ▸ hu),
   fun n hn => by rw [hcr]; exact (h.node n (hopen n hn)).mono Phi opt hle⟩

/-- **the coverage invariant of the concrete parallel system** -/
structure SysInv (s : Sys S) : Prop where
  /-- the incumbent is a feasible value … -/
  lbOk : s.crit.base.bestLb ≤ opt
  /-- … namely the value of the stored solution, which is feasible -/
  solOk : ∀ p, s.crit.base.bestSol = some p → Sol p s.crit.base.bestLb
  /-- fringe entries are good, their bound is valid, and after an abort what they carry above the incumbent is below
      the recorded bound -/
  fr : ∀ n ∈ s.crit.base.fringe, FrNodeOk Phi opt s.crit.base n
  /-- per-worker facts: stage knowledge, `upper_bounds` cell, node in hand -/
  loc : ∀ (i : Nat) (w : WSt S), s.ws[i]? = some w → Loc Phi opt Sol s.crit i w
  /-- if the optimum beats the incumbent, an open node still carries it below its bound — or the search
      was aborted and the recorded bound covers it -/
  cover : opt > s.crit.base.bestLb →
    (∃ x, Open s x ∧ Phi x = some opt ∧ opt ≤ x.ub) ∨ (s.crit.base.abort = true ∧ opt ≤ s.crit.base.bestUb)
  /-- after an abort the recorded bound is not below the incumbent (fix D4b) -/
  abLb : s.crit.base.abort = true → s.crit.base.bestLb ≤ s.crit.base.bestUb
  /-- `ongoing` counts the workers that hold a node -/
  cnt : s.crit.ongoing = s.ws.countP WSt.holds
  /-- one cell of `upper_bounds` per worker -/
  len : s.ws.length = s.crit.upperBounds.length


theorem holds_of_open {w : WSt S} {x : SubP S} (h : w.openNode = some x) : w.holds = true := by
  cases w <;> simp_all [WSt.openNode, WSt.holds, WSt.node]

theorem others_mono {s : Sys S} (hi : SysInv Phi opt Sol s) (i : Nat) (c' : ParCrit S)
    (hle : CritLe s.crit.base c'.base)
    (hubs : ∀ j, j ≠ i → c'.upperBounds[j]? = s.crit.upperBounds[j]?) :
    ∀ (j : Nat) (wj : WSt S), j ≠ i → s.ws[j]? = some wj → Loc Phi opt Sol c' j wj :=
  fun j wj hne hj => (hi.loc j wj hj).mono Phi opt Sol hle (hubs j hne)

/-- generic step: worker `i` goes from `w` to `w'`, the shared record from `s.crit` to `c'` -/
theorem inv_set {s : Sys S} {i : Nat} {w : WSt S} (hi : SysInv Phi opt Sol s) (hw : s.ws[i]? = some w)
    (c' : ParCrit S) (w' : WSt S)
    (hab : s.crit.base.abort = true → c'.base.abort = true ∧ s.crit.base.bestUb ≤ c'.base.bestUb)
    (hlble : s.crit.base.bestLb ≤ c'.base.bestLb)
    (hlen : c'.upperBounds.length = s.crit.upperBounds.length)
    (hlb : c'.base.bestLb ≤ opt) (hsol : ∀ p, c'.base.bestSol = some p → Sol p c'.base.bestLb)
    (habLb : c'.base.abort = true → c'.base.bestLb ≤ c'.base.bestUb)
    (hfr : ∀ n ∈ c'.base.fringe, FrNodeOk Phi opt c'.base n)
    (hloc : Loc Phi opt Sol c' i w')
    (hothers : ∀ (j : Nat) (wj : WSt S), j ≠ i → s.ws[j]? = some wj → Loc Phi opt Sol c' j wj)
    (hcnt : c'.ongoing + (if w.holds then 1 else 0) = s.crit.ongoing + (if w'.holds then 1 else 0))
    (hcov : opt > c'.base.bestLb → ∀ x, Open s x → Phi x = some opt → opt ≤ x.ub →
      (∃ y, (y ∈ c'.base.fringe ∨ w'.openNode = some y ∨ Others s.ws i y) ∧ Phi y = some opt ∧ opt ≤ y.ub) ∨
      (c'.base.abort = true ∧ opt ≤ c'.base.bestUb)) :
    SysInv Phi opt Sol { crit := c', ws := s.ws.set i w' } := by
  refine ⟨hlb, hsol, hfr, ?_, ?_, habLb, ?_, ?_⟩
  · intro j wj hj
    rcases get_set_split hj with ⟨rfl, rfl⟩ | ⟨hne, hj'⟩
    · exact hloc
    · exact hothers j wj hne hj'
  · intro hgt
    have hgt : opt > c'.base.bestLb := hgt
    have hgt0 : opt > s.crit.base.bestLb := by omega
    rcases hi.cover hgt0 with ⟨x, hx, hP, hU⟩ | ⟨ha, hu⟩
    · rcases hcov hgt x hx hP hU with ⟨y, hy, hPy, hUy⟩ | h
      · exact Or.inl ⟨y, (open_set hw c' w' y).mpr hy, hPy, hUy⟩
      · exact Or.inr h
    · obtain ⟨ha', hle⟩ := hab ha
      refine Or.inr ⟨ha', ?_⟩
      show opt ≤ c'.base.bestUb
      omega
  · show c'.ongoing = (s.ws.set i w').countP WSt.holds
    have h1 := countP_set WSt.holds w' hw
    have h2 := hi.cnt
    omega
  · show (s.ws.set i w').length = c'.upperBounds.length
    rw [List.length_set, hlen]; exact hi.len

/-- the cover witness survives when the fringe and the node in hand are untouched -/
theorem cov_same {s : Sys S} {i : Nat} {w : WSt S} (hw : s.ws[i]? = some w) (c' : ParCrit S) (w' : WSt S)
    (hfr : c'.base.fringe = s.crit.base.fringe) (hop : w'.openNode = w.openNode) :
    opt > c'.base.bestLb → ∀ x, Open s x → Phi x = some opt → opt ≤ x.ub →
      (∃ y, (y ∈ c'.base.fringe ∨ w'.openNode = some y ∨ Others s.ws i y) ∧ Phi y = some opt ∧ opt ≤ y.ub) ∨
      (c'.base.abort = true ∧ opt ≤ c'.base.bestUb) := by
  intro _ x hx hP hU
  refine Or.inl ⟨x, ?_, hP, hU⟩
  rw [hfr, hop]
  exact (open_split hw x).mp hx

/-- a purely local step: only worker `i` changes, keeping its node -/
theorem inv_local {s : Sys S} {i : Nat} {w : WSt S} (hi : SysInv Phi opt Sol s) (hw : s.ws[i]? = some w) (w' : WSt S)
    (hslot : w'.slot = w.slot) (hcr : w'.isCrashed = w.isCrashed) (hh : w'.holds = w.holds)
    (hopen : ∀ n, w'.openNode = some n → w.openNode = some n)
    (hst : WOk Phi opt Sol s.crit.base.bestLb w')
    (hcov : opt > s.crit.base.bestLb → ∀ x, Open s x → Phi x = some opt → opt ≤ x.ub →
      (∃ y, (y ∈ s.crit.base.fringe ∨ w'.openNode = some y ∨ Others s.ws i y) ∧ Phi y = some opt ∧ opt ≤ y.ub) ∨
      (s.crit.base.abort = true ∧ opt ≤ s.crit.base.bestUb)) :
    SysInv Phi opt Sol { crit := s.crit, ws := s.ws.set i w' } :=
  inv_set Phi opt Sol hi hw s.crit w' (fun h => ⟨h, Int.le_refl _⟩) (Int.le_refl _) rfl hi.lbOk hi.solOk hi.abLb hi.fr
    ((hi.loc i w hw).next Phi opt Sol (CritLe.refl _) rfl hslot hcr hopen hst)
    (others_mono Phi opt Sol hi i s.crit (CritLe.refl _) (fun _ _ => rfl))
    (by rw [hh]) hcov


/-! ### `enqueue_cutset` on either fringe -/

/-- what the new fringe `F` is to the multiset `L` (old fringe + cut-set nodes that beat the
    incumbent): every entry has the potential of a member of `L`, a bound not smaller than that member's
    and equal to the bound of a member; every member is covered by an entry -/
def FrOk (F : List (SubP S)) (L : SubP S → Prop) : Prop :=
  (∀ s ∈ F, ∃ a b, L a ∧ L b ∧ Phi s = Phi a ∧ a.ub ≤ s.ub ∧ s.ub = b.ub) ∧
  (∀ c, L c → ∃ s ∈ F, Phi c ≤ Phi s ∧ c.ub ≤ s.ub)

theorem enqueue_frOk (dedup : Bool) (hphi : PhiOk Phi dedup) (st : SeqSt S) (cs : List (SubP S)) :
    (st.enqueue dedup cs).bestLb = st.bestLb ∧ (st.enqueue dedup cs).bestSol = st.bestSol ∧
    (st.enqueue dedup cs).bestUb = st.bestUb ∧ (st.enqueue dedup cs).abort = st.abort ∧
    FrOk Phi (st.enqueue dedup cs).fringe
      (fun c => c ∈ st.fringe ∨ ∃ c0 ∈ cs, c = c0 ∧ c0.ub > st.bestLb) := by
  cases dedup
  · obtain ⟨e1, e2, e3, e4, e5⟩ := enqueue_false_spec st cs
    refine ⟨e1, e2, e3, e4, fun s hs => ?_, fun c hc => ?_⟩
    · exact ⟨s, s, (e5 s).mp hs, (e5 s).mp hs, rfl, Int.le_refl _, rfl⟩
    · exact ⟨c, (e5 c).mpr hc, EInt.le_refl _, Int.le_refl _⟩
  · obtain ⟨e1, e2, e3, e4, _, hco⟩ := enqueue_true_spec st cs
    have hmono := hphi.2 rfl
    refine ⟨e1, e2, e3, e4, fun s hs => ?_, fun c hc => ?_⟩
    · obtain ⟨a, b, ha, hb, rfl, hab⟩ := hco.1 s hs
      exact ⟨a, b, ha, hb, hmono.ub_irrel Phi a b.ub, hab, rfl⟩
    · obtain ⟨s, hs, hd⟩ := hco.2 c hc
      exact ⟨s, hs, hmono c s hd.state.symm hd.depth.symm hd.value, hd.ub⟩

/-! ### `abort_search` -/

theorem abort_spec (c : ParCrit S) (cur : Int) (top : Option Int) :
    (c.abortSearch cur top).base.bestLb = c.base.bestLb ∧ (c.abortSearch cur top).base.bestSol = c.base.bestSol ∧
    (c.abortSearch cur top).base.fringe = [] ∧ (c.abortSearch cur top).base.abort = true ∧
    (c.abortSearch cur top).ongoing = c.ongoing ∧ (c.abortSearch cur top).upperBounds = c.upperBounds ∧
    cur ≤ (c.abortSearch cur top).base.bestUb ∧
    (∀ x ∈ c.upperBounds, x ≤ (c.abortSearch cur top).base.bestUb) ∧
    (∀ t, top = some t → t ≤ (c.abortSearch cur top).base.bestUb) ∧
    (c.base.abort = true → c.base.bestUb ≤ (c.abortSearch cur top).base.bestUb) ∧
    c.base.bestLb ≤ (c.abortSearch cur top).base.bestUb := by
  have h0 := foldl_max_ge_init c.upperBounds cur
  have h1 := foldl_max_ge_mem c.upperBounds cur
  refine ⟨rfl, rfl, rfl, rfl, rfl, rfl, ?_, ?_, ?_, ?_, ?_⟩
  · show cur ≤ max (if c.base.abort then _ else _) _
    cases top <;> simp only <;> split <;> omega
  · intro x hx
    have := h1 x hx
    show x ≤ max (if c.base.abort then _ else _) _
    cases top <;> simp only <;> split <;> omega
  · intro t ht; subst ht
    show t ≤ max (if c.base.abort then _ else _) _
    simp only; split <;> omega
  · intro ha
    show c.base.bestUb ≤ max (if c.base.abort then _ else _) _
    rw [if_pos ha]; omega
  · show c.base.bestLb ≤ max _ c.base.bestLb
    omega

/-! ### `notify_all` -/

theorem inv_wake {s : Sys S} (hi : SysInv Phi opt Sol s) :
    SysInv Phi opt Sol { crit := s.crit, ws := s.ws.map WSt.wake } := by
  have hget : ∀ (j : Nat) (wj' : WSt S), (s.ws.map WSt.wake)[j]? = some wj' → ∃ wj, s.ws[j]? = some wj ∧ wj' = wj.wake := by
    intro j wj' h
    rw [List.getElem?_map] at h
    cases hj : s.ws[j]? with
    | none => rw [hj] at h; cases h
    | some wj => rw [hj] at h; injection h with h; exact ⟨wj, rfl, h.symm⟩
  refine ⟨hi.lbOk, hi.solOk, hi.fr, ?_, ?_, hi.abLb, ?_, ?_⟩
  · intro j wj' hj
    obtain ⟨wj, hj0, rfl⟩ := hget j wj' hj
    have h := hi.loc j wj hj0
    exact ⟨(wake_WOk Phi opt Sol _ wj).mpr h.stage, fun u hu => h.slot u (wake_slot wj ▸ hu),
      fun n hn => by rw [wake_isCrashed]; exact h.node n (wake_openNode wj ▸ hn)⟩
  · intro hgt
    rcases hi.cover hgt with ⟨x, hx, hP, hU⟩ | h
    · refine Or.inl ⟨x, ?_, hP, hU⟩
      rcases hx with hx | ⟨j, wj, hj, hx⟩
      · exact Or.inl hx
      · refine Or.inr ⟨j, wj.wake, ?_, by rw [wake_openNode]; exact hx⟩
        show (s.ws.map WSt.wake)[j]? = _
        rw [List.getElem?_map, hj]; rfl
    · exact Or.inr h
  · show s.crit.ongoing = (s.ws.map WSt.wake).countP WSt.holds
    rw [List.countP_map, hi.cnt]
    congr 1
    funext w; exact (wake_holds w).symm
  · show (s.ws.map WSt.wake).length = _
    rw [List.length_map]; exact hi.len


/-! ### the steps -/

theorem mem_of_popMax {fr rest : List (SubP S)} {N : SubP S} (hp : PopMax fr N rest) (x : SubP S) :
    x ∈ fr ↔ (x = N ∨ x ∈ rest) := by
  rw [hp.1.mem_iff, List.mem_cons]

theorem inv_gwAborted {s : Sys S} {i : Nat} (hi : SysInv Phi opt Sol s) (hw : s.ws[i]? = some .idle) :
    SysInv Phi opt Sol { crit := s.crit, ws := s.ws.set i .done } :=
  inv_local Phi opt Sol hi hw .done rfl rfl rfl (fun _ h => h) trivial (cov_same Phi opt hw s.crit .done rfl rfl)

theorem inv_gwWait {s : Sys S} {i : Nat} (hi : SysInv Phi opt Sol s) (hw : s.ws[i]? = some .idle) :
    SysInv Phi opt Sol { crit := s.crit, ws := s.ws.set i .waiting } :=
  inv_local Phi opt Sol hi hw .waiting rfl rfl rfl (fun _ h => h) trivial (cov_same Phi opt hw s.crit .waiting rfl rfl)

/-- nothing is open when `ongoing = 0` and the fringe is empty -/
theorem nothing_open {s : Sys S} (hi : SysInv Phi opt Sol s) (ho : s.crit.ongoing = 0) (hf : s.crit.base.fringe = [])
    (x : SubP S) : ¬ Open s x := by
  rintro (h | ⟨j, wj, hj, hx⟩)
  · rw [hf] at h; cases h
  · have h0 : s.ws.countP WSt.holds = 0 := by rw [← hi.cnt]; exact ho
    have := List.countP_eq_zero.mp h0 wj (List.mem_iff_getElem?.mpr ⟨j, hj⟩)
    exact this (holds_of_open hx)

theorem inv_gwComplete {s : Sys S} {i : Nat} (hi : SysInv Phi opt Sol s) (hw : s.ws[i]? = some .idle)
    (ha : s.crit.base.abort = false) (ho : s.crit.ongoing = 0) (hf : s.crit.base.fringe = []) :
    SysInv Phi opt Sol { crit := s.crit.complete, ws := s.ws.set i .done } := by
  have hle : CritLe s.crit.base s.crit.complete.base :=
    ⟨Int.le_refl _, fun h => by rw [show s.crit.complete.base.abort = s.crit.base.abort from rfl, ha] at h; cases h⟩
  refine inv_set Phi opt Sol hi hw s.crit.complete .done (fun h => by rw [ha] at h; cases h) (Int.le_refl _) rfl
    hi.lbOk hi.solOk (fun h => by rw [show s.crit.complete.base.abort = s.crit.base.abort from rfl, ha] at h; cases h)
    ?_ ?_ (others_mono Phi opt Sol hi i _ hle (fun _ _ => rfl)) rfl ?_
  · intro n hn
    rw [show s.crit.complete.base.fringe = s.crit.base.fringe from rfl, hf] at hn; cases hn
  · exact (hi.loc i _ hw).next Phi opt Sol hle rfl rfl rfl (fun _ h => h) trivial
  · intro _ x hx; exact absurd hx (nothing_open Phi opt Sol hi ho hf x)


theorem set_idle_self {ws : List (WSt S)} {i : Nat} {w : WSt S} (hw : ws[i]? = some w) : ws.set i w = ws := by
  obtain ⟨h, e⟩ := List.getElem?_eq_some_iff.mp hw
  rw [← e]; exact List.set_getElem_self h

theorem inv_gwStarve {s : Sys S} {i : Nat} {N : SubP S} {rest : List (SubP S)} {c' : ParCrit S} {k : Nat}
    (hi : SysInv Phi opt Sol s) (hw : s.ws[i]? = some .idle) (hp : PopMax s.crit.base.fringe N rest)
    (hl : popLoop (setFringe s.crit rest) [(N, true)] 0 = (c', some none, k)) :
    SysInv Phi opt Sol { crit := c', ws := s.ws } := by
  rw [popLoop_single] at hl
  split at hl
  · next hle =>
    have hle : N.ub ≤ s.crit.base.bestLb := hle
    injection hl with hc _
    subst hc
    rw [← set_idle_self hw]
    refine inv_set Phi opt Sol hi hw _ .idle (fun h => ⟨h, Int.le_refl _⟩) (Int.le_refl _) rfl hi.lbOk hi.solOk hi.abLb
      (fun n hn => by cases hn) ?_ ?_ rfl ?_
    · exact (hi.loc i _ hw).next Phi opt Sol (CritLe.refl _) rfl rfl rfl (fun _ h => h) trivial
    · exact fun j wj hne hj => (hi.loc j wj hj).mono Phi opt Sol (CritLe.refl _) rfl
    · intro hgt x hx hP hU
      have hgt : opt > s.crit.base.bestLb := hgt
      rcases (open_split hw x).mp hx with h | h | h
      · have : x.ub ≤ N.ub := by
          rcases (mem_of_popMax hp x).mp h with e | e
          · rw [e]; exact Int.le_refl _
          · exact hp.2 x e
        omega
      · cases h
      · exact Or.inl ⟨x, Or.inr (Or.inr h), hP, hU⟩
  · injection hl with _ hl; injection hl with hl; cases hl

/-- the pop of a node that beats the incumbent: what `popLoop` answers -/
theorem popLoop_item {c c' : ParCrit S} {N nn : SubP S} {k : Nat}
    (hl : popLoop c [(N, true)] 0 = (c', some (some nn), k)) : c' = c ∧ nn = N := by
  rw [popLoop_single] at hl
  split at hl
  · injection hl with _ hl; injection hl with hl; cases hl
  · injection hl with h1 hl; injection hl with hl; injection hl with hl; injection hl with hl
    exact ⟨h1.symm, hl.symm⟩

theorem inv_gwItem {s : Sys S} {i : Nat} {N : SubP S} {rest : List (SubP S)} {c' : ParCrit S} {nn : SubP S} {k : Nat}
    {c'' : ParCrit S}
    (hi : SysInv Phi opt Sol s) (hw : s.ws[i]? = some .idle) (ha : s.crit.base.abort = false)
    (hp : PopMax s.crit.base.fringe N rest)
    (hl : popLoop (setFringe s.crit rest) [(N, true)] 0 = (c', some (some nn), k))
    (ht : c'.take i nn = some c'') :
    SysInv Phi opt Sol { crit := c'', ws := s.ws.set i (.readR nn) } := by
  obtain ⟨rfl, rfl⟩ := popLoop_item hl
  obtain ⟨t1, t2, t3, t4, t5, t6, t7, t8⟩ := take_spec ht
  have t1 : c''.base.fringe = rest := t1
  have t2 : c''.base.bestLb = s.crit.base.bestLb := t2
  have t3 : c''.base.bestSol = s.crit.base.bestSol := t3
  have t4 : c''.base.bestUb = s.crit.base.bestUb := t4
  have t5 : c''.base.abort = s.crit.base.abort := t5
  have t6 : c''.ongoing = s.crit.ongoing + 1 := t6
  have t7 : c''.upperBounds = s.crit.upperBounds.set i nn.ub := t7
  have t8 : i < s.crit.upperBounds.length := t8
  have hle : CritLe s.crit.base c''.base := ⟨by rw [t2]; exact Int.le_refl _, fun h => ⟨by rw [← t5]; exact h, by rw [t4]; exact Int.le_refl _⟩⟩
  have hN : nn ∈ s.crit.base.fringe := (mem_of_popMax hp nn).mpr (Or.inl rfl)
  refine inv_set Phi opt Sol hi hw c'' (.readR nn) (fun h => ⟨by rw [t5]; exact h, by rw [t4]; exact Int.le_refl _⟩)
    (by rw [t2]; exact Int.le_refl _) (by rw [t7, List.length_set]) (by rw [t2]; exact hi.lbOk)
    (by rw [t2, t3]; exact hi.solOk) (by rw [t2, t4, t5]; exact hi.abLb) ?_ ?_ ?_ (by rw [t6]; rfl) ?_
  · intro n hn
    rw [t1] at hn
    exact (hi.fr n ((mem_of_popMax hp n).mpr (Or.inr hn))).mono Phi opt hle
  · refine ⟨trivial, fun u hu => ?_, fun n hn => ?_⟩
    · injection hu with hu; subst hu
      rw [t7]; exact List.getElem?_set_self t8
    · injection hn with hn; subst hn
      exact ((hi.fr _ hN).mono Phi opt hle).toNode Phi opt (by rw [t5]; exact ha) _
  · refine others_mono Phi opt Sol hi i c'' hle (fun j hne => ?_)
    rw [t7]; exact List.getElem?_set_ne (fun e => hne e.symm)
  · intro hgt x hx hP hU
    rcases (open_split hw x).mp hx with h | h | h
    · rcases (mem_of_popMax hp x).mp h with e | e
      · exact Or.inl ⟨x, Or.inr (Or.inl (by rw [e]; rfl)), hP, hU⟩
      · exact Or.inl ⟨x, Or.inl (by rw [t1]; exact e), hP, hU⟩
    · cases h
    · exact Or.inl ⟨x, Or.inr (Or.inr h), hP, hU⟩

theorem inv_gwCrash {s : Sys S} {i : Nat} {N : SubP S} {rest : List (SubP S)} {c' : ParCrit S} {nn : SubP S} {k : Nat}
    (hi : SysInv Phi opt Sol s) (hw : s.ws[i]? = some .idle) (hp : PopMax s.crit.base.fringe N rest)
    (hl : popLoop (setFringe s.crit rest) [(N, true)] 0 = (c', some (some nn), k)) :
    SysInv Phi opt Sol { crit := c'.takeCrash, ws := s.ws.set i (.crashed nn) } := by
  obtain ⟨rfl, rfl⟩ := popLoop_item hl
  have hle : CritLe s.crit.base (setFringe s.crit rest).takeCrash.base := ⟨Int.le_refl _, fun h => ⟨h, Int.le_refl _⟩⟩
  have hN : nn ∈ s.crit.base.fringe := (mem_of_popMax hp nn).mpr (Or.inl rfl)
  refine inv_set Phi opt Sol hi hw _ (.crashed nn) (fun h => ⟨h, Int.le_refl _⟩) (Int.le_refl _) rfl hi.lbOk hi.solOk hi.abLb
    ?_ ?_ ?_ rfl ?_
  · intro n hn
    have hn : n ∈ rest := hn
    exact (hi.fr n ((mem_of_popMax hp n).mpr (Or.inr hn))).mono Phi opt hle
  · refine ⟨trivial, (fun u hu => by cases hu), fun n hn => ?_⟩
    injection hn with hn; subst hn
    have h := (hi.fr _ hN).mono Phi opt hle
    exact ⟨h.1, h.2.1, fun _ hl => by cases hl⟩
  · exact others_mono Phi opt Sol hi i _ hle (fun _ _ => rfl)
  · intro hgt x hx hP hU
    rcases (open_split hw x).mp hx with h | h | h
    · rcases (mem_of_popMax hp x).mp h with e | e
      · exact Or.inl ⟨x, Or.inr (Or.inl (by rw [e]; rfl)), hP, hU⟩
      · exact Or.inl ⟨x, Or.inl e, hP, hU⟩
    · cases h
    · exact Or.inl ⟨x, Or.inr (Or.inr h), hP, hU⟩


theorem inv_readLbR {s : Sys S} {i : Nat} {n : SubP S} (hi : SysInv Phi opt Sol s) (hw : s.ws[i]? = some (.readR n)) :
    SysInv Phi opt Sol
      { crit := s.crit, ws := s.ws.set i (if n.ub ≤ s.crit.readLb then .fin n false else .compR n s.crit.readLb) } := by
  by_cases hle : n.ub ≤ s.crit.readLb
  · rw [if_pos hle]
    have hle : n.ub ≤ s.crit.base.bestLb := hle
    refine inv_local Phi opt Sol hi hw (.fin n false) rfl rfl rfl (fun _ h => by cases h) trivial ?_
    intro hgt x hx hP hU
    rcases (open_split hw x).mp hx with h | h | h
    · exact Or.inl ⟨x, Or.inl h, hP, hU⟩
    · injection h with h; subst h; omega
    · exact Or.inl ⟨x, Or.inr (Or.inr h), hP, hU⟩
  · rw [if_neg hle]
    exact inv_local Phi opt Sol hi hw (.compR n s.crit.readLb) rfl rfl rfl (fun _ h => h) (Int.le_refl _)
      (cov_same Phi opt hw s.crit _ rfl rfl)

theorem inv_compileR {s : Sys S} {i : Nat} {n : SubP S} {lb : Int} {r : DDRes S}
    (hi : SysInv Phi opt Sol s) (hw : s.ws[i]? = some (.compR n lb))
    (hok : ∀ o, r = .ok o → CompileOk Phi opt Sol n lb o) :
    SysInv Phi opt Sol
      { crit := s.crit, ws := s.ws.set i (WSt.afterR n lb r) } := by
  have hst : lb ≤ s.crit.base.bestLb := (hi.loc i _ hw).stage
  cases r with
  | ok o =>
    exact inv_local Phi opt Sol hi hw (.updR n lb o) rfl rfl rfl (fun _ h => h) ⟨hst, hok o rfl⟩
      (cov_same Phi opt hw s.crit _ rfl rfl)
  | cutoff =>
    exact inv_local Phi opt Sol hi hw (.abortS n) rfl rfl rfl (fun _ h => h) trivial
      (cov_same Phi opt hw s.crit _ rfl rfl)

theorem inv_readLbX {s : Sys S} {i : Nat} {n : SubP S} (hi : SysInv Phi opt Sol s) (hw : s.ws[i]? = some (.readX n)) :
    SysInv Phi opt Sol { crit := s.crit, ws := s.ws.set i (.compX n s.crit.readLb) } :=
  inv_local Phi opt Sol hi hw (.compX n s.crit.readLb) rfl rfl rfl (fun _ h => h) (Int.le_refl _)
    (cov_same Phi opt hw s.crit _ rfl rfl)

theorem inv_compileX {s : Sys S} {i : Nat} {n : SubP S} {lb : Int} {r : DDRes S}
    (hi : SysInv Phi opt Sol s) (hw : s.ws[i]? = some (.compX n lb))
    (hok : ∀ o, r = .ok o → OkX Phi opt Sol n lb o) :
    SysInv Phi opt Sol
      { crit := s.crit, ws := s.ws.set i (WSt.afterX n lb r) } := by
  have hst : lb ≤ s.crit.base.bestLb := (hi.loc i _ hw).stage
  cases r with
  | ok o =>
    exact inv_local Phi opt Sol hi hw (.updX n lb o) rfl rfl rfl (fun _ h => h) ⟨hst, (hok o rfl).1, (hok o rfl).2⟩
      (cov_same Phi opt hw s.crit _ rfl rfl)
  | cutoff =>
    exact inv_local Phi opt Sol hi hw (.abortS n) rfl rfl rfl (fun _ h => h) trivial
      (cov_same Phi opt hw s.crit _ rfl rfl)

/-- `maybe_update_best` by a worker that holds `n` (live) with a compilation of `n` meeting the contract:
    everything global is preserved -/
theorem update_glob {s : Sys S} {i : Nat} {w : WSt S} {n : SubP S} {lb : Int} {o : DDOut S}
    (hi : SysInv Phi opt Sol s) (hw : s.ws[i]? = some w) (hop : w.openNode = some n) (hcr : w.isCrashed = false)
    (hc : CompileOk Phi opt Sol n lb o) :
    CritLe s.crit.base (s.crit.updateBest o).base ∧
    (s.crit.base.abort = true → (s.crit.updateBest o).base.abort = true ∧ s.crit.base.bestUb ≤ (s.crit.updateBest o).base.bestUb) ∧
    (s.crit.updateBest o).base.bestLb ≤ opt ∧
    (∀ p, (s.crit.updateBest o).base.bestSol = some p → Sol p (s.crit.updateBest o).base.bestLb) ∧
    ((s.crit.updateBest o).base.abort = true → (s.crit.updateBest o).base.bestLb ≤ (s.crit.updateBest o).base.bestUb) ∧
    (∀ m ∈ (s.crit.updateBest o).base.fringe, FrNodeOk Phi opt (s.crit.updateBest o).base m) := by
  obtain ⟨f1, f2, f3, _, _⟩ := updateBest_fringe s.crit.base o
  have hge := updateBest_lb_ge s.crit.base o
  obtain ⟨hlb, hsol⟩ := updateBest_ok Phi opt Sol s.crit.base n lb o hi.lbOk hi.solOk hc
  have hle : CritLe s.crit.base (s.crit.base.updateBest o) :=
    ⟨hge, fun h => ⟨by rw [← f3]; exact h, by rw [f2]; exact Int.le_refl _⟩⟩
  refine ⟨hle, fun h => ⟨by show (s.crit.base.updateBest o).abort = true; rw [f3]; exact h,
      by show _ ≤ (s.crit.base.updateBest o).bestUb; rw [f2]; exact Int.le_refl _⟩, hlb, hsol, ?_, ?_⟩
  · intro ha
    have ha : (s.crit.base.updateBest o).abort = true := ha
    rw [f3] at ha
    show (s.crit.base.updateBest o).bestLb ≤ (s.crit.base.updateBest o).bestUb
    rw [f2]
    have h0 := hi.abLb ha
    -- either nothing changed, or the new incumbent is a value found below `n`, which is below `n.ub ≤ best_ub`
    unfold SeqSt.updateBest
    cases hb : o.bestExact with
    | none => exact h0
    | some v =>
      simp only
      split
      · next hgt =>
        obtain ⟨x, hx, hvx⟩ := hc.within v hb
        obtain ⟨_, hub, hab⟩ := (hi.loc i w hw).node n hop
        have h1 := hub x hx (by omega)
        have h2 := hab ha (by rw [hcr]; rfl)
        show v ≤ s.crit.base.bestUb
        omega
      · exact h0
  · intro m hm
    have hm : m ∈ (s.crit.base.updateBest o).fringe := hm
    rw [f1] at hm
    exact (hi.fr m hm).mono Phi opt hle

theorem inv_updateR {s : Sys S} {i : Nat} {n : SubP S} {lb : Int} {o : DDOut S}
    (hi : SysInv Phi opt Sol s) (hw : s.ws[i]? = some (.updR n lb o)) :
    SysInv Phi opt Sol
      { crit := s.crit.updateBest o, ws := s.ws.set i (if o.isExact then .fin n false else .readX n) } := by
  obtain ⟨hst, hc⟩ : lb ≤ s.crit.base.bestLb ∧ CompileOk Phi opt Sol n lb o := (hi.loc i _ hw).stage
  obtain ⟨hle, hab, hlb, hsol, habLb, hfr⟩ := update_glob Phi opt Sol hi hw rfl rfl hc
  have hfe : (s.crit.updateBest o).base.fringe = s.crit.base.fringe := (updateBest_fringe s.crit.base o).1
  by_cases hex : o.isExact = true
  · rw [if_pos hex]
    refine inv_set Phi opt Sol hi hw _ (.fin n false) hab hle.1 rfl hlb hsol habLb hfr
      ((hi.loc i _ hw).next Phi opt Sol hle rfl rfl rfl (fun _ h => by cases h) trivial)
      (others_mono Phi opt Sol hi i _ hle (fun _ _ => rfl)) rfl ?_
    intro hgt x hx hP hU
    have hgt : opt > (s.crit.base.updateBest o).bestLb := hgt
    rcases (open_split hw x).mp hx with h | h | h
    · exact Or.inl ⟨x, Or.inl (by rw [hfe]; exact h), hP, hU⟩
    · injection h with h; subst h
      have hge := updateBest_lb_ge s.crit.base o
      have hbe := hc.exact hex opt hP (by omega)
      have := updateBest_lb_ge_val s.crit.base o opt hbe
      omega
    · exact Or.inl ⟨x, Or.inr (Or.inr h), hP, hU⟩
  · rw [if_neg hex]
    exact inv_set Phi opt Sol hi hw _ (.readX n) hab hle.1 rfl hlb hsol habLb hfr
      ((hi.loc i _ hw).next Phi opt Sol hle rfl rfl rfl (fun _ h => h) trivial)
      (others_mono Phi opt Sol hi i _ hle (fun _ _ => rfl)) rfl (cov_same Phi opt hw _ _ hfe rfl)

theorem inv_updateX {s : Sys S} {i : Nat} {n : SubP S} {lb : Int} {o : DDOut S}
    (hi : SysInv Phi opt Sol s) (hw : s.ws[i]? = some (.updX n lb o)) :
    SysInv Phi opt Sol
      { crit := s.crit.updateBest o, ws := s.ws.set i (if o.isExact then .fin n false else .enq n lb o) } := by
  obtain ⟨hst, hc, hcut⟩ : lb ≤ s.crit.base.bestLb ∧ CompileOk Phi opt Sol n lb o ∧
      (o.isExact = false → CutsetOk Phi opt n lb o) := (hi.loc i _ hw).stage
  obtain ⟨hle, hab, hlb, hsol, habLb, hfr⟩ := update_glob Phi opt Sol hi hw rfl rfl hc
  have hfe : (s.crit.updateBest o).base.fringe = s.crit.base.fringe := (updateBest_fringe s.crit.base o).1
  have hge := updateBest_lb_ge s.crit.base o
  by_cases hex : o.isExact = true
  · rw [if_pos hex]
    refine inv_set Phi opt Sol hi hw _ (.fin n false) hab hle.1 rfl hlb hsol habLb hfr
      ((hi.loc i _ hw).next Phi opt Sol hle rfl rfl rfl (fun _ h => by cases h) trivial)
      (others_mono Phi opt Sol hi i _ hle (fun _ _ => rfl)) rfl ?_
    intro hgt x hx hP hU
    have hgt : opt > (s.crit.base.updateBest o).bestLb := hgt
    rcases (open_split hw x).mp hx with h | h | h
    · exact Or.inl ⟨x, Or.inl (by rw [hfe]; exact h), hP, hU⟩
    · injection h with h; subst h
      have hbe := hc.exact hex opt hP (by omega)
      have := updateBest_lb_ge_val s.crit.base o opt hbe
      omega
    · exact Or.inl ⟨x, Or.inr (Or.inr h), hP, hU⟩
  · rw [if_neg hex]
    have hex' : o.isExact = false := by simpa using hex
    refine inv_set Phi opt Sol hi hw _ (.enq n lb o) hab hle.1 rfl hlb hsol habLb hfr
      ((hi.loc i _ hw).next Phi opt Sol hle rfl rfl rfl (fun _ h => h) ?_)
      (others_mono Phi opt Sol hi i _ hle (fun _ _ => rfl)) rfl (cov_same Phi opt hw _ _ hfe rfl)
    exact ⟨Int.le_trans hst hge, hcut hex', fun v hv => updateBest_lb_ge_val s.crit.base o v hv⟩


theorem inv_enqueue (dedup : Bool) (hphi : PhiOk Phi dedup) {s : Sys S} {i : Nat} {n : SubP S} {lb : Int} {o : DDOut S}
    (hi : SysInv Phi opt Sol s) (hw : s.ws[i]? = some (.enq n lb o)) :
    SysInv Phi opt Sol { crit := s.crit.enqueue dedup o.cutset, ws := s.ws.set i (.fin n false) } := by
  obtain ⟨hst, hC, hbe⟩ : lb ≤ s.crit.base.bestLb ∧ CutsetOk Phi opt n lb o ∧
      (∀ v, o.bestExact = some v → v ≤ s.crit.base.bestLb) := (hi.loc i _ hw).stage
  obtain ⟨hNgood, hNub, hNab⟩ := (hi.loc i _ hw).node n rfl
  obtain ⟨e1, e2, e3, e4, hF1, hF2⟩ := enqueue_frOk Phi dedup hphi s.crit.base o.cutset
  have e1 : (s.crit.enqueue dedup o.cutset).base.bestLb = s.crit.base.bestLb := e1
  have e2 : (s.crit.enqueue dedup o.cutset).base.bestSol = s.crit.base.bestSol := e2
  have e3 : (s.crit.enqueue dedup o.cutset).base.bestUb = s.crit.base.bestUb := e3
  have e4 : (s.crit.enqueue dedup o.cutset).base.abort = s.crit.base.abort := e4
  have hle : CritLe s.crit.base (s.crit.enqueue dedup o.cutset).base :=
    ⟨by rw [e1]; exact Int.le_refl _, fun h => ⟨by rw [← e4]; exact h, by rw [e3]; exact Int.le_refl _⟩⟩
  -- every member of the multiset `L` is fine w.r.t. the old record
  have hL : ∀ a, (a ∈ s.crit.base.fringe ∨ ∃ c0 ∈ o.cutset, a = c0 ∧ c0.ub > s.crit.base.bestLb) →
      FrNodeOk Phi opt s.crit.base a := by
    rintro a (ha | ⟨c0, hc0, rfl, _⟩)
    · exact hi.fr a ha
    · refine ⟨hC.good a hc0, fun y hy hgt => hC.ub a hc0 y hy (by omega), fun ha y hy hgt => ?_⟩
      -- after an abort: a value through the cut-set node is a value through `n`, and `n.ub ≤ best_ub`
      obtain ⟨xN, hxN, hle⟩ := hC.sub a hc0 y hy
      have h2 := hNub xN hxN (by omega)
      have := hNab ha rfl
      omega
  have hfr : ∀ m ∈ (s.crit.enqueue dedup o.cutset).base.fringe, FrNodeOk Phi opt s.crit.base m := by
    intro m hm
    obtain ⟨a, _, ha, _, hP, hau, _⟩ := hF1 m hm
    obtain ⟨ga, ua, ab⟩ := hL a ha
    refine ⟨fun y hy => ga y (hP ▸ hy), fun y hy hgt => ?_, fun h1 y hy hgt => ab h1 y (hP ▸ hy) hgt⟩
    have := ua y (hP ▸ hy) hgt; omega
  -- a member of `L` that carries the optimum is covered by an entry of the new fringe that carries it too
  have hcovL : ∀ a, (a ∈ s.crit.base.fringe ∨ ∃ c0 ∈ o.cutset, a = c0 ∧ c0.ub > s.crit.base.bestLb) →
      Phi a = some opt → opt ≤ a.ub →
      ∃ y, y ∈ (s.crit.enqueue dedup o.cutset).base.fringe ∧ Phi y = some opt ∧ opt ≤ y.ub := by
    intro a ha hP hU
    obtain ⟨m, hm, hPm, hUm⟩ := hF2 a ha
    rw [hP] at hPm
    cases hPs : Phi m with
    | none => rw [hPs] at hPm; exact absurd hPm (by simp)
    | some y =>
      rw [hPs] at hPm
      have h1 : opt ≤ y := by simpa using hPm
      have h2 : y ≤ opt := (hfr m hm).1 y hPs
      have : y = opt := by omega
      subst this
      exact ⟨m, hm, hPs, by omega⟩
  refine inv_set Phi opt Sol hi hw _ (.fin n false) (fun h => ⟨by rw [e4]; exact h, by rw [e3]; exact Int.le_refl _⟩)
    (by rw [e1]; exact Int.le_refl _) rfl (by rw [e1]; exact hi.lbOk) (by rw [e1, e2]; exact hi.solOk)
    (by rw [e1, e3, e4]; exact hi.abLb) (fun m hm => (hfr m hm).mono Phi opt hle)
    ((hi.loc i _ hw).next Phi opt Sol hle rfl rfl rfl (fun _ h => by cases h) trivial)
    (others_mono Phi opt Sol hi i _ hle (fun _ _ => rfl)) rfl ?_
  intro hgt x hx hP hU
  rw [e1] at hgt
  rcases (open_split hw x).mp hx with h | h | h
  · obtain ⟨y, hy, hPy, hUy⟩ := hcovL x (Or.inl h) hP hU
    exact Or.inl ⟨y, Or.inl hy, hPy, hUy⟩
  · injection h with h; subst h
    have hw' : ∀ v, o.bestExact = some v → v < opt := fun v hv => by have := hbe v hv; omega
    obtain ⟨c0, hc0, y, hy, hxy⟩ := hC.cover opt hP (by omega) hw'
    have hyo := hC.good c0 hc0 y hy
    have hyeq : y = opt := by omega
    subst hyeq
    have hcu := hC.ub c0 hc0 y hy (by omega)
    obtain ⟨z, hz, hPz, hUz⟩ := hcovL c0 (Or.inr ⟨c0, hc0, rfl, by omega⟩) hy hcu
    exact Or.inl ⟨z, Or.inl hz, hPz, hUz⟩
  · exact Or.inl ⟨x, Or.inr (Or.inr h), hP, hU⟩

theorem inv_abort {s : Sys S} {i : Nat} {n : SubP S} {top : Option Int}
    (hi : SysInv Phi opt Sol s) (hw : s.ws[i]? = some (.abortS n)) (htop : AbortTop s.crit.base.fringe top) :
    SysInv Phi opt Sol { crit := s.crit.abortSearch n.ub top, ws := s.ws.set i (.fin n true) } := by
  obtain ⟨a1, a2, a3, a4, a5, a6, a7, a8, a9, a10, a11⟩ := abort_spec s.crit n.ub top
  -- a node held by a live worker is below the recorded bound
  have hheld : ∀ (j : Nat) (wj : WSt S) (x : SubP S), s.ws[j]? = some wj → wj.openNode = some x → wj.isCrashed = false →
      x.ub ≤ (s.crit.abortSearch n.ub top).base.bestUb := by
    intro j wj x hj hx hcr
    have := (hi.loc j wj hj).slot x.ub (slot_of_open hx hcr)
    exact a8 x.ub (List.mem_iff_getElem?.mpr ⟨j, this⟩)
  have hfrub : ∀ x ∈ s.crit.base.fringe, x.ub ≤ (s.crit.abortSearch n.ub top).base.bestUb := by
    intro x hx
    rcases htop with ⟨he, _⟩ | ⟨t, _, ht, hmax⟩
    · rw [he] at hx; cases hx
    · have := a9 t.ub ht
      have := hmax x hx
      omega
  refine inv_set Phi opt Sol hi hw _ (.fin n true) (fun h => ⟨a4, a10 h⟩) (by rw [a1]; exact Int.le_refl _)
    (by rw [a6]) (by rw [a1]; exact hi.lbOk) (by rw [a1, a2]; exact hi.solOk) (fun _ => by rw [a1]; exact a11)
    (fun m hm => by rw [a3] at hm; cases hm) ?_ ?_ (by rw [a5]; rfl) ?_
  · refine ⟨trivial, fun u hu => ?_, fun m hm => by cases hm⟩
    rw [a6]; exact (hi.loc i _ hw).slot u hu
  · intro j wj hne hj
    have h := hi.loc j wj hj
    refine ⟨by rw [a1]; exact h.stage, fun u hu => by rw [a6]; exact h.slot u hu, fun m hm => ?_⟩
    obtain ⟨g, u, _⟩ := h.node m hm
    refine ⟨g, by rw [a1]; exact u, fun _ hl => ?_⟩
    exact hheld j wj m hj hm (by simpa using hl)
  · intro hgt x hx hP hU
    rcases (open_split hw x).mp hx with h | h | ⟨j, wj, hne, hj, hxj⟩
    · have := hfrub x h
      exact Or.inr ⟨a4, by omega⟩
    · injection h with h; subst h
      exact Or.inr ⟨a4, by omega⟩
    · cases hcr : wj.isCrashed with
      | true => exact Or.inl ⟨x, Or.inr (Or.inr ⟨j, wj, hne, hj, hxj⟩), hP, hU⟩
      | false =>
        have := hheld j wj x hj hxj hcr
        exact Or.inr ⟨a4, by omega⟩

theorem inv_notify {s : Sys S} {i : Nat} {n : SubP S} {te : Bool} {c' : ParCrit S}
    (hi : SysInv Phi opt Sol s) (hw : s.ws[i]? = some (.fin n te)) (hn : s.crit.notifyFinished i n.depth = some c') :
    SysInv Phi opt Sol { crit := c', ws := (s.ws.map WSt.wake).set i (if te then .done else .idle) } := by
  obtain ⟨n1, n2, n3, n4⟩ := notify_spec hn
  have hi' := inv_wake Phi opt Sol hi
  have hw' : (s.ws.map WSt.wake)[i]? = some (.fin n te) := by rw [List.getElem?_map, hw]; rfl
  have hle : CritLe s.crit.base c'.base := by rw [n1]; exact CritLe.refl _
  have key : ∀ w' : WSt S, w'.slot = some iMin → w'.openNode = none → w'.holds = false →
      SysInv Phi opt Sol { crit := c', ws := (s.ws.map WSt.wake).set i w' } := by
    intro w' hs ho hh
    refine inv_set Phi opt Sol (s := { crit := s.crit, ws := s.ws.map WSt.wake }) hi' hw' c' w'
      (fun h => ⟨by rw [n1]; exact h, by rw [n1]; exact Int.le_refl _⟩)
      (by rw [n1]; exact Int.le_refl _) (by rw [n3, List.length_set]) (by rw [n1]; exact hi.lbOk)
      (by rw [n1]; exact hi.solOk) (by rw [n1]; exact hi.abLb) (by rw [n1]; exact hi.fr) ?_ ?_ ?_ ?_
    · refine ⟨?_, fun u hu => ?_, fun m hm => by rw [ho] at hm; cases hm⟩
      · cases w' <;> simp_all [WSt.openNode, WSt.slot, WOk]
      · rw [hs] at hu; injection hu with hu; subst hu
        rw [n3]; exact List.getElem?_set_self n4
    · intro j wj hne hj
      refine (hi'.loc j wj hj).mono Phi opt Sol hle ?_
      rw [n3]; exact List.getElem?_set_ne (fun e => hne e.symm)
    · rw [hh]
      show c'.ongoing + 1 = s.crit.ongoing + 0
      omega
    · intro hgt x hx hP hU
      rcases (open_split (s := { crit := s.crit, ws := s.ws.map WSt.wake }) hw' x).mp hx with h | h | h
      · exact Or.inl ⟨x, Or.inl (by rw [n1]; exact h), hP, hU⟩
      · cases h
      · exact Or.inl ⟨x, Or.inr (Or.inr h), hP, hU⟩
  cases te
  · exact key .idle rfl rfl rfl
  · exact key .done rfl rfl rfl

/-- **every step of every worker preserves the invariant** (compilations under contract) -/
theorem step_inv (dedup : Bool) (hphi : PhiOk Phi dedup) {okR okX : SubP S → Int → DDOut S → Prop}
    (hR : ∀ n lb o, okR n lb o → OkR Phi opt Sol n lb o) (hX : ∀ n lb o, okX n lb o → OkX Phi opt Sol n lb o)
    {s t : Sys S} (h : Step dedup okR okX s t) (hi : SysInv Phi opt Sol s) : SysInv Phi opt Sol t := by
  cases h with
  | gwAborted i hw ha => exact inv_gwAborted Phi opt Sol hi hw
  | gwComplete i hw ha ho hf => exact inv_gwComplete Phi opt Sol hi hw ha ho hf
  | gwWait i hw ha ho hf => exact inv_gwWait Phi opt Sol hi hw
  | gwStarve i N rest c' k hw ha hp hl => exact inv_gwStarve Phi opt Sol hi hw hp hl
  | gwItem i N rest c' nn k c'' hw ha hp hl ht => exact inv_gwItem Phi opt Sol hi hw ha hp hl ht
  | gwCrash i N rest c' nn k hw ha hp hl ht => exact inv_gwCrash Phi opt Sol hi hw hp hl
  | readLbR i n hw => exact inv_readLbR Phi opt Sol hi hw
  | compileR i n lb r hw hok => exact inv_compileR Phi opt Sol hi hw (fun o ho => hR n lb o (hok o ho))
  | updateR i n lb o hw => exact inv_updateR Phi opt Sol hi hw
  | readLbX i n hw => exact inv_readLbX Phi opt Sol hi hw
  | compileX i n lb r hw hok => exact inv_compileX Phi opt Sol hi hw (fun o ho => hX n lb o (hok o ho))
  | updateX i n lb o hw => exact inv_updateX Phi opt Sol hi hw
  | enqueue i n lb o hw => exact inv_enqueue Phi opt Sol dedup hphi hi hw
  | abort i n top hw htop => exact inv_abort Phi opt Sol hi hw htop
  | notify i n te c' hw hn => exact inv_notify Phi opt Sol hi hw hn


/-! ### the initial state -/

/-- the root sub-problem `initialize()` pushes -/
def rootOf (P : Problem S) : SubP S := { state := P.init, value := P.initVal, path := [], ub := iMax, depth := 0 }

/-- the incumbent after the optional `set_primal` -/
def primalLb : Option (Int × List Dec) → Int
  | some (v, _) => if v > iMin then v else iMin
  | none => iMin
def primalSol : Option (Int × List Dec) → Option (List Dec)
  | some (v, sol) => if v > iMin then some sol else none
  | none => none

theorem init_base (P : Problem S) (primal : Option (Int × List Dec)) (dedup : Bool) :
    (SeqSt.init P primal dedup).fringe = [rootOf P] ∧ (SeqSt.init P primal dedup).abort = false ∧
    (SeqSt.init P primal dedup).bestUb = iMax ∧
    (SeqSt.init P primal dedup).bestLb = primalLb primal ∧ (SeqSt.init P primal dedup).bestSol = primalSol primal := by
  have hp : ∀ x : SubP S, pushSpec dedup [] x = [x] := by intro x; cases dedup <;> rfl
  cases primal with
  | none => exact ⟨hp _, rfl, rfl, rfl, rfl⟩
  | some vs =>
    obtain ⟨v, sol⟩ := vs
    by_cases hv : v > iMin
    · simp only [SeqSt.init, primalLb, primalSol, hv, if_true, hp, rootOf]
      exact ⟨trivial, trivial, trivial, trivial, trivial⟩
    · simp only [SeqSt.init, primalLb, primalSol, hv, if_false, hp, rootOf]
      exact ⟨trivial, trivial, trivial, trivial, trivial⟩

theorem init_inv (P : Problem S) (primal : Option (Int × List Dec)) (dedup : Bool) (U : Nat)
    (hroot : Good Phi opt (rootOf P)) (hopt : opt ≤ iMax)
    (hlb : primalLb primal ≤ opt) (hsol : ∀ p, primalSol primal = some p → Sol p (primalLb primal))
    (hatt : opt > primalLb primal → Phi (rootOf P) = some opt) :
    SysInv Phi opt Sol (Sys.init P primal dedup U) := by
  obtain ⟨b1, b2, b3, b4, b5⟩ := init_base P primal dedup
  have b1 : (Sys.init P primal dedup U).crit.base.fringe = [rootOf P] := b1
  have b2 : (Sys.init P primal dedup U).crit.base.abort = false := b2
  have b4 : (Sys.init P primal dedup U).crit.base.bestLb = primalLb primal := b4
  have b5 : (Sys.init P primal dedup U).crit.base.bestSol = primalSol primal := b5
  have hws : ∀ (i : Nat) (w : WSt S), (Sys.init P primal dedup U).ws[i]? = some w → i < U ∧ w = .idle := by
    intro i w h
    have h : (List.replicate U (WSt.idle : WSt S))[i]? = some w := h
    rw [List.getElem?_replicate] at h
    split at h
    · next hlt => injection h with h; exact ⟨hlt, h.symm⟩
    · cases h
  refine ⟨by rw [b4]; exact hlb, by rw [b4, b5]; exact hsol, ?_, ?_, ?_, ?_, ?_, ?_⟩
  · intro n hn
    rw [b1] at hn
    rcases List.mem_cons.mp hn with e | e
    · subst e
      refine ⟨hroot, fun x hx _ => ?_, fun h => by rw [b2] at h; cases h⟩
      have := hroot x hx
      show x ≤ iMax
      omega
    · cases e
  · intro i w hw
    obtain ⟨hlt, rfl⟩ := hws i w hw
    refine ⟨trivial, fun u hu => ?_, fun n hn => by cases hn⟩
    injection hu with hu; subst hu
    show (List.replicate U iMin)[i]? = some iMin
    rw [List.getElem?_replicate, if_pos hlt]
  · intro hgt
    rw [b4] at hgt
    exact Or.inl ⟨rootOf P, Or.inl (by rw [b1]; exact List.mem_cons_self), hatt hgt, hopt⟩
  · intro h; rw [b2] at h; cases h
  · show 0 = (List.replicate U (WSt.idle : WSt S)).countP WSt.holds
    rw [List.countP_replicate]; rfl
  · show (List.replicate U (WSt.idle : WSt S)).length = (List.replicate U iMin).length
    simp

/-- every reachable state satisfies the invariant -/
theorem run_inv (dedup : Bool) (hphi : PhiOk Phi dedup) {okR okX : SubP S → Int → DDOut S → Prop}
    (hR : ∀ n lb o, okR n lb o → OkR Phi opt Sol n lb o) (hX : ∀ n lb o, okX n lb o → OkX Phi opt Sol n lb o)
    {s t : Sys S} (h : Run dedup okR okX s t) (hi : SysInv Phi opt Sol s) : SysInv Phi opt Sol t := by
  induction h with
  | refl => exact hi
  | tail _ hst ih => exact step_inv Phi opt Sol dedup hphi hR hX hst ih


/-! ### what the invariant gives -/

/-- no worker has panicked -/
def NoCrash (s : Sys S) : Prop := ∀ w ∈ s.ws, w.isCrashed = false

theorem allDone_noCrash {s : Sys S} (h : AllDone s) : NoCrash s := fun w hw => by rw [h w hw]; rfl

theorem SysInv.open_ok {s : Sys S} (hi : SysInv Phi opt Sol s) {x : SubP S} (hx : Open s x) :
    Good Phi opt x ∧ UbOk Phi s.crit.base.bestLb x := by
  rcases hx with h | ⟨j, wj, hj, hx⟩
  · exact ⟨(hi.fr x h).1, (hi.fr x h).2.1⟩
  · exact ⟨((hi.loc j wj hj).node x hx).1, ((hi.loc j wj hj).node x hx).2.1⟩

/-- as long as the search is not aborted, the concrete invariant *is* the sequential coverage invariant
    `Inv` over the list of open sub-problems `fringe ++ nodes in hand` -/
theorem SysInv.toInv {s : Sys S} (hi : SysInv Phi opt Sol s) (ha : s.crit.base.abort = false) :
    Inv Phi opt Sol s.openList s.crit.base.bestLb s.crit.base.bestSol := by
  refine ⟨fun c hc => (hi.open_ok Phi opt Sol ((mem_openList s c).mp hc)).1,
    fun c hc => (hi.open_ok Phi opt Sol ((mem_openList s c).mp hc)).2, hi.lbOk, hi.solOk, fun hgt => ?_⟩
  rcases hi.cover hgt with ⟨x, hx, hP, hU⟩ | ⟨h, _⟩
  · exact ⟨x, (mem_openList s x).mpr hx, hP, hU⟩
  · rw [ha] at h; cases h

/-- after an abort every open node of a live worker is below the recorded bound -/
theorem SysInv.abortCovHeld {s : Sys S} (hi : SysInv Phi opt Sol s) (ha : s.crit.base.abort = true) (hnc : NoCrash s)
    {j : Nat} {wj : WSt S} {x : SubP S} (hj : s.ws[j]? = some wj) (hx : wj.openNode = some x) :
    x.ub ≤ s.crit.base.bestUb := by
  have hcr := hnc wj (List.mem_iff_getElem?.mpr ⟨j, hj⟩)
  exact ((hi.loc j wj hj).node x hx).2.2 ha (by rw [hcr]; rfl)

/-- after an abort whatever an open node of a live worker, or a fringe entry, carries above the incumbent is below the
    recorded bound.  (For a fringe entry the *bound* itself need not be: without the cap of `enqueue_cutset` a worker that
    enqueues after the abort pushes its cut-set nodes with their own bounds.) -/
theorem SysInv.abortCov {s : Sys S} (hi : SysInv Phi opt Sol s) (ha : s.crit.base.abort = true) (hnc : NoCrash s)
    {x : SubP S} (hx : Open s x) : ∀ y, Phi x = some y → y > s.crit.base.bestLb → y ≤ s.crit.base.bestUb := by
  intro y hy hgt
  rcases hx with h | ⟨j, wj, hj, hx⟩
  · exact (hi.fr x h).2.2 ha y hy hgt
  · have h1 := hi.abortCovHeld Phi opt Sol ha hnc hj hx
    have h2 := ((hi.loc j wj hj).node x hx).2.1 y hy hgt
    omega

theorem complete_optimal {s : Sys S} {i : Nat} (hi : SysInv Phi opt Sol s) (hc : CompletesAt s i) :
    s.crit.base.bestLb = opt ∧ ∀ p, s.crit.base.bestSol = some p → Sol p opt := by
  obtain ⟨_, ha, ho, hf⟩ := hc
  have h1 : ¬ opt > s.crit.base.bestLb := by
    intro hgt
    rcases hi.cover hgt with ⟨x, hx, _⟩ | ⟨h, _⟩
    · exact nothing_open Phi opt Sol hi ho hf x hx
    · rw [ha] at h; cases h
  have h2 := hi.lbOk
  have : s.crit.base.bestLb = opt := by omega
  exact ⟨this, fun p hp => this ▸ hi.solOk p hp⟩

theorem cutoff_bounds {s : Sys S} (hi : SysInv Phi opt Sol s) (ha : s.crit.base.abort = true) (hnc : NoCrash s) :
    s.crit.base.bestLb ≤ opt ∧ opt ≤ s.crit.base.bestUb := by
  refine ⟨hi.lbOk, ?_⟩
  by_cases hgt : opt > s.crit.base.bestLb
  · rcases hi.cover hgt with ⟨x, hx, hP, _⟩ | ⟨_, h⟩
    · exact hi.abortCov Phi opt Sol ha hnc hx opt hP hgt
    · exact h
  · have := hi.abLb ha; omega

end
end Ddo.ParSys
