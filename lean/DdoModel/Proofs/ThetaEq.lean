import DdoModel.Proofs.MddBounds
/-! Stage 1 of C09: which fields the bottom-up passes `computeCutset` and `computeLocalBounds` write — finer than `XEq`
    (`Proofs/MddCutset.lean`), which forgets `vbot`, `theta`, `marked`, `cutset`, `above` all at once.

`EqUp f ls ls'`: the diagrams `ls` and `ls'` are position-wise equal up to the node map `f`.
* `computeCutset` only writes `cutset` and `above`  (`EqUp stripC`);
* `computeLocalBounds` only writes `vbot` and `marked` (`EqUp stripL`). -/
set_option linter.unusedSectionVars false
set_option linter.unusedVariables false
namespace Ddo.Theta
open Ddo Ddo.Bounds
variable {S : Type} [DecidableEq S]

/-- position-wise equality up to `f` -/
def EqUp (f : Node S → Node S) (ls ls' : List (List (Node S))) : Prop := ls.map (List.map f) = ls'.map (List.map f)

/-- a node without the flags written by `computeCutset` -/
def stripC (n : Node S) : Node S := { n with cutset := false, above := false }
/-- a node without the fields written by `computeLocalBounds` -/
def stripL (n : Node S) : Node S := { n with vbot := 0, marked := false }


theorem EqUp.refl (f : Node S → Node S) (ls : List (List (Node S))) : EqUp f ls ls := rfl
theorem EqUp.trans {f : Node S → Node S} {a b c : List (List (Node S))} (h1 : EqUp f a b) (h2 : EqUp f b c) : EqUp f a c :=
  Eq.trans h1 h2

theorem EqUp.set_layer {f : Node S → Node S} {ls ls0 : List (List (Node S))} (h : EqUp f ls ls0) (l : Nat) (ly' : List (Node S))
    (hl : ∀ ly, ls[l]? = some ly → ly'.map f = ly.map f) : EqUp f (ls.set l ly') ls0 := by
  unfold EqUp at *
  rw [List.map_set, ← h]
  cases hls : ls[l]? with
  | none =>
    have : ls.length ≤ l := by
      rcases Nat.lt_or_ge l ls.length with h' | h'
      · rw [List.getElem?_eq_getElem h'] at hls; cases hls
      · exact h'
    exact List.set_eq_of_length_le (by rw [List.length_map]; exact this)
  | some ly =>
    rw [hl ly hls]
    exact List.set_self' (by rw [List.getElem?_map, hls]; rfl)

theorem EqUp.set_map {f : Node S → Node S} {ls ls0 : List (List (Node S))} (h : EqUp f ls ls0) (l : Nat) (g : Node S → Node S)
    (hg : ∀ n, f (g n) = f n) : EqUp f (ls.set l ((ls[l]?.getD []).map g)) ls0 := by
  refine h.set_layer l _ (fun ly hly => ?_)
  rw [hly, Option.getD_some, List.map_map]
  exact List.map_congr_left (fun n _ => hg n)

theorem EqUp.modNode {f : Node S → Node S} {ls ls0 : List (List (Node S))} (h : EqUp f ls ls0) (l p : Nat) (g : Node S → Node S)
    (hg : ∀ n, getNode ls l p = some n → f (g n) = f n) : EqUp f (Ddo.modNode ls l p g) ls0 := by
  unfold Ddo.modNode
  split
  · exact h
  · rename_i ly hly
    split
    · exact h
    · rename_i n hn
      refine h.set_layer l _ (fun ly' hly' => ?_)
      rw [hly] at hly'
      cases hly'
      rw [List.map_set, hg n (by unfold getNode; rw [hly]; exact hn)]
      exact List.set_self' (by rw [List.getElem?_map, hn]; rfl)

theorem EqUp.length {f : Node S → Node S} {ls ls0 : List (List (Node S))} (h : EqUp f ls ls0) : ls.length = ls0.length := by
  have := congrArg List.length h
  simpa using this

theorem EqUp.layer {f : Node S → Node S} {ls ls0 : List (List (Node S))} (h : EqUp f ls ls0) (l : Nat) :
    (ls[l]?.getD []).map f = (ls0[l]?.getD []).map f := by
  have := congrArg (fun x => (x[l]?).getD []) h
  simp only [List.getElem?_map] at this
  cases h1 : ls[l]? <;> cases h2 : ls0[l]? <;> simp only [h1, h2, Option.map_none, Option.map_some, Option.getD_none,
    Option.getD_some, List.map_nil] at this ⊢ <;> exact this

theorem EqUp.getNode_map {f : Node S → Node S} {ls ls0 : List (List (Node S))} (h : EqUp f ls ls0) (l p : Nat) :
    (Ddo.getNode ls l p).map f = (Ddo.getNode ls0 l p).map f := by
  have h1 : ∀ (xs : List (List (Node S))), (Ddo.getNode xs l p).map f = ((xs[l]?.getD []).map f)[p]? := by
    intro xs
    unfold Ddo.getNode
    cases xs[l]? with
    | none => rfl
    | some ly => simp only [Option.getD_some, List.getElem?_map]
  rw [h1, h1, h.layer l]

theorem EqUp.getNode_some {f : Node S → Node S} {ls ls0 : List (List (Node S))} (h : EqUp f ls ls0) {l p : Nat} {n : Node S}
    (hn : getNode ls l p = some n) : ∃ n0, getNode ls0 l p = some n0 ∧ f n0 = f n := by
  have hg := h.getNode_map l p
  rw [hn, Option.map_some] at hg
  cases h0 : Ddo.getNode ls0 l p with
  | none => rw [h0] at hg; cases hg
  | some n0 =>
    rw [h0, Option.map_some] at hg
    exact ⟨n0, rfl, (Option.some.inj hg).symm⟩

theorem EqUp.symm {f : Node S → Node S} {a b : List (List (Node S))} (h : EqUp f a b) : EqUp f b a := Eq.symm h

theorem stripC_fields {a b : Node S} (h : stripC a = stripC b) :
    a.state = b.state ∧ a.value = b.value ∧ a.vbot = b.vbot ∧ a.best = b.best ∧ a.inb = b.inb ∧ a.rub = b.rub ∧
    a.theta = b.theta ∧ a.fExact = b.fExact ∧ a.fRelaxed = b.fRelaxed ∧ a.marked = b.marked ∧ a.deleted = b.deleted ∧
    a.cache = b.cache ∧ a.depth = b.depth := by
  have h1 := congrArg Node.state h
  have h2 := congrArg Node.value h
  have h3 := congrArg Node.vbot h
  have h4 := congrArg Node.best h
  have h5 := congrArg Node.inb h
  have h6 := congrArg Node.rub h
  have h7 := congrArg Node.theta h
  have h8 := congrArg Node.fExact h
  have h9 := congrArg Node.fRelaxed h
  have h10 := congrArg Node.marked h
  have h11 := congrArg Node.deleted h
  have h12 := congrArg Node.cache h
  have h13 := congrArg Node.depth h
  simp only [stripC] at h1 h2 h3 h4 h5 h6 h7 h8 h9 h10 h11 h12 h13
  exact ⟨h1, h2, h3, h4, h5, h6, h7, h8, h9, h10, h11, h12, h13⟩

theorem stripL_fields {a b : Node S} (h : stripL a = stripL b) :
    a.state = b.state ∧ a.value = b.value ∧ a.best = b.best ∧ a.inb = b.inb ∧ a.rub = b.rub ∧
    a.theta = b.theta ∧ a.fExact = b.fExact ∧ a.fRelaxed = b.fRelaxed ∧ a.cutset = b.cutset ∧ a.deleted = b.deleted ∧
    a.cache = b.cache ∧ a.above = b.above ∧ a.depth = b.depth := by
  have h1 := congrArg Node.state h
  have h2 := congrArg Node.value h
  have h4 := congrArg Node.best h
  have h5 := congrArg Node.inb h
  have h6 := congrArg Node.rub h
  have h7 := congrArg Node.theta h
  have h8 := congrArg Node.fExact h
  have h9 := congrArg Node.fRelaxed h
  have h10 := congrArg Node.cutset h
  have h11 := congrArg Node.deleted h
  have h12 := congrArg Node.cache h
  have h13 := congrArg Node.above h
  have h14 := congrArg Node.depth h
  simp only [stripL] at h1 h2 h4 h5 h6 h7 h8 h9 h10 h11 h12 h13 h14
  exact ⟨h1, h2, h4, h5, h6, h7, h8, h9, h10, h11, h12, h13, h14⟩

/-- `computeCutset` only writes `cutset` and `above` -/
theorem computeCutset_eqC (kind : CutsetKind) (lel : Nat) (layers : List (List (Node S))) :
    EqUp stripC (computeCutset kind lel layers).1 layers := by
  unfold computeCutset
  cases kind with
  | lel =>
    dsimp only
    refine foldl_inv (β := List (List (Node S))) (fun ls => EqUp stripC ls layers) _ _ _ (EqUp.refl _ _) ?_
    intro ls l _ h
    split
    · exact h.set_map l _ (fun _ => rfl)
    · split
      · exact h.set_map l _ (fun _ => rfl)
      · exact h
  | frontier =>
    dsimp only
    refine foldl_inv (β := List (List (Node S)) × List (Nat × Nat)) (fun acc => EqUp stripC acc.1 layers) _ _ _ (EqUp.refl _ _) ?_
    rintro ⟨ls, cs⟩ l _ h
    dsimp only at h ⊢
    refine foldl_inv (β := List (List (Node S)) × List (Nat × Nat)) (fun acc => EqUp stripC acc.1 layers) _ _ _ h ?_
    rintro ⟨ls, cs⟩ p _ h
    dsimp only at h ⊢
    split
    · exact h
    · rename_i n _
      split
      · exact h.modNode l p _ (fun _ _ => rfl)
      · refine foldl_inv (β := List (List (Node S)) × List (Nat × Nat)) (fun acc => EqUp stripC acc.1 layers) _ _ _ h ?_
        rintro ⟨ls, cs⟩ e _ h
        dsimp only at h ⊢
        split
        · split
          · exact h.modNode _ _ _ (fun _ _ => rfl)
          · exact h
        · exact h

/-- `computeLocalBounds` only writes `vbot` and `marked` -/
theorem computeLocalBounds_eqL (layers : List (List (Node S))) : EqUp stripL (computeLocalBounds layers) layers := by
  unfold computeLocalBounds
  extract_lets last layers0
  have h0 : EqUp stripL layers0 layers := (EqUp.refl _ _).set_map _ _ (fun _ => rfl)
  clear_value layers0
  refine foldl_inv (β := List (List (Node S))) (fun acc => EqUp stripL acc layers) _ _ _ h0 ?_
  intro ls l _ h
  refine foldl_inv (β := List (List (Node S))) (fun acc => EqUp stripL acc layers) _ _ _ h ?_
  intro ls p _ h
  split
  · exact h
  · split
    · refine foldl_inv (β := List (List (Node S))) (fun acc => EqUp stripL acc layers) _ _ _ h ?_
      intro ls e _ h
      exact h.modNode _ _ _ (fun _ _ => rfl)
    · exact h

end Ddo.Theta

#print axioms Ddo.Theta.EqUp.getNode_some
#print axioms Ddo.Theta.stripC_fields
#print axioms Ddo.Theta.stripL_fields
#print axioms Ddo.Theta.computeCutset_eqC
#print axioms Ddo.Theta.computeLocalBounds_eqL
