import DdoModel.Proofs.Theta
import DdoModel.Proofs.CacheClosedContract
/-! A **strict** form of the threshold soundness theorem (Stage 1 of C09), for the parallel solver with the cache.

`Ddo.Theta.theta_sound` justifies a recorded threshold `u = (s, d, θ, explored)` by (among others) a sub-problem `c` of the
cut-set with `d ≤ c.depth`.  Here the same alternative is sharpened: `c` is **strictly deeper** than `d`, or it is the very
node the threshold belongs to (`c.depth = d ∧ c.state = s`).  The argument is the one of `gt_all` (`ThetaCore.lean`): the
alternative `Handed` is produced either for the node itself, or inherited from a child (one layer deeper); `HandedS` records
that, in the way `CutBy` already does (`l ≤ l' ∧ (l' = l → p' = p)`).

* `HandedS`, `GTS`, `gt_all_s` — the core induction;
* `Ctx.theta_sound_strict`, `theta_sound_strict` — on `finalize`, on `compile`;
* `Ddo.C09.theta_contract_strict_of_model` — in the form of the field `CompC.theta`;
* `Ddo.C09.ThetaStrict`, `thetaStrict_relaxed_of_model`, `thetaStrict_restricted_of_model` — packaged next to `CompC`. -/
set_option linter.unusedSectionVars false
set_option linter.unusedVariables false
namespace Ddo.Theta
open Ddo Ddo.Bounds
variable {S K : Type} [DecidableEq S] [DecidableEq K]

/-- `Handed`, with the position: the cut-set node that is handed out is the node `(l, p)` itself or sits strictly deeper -/
def HandedS (cfg : Cfg S K) (H : Nat → S → EInt) (L3 : List (List (Node S))) (nE : Nat) (bk : Int) (l p : Nat) (x : Int) :
    Prop :=
  ∃ (l' p' : Nat) (c3 : Node S) (hc : Int), l ≤ l' ∧ (l' = l → p' = p) ∧ getNode L3 l' p' = some c3 ∧ c3.deleted = false ∧
    c3.cutset = true ∧ c3.marked = true ∧ satAdd c3.value c3.vbot > bk ∧ satAdd c3.value c3.rub > bk ∧
    (∃ pt tn, getNode L3 nE pt = some tn) ∧
    H (cfg.root.depth + l') c3.state = some hc ∧ x ≤ c3.value + hc

/-- from a child (layer `l + 1`) to its parent at `(l, p0)` -/
theorem HandedS.up {cfg : Cfg S K} {H : Nat → S → EInt} {L3 : List (List (Node S))} {nE : Nat} {bk : Int}
    {l p p0 : Nat} {x x0 : Int} (h : HandedS cfg H L3 nE bk (l + 1) p x) (hx : x0 ≤ x) :
    HandedS cfg H L3 nE bk l p0 x0 := by
  obtain ⟨l', p', c3, hc, a1, a2, a3, a4, a5, a6, a7, a8, a9, a10, a11⟩ := h
  exact ⟨l', p', c3, hc, by omega, fun e => by omega, a3, a4, a5, a6, a7, a8, a9, a10, by omega⟩

theorem HandedS.mono {cfg : Cfg S K} {H : Nat → S → EInt} {L3 : List (List (Node S))} {nE : Nat} {bk : Int}
    {l p : Nat} {x x0 : Int} (h : HandedS cfg H L3 nE bk l p x) (hx : x0 ≤ x) : HandedS cfg H L3 nE bk l p x0 := by
  obtain ⟨l', p', c3, hc, a1, a2, a3, a4, a5, a6, a7, a8, a9, a10, a11⟩ := h
  exact ⟨l', p', c3, hc, a1, a2, a3, a4, a5, a6, a7, a8, a9, a10, by omega⟩

/-- the strict alternative implies the plain one -/
theorem HandedS.handed {cfg : Cfg S K} {H : Nat → S → EInt} {L3 : List (List (Node S))} {nE : Nat} {bk : Int}
    {l p : Nat} {x : Int} (h : HandedS cfg H L3 nE bk l p x) : Handed cfg H L3 nE bk l x := by
  obtain ⟨l', p', c3, hc, a1, a2, a3, a4, a5, a6, a7, a8, a9, a10, a11⟩ := h
  exact ⟨l', p', c3, hc, a1, a3, a4, a5, a6, a7, a8, a9, a10, a11⟩

/-- the statement with thresholds, strict form -/
def GTS (cfg : Cfg S K) (H : Nat → S → EInt) (B M : Int) (cache : Cache S) (L3 : List (List (Node S))) (nE : Nat) (bk : Int)
    (l p : Nat) (n3 : Node S) : Prop :=
  ∀ w, Cover.Within (M + Cover.Bd B l) w → (∀ t, n3.theta = some t → w ≤ t) →
    ∀ h, H (cfg.root.depth + l) n3.state = some h →
      w + h ≤ bk ∨ HandedS cfg H L3 nE bk l p (w + h) ∨ CutBy cfg H B M cache L3 l p (w + h) ∨
      (n3.above = false ∧ Path L3 H cfg.root.depth B l p h (nE - l))

section
variable {cfg : Cfg S K} {H : Nat → S → EInt} {B M : Int} {cache : Cache S} {L3 : List (List (Node S))} {nE : Nat} {bk : Int}

/-- **nodes with thresholds**, strict form (the proof of `gt_all`, with the positions) -/
theorem gt_all_s (hf : FF cfg H B cache L3 nE bk) (hy : HypF cfg H B M nE bk) :
    ∀ (d l p : Nat) (n3 : Node S), l + d = nE → getNode L3 l p = some n3 → n3.deleted = false →
      GTS cfg H B M cache L3 nE bk l p n3 := by
  intro d
  induction d with
  | zero =>
    intro l p n3 hl hn hdel w hw hth h hH
    have hl' : l = nE := by omega
    subst hl'
    obtain ⟨_, hc, hcut, hrub, hH0, hlen⟩ := hf.termN p n3 hn
    rw [hH0] at hH; cases hH
    obtain ⟨θp, hθ, _, hterm⟩ := hf.theta l p n3 hn hdel
    have hwb : -big ≤ w := by
      have := bd_le hy (Nat.le_refl l)
      unfold Cover.Within at hw; omega
    unfold ownTheta at hθ
    rw [hc] at hθ
    simp only [Bool.false_eq_true, if_false] at hθ
    by_cases hr : satAdd n3.value n3.rub ≤ bk
    · rw [if_pos hr] at hθ
      left
      have h1 := hth _ hθ
      rw [hrub] at h1
      have := satSub_chain (h := 0) hwb h1 (by unfold iMax; omega)
      omega
    · rw [if_neg hr, hcut] at hθ
      simp only [Bool.false_eq_true, if_false] at hθ
      by_cases hab : n3.above = true
      · obtain ⟨tp, htp, hle⟩ := hterm rfl hab
        rw [htp] at hθ
        simp only [Option.isNone_some, Bool.and_false, Bool.false_eq_true, if_false] at hθ
        left
        have := hth _ hθ
        omega
      · right; right; right
        refine ⟨by simpa using hab, ?_⟩
        rw [Nat.sub_self]
        exact .term l p n3 hlen.symm hn hH0
  | succ d ih =>
    intro l p n3 hl hn hdel w hw hth h hH
    have hlt : l < nE := by omega
    obtain ⟨hb1, hb2, hb3⟩ := bd_step hy hlt
    have hwb : -big ≤ w ∧ w ≤ big := by unfold Cover.Within at hw; omega
    by_cases hc : n3.cache = true
    · -- pruned by the cache: the node itself
      obtain ⟨_, t, tf, ht, hvt, htf, htfle⟩ := hf.cacheN l p n3 hn hdel hc
      right; right; left
      have := hth tf htf
      exact ⟨l, p, n3, t, w, h, Nat.le_refl _, fun _ => rfl, hn, hdel, hc, ht, by omega, hw, hH, Int.le_refl _⟩
    have hc' : n3.cache = false := by simpa using hc
    obtain ⟨hrub, hstep⟩ := hf.liveN l p n3 hn hdel hc' hlt
    obtain ⟨θp, hθ, hkids, _⟩ := hf.theta l p n3 hn hdel
    unfold ownTheta at hθ
    rw [hc'] at hθ
    simp only [Bool.false_eq_true, if_false] at hθ
    have hrle := hy.R _ _ _ hH
    by_cases hr : satAdd n3.value n3.rub ≤ bk
    · -- the rough upper bound cannot beat `bk`
      rw [if_pos hr] at hθ
      left
      have h1 := hth _ hθ
      rw [hrub] at h1
      exact satSub_chain hwb.1 h1 hrle
    rw [if_neg hr] at hθ
    have htest : satAdd (cfg.R.rub n3.state) n3.value > cfg.lb := by
      rw [satAdd_comm, ← hrub]
      have := hy.lbBk
      omega
    -- the step to a child, for a value `w` below the threshold `θp` the node held when its turn came
    have child : (∀ tp, θp = some tp → w ≤ tp) →
        w + h ≤ bk ∨ HandedS cfg H L3 nE bk l p (w + h) ∨ CutBy cfg H B M cache L3 l p (w + h) ∨
        ∃ (p' : Nat) (m3 : Node S) (e : Arc), getNode L3 (l + 1) p' = some m3 ∧ e ∈ m3.inb ∧ e.fromL = l ∧ e.fromP = p ∧
          m3.above = false ∧ Path L3 H cfg.root.depth B l p h (nE - l) := by
      intro hwθ
      obtain ⟨p', m3, e, h', hm, hmd, he, hfl, hfp, hwc, hH', hle, hval⟩ := hstep htest h hH
      have hH'' : H (cfg.root.depth + (l + 1)) m3.state = some h' := by rw [← Nat.add_assoc]; exact hH'
      have hw' : Cover.Within (M + Cover.Bd B (l + 1)) (w + e.cost) := by
        rw [← hb1]; unfold Cover.Within at hw hwc ⊢; omega
      have hth' : ∀ t, m3.theta = some t → w + e.cost ≤ t := by
        intro t ht
        obtain ⟨tp, htp, hle'⟩ := hkids p' m3 t e hm hmd ht he hfp
        have h1 := hwθ tp htp
        have h2 : w ≤ satSub t e.cost := by omega
        exact satSub_chain hwb.1 h2 (Int.le_refl _)
      rcases ih (l + 1) p' m3 (by omega) hm hmd (w + e.cost) hw' hth' h' hH'' with h1 | h1 | h1 | ⟨h1, h2⟩
      · left; omega
      · right; left; exact h1.up (by omega)
      · right; right; left; exact h1.up (by omega)
      · right; right; right
        refine ⟨p', m3, e, hm, he, hfl, hfp, h1, ?_⟩
        rw [show nE - l = (nE - (l + 1)) + 1 by omega]
        exact .step l p p' n3 m3 e h h' _ hn hm he hfl hfp hwc hH hH' hle hval h2
    by_cases hcut : n3.cutset = true
    · rw [hcut] at hθ
      simp only [if_true] at hθ
      by_cases hlocb : satAdd n3.value n3.vbot ≤ bk
      · -- a cut-set node whose local bound cannot beat `bk`
        rw [if_pos hlocb] at hθ
        have h1 := hth _ hθ
        have hwθ : ∀ tp, θp = some tp → w ≤ tp := by
          intro tp htp
          rw [htp, Option.getD_some] at h1
          omega
        rcases child hwθ with c1 | c1 | c1 | ⟨p', m3, e, _, _, _, _, _, hpath⟩
        · exact .inl c1
        · exact .inr (.inl c1)
        · exact .inr (.inr (.inl c1))
        · left
          obtain ⟨n3', hn3', _, hvb⟩ := hf.good l p n3 hn hcut l p h _ hpath
          rw [hn] at hn3'; cases hn3'
          have h2 : w ≤ satSub bk n3.vbot := by omega
          exact satSub_chain hwb.1 h2 hvb
      · -- a cut-set node whose local bound beats `bk`: `theta = value`; the node itself is handed out
        rw [if_neg hlocb] at hθ
        have h1 := hth _ hθ
        by_cases hT : (∃ pt tn, getNode L3 nE pt = some tn) ∧ n3.marked = true
        · right; left
          exact ⟨l, p, n3, h, Nat.le_refl _, fun _ => rfl, hn, hdel, hcut, hT.2, by omega, by omega, hT.1, hH, by omega⟩
        · rcases np_all hf hy (d + 1) l p n3 hl hn hdel h hH with c1 | c1 | c1
          · left
            have := hy.lbBk
            omega
          · right; right; left; exact c1.mono (by omega)
          · exfalso
            apply hT
            refine ⟨path_term (by omega) c1, ?_⟩
            obtain ⟨n3', hn3', hmk, _⟩ := hf.good l p n3 hn hcut l p h _ c1
            rw [hn] at hn3'; cases hn3'
            exact hmk
    · -- not in the cut-set
      have hcut' : n3.cutset = false := by simpa using hcut
      rw [hcut'] at hθ
      simp only [Bool.false_eq_true, if_false] at hθ
      have hwθ : ∀ tp, θp = some tp → w ≤ tp := by
        intro tp htp
        rw [htp] at hθ
        simp only [Option.isNone_some, Bool.and_false, Bool.false_eq_true, if_false] at hθ
        exact hth tp hθ
      rcases child hwθ with c1 | c1 | c1 | ⟨p', m3, e, hm, he, hfl, hfp, hmab, hpath⟩
      · exact .inl c1
      · exact .inr (.inl c1)
      · exact .inr (.inr (.inl c1))
      · right; right; right
        refine ⟨?_, hpath⟩
        cases hab : n3.above with
        | false => rfl
        | true =>
          have := hf.flagStep l p p' n3 m3 e hn hab hcut' hm he hfl hfp
          rw [hmab] at this; cases this

end

/-! ## on `finalize` -/

section
variable {cfg : Cfg S K} {H : Nat → S → EInt} {B : Int} {cache : Cache S} {p0 : List Dec} {fin : DD S K}
  {Live : Nat → Nat → Prop} {dd : DD S K}

/-- **soundness of the thresholds, on `finalize`, strict form**: the sub-problem of the cut-set that justifies a threshold
    is strictly deeper than the threshold, or it is the node of the threshold (same depth, same state) -/
theorem Ctx.theta_sound_strict (hx : Ctx cfg H B cache p0 fin Live dd) (hR : RubOk cfg.R H) (hlb : cfg.lb < iMax)
    (M : Int) (hM0 : 0 ≤ M) (hMs : M + Cover.Bd B (cfg.P.nbVars + 1) ≤ big) (e : Bool) :
    ∀ u ∈ (finalize cfg (finalizeLayers fin) e).1.cacheUpdates, cfg.root.depth ≤ u.2.1 ∧
      ∀ v h, Cover.Within (M + Cover.Bd B (u.2.1 - cfg.root.depth)) v → v ≤ u.2.2.1 → H u.2.1 u.1 = some h →
        v + h ≤ bkOf cfg.lb (finalize cfg (finalizeLayers fin) e).1.bestExactValue ∨
        (∃ c ∈ (finalize cfg (finalizeLayers fin) e).1.cutset, (u.2.1 < c.depth ∨ (c.depth = u.2.1 ∧ c.state = u.1)) ∧
          ∃ y, (H c.depth c.state).addI c.value = some y ∧ v + h ≤ y) ∨
        (cfg.useCache = true ∧ ∃ (s' : S) (d' : Nat) (t : Thr) (v' h' : Int), cache.get s' d' = some (some t) ∧ u.2.1 < d' ∧
          Cover.Within (M + Cover.Bd B (d' - cfg.root.depth)) v' ∧ v' ≤ t.value ∧ H d' s' = some h' ∧ v + h ≤ v' + h') := by
  intro u hu
  obtain ⟨l, p, n3, hn, hdel, hc, hab, t, hth, rfl⟩ := (hx.spec e).2 u hu
  have hdep := hx.depth e l p n3 hn
  dsimp only
  refine ⟨by omega, ?_⟩
  intro v h hv hvt hH
  have hlmax := hx.lmax e l p n3 hn
  have hy : HypF cfg H B M dd.layers.length (bkOf cfg.lb (finalize cfg (finalizeLayers fin) e).1.bestExactValue) := by
    refine ⟨hR, hlb, bkOf_ge _ _, hx.hy.B.nonneg, hM0, ?_⟩
    have := Cover.Bd_mono hx.hy.B.nonneg hx.bo.len
    omega
  have hg := gt_all_s (hx.ff e) hy (dd.layers.length - l) l p n3 (by omega) hn hdel
  rw [hdep, Nat.add_sub_cancel_left] at hv
  rw [hdep] at hH
  rcases hg v hv (fun t' ht' => by rw [hth] at ht'; cases ht'; exact hvt) h hH with g1 | g1 | g1 | ⟨g1, _⟩
  · exact .inl g1
  · -- a cut-set node that is handed out: the node itself, or strictly deeper
    right; left
    obtain ⟨l', p', c3, hc', hll, hpp, hc3, _, hcut3, hmk3, _, _, ⟨pt, tn, htn⟩, hHc, hxle⟩ := g1
    -- the diagram has terminal nodes, hence a best value
    obtain ⟨t0, _, _, _, _, _, _, hloc⟩ := hx.locate e htn
    have hbv : ∃ bv, (finalizeLayers fin).bestValue = some bv := by
      rcases hloc with ⟨_, _, _, hl⟩ | ⟨_, hp⟩
      · omega
      · have hterm : t0 ∈ (finalizeLayers fin).terminals := by rw [hx.bo.terms]; exact List.mem_of_getElem? hp
        obtain ⟨bv, hbv, _⟩ := Cover.maxValue_ge _ t0 hterm
        exact ⟨bv, hbv⟩
    obtain ⟨bv, hbv⟩ := hbv
    refine ⟨subOf cfg (finalize cfg (finalizeLayers fin) e).2 bv c3, ?_, ?_, c3.value + hc', ?_, hxle⟩
    · exact (finalize_cutset_iff cfg _ e _).2 ⟨bv, (l', p'), c3, hbv, hx.cutMem e l' p' c3 hc3 hcut3, hc3, hmk3, rfl⟩
    · simp only [subOf]
      rcases Nat.lt_or_ge l l' with h1 | h1
      · left
        have := hx.depth e l' p' c3 hc3
        omega
      · right
        have hl' : l' = l := by omega
        subst hl'
        rw [hpp rfl, hn] at hc3
        cases hc3
        exact ⟨rfl, rfl⟩
    · simp only [subOf]
      rw [hx.depth e l' p' c3 hc3, hHc]
      simp only [EInt.addI, Option.map_some]
      rw [Int.add_comm]
  · -- a node pruned by the cache, strictly deeper
    right; right
    obtain ⟨l', p', m3, t', v', h', hll, hpp, hm3, _, hcm, hlook, hv't, hw', hH', hxle⟩ := g1
    have hlt : l < l' := by
      rcases Nat.lt_or_ge l l' with h1 | h1
      · exact h1
      · have hl' : l' = l := by omega
        subst hl'
        rw [hpp rfl, hn] at hm3
        cases hm3
        rw [hc] at hcm; cases hcm
    obtain ⟨hu1, hget⟩ := lookup_some hlook
    have hdm := hx.depth e l' p' m3 hm3
    refine ⟨hu1, m3.state, m3.depth, t', v', h', hget, by rw [hdep, hdm]; omega, ?_, hv't, by rw [hdm]; exact hH', hxle⟩
    rw [hdm, Nat.add_sub_cancel_left]
    exact hw'
  · rw [hab] at g1; cases g1

end

/-! ## `compile` -/

/-- **`theta_sound_strict`** — `theta_sound` with the middle alternative in its strict form: the sub-problem `c` of the
    cut-set of this diagram that carries `v + h` is strictly deeper than the threshold `(s, d, θ, _)`, or it is the
    sub-problem of the node the threshold belongs to (`c.depth = d ∧ c.state = s`). -/
theorem theta_sound_strict (cfg : Cfg S K) (H : Nat → S → EInt) (B M : Int) (p0 : List Dec) (cache : Cache S)
    (store : DomStore S K) (polls : Nat) (stopAt : Option Nat)
    (hrel : cfg.ctype = .relaxed) (hdom : cfg.dom = none) (hW : 1 ≤ cfg.width)
    (hP : Potential cfg.P H) (hR : RubOk cfg.R H) (hM : MergeOk cfg.R H) (hAM : Cover.AttMerge cfg.P cfg.R H)
    (hB : NoClamp cfg.P cfg.R cfg.root.value B) (hlb : cfg.lb < iMax)
    (hroot : Reach cfg.P cfg.root.depth cfg.root.state cfg.root.value p0)
    (hM0 : 0 ≤ M) (hMs : M + Cover.Bd B (cfg.P.nbVars + 1) ≤ big)
    (hok : (compile cfg cache store polls stopAt).1 = .ok) (r : Result S)
    (hr : r = (compile cfg cache store polls stopAt).2.1 ∨ (compile cfg cache store polls stopAt).2.2.1 = some r) :
    ∀ u ∈ r.cacheUpdates, cfg.root.depth ≤ u.2.1 ∧
      ∀ v h, Cover.Within (M + Cover.Bd B (u.2.1 - cfg.root.depth)) v → v ≤ u.2.2.1 → H u.2.1 u.1 = some h →
        v + h ≤ bkOf cfg.lb r.bestExactValue ∨
        (∃ c ∈ r.cutset, (u.2.1 < c.depth ∨ (c.depth = u.2.1 ∧ c.state = u.1)) ∧
          ∃ y, (H c.depth c.state).addI c.value = some y ∧ v + h ≤ y) ∨
        (cfg.useCache = true ∧ ∃ (s' : S) (d' : Nat) (t : Thr) (v' h' : Int), cache.get s' d' = some (some t) ∧ u.2.1 < d' ∧
          Cover.Within (M + Cover.Bd B (d' - cfg.root.depth)) v' ∧ v' ≤ t.value ∧ H d' s' = some h' ∧ v + h ≤ v' + h') := by
  have hy : HypT cfg H B := ⟨hrel, hdom, hW, hP, hM, hAM, hB⟩
  obtain ⟨_, e, rfl⟩ := compile_results cfg cache store polls stopAt hok r hr
  have hdone := compile_doneT cfg H B hy cache store polls stopAt hok
  have hwf := compile_wf cfg B p0 hB hroot cache store polls stopAt
  have hinv2 := (buildLoop_inv2 cfg B p0 hB stopAt (cfg.P.nbVars + 2) (initDD cfg cache store polls)
    (initDD_inv cfg B p0 hB hroot cache store polls) (initDD_inv2 cfg cache store polls) rfl
    (by simp only [initDD, List.length_nil]; omega)).2
  generalize (buildLoop cfg stopAt (cfg.P.nbVars + 2) (initDD cfg cache store polls)).1 = fin at hdone hwf hinv2 ⊢
  obtain ⟨Live, dd, hbo⟩ := builtOk_of_done cfg H B cache fin hdone
  exact Ctx.theta_sound_strict (p0 := p0) ⟨hy, hbo, hwf, hinv2⟩ hR hlb M hM0 hMs e

end Ddo.Theta

namespace Ddo.C09
open Ddo Ddo.Theta Ddo.CacheClosed
variable {S K : Type} [DecidableEq S] [DecidableEq K]

/-- **Stage 1 in the form of the field `theta` of `CompC`, strict form** (`theta_contract_of_model` with the cut-set
    alternative sharpened: strictly deeper, or the node of the threshold itself) -/
theorem theta_contract_strict_of_model (cfg : Cfg S K) (H : Nat → S → EInt) (B : Int) (p0 : List Dec) (cache : Cache S)
    (store : DomStore S K) (polls : Nat) (stopAt : Option Nat)
    (hrel : cfg.ctype = .relaxed) (hdom : cfg.dom = none) (hW : 1 ≤ cfg.width)
    (hP : Potential cfg.P H) (hR : RubOk cfg.R H) (hM : MergeOk cfg.R H) (hAM : Cover.AttMerge cfg.P cfg.R H)
    (hB : NoClamp cfg.P cfg.R cfg.root.value B) (hlb : cfg.lb < iMax)
    (hroot : Reach cfg.P cfg.root.depth cfg.root.state cfg.root.value p0) (hk0 : cfg.root.depth ≤ cfg.P.nbVars)
    (hok : (compile cfg cache store polls stopAt).1 = .ok) (r : Result S)
    (hr : r = (compile cfg cache store polls stopAt).2.1 ∨ (compile cfg cache store polls stopAt).2.2.1 = some r) :
    ∀ u ∈ r.cacheUpdates, ∀ v h, RgB B u.2.1 v → v ≤ u.2.2.1 → H u.2.1 u.1 = some h →
      v + h ≤ bkOf cfg.lb r.bestExactValue ∨
      (∃ c ∈ (C01.toOut r).cutset, (u.2.1 < c.depth ∨ (c.depth = u.2.1 ∧ c.state = u.1)) ∧
        ∃ y, optOf H c = some y ∧ v + h ≤ y) ∨
      CacheCov H (RgB B) (viewOf cache) u.2.1 (v + h) := by
  intro u hu v h hv hvt hH
  obtain ⟨h1, h2⟩ := Ddo.Theta.theta_sound_strict cfg H B ((cfg.root.depth : Int) * B) p0 cache store polls stopAt hrel hdom hW
    hP hR hM hAM hB hlb hroot (Int.mul_nonneg (by omega) hB.nonneg) (bd_shift_small hB _ hk0) hok r hr u hu
  rcases h2 v h (by rw [bd_shift B _ _ h1]; exact hv) hvt hH with a | a | ⟨_, s', d', t, v', h', a1, a2, a3, a4, a5, a6⟩
  · exact .inl a
  · exact .inr (.inl a)
  · right; right
    refine ⟨s', d', t, v', h', ?_, a2, ?_, a4, a5, a6⟩
    · unfold viewOf; rw [a1]; rfl
    · unfold RgB; rw [← bd_shift B cfg.root.depth d' (by omega)]; exact a3

/-- the strict form of `CompC.theta` -/
def ThetaStrict (H : Nat → S → EInt) (Rg : Nat → Int → Prop) (T : CView S) (o : DDOut S)
    (ups : List (S × Nat × Int × Bool)) (bk : Int) : Prop :=
  ∀ u ∈ ups, ∀ v h, Rg u.2.1 v → v ≤ u.2.2.1 → H u.2.1 u.1 = some h →
    v + h ≤ bk ∨
    (∃ c ∈ o.cutset, (u.2.1 < c.depth ∨ (c.depth = u.2.1 ∧ c.state = u.1)) ∧ ∃ y, optOf H c = some y ∧ v + h ≤ y) ∨
    CacheCov H Rg T u.2.1 (v + h)

/-- the strict form implies the field `theta` of `CompC` -/
theorem ThetaStrict.theta {H : Nat → S → EInt} {Rg : Nat → Int → Prop} {T : CView S} {o : DDOut S}
    {ups : List (S × Nat × Int × Bool)} {bk : Int} (hs : ThetaStrict H Rg T o ups bk) :
    ∀ u ∈ ups, ∀ v h, Rg u.2.1 v → v ≤ u.2.2.1 → H u.2.1 u.1 = some h →
      v + h ≤ bk ∨ (∃ c ∈ o.cutset, u.2.1 ≤ c.depth ∧ ∃ y, optOf H c = some y ∧ v + h ≤ y) ∨ CacheCov H Rg T u.2.1 (v + h) := by
  intro u hu v h hv hvt hH
  rcases hs u hu v h hv hvt hH with a | ⟨c, hc, hd, hy⟩ | a
  · exact .inl a
  · refine .inr (.inl ⟨c, hc, ?_, hy⟩)
    rcases hd with hd | ⟨hd, _⟩ <;> omega
  · exact .inr (.inr a)

section
variable (H : Nat → S → EInt)

/-- **`ThetaStrict` for a relaxed compilation of the diagram model that consults a cache** (the `must` result; `ups`: the
    recorded thresholds, in any order) — next to `compC_relaxed_of_model` -/
theorem thetaStrict_relaxed_of_model (cfg : Cfg S K) (B : Int) (p0 : List Dec) (cache : Cache S)
    (store : DomStore S K) (polls : Nat)
    (hrel : cfg.ctype = .relaxed) (hdom : cfg.dom = none) (hW : 1 ≤ cfg.width)
    (hP : Potential cfg.P H) (hR : RubOk cfg.R H) (hM : MergeOk cfg.R H) (hAM : Cover.AttMerge cfg.P cfg.R H)
    (hB : NoClamp cfg.P cfg.R cfg.root.value B) (hlb : cfg.lb < iMax)
    (hroot : Reach cfg.P cfg.root.depth cfg.root.state cfg.root.value p0)
    (hk0 : cfg.root.depth ≤ cfg.P.nbVars)
    (hok : (compile cfg cache store polls none).1 = .ok)
    (ups : List (S × Nat × Int × Bool)) (hups : ∀ u ∈ ups, u ∈ (compile cfg cache store polls none).2.1.cacheUpdates) :
    ThetaStrict H (RgB B) (viewOf cache) (C01.toOut (compile cfg cache store polls none).2.1) ups
      (bkOf cfg.lb (compile cfg cache store polls none).2.1.bestExactValue) := by
  intro u hu
  exact theta_contract_strict_of_model cfg H B p0 cache store polls none hrel hdom hW hP hR hM hAM hB hlb hroot hk0 hok _
    (.inl rfl) u (hups u hu)

/-- **`ThetaStrict` for an exact restricted compilation that consults a cache**: its thresholds are those of its relaxed
    twin (`restricted_exact_as_relaxed`), whose cut-set is empty — next to `compC_restricted_of_model` -/
theorem thetaStrict_restricted_of_model (cfg : Cfg S K) (B : Int) (p0 : List Dec) (cache : Cache S)
    (store : DomStore S K) (polls : Nat)
    (hres : cfg.ctype = .restricted) (hdom : cfg.dom = none) (hW : 1 ≤ cfg.width)
    (hP : Potential cfg.P H) (hR : RubOk cfg.R H) (hM : MergeOk cfg.R H) (hAM : Cover.AttMerge cfg.P cfg.R H)
    (hB : NoClamp cfg.P cfg.R cfg.root.value B) (hlb : cfg.lb < iMax)
    (hroot : Reach cfg.P cfg.root.depth cfg.root.state cfg.root.value p0)
    (hk0 : cfg.root.depth ≤ cfg.P.nbVars)
    (hok : (compile cfg cache store polls none).1 = .ok)
    (hex : (compile cfg cache store polls none).2.1.isExact = true)
    (ups : List (S × Nat × Int × Bool)) (hups : ∀ u ∈ ups, u ∈ (compile cfg cache store polls none).2.1.cacheUpdates) :
    ThetaStrict H (RgB B) (viewOf cache) (C01.toOut (compile cfg cache store polls none).2.1) ups
      (bkOf cfg.lb (compile cfg cache store polls none).2.1.bestExactValue) := by
  obtain ⟨xok, xex, xbe, xups, hcs, xcs⟩ := restricted_exact_as_relaxed cfg B p0 cache store polls none hres hB hroot hok hex
  intro u hu v h hv hvt hH
  have hu' : u ∈ (compile { cfg with ctype := .relaxed } cache store polls none).2.1.cacheUpdates := by
    rw [xups]; exact hups u hu
  have := theta_contract_strict_of_model { cfg with ctype := .relaxed } H B p0 cache store polls none rfl hdom hW hP hR hM hAM
    hB hlb hroot hk0 xok _ (.inl rfl) u hu' v h hv hvt hH
  rw [xbe] at this
  rcases this with a | ⟨c, hc, _⟩ | a
  · exact .inl a
  · exfalso
    have hnil : (C01.toOut (compile { cfg with ctype := .relaxed } cache store polls none).2.1).cutset = [] := xcs
    rw [hnil] at hc; cases hc
  · exact .inr (.inr a)

end
end Ddo.C09

#print axioms Ddo.Theta.gt_all_s
#print axioms Ddo.Theta.theta_sound_strict
#print axioms Ddo.C09.theta_contract_strict_of_model
#print axioms Ddo.C09.thetaStrict_relaxed_of_model
#print axioms Ddo.C09.thetaStrict_restricted_of_model
