import DdoModel.Proofs.CompatTurn
/-! C10d — **the checker's entries stay exactly reached with the cache enabled** (`StoreReach`), for one compilation
(`compile_storeReach_joint`: `Ddo.C10.compile_storeReach` without the hypothesis `cfg.useCache = false`, any cache content),
for one turn of the solver with cache and checker (`kdturn_storeReach`) and along its runs (`krun_storeReach`).

The cache filter only removes positions and touches the fields `cache` / `theta` of the nodes (`fcOf_node`), so the exact nodes
of the cache-filtered layer handed to `_filter_with_dominance` are still exactly reached (`MInv.next`), and
`filterDom_spec` / `filterDom_protected` apply to it. -/
set_option linter.unusedSectionVars false
set_option linter.unusedVariables false
namespace Ddo.C10d
open Ddo Ddo.C01 Ddo.Closed Ddo.C09 Ddo.C10 Ddo.C10c Ddo.Truth
variable {S K : Type} [DecidableEq S] [DecidableEq K]

/-! ## 1. one layer, one compilation -/

/-- `_filter_with_dominance` applied to the cache-filtered layer of a diagram satisfying `MInv`: the store it leaves has exactly
    reached entries and `nb_variables + 1` layers; no panic -/
theorem fdOf_sinv_joint (cfg : Cfg S K) (D : DomRule S K) (hD : cfg.dom = some D) (hNV : NvBound cfg.P) (B : Int)
    (p0 : List Dec) (dd : DD S K) (var : Nat) (hS : SInv cfg D dd) (hM : MInv cfg B p0 dd)
    (hdepth : dd.depth = cfg.root.depth + dd.layers.length)
    (hnv : cfg.P.nextVar dd.depth (dd.next.map (·.state)) = some var) :
    StoreReach D cfg.P (CacheClosed.fdOf cfg dd).2.2.1 ∧ (CacheClosed.fdOf cfg dd).2.2.2 = true ∧
    (CacheClosed.fdOf cfg dd).2.2.1.layers.length = cfg.P.nbVars + 1 := by
  have hlt := nv_depth_lt hNV hnv
  obtain ⟨g, keep, hl, hk, _, _, _⟩ := Theta.fcOf_desc cfg dd
  have hcur : ∀ p ∈ (Theta.fcOf cfg dd).2, p < (Theta.fcOf cfg dd).1.length := by
    intro p hp
    obtain ⟨n, hn, _⟩ := (hk p).1 hp
    rw [hl, List.length_map]
    exact Cover.lt_of_getElem?_some hn
  have hnode : ∀ n ∈ (Theta.fcOf cfg dd).1, n.isExact = true →
      (∃ p, Reach cfg.P n.depth n.state n.value p) ∧ n.depth = dd.depth := by
    intro n hn he
    obtain ⟨n00, h00, e00, d00, _⟩ := fcOf_node cfg dd n hn
    obtain ⟨q, _, hr, hd, _⟩ := hM.next n00 h00 (by rw [ess_isExact e00]; exact he)
    refine ⟨⟨p0 ++ q, ?_⟩, ?_⟩
    · rw [d00, ← e00.1, ← e00.2.1]; exact hr
    · rw [d00, hd, ← hdepth]
  have hdep : ∀ n ∈ (Theta.fcOf cfg dd).1, n.isExact = true → n.depth < dd.store.layers.length := by
    intro n hn he
    rw [hS.len, (hnode n hn he).2]; omega
  obtain ⟨_, _, _, h4, h5, _⟩ := filterDom_spec cfg D hD _ dd.store (Theta.fcOf cfg dd).1 (Theta.fcOf cfg dd).2 hcur hdep
    hS.store
  obtain ⟨h6, _⟩ := filterDom_protected cfg D hD dd.store (Theta.fcOf cfg dd).1 (Theta.fcOf cfg dd).2 hcur hdep
    (fun n hn he => (hnode n hn he).1) hS.store
  exact ⟨h6, h4, h5.trans hS.len⟩

/-- `Ddo.C10.stepLayer_sinv` with the cache enabled (any cache content) -/
theorem stepLayer_sinv_joint (cfg : Cfg S K) (D : DomRule S K) (hD : cfg.dom = some D) (hNV : NvBound cfg.P)
    (B : Int) (p0 : List Dec) (dd dd' : DD S K) (var : Nat) (oc : Outcome) (hS : SInv cfg D dd) (hM : MInv cfg B p0 dd)
    (hdepth : dd.depth = cfg.root.depth + dd.layers.length)
    (hnv : cfg.P.nextVar dd.depth (dd.next.map (·.state)) = some var)
    (hst : stepLayer cfg dd var = (some dd', oc)) : SInv cfg D dd' := by
  by_cases hne : dd.next = []
  · rw [stepLayer_empty cfg dd var hne] at hst
    cases hst
    exact ⟨hS.store, hS.len⟩
  · obtain ⟨f3, f4, f5⟩ := fdOf_sinv_joint cfg D hD hNV B p0 dd var hS hM hdepth hnv
    obtain ⟨_, s2⟩ := stepLayer_joint cfg dd var hne
    obtain ⟨s1, s2⟩ := s2 f4
    cases hsq : squash cfg dd (CacheClosed.fdOf cfg dd).1 (CacheClosed.fdOf cfg dd).2.1 with
    | none => rw [s1 hsq] at hst; cases hst
    | some sq =>
      obtain ⟨dd1, e, _, _, _, _, es, _⟩ := s2 sq hsq
      rw [e] at hst
      cases hst
      exact ⟨es ▸ f3, es ▸ f5⟩

/-- the store invariant at the end of the loop, cache and checker enabled, whatever the outcome of the loop -/
theorem buildLoop_sinv_joint (cfg : Cfg S K) (D : DomRule S K) (hD : cfg.dom = some D) (hNV : NvBound cfg.P)
    (B : Int) (hB : NoClamp cfg.P cfg.R cfg.root.value B) (p0 : List Dec) :
    ∀ (fuel : Nat) (dd : DD S K), SInv cfg D dd → MInv cfg B p0 dd → dd.depth = cfg.root.depth + dd.layers.length →
      dd.layers.length + fuel ≤ cfg.P.nbVars + 2 → SInv cfg D (buildLoop cfg none fuel dd).1 := by
  intro fuel dd hS hM hdepth hfuel
  refine buildLoop_ind_joint cfg
    (fun f dd => SInv cfg D dd ∧ MInv cfg B p0 dd ∧ dd.depth = cfg.root.depth + dd.layers.length ∧
      dd.layers.length + f ≤ cfg.P.nbVars + 2) (SInv cfg D) ?_ ?_ ?_ ?_ ?_ fuel dd ⟨hS, hM, hdepth, hfuel⟩
  · intro f dd var h
    exact ⟨⟨h.1.store, h.1.len⟩, h.2.1.congr rfl rfl, h.2.2.1, h.2.2.2⟩
  · intro f dd h; exact h.1
  · intro f dd h; exact ⟨h.1.store, h.1.len⟩
  · intro f dd h _; exact ⟨h.1.store, h.1.len⟩
  · intro f dd var sq dd' h hnv hne hsq hst hl hn hdd
    obtain ⟨hS, hM, hdepth, hfuel⟩ := h
    obtain ⟨m1, m2, _⟩ := Ddo.stepLayer_inv cfg B p0 hB dd var hM hdepth hnv (by omega) dd' .ok hst
    obtain ⟨m2a, m2b⟩ := m2 rfl
    refine ⟨stepLayer_sinv_joint cfg D hD hNV B p0 dd dd' var .ok hS hM hdepth hnv hst, m1, m2a, ?_⟩
    rw [hl, List.length_append, List.length_singleton]; omega

/-- the store a compilation with cache and checker leaves: exactly reached entries, `nb_variables + 1` layers — any compilation
    type, any cache content, any root reached exactly, whatever the outcome -/
theorem compile_sinv_joint (cfg : Cfg S K) (D : DomRule S K) (hD : cfg.dom = some D)
    (hNV : NvBound cfg.P) (B : Int) (hB : NoClamp cfg.P cfg.R cfg.root.value B) (p0 : List Dec)
    (cache : Cache S) (store : DomStore S K) (polls : Nat)
    (hroot : Reach cfg.P cfg.root.depth cfg.root.state cfg.root.value p0)
    (hst : StoreReach D cfg.P store) (hlen : store.layers.length = cfg.P.nbVars + 1) :
    StoreReach D cfg.P (compile cfg cache store polls none).2.2.2.store ∧
    (compile cfg cache store polls none).2.2.2.store.layers.length = cfg.P.nbVars + 1 := by
  rw [compile_store]
  have h := buildLoop_sinv_joint cfg D hD hNV B hB p0 (cfg.P.nbVars + 2) (initDD cfg cache store polls) ⟨hst, hlen⟩
    (initDD_inv cfg B p0 hB hroot cache store polls) rfl (by simp only [initDD, List.length_nil]; omega)
  exact ⟨h.store, h.len⟩

/-- **the checker's entries stay exactly reached across a whole compilation with the cache enabled** (any compilation type, any
    cache content, any root reached exactly): `Ddo.C10.compile_storeReach` without `cfg.useCache = false` -/
theorem compile_storeReach_joint (cfg : Cfg S K) (D : DomRule S K) (hD : cfg.dom = some D)
    (hNV : NvBound cfg.P) (B : Int) (hB : NoClamp cfg.P cfg.R cfg.root.value B) (p0 : List Dec)
    (cache : Cache S) (store : DomStore S K) (polls : Nat)
    (hroot : Reach cfg.P cfg.root.depth cfg.root.state cfg.root.value p0)
    (hst : StoreReach D cfg.P store) (hlen : store.layers.length = cfg.P.nbVars + 1)
    (hok : (compile cfg cache store polls none).1 = .ok) :
    StoreReach D cfg.P (compile cfg cache store polls none).2.2.2.store :=
  (compile_sinv_joint cfg D hD hNV B hB p0 cache store polls hroot hst hlen).1

/-! ## 2. one turn of the solver with cache and checker -/

/-- `process_one_node` with cache and checker: the store it leaves has exactly reached entries -/
theorem kdprocess_storeReach {dv : DSolverCfg S K} {H : Nat → S → EInt} {B0 B : Int} (hwf : WellFormed dv.sv H B0 B)
    (st : SeqSt S) (c0 : Cache S) (d0 : DomStore S K) (N : SubP S) (t : KDSt S K)
    (hN : C01.NodeOk dv.sv.P N) (hslen : d0.layers.length = dv.sv.P.nbVars + 1)
    (hst : StoreReach dv.D dv.sv.P d0) (h : dv.kdprocess st c0 d0 N = some t) :
    StoreReach dv.D dv.sv.P t.store := by
  obtain ⟨p0, hroot, _⟩ := hN
  have hBN : NoClamp dv.sv.P dv.sv.R N.value B := hwf.bound.noClamp_at hwf.nv hroot
  have key : ∀ (ct : CompType) (lb : Int) (c : Cache S) (d : DomStore S K), StoreReach dv.D dv.sv.P d →
      d.layers.length = dv.sv.P.nbVars + 1 →
      StoreReach dv.D dv.sv.P (compile (dv.kdcfg ct N lb) c d 0 none).2.2.2.store ∧
      (compile (dv.kdcfg ct N lb) c d 0 none).2.2.2.store.layers.length = dv.sv.P.nbVars + 1 :=
    fun ct lb c d h1 h2 => compile_sinv_joint (dv.kdcfg ct N lb) dv.D rfl hwf.nv B hBN p0 c d 0 hroot h1 h2
  obtain ⟨kR1, kR2⟩ := key .restricted st.bestLb c0 d0 hst hslen
  unfold DSolverCfg.kdprocess at h
  split at h
  · cases h; exact hst
  · split at h
    · cases h
    · cases h; exact hst
    · dsimp only at h
      split at h
      · cases h
      · split at h
        · cases h
        · rename_i c1 _
          split at h
          · cases h; exact kR1
          · obtain ⟨kX1, _⟩ := key .relaxed (st.updateBest (toOut (dv.kdcompR c0 d0 N st.bestLb).2.1)).bestLb c1
              (dv.kdcompR c0 d0 N st.bestLb).2.2.2.store kR1 kR2
            split at h
            · cases h
            · split at h
              · cases h
              · split at h
                · cases h; exact kX1
                · cases h; exact kX1

/-- **one turn of the solver with cache and checker keeps the checker's entries exactly reached** -/
theorem kdturn_storeReach {dv : DSolverCfg S K} {H : Nat → S → EInt} {B0 B : Int} (hwf : WellFormed dv.sv H B0 B)
    (s t : KDSt S K) (N : SubP S) (rest : List (SubP S)) (hI : JSInv dv H s) (hS : StoreReach dv.D dv.sv.P s.store)
    (hpop : s.st.fringe.Perm (N :: rest)) (h : dv.kdturn s N rest = some t) :
    StoreReach dv.D dv.sv.P t.store := by
  unfold DSolverCfg.kdturn at h
  split at h
  · cases h
  · exact kdprocess_storeReach hwf _ _ _ N t (hI.nodes N (hpop.mem_iff.mpr List.mem_cons_self)) hI.slen hS h

/-! ## 3. along the runs -/

theorem kdrun_storeReach {dv : DSolverCfg S K} {H : Nat → S → EInt} {B0 B : Int} (hwf : WellFormed dv.sv H B0 B)
    {s t : KDSt S K} (h : KDRun dv s t) (hI : JSInv dv H s) (hS : StoreReach dv.D dv.sv.P s.store) :
    StoreReach dv.D dv.sv.P t.store := by
  induction h with
  | refl => exact hS
  | tail hrun hstep ih =>
    cases hstep with
    | pop N rest hpop hmax hturn =>
      exact kdturn_storeReach hwf _ _ N rest (kdrun_inv hwf hrun hI) ih hpop hturn

/-- **along every run of the solver with cache and checker the checker only holds exactly reached items** -/
theorem krun_storeReach {dv : DSolverCfg S K} {H : Nat → S → EInt} {B0 B : Int} (hwf : WellFormed dv.sv H B0 B)
    {t : KDSt S K} (h : KDRun dv (KDSt.init dv) t) : StoreReach dv.D dv.sv.P t.store :=
  kdrun_storeReach hwf h (init_jsinv hwf) (storeReach_init dv.D dv.sv.P dv.sv.P.nbVars)

/-! ## the obligation that is left, without its `store` clause -/

/-- **what remains to be proved**: in a turn that compiles the popped node, the clauses *main* and *entries* of the joint invariant
    are preserved (the clause *store* is `kdturn_storeReach`) -/
def CompatProcessME : Prop :=
  ∀ (S K : Type) [DecidableEq S] [DecidableEq K] (dv : DSolverCfg S K) (H : Nat → S → EInt) (B0 B opt : Int) (n : Nat),
    WellFormed dv.sv H B0 B → (H 0 dv.sv.P.init).addI dv.sv.P.initVal = some opt → (∀ s, dv.D.dims s = n) →
    StaticOrder dv.sv.P → SimAll dv.D dv.sv.P n → MergeCompat dv.D dv.sv.R n → PotMono dv.D n H →
    ∀ (s t : KDSt S K) (N : SubP S) (rest : List (SubP S)) (c0 : Cache S),
      KDRun dv (KDSt.init dv) s → CompatInv dv n opt s → s.st.fringe.Perm (N :: rest) →
      (∀ c ∈ rest, c.ub < N.ub ∨ (c.ub = N.ub ∧ c.value ≤ N.value)) →
      cleanCache dv.sv.P.nbVars s.st.openByLayer dv.sv.P.nbVars s.st.firstActive s.cache = some c0 →
      ¬ N.ub ≤ s.st.bestLb → c0.mustExplore N.state N.depth N.value = some true →
      dv.kdturn s N rest = some t →
      (opt ≤ t.st.bestLb ∨ ∃ q, Solid dv opt t q) ∧
      (∀ (x : S) (d : Nat) (th : Thr), viewOf t.cache x d = some th → ∀ v', v' ≤ th.value →
        GAbove dv.D dv.sv.P n opt d x v' → opt ≤ t.st.bestLb ∨ ∃ q, Solid dv opt t q ∧ d ≤ q.depth)

theorem compatProcess_of_me (h : CompatProcessME) : CompatProcess := by
  intro S K _ _ dv H B0 B opt n hwf hopt hdim hstat hsim hmc hmono s t N rest c0 hrun hI hpop hmax hc0 hub hme hturn
  obtain ⟨h1, h2⟩ := h S K dv H B0 B opt n hwf hopt hdim hstat hsim hmc hmono s t N rest c0 hrun hI hpop hmax hc0 hub hme hturn
  exact ⟨h1, h2, kdturn_storeReach hwf s t N rest (kdrun_inv hwf hrun (init_jsinv hwf)) hI.store hpop hturn⟩

/-- **the repaired joint statement from the two clauses that are left** -/
theorem jointCorrect_of_me (h : CompatProcessME) : CachingDominanceCompatMono :=
  jointCorrect_of_process (compatProcess_of_me h)

end Ddo.C10d

#print axioms Ddo.C10d.compile_storeReach_joint
#print axioms Ddo.C10d.kdturn_storeReach
#print axioms Ddo.C10d.krun_storeReach
#print axioms Ddo.C10d.compatProcess_of_me
#print axioms Ddo.C10d.jointCorrect_of_me
