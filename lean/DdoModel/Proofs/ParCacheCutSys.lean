import DdoModel.Proofs.ParCacheClosed
/-! # The parallel solver WITH the threshold cache AND the cut-off — the transition system `KStepC`

`Proofs/ParCacheSys.lean` (`KStep`) is the parallel solver with the shared `SimpleCache`, every single cache access a step of
its own, **without** cut-off.  Here the cut-off is added, exactly as `parallel.rs` has it:

* a compilation may end with `Err(reason)` at any poll (`clean.rs:352`, before `_compute_thresholds`: a cut-off compilation has
  issued reads only, no `update_threshold`).  The worker then calls `abort_search(reason, node.ub)`, a critical section.  A
  worker whose compilation has returned `Err` and that waits for the mutex is indistinguishable from a worker that is still
  compiling, so the two are one step: `abortR` (from stage `compR`) / `abortX` (from stage `compX`), enabled when nobody is
  inside `get_workload` (`LockFree`: `get_workload` holds the mutex over several steps).  Effect = `abortK`:
  `ParCrit.abortSearch s.crit n.ub top` (the bound `fold(current_ub, upper_bounds, max)`, `max top.ub` for the `fringe.pop()`
  — `AbortTop` —, `max best_ub` if `abort_proof.is_some()`, finally `.max(best_lb)`; `abort_proof = Some`; `fringe.clear()`
  — `open_by_layer` is NOT touched) and `shared.cache.clear()` (`Cache.clear`; the ghost log records the new content).
  The worker then runs `notify_node_finished` and `break`s: its index is recorded in `exits`, `notifyExit` sends it to `done`.
  **Modelling assumption:** `cache.clear()` is ONE atomic step here; in the code it is a loop of per-layer `DashMap::clear()`s
  under the mutex, with which the lock-free writes of other workers interleave.  Nothing proved about `KStepC` depends on the
  content of the cache once the flag is up (`Ddo.C05e.cache_content_irrelevant`: the invariants survive the replacement of
  the cache by any cache of the same shape; the termination measure does not mention the cache).
* `get_workload`: after the cleaning loop, `if critical.abort_proof.is_some() { return Aborted }` (`gwAborted`) **before** the
  completion / wait / pop tests, which therefore carry `abort = false` here (`gwComplete`, `gwWait`, `gwToPop`).  The cleaning
  loop itself (`gwClear`) runs whatever the flag says, as in the code.
* every other step is the step of `KStep` of the same name, unchanged: in particular the workers that were compiling when
  another one aborted go on — they end their compilation, WRITE their thresholds into the cleared cache (`writeR` / `writeX`),
  publish (`updateR` / `updateX`), enqueue their cut-set onto the cleared fringe (`enqueue`), notify, and leave through
  `gwAborted` at their next `get_workload`; a later `abortR` / `abortX` of one of them accumulates the bound.

`KStepC.toBase`: a step of `KStepC` is a step of `KStep` (on the `KSys` component, `exits` unchanged) or one of the four new
steps (`NewStep`). -/
set_option linter.unusedSectionVars false
set_option linter.unusedVariables false
namespace Ddo.ParCache
open Ddo Ddo.C09 Ddo.ParSys
variable {S : Type} [DecidableEq S]

/-- the cached parallel system plus the set of workers that have run `abort_search` (they leave after their
    `notify_node_finished`) -/
structure KSysC (S : Type) where
  k : KSys S
  exits : List Nat

def KSysC.init (P : Problem S) (dedup : Bool) (U : Nat) : KSysC S := ⟨KSys.init P dedup U, []⟩

/-- `abort_search(reason, n.ub)` by worker `i`: the `Critical` part (`ParCrit.abortSearch`, the code as it is since D4b),
    `shared.cache.clear()`, and the worker goes on to `notify_node_finished` -/
def abortK (s : KSys S) (i : Nat) (n : SubP S) (top : Option Int) : KSys S :=
  { crit := s.crit.abortSearch n.ub top, cache := s.cache.clear, log := s.cache.clear :: s.log, ws := s.ws.set i (.fin n) }

/-- **the steps of the parallel caching solver with cut-off** -/
inductive KStepC (nbVars : Nat) (dedup : Bool)
    (okR okX : SubP S → Int → Cache S → DDOut S → List (Up S) → Prop) : KSysC S → KSysC S → Prop
  /- ### `get_workload(i)` -/
  | gwEnter (s : KSys S) (e : List Nat) (i : Nat) (hw : s.ws[i]? = some .idle) (hl : LockFree s) :
      KStepC nbVars dedup okR okX ⟨s, e⟩ ⟨{ s with ws := s.ws.set i .gwC }, e⟩
  | gwClear (s : KSys S) (e : List Nat) (i : Nat) (c' : Cache S) (hw : s.ws[i]? = some .gwC) (hc : cleanCond nbVars s.crit)
      (hcl : s.cache.clearLayer s.crit.base.firstActive = some c') :
      KStepC nbVars dedup okR okX ⟨s, e⟩ ⟨{ s with crit := bumpFirst s.crit, cache := c', log := c' :: s.log }, e⟩
  /-- `if critical.abort_proof.is_some() { return WorkLoad::Aborted; }` — the worker `break`s -/
  | gwAborted (s : KSys S) (e : List Nat) (i : Nat) (hw : s.ws[i]? = some .gwC) (hc : ¬ cleanCond nbVars s.crit)
      (ha : s.crit.base.abort = true) :
      KStepC nbVars dedup okR okX ⟨s, e⟩ ⟨{ s with ws := s.ws.set i .done }, e⟩
  | gwComplete (s : KSys S) (e : List Nat) (i : Nat) (hw : s.ws[i]? = some .gwC) (hc : ¬ cleanCond nbVars s.crit)
      (ha : s.crit.base.abort = false) (ho : s.crit.ongoing = 0) (hf : s.crit.base.fringe = []) :
      KStepC nbVars dedup okR okX ⟨s, e⟩ ⟨{ s with crit := s.crit.complete, ws := s.ws.set i .done }, e⟩
  | gwWait (s : KSys S) (e : List Nat) (i : Nat) (hw : s.ws[i]? = some .gwC) (hc : ¬ cleanCond nbVars s.crit)
      (ha : s.crit.base.abort = false) (ho : s.crit.ongoing ≠ 0) (hf : s.crit.base.fringe = []) :
      KStepC nbVars dedup okR okX ⟨s, e⟩ ⟨{ s with ws := s.ws.set i .waiting }, e⟩
  | gwToPop (s : KSys S) (e : List Nat) (i : Nat) (hw : s.ws[i]? = some .gwC) (hc : ¬ cleanCond nbVars s.crit)
      (ha : s.crit.base.abort = false) (hf : s.crit.base.fringe ≠ []) :
      KStepC nbVars dedup okR okX ⟨s, e⟩ ⟨{ s with ws := s.ws.set i .gwP }, e⟩
  | gwEmpty (s : KSys S) (e : List Nat) (i : Nat) (hw : s.ws[i]? = some .gwP) (hf : s.crit.base.fringe = []) :
      KStepC nbVars dedup okR okX ⟨s, e⟩ ⟨{ s with ws := s.ws.set i .idle }, e⟩
  | gwStarve (s : KSys S) (e : List Nat) (i : Nat) (N : SubP S) (rest : List (SubP S)) (hw : s.ws[i]? = some .gwP)
      (hp : PopMax s.crit.base.fringe N rest) (hub : N.ub ≤ s.crit.base.bestLb) :
      KStepC nbVars dedup okR okX ⟨s, e⟩ ⟨{ s with crit := starve s.crit, ws := s.ws.set i .idle }, e⟩
  | gwDrop (s : KSys S) (e : List Nat) (i : Nat) (N : SubP S) (rest : List (SubP S)) (c' : ParCrit S)
      (hw : s.ws[i]? = some .gwP) (hp : PopMax s.crit.base.fringe N rest) (hub : ¬ N.ub ≤ s.crit.base.bestLb)
      (hme : s.cache.mustExplore N.state N.depth N.value = some false) (hd : dropOne s.crit N rest = some c') :
      KStepC nbVars dedup okR okX ⟨s, e⟩ ⟨{ s with crit := c' }, e⟩
  | gwKeep (s : KSys S) (e : List Nat) (i : Nat) (N : SubP S) (rest : List (SubP S)) (hw : s.ws[i]? = some .gwP)
      (hp : PopMax s.crit.base.fringe N rest) (hub : ¬ N.ub ≤ s.crit.base.bestLb)
      (hme : s.cache.mustExplore N.state N.depth N.value = some true) :
      KStepC nbVars dedup okR okX ⟨s, e⟩ ⟨{ s with crit := setFringe s.crit rest, ws := s.ws.set i (.gwW N) }, e⟩
  | gwTake (s : KSys S) (e : List Nat) (i : Nat) (n : SubP S) (c' : Cache S) (crit' : ParCrit S)
      (hw : s.ws[i]? = some (.gwW n)) (hu : s.cache.update n.state n.depth ⟨n.value, true⟩ = some c')
      (ht : s.crit.take i n = some crit') :
      KStepC nbVars dedup okR okX ⟨s, e⟩ ⟨{ crit := crit', cache := c', log := c' :: s.log, ws := s.ws.set i (.readR n) }, e⟩
  /- ### `process_one_node` -/
  | readLbR (s : KSys S) (e : List Nat) (i : Nat) (n : SubP S) (hw : s.ws[i]? = some (.readR n)) (hl : LockFree s) :
      KStepC nbVars dedup okR okX ⟨s, e⟩
        ⟨{ s with ws := s.ws.set i (if n.ub ≤ s.crit.readLb then .fin n else .compR n s.crit.readLb s.log.length) }, e⟩
  | compileR (s : KSys S) (e : List Nat) (i : Nat) (n : SubP S) (lb : Int) (k0 : Nat) (cv : Cache S) (o : DDOut S)
      (ups : List (Up S)) (hw : s.ws[i]? = some (.compR n lb k0)) (hcv : FromLog cv s.log (s.log.length + 1 - k0))
      (hok : okR n lb cv o ups) :
      KStepC nbVars dedup okR okX ⟨s, e⟩ ⟨{ s with ws := s.ws.set i (.wrR n lb o cv ups ups) }, e⟩
  | writeR (s : KSys S) (e : List Nat) (i : Nat) (n : SubP S) (lb : Int) (o : DDOut S) (cv : Cache S) (ups : List (Up S))
      (u : Up S) (todo : List (Up S)) (c' : Cache S) (hw : s.ws[i]? = some (.wrR n lb o cv ups (u :: todo)))
      (hu : s.cache.update u.1 u.2.1 (upThr u) = some c') :
      KStepC nbVars dedup okR okX ⟨s, e⟩
        ⟨{ s with cache := c', log := c' :: s.log, ws := s.ws.set i (.wrR n lb o cv ups todo) }, e⟩
  | updateR (s : KSys S) (e : List Nat) (i : Nat) (n : SubP S) (lb : Int) (o : DDOut S) (cv : Cache S) (ups : List (Up S))
      (hw : s.ws[i]? = some (.wrR n lb o cv ups [])) (hl : LockFree s) :
      KStepC nbVars dedup okR okX ⟨s, e⟩
        ⟨{ s with crit := s.crit.updateBest o, ws := s.ws.set i (if o.isExact then .fin n else .readX n) }, e⟩
  | readLbX (s : KSys S) (e : List Nat) (i : Nat) (n : SubP S) (hw : s.ws[i]? = some (.readX n)) (hl : LockFree s) :
      KStepC nbVars dedup okR okX ⟨s, e⟩ ⟨{ s with ws := s.ws.set i (.compX n s.crit.readLb s.log.length) }, e⟩
  | compileX (s : KSys S) (e : List Nat) (i : Nat) (n : SubP S) (lb : Int) (k0 : Nat) (cv : Cache S) (o : DDOut S)
      (ups : List (Up S)) (hw : s.ws[i]? = some (.compX n lb k0)) (hcv : FromLog cv s.log (s.log.length + 1 - k0))
      (hok : okX n lb cv o ups) :
      KStepC nbVars dedup okR okX ⟨s, e⟩ ⟨{ s with ws := s.ws.set i (.wrX n lb o cv ups ups) }, e⟩
  | writeX (s : KSys S) (e : List Nat) (i : Nat) (n : SubP S) (lb : Int) (o : DDOut S) (cv : Cache S) (ups : List (Up S))
      (u : Up S) (todo : List (Up S)) (c' : Cache S) (hw : s.ws[i]? = some (.wrX n lb o cv ups (u :: todo)))
      (hu : s.cache.update u.1 u.2.1 (upThr u) = some c') :
      KStepC nbVars dedup okR okX ⟨s, e⟩
        ⟨{ s with cache := c', log := c' :: s.log, ws := s.ws.set i (.wrX n lb o cv ups todo) }, e⟩
  | updateX (s : KSys S) (e : List Nat) (i : Nat) (n : SubP S) (lb : Int) (o : DDOut S) (cv : Cache S) (ups : List (Up S))
      (hw : s.ws[i]? = some (.wrX n lb o cv ups [])) (hl : LockFree s) :
      KStepC nbVars dedup okR okX ⟨s, e⟩
        ⟨{ s with crit := s.crit.updateBest o, ws := s.ws.set i (if o.isExact then .fin n else .enq n lb o cv ups) }, e⟩
  | enqueue (s : KSys S) (e : List Nat) (i : Nat) (n : SubP S) (lb : Int) (o : DDOut S) (cv : Cache S) (ups : List (Up S))
      (hw : s.ws[i]? = some (.enq n lb o cv ups)) (hl : LockFree s) :
      KStepC nbVars dedup okR okX ⟨s, e⟩ ⟨{ s with crit := s.crit.enqueue dedup o.cutset, ws := s.ws.set i (.fin n) }, e⟩
  /- ### cut-off: `Err(reason)` from a compilation, then `abort_search(reason, node.ub)` -/
  | abortR (s : KSys S) (e : List Nat) (i : Nat) (n : SubP S) (lb : Int) (k0 : Nat) (top : Option Int)
      (hw : s.ws[i]? = some (.compR n lb k0)) (hl : LockFree s) (htop : AbortTop s.crit.base.fringe top) :
      KStepC nbVars dedup okR okX ⟨s, e⟩ ⟨abortK s i n top, i :: e⟩
  | abortX (s : KSys S) (e : List Nat) (i : Nat) (n : SubP S) (lb : Int) (k0 : Nat) (top : Option Int)
      (hw : s.ws[i]? = some (.compX n lb k0)) (hl : LockFree s) (htop : AbortTop s.crit.base.fringe top) :
      KStepC nbVars dedup okR okX ⟨s, e⟩ ⟨abortK s i n top, i :: e⟩
  /- ### `notify_node_finished(i, depth)` -/
  | notify (s : KSys S) (e : List Nat) (i : Nat) (n : SubP S) (c' : ParCrit S) (hw : s.ws[i]? = some (.fin n))
      (hl : LockFree s) (hi : i ∉ e) (hn : s.crit.notifyFinished i n.depth = some c') :
      KStepC nbVars dedup okR okX ⟨s, e⟩ ⟨{ s with crit := c', ws := (s.ws.map KW.wake).set i .idle }, e⟩
  /-- … of a worker that has run `abort_search`: `break` -/
  | notifyExit (s : KSys S) (e : List Nat) (i : Nat) (n : SubP S) (c' : ParCrit S) (hw : s.ws[i]? = some (.fin n))
      (hl : LockFree s) (hi : i ∈ e) (hn : s.crit.notifyFinished i n.depth = some c') :
      KStepC nbVars dedup okR okX ⟨s, e⟩ ⟨{ s with crit := c', ws := (s.ws.map KW.wake).set i .done }, e⟩
  /- ### a panic -/
  | crash (s : KSys S) (e : List Nat) (i : Nat) (w : KW S) (hw : s.ws[i]? = some w) (hp : Panics nbVars s i w) :
      KStepC nbVars dedup okR okX ⟨s, e⟩ ⟨{ s with ws := s.ws.set i .crashed }, e⟩

/-- finite schedules -/
inductive KRunC (nbVars : Nat) (dedup : Bool) (okR okX : SubP S → Int → Cache S → DDOut S → List (Up S) → Prop) :
    KSysC S → KSysC S → Prop
  | refl (s : KSysC S) : KRunC nbVars dedup okR okX s s
  | tail {s t u : KSysC S} : KRunC nbVars dedup okR okX s t → KStepC nbVars dedup okR okX t u →
      KRunC nbVars dedup okR okX s u

theorem KRunC.trans {nbVars : Nat} {dedup : Bool} {okR okX : SubP S → Int → Cache S → DDOut S → List (Up S) → Prop}
    {s t u : KSysC S} (h1 : KRunC nbVars dedup okR okX s t) (h2 : KRunC nbVars dedup okR okX t u) :
    KRunC nbVars dedup okR okX s u := by
  induction h2 with
  | refl => exact h1
  | tail _ hs ih => exact .tail ih hs

/-- the four kinds of steps that `KStep` does not have -/
inductive NewStep (nbVars : Nat) : KSysC S → KSysC S → Prop
  | gwAborted (s : KSys S) (e : List Nat) (i : Nat) (hw : s.ws[i]? = some .gwC) (hc : ¬ cleanCond nbVars s.crit)
      (ha : s.crit.base.abort = true) : NewStep nbVars ⟨s, e⟩ ⟨{ s with ws := s.ws.set i .done }, e⟩
  | abortR (s : KSys S) (e : List Nat) (i : Nat) (n : SubP S) (lb : Int) (k0 : Nat) (top : Option Int)
      (hw : s.ws[i]? = some (.compR n lb k0)) (hl : LockFree s) (htop : AbortTop s.crit.base.fringe top) :
      NewStep nbVars ⟨s, e⟩ ⟨abortK s i n top, i :: e⟩
  | abortX (s : KSys S) (e : List Nat) (i : Nat) (n : SubP S) (lb : Int) (k0 : Nat) (top : Option Int)
      (hw : s.ws[i]? = some (.compX n lb k0)) (hl : LockFree s) (htop : AbortTop s.crit.base.fringe top) :
      NewStep nbVars ⟨s, e⟩ ⟨abortK s i n top, i :: e⟩
  | notifyExit (s : KSys S) (e : List Nat) (i : Nat) (n : SubP S) (c' : ParCrit S) (hw : s.ws[i]? = some (.fin n))
      (hl : LockFree s) (hi : i ∈ e) (hn : s.crit.notifyFinished i n.depth = some c') :
      NewStep nbVars ⟨s, e⟩ ⟨{ s with crit := c', ws := (s.ws.map KW.wake).set i .done }, e⟩

/-- a step of the system with cut-off is a step of the system without (same `exits`), or one of the four new steps -/
theorem KStepC.toBase {nbVars : Nat} {dedup : Bool} {okR okX : SubP S → Int → Cache S → DDOut S → List (Up S) → Prop}
    {s t : KSysC S} (h : KStepC nbVars dedup okR okX s t) :
    (KStep nbVars dedup okR okX s.k t.k ∧ t.exits = s.exits) ∨ NewStep nbVars s t := by
  cases h with
  | gwEnter s e i hw hl => exact .inl ⟨.gwEnter s i hw hl, rfl⟩
  | gwClear s e i c' hw hc hcl => exact .inl ⟨.gwClear s i c' hw hc hcl, rfl⟩
  | gwAborted s e i hw hc ha => exact .inr (.gwAborted s e i hw hc ha)
  | gwComplete s e i hw hc ha ho hf => exact .inl ⟨.gwComplete s i hw hc ho hf, rfl⟩
  | gwWait s e i hw hc ha ho hf => exact .inl ⟨.gwWait s i hw hc ho hf, rfl⟩
  | gwToPop s e i hw hc ha hf => exact .inl ⟨.gwToPop s i hw hc hf, rfl⟩
  | gwEmpty s e i hw hf => exact .inl ⟨.gwEmpty s i hw hf, rfl⟩
  | gwStarve s e i N rest hw hp hub => exact .inl ⟨.gwStarve s i N rest hw hp hub, rfl⟩
  | gwDrop s e i N rest c' hw hp hub hme hd => exact .inl ⟨.gwDrop s i N rest c' hw hp hub hme hd, rfl⟩
  | gwKeep s e i N rest hw hp hub hme => exact .inl ⟨.gwKeep s i N rest hw hp hub hme, rfl⟩
  | gwTake s e i n c' crit' hw hu ht => exact .inl ⟨.gwTake s i n c' crit' hw hu ht, rfl⟩
  | readLbR s e i n hw hl => exact .inl ⟨.readLbR s i n hw hl, rfl⟩
  | compileR s e i n lb k0 cv o ups hw hcv hok => exact .inl ⟨.compileR s i n lb k0 cv o ups hw hcv hok, rfl⟩
  | writeR s e i n lb o cv ups u todo c' hw hu => exact .inl ⟨.writeR s i n lb o cv ups u todo c' hw hu, rfl⟩
  | updateR s e i n lb o cv ups hw hl => exact .inl ⟨.updateR s i n lb o cv ups hw hl, rfl⟩
  | readLbX s e i n hw hl => exact .inl ⟨.readLbX s i n hw hl, rfl⟩
  | compileX s e i n lb k0 cv o ups hw hcv hok => exact .inl ⟨.compileX s i n lb k0 cv o ups hw hcv hok, rfl⟩
  | writeX s e i n lb o cv ups u todo c' hw hu => exact .inl ⟨.writeX s i n lb o cv ups u todo c' hw hu, rfl⟩
  | updateX s e i n lb o cv ups hw hl => exact .inl ⟨.updateX s i n lb o cv ups hw hl, rfl⟩
  | enqueue s e i n lb o cv ups hw hl => exact .inl ⟨.enqueue s i n lb o cv ups hw hl, rfl⟩
  | abortR s e i n lb k0 top hw hl htop => exact .inr (.abortR s e i n lb k0 top hw hl htop)
  | abortX s e i n lb k0 top hw hl htop => exact .inr (.abortX s e i n lb k0 top hw hl htop)
  | notify s e i n c' hw hl hi hn => exact .inl ⟨.notify s i n c' hw hl hn, rfl⟩
  | notifyExit s e i n c' hw hl hi hn => exact .inr (.notifyExit s e i n c' hw hl hi hn)
  | crash s e i w hw hp => exact .inl ⟨.crash s i w hw hp, rfl⟩

/-- the system before the first abort is the system without cut-off: a run of `KStep` is a run of `KStepC`
    as long as the flag is down (it is never raised by `KStep`) -/
theorem KStep.abort_eq {nbVars : Nat} {dedup : Bool} {okR okX : SubP S → Int → Cache S → DDOut S → List (Up S) → Prop}
    {s t : KSys S} (h : KStep nbVars dedup okR okX s t) :
    t.crit.base.abort = s.crit.base.abort ∧ t.crit.base.bestUb = s.crit.base.bestUb ∨
    (∃ i, CompletesAt nbVars s i ∧ t.crit = s.crit.complete) := by
  cases h with
  | gwComplete i hw hc ho hf => exact .inr ⟨i, ⟨hw, hc, ho, hf⟩, rfl⟩
  | gwDrop i N rest c' hw hp hub hme hd =>
    unfold dropOne at hd
    split at hd
    · cases hd; exact .inl ⟨rfl, rfl⟩
    · cases hd
  | gwTake i n c' crit' hw hu ht =>
    obtain ⟨_, _, _, t4, t5, _⟩ := take_spec ht
    exact .inl ⟨t5, t4⟩
  | updateR i n lb o cv ups hw hl =>
    exact .inl ⟨(updateBest_fringe s.crit.base o).2.2.1, (updateBest_fringe s.crit.base o).2.1⟩
  | updateX i n lb o cv ups hw hl =>
    exact .inl ⟨(updateBest_fringe s.crit.base o).2.2.1, (updateBest_fringe s.crit.base o).2.1⟩
  | enqueue i n lb o cv ups hw hl =>
    cases dedup
    · exact .inl ⟨(enqueue_false_spec s.crit.base o.cutset).2.2.2.1, (enqueue_false_spec s.crit.base o.cutset).2.2.1⟩
    · exact .inl ⟨(enqueue_true_spec s.crit.base o.cutset).2.2.2.1, (enqueue_true_spec s.crit.base o.cutset).2.2.1⟩
  | notify i n c' hw hl hn =>
    obtain ⟨n1, _⟩ := notify_spec hn
    exact .inl ⟨by rw [n1], by rw [n1]⟩
  | _ => exact .inl ⟨rfl, rfl⟩

end Ddo.ParCache
