import DdoModel.Proofs.ParDomInst
/-! # The shared dominance checker as a LOG of atomic `is_dominated_or_insert` operations; the operation-wise compilation

## 1. the log (closed)
`Op`: one atomic `is_dominated_or_insert(state, depth, value)` (query + possible insert / removal of dominated entries, under the
shard lock of the `DashMap`).  Whatever the interleaving of the operations of all the compilations in progress, the shared store
is `runOps` of ONE list of operations.  **Each single operation preserves the two facts the solver-level proof needs** — hence so
does every log, in any order, from any workers:
* `runOps_storeReach`: the store holds exactly reached items only, as long as the presented items are exactly reached;
* `runOps_protected`: a protected item presented after any such log is answered "not dominated" (and is inserted);
* `runOps_defined`: no operation panics as long as the depths are in range.

## 2. the operation-wise compilation (definition) and the exact remaining obligation
`compileOp cfg cache τ polls`: the compilation of the diagram model in which the `k`-th `is_dominated_or_insert` **of the
compilation** is answered by the store `τ k` — the shared store at that moment, i.e. after every operation any worker performed
before it (`filterDomO`, `stepLayerO`, `buildLoopO`: `Mdd.lean`'s `filterDom` / `stepLayer` / `buildLoop` with the store an
oracle of the operation index; the compilation's own insertions are not threaded: they are in `τ (k+1)` if nobody removed them).
`okROp` / `okXOp`: the answers of such compilations for ANY sequence of stores of exactly reached items.
`PerOpObligation`: `AnsOk` for these answers + "the presented items are exactly reached".  It is NOT derivable from the theorems
about `compile` by a virtual-store argument (unlike the layer-wise interleaving, `compileL_virtual`): two nodes `x₁`, `x₂` of one
layer with the same key, incomparable, and a foreign entry `e` that dominates both and arrives between their two operations give
the verdicts (kept, dropped), which no single store of exactly reached items reproduces under threading — the diagram theorems
(`Proofs/Dom*.lean`) would have to be re-proved with `filterDom_spec` / `filterDom_protected` replaced by their oracle forms
(`fdStepO_protected` below is the per-operation core: a protected node is never dropped, whatever `τ`). -/
set_option linter.unusedSectionVars false
set_option linter.unusedVariables false
namespace Ddo.ParDom
open Ddo Ddo.Truth Ddo.Closed Ddo.ParSys Ddo.ParClosed Ddo.C10
open Ddo.C01 (SolverCfg WellFormed toOut SolOf)
variable {S K : Type} [DecidableEq S] [DecidableEq K]

/-! ## 1. the log of atomic operations -/

/-- one atomic `is_dominated_or_insert(state, depth, value)` -/
structure Op (S : Type) where
  state : S
  depth : Nat
  value : Int

/-- the effect of one operation on the shared store (`none`: the call panics, depth out of range) -/
def applyOp (D : DomRule S K) (st : DomStore S K) (op : Op S) : Option (DomStore S K × Bool × Option Int) :=
  DomStore.query D st op.state op.depth op.value

/-- the shared store after a log of operations -/
def runOps (D : DomRule S K) : DomStore S K → List (Op S) → Option (DomStore S K)
  | st, [] => some st
  | st, op :: r =>
    match applyOp D st op with
    | none => none
    | some (st', _, _) => runOps D st' r

/-- the presented item was reached exactly -/
def OpReached (P : Problem S) (op : Op S) : Prop := ∃ p, Reach P op.depth op.state op.value p

/-- **one operation**: the entries stay exactly reached -/
theorem applyOp_storeReach (D : DomRule S K) (P : Problem S) {st st' : DomStore S K} {op : Op S} {dom : Bool}
    {thr : Option Int} (hst : StoreReach D P st) (hop : OpReached P op) (h : applyOp D st op = some (st', dom, thr)) :
    StoreReach D P st' ∧ st'.layers.length = st.layers.length :=
  ⟨query_storeAll D _ st st' op.state op.depth op.value dom thr h hst hop,
   query_len D st st' op.state op.depth op.value dom thr h⟩

/-- **any log, any interleaving**: the shared store holds exactly reached items only -/
theorem runOps_storeReach (D : DomRule S K) (P : Problem S) (ops : List (Op S)) :
    ∀ (st st' : DomStore S K), StoreReach D P st → (∀ op ∈ ops, OpReached P op) → runOps D st ops = some st' →
      StoreReach D P st' ∧ st'.layers.length = st.layers.length := by
  induction ops with
  | nil => intro st st' hst _ h; cases h; exact ⟨hst, rfl⟩
  | cons op r ih =>
    intro st st' hst hops h
    unfold runOps at h
    cases ha : applyOp D st op with
    | none => rw [ha] at h; cases h
    | some x =>
      obtain ⟨st1, dom, thr⟩ := x
      rw [ha] at h
      obtain ⟨h1, h2⟩ := applyOp_storeReach D P hst (hops op List.mem_cons_self) ha
      obtain ⟨h3, h4⟩ := ih st1 st' h1 (fun o ho => hops o (List.mem_cons_of_mem _ ho)) h
      exact ⟨h3, h4.trans h2⟩

/-- **no operation of any log panics** as long as the depths are in range -/
theorem runOps_defined (D : DomRule S K) (ops : List (Op S)) :
    ∀ (st : DomStore S K), (∀ op ∈ ops, op.depth < st.layers.length) → ∃ st', runOps D st ops = some st' := by
  induction ops with
  | nil => intro st _; exact ⟨st, rfl⟩
  | cons op r ih =>
    intro st hd
    unfold runOps
    cases ha : applyOp D st op with
    | none => exact absurd ha (query_ne_none D st op.state op.depth op.value (hd op List.mem_cons_self))
    | some x =>
      obtain ⟨st1, dom, thr⟩ := x
      have hl := query_len D st st1 op.state op.depth op.value dom thr ha
      exact ih st1 (fun o ho => by rw [hl]; exact hd o (List.mem_cons_of_mem _ ho))

/-- **a protected item is never answered "dominated"**, whatever log of operations (of whatever workers, in whatever order) the
    shared store has gone through -/
theorem runOps_protected (D : DomRule S K) (P : Problem S) (H : Nat → S → EInt) (opt : Int) (Prot : Nat → S → Int → Prop)
    (hPr : Protected D P H opt Prot) (ops : List (Op S)) (st0 st st' : DomStore S K) (hst : StoreReach D P st0)
    (hops : ∀ op ∈ ops, OpReached P op) (hrun : runOps D st0 ops = some st)
    (op : Op S) (hp : Prot op.depth op.state op.value) (dom : Bool) (thr : Option Int)
    (h : applyOp D st op = some (st', dom, thr)) : dom = false ∧ StoreReach D P st' :=
  query_protected D P H opt Prot hPr st st' op.state op.depth op.value dom thr
    (runOps_storeReach D P ops st0 st hst hops hrun).1 hp h

/-! ## 2. the operation-wise compilation -/

/-- one step of `_filter_with_dominance`, the `k`-th operation of the compilation answered by the store `τ k`; the accumulator
    also carries the operation counter and the operations performed -/
def fdStepO (D : DomRule S K) (τ : Nat → DomStore S K)
    (acc : List (Node S) × List Nat × Nat × Bool × List (Op S)) (p : Nat) :
    List (Node S) × List Nat × Nat × Bool × List (Op S) :=
  match acc.1[p]? with
  | none => acc
  | some n =>
    if n.isExact then
      match DomStore.query D (τ acc.2.2.1) n.state n.depth n.value with
      | none => (acc.1, acc.2.1 ++ [p], acc.2.2.1 + 1, false, acc.2.2.2.2 ++ [⟨n.state, n.depth, n.value⟩])
      | some (_, dominated, thr) =>
        if dominated then
          (acc.1.set p { n with theta := thr }, acc.2.1, acc.2.2.1 + 1, acc.2.2.2.1, acc.2.2.2.2 ++ [⟨n.state, n.depth, n.value⟩])
        else (acc.1, acc.2.1 ++ [p], acc.2.2.1 + 1, acc.2.2.2.1, acc.2.2.2.2 ++ [⟨n.state, n.depth, n.value⟩])
    else (acc.1, acc.2.1 ++ [p], acc.2.2.1, acc.2.2.2.1, acc.2.2.2.2)

/-- `_filter_with_dominance` with the store an oracle of the operation index -/
def filterDomO (cfg : Cfg S K) (τ : Nat → DomStore S K) (k : Nat) (layer : List (Node S)) (cur : List Nat) :
    List (Node S) × List Nat × Nat × Bool × List (Op S) :=
  match cfg.dom with
  | none => (layer, cur, k, true, [])
  | some D => (fdSorted D layer cur).foldl (fdStepO D τ) (layer, [], k, true, [])

/-- `stepLayer` (`Mdd.lean`) with `filterDomO`; the state is the diagram, the operation counter and the operations so far -/
def stepLayerO (cfg : Cfg S K) (τ : Nat → DomStore S K) (dd : DD S K) (k : Nat) (ops : List (Op S)) (var : Nat) :
    Option (DD S K × Nat × List (Op S)) × Outcome :=
  if dd.next.isEmpty then
    (some ({ dd with layers := dd.layers ++ [[]] }, k, ops), .cutoff)
  else
    let fc := if dd.layers.isEmpty then (dd.next, List.range dd.next.length)
      else filterCache cfg dd.cache dd.next (List.range dd.next.length)
    let r := filterDomO cfg τ k fc.1 fc.2
    if !r.2.2.2.1 then (none, .crash) else
    match squash cfg dd r.1 r.2.1 with
    | none => (none, .crash)
    | some (layer, cur, log, lel) =>
      (some ({ dd with layers := dd.layers ++ [(expandAll cfg var dd.layers.length layer cur log).1],
                       next := (expandAll cfg var dd.layers.length layer cur log).2.1, depth := dd.depth + 1, lel := lel,
                       log := (expandAll cfg var dd.layers.length layer cur log).2.2,
                       ndom := dd.ndom + (fc.2.length - r.2.1.length) }, r.2.2.1, ops ++ r.2.2.2.2), .ok)

/-- `buildLoop` (no cut-off) with `stepLayerO` -/
def buildLoopO (cfg : Cfg S K) (τ : Nat → DomStore S K) : Nat → DD S K → Nat → List (Op S) → (DD S K × List (Op S)) × Outcome
  | 0, dd, _, ops => ((dd, ops), .crash)
  | fuel + 1, dd, k, ops =>
    match cfg.P.nextVar dd.depth (dd.next.map (·.state)) with
    | none => (({ dd with log := Call.nextVar dd.depth (dd.next.map (·.state)) none :: dd.log }, ops), .ok)
    | some var =>
      match stepLayerO cfg τ (tick dd var) k ops var with
      | (none, _) => ((tick dd var, ops), .crash)
      | (some (dd', _, ops'), .cutoff) => ((dd', ops'), .ok)
      | (some (dd', _, ops'), .crash) => ((dd', ops'), .crash)
      | (some (dd', k', ops'), .ok) => buildLoopO cfg τ fuel dd' k' ops'

/-- **the operation-wise compilation**: outcome, result, the operations it performed on the shared store (in order) -/
def compileOp (cfg : Cfg S K) (cache : Cache S) (τ : Nat → DomStore S K) (polls : Nat) : Outcome × Result S × List (Op S) :=
  ((buildLoopO cfg τ (cfg.P.nbVars + 2) (initDD cfg cache (τ 0) polls) 0 []).2,
   resultOf cfg (buildLoopO cfg τ (cfg.P.nbVars + 2) (initDD cfg cache (τ 0) polls) 0 []).1.1,
   (buildLoopO cfg τ (cfg.P.nbVars + 2) (initDD cfg cache (τ 0) polls) 0 []).1.2)

/-- the answers of the operation-wise compilations, for ANY sequence of stores of exactly reached items -/
def okROp (dv : DSolverCfg S K) (N : SubP S) (lb : Int) (o : DDOut S) : Prop :=
  ∃ τ : Nat → DomStore S K, GoodStores dv τ ∧
    (compileOp (dv.cfg .restricted N lb) (Cache.init dv.sv.P.nbVars) τ 0).1 = .ok ∧
    o = toOut (compileOp (dv.cfg .restricted N lb) (Cache.init dv.sv.P.nbVars) τ 0).2.1

def okXOp (dv : DSolverCfg S K) (N : SubP S) (lb : Int) (o : DDOut S) : Prop :=
  ∃ τ : Nat → DomStore S K, GoodStores dv τ ∧
    (compileOp (dv.cfg .relaxed N lb) (Cache.init dv.sv.P.nbVars) τ 0).1 = .ok ∧
    o = toOut (compileOp (dv.cfg .relaxed N lb) (Cache.init dv.sv.P.nbVars) τ 0).2.1

/-- **the exact remaining obligation** for the interleaving of the INDIVIDUAL `is_dominated_or_insert` calls: the answers of the
    operation-wise compilations meet `AnsOk`, and the items such a compilation presents to the shared store are exactly reached
    (so that, by `runOps_storeReach`, every store it can be answered by holds exactly reached items only) -/
def PerOpObligation (dv : DSolverCfg S K) (B opt : Int) (Prot : Nat → S → Int → Prop) : Prop :=
  AnsOk dv B opt Prot (okROp dv) (okXOp dv) ∧
  ∀ (ct : CompType) (N : SubP S) (lb : Int) (τ : Nat → DomStore S K), C01.NodeOk dv.sv.P N → GoodStores dv τ →
    ∀ op ∈ (compileOp (dv.cfg ct N lb) (Cache.init dv.sv.P.nbVars) τ 0).2.2, OpReached dv.sv.P op

/-! ### the per-operation core of that obligation (closed): a protected node is never dropped, whatever the oracle -/

/-- one step of the operation-wise filter never drops a protected (or inexact) node: its position is appended to the survivors -/
theorem fdStepO_protected (D : DomRule S K) (P : Problem S) (H : Nat → S → EInt) (opt : Int) (Prot : Nat → S → Int → Prop)
    (hPr : Protected D P H opt Prot) (τ : Nat → DomStore S K) (hτ : ∀ k, StoreReach D P (τ k))
    (acc : List (Node S) × List Nat × Nat × Bool × List (Op S)) (p : Nat) (n : Node S) (hn : acc.1[p]? = some n)
    (hp : n.isExact = true → Prot n.depth n.state n.value) :
    (fdStepO D τ acc p).2.1 = acc.2.1 ++ [p] ∧ (fdStepO D τ acc p).1 = acc.1 := by
  unfold fdStepO
  rw [hn]
  simp only
  by_cases he : n.isExact = true
  · rw [if_pos he]
    cases hq : DomStore.query D (τ acc.2.2.1) n.state n.depth n.value with
    | none => exact ⟨rfl, rfl⟩
    | some x =>
      obtain ⟨st', dom, thr⟩ := x
      obtain ⟨hd, _⟩ := query_protected D P H opt Prot hPr (τ acc.2.2.1) st' n.state n.depth n.value dom thr
        (hτ _) (hp he) hq
      subst hd
      exact ⟨rfl, rfl⟩
  · rw [if_neg he]
    exact ⟨rfl, rfl⟩

end Ddo.ParDom
