import DdoModel.Proofs.ParDomLayerA
/-! # A compilation whose layers each read the shared store AT THEIR OWN MOMENT is a compilation from one virtual store

`buildLoopL cfg σ` / `compileL cfg cache σ polls`: the compilation of the diagram model in which the `_filter_with_dominance` of
the layer of depth `d` runs on the store `σ d` — the content of the SHARED checker at the moment the compilation reaches that
layer, i.e. after every operation the other workers performed in the meantime — instead of the store the compilation itself left
after its previous layer.  Since a layer of depth `d` only touches `layers[d]` of the store (`filterDom_local`) and a compilation
visits every depth once, this is the plain compilation from the **virtual store** `V` with `V.layers[d] := (σ d).layers[d]`
(`compileL_virtual`); `V` holds exactly reached items only as soon as every `σ d` does.  Hence every theorem about `compile`
from a store that satisfies `StoreReach` applies to `compileL`. -/
set_option linter.unusedSectionVars false
set_option linter.unusedVariables false
namespace Ddo.ParDom
open Ddo Ddo.Truth Ddo.C10
variable {S K : Type} [DecidableEq S] [DecidableEq K]

/-- the diagram under construction with another store -/
def withStore (dd : DD S K) (st : DomStore S K) : DD S K := { dd with store := st }

/-- the build loop, the layer of depth `d` filtered against the store `σ d` -/
def buildLoopL (cfg : Cfg S K) (σ : Nat → DomStore S K) : Nat → DD S K → DD S K × Outcome
  | 0, dd => (dd, .crash)
  | fuel + 1, dd =>
    match cfg.P.nextVar dd.depth (dd.next.map (·.state)) with
    | none => ({ dd with log := Call.nextVar dd.depth (dd.next.map (·.state)) none :: dd.log }, .ok)
    | some var =>
      match stepLayer cfg (tick (withStore dd (σ dd.depth)) var) var with
      | (none, _) => (tick dd var, .crash)
      | (some dd', .cutoff) => (dd', .ok)
      | (some dd', .crash) => (dd', .crash)
      | (some dd', .ok) => buildLoopL cfg σ fuel dd'

/-- what `compile` reports of a finished diagram (the `must` result) -/
def resultOf (cfg : Cfg S K) (dd : DD S K) : Result S :=
  (finalize cfg (finalizeLayers dd) ((finalizeLayers dd).ebpMust (cfg.ctype == .relaxed))).1

/-- the compilation whose layer of depth `d` reads the store `σ d` -/
def compileL (cfg : Cfg S K) (cache : Cache S) (σ : Nat → DomStore S K) (polls : Nat) : Outcome × Result S × DD S K :=
  ((buildLoopL cfg σ (cfg.P.nbVars + 2) (initDD cfg cache (σ cfg.root.depth) polls)).2,
   resultOf cfg (buildLoopL cfg σ (cfg.P.nbVars + 2) (initDD cfg cache (σ cfg.root.depth) polls)).1,
   (buildLoopL cfg σ (cfg.P.nbVars + 2) (initDD cfg cache (σ cfg.root.depth) polls)).1)

theorem resultOf_withStore (cfg : Cfg S K) (dd : DD S K) (st : DomStore S K) :
    resultOf cfg (withStore dd st) = resultOf cfg dd := rfl

theorem squash_withStore (cfg : Cfg S K) (dd : DD S K) (st : DomStore S K) (layer : List (Node S)) (cur : List Nat) :
    squash cfg (withStore dd st) layer cur = squash cfg dd layer cur := rfl

/-- `stepLayer` after `_filter_with_dominance`, as a function of what the filter returned -/
def stepTail (cfg : Cfg S K) (dd : DD S K) (var : Nat) (r : List (Node S) × List Nat × DomStore S K × Bool) :
    Option (DD S K) × Outcome :=
  if (!r.2.2.2) = true then (none, .crash) else
  match squash cfg dd r.1 r.2.1 with
  | none => (none, .crash)
  | some (layer, cur, log, lel) =>
    (some { dd with layers := dd.layers ++ [(expandAll cfg var dd.layers.length layer cur log).1],
                    next := (expandAll cfg var dd.layers.length layer cur log).2.1, depth := dd.depth + 1, lel := lel,
                    store := r.2.2.1, log := (expandAll cfg var dd.layers.length layer cur log).2.2,
                    ndom := dd.ndom + ((List.range dd.next.length).length - r.2.1.length) }, .ok)

theorem stepLayer_unfold (cfg : Cfg S K) (hc : cfg.useCache = false) (dd : DD S K) (var : Nat)
    (hne : dd.next.isEmpty = false) :
    stepLayer cfg dd var = stepTail cfg dd var (filterDom cfg dd.store dd.next (List.range dd.next.length)) := by
  have h2 : (if dd.layers.isEmpty then (dd.next, List.range dd.next.length)
      else filterCache cfg dd.cache dd.next (List.range dd.next.length)) = (dd.next, List.range dd.next.length) := by
    split
    · rfl
    · exact Cover.filterCache_id cfg dd.cache dd.next _ hc (fun p hp => List.mem_range.mp hp)
  unfold stepLayer stepTail
  simp only [hne, h2, Bool.false_eq_true, if_false]
  rfl

/-- one layer: the same step from two stores that agree on the layer of the current depth -/
theorem stepLayer_local (cfg : Cfg S K) (hc : cfg.useCache = false) (T : DD S K) (s : DomStore S K) (var : Nat)
    (hdep : ∀ n ∈ T.next, n.isExact = true → n.depth = T.depth) (hloc : T.store.layers[T.depth]? = s.layers[T.depth]?) :
    (∀ oc, stepLayer cfg T var = (none, oc) → stepLayer cfg (withStore T s) var = (none, oc)) ∧
    (∀ a oc, stepLayer cfg T var = (some a, oc) →
      ∃ st', stepLayer cfg (withStore T s) var = (some (withStore a st'), oc) ∧
        ∀ j, j ≠ T.depth → a.store.layers[j]? = T.store.layers[j]?) := by
  by_cases hne : T.next.isEmpty = true
  · have e1 : stepLayer cfg T var = (some { T with layers := T.layers ++ [[]] }, .cutoff) := by
      unfold stepLayer; rw [if_pos hne]
    have e2 : stepLayer cfg (withStore T s) var = (some (withStore { T with layers := T.layers ++ [[]] } s), .cutoff) := by
      unfold stepLayer; rw [if_pos (show (withStore T s).next.isEmpty = true from hne)]; rfl
    rw [e1, e2]
    refine ⟨fun oc h => (by cases h), fun a oc h => ?_⟩
    injection h with h1 h2
    injection h1 with h1
    subst h1; subst h2
    exact ⟨s, rfl, fun _ _ => rfl⟩
  · have hne' : T.next.isEmpty = false := by simpa using hne
    obtain ⟨f1, f2, f3, f4⟩ := filterDom_local cfg T.store s T.next (List.range T.next.length) T.depth hdep hloc
    rw [stepLayer_unfold cfg hc T var hne', stepLayer_unfold cfg hc (withStore T s) var hne']
    show (∀ oc, stepTail cfg T var (filterDom cfg T.store T.next (List.range T.next.length)) = (none, oc) →
        stepTail cfg (withStore T s) var (filterDom cfg s T.next (List.range T.next.length)) = (none, oc)) ∧
      (∀ a oc, stepTail cfg T var (filterDom cfg T.store T.next (List.range T.next.length)) = (some a, oc) →
        ∃ st', stepTail cfg (withStore T s) var (filterDom cfg s T.next (List.range T.next.length)) =
          (some (withStore a st'), oc) ∧ ∀ j, j ≠ T.depth → a.store.layers[j]? = T.store.layers[j]?)
    generalize filterDom cfg T.store T.next (List.range T.next.length) = r1 at f1 f2 f3 f4
    generalize filterDom cfg s T.next (List.range T.next.length) = r2 at f1 f2 f3 f4
    obtain ⟨l1, c1, s1, o1⟩ := r1
    obtain ⟨l2, c2, s2, o2⟩ := r2
    simp only at f1 f2 f3 f4
    subst f1; subst f2; subst f3
    unfold stepTail
    simp only
    rw [squash_withStore]
    cases o1 with
    | false =>
      simp only [Bool.not_false, if_true]
      exact ⟨fun oc h => h, fun a oc h => (by cases h)⟩
    | true =>
      simp only [Bool.not_true, Bool.false_eq_true, if_false]
      cases squash cfg T l1 c1 with
      | none => exact ⟨fun oc h => h, fun a oc h => (by cases h)⟩
      | some sq =>
        obtain ⟨l', c', lg, lel⟩ := sq
        simp only
        refine ⟨fun oc h => (by cases h), fun a oc h => ?_⟩
        injection h with h1 h2
        injection h1 with h1
        subst h1; subst h2
        exact ⟨s2, rfl, fun j hj => f4.other1 j hj⟩

/-- the virtual store: layer `d` is the layer `d` of the store the compilation saw at depth `d` -/
def virtualStore (n : Nat) (σ : Nat → DomStore S K) : DomStore S K :=
  ⟨(List.range (n + 1)).map (fun d => ((σ d).layers[d]?).getD [])⟩

theorem virtualStore_len (n : Nat) (σ : Nat → DomStore S K) : (virtualStore n σ).layers.length = n + 1 := by
  simp [virtualStore]

theorem virtualStore_get (n : Nat) (σ : Nat → DomStore S K) (hσ : ∀ d, (σ d).layers.length = n + 1) (d : Nat) :
    (virtualStore n σ).layers[d]? = (σ d).layers[d]? := by
  unfold virtualStore
  rw [List.getElem?_map]
  rcases Nat.lt_or_ge d (n + 1) with h | h
  · rw [List.getElem?_range h]
    have : d < (σ d).layers.length := by rw [hσ d]; exact h
    simp [List.getElem?_eq_getElem this]
  · rw [List.getElem?_eq_none (by simpa using h), List.getElem?_eq_none (by rw [hσ d]; exact h)]
    rfl

theorem virtualStore_reach (D : DomRule S K) (P : Problem S) (n : Nat) (σ : Nat → DomStore S K)
    (hσ : ∀ d, StoreReach D P (σ d) ∧ (σ d).layers.length = n + 1) : StoreReach D P (virtualStore n σ) := by
  intro d k a va hm
  have e : bucketOf (virtualStore n σ) d k = bucketOf (σ d) d k := by
    unfold bucketOf
    rw [virtualStore_get n σ (fun d => (hσ d).2) d]
  rw [e] at hm
  exact (hσ d).1 d k a va hm

/-- **the simulation**: the layer-wise run from `ddL` and the plain run from `ddP` (the same diagram, another store, the plain
    store agreeing with the virtual store on every layer not yet visited) end with the same outcome and the same diagram -/
theorem buildLoopL_sim (cfg : Cfg S K) (hc : cfg.useCache = false) (B : Int) (p0 : List Dec)
    (hB : NoClamp cfg.P cfg.R cfg.root.value B) (σ : Nat → DomStore S K) (V : DomStore S K)
    (hV : ∀ d, V.layers[d]? = (σ d).layers[d]?) :
    ∀ (fuel : Nat) (ddP : DD S K) (x : DomStore S K), MInv cfg B p0 ddP → ddP.depth = cfg.root.depth + ddP.layers.length →
      ddP.layers.length + fuel ≤ cfg.P.nbVars + 2 → (∀ d, ddP.depth ≤ d → ddP.store.layers[d]? = V.layers[d]?) →
      ∃ y, buildLoopL cfg σ fuel (withStore ddP x) =
        (withStore (buildLoop cfg none fuel ddP).1 y, (buildLoop cfg none fuel ddP).2) := by
  intro fuel
  induction fuel with
  | zero => intro ddP x _ _ _ _; exact ⟨x, rfl⟩
  | succ fuel ih =>
    intro ddP x hM hdepth hfuel hst
    cases hnv : cfg.P.nextVar ddP.depth (ddP.next.map (·.state)) with
    | none =>
      have e1 : buildLoop cfg none (fuel + 1) ddP =
          ({ ddP with log := Call.nextVar ddP.depth (ddP.next.map (·.state)) none :: ddP.log }, .ok) := by
        unfold buildLoop; simp only [hnv]
      have e2 : buildLoopL cfg σ (fuel + 1) (withStore ddP x) =
          (withStore { ddP with log := Call.nextVar ddP.depth (ddP.next.map (·.state)) none :: ddP.log } x, .ok) := by
        unfold buildLoopL
        simp only [show (withStore ddP x).depth = ddP.depth from rfl, show (withStore ddP x).next = ddP.next from rfl, hnv]
        rfl
      rw [e1, e2]
      exact ⟨x, rfl⟩
    | some var =>
      rw [buildLoop_step cfg fuel ddP var hnv]
      have e2 : buildLoopL cfg σ (fuel + 1) (withStore ddP x) =
          match stepLayer cfg (withStore (tick ddP var) (σ ddP.depth)) var with
          | (none, _) => (withStore (tick ddP var) x, .crash)
          | (some dd', .cutoff) => (dd', .ok)
          | (some dd', .crash) => (dd', .crash)
          | (some dd', .ok) => buildLoopL cfg σ fuel dd' := by
        conv => lhs; unfold buildLoopL
        simp only [show (withStore ddP x).depth = ddP.depth from rfl, show (withStore ddP x).next = ddP.next from rfl, hnv]
        rfl
      rw [e2]
      have hM' : MInv cfg B p0 (tick ddP var) := hM.congr rfl rfl
      have hdep : ∀ n ∈ (tick ddP var).next, n.isExact = true → n.depth = (tick ddP var).depth := by
        intro n hn he
        obtain ⟨_, _, _, hd, _⟩ := hM.next n hn he
        show n.depth = ddP.depth
        rw [hd, hdepth]
      have hloc : (tick ddP var).store.layers[(tick ddP var).depth]? = (σ ddP.depth).layers[(tick ddP var).depth]? := by
        show ddP.store.layers[ddP.depth]? = (σ ddP.depth).layers[ddP.depth]?
        rw [hst ddP.depth (Nat.le_refl _), hV]
      obtain ⟨l1, l2⟩ := stepLayer_local cfg hc (tick ddP var) (σ ddP.depth) var hdep hloc
      cases hsl : stepLayer cfg (tick ddP var) var with
      | mk o oc =>
        cases o with
        | none =>
          rw [l1 oc hsl]
          exact ⟨x, rfl⟩
        | some a =>
          obtain ⟨st', hs', hoth⟩ := l2 a oc hsl
          rw [hs']
          obtain ⟨m1, m2, _⟩ := Ddo.stepLayer_inv cfg B p0 hB (tick ddP var) var hM' hdepth hnv
            (by show ddP.layers.length ≤ _; omega) a oc hsl
          cases oc with
          | cutoff => exact ⟨st', rfl⟩
          | crash => exact ⟨st', rfl⟩
          | ok =>
            obtain ⟨m2a, m2b⟩ := m2 rfl
            simp only
            have ht : (tick ddP var).layers.length = ddP.layers.length := rfl
            have hda : a.depth = ddP.depth + 1 := by
              rw [m2a, m2b, hdepth, ht]; omega
            refine ih a st' m1 m2a (by rw [m2b, ht]; omega) (fun d hd => ?_)
            rw [hoth d (by show d ≠ ddP.depth; omega)]
            exact hst d (by omega)

/-- **`compileL_virtual`**: a compilation whose layer of depth `d` reads the store `σ d`, every `σ d` holding exactly reached items
    only, has the outcome and the result of the plain compilation from one store `V` that holds exactly reached items only -/
theorem compileL_virtual (cfg : Cfg S K) (D : DomRule S K) (hc : cfg.useCache = false) (B : Int) (p0 : List Dec)
    (hB : NoClamp cfg.P cfg.R cfg.root.value B)
    (hroot : Reach cfg.P cfg.root.depth cfg.root.state cfg.root.value p0)
    (cache : Cache S) (σ : Nat → DomStore S K) (polls : Nat)
    (hσ : ∀ d, StoreReach D cfg.P (σ d) ∧ (σ d).layers.length = cfg.P.nbVars + 1) :
    ∃ V, StoreReach D cfg.P V ∧ V.layers.length = cfg.P.nbVars + 1 ∧
      (compileL cfg cache σ polls).1 = (compile cfg cache V polls none).1 ∧
      ((compile cfg cache V polls none).1 = .ok → (compileL cfg cache σ polls).2.1 = (compile cfg cache V polls none).2.1) := by
  refine ⟨virtualStore cfg.P.nbVars σ, virtualStore_reach D cfg.P _ σ hσ, virtualStore_len _ σ, ?_⟩
  have hV := virtualStore_get cfg.P.nbVars σ (fun d => (hσ d).2)
  obtain ⟨y, hy⟩ := buildLoopL_sim cfg hc B p0 hB σ (virtualStore cfg.P.nbVars σ) hV (cfg.P.nbVars + 2)
    (initDD cfg cache (virtualStore cfg.P.nbVars σ) polls) (σ cfg.root.depth)
    (initDD_inv cfg B p0 hB hroot cache _ polls) rfl (by simp only [initDD, List.length_nil]; omega) (fun d _ => rfl)
  have hinit : initDD cfg cache (σ cfg.root.depth) polls =
      withStore (initDD cfg cache (virtualStore cfg.P.nbVars σ) polls) (σ cfg.root.depth) := rfl
  have h1 : (compileL cfg cache σ polls).1 =
      (buildLoop cfg none (cfg.P.nbVars + 2) (initDD cfg cache (virtualStore cfg.P.nbVars σ) polls)).2 := by
    show (buildLoopL cfg σ (cfg.P.nbVars + 2) (initDD cfg cache (σ cfg.root.depth) polls)).2 = _
    rw [hinit, hy]
  have h0 : (compile cfg cache (virtualStore cfg.P.nbVars σ) polls none).1 =
      (buildLoop cfg none (cfg.P.nbVars + 2) (initDD cfg cache (virtualStore cfg.P.nbVars σ) polls)).2 := by
    unfold compile
    generalize buildLoop cfg none (cfg.P.nbVars + 2) (initDD cfg cache (virtualStore cfg.P.nbVars σ) polls) = bl
    obtain ⟨dd, oc⟩ := bl
    cases oc <;> rfl
  refine ⟨h1.trans h0.symm, fun hok => ?_⟩
  obtain ⟨_, _, hres⟩ := Ddo.compile_ok cfg cache (virtualStore cfg.P.nbVars σ) polls none hok
  rw [hres]
  show resultOf cfg (buildLoopL cfg σ (cfg.P.nbVars + 2) (initDD cfg cache (σ cfg.root.depth) polls)).1 = _
  rw [hinit, hy]
  exact resultOf_withStore cfg _ y

end Ddo.ParDom
