import DdoModel.Proofs.SeqCache
/-! C09 / D14 — **the bridge between the solver and its pre-fix (capped) variant**.

Before the repair of finding D14, `enqueue_cutset(ub)` of `implementation/solver/sequential.rs` capped the bound of every
cut-set node by the bound of the sub-problem that was just processed (`cutset_node.ub = ub.min(cutset_node.ub)`):
`SeqSt.enqueueCapped` / `SeqSt.processCapped` of `SeqSolver.lean`.  The repaired solver (`SeqSt.enqueue`, `SeqSt.process`)
pushes a cut-set node with the bound its own diagram gave it.

The relation between the two (`Proofs/SeqInv.lean`: `enqueue_eq_capped`; here `process_eq_capped`): **the repaired enqueue is
the capped enqueue with any cap that dominates the bounds of the cut-set**, so processing `N` is processing `N` with its bound
raised (`raise N U`, `U ≥` every bound of the cut-set) by the pre-fix code — the solver reads `N.ub` only in the test
`node.ub ≤ best_lb` at the top of `process_one_node`.

`cinvC_raise`, `compC_raise`: the invariant `CInvC` of `Proofs/SeqCache.lean` is monotone in the bound of a node (a larger bound
only makes it a better carrier; the invariant never asks a bound to be *small*) and the contract `CompC` of a compilation does
not read the bound of its root.  (This is how the any-order theorem was first obtained, as a reduction to the best-first
theorem about the capped solver, when the capped solver was the model: `raise N U` with `U` above every bound of the fringe
*is* a best-first pop.  `Proofs/SeqCache.lean` now proves `processC_inv` directly, without a hypothesis on the order.) -/
set_option linter.unusedSectionVars false
set_option linter.unusedVariables false
namespace Ddo
variable {S : Type} [DecidableEq S]

/-- a bound that dominates the bounds of a list of sub-problems -/
def capOf (cs : List (SubP S)) : Int := cs.foldl (fun a c => max a c.ub) 0

/-- the node with its bound raised to (at least) `U` -/
def raise (N : SubP S) (U : Int) : SubP S := { N with ub := max N.ub U }

theorem capOf_ge_aux (cs : List (SubP S)) : ∀ a : Int, a ≤ cs.foldl (fun a c => max a c.ub) a ∧
    ∀ c ∈ cs, c.ub ≤ cs.foldl (fun a c => max a c.ub) a := by
  induction cs with
  | nil => intro a; exact ⟨Int.le_refl _, fun c hc => by cases hc⟩
  | cons c0 cs ih =>
    intro a
    obtain ⟨h1, h2⟩ := ih (max a c0.ub)
    simp only [List.foldl_cons]
    refine ⟨by omega, fun c hc => ?_⟩
    rcases List.mem_cons.mp hc with e | e
    · subst e; omega
    · exact h2 c e

theorem capOf_ge (cs : List (SubP S)) : ∀ c ∈ cs, c.ub ≤ capOf cs := (capOf_ge_aux cs 0).2

/-- the cut-set bound of a relaxed answer (`0` for a cutoff) -/
def capX : DDRes S → Int
  | .ok o => capOf o.cutset
  | .cutoff => 0

/-- **processing `N` = processing `N` with a raised bound by the pre-fix (capped) code** (when `N` passes the bound test;
    otherwise nothing happens) -/
theorem process_eq_capped (dedup : Bool) (st : SeqSt S) (N : SubP S) (me : Bool) (r x : DDRes S) (U : Int) (hU : capX x ≤ U) :
    st.process dedup N me r x = if N.ub ≤ st.bestLb then (st, 0) else st.processCapped dedup (raise N U) me r x := by
  unfold SeqSt.process
  by_cases hub : N.ub ≤ st.bestLb
  · rw [if_pos hub, if_pos hub]
  · rw [if_neg hub, if_neg hub]
    unfold SeqSt.processCapped
    have hub' : ¬ (raise N U).ub ≤ st.bestLb := by
      unfold raise; dsimp only; omega
    rw [if_neg hub']
    cases me with
    | false => rfl
    | true =>
      simp only [Bool.not_true, Bool.false_eq_true, if_false]
      cases r with
      | cutoff => rfl
      | ok r =>
        dsimp only
        cases hre : r.isExact with
        | true => rfl
        | false =>
          simp only [Bool.false_eq_true, if_false]
          cases x with
          | cutoff => rfl
          | ok x =>
            dsimp only
            cases hxe : x.isExact with
            | true => rfl
            | false =>
              simp only [Bool.false_eq_true, if_false]
              rw [enqueue_eq_capped dedup (raise N U).ub x.cutset]
              intro c hc
              have h1 := capOf_ge x.cutset c hc
              have h2 : capOf x.cutset ≤ U := hU
              unfold raise; dsimp only; omega

end Ddo

namespace Ddo.C09
open Ddo
variable {S : Type} [DecidableEq S]

section
variable (H : Nat → S → EInt) (opt : Int) (Sol : List Dec → Int → Prop) (Rg : Nat → Int → Prop)

/-- raising the bound of a node keeps what it carries -/
theorem live_raise {N : SubP S} {U : Int} {F : List (SubP S)} {T : CView S} {x : Int} {d : Nat}
    (h : Live H (N :: F) T x d) : Live H (raise N U :: F) T x d := by
  obtain ⟨c, hc, hdc, hy, hxu, hnp⟩ := h
  rcases List.mem_cons.mp hc with e | e
  · subst e
    refine ⟨raise c U, List.mem_cons_self, hdc, hy, ?_, hnp⟩
    show x ≤ max c.ub U
    omega
  · exact ⟨c, List.mem_cons_of_mem _ e, hdc, hy, hxu, hnp⟩

/-- **`CInvC` is monotone in the bound of a node**: the invariant never asks a bound to be small -/
theorem cinvC_raise (N : SubP S) (U : Int) (F : List (SubP S)) (T : CView S) (lb : Int) (sol : Option (List Dec))
    (h : CInvC H opt Sol Rg (N :: F) T lb sol) : CInvC H opt Sol Rg (raise N U :: F) T lb sol := by
  refine ⟨?_, ?_, h.lbOk, h.solOk, fun hgt => live_raise H (h.root hgt), ?_, ?_⟩
  · intro c hc
    rcases List.mem_cons.mp hc with e | e
    · subst e; exact h.good N List.mem_cons_self
    · exact h.good c (List.mem_cons_of_mem _ e)
  · intro c hc
    rcases List.mem_cons.mp hc with e | e
    · subst e; exact h.rng N List.mem_cons_self
    · exact h.rng c (List.mem_cons_of_mem _ e)
  · intro s d t v hh hT hrg hvt hH hgt
    exact live_raise H (h.cache s d t v hh hT hrg hvt hH hgt)
  · intro c hc y hy hgt
    rcases List.mem_cons.mp hc with e | e
    · subst e; exact live_raise H (h.open_ N List.mem_cons_self y hy hgt)
    · exact live_raise H (h.open_ c (List.mem_cons_of_mem _ e) y hy hgt)

/-- **the contract of a compilation does not read the bound of its root** -/
theorem compC_raise {N : SubP S} (U : Int) {lb : Int} {T : CView S} {o : DDOut S} {ups : List (S × Nat × Int × Bool)}
    {bk : Int} (h : CompC H opt Sol Rg N lb T o ups bk) : CompC H opt Sol Rg (raise N U) lb T o ups bk :=
  ⟨h.sound, h.exact, h.exactCut, h.cover, h.theta, h.good, h.rng, h.sub, h.deeper, h.ub, h.fresh⟩

end
end Ddo.C09

#print axioms Ddo.process_eq_capped
#print axioms Ddo.C09.cinvC_raise
#print axioms Ddo.C09.compC_raise
