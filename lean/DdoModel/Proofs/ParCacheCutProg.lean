import DdoModel.Proofs.ParCacheCutLay
import DdoModel.Props.C09e
/-! # The parallel caching solver with cut-off — no deadlock after an abort

`kstepC_progress_after`: in a state with the flag up that satisfies `LayC`, as long as some worker has not left its loop some
step other than `crash` is enabled, and the state it leads to satisfies `LayC` again (in particular nobody has panicked):
* the mutex is free: a worker that is neither gone nor parked exists (a parked worker implies a node in a hand: `HandK.parked`
  — the aborting worker itself still has its `notify_node_finished`, which wakes everybody, ahead) and can perform its next
  section (compilations answer: `comp_answers`; cache writes are in range; `notify_node_finished` does not underflow);
* a worker is inside `get_workload`: it is in the cleaning loop (`noPop`), which either clears one more layer or is over — and
  then `gwAborted` is enabled. -/
set_option linter.unusedSectionVars false
set_option linter.unusedVariables false
namespace Ddo.ParCache
open Ddo Ddo.C09 Ddo.ParSys Ddo.Closed Ddo.ParClosed
open Ddo.C01 (SolverCfg WellFormed toOut SolOf)
variable {S : Type} [DecidableEq S]

theorem kstepC_progress_after {sv : SolverCfg S} {H : Nat → S → EInt} {B0 B : Int} (hwf : WellFormed sv H B0 B)
    {t : KSysC S} (hL : LayC sv.P.nbVars t.k) (hD : DepthOk sv.P.nbVars t.k) (ha : t.k.crit.base.abort = true)
    (hlive : ¬ AllDone t.k) : ∃ u, KPStepC sv t u ∧ LayC sv.P.nbVars u.k := by
  obtain ⟨s, e⟩ := t
  have hL : LayC sv.P.nbVars s := hL
  have hD : DepthOk sv.P.nbVars s := hD
  have ha : s.crit.base.abort = true := ha
  have hlive : ¬ AllDone s := hlive
  obtain ⟨hR, hX⟩ := C09e.comp_answers hwf
  have hstep : ∃ u, KPStepC sv ⟨s, e⟩ u := by
    by_cases hlk : s.ws.countP KW.inGw = 0
    · have hl : LockFree s := (lockFree_iff _).mp hlk
      have hex : ∃ w ∈ s.ws, w ≠ KW.done ∧ w ≠ KW.waiting := by
        by_cases hwait : KW.waiting ∈ s.ws
        · have h0 := hL.hand.parked hwait
          rw [hL.hand.cnt] at h0
          have hpos : 0 < s.ws.countP KW.holds := by omega
          obtain ⟨w, hw, hh⟩ := List.countP_pos_iff.mp hpos
          refine ⟨w, hw, ?_, ?_⟩ <;> intro e <;> rw [e] at hh <;> cases hh
        · have : ∃ w ∈ s.ws, w ≠ KW.done := by
            apply Classical.byContradiction
            intro hno
            apply hlive
            intro w hw
            apply Classical.byContradiction
            intro hne
            exact hno ⟨w, hw, hne⟩
          obtain ⟨w, hw, hne⟩ := this
          exact ⟨w, hw, hne, fun e => hwait (e ▸ hw)⟩
      obtain ⟨w, hmem, h1, h2⟩ := hex
      obtain ⟨j, hw⟩ := List.mem_iff_getElem?.mp hmem
      cases w with
      | idle => exact ⟨_, .gwEnter s e j hw hl⟩
      | waiting => exact absurd rfl h2
      | done => exact absurd rfl h1
      | crashed => exact absurd rfl (hL.hand.noCrash _ hmem)
      | gwC => have := hl _ hmem; cases this
      | gwP => have := hl _ hmem; cases this
      | gwW n => have := hl _ hmem; cases this
      | readR n => exact ⟨_, .readLbR s e j n hw hl⟩
      | compR n lb k0 =>
        obtain ⟨o, ups, hok⟩ := hR n lb s.cache
        exact ⟨_, .compileR s e j n lb k0 s.cache o ups hw (fromLog_cur hL.lg.logHead (hL.lg.logK _ hmem))
          (hok (hD.held _ hmem n (.inl rfl)))⟩
      | wrR n lb o cv ups todo =>
        cases todo with
        | nil => exact ⟨_, .updateR s e j n lb o cv ups hw hl⟩
        | cons u todo =>
          have hu := hD.todo _ hmem n lb o cv ups (u :: todo) (Or.inl rfl) u List.mem_cons_self
          obtain ⟨c', hc'⟩ := update_def s.cache u.1 u.2.1 (upThr u) (by rw [hL.lg.cacheLen]; omega)
          exact ⟨_, .writeR s e j n lb o cv ups u todo c' hw hc'⟩
      | readX n => exact ⟨_, .readLbX s e j n hw hl⟩
      | compX n lb k0 =>
        obtain ⟨o, ups, hok⟩ := hX n lb s.cache
        exact ⟨_, .compileX s e j n lb k0 s.cache o ups hw (fromLog_cur hL.lg.logHead (hL.lg.logK _ hmem))
          (hok (hD.held _ hmem n (.inl rfl)))⟩
      | wrX n lb o cv ups todo =>
        cases todo with
        | nil => exact ⟨_, .updateX s e j n lb o cv ups hw hl⟩
        | cons u todo =>
          have hu := hD.todo _ hmem n lb o cv ups (u :: todo) (Or.inr rfl) u List.mem_cons_self
          obtain ⟨c', hc'⟩ := update_def s.cache u.1 u.2.1 (upThr u) (by rw [hL.lg.cacheLen]; omega)
          exact ⟨_, .writeX s e j n lb o cv ups u todo c' hw hc'⟩
      | enq n lb o cv ups => exact ⟨_, .enqueue s e j n lb o cv ups hw hl⟩
      | fin n =>
        obtain ⟨c', hc'⟩ := notify_definedC hL.hand hw (hD.held _ hmem n (Or.inl rfl))
        by_cases hi : j ∈ e
        · exact ⟨_, .notifyExit s e j n c' hw hl hi hc'⟩
        · exact ⟨_, .notify s e j n c' hw hl hi hc'⟩
    · have hpos : 0 < s.ws.countP KW.inGw := by omega
      obtain ⟨w, hmem, hin⟩ := List.countP_pos_iff.mp hpos
      obtain ⟨j, hw⟩ := List.mem_iff_getElem?.mp hmem
      cases w with
      | gwC =>
        by_cases hc : cleanCond sv.P.nbVars s.crit
        · obtain ⟨c', h⟩ := clearLayer_def s.cache s.crit.base.firstActive
            (by rw [hL.lg.cacheLen]; have := hc.1; omega)
          exact ⟨_, .gwClear s e j c' hw hc h⟩
        · exact ⟨_, .gwAborted s e j hw hc ha⟩
      | gwP => exact absurd rfl (hL.noPop _ hmem).1
      | gwW n => exact absurd rfl ((hL.noPop _ hmem).2 n)
      | _ => cases hin
  obtain ⟨u, hu⟩ := hstep
  exact ⟨u, hu, kstepC_layC hu hL hD ha⟩

end Ddo.ParCache

#print axioms Ddo.ParCache.kstepC_layC
#print axioms Ddo.ParCache.no_panicsC
#print axioms Ddo.ParCache.kstepC_progress_after
