import DdoModel.Proofs.ParSysInv
import DdoModel.Props.C01t
/-! Termination of the concrete parallel system `ParSys`: a lexicographic measure that every `Step`
    decreases, provided the cut-sets the workers are about to enqueue hold strictly deeper nodes
    (`ProgOk`, the progress clause C08 (ii), an invariant of the system when `okX` guarantees it).

    Coordinates, most significant first (`K = nbVars + 1`, depths clamped to `K` as in `Props/C01t.lean`):
    * `0 … K`  — number of open sub-problems of that depth: fringe entries + nodes in hand not yet closed;
    * `K + 1`  — length of the fringe (a pop moves a node from the fringe to a hand);
    * `K + 2`  — number of workers holding a node (`notify_node_finished` releases one);
    * `K + 3`  — sum over the workers of the number of stages left in their current activity
                 (`idle` > `waiting` > `done`; `readR` > `compR` > … > `enq`).
    Since `notify_all` is the only way out of `waiting` (no spurious wake-ups with `parking_lot`), even the
    wait steps are counted: there is no infinite run at all.  Core Lean only. -/
set_option linter.unusedSectionVars false
set_option linter.unusedVariables false
set_option linter.unusedSimpArgs false
namespace Ddo.ParSys
open Ddo.C01t
variable {S : Type} [DecidableEq S]

theorem sum_set {α : Type} (f : α → Nat) {l : List α} {i : Nat} {w : α} (a : α) (h : l[i]? = some w) :
    ((l.set i a).map f).sum + f w = (l.map f).sum + f a := by
  induction l generalizing i with
  | nil => cases h
  | cons x xs ih =>
    cases i with
    | zero =>
      simp only [List.getElem?_cons_zero] at h
      injection h with h; subst h
      simp only [List.set_cons_zero, List.map_cons, List.sum_cons]
      omega
    | succ i =>
      simp only [List.getElem?_cons_succ] at h
      simp only [List.set_cons_succ, List.map_cons, List.sum_cons]
      have := ih h
      omega

/-- does the worker hold an open node of clamped depth `d`? -/
def hp (K d : Nat) (w : WSt S) : Bool :=
  match w.openNode with
  | some n => cdepth K n == d
  | none => false

/-- stages left -/
def WSt.rank : WSt S → Nat
  | .done | .crashed _ | .fin _ _ => 0
  | .waiting | .abortS _ => 1
  | .idle | .enq _ _ _ => 2
  | .updX _ _ _ => 3
  | .compX _ _ => 4
  | .readX _ => 5
  | .updR _ _ _ => 6
  | .compR _ _ => 7
  | .readR _ => 8

def hand (K : Nat) (ws : List (WSt S)) (d : Nat) : Nat := ws.countP (hp K d)
def Vc (K : Nat) (s : Sys S) (d : Nat) : Nat := cnt K s.crit.base.fringe d + hand K s.ws d
def Fc (s : Sys S) : Nat := s.crit.base.fringe.length
def Hc (s : Sys S) : Nat := s.ws.countP WSt.holds
def Rc (s : Sys S) : Nat := (s.ws.map WSt.rank).sum

/-- the measure -/
def mu (nbVars : Nat) (s : Sys S) (d : Nat) : Nat :=
  if d ≤ nbVars + 1 then Vc (nbVars + 1) s d
  else if d = nbVars + 2 then Fc s
  else if d = nbVars + 3 then Hc s
  else Rc s

theorem mu_V {nbVars : Nat} (s : Sys S) {d : Nat} (h : d ≤ nbVars + 1) : mu nbVars s d = Vc (nbVars + 1) s d := by
  unfold mu; rw [if_pos h]
theorem mu_F {nbVars : Nat} (s : Sys S) : mu nbVars s (nbVars + 2) = Fc s := by
  unfold mu; rw [if_neg (show ¬ nbVars + 2 ≤ nbVars + 1 by omega), if_pos rfl]
theorem mu_H {nbVars : Nat} (s : Sys S) : mu nbVars s (nbVars + 3) = Hc s := by
  unfold mu
  rw [if_neg (show ¬ nbVars + 3 ≤ nbVars + 1 by omega), if_neg (show ¬ nbVars + 3 = nbVars + 2 by omega), if_pos rfl]
theorem mu_R {nbVars : Nat} (s : Sys S) : mu nbVars s (nbVars + 4) = Rc s := by
  unfold mu
  rw [if_neg (show ¬ nbVars + 4 ≤ nbVars + 1 by omega), if_neg (show ¬ nbVars + 4 = nbVars + 2 by omega),
    if_neg (show ¬ nbVars + 4 = nbVars + 3 by omega)]

theorem lt_of_V {nbVars : Nat} {s t : Sys S} (d : Nat) (hd : d ≤ nbVars + 1)
    (hlt : Vc (nbVars + 1) t d < Vc (nbVars + 1) s d) (hle : ∀ e, e < d → Vc (nbVars + 1) t e ≤ Vc (nbVars + 1) s e) :
    LexLT (nbVars + 5) (mu nbVars t) (mu nbVars s) := by
  refine lexLT_of_le d (by omega) ?_ ?_
  · rw [mu_V t hd, mu_V s hd]; exact hlt
  · intro e he
    rw [mu_V t (by omega), mu_V s (by omega)]; exact hle e he

theorem lt_of_F {nbVars : Nat} {s t : Sys S} (hV : ∀ e, Vc (nbVars + 1) t e = Vc (nbVars + 1) s e) (hF : Fc t < Fc s) :
    LexLT (nbVars + 5) (mu nbVars t) (mu nbVars s) := by
  refine lexLT_of_le (nbVars + 2) (by omega) ?_ ?_
  · rw [mu_F, mu_F]; exact hF
  · intro e he
    rw [mu_V t (by omega), mu_V s (by omega), hV]; exact Nat.le_refl _

theorem lt_of_H {nbVars : Nat} {s t : Sys S} (hV : ∀ e, Vc (nbVars + 1) t e = Vc (nbVars + 1) s e) (hF : Fc t = Fc s)
    (hH : Hc t < Hc s) : LexLT (nbVars + 5) (mu nbVars t) (mu nbVars s) := by
  refine lexLT_of_le (nbVars + 3) (by omega) ?_ ?_
  · rw [mu_H, mu_H]; exact hH
  · intro e he
    by_cases h1 : e ≤ nbVars + 1
    · rw [mu_V t h1, mu_V s h1, hV]; exact Nat.le_refl _
    · have : e = nbVars + 2 := by omega
      subst this
      rw [mu_F, mu_F, hF]; exact Nat.le_refl _

theorem lt_of_R {nbVars : Nat} {s t : Sys S} (hV : ∀ e, Vc (nbVars + 1) t e = Vc (nbVars + 1) s e) (hF : Fc t = Fc s)
    (hH : Hc t = Hc s) (hR : Rc t < Rc s) : LexLT (nbVars + 5) (mu nbVars t) (mu nbVars s) := by
  refine lexLT_of_le (nbVars + 4) (by omega) ?_ ?_
  · rw [mu_R, mu_R]; exact hR
  · intro e he
    by_cases h1 : e ≤ nbVars + 1
    · rw [mu_V t h1, mu_V s h1, hV]; exact Nat.le_refl _
    · by_cases h2 : e = nbVars + 2
      · subst h2; rw [mu_F, mu_F, hF]; exact Nat.le_refl _
      · have : e = nbVars + 3 := by omega
        subst this
        rw [mu_H, mu_H, hH]; exact Nat.le_refl _

theorem hp_of_open {K d : Nat} {w : WSt S} {n : SubP S} (h : w.openNode = some n) :
    hp K d w = (cdepth K n == d) := by unfold hp; rw [h]
theorem hp_of_none {K d : Nat} {w : WSt S} (h : w.openNode = none) : hp K d w = false := by unfold hp; rw [h]
theorem hp_congr {K d : Nat} {w w' : WSt S} (h : w'.openNode = w.openNode) : hp K d w' = hp K d w := by
  unfold hp; rw [h]

/-- worker `i` changes stage, keeping its node open (or having none): only the rank moves -/
theorem local_lt {nbVars : Nat} {s : Sys S} {i : Nat} {w : WSt S} (hw : s.ws[i]? = some w) (c' : ParCrit S) (w' : WSt S)
    (hfr : c'.base.fringe = s.crit.base.fringe) (hop : w'.openNode = w.openNode) (hh : w'.holds = w.holds)
    (hr : w'.rank < w.rank) :
    LexLT (nbVars + 5) (mu nbVars { crit := c', ws := s.ws.set i w' }) (mu nbVars s) := by
  refine lt_of_R (fun e => ?_) ?_ ?_ ?_
  · unfold Vc hand
    have := countP_set (hp (nbVars + 1) e) w' hw
    rw [hp_congr hop] at this
    show cnt _ c'.base.fringe e + (s.ws.set i w').countP _ = _
    rw [hfr]; omega
  · show c'.base.fringe.length = _; rw [hfr]; rfl
  · have := countP_set WSt.holds w' hw
    rw [hh] at this
    show (s.ws.set i w').countP _ = s.ws.countP _
    omega
  · have := sum_set WSt.rank w' hw
    show ((s.ws.set i w').map _).sum < (s.ws.map _).sum
    omega

/-- worker `i` closes its node `n` (goes to a stage without open node), the fringe loses nothing shallower
    and gains nothing at the depth of `n` or above -/
theorem close_lt {nbVars : Nat} {s : Sys S} {i : Nat} {w : WSt S} {n : SubP S} (hw : s.ws[i]? = some w) (c' : ParCrit S)
    (w' : WSt S) (hop : w.openNode = some n) (hop' : w'.openNode = none)
    (hfr : ∀ e, e ≤ cdepth (nbVars + 1) n → cnt (nbVars + 1) c'.base.fringe e ≤ cnt (nbVars + 1) s.crit.base.fringe e) :
    LexLT (nbVars + 5) (mu nbVars { crit := c', ws := s.ws.set i w' }) (mu nbVars s) := by
  have hset : ∀ e, hand (nbVars + 1) (s.ws.set i w') e + (if cdepth (nbVars + 1) n = e then 1 else 0) = hand (nbVars + 1) s.ws e := by
    intro e
    have := countP_set (hp (nbVars + 1) e) w' hw
    rw [hp_of_open hop, hp_of_none hop'] at this
    unfold hand
    by_cases h : cdepth (nbVars + 1) n = e
    · simp only [h, beq_self_eq_true, if_true] at this ⊢; simp at this; omega
    · have hb : (cdepth (nbVars + 1) n == e) = false := by simpa using h
      rw [hb] at this; simp only [if_neg h]; simp at this; omega
  refine lt_of_V (cdepth (nbVars + 1) n) (by unfold cdepth; omega) ?_ ?_
  · have h1 := hset (cdepth (nbVars + 1) n)
    have h2 := hfr _ (Nat.le_refl _)
    rw [if_pos rfl] at h1
    show cnt _ c'.base.fringe _ + hand _ (s.ws.set i w') _ < cnt _ s.crit.base.fringe _ + hand _ s.ws _
    omega
  · intro e he
    have h1 := hset e
    have h2 := hfr e (by omega)
    show cnt _ c'.base.fringe _ + hand _ (s.ws.set i w') _ ≤ cnt _ s.crit.base.fringe _ + hand _ s.ws _
    omega

/-- the cut-sets about to be enqueued hold strictly deeper nodes, none beyond the last layer -/
def ProgOk (nbVars : Nat) (s : Sys S) : Prop :=
  ∀ (j : Nat) (n : SubP S) (lb : Int) (o : DDOut S),
    (s.ws[j]? = some (.updX n lb o) ∨ s.ws[j]? = some (.enq n lb o)) →
    ∀ c ∈ o.cutset, n.depth < c.depth ∧ c.depth ≤ nbVars

/-- a pop: the node goes from the fringe to a hand -/
theorem pop_lt {nbVars : Nat} {s : Sys S} {i : Nat} {w : WSt S} {N : SubP S} {rest : List (SubP S)}
    (hw : s.ws[i]? = some w) (hop : w.openNode = none) (hp' : PopMax s.crit.base.fringe N rest)
    (c' : ParCrit S) (w' : WSt S) (hfr : c'.base.fringe = rest) (hop' : w'.openNode = some N) :
    LexLT (nbVars + 5) (mu nbVars { crit := c', ws := s.ws.set i w' }) (mu nbVars s) := by
  refine lt_of_F (fun e => ?_) ?_
  · have := countP_set (hp (nbVars + 1) e) w' hw
    rw [hp_of_open hop', hp_of_none hop] at this
    show cnt _ c'.base.fringe e + (s.ws.set i w').countP _ = cnt _ s.crit.base.fringe e + s.ws.countP _
    rw [hfr, cnt_perm _ hp'.1 e, cnt_cons]
    by_cases h : cdepth (nbVars + 1) N = e
    · simp only [h, beq_self_eq_true, if_true] at this ⊢; simp at this; omega
    · have hb : (cdepth (nbVars + 1) N == e) = false := by simpa using h
      rw [hb] at this; simp only [if_neg h]; simp at this; omega
  · show c'.base.fringe.length < s.crit.base.fringe.length
    rw [hfr, hp'.1.length_eq]; simp

theorem step_measure_lt {nbVars : Nat} {dedup : Bool} {okR okX : SubP S → Int → DDOut S → Prop} {s t : Sys S}
    (h : Step dedup okR okX s t) (hprog : ProgOk nbVars s) : LexLT (nbVars + 5) (mu nbVars t) (mu nbVars s) := by
  cases h with
  | gwAborted i hw ha => exact local_lt hw _ _ rfl rfl rfl (by simp [WSt.rank, WSt.afterR, WSt.afterX])
  | gwComplete i hw ha ho hf => exact local_lt hw _ _ rfl rfl rfl (by simp [WSt.rank, WSt.afterR, WSt.afterX])
  | gwWait i hw ha ho hf => exact local_lt hw _ _ rfl rfl rfl (by simp [WSt.rank, WSt.afterR, WSt.afterX])
  | gwStarve i N rest c' k hw ha hp' hl =>
    rw [popLoop_single] at hl
    split at hl
    · injection hl with hc _
      subst hc
      refine lt_of_V (cdepth (nbVars + 1) N) (by unfold cdepth; omega) ?_ (fun e _ => ?_)
      · show cnt _ [] _ + hand _ s.ws _ < cnt _ s.crit.base.fringe _ + hand _ s.ws _
        rw [cnt_perm _ hp'.1, cnt_cons, cnt_nil, if_pos rfl]; omega
      · show cnt _ [] _ + hand _ s.ws _ ≤ cnt _ s.crit.base.fringe _ + hand _ s.ws _
        rw [cnt_nil]; omega
    · injection hl with _ hl; injection hl with hl; cases hl
  | gwItem i N rest c' nn k c'' hw ha hp' hl ht =>
    obtain ⟨rfl, rfl⟩ := popLoop_item hl
    exact pop_lt hw rfl hp' c'' _ (take_spec ht).1 rfl
  | gwCrash i N rest c' nn k hw ha hp' hl ht =>
    obtain ⟨rfl, rfl⟩ := popLoop_item hl
    exact pop_lt hw rfl hp' _ _ rfl rfl
  | readLbR i n hw =>
    split
    · exact close_lt hw _ _ rfl rfl (fun _ _ => Nat.le_refl _)
    · exact local_lt hw _ _ rfl rfl rfl (by simp [WSt.rank, WSt.afterR, WSt.afterX])
  | compileR i n lb r hw hok =>
    cases r with
    | ok o => exact local_lt hw _ _ rfl rfl rfl (by simp [WSt.rank, WSt.afterR, WSt.afterX])
    | cutoff => exact local_lt hw _ _ rfl rfl rfl (by simp [WSt.rank, WSt.afterR, WSt.afterX])
  | updateR i n lb o hw =>
    have hfe : (s.crit.updateBest o).base.fringe = s.crit.base.fringe := (updateBest_fringe s.crit.base o).1
    split
    · exact close_lt hw _ _ rfl rfl (fun _ _ => by rw [hfe]; exact Nat.le_refl _)
    · exact local_lt hw _ _ hfe rfl rfl (by simp [WSt.rank, WSt.afterR, WSt.afterX])
  | readLbX i n hw => exact local_lt hw _ _ rfl rfl rfl (by simp [WSt.rank, WSt.afterR, WSt.afterX])
  | compileX i n lb r hw hok =>
    cases r with
    | ok o => exact local_lt hw _ _ rfl rfl rfl (by simp [WSt.rank, WSt.afterR, WSt.afterX])
    | cutoff => exact local_lt hw _ _ rfl rfl rfl (by simp [WSt.rank, WSt.afterR, WSt.afterX])
  | updateX i n lb o hw =>
    have hfe : (s.crit.updateBest o).base.fringe = s.crit.base.fringe := (updateBest_fringe s.crit.base o).1
    split
    · exact close_lt hw _ _ rfl rfl (fun _ _ => by rw [hfe]; exact Nat.le_refl _)
    · exact local_lt hw _ _ hfe rfl rfl (by simp [WSt.rank, WSt.afterR, WSt.afterX])
  | enqueue i n lb o hw =>
    refine close_lt hw _ _ rfl rfl (fun e he => ?_)
    show cnt _ (s.crit.base.enqueue dedup o.cutset).fringe e ≤ _
    rw [cnt_enqueue_of_ne (nbVars + 1) dedup o.cutset e (fun c hc => ?_)]
    · exact Nat.le_refl _
    · obtain ⟨h1, h2⟩ := hprog i n lb o (Or.inr hw) c hc
      unfold cdepth at he ⊢
      omega
  | abort i n top hw htop =>
    refine close_lt hw _ _ rfl rfl (fun e _ => ?_)
    show cnt _ [] e ≤ _
    rw [cnt_nil]; exact Nat.zero_le _
  | notify i n te c' hw hn =>
    obtain ⟨n1, _, _, _⟩ := notify_spec hn
    have hw' : (s.ws.map WSt.wake)[i]? = some (.fin n te) := by rw [List.getElem?_map, hw]; rfl
    have hwk : ∀ p : WSt S → Bool, (∀ w, p w.wake = p w) → (s.ws.map WSt.wake).countP p = s.ws.countP p := by
      intro p hp
      rw [List.countP_map]
      congr 1
      funext w; exact hp w
    have key : ∀ w' : WSt S, w'.openNode = none → w'.holds = false →
        LexLT (nbVars + 5) (mu nbVars { crit := c', ws := (s.ws.map WSt.wake).set i w' }) (mu nbVars s) := by
      intro w' ho hh
      refine lt_of_H (fun e => ?_) ?_ ?_
      · have := countP_set (hp (nbVars + 1) e) w' hw'
        rw [hp_of_none ho, hp_of_none (w := WSt.fin n te) rfl, hwk _ (fun w => hp_congr (wake_openNode w))] at this
        show cnt _ c'.base.fringe e + ((s.ws.map WSt.wake).set i w').countP _ = cnt _ s.crit.base.fringe e + s.ws.countP _
        rw [n1]; omega
      · show c'.base.fringe.length = _; rw [n1]; rfl
      · have := countP_set WSt.holds w' hw'
        rw [hh, hwk _ wake_holds] at this
        show ((s.ws.map WSt.wake).set i w').countP _ < s.ws.countP _
        have h1 : (WSt.fin n te : WSt S).holds = true := rfl
        rw [h1] at this
        simp at this
        omega
    cases te
    · exact key .idle rfl rfl
    · exact key .done rfl rfl

/-- **`sys_terminates`**: the step relation of the concrete parallel system, restricted to states whose
    pending cut-sets make progress, is well-founded: any number of threads, any interleaving, both fringes,
    cut-offs and panics included -/
theorem sys_terminates (nbVars : Nat) (dedup : Bool) (okR okX : SubP S → Int → DDOut S → Prop) :
    WellFounded (fun t s : Sys S => Step dedup okR okX s t ∧ ProgOk nbVars s) :=
  Subrelation.wf (r := InvImage (LexLT (nbVars + 5)) (mu nbVars))
    (fun {_ _} h => step_measure_lt h.1 h.2) (InvImage.wf _ (lexLT_wf _))

/-- `ProgOk` is an invariant when the relaxed compilations guarantee progress -/
theorem step_progOk {nbVars : Nat} {dedup : Bool} {okR okX : SubP S → Int → DDOut S → Prop}
    (hX : ∀ n lb o, okX n lb o → ∀ c ∈ o.cutset, n.depth < c.depth ∧ c.depth ≤ nbVars)
    {s t : Sys S} (h : Step dedup okR okX s t) (hp : ProgOk nbVars s) : ProgOk nbVars t := by
  -- a worker in `updX` / `enq` after the step was so before, or has just received a relaxed diagram
  have hset : ∀ (ws : List (WSt S)) (i : Nat) (w' : WSt S),
      (∀ n lb o, (w' = .updX n lb o ∨ w' = .enq n lb o) → ∀ c ∈ o.cutset, n.depth < c.depth ∧ c.depth ≤ nbVars) →
      (∀ (j : Nat) (n : SubP S) (lb : Int) (o : DDOut S), (ws[j]? = some (.updX n lb o) ∨ ws[j]? = some (.enq n lb o)) →
        ∀ c ∈ o.cutset, n.depth < c.depth ∧ c.depth ≤ nbVars) →
      ∀ (j : Nat) (n : SubP S) (lb : Int) (o : DDOut S),
        ((ws.set i w')[j]? = some (.updX n lb o) ∨ (ws.set i w')[j]? = some (.enq n lb o)) →
        ∀ c ∈ o.cutset, n.depth < c.depth ∧ c.depth ≤ nbVars := by
    intro ws i w' hw' hold j n lb o hj
    rcases hj with hj | hj
    · rcases get_set_split hj with ⟨_, e⟩ | ⟨_, e⟩
      · exact hw' n lb o (Or.inl e.symm)
      · exact hold j n lb o (Or.inl e)
    · rcases get_set_split hj with ⟨_, e⟩ | ⟨_, e⟩
      · exact hw' n lb o (Or.inr e.symm)
      · exact hold j n lb o (Or.inr e)
  cases h with
  | gwAborted i hw ha => exact hset _ i _ (fun n lb o h => by rcases h with h | h <;> cases h) hp
  | gwComplete i hw ha ho hf => exact hset _ i _ (fun n lb o h => by rcases h with h | h <;> cases h) hp
  | gwWait i hw ha ho hf => exact hset _ i _ (fun n lb o h => by rcases h with h | h <;> cases h) hp
  | gwStarve i N rest c' k hw ha hp' hl => exact hp
  | gwItem i N rest c' nn k c'' hw ha hp' hl ht => exact hset _ i _ (fun n lb o h => by rcases h with h | h <;> cases h) hp
  | gwCrash i N rest c' nn k hw ha hp' hl ht => exact hset _ i _ (fun n lb o h => by rcases h with h | h <;> cases h) hp
  | readLbR i n hw =>
    refine hset _ i _ (fun n' lb o h => ?_) hp
    split at h <;> rcases h with h | h <;> cases h
  | compileR i n lb r hw hok =>
    refine hset _ i _ (fun n' lb' o h => ?_) hp
    cases r <;> rcases h with h | h <;> cases h
  | updateR i n lb o hw =>
    refine hset _ i _ (fun n' lb' o' h => ?_) hp
    split at h <;> rcases h with h | h <;> cases h
  | readLbX i n hw => exact hset _ i _ (fun n lb o h => by rcases h with h | h <;> cases h) hp
  | compileX i n lb r hw hok =>
    refine hset _ i _ (fun n' lb' o h => ?_) hp
    cases r with
    | cutoff => rcases h with h | h <;> cases h
    | ok o' =>
      rcases h with h | h
      · have h : WSt.updX n lb o' = WSt.updX n' lb' o := h
        injection h with h1 h2 h3
        subst h1; subst h3
        exact hX n lb o' (hok o' rfl)
      · cases h
  | updateX i n lb o hw =>
    refine hset _ i _ (fun n' lb' o' h => ?_) hp
    split at h
    · rcases h with h | h <;> cases h
    · rcases h with h | h
      · cases h
      · injection h with h1 h2 h3
        subst h1; subst h3
        exact hp i n lb o (Or.inl hw)
  | enqueue i n lb o hw => exact hset _ i _ (fun n lb o h => by rcases h with h | h <;> cases h) hp
  | abort i n top hw htop => exact hset _ i _ (fun n lb o h => by rcases h with h | h <;> cases h) hp
  | notify i n te c' hw hn =>
    refine hset _ i _ (fun n' lb o h => ?_) (fun j n' lb o hj => ?_)
    · cases te <;> rcases h with h | h <;> cases h
    · have hget : ∀ w', (s.ws.map WSt.wake)[j]? = some w' → ∃ w, s.ws[j]? = some w ∧ w' = w.wake := by
        intro w' h
        rw [List.getElem?_map] at h
        cases hj : s.ws[j]? with
        | none => rw [hj] at h; cases h
        | some wj => rw [hj] at h; injection h with h; exact ⟨wj, rfl, h.symm⟩
      rcases hj with hj | hj
      · obtain ⟨w, hw1, e⟩ := hget _ hj
        have : w = .updX n' lb o := by cases w <;> simp_all [WSt.wake]
        exact hp j n' lb o (Or.inl (by rw [hw1, this]))
      · obtain ⟨w, hw1, e⟩ := hget _ hj
        have : w = .enq n' lb o := by cases w <;> simp_all [WSt.wake]
        exact hp j n' lb o (Or.inr (by rw [hw1, this]))

theorem init_progOk (nbVars : Nat) (P : Problem S) (primal : Option (Int × List Dec)) (dedup : Bool) (U : Nat) :
    ProgOk nbVars (Sys.init P primal dedup U) := by
  intro j n lb o hj
  have hws : ∀ (i : Nat) (w : WSt S), (Sys.init P primal dedup U).ws[i]? = some w → w = .idle := by
    intro i w h
    have h : (List.replicate U (WSt.idle : WSt S))[i]? = some w := h
    rw [List.getElem?_replicate] at h
    split at h
    · injection h with h; exact h.symm
    · cases h
  rcases hj with hj | hj <;> cases hws j _ hj

/-- **no infinite run** from a state whose pending cut-sets make progress, when the relaxed compilations do -/
theorem no_infinite_run {nbVars : Nat} {dedup : Bool} {okR okX : SubP S → Int → DDOut S → Prop}
    (hX : ∀ n lb o, okX n lb o → ∀ c ∈ o.cutset, n.depth < c.depth ∧ c.depth ≤ nbVars)
    (run : Nat → Sys S) (h0 : ProgOk nbVars (run 0)) : ¬ ∀ k, Step dedup okR okX (run k) (run (k + 1)) := by
  intro hrun
  have hall : ∀ k, ProgOk nbVars (run k) := by
    intro k
    induction k with
    | zero => exact h0
    | succ k ih => exact step_progOk hX (hrun k) ih
  exact no_infinite_chain (sys_terminates nbVars dedup okR okX) run (fun k => ⟨hrun k, hall k⟩)

end Ddo.ParSys
