import DdoModel.Proofs.CompatBuiltF
import DdoModel.Proofs.CompatBuiltR
import DdoModel.Proofs.CompatBuiltE
/-! C10e — **one joint layer step preserves `TInvJ`** (`stepTInvJ_of`), from the position-wise description `FdDesc` of
`_filter_with_dominance` on the cache-filtered layer (`FdSpecJ`); `hypJ_gpot`; `builtOkJoint_of_fd : FdSpecJoint → BuiltOkJoint`. -/
set_option linter.unusedSectionVars false
set_option linter.unusedVariables false
namespace Ddo.C10d
open Ddo Ddo.C01 Ddo.Closed Ddo.C09 Ddo.C10 Ddo.C10c Ddo.Truth Ddo.Theta Ddo.Bounds
variable {S K : Type} [DecidableEq S] [DecidableEq K]

/-- the description `FdDesc` holds of `_filter_with_dominance` applied to the cache-filtered layer of every diagram of the loop
    (store with exactly reached entries, exact nodes exactly reached) -/
def FdSpecJ (cfg : Cfg S K) (D : DomRule S K) (H : Nat → S → EInt) (O : Int) (B : Int) (p0 : List Dec) : Prop :=
  ∀ (dd : DD S K) (var : Nat), SInv cfg D dd → MInv cfg B p0 dd → dd.depth = cfg.root.depth + dd.layers.length →
    cfg.P.nextVar dd.depth (dd.next.map (·.state)) = some var →
    FdDesc H O dd.depth (Theta.fcOf cfg dd).1 (CacheClosed.fdOf cfg dd).1 (Theta.fcOf cfg dd).2 (CacheClosed.fdOf cfg dd).2.1

theorem stepTInvJ_of (cfg : Cfg S K) (D : DomRule S K) (H : Nat → S → EInt) (B : Int) (p0 : List Dec) (cache : Cache S) (O : Int)
    (hy : HypJ cfg H B) (hfd : FdSpecJ cfg D H O B p0) : StepTInvJ cfg D H B p0 cache O := by
  intro Live Drop dd dd' var sq hI hS hM hne hnv hlen hsq hl hn hd hc
  have hdesc := fcOf_desc cfg dd
  rw [hI.cacheEq] at hdesc
  obtain ⟨hpost0, hpre0, hrub0⟩ := sqpostJ_fc cfg H B cache O Live Drop dd var hy hnv hI _ _ hdesc
  obtain ⟨hpost, hpre⟩ := sqpostJ_drop cfg H B cache O Live dd var _ _ _ _ hpost0 hpre0 hrub0 (hfd dd var hS hM hI.depth hnv)
  rcases Bounds.squash_cases cfg dd (CacheClosed.fdOf cfg dd).1 (CacheClosed.fdOf cfg dd).2.1 hy.rel hy.W with
    ⟨_, hsq'⟩ | ⟨c1, c2, hsq'⟩
  · rw [hsq'] at hsq
    cases hsq
    dsimp only at hl hn
    exact ⟨_, _, expand_tinvJ cfg H B cache O Live Drop dd dd' var _ _ _ dd.log hy hlen hI hpost hl hn hd hc⟩
  · rw [hsq'] at hsq
    cases hsq
    dsimp only at hl hn
    exact ⟨_, _, expand_tinvJ cfg H B cache O Live Drop dd dd' var _ _ _ _ hy hlen hI
      (sqpostJ_relax cfg H B cache O Live Drop dd var _ dd.log hy hnv hlen _ _ c1 c2 hI hpost hpre) hl hn hd hc⟩

/-- the hypotheses of the loop hold of the pseudo-potential -/
theorem hypJ_gpot {dv : DSolverCfg S K} {H : Nat → S → EInt} {B0 B opt : Int} {n : Nat} (hM : MonoHyp dv H B0 B opt n)
    {N : SubP S} {lb : Int} {p0 : List Dec} (hroot : Reach dv.sv.P N.depth N.state N.value p0) :
    HypJ (dv.kdcfg .relaxed N lb) (gpot dv.D dv.sv.P n opt B) B := by
  have hBN : NoClamp dv.sv.P dv.sv.R N.value B := hM.wf.bound.noClamp_at hM.wf.nv hroot
  refine ⟨rfl, hM.wf.width N, ?_, gpot_MergeOk hM.ghyp hM.mc, ?_, hBN⟩
  · intro k L x s h hnv hs hg
    exact gpot_att_L hM.ghyp k L x s h hnv hs hg
  · intro k L x X h hnv hX hsub hh
    obtain ⟨u, hu⟩ := List.exists_mem_of_ne_nil X hX
    exact gpot_att hM.ghyp (by rw [← nv_eq hM.stat (hsub u hu)]; exact hnv) hh

/-- **the remaining obligation**: `FdSpecJ` for the pseudo-potential at the level `opt - 1` -/
def FdSpecJoint : Prop :=
  ∀ (S K : Type) [DecidableEq S] [DecidableEq K] (dv : DSolverCfg S K) (H : Nat → S → EInt) (B0 B opt : Int) (n : Nat),
    MonoHyp dv H B0 B opt n →
    ∀ (N : SubP S) (lb : Int) (p0 : List Dec), Reach dv.sv.P N.depth N.state N.value p0 →
      FdSpecJ (dv.kdcfg .relaxed N lb) dv.D (gpot dv.D dv.sv.P n opt B) (opt - 1) B p0

theorem stepTInvJoint_of_fd (h : FdSpecJoint) : StepTInvJoint := by
  intro S K _ _ dv H B0 B opt n hM N lb cache p0 hroot
  exact stepTInvJ_of _ _ _ _ _ _ _ (hypJ_gpot hM hroot) (h S K dv H B0 B opt n hM N lb p0 hroot)

theorem builtOkJoint_of_fd (h : FdSpecJoint) : BuiltOkJoint := builtOkJoint_of_step (stepTInvJoint_of_fd h)

end Ddo.C10d

#print axioms Ddo.C10d.builtOkJoint_of_fd
