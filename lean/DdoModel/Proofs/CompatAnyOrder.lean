import DdoModel.Proofs.CompatProcess
/-! C10e — **arbitrary pop orders**.  Nothing in the reduction of `Proofs/CompatProcess.lean` uses a best-first pop (`compatInv_turn`,
`kdturn_inv`, `compatInv_skip`, `kdturn_storeReach` are about any element of the fringe): the repaired joint statement follows from the
contract of a single compilation for **every** pop order — a custom `SubProblemRanking`, or sub-problems processed out of order by
the parallel solver (the situation of finding D14).  `KDStepAny` / `KDRunAny`: one turn of the solver with cache and checker, any
entry of the fringe being popped; `JointCorrectAny`; `jointCorrectAny_of_jointContract`. -/
set_option linter.unusedSectionVars false
set_option linter.unusedVariables false
namespace Ddo.C10d
open Ddo Ddo.C01 Ddo.Closed Ddo.C09 Ddo.C10 Ddo.C10c
variable {S K : Type} [DecidableEq S] [DecidableEq K]

/-- one turn, **any** entry of the fringe being popped -/
inductive KDStepAny (dv : DSolverCfg S K) : KDSt S K → KDSt S K → Prop
  | pop (s t : KDSt S K) (N : SubP S) (rest : List (SubP S)) (hpop : s.st.fringe.Perm (N :: rest))
      (hturn : dv.kdturn s N rest = some t) : KDStepAny dv s t

inductive KDRunAny (dv : DSolverCfg S K) : KDSt S K → KDSt S K → Prop
  | refl (s : KDSt S K) : KDRunAny dv s s
  | tail {s t u : KDSt S K} : KDRunAny dv s t → KDStepAny dv t u → KDRunAny dv s u

theorem kdstep_any {dv : DSolverCfg S K} {s t : KDSt S K} (h : KDStep dv s t) : KDStepAny dv s t := by
  cases h with
  | pop N rest hpop _ hturn => exact KDStepAny.pop s t N rest hpop hturn

theorem kdrun_any {dv : DSolverCfg S K} {s t : KDSt S K} (h : KDRun dv s t) : KDRunAny dv s t := by
  induction h with
  | refl => exact KDRunAny.refl _
  | tail _ hstep ih => exact KDRunAny.tail ih (kdstep_any hstep)

theorem kdstepAny_inv {dv : DSolverCfg S K} {H : Nat → S → EInt} {B0 B : Int} (hwf : WellFormed dv.sv H B0 B) {s t : KDSt S K}
    (h : KDStepAny dv s t) (hI : JSInv dv H s) : JSInv dv H t ∧ C01t.Step dv.sv.P.nbVars dv.sv.dedup s.st t.st := by
  cases h with
  | pop N rest hpop hturn =>
    obtain ⟨t', ht', hT, hS⟩ := kdturn_inv hwf s N rest hpop hI
    rw [hturn] at ht'
    cases ht'
    exact ⟨hT, hS⟩

theorem kdrunAny_inv {dv : DSolverCfg S K} {H : Nat → S → EInt} {B0 B : Int} (hwf : WellFormed dv.sv H B0 B) {s t : KDSt S K}
    (h : KDRunAny dv s t) (hI : JSInv dv H s) : JSInv dv H t := by
  induction h with
  | refl => exact hI
  | tail _ hstep ih => exact (kdstepAny_inv hwf hstep ih).1

theorem kdstepAny_terminates {dv : DSolverCfg S K} {H : Nat → S → EInt} {B0 B : Int} (hwf : WellFormed dv.sv H B0 B) :
    WellFounded (fun t s : KDSt S K => JSInv dv H s ∧ KDStepAny dv s t) :=
  Subrelation.wf (r := InvImage (fun t s : SeqSt S => C01t.Step dv.sv.P.nbVars dv.sv.dedup s t) KDSt.st)
    (fun {_ _} h => (kdstepAny_inv hwf h.2 h.1).2) (InvImage.wf _ (C01t.seq_terminates dv.sv.P.nbVars dv.sv.dedup))

/-- the conclusion of the joint statement, **for every pop order** -/
def JointCorrectAny (dv : DSolverCfg S K) (opt : Int) : Prop :=
  WellFounded (fun t s : KDSt S K => KDRunAny dv (KDSt.init dv) s ∧ KDStepAny dv s t) ∧
  ∀ t, KDRunAny dv (KDSt.init dv) t →
    (∀ N rest, t.st.fringe.Perm (N :: rest) → ∃ u, KDStepAny dv t u) ∧
    t.st.crashed = false ∧
    (t.st.fringe = [] →
      t.st.bestLb = opt ∧ (∃ p, t.st.bestSol = some p ∧ SolOf dv.sv.P p opt) ∧ t.st.completion = (true, some opt))

/-- **the repaired joint statement for every pop order, from the contract of a single compilation** -/
theorem jointCorrectAny_of_jointContract (hJC : JointContract) {dv : DSolverCfg S K} {H : Nat → S → EInt} {B0 B opt : Int} {n : Nat}
    (hM : MonoHyp dv H B0 B opt n) : JointCorrectAny dv opt := by
  have hwf := hM.wf
  have hinv : ∀ t, KDRunAny dv (KDSt.init dv) t → JSInv dv H t ∧ CompatInv dv n opt t := by
    intro t ht
    induction ht with
    | refl => exact ⟨init_jsinv hwf, init_compatInv hwf hM.opt hM.dim hM.stat hM.sim⟩
    | tail hrun hstep ih =>
      refine ⟨(kdstepAny_inv hwf hstep ih.1).1, ?_⟩
      cases hstep with
      | pop N rest hpop hturn => exact compatInv_turn hJC hM ih.1 ih.2 hpop hturn
  refine ⟨Subrelation.wf (fun {_ _} h => ⟨(hinv _ h.1).1, h.2⟩) (kdstepAny_terminates hwf), fun t ht => ?_⟩
  obtain ⟨hJ, hI⟩ := hinv t ht
  refine ⟨fun N rest hpop => ?_, hJ.lay.2, fun hend => ?_⟩
  · obtain ⟨u, hu, _, _⟩ := kdturn_inv hwf t N rest hpop hJ
    exact ⟨u, KDStepAny.pop t u N rest hpop hu⟩
  · have hge := compatInv_end hI hend
    obtain ⟨hle, hsol⟩ := hJ.snd opt hM.opt
    have heq : t.st.bestLb = opt := by omega
    have hb := opt_bound hwf.pot hwf.nv hwf.bound hM.opt
    have hBs := hwf.bound.B_small
    cases hs : t.st.bestSol with
    | none =>
      have := hJ.solLb hs
      simp only [iMin] at this
      omega
    | some p =>
      refine ⟨heq, ⟨p, rfl, heq ▸ hsol p hs⟩, ?_⟩
      unfold SeqSt.completion
      rw [hJ.noAbort, hs, heq]; rfl

end Ddo.C10d

#print axioms Ddo.C10d.jointCorrectAny_of_jointContract
