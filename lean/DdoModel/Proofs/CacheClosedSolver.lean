import DdoModel.Proofs.CacheClosedContract
import DdoModel.Proofs.CacheClosedDefs
/-! C09 (closing the caching solver) — the loop invariant `KInvSt` of the concrete caching solver of
`Proofs/CacheClosedDefs.lean` and its preservation by one turn (`kturn_inv`): from a state that satisfies the invariant,
**whatever node of the fringe is popped** (no hypothesis on the pop order), the turn does not panic (`kturn = some t`: both
compilations end normally, every cache access is in range), `t` satisfies the invariant, and the projection on the sequential
state is a `Step` of `Props/C01t.lean` (termination measure).

(Before the repair of finding D14 — `enqueue_cutset(ub)` capping the cut-set nodes by the bound of the processed node —
`kprocess_inv` / `kturn_inv` carried the best-first hypothesis `hbf`: the popped node has the largest upper bound.  The
coverage part, `processC_inv_any` of `Proofs/SeqCacheDedup.lean`, no longer needs it.)

`KInvSt` = what `Ddo.C01.CInvAt` says about the sequential state (open sub-problems reached exactly, incumbent `isize::MIN` or
the value of the stored solution, no abort, nothing reported for an infeasible problem), the `open_by_layer` bookkeeping
(`LInv`), the shape of the cache (`nb_variables + 1` layers) and, for a feasible problem, the invariant `CInvC` of
`Proofs/SeqCache.lean` (coverage + `CacheOk`) on the fringe and the view of the cache. -/
set_option linter.unusedSectionVars false
set_option linter.unusedVariables false
namespace Ddo.C09
open Ddo Ddo.C01 Ddo.Closed Ddo.Truth
variable {S : Type} [DecidableEq S]

/-- **the loop invariant of the caching solver** -/
structure KInvSt (sv : SolverCfg S) (H : Nat → S → EInt) (B : Int) (s : KSt S) : Prop where
  nodes : ∀ c ∈ s.st.fringe, C01.NodeOk sv.P c
  lbLo : iMin ≤ s.st.bestLb
  solLb : s.st.bestSol = none → s.st.bestLb = iMin
  noAbort : s.st.abort = false
  /-- feasible problem: coverage + `CacheOk` -/
  feas : ∀ opt, (H 0 sv.P.init).addI sv.P.initVal = some opt →
    CInvC H opt (SolOf sv.P) (RgB B) s.st.fringe (viewOf s.cache) s.st.bestLb s.st.bestSol
  /-- infeasible problem: nothing was ever reported -/
  infeas : (H 0 sv.P.init).addI sv.P.initVal = none → s.st.bestLb = iMin ∧ s.st.bestSol = none
  clen : s.cache.layers.length = sv.P.nbVars + 1
  lay : LInv sv s.st

/-! ## `process` in the three cases -/

theorem process_skip_ub (dedup : Bool) (st : SeqSt S) (N : SubP S) (me : Bool) (r x : DDRes S) (h : N.ub ≤ st.bestLb) :
    (st.process dedup N me r x).1 = st := by
  unfold SeqSt.process; rw [if_pos h]

theorem process_skip_me (dedup : Bool) (st : SeqSt S) (N : SubP S) (r x : DDRes S) :
    (st.process dedup N false r x).1 = st := by
  unfold SeqSt.process
  split
  · rfl
  · rfl

theorem process_main (dedup : Bool) (st : SeqSt S) (N : SubP S) (r x : DDOut S) (h : ¬ N.ub ≤ st.bestLb) :
    (st.process dedup N true (.ok r) (.ok x)).1 =
      if r.isExact then st.updateBest r
      else if x.isExact then (st.updateBest r).updateBest x
      else ((st.updateBest r).updateBest x).enqueue dedup x.cutset := by
  unfold SeqSt.process
  rw [if_neg h]
  simp only [Bool.not_true, Bool.false_eq_true, if_false]
  split
  · rfl
  · split <;> rfl

theorem viewAfter_main (st : SeqSt S) (T : CView S) (N : SubP S) (r : DDOut S) (rups xups : List (S × Nat × Int × Bool))
    (h1 : ¬ N.ub ≤ st.bestLb) (h2 : ¬ prunM T N) :
    viewAfter st T N r rups xups = if r.isExact then T.upds rups else (T.upds rups).upds xups := by
  unfold viewAfter
  rw [if_neg h1, if_neg h2]

/-! ## magnitudes -/

/-- the incumbent is within the bound `B` -/
theorem kinv_lb_le {sv : SolverCfg S} {H : Nat → S → EInt} {B0 B : Int} (hwf : WellFormed sv H B0 B)
    {F : List (SubP S)} {T : CView S} {lb : Int} {sol : Option (List Dec)}
    (hfeas : ∀ opt, (H 0 sv.P.init).addI sv.P.initVal = some opt → CInvC H opt (SolOf sv.P) (RgB B) F T lb sol)
    (hinf : (H 0 sv.P.init).addI sv.P.initVal = none → lb = iMin ∧ sol = none) : lb ≤ B := by
  cases hopt : (H 0 sv.P.init).addI sv.P.initVal with
  | none =>
    have := (hinf hopt).1
    have := hwf.bound.clamp.nonneg
    simp only [iMin] at *; omega
  | some opt =>
    have := (hfeas opt hopt).lbOk
    have := (opt_bound hwf.pot hwf.nv hwf.bound hopt).2
    omega

theorem lb_range {B lb : Int} (hB : B ≤ 4611686018427387904) (h1 : lb ≤ B) (h2 : iMin ≤ lb) : InI lb ∧ lb < iMax := by
  unfold InI
  simp only [iMin, iMax] at *
  omega

/-! ## one `process_one_node` -/

/-- **`process_one_node` with the cache preserves the invariant and does not panic, whatever node was popped**: `st` = the
    popped state, `N` in hand (**any** node of the fringe), `c0` the cache -/
theorem kprocess_inv {sv : SolverCfg S} {H : Nat → S → EInt} {B0 B : Int} (hwf : WellFormed sv H B0 B)
    (st : SeqSt S) (c0 : Cache S) (N : SubP S)
    (hN : C01.NodeOk sv.P N) (hnodes : ∀ c ∈ st.fringe, C01.NodeOk sv.P c) (hlbLo : iMin ≤ st.bestLb)
    (hsolLb : st.bestSol = none → st.bestLb = iMin) (hab : st.abort = false)
    (hfeas : ∀ opt, (H 0 sv.P.init).addI sv.P.initVal = some opt →
      CInvC H opt (SolOf sv.P) (RgB B) (N :: st.fringe) (viewOf c0) st.bestLb st.bestSol)
    (hinf : (H 0 sv.P.init).addI sv.P.initVal = none → st.bestLb = iMin ∧ st.bestSol = none)
    (hclen : c0.layers.length = sv.P.nbVars + 1)
    (hlay : LayersOk sv.P.nbVars st.openByLayer st.fringe) (hcr : st.crashed = false) :
    ∃ (t : KSt S) (me : Bool) (r x : DDRes S), sv.kprocess st c0 N = some t ∧ t.st = (st.process sv.dedup N me r x).1 ∧
      (∀ o, x = .ok o → ∀ c ∈ o.cutset, N.depth < c.depth ∧ c.depth ≤ sv.P.nbVars) ∧ KInvSt sv H B t := by
  obtain ⟨p0, hroot, hperm⟩ := hN
  have hdN : N.depth ≤ sv.P.nbVars := reach_depth_le hwf.nv hroot
  have hBN : NoClamp sv.P sv.R N.value B := hwf.bound.noClamp_at hwf.nv hroot
  have hBs := hwf.bound.B_small
  have hlbB : st.bestLb ≤ B := kinv_lb_le hwf hfeas hinf
  obtain ⟨hlb1, hlb2⟩ := lb_range hBs hlbB hlbLo
  have hme := mustExplore_view c0 N (by omega)
  -- the invariant when the node is dropped
  have hdrop : (∀ x, x > st.bestLb → x ≤ N.ub → ¬ prunM (viewOf c0) N → False) → KInvSt sv H B ⟨st, c0⟩ := by
    intro hno
    exact ⟨hnodes, hlbLo, hsolLb, hab,
      fun opt hopt => drop_inv H opt (SolOf sv.P) (RgB B) N st.fringe (viewOf c0) st.bestLb st.bestSol (hfeas opt hopt) hno,
      hinf, hclen, ⟨hlay, hcr⟩⟩
  by_cases hub : N.ub ≤ st.bestLb
  · -- pruned by its bound
    refine ⟨⟨st, c0⟩, true, .cutoff, .cutoff, ?_, (process_skip_ub sv.dedup st N true _ _ hub).symm,
      (fun o ho => by cases ho), hdrop (fun x h1 h2 _ => by omega)⟩
    unfold SolverCfg.kprocess; rw [if_pos hub]
  by_cases hp : prunM (viewOf c0) N
  · -- refused by the cache
    refine ⟨⟨st, c0⟩, false, .cutoff, .cutoff, ?_, (process_skip_me sv.dedup st N _ _).symm,
      (fun o ho => by cases ho), hdrop (fun x _ _ h3 => h3 hp)⟩
    unfold SolverCfg.kprocess
    rw [if_neg hub, hme, decide_eq_false (fun hn => hn hp)]
  -- both tests passed: the compilations
  have hmeT : c0.mustExplore N.state N.depth N.value = some true := by rw [hme, decide_eq_true hp]
  -- the restricted compilation
  have hokR : sv.coutR c0 N st.bestLb = .ok :=
    CacheClosed.compile_no_crash_cached _ c0 _ 0 rfl (hwf.width N) hwf.nv hdN
  have hdepR := ups_depth_restricted (sv.ccfg .restricted N st.bestLb) H B p0 c0 (DomStore.init sv.P.nbVars) 0 rfl rfl
    (hwf.width N) hwf.pot hwf.merge hwf.attMerge hBN hwf.nv hroot hokR
  obtain ⟨c1, hc1, hl1, hv1⟩ := applyUps_spec (sv.cresR c0 N st.bestLb).cacheUpdates.reverse c0 (by
    intro u hu
    have := hdepR u (List.mem_reverse.mp hu)
    rw [hclen]; exact Nat.lt_succ_of_le this)
  have sR : ∀ w, (toOut (sv.cresR c0 N st.bestLb)).bestExact = some w →
      IsSol (sv.ccfg .restricted N st.bestLb) p0 w (toOut (sv.cresR c0 N st.bestLb)).bestExactSol :=
    fun w hw => isSol_restricted (sv.ccfg .restricted N st.bestLb) B p0 c0 _ 0 none rfl hBN hroot hokR w hw
  have hl1B : (st.updateBest (toOut (sv.cresR c0 N st.bestLb))).bestLb ≤ B :=
    updateBest_le st _ B (fun w hw => (isSol_le hwf _ rfl p0 w _ (sR w hw)).1) hlbB
  have hl1lo : st.bestLb ≤ (st.updateBest (toOut (sv.cresR c0 N st.bestLb))).bestLb := updateBest_lb_ge st _
  obtain ⟨hl1a, hl1b⟩ := lb_range hBs hl1B (by omega)
  have eR : ∀ w, (toOut (sv.cresR c0 N st.bestLb)).bestExact = some w →
      ∃ p, (toOut (sv.cresR c0 N st.bestLb)).bestExactSol = some p :=
    fun w hw => (isSol_le hwf _ rfl p0 w _ (sR w hw)).2
  -- the relaxed compilation (consulting `c1`)
  have hokX : sv.coutX c1 N (st.updateBest (toOut (sv.cresR c0 N st.bestLb))).bestLb = .ok :=
    CacheClosed.compile_no_crash_cached _ c1 _ 0 rfl (hwf.width N) hwf.nv hdN
  have hdepX := ups_depth_relaxed (sv.ccfg .relaxed N (st.updateBest (toOut (sv.cresR c0 N st.bestLb))).bestLb) H B p0 c1
    (DomStore.init sv.P.nbVars) 0 none rfl rfl (hwf.width N) hwf.pot hwf.merge hwf.attMerge hBN hwf.nv hroot hokX _ (.inl rfl)
  obtain ⟨c2, hc2, hl2, hv2⟩ := applyUps_spec
    (sv.cresX c1 N (st.updateBest (toOut (sv.cresR c0 N st.bestLb))).bestLb).cacheUpdates.reverse c1 (by
    intro u hu
    have := hdepX u (List.mem_reverse.mp hu)
    rw [hl1, hclen]; exact Nat.lt_succ_of_le this)
  have sX : ∀ w, (toOut (sv.cresX c1 N (st.updateBest (toOut (sv.cresR c0 N st.bestLb))).bestLb)).bestExact = some w →
      IsSol (sv.ccfg .relaxed N (st.updateBest (toOut (sv.cresR c0 N st.bestLb))).bestLb) p0 w
        (toOut (sv.cresX c1 N (st.updateBest (toOut (sv.cresR c0 N st.bestLb))).bestLb)).bestExactSol :=
    fun w hw => CacheClosed.isSol_relaxed_cached _ B p0 c1 _ 0 rfl rfl (hwf.width N) hBN hroot hokX w hw
  have eX : ∀ w, (toOut (sv.cresX c1 N (st.updateBest (toOut (sv.cresR c0 N st.bestLb))).bestLb)).bestExact = some w →
      ∃ p, (toOut (sv.cresX c1 N (st.updateBest (toOut (sv.cresR c0 N st.bestLb))).bestLb)).bestExactSol = some p :=
    fun w hw => (isSol_le hwf _ rfl p0 w _ (sX w hw)).2
  have hcsX : ∀ c ∈ (sv.cresX c1 N (st.updateBest (toOut (sv.cresR c0 N st.bestLb))).bestLb).cutset,
      C01.NodeOk sv.P c ∧ N.depth < c.depth ∧ c.depth ≤ sv.P.nbVars := by
    intro c hc
    obtain ⟨q, hq, hpath⟩ := C08.cutset_exact (sv.ccfg .relaxed N (st.updateBest (toOut (sv.cresR c0 N st.bestLb))).bestLb)
      B p0 c1 _ 0 none hroot hBN hokX _ (.inl rfl) c hc
    have hdeep := C08.cutset_progress (sv.ccfg .relaxed N (st.updateBest (toOut (sv.cresR c0 N st.bestLb))).bestLb)
      B p0 c1 _ 0 none rfl hroot hBN hokX _ (.inl rfl) c hc
    refine ⟨⟨p0 ++ q, hq, ?_⟩, hdeep, reach_depth_le hwf.nv hq⟩
    rw [hpath]
    exact List.Perm.append hperm (List.reverse_perm q)
  generalize hr : sv.cresR c0 N st.bestLb = r at *
  generalize hx : sv.cresX c1 N (st.updateBest (toOut r)).bestLb = x at *
  -- the restricted compilation records nothing unless it is exact
  have hrups : r.isExact = false → r.cacheUpdates.reverse = [] := by
    intro hex
    have := restricted_inexact_no_ups (sv.ccfg .restricted N st.bestLb) c0 (DomStore.init sv.P.nbVars) 0 none rfl
      (by rw [← hr] at hex; exact hex)
    rw [← hr]
    show (compile _ c0 _ 0 none).2.1.cacheUpdates.reverse = []
    rw [this]; rfl
  have hc10 : r.isExact = false → c1 = c0 := by
    intro hex
    rw [hrups hex, applyUps_nil] at hc1
    exact (Option.some.inj hc1).symm
  -- the state the turn ends in
  have hkp : sv.kprocess st c0 N = some ⟨(st.process sv.dedup N true (.ok (toOut r)) (.ok (toOut x))).1,
      if r.isExact then c1 else c2⟩ := by
    unfold SolverCfg.kprocess
    rw [if_neg hub, hmeT]
    simp only [hokR, ne_eq, not_true_eq_false, if_false, hr, hc1]
    rw [process_main sv.dedup st N (toOut r) (toOut x) hub]
    have e1 : (toOut r).isExact = r.isExact := rfl
    have e2 : (toOut x).isExact = x.isExact := rfl
    have e3 : (toOut x).cutset = x.cutset := rfl
    rw [e1, e2, e3]
    cases hre : r.isExact with
    | true => simp only [if_true]
    | false =>
      simp only [Bool.false_eq_true, if_false, hokX, not_true_eq_false, hx, hc2]
      cases hxe : x.isExact <;> simp only [Bool.false_eq_true, if_false, if_true]
  refine ⟨_, true, .ok (toOut r), .ok (toOut x), hkp, rfl, ?_, ?_⟩
  · intro o ho c hc
    injection ho with ho
    subst ho
    exact (hcsX c hc).2
  · -- the invariant
    refine ⟨?_, ?_, ?_, ?_, ?_, ?_, ?_, ?_⟩
    · -- nodes
      refine process_forall (C01.NodeOk sv.P) (nodeOk_ub sv.P) sv.dedup st N true _ _ hnodes ?_
      intro o ho c hc
      injection ho with ho
      subst ho
      exact (hcsX c hc).1
    · -- lbLo
      have h2 := updateBest_lb_ge (st.updateBest (toOut r)) (toOut x)
      rcases process_lb_sol sv.dedup st N true (toOut r) (toOut x) with ⟨e, _⟩ | ⟨e, _⟩ | ⟨e, _⟩ <;>
      · show iMin ≤ (st.process sv.dedup N true (.ok (toOut r)) (.ok (toOut x))).1.bestLb
        rw [e]; omega
    · -- solLb
      have a1 := updateBest_solLb st _ eR hsolLb
      have a2 := updateBest_solLb (st.updateBest (toOut r)) _ eX a1
      show (st.process sv.dedup N true (.ok (toOut r)) (.ok (toOut x))).1.bestSol = none →
        (st.process sv.dedup N true (.ok (toOut r)) (.ok (toOut x))).1.bestLb = iMin
      rcases process_lb_sol sv.dedup st N true (toOut r) (toOut x) with ⟨e1, e2⟩ | ⟨e1, e2⟩ | ⟨e1, e2⟩
      · rw [e1, e2]; exact hsolLb
      · rw [e1, e2]; exact a1
      · rw [e1, e2]; exact a2
    · -- noAbort
      show (st.process sv.dedup N true (.ok (toOut r)) (.ok (toOut x))).1.abort = false
      rw [process_abort]; exact hab
    · -- feasible: `processC_inv_any`
      intro opt hopt
      have hval : ∀ (k : Nat) (s : S) (v : Int) (p : List Dec), Reach sv.P k s v p → -B ≤ v ∧ v ≤ B :=
        fun k s v p h => hwf.bound.value_le hwf.nv h
      have hrs : ∀ w, (toOut r).bestExact = some w → ∃ p, (toOut r).bestExactSol = some p ∧ SolOf sv.P p w ∧ w ≤ opt := by
        intro w hw
        rw [← hr] at hw ⊢
        exact (restricted_sound_within (sv.ccfg .restricted N st.bestLb) H B opt p0 c0 _ 0 none rfl hwf.pot hBN hroot hperm
          hopt hokR w hw).1
      have hR : (toOut r).isExact = true → CompC H opt (SolOf sv.P) (RgB B) N st.bestLb (viewOf c0) (toOut r)
          r.cacheUpdates.reverse (st.updateBest (toOut r)).bestLb := by
        intro hex
        rw [← bkOf_updateBest]
        rw [← hr] at hex ⊢
        exact compC_restricted_of_model H opt (sv.ccfg .restricted N st.bestLb) B p0 c0 _ 0 rfl rfl rfl (hwf.width N) hwf.pot
          hwf.rub hwf.merge hwf.attMerge hBN hlb2 hroot hperm hdN hopt hokR hex _ (fun u hu => List.mem_reverse.mp hu)
      have hX : (toOut r).isExact = false → CompC H opt (SolOf sv.P) (RgB B) N (st.updateBest (toOut r)).bestLb (viewOf c0)
          (toOut x) x.cacheUpdates.reverse ((st.updateBest (toOut r)).updateBest (toOut x)).bestLb := by
        intro hex
        have hcc := hc10 hex
        subst hcc
        rw [← bkOf_updateBest (st.updateBest (toOut r)) (toOut x)]
        rw [← hx]
        exact compC_relaxed_of_model H opt (sv.ccfg .relaxed N (st.updateBest (toOut r)).bestLb) B p0 c1 _ 0 rfl rfl rfl
          (hwf.width N) hwf.pot hwf.rub hwf.merge hwf.attMerge hBN hl1b hroot hperm hdN hopt hval hokX _
          (fun u hu => List.mem_reverse.mp hu)
      have hmain := processC_inv_any H opt (SolOf sv.P) (RgB B) sv.dedup st (viewOf c0) N (toOut r) r.cacheUpdates.reverse
        (toOut x) x.cacheUpdates.reverse (hfeas opt hopt) hrs hR (fun hex => hrups hex) hX
      have hst : stateAfterD sv.dedup st (viewOf c0) N (toOut r) (toOut x) =
          (st.process sv.dedup N true (.ok (toOut r)) (.ok (toOut x))).1 := by
        unfold stateAfterD; rw [decide_eq_true hp]
      have hvw : viewAfter st (viewOf c0) N (toOut r) r.cacheUpdates.reverse x.cacheUpdates.reverse =
          viewOf (if r.isExact then c1 else c2) := by
        rw [viewAfter_main st (viewOf c0) N (toOut r) _ _ hub hp]
        show (if r.isExact = true then _ else _) = _
        cases hre : r.isExact with
        | true => simp only [if_true]; exact hv1.symm
        | false =>
          simp only [Bool.false_eq_true, if_false]
          rw [hv2, hv1]
      rw [hst, hvw] at hmain
      exact hmain
    · -- infeasible
      intro hinf'
      have hdead : optOf H N = none := reach_dead hwf.pot hinf' hroot
      have nR : (toOut r).bestExact = none := by
        cases hb : (toOut r).bestExact with
        | none => rfl
        | some w =>
          obtain ⟨y, hy, _⟩ := within_of_isSol (sv.ccfg .restricted N st.bestLb) H p0 hwf.pot hroot w _ (sR w hb)
          rw [show optOf H (sv.ccfg .restricted N st.bestLb).root = optOf H N from rfl, hdead] at hy
          cases hy
      have nX : (toOut x).bestExact = none := by
        cases hb : (toOut x).bestExact with
        | none => rfl
        | some w =>
          obtain ⟨y, hy, _⟩ := within_of_isSol (sv.ccfg .relaxed N (st.updateBest (toOut r)).bestLb) H p0 hwf.pot hroot w _
            (sX w hb)
          rw [show optOf H (sv.ccfg .relaxed N (st.updateBest (toOut r)).bestLb).root = optOf H N from rfl, hdead] at hy
          cases hy
      have u1 := updateBest_none st _ nR
      have u2 := updateBest_none (st.updateBest (toOut r)) _ nX
      show (st.process sv.dedup N true (.ok (toOut r)) (.ok (toOut x))).1.bestLb = iMin ∧
        (st.process sv.dedup N true (.ok (toOut r)) (.ok (toOut x))).1.bestSol = none
      rcases process_lb_sol sv.dedup st N true (toOut r) (toOut x) with ⟨e1, e2⟩ | ⟨e1, e2⟩ | ⟨e1, e2⟩
      · rw [e1, e2]; exact hinf hinf'
      · rw [e1, e2, u1]; exact hinf hinf'
      · rw [e1, e2, u2, u1]; exact hinf hinf'
    · -- the cache keeps its shape
      show (if r.isExact then c1 else c2).layers.length = sv.P.nbVars + 1
      split
      · rw [hl1]; exact hclen
      · rw [hl2, hl1]; exact hclen
    · -- bookkeeping
      obtain ⟨h3, h4⟩ := process_layers sv.P.nbVars sv.dedup st N true (toOut r) (toOut x)
        (fun c hc => (hcsX c hc).2.2) hlay
      exact ⟨h3, h4.trans hcr⟩

/-! ## one turn -/

theorem popped_more (s : SeqSt S) (N : SubP S) (rest : List (SubP S)) (fa : Nat) :
    (popped s N rest fa).abort = s.abort := afterPop_abort _ N

/-- **one turn of the caching solver** from a state that satisfies the invariant, **any** node of the fringe being popped:
    no panic, the invariant is preserved, and the sequential state makes a `Step` of `Props/C01t.lean` -/
theorem kturn_inv {sv : SolverCfg S} {H : Nat → S → EInt} {B0 B : Int} (hwf : WellFormed sv H B0 B)
    (s : KSt S) (N : SubP S) (rest : List (SubP S)) (hpop : s.st.fringe.Perm (N :: rest))
    (hI : KInvSt sv H B s) :
    ∃ t, sv.kturn s N rest = some t ∧ KInvSt sv H B t ∧ C01t.Step sv.P.nbVars sv.dedup s.st t.st := by
  obtain ⟨c0, hc0, hl0, hv0⟩ := cleanCache_spec sv.P.nbVars s.st.openByLayer sv.P.nbVars s.st.firstActive s.cache hI.clen
  generalize hfa : cleanLoop sv.P.nbVars s.st.openByLayer sv.P.nbVars s.st.firstActive = fa
  obtain ⟨f1, f2, f3⟩ := popped_fields s.st N rest fa
  have hNok : C01.NodeOk sv.P N := hI.nodes N (hpop.mem_iff.mpr List.mem_cons_self)
  obtain ⟨p0, hroot, _⟩ := hNok
  have hdN := reach_depth_le hwf.nv hroot
  obtain ⟨g1, g2⟩ := afterPop_layers sv.P.nbVars s.st N rest fa hdN hpop hI.lay.1
  obtain ⟨t, me, r, x, hk, hst, hprog, hT⟩ := kprocess_inv hwf (popped s.st N rest fa) c0 N
    (hI.nodes N (hpop.mem_iff.mpr List.mem_cons_self))
    (by rw [f1]; exact fun c hc => hI.nodes c (hpop.mem_iff.mpr (List.mem_cons_of_mem _ hc)))
    (by rw [f2]; exact hI.lbLo) (by rw [f2, f3]; exact hI.solLb) (by rw [popped_more]; exact hI.noAbort)
    (by
      intro opt hopt
      rw [f1, f2, f3]
      exact cinvC_forget H opt (SolOf sv.P) (RgB B) _ (viewOf s.cache) (viewOf c0) _ _ hv0
        (cinvC_perm H opt (SolOf sv.P) (RgB B) hpop (hI.feas opt hopt)))
    (by rw [f2, f3]; exact hI.infeas) hl0 g1 (g2.trans hI.lay.2)
  refine ⟨t, ?_, hT, ?_⟩
  · unfold SolverCfg.kturn
    rw [hc0, hfa]
    exact hk
  · rw [hst]
    exact C01t.Step.pop s.st N rest fa me r x hpop hprog

/-! ## the reported bounds over one turn (no hypothesis at all: read off the code) -/

theorem enqueue_bestLb (dedup : Bool) (st : SeqSt S) (cs : List (SubP S)) : (st.enqueue dedup cs).bestLb = st.bestLb := by
  cases dedup
  · exact (enqueue_false_spec st cs).1
  · exact (enqueue_true_spec st cs).1

/-- `process_one_node` never writes `best_ub` and never lowers the incumbent -/
theorem kprocess_bounds (sv : SolverCfg S) (st : SeqSt S) (c0 : Cache S) (N : SubP S) (t : KSt S)
    (h : sv.kprocess st c0 N = some t) : t.st.bestUb = st.bestUb ∧ st.bestLb ≤ t.st.bestLb := by
  unfold SolverCfg.kprocess at h
  split at h
  · cases h; exact ⟨rfl, Int.le_refl _⟩
  · split at h
    · cases h
    · cases h; exact ⟨rfl, Int.le_refl _⟩
    · split at h
      · cases h
      · split at h
        · cases h
        · dsimp only at h
          have u : ∀ (a : SeqSt S) (o : DDOut S), (a.updateBest o).bestUb = a.bestUb := fun a o => (updateBest_fringe a o).2.1
          have l : ∀ (a : SeqSt S) (o : DDOut S), a.bestLb ≤ (a.updateBest o).bestLb := updateBest_lb_ge
          split at h
          · cases h; exact ⟨u _ _, l _ _⟩
          · split at h
            · cases h
            · split at h
              · cases h
              · split at h
                · cases h; exact ⟨(u _ _).trans (u _ _), Int.le_trans (l _ _) (l _ _)⟩
                · cases h
                  refine ⟨?_, ?_⟩
                  · show (SeqSt.enqueue _ _ _).bestUb = _
                    rw [C05.enqueue_bestUb]; exact (u _ _).trans (u _ _)
                  · show _ ≤ (SeqSt.enqueue _ _ _).bestLb
                    rw [enqueue_bestLb]; exact Int.le_trans (l _ _) (l _ _)

/-- **one turn**: the reported upper bound becomes the running minimum `min best_ub N.ub` (written by `get_workload` at the
    pop, never touched by `process_one_node`), and the incumbent does not decrease — whatever node is popped -/
theorem kturn_bounds (sv : SolverCfg S) (s t : KSt S) (N : SubP S) (rest : List (SubP S))
    (h : sv.kturn s N rest = some t) : t.st.bestUb = min s.st.bestUb N.ub ∧ s.st.bestLb ≤ t.st.bestLb := by
  unfold SolverCfg.kturn at h
  split at h
  · cases h
  · obtain ⟨h1, h2⟩ := kprocess_bounds sv _ _ N t h
    obtain ⟨_, f2, _⟩ := popped_fields s.st N rest (cleanLoop sv.P.nbVars s.st.openByLayer sv.P.nbVars s.st.firstActive)
    rw [f2] at h2
    refine ⟨h1.trans ?_, h2⟩
    exact (C05.afterPop_ub_le _ N).2.2

end Ddo.C09

#print axioms Ddo.C09.kprocess_inv
#print axioms Ddo.C09.kturn_inv
#print axioms Ddo.C09.kturn_bounds
