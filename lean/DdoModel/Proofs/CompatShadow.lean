import DdoModel.Proofs.CompatGridWf
import DdoModel.Proofs.CompatOrder
import DdoModel.Proofs.CacheDomTwin
/-! # `Shadow` — `Ddo.C10c.CachingDominanceCompat` is false as stated (finding **D18**)

`SimAll` rule, static order, **rule-maximal merge** (`MergeCompat`), `WellFormed` model — every hypothesis of the open statement of
`Props/C10c.lean` — and the solver with cache **and** checker ends with `is_exact = true`, **`best_value = Some(5)`; the optimum is
10**, in all four configurations (both fringes, both cut-set kinds; the pop order is forced); the cache alone and the checker alone
return 10 (the two closed theorems apply).  The real library reproduces every number (`/tmp/agent_compat/rs`).

## what is new with respect to `Twin`

`Twin` needed a merge operator whose result the rule ranks *below* an exact state it replaces.  Here the merged state `J` is at least
as good as both states it replaces, and its child `S` — the **shadow** of the protected state `e`: same rows, strictly better
coordinates — is at least as good as `e`: the relaxed image of the protected path is, as it should be, a path of items at least as good
as the protected ones (`Proofs/CompatOrder.lean`: `GAbove`).  What kills it is the **rough upper bound**: `S` is never reached
exactly and is not the result of a merge, so `WellFormed` asks nothing of `fast_upper_bound(S)` beyond `≥ 0`:  `Potential.le` (the
potential is an upper bound of the value-to-go) binds exactly reached states only, `MergeOk` binds results of `merge` only, and a
potential that is `−∞` on `S` satisfies `Potential.att` vacuously.  `fast_upper_bound(S) = 5` although the value-to-go of `S` is 10
(`rub_below_value`); the relaxed node `S` is not expanded (`5 + 0 ≤ incumbent 5`), the other child of `J` is pruned by the cache in
favour of the open node `k2`, and `k2` is dropped by the checker at its pop because the protected item `E` dominates it — the cycle of
`Twin`, the relaxed image of `E` being cut by the bound instead of being deferred by the cache.

So the open statement lacks a hypothesis: **the rough upper bound must be valid on the states the rule ranks above exactly reached
ones** — `Ddo.C10d.PotMono`: the potential is monotone in the rule's order on *all* states (`not_potMono`: false here).  Every shipped
example satisfies it (their `fast_upper_bound` is a bound of the value-to-go of every state, merged or not).

## the model (family `Ddo.C10d.Grid`, `Proofs/CompatGrid.lean`)

6 binary variables in static order, **11 states**, initial state `R = 0`, value 0, `FixedWidth(1)`, relaxed arc cost = cost.  The tables
are per (variable, state), so one state serves at several depths: `0 R` (the root; also the decoy `u5` at depth 5 and the sink `Z` at
depth 6), `1 C` (the chain `A, a2, a3` of depths 1 – 3), `2 Q` (`P` at depth 1, `N` at depth 2), `3 pE, 4 pF, 5 e, 6 b, 7 t5` — reached
exactly —, `8 J, 9 S, 10 W` — never reached exactly.  Rows (`decision 0 | decision 1` as `next state (cost)`; every row not listed is
`R (0) | R (0)`):

```
x0:  R, t5: C (2) | Q (1)                                         R → A = (C, value 2) | P = (Q, value 1)
x1:  C: C (-2) | C (-2)        Q: Q (-1) | Q (-1)                   A → a2 = (C, 0);  P → N = (Q, 0)
x2:  C: C (0) | C (0)          Q: pE (1) | pF (0)                   a2 → a3 = (C, 0);  N → pE (value 1) | pF (value 0)
x3:  C: b (0) | b (0)          pE: e (-1) | e (-1)      pF: b (-1) | b (-1)      J: S (-1) | b (-1)
x4:  e, b, S: t5 (0) | R (5, the decoy u5)
x5:  t5: R (10) | R (10)       (R: R (0) | R (0): the decoy earns nothing)
W:   every variable: W (largest cost of the variable: 2, 0, 1, 0, 5, 10) on both decisions
```

**Rule**: one key; coordinates `C (10,-10), Q (20,-20)`, `b (40,-40) < e (41,-40) < S (42,-40)`, `pF (50,-49), pE (51,-50) < J (51,-49)`,
`R (60,-60) < t5 (61,-60)` (components pairwise incomparable), `W (100,100)` on top; the value is used.  `e`, `b`, `S` have identical rows,
`J` simulates `pE` (through `S`) and `pF` (through `b`), `t5` simulates `R` (same row at `x0`, better row at `x5`), `W` simulates
everything: `SimAll` (`checkSim`, all 121 pairs × 6 variables).  **Merge**: `join pE pF = J`, `join t5 R = t5`, `join a a = a`, everything
else `W`: an upper bound in the rule's order of the states it replaces (`MergeCompat`).  **Rough upper bound**: 30, except
`fast_upper_bound(S) = 5`.  **Potential** `hl`: the value-to-go on the exactly reached `(depth, state)` pairs, on `W` and on `(0, t5)`,
`9` on `(3, J)`, `−∞` elsewhere (in particular on `S` at every depth); value-to-go by depth: `R 10; A 8, P 9; a2 10, N 10; a3 10, pE 9, pF 9;
e 10, b 10; t5 10, u5 0`.  **Optimum 10** (through `A … k2 = (b, depth 4, value 0), t5` and through `P, N, pE, E = (e, depth 4, value 0), t5`).
The instance was reduced by hand from a 16-state version (one state per role) by sharing states across depths; the three states that
are never reached exactly (`J`, `S`, `W`), the two chains of different length and the decoy / reward pair are what the mechanism needs.

## the run (four turns, every configuration; forced pop order)

```
turn 1  pop R.  Restricted: A, a2, a3, k2 = (b, depth 4, 0) — recorded by the checker —, the decoy u5: 5.  Incumbent 5.
        Relaxed: {a2, N} are merged into W; cut-set {A (value 2, ub 16), P (value 1, ub 16)}.
turn 2  pop A (value 2 > 1).  Relaxed: exact chain a2, a3, k2; {t5, u5} merged into t5; cut-set {k2}: k2 is enqueued (ub 15), the
        threshold (b, depth 4) ↦ (0, unexplored) is recorded.                       fringe [k2 (ub 15), P (ub 16)]
turn 3  pop P.  Restricted: N, keeps pE, E = (e, depth 4, 0): the checker evicts k2 = (b, 0) — E dominates it — and records E; the
        decoy: 5.  Relaxed: {pE, pF} merged into J = (value 1, inexact), rule-maximal; children of J: S = (value 0) — the image of
        E, at least as good as E — and (b, value 0).  `_filter_with_cache` prunes (b, 0) with the threshold of turn 2;
        S is not expanded: fast_upper_bound(S) + 0 = 5 ≤ incumbent.  No terminal node, `is_exact() = true`, nothing enqueued.
turn 4  pop k2: `must_explore` accepts it; `_filter_with_dominance` drops the root of its diagram (dominated by E).
        fringe [], incumbent 5: `is_exact = true`, `best_value = Some(5)`.
```

Replay on the real library (crate `/tmp/agent_compat/rs`): `Some(5)` with cache + checker (`SeqCachingSolverLel/Fc`, both fringes,
`ParCachingSolverLel/Fc` with one thread, `DefaultCachingSolver`), `Some(10)` with `EmptyCache` or `EmptyDominanceChecker`. -/
set_option linter.unusedSectionVars false
set_option linter.unusedVariables false
namespace Ddo.C10d.Shadow
open Ddo Ddo.C01 Ddo.Closed Ddo.C09 Ddo.C10 Ddo.C10c Ddo.C10d Ddo.C10d.Grid

def sv (dedup : Bool) (kind : CutsetKind) : SolverCfg Int := Grid.sv T ws dedup kind
def dv (dedup : Bool) (kind : CutsetKind) : DSolverCfg Int Int := Grid.dv T ws dedup kind

/-- a protected optimal strategy exists (the rule satisfies the simulation condition) -/
theorem undomOpt : UndomOpt (rule T) (prob T) (Hof T hl) 10 :=
  undomOpt_of_sim (rule T) (prob T) (Hof T hl) 2 10 (dims2 T) (wellFormed false .lel).pot (wellFormed false .lel).nv staticOrder
    simAll.sim opt10

/-- the potential is **not** monotone in the rule's order: the shadow `S = 9` is at least as good as `e = 5`, the potential of `e` at
    depth 4 is 10, that of `S` is `−∞` -/
theorem not_potMono : ¬ PotMono (rule T) 2 (Hof T hl) := by
  intro h
  have hge : GeItem (rule T) 2 9 0 5 0 := (geItem_iff T 9 0 5 0).mpr ⟨by decide, Int.le_refl 0⟩
  have := h 4 9 0 5 0 hge
  have e1 : Hof T hl 4 5 = some 10 := by decide
  have e2 : Hof T hl 4 9 = none := by decide
  rw [e1, e2] at this
  exact absurd this (by decide)

/-- the rough upper bound of the shadow state is below its value-to-go (10 at depth 4): legal for `WellFormed`, which binds the bound
    to the potential, and the potential to the value-to-go on exactly reached states only -/
theorem rub_below_value : (rlx T).rub 9 = 5 ∧ Grid.V T 4 9 = some 10 ∧ Grid.V T 4 5 = some 10 ∧ Grid.optimum T = some 10 := by decide

/-! ## the runs -/

def after (dedup : Bool) (kind : CutsetKind) (j : Nat) : KDSt Int Int :=
  (dv dedup kind).kdsolveLoop j (KDSt.init (dv dedup kind))

/-- the cache the compilations of the next turn consult -/
def cacheIn (s : KDSt Int Int) : Cache Int := (cleanCache T.n s.st.openByLayer T.n s.st.firstActive s.cache).getD s.cache
/-- the restricted compilation of the next turn (plain fringe, last-exact-layer cut-set) -/
def compR (s : KDSt Int Int) := (popMax s.st.fringe).map (fun Nr => (dv false .lel).kdcompR (cacheIn s) s.store Nr.1 s.st.bestLb)
def storeR (s : KDSt Int Int) : DomStore Int Int := match compR s with | some c => c.2.2.2.store | none => s.store
/-- the relaxed compilation of the next turn (when the restricted one changes neither the incumbent nor the cache) -/
def compX (s : KDSt Int Int) := (popMax s.st.fringe).map (fun Nr => (dv false .lel).kdcompX (cacheIn s) (storeR s) Nr.1 s.st.bestLb)
/-- `(best value, is_exact, size of the cut-set, number of dominated verdicts)` of a compilation -/
def summary (c : Option (Outcome × Result Int × Option (Result Int) × DD Int Int)) : Option (Option Int × Bool × Nat × Nat) :=
  c.map (fun c => (c.2.1.bestValue, c.2.1.isExact, c.2.1.cutset.length, c.2.2.2.ndom))
/-- the nodes of a built diagram, layer by layer: `(state, value, exact, pruned by the cache)` -/
def ddView (dd : DD Int Int) : List (List (Int × Int × Bool × Bool)) :=
  (dd.layers ++ [dd.next]).map (fun ly => ly.map (fun n => (n.state, n.value, n.isExact, n.cache)))
/-- the rough upper bounds read in a layer (`iMax`: the node was not handed to the expansion) -/
def rubView (dd : DD Int Int) (l : Nat) : List (Int × Int) := ((dd.layers ++ [dd.next]).getD l []).map (fun n => (n.state, n.rub))
def xLayers (s : KDSt Int Int) : Option (List (List (Int × Int × Bool × Bool))) := (compX s).map (fun c => (ddView c.2.2.2).drop 2)
def xRubs (s : KDSt Int Int) (l : Nat) : Option (List (Int × Int)) := (compX s).map (fun c => rubView c.2.2.2 l)

set_option maxRecDepth 100000 in
/-- **cache + dominance: four turns, empty fringe, `is_exact = true`, `best_value = Some(5)`**; the optimum is 10 — both fringes, both
    cut-set kinds, nothing panics -/
theorem joint_value : ∀ dedup ∈ [false, true], ∀ kind ∈ [CutsetKind.lel, CutsetKind.frontier],
    (after dedup kind 8).st.fringe.length = 0 ∧ (after dedup kind 8).st.completion = (true, some 5) ∧
    (after dedup kind 8).st.explored = 4 ∧ (after dedup kind 8).st.crashed = false := by decide

set_option maxRecDepth 100000 in
/-- after turn 1: incumbent 5; `A = (state 1, value 2)` and `P = (state 2, value 1)` are open with the same bound 16; the checker
    holds `k2 = (b = 6, value 0)` at depth 4 -/
theorem stage1 : Twin.viewKD (after false .lel 1) = ([(2, 1, 16, 1), (1, 2, 16, 1)], 5) ∧
    Twin.storeAt (after false .lel 1) 4 = [(0, [(6, 0)])] := by decide

set_option maxRecDepth 100000 in
/-- after turn 2 (`A`): `k2 = (6, value 0, ub 15, depth 4)` and `P` (ub 16) are open: `P` is the only best-first choice; the cache holds
    `(6, depth 4) ↦ (0, unexplored)`, justified by the open `k2` -/
theorem stage2 : Twin.viewKD (after false .lel 2) = ([(6, 0, 15, 4), (2, 1, 16, 1)], 5) ∧
    Twin.cacheAtKD (after false .lel 2) 4 = [(6, 0, false)] ∧ Twin.storeAt (after false .lel 2) 4 = [(0, [(6, 0)])] := by decide

set_option maxRecDepth 100000 in
/-- turn 3 pops `P`.  Restricted: reaches `E = (5, depth 4, 0)`, which replaces `k2` in the checker; value 5, no verdict.  Relaxed
    (`stage3x`): the layer of depth 3 is `pE = 3, pF = 4` (merged away) and `J = (8, value 1, inexact)`; the layer of depth 4 is the shadow
    `S = (9, value 0, inexact, rough upper bound 5: not expanded)` and `(6, value 0, inexact)` **pruned by the cache**; no terminal
    node, `is_exact = true`, empty cut-set, no verdict -/
theorem stage3 :
    summary (compR (after false .lel 2)) = some (some 5, false, 0, 0) ∧
    (storeR (after false .lel 2)).layers.getD 4 [] = [(0, [(5, 0)])] := by decide

set_option maxRecDepth 100000 in
/-- turn 3, the relaxed compilation of `P` -/
theorem stage3x :
    summary (compX (after false .lel 2)) = some (none, true, 0, 0) ∧
    xLayers (after false .lel 2) =
      some [[(3, 1, true, false), (4, 0, true, false), (8, 1, false, false)], [(9, 0, false, false), (6, 0, false, true)], [], []] ∧
    xRubs (after false .lel 2) 3 = some [(9, 5), (6, iMax)] := by decide

set_option maxRecDepth 100000 in
/-- after turn 3 only `k2` is open; the checker holds `E = (5, value 0)` at depth 4 -/
theorem stage3b : Twin.viewKD (after false .lel 3) = ([(6, 0, 15, 4)], 5) ∧
    Twin.storeAt (after false .lel 3) 4 = [(0, [(5, 0)])] := by decide

set_option maxRecDepth 100000 in
/-- turn 4 pops `k2`: `must_explore` accepts it, the checker drops the root of its diagram (one `dominated` verdict, exact, no value) -/
theorem stage4 : (cacheIn (after false .lel 3)).mustExplore 6 4 0 = some true ∧
    summary (compR (after false .lel 3)) = some (none, true, 0, 1) := by decide

set_option maxRecDepth 100000 in
theorem stage_end : Twin.viewKD (after false .lel 4) = ([], 5) := by decide

/-! ## each mechanism alone is correct on this model (the two closed theorems apply) -/

theorem dom_only_correct (dedup : Bool) (kind : CutsetKind) (t : DSt Int Int)
    (ht : DRun (dv dedup kind) (dv dedup kind).init t) (hend : t.st.fringe = []) : t.st.completion = (true, some 10) :=
  (((dominance_solver_optimal (dv dedup kind) (Hof T hl) 10 80 10 (wellFormed dedup kind) opt10 undomOpt).2.2 t ht).2 hend).2.2

theorem cache_only_correct (dedup : Bool) (kind : CutsetKind) (t : KSt Int)
    (ht : KRun (sv dedup kind) (KSt.init (sv dedup kind)) t) (hend : t.st.fringe = []) : t.st.completion = (true, some 10) :=
  ((((caching_solver_correct_bestfirst (sv dedup kind) (Hof T hl) 10 80 (wellFormed dedup kind)).2.2 t ht).2.2 hend).1 10 opt10).2.2

theorem joint_run (dedup : Bool) (kind : CutsetKind) :
    ∃ t, KDRun (dv dedup kind) (KDSt.init (dv dedup kind)) t ∧ t.st.fringe = [] ∧ t.st.crashed = false ∧
      t.st.completion = (true, some 5) := by
  have h := joint_value dedup (by cases dedup <;> simp) kind (by cases kind <;> simp)
  exact ⟨_, kdsolveLoop_run (dv dedup kind) 8 _, List.eq_nil_of_length_eq_zero h.1, h.2.2.2, h.2.1⟩

/-- **FINDING D18, packaged**: well-formed model, optimum 10, static order, a rule that satisfies the simulation condition for all pairs
    of states and values, **a merge operator that is maximal for the rule**; cache alone: every run ends with 10; checker alone: every
    run ends with 10; both: a best-first run (forced pop order) ends with `is_exact = true`, `Some(5)` — every fringe, every cut-set
    kind.  The potential is not monotone in the rule's order. -/
theorem finding (dedup : Bool) (kind : CutsetKind) :
    WellFormed (dv dedup kind).sv (Hof T hl) 10 80 ∧ (Hof T hl 0 (prob T).init).addI (prob T).initVal = some 10 ∧
    (∀ s, (rule T).dims s = 2) ∧ StaticOrder (prob T) ∧ SimAll (rule T) (prob T) 2 ∧ MergeCompat (rule T) (rlx T) 2 ∧
    UndomOpt (rule T) (prob T) (Hof T hl) 10 ∧ ¬ PotMono (rule T) 2 (Hof T hl) ∧
    (∀ t, KRun (sv dedup kind) (KSt.init (sv dedup kind)) t → t.st.fringe = [] → t.st.completion = (true, some 10)) ∧
    (∀ t, DRun (dv dedup kind) (dv dedup kind).init t → t.st.fringe = [] → t.st.completion = (true, some 10)) ∧
    (∃ t, KDRun (dv dedup kind) (KDSt.init (dv dedup kind)) t ∧ t.st.fringe = [] ∧ t.st.crashed = false ∧
      t.st.completion = (true, some 5)) :=
  ⟨wellFormed dedup kind, opt10, dims2 T, staticOrder, simAll, mergeCompat, undomOpt, not_potMono, cache_only_correct dedup kind,
    dom_only_correct dedup kind, joint_run dedup kind⟩

end Ddo.C10d.Shadow

namespace Ddo.C10d
open Ddo Ddo.C01 Ddo.Closed Ddo.C09 Ddo.C10 Ddo.C10c Ddo.C10d.Grid

/-- **`Ddo.C10c.CachingDominanceCompat` is false**: the joint statement fails for a `SimAll` rule with a static order and a
    rule-maximal merge operator (model `Shadow`: the rough upper bound of a state that is never reached exactly cuts the relaxed
    image of the protected path) -/
theorem cachingDominanceCompat_false : ¬ CachingDominanceCompat := by
  intro h
  have hJ := h Int Int (Shadow.dv false .lel) (Hof Shadow.T Shadow.hl) 10 80 10 2 (Shadow.wellFormed false .lel) Shadow.opt10
    (dims2 Shadow.T) Shadow.staticOrder Shadow.simAll Shadow.mergeCompat
  obtain ⟨t, ht, hend, _, hc⟩ := Shadow.joint_run false .lel
  have := ((hJ.2.2 t ht).2.2 hend).2.2
  rw [hc] at this
  exact absurd this (by decide)

end Ddo.C10d

#print axioms Ddo.C10d.Shadow.undomOpt
#print axioms Ddo.C10d.Shadow.not_potMono
#print axioms Ddo.C10d.Shadow.rub_below_value
#print axioms Ddo.C10d.Shadow.joint_value
#print axioms Ddo.C10d.Shadow.stage1
#print axioms Ddo.C10d.Shadow.stage2
#print axioms Ddo.C10d.Shadow.stage3
#print axioms Ddo.C10d.Shadow.stage3x
#print axioms Ddo.C10d.Shadow.stage3b
#print axioms Ddo.C10d.Shadow.stage4
#print axioms Ddo.C10d.Shadow.stage_end
#print axioms Ddo.C10d.Shadow.finding
#print axioms Ddo.C10d.cachingDominanceCompat_false
