import DdoModel.Proofs.CacheClosedDefs
import DdoModel.Proofs.AnyOrderLayered
/-! C09 / D14 — **counter-example search for the no-cap caching solver** — since the repair of D14 *the* solver of this
development, `SolverCfg.kturn` of `Proofs/CacheClosedDefs.lean` (the search was written when it was the variant `kturnNC`
of the then-capped model) — on the table family `Ddo.C09.Layered` of `Proofs/AnyOrderLayered.lean`.

Executable code only (no theorem depends on it).  `searchMain` is the entry point of a small driver (`lean --run`, or a
compiled executable that imports this module): it draws random tables, keeps those that pass `Layered.check` (hence are
`WellFormed`, `Layered.wellFormed_ofTables`), and for each of them, each cut-set kind, each fringe and a random width
function `(depth, state) ↦ 1 … 3` runs the solver over

* the whole tree of pop orders (depth-first, up to a budget of complete runs),
* deterministic orders (breadth-first, depth-first, smallest-bound-first, FIFO, LIFO, smallest-value-first, …),
* random schedules,

(mode 0: random tables; mode 1: point mutants of the three known counter-examples of the capped solver; mode 2: evolution of
a pool of random tables towards "conditional bounds") and compares the value held at the empty fringe with the optimum
`Layered.optimum` (the dynamic program).  `cap = true` runs the *capped* pre-fix solver (`SolverCfg.kturnCapped` of
`Proofs/CacheClosedDefs.lean`) over the same tree — the calibration: the search must rediscover `anyOrderOpt_false` there.
Also counted: best-first runs of the no-cap solver whose sequence of popped bounds increases (side question (i) of
`Props/C09d.lean`). -/
set_option linter.unusedVariables false
namespace Ddo.C09.NoCapSearch
open Ddo Ddo.C01 Ddo.Closed Ddo.C09 Ddo.C09.Layered

/-! ## a small deterministic generator (splitmix64) -/

structure Rng where
  s : UInt64

def Rng.step (r : Rng) : Rng × UInt64 :=
  let s := r.s + 0x9E3779B97F4A7C15
  let z := s
  let z := (z ^^^ (z >>> 30)) * 0xBF58476D1CE4E5B9
  let z := (z ^^^ (z >>> 27)) * 0x94D049BB133111EB
  (⟨s⟩, z ^^^ (z >>> 31))

/-- a number in `0 … k-1` -/
def Rng.below (r : Rng) (k : Nat) : Rng × Nat :=
  let (r, z) := r.step
  (r, if k = 0 then 0 else (z >>> 11).toNat % k)

def Rng.listOf (r : Rng) (len : Nat) (f : Rng → Rng × α) : Rng × List α :=
  (List.range len).foldl (fun (acc : Rng × List α) _ => let (r, a) := f acc.1; (r, a :: acc.2)) (r, [])

/-! ## random tables -/

/-- a cost: mostly small, sometimes a large reward (more often on the last variables: "late rewards") -/
def genCost (late : Bool) (mode : Nat) (r : Rng) : Rng × Int :=
  let (r, a) := r.below 100
  match mode with
  | 0 => -- sparse: mostly 0
    if a < 60 then (r, 0) else if a < 85 then (r, 1) else if a < 95 then (r, 2)
    else if late then (let (r, b) := r.below 8; (r, (b : Int) + 3)) else (r, 3)
  | 1 => -- dense small
    let (r, b) := r.below 4; (r, (b : Int))
  | _ => -- signed
    let (r, b) := r.below 7; (r, (b : Int) - 3)

/-- sort a column (the entries of one variable and one decision, by state) so that it is monotone in the state -/
def sortNat (l : List Nat) : List Nat := (l.toArray.qsort (· < ·)).toList
def sortInt (l : List Int) : List Int := (l.toArray.qsort (· < ·)).toList

/-- a random table: `n` variables, `m` states; `mono = true`: transitions and costs monotone in the state by construction
    (always passes `check`), otherwise unconstrained (rejection by `check`) -/
def genTab (r : Rng) (n m mode : Nat) (mono : Bool) : Rng × Tab :=
  -- per variable, per decision: a column of `m` next states and `m` costs
  let (r, cols) := r.listOf (n * 2) (fun r =>
    let (r, k) := r.below 1000
    let (r, ts) := r.listOf m (fun r => r.below m)
    let (r, cs) := r.listOf m (genCost true mode)
    (r, (if mono then sortNat ts else ts, if mono then sortInt cs else cs)))
  let colA := cols.toArray
  let trl := (List.range n).flatMap (fun k => (List.range m).flatMap (fun s => [0, 1].map (fun b =>
    ((colA.getD (k * 2 + b) ([], [])).1).getD s 0)))
  let cl := (List.range n).flatMap (fun k => (List.range m).flatMap (fun s => [0, 1].map (fun b =>
    ((colA.getD (k * 2 + b) ([], [])).2).getD s 0)))
  let T0 : Tab := { n := n, m := m, trl := trl, cl := cl, rub := 0 }
  -- the rough upper bound: the largest value-to-go plus a random slack (0: tight at some depth)
  let hmax := (List.range (n + 1)).foldl (fun a j => (List.range m).foldl (fun a s => max a (hfrom T0 j s)) a) 0
  let (r, sl) := r.below 4
  let slack : Int := match sl with | 0 => 0 | 1 => 1 | 2 => 3 | _ => 20
  (r, { T0 with rub := hmax + slack })

def costBound (T : Tab) : Int := T.cl.foldl (fun a x => max a (max x (-x))) 0

/-! ## running the solvers -/

def turnFn (cap : Bool) (sv : SolverCfg Int) (s : KSt Int) (N : SubP Int) (rest : List (SubP Int)) : Option (KSt Int) :=
  if cap then sv.kturnCapped s N rest else sv.kturn s N rest

structure Stats where
  runs : Nat := 0          -- complete runs (empty fringe reached)
  turns : Nat := 0
  bad : Nat := 0           -- complete runs that do not hold the optimum (or crashed)
  panics : Nat := 0        -- turns answering `none`
  cond : Nat := 0          -- visited states in which an open sub-problem that matters has a bound below its potential
  refused : Nat := 0       -- visited states in which `must_explore` refuses an open sub-problem that beats the incumbent
  witness : Option (List Nat) := none
  deriving Repr

def Stats.add (a b : Stats) : Stats :=
  { runs := a.runs + b.runs, turns := a.turns + b.turns, bad := a.bad + b.bad, panics := a.panics + b.panics,
    cond := a.cond + b.cond, refused := a.refused + b.refused, witness := a.witness <|> b.witness }

/-- some open sub-problem whose potential beats the incumbent has a bound below its potential (its bound is only valid
    modulo what the cache covers) -/
def hasCond (T : Tab) (s : KSt Int) : Bool :=
  s.st.fringe.any (fun c => let pot := c.value + hfrom T (T.n - c.depth) (Layered.st T c.state)
    decide (pot > s.st.bestLb ∧ c.ub < pot))

/-- some open sub-problem whose bound beats the incumbent is refused by `must_explore` -/
def hasRefused (s : KSt Int) : Bool :=
  s.st.fringe.any (fun c => decide (c.ub > s.st.bestLb) && (s.cache.mustExplore c.state c.depth c.value == some false))

def visit (T : Tab) (s : KSt Int) (stt : Stats) : Stats :=
  { stt with cond := stt.cond + (if hasCond T s then 1 else 0), refused := stt.refused + (if hasRefused s then 1 else 0) }

/-- depth-first enumeration of the tree of pop orders, `budget` = complete runs still allowed -/
def dfs (T : Tab) (cap : Bool) (sv : SolverCfg Int) (opt : Int) : Nat → KSt Int → List Nat → Nat × Stats → Nat × Stats
  | 0, _, _, acc => acc
  | fuel + 1, s, schedRev, (budget, stt) =>
    if budget = 0 then (0, stt)
    else if s.st.fringe.isEmpty then
      let ok := s.st.bestLb == opt && !s.st.crashed
      (budget - 1, { stt with runs := stt.runs + 1, bad := stt.bad + (if ok then 0 else 1),
                              witness := stt.witness <|> (if ok then none else some schedRev.reverse) })
    else
      (List.range s.st.fringe.length).foldl (fun (acc : Nat × Stats) i =>
        if acc.1 = 0 then acc
        else match popAt s.st.fringe i with
          | none => acc
          | some (N, rest) =>
            match turnFn cap sv s N rest with
            | none => (acc.1, { acc.2 with panics := acc.2.panics + 1, witness := acc.2.witness <|> some (i :: schedRev).reverse })
            | some t => dfs T cap sv opt fuel t (i :: schedRev) (acc.1, { acc.2 with turns := acc.2.turns + 1 })) (budget, visit T s stt)

/-- index of the entry minimising `key` (first one) -/
def argmin (l : List (SubP Int)) (key : SubP Int → Int) : Nat :=
  let rec go : List (SubP Int) → Nat → Nat → Int → Nat
    | [], _, bi, _ => bi
    | c :: r, i, bi, bk => if key c < bk then go r (i + 1) i (key c) else go r (i + 1) bi bk
  match l with
  | [] => 0
  | c :: r => go r 1 0 (key c)

/-- the deterministic pop orders (as a choice of index in the fringe) -/
def strategies : List (String × (List (SubP Int) → Nat)) :=
  [("bfs-hi", fun l => argmin l (fun c => (c.depth : Int) * 1000 - c.state)),
   ("bfs-lo", fun l => argmin l (fun c => (c.depth : Int) * 1000 + c.state)),
   ("bfs-worst", fun l => argmin l (fun c => (c.depth : Int) * 100000 + c.ub)),
   ("dfs-hi", fun l => argmin l (fun c => -(c.depth : Int) * 1000 - c.state)),
   ("dfs-worst", fun l => argmin l (fun c => -(c.depth : Int) * 100000 + c.ub)),
   ("worst", fun l => argmin l (fun c => c.ub * 1000 + c.depth)),
   ("worst-deep", fun l => argmin l (fun c => c.ub * 1000 - c.depth)),
   ("minval", fun l => argmin l (fun c => c.value * 1000 + c.depth)),
   ("lifo", fun _ => 0),
   ("fifo", fun l => l.length - 1)]

/-- a run driven by a choice function (deterministic strategy, or random through the generator threaded in `σ`) -/
def runWith (cap : Bool) (sv : SolverCfg Int) (opt : Int) (choose : σ → List (SubP Int) → σ × Nat) :
    Nat → σ → KSt Int → List Nat → Stats → σ × Stats
  | 0, g, _, _, stt => (g, stt)
  | fuel + 1, g, s, schedRev, stt =>
    if s.st.fringe.isEmpty then
      let ok := s.st.bestLb == opt && !s.st.crashed
      (g, { stt with runs := stt.runs + 1, bad := stt.bad + (if ok then 0 else 1),
                     witness := stt.witness <|> (if ok then none else some schedRev.reverse) })
    else
      let (g, i) := choose g s.st.fringe
      match popAt s.st.fringe i with
      | none => (g, stt)
      | some (N, rest) =>
        match turnFn cap sv s N rest with
        | none => (g, { stt with panics := stt.panics + 1, witness := stt.witness <|> some (i :: schedRev).reverse })
        | some t => runWith cap sv opt choose fuel g t (i :: schedRev) { stt with turns := stt.turns + 1 }

/-- best-first run of the no-cap solver: is the sequence of popped bounds non-increasing?  returns `(complete, value ok,
    monotone)` -/
def bestFirstNC (sv : SolverCfg Int) (opt : Int) : Nat → KSt Int → Int → Bool → Bool × Bool × Bool
  | 0, _, _, mono => (false, false, mono)
  | fuel + 1, s, last, mono =>
    match popMax s.st.fringe with
    | none => (true, s.st.bestLb == opt && !s.st.crashed, mono)
    | some (N, rest) =>
      match sv.kturn s N rest with
      | none => (false, false, mono)
      | some t => bestFirstNC sv opt fuel t N.ub (mono && decide (N.ub ≤ last))

structure Tally where
  models : Nat := 0
  rejected : Nat := 0
  configs : Nat := 0
  exhaustive : Nat := 0     -- configurations whose whole tree of pop orders was enumerated
  nc : Stats := {}
  cp : Stats := {}
  capBadModels : Nat := 0   -- models on which the capped solver loses the optimum for some order
  bfRuns : Nat := 0
  bfBad : Nat := 0
  bfNonMono : Nat := 0
  deriving Repr

def Tally.add (a b : Tally) : Tally :=
  { models := a.models + b.models, rejected := a.rejected + b.rejected, configs := a.configs + b.configs,
    exhaustive := a.exhaustive + b.exhaustive, nc := a.nc.add b.nc, cp := a.cp.add b.cp,
    capBadModels := a.capBadModels + b.capBadModels, bfRuns := a.bfRuns + b.bfRuns,
    bfBad := a.bfBad + b.bfBad, bfNonMono := a.bfNonMono + b.bfNonMono }

def showTab (T : Tab) : String := s!"n={T.n} m={T.m} rub={T.rub} trl={T.trl} cl={T.cl}"

/-- a random width function `(depth, state) ↦ width`: constant 1, constant 2, 1 on the first `k` depths and 2 below (the
    shape of `Counter`), or random `1 … 3` per entry -/
def genWs (r : Rng) (T : Tab) : Rng × List Nat :=
  let len := (T.n + 1) * T.m
  let (r, wm) := r.below 6
  match wm with
  | 0 => (r, List.replicate len 1)
  | 1 => (r, List.replicate len 2)
  | 2 | 3 =>
    let (r, k) := r.below 4
    (r, (List.range len).map (fun i => if i / T.m < k then 1 else 2))
  | _ => r.listOf len (fun r => let (r, w) := r.below 3; (r, w + 1))

/-- one model: all four configurations, both solvers; `ws0` = the widths to use (`none`: drawn per configuration) -/
def oneModel (r : Rng) (T : Tab) (ws0 : Option (List Nat)) (budget nrand : Nat) (withCap : Bool) (tally : Tally)
    (log : Array String) : Rng × Tally × Array String := Id.run do
  let opt := optimum T
  let mut r := r
  let mut tally := { tally with models := tally.models + 1 }
  let mut log := log
  let mut capBad := false
  for (dedup, kind) in [(false, CutsetKind.lel), (false, CutsetKind.frontier), (true, CutsetKind.lel), (true, CutsetKind.frontier)] do
    let (r1, wsr) := genWs r T
    r := r1
    let ws := ws0.getD wsr
    let sv := Layered.sv T ws dedup kind
    let s0 := KSt.init sv
    tally := { tally with configs := tally.configs + 1 }
    for cap in (if withCap then [false, true] else [false]) do
      let (left, st1) := dfs T cap sv opt 64 s0 [] (budget, {})
      let mut stt := st1
      if left > 0 && !cap then tally := { tally with exhaustive := tally.exhaustive + 1 }
      if left = 0 then
        -- the tree was not exhausted: deterministic strategies and random schedules
        for (_, f) in strategies do
          let (_, s2) := runWith cap sv opt (fun (u : Unit) l => (u, f l)) 64 () s0 [] {}
          stt := stt.add s2
        for _ in List.range nrand do
          let (g, s2) := runWith cap sv opt (fun (g : Rng) l => g.below l.length) 64 r s0 [] {}
          r := g
          stt := stt.add s2
      if cap then
        tally := { tally with cp := tally.cp.add { stt with witness := none } }
        if stt.bad > 0 then
          if !capBad && tally.capBadModels < 5 then
            log := log.push s!"CAP-FAIL dedup={dedup} kind={repr kind} ws={ws} sched={stt.witness} opt={opt} {showTab T}"
          capBad := true
      else
        tally := { tally with nc := tally.nc.add { stt with witness := none } }
        if stt.bad > 0 || stt.panics > 0 then
          log := log.push s!"NOCAP-FAIL dedup={dedup} kind={repr kind} ws={ws} sched={stt.witness} opt={opt} bad={stt.bad} panics={stt.panics} {showTab T}"
    -- best-first, no cap: value and monotonicity of the popped bounds
    let (c, ok, mono) := bestFirstNC sv opt 64 s0 iMax true
    tally := { tally with bfRuns := tally.bfRuns + 1, bfBad := tally.bfBad + (if c && ok then 0 else 1),
                          bfNonMono := tally.bfNonMono + (if mono then 0 else 1) }
    if !mono && tally.bfNonMono ≤ 2 then
      log := log.push s!"BF-NONMONO dedup={dedup} kind={repr kind} ws={ws} opt={opt} {showTab T}"
    if !(c && ok) then
      log := log.push s!"BF-FAIL dedup={dedup} kind={repr kind} ws={ws} opt={opt} {showTab T}"
  if capBad then tally := { tally with capBadModels := tally.capBadModels + 1 }
  return (r, tally, log)

/-- `count` accepted random models from `seed`; sizes `n ∈ nlo … nhi`, `m ∈ 2 … 4` -/
def search (seed count budget nrand nlo nhi : Nat) (withCap : Bool) : Tally × Array String := Id.run do
  let mut r : Rng := ⟨seed.toUInt64 * 0x2545F4914F6CDD1D + 12345⟩
  let mut tally : Tally := {}
  let mut log : Array String := #[]
  let mut tries := 0
  while tally.models < count && tries < count * 400 do
    tries := tries + 1
    let (r1, n) := r.below (nhi - nlo + 1)
    let (r2, m) := r1.below 3
    let (r3, mode) := r2.below 3
    let (r4, mo) := r3.below 3
    let (r5, T) := genTab r4 (n + nlo) (m + 2) mode (mo = 0)
    r := r5
    if check T (costBound T) then
      let (r6, t2, l2) := oneModel r T none budget nrand withCap tally log
      r := r6; tally := t2; log := l2
    else
      tally := { tally with rejected := tally.rejected + 1 }
  return (tally, log)

/-! ## mutation search around the known counter-examples of the capped solver -/

/-- the three instances of `Proofs/AnyOrderLayered.lean` on which the capped solver loses the optimum -/
def bases : List (Tab × List Nat) :=
  [(Layered.Counter.T, Layered.Counter.ws), (Layered.Fixed.T, Layered.Fixed.ws), (Layered.Hand.T, Layered.Hand.ws)]

/-- `k` random point mutations of the transition table, the cost table and the widths -/
def mutate (r : Rng) (T : Tab) (ws : List Nat) (k : Nat) : Rng × Tab × List Nat :=
  (List.range k).foldl (fun (acc : Rng × Tab × List Nat) _ =>
    let (r, T, ws) := acc
    let (r, what) := r.below 10
    if what < 4 then
      let (r, i) := r.below T.trl.length
      let (r, v) := r.below T.m
      (r, { T with trl := T.trl.set i v }, ws)
    else if what < 8 then
      let (r, i) := r.below T.cl.length
      let (r, v) := genCost (i * 3 > T.cl.length * 2) 0 r
      (r, { T with cl := T.cl.set i v }, ws)
    else
      let (r, i) := r.below ws.length
      let (r, v) := r.below 3
      (r, T, ws.set i (v + 1))) (r, T, ws)

/-- `count` accepted mutants from `seed` -/
def searchMut (seed count budget nrand kmax : Nat) (withCap : Bool) : Tally × Array String := Id.run do
  let mut r : Rng := ⟨seed.toUInt64 * 0x2545F4914F6CDD1D + 777⟩
  let mut tally : Tally := {}
  let mut log : Array String := #[]
  let mut tries := 0
  while tally.models < count && tries < count * 400 do
    tries := tries + 1
    let (r1, b) := r.below bases.length
    let (T0, ws0) := bases.getD b (Layered.Counter.T, Layered.Counter.ws)
    let (r2, k) := r1.below kmax
    let (r3, T, ws) := mutate r2 T0 ws0 (k + 1)
    r := r3
    -- the rough upper bound must keep dominating
    let hmax := (List.range (T.n + 1)).foldl (fun a j => (List.range T.m).foldl (fun a s => max a (hfrom T j s)) a) 0
    let T := { T with rub := max T.rub hmax }
    if check T (costBound T) then
      let (r6, t2, l2) := oneModel r T (some ws) budget nrand withCap tally log
      r := r6; tally := t2; log := l2
    else
      tally := { tally with rejected := tally.rejected + 1 }
  return (tally, log)

/-! ## evolution from random tables towards conditional bounds

The random family almost never reaches the regime in which the cap matters (an open sub-problem whose bound is below its
potential because the cache cut its image: `cond`).  Mode 2 evolves a pool of tables, starting from random ones: the fitness of
a genome `(tables, widths)` is what the exploration of its four configurations saw — states with a refused open sub-problem
(`refused`, the cache is active), states with a conditional bound (`cond`), orders on which the capped solver fails. -/

structure Genome where
  T : Tab
  ws : List Nat
  fit : Nat

def fitnessOf (before after : Tally) : Nat :=
  let cond := after.nc.cond - before.nc.cond
  let refused := after.nc.refused - before.nc.refused
  let capBad := after.cp.bad - before.cp.bad
  min refused 50 + 100 * min cond 50 + (if capBad > 0 then 10000 else 0)

/-- `count` evaluated genomes from `seed`; pool of `psize` -/
def searchEvo (seed count budget nrand psize nlo nhi : Nat) (seeded : Bool) : Tally × Array String := Id.run do
  let mut r : Rng := ⟨seed.toUInt64 * 0x2545F4914F6CDD1D + 4242⟩
  let mut tally : Tally := {}
  let mut log : Array String := #[]
  let mut pool : Array Genome := #[]
  let mut tries := 0
  if seeded then
    -- mode 3: the pool starts from the three known counter-examples of the capped solver and drifts away from them
    for (T, ws) in bases do
      let before := tally
      let (r6, t2, l2) := oneModel r T (some ws) budget nrand true tally log
      r := r6; tally := t2; log := l2
      pool := pool.push ⟨T, ws, fitnessOf before t2⟩
  while tally.models < count && tries < count * 400 do
    tries := tries + 1
    -- a candidate: a fresh random table while the pool fills up (and now and then later), otherwise a mutant of a pool member
    let (r0, fresh) := r.below 20
    r := r0
    let mut cand : Option (Tab × List Nat) := none
    if !seeded && (pool.size < psize || fresh = 0) then
      let (r1, n) := r.below (nhi - nlo + 1)
      let (r2, m) := r1.below 2
      let (r3, mode) := r2.below 2
      let (r4, T) := genTab r3 (n + nlo) (m + 3) mode false
      let T := { T with rub := T.rub + 10 }
      let (r5, ws) := genWs r4 T
      r := r5
      cand := some (T, ws)
    else
      -- tournament of three
      let (r1, i1) := r.below pool.size
      let (r2, i2) := r1.below pool.size
      let (r3, i3) := r2.below pool.size
      let g1 := pool.getD i1 ⟨Layered.Counter.T, Layered.Counter.ws, 0⟩
      let g2 := pool.getD i2 g1
      let g3 := pool.getD i3 g1
      let g := if g1.fit ≥ g2.fit && g1.fit ≥ g3.fit then g1 else if g2.fit ≥ g3.fit then g2 else g3
      let (r4, k) := r3.below 3
      let (r5, T, ws) := mutate r4 g.T g.ws (k + 1)
      r := r5
      let hmax := (List.range (T.n + 1)).foldl (fun a j => (List.range T.m).foldl (fun a s => max a (hfrom T j s)) a) 0
      cand := some ({ T with rub := max T.rub hmax }, ws)
    match cand with
    | none => pure ()
    | some (T, ws) =>
      if check T (costBound T) then
        let before := tally
        let (r6, t2, l2) := oneModel r T (some ws) budget nrand true tally log
        r := r6; tally := t2; log := l2
        let fit := fitnessOf before t2
        if pool.size < psize then pool := pool.push ⟨T, ws, fit⟩
        else
          -- replace a random member that is not fitter (the pool drifts, it does not only climb)
          let (r7, j) := r.below pool.size
          r := r7
          if fit ≥ (pool.getD j ⟨T, ws, 0⟩).fit then pool := pool.set! j ⟨T, ws, fit⟩
      else
        tally := { tally with rejected := tally.rejected + 1 }
  let best := pool.foldl (fun a g => max a g.fit) 0
  let fitSum := pool.foldl (fun a g => a + g.fit) 0
  let dist := fun (g : Genome) => bases.foldl (fun a (b : Tab × List Nat) =>
    if b.1.m = g.T.m then min a (((g.T.trl.zip b.1.trl).filter (fun p => p.1 != p.2)).length + ((g.T.cl.zip b.1.cl).filter (fun p => p.1 != p.2)).length) else a) 1000
  let dsum := pool.foldl (fun a g => a + dist g) 0
  log := log.push s!"EVO pool={pool.size} bestFit={best} meanFit={fitSum / max 1 pool.size} meanDistanceFromBases={dsum / max 1 pool.size}"
  return (tally, log)

/-- `args = [mode (0 random, 1 mutation, 2 evolution from random tables, 3 evolution from the known counter-examples), seed, count, budget, nrand, nlo / kmax, nhi, withCap]` -/
def searchMain (args : List String) : IO UInt32 := do
  let a := args.map String.toNat!
  let mode := a.getD 0 0
  let seed := a.getD 1 1
  let count := a.getD 2 100
  let budget := a.getD 3 200
  let nrand := a.getD 4 50
  let nlo := a.getD 5 4
  let nhi := a.getD 6 7
  let withCap := a.getD 7 1 != 0
  -- sanity: the capped solver loses the optimum on `Counter` breadth-first, the no-cap one does not
  let svC := Layered.Counter.sv false .lel
  let bfs := fun (l : List (SubP Int)) => argmin l (fun c => (c.depth : Int) * 1000 - c.state)
  let (_, sc) := runWith true svC 10 (fun (u : Unit) l => (u, bfs l)) 64 () (KSt.init svC) [] {}
  let (_, sn) := runWith false svC 10 (fun (u : Unit) l => (u, bfs l)) 64 () (KSt.init svC) [] {}
  IO.println s!"sanity Counter breadth-first: capped runs={sc.runs} bad={sc.bad} sched={sc.witness}; no-cap runs={sn.runs} bad={sn.bad} turns={sn.turns}"
  let chunk := if mode ≥ 2 then count else 50
  let mut done := 0
  let mut total : Tally := {}
  let mut k := 0
  while done < count do
    let c := min chunk (count - done)
    let (t, log) := if mode = 0 then search (seed * 100000 + k) c budget nrand nlo nhi withCap
                    else if mode = 1 then searchMut (seed * 100000 + k) c budget nrand nlo withCap
                    else searchEvo (seed * 100000 + k) c budget nrand 40 nlo nhi (mode = 3)
    for l in log do IO.println l
    total := total.add t
    done := done + t.models
    k := k + 1
    if k % 10 = 0 || done ≥ count then
      IO.println s!"progress mode={mode} seed={seed} models={total.models} rejected={total.rejected} configs={total.configs} exhaustive={total.exhaustive} | nocap runs={total.nc.runs} turns={total.nc.turns} bad={total.nc.bad} panics={total.nc.panics} cond={total.nc.cond} refused={total.nc.refused} | capped runs={total.cp.runs} bad={total.cp.bad} badModels={total.capBadModels} | bestfirst-nocap runs={total.bfRuns} bad={total.bfBad} nonmono={total.bfNonMono}"
      (← IO.getStdout).flush
    if t.models = 0 then break
  return 0

end Ddo.C09.NoCapSearch
