import DdoModel.Props.C01d
import DdoModel.Props.C03b
/-! Helpers for `Props/C03c.lean`: closing the composition "diagram model ∘ concrete parallel solver model".

* `okRm` / `okXm`: the compilation outcomes of the parallel system are no longer arbitrary contract-abiding answers but
  **the answers of the diagram model** `compile` (`DdoModel/Mdd.lean`) for the node in hand and the (stale) incumbent the
  worker read; `PStep` / `PRun`: the instance of `ParSys.Step` / `ParSys.Run` with these;
* `PCInv`: the optimum-free side conditions of the diagram theorems as an invariant of the parallel system (every fringe
  entry and every node in hand is reached exactly by a permutation of its path with exactly its value; the incumbent — and
  hence every stale copy a worker read — is in `[isize::MIN, B]`; what a worker carries between two sections *is* an answer
  of the diagram model), preserved by every section of every worker in every interleaving (`pstep_pcinv`);
* `okR'` / `okX'`: the model answers together with these side conditions; they imply the contracts `OkR` / `OkX` of
  `Props/C03b.lean` (`okR'_contract`, `okX'_contract`) and the progress clause (`okX'_progress`); on the states that
  satisfy `PCInv` every step of the concrete system is a step of the system constrained by `okR'` / `okX'` (`pstep_lift`);
* `LayInv`: the bookkeeping invariant (`open_by_layer` counts the fringe per depth as long as the search is not aborted,
  `ongoing_by_layer` counts the nodes in hand per depth, `ongoing` the workers that hold a node, one cell of `upper_bounds`
  per worker, nothing panicked, a parked worker implies work in progress), `pstep_layinv`; `take_ne_none`,
  `notify_ne_none` (the panic steps are not enabled), `pstep_progress` (some section is enabled as long as a worker has
  not left its loop);
* `next` / `runSched`: a deterministic scheduler (which worker moves next is the input; `next_step`: it only takes steps of
  the concrete system; `next_some`: it is never stuck on a reachable state) used for progress and for the non-vacuity run;
  `cutoffAt`: a cut-off injected by hand;
* `NoCut` / `URun`: uninterrupted runs (no compilation is ever cut off), along which the abort flag stays down. -/
set_option linter.unusedSectionVars false
set_option linter.unusedVariables false
namespace Ddo.ParClosed
open Ddo Ddo.Truth Ddo.Closed Ddo.ParSys
open Ddo.C01 (SolverCfg WellFormed toOut SolOf)
variable {S : Type} [DecidableEq S]

/-! ## 1. the concrete parallel system over the diagram model -/

/-- the restricted compilation of `N` with the incumbent `lb` the worker read answered `o`: the `must` result of the
    diagram model (`EmptyCache`, no dominance checker, no cutoff: `stopAt = none`), read through `toOut`; the contents of
    the — unused — cache, dominance store and poll counter are arbitrary -/
def okRm (sv : SolverCfg S) (N : SubP S) (lb : Int) (o : DDOut S) : Prop :=
  ∃ (cache : Cache S) (store : DomStore S Unit) (polls : Nat),
    sv.outR cache store polls N lb = .ok ∧ o = toOut (sv.resR cache store polls N lb)

/-- the same for the relaxed compilation -/
def okXm (sv : SolverCfg S) (N : SubP S) (lb : Int) (o : DDOut S) : Prop :=
  ∃ (cache : Cache S) (store : DomStore S Unit) (polls : Nat),
    sv.outX cache store polls N lb = .ok ∧ o = toOut (sv.resX cache store polls N lb)

/-- **the steps of the parallel solver over the diagram model** (any interleaving; a cut-off may strike any compilation) -/
abbrev PStep (sv : SolverCfg S) : Sys S → Sys S → Prop := Step sv.dedup (okRm sv) (okXm sv)
abbrev PRun (sv : SolverCfg S) : Sys S → Sys S → Prop := Run sv.dedup (okRm sv) (okXm sv)

/-- the contract parameters of `StepG` only matter at the worker that compiles -/
theorem step_mono {ab : ParCrit S → Int → Option Int → ParCrit S} {dedup : Bool}
    {okR okX okR' okX' : SubP S → Int → DDOut S → Prop} {s t : Sys S}
    (h : StepG ab dedup okR okX s t)
    (hR : ∀ (i : Nat) (n : SubP S) (lb : Int) (o : DDOut S), s.ws[i]? = some (WSt.compR n lb) → okR n lb o → okR' n lb o)
    (hX : ∀ (i : Nat) (n : SubP S) (lb : Int) (o : DDOut S), s.ws[i]? = some (WSt.compX n lb) → okX n lb o → okX' n lb o) :
    StepG ab dedup okR' okX' s t := by
  cases h with
  | gwAborted i hw ha => exact .gwAborted s i hw ha
  | gwComplete i hw ha ho hf => exact .gwComplete s i hw ha ho hf
  | gwWait i hw ha ho hf => exact .gwWait s i hw ha ho hf
  | gwStarve i N rest c' k hw ha hp hl => exact .gwStarve s i N rest c' k hw ha hp hl
  | gwItem i N rest c' nn k c'' hw ha hp hl ht => exact .gwItem s i N rest c' nn k c'' hw ha hp hl ht
  | gwCrash i N rest c' nn k hw ha hp hl ht => exact .gwCrash s i N rest c' nn k hw ha hp hl ht
  | readLbR i n hw => exact .readLbR s i n hw
  | compileR i n lb r hw hok => exact .compileR s i n lb r hw (fun o ho => hR i n lb o hw (hok o ho))
  | updateR i n lb o hw => exact .updateR s i n lb o hw
  | readLbX i n hw => exact .readLbX s i n hw
  | compileX i n lb r hw hok => exact .compileX s i n lb r hw (fun o ho => hX i n lb o hw (hok o ho))
  | updateX i n lb o hw => exact .updateX s i n lb o hw
  | enqueue i n lb o hw => exact .enqueue s i n lb o hw
  | abort i n top hw htop => exact .abort s i n top hw htop
  | notify i n te c' hw hn => exact .notify s i n te c' hw hn

/-! ## 2. the side conditions of the diagram theorems as an invariant -/

/-- what a worker carries between two sections: a stale incumbent in range, an answer of the diagram model -/
def WInv (sv : SolverCfg S) (B : Int) : WSt S → Prop
  | .compR _ lb => iMin ≤ lb ∧ lb ≤ B
  | .compX _ lb => iMin ≤ lb ∧ lb ≤ B
  | .updR n lb o => okRm sv n lb o
  | .updX n lb o => okXm sv n lb o
  | .enq n lb o => okXm sv n lb o
  | _ => True

/-- per-worker part of the invariant: the node in hand is reached exactly; the stage facts -/
structure WOkP (sv : SolverCfg S) (B : Int) (w : WSt S) : Prop where
  node : ∀ n, w.node = some n → C01.NodeOk sv.P n
  stage : WInv sv B w

/-- shared part of the invariant -/
structure BaseOk (sv : SolverCfg S) (H : Nat → S → EInt) (B : Int) (b : SeqSt S) : Prop where
  /-- every fringe entry is reached exactly, by a permutation of its path, with exactly its value -/
  fr : ∀ c ∈ b.fringe, C01.NodeOk sv.P c
  lbLo : iMin ≤ b.bestLb
  lbHi : b.bestLb ≤ B
  solLb : b.bestSol = none → b.bestLb = iMin
  /-- infeasible problem: nothing was ever reported -/
  infeas : (H 0 sv.P.init).addI sv.P.initVal = none → b.bestLb = iMin ∧ b.bestSol = none

/-- **`PCInv`**: the side conditions of `compileOk_*` / `cutsetOk_relaxed`, for every open node and every worker -/
structure PCInv (sv : SolverCfg S) (H : Nat → S → EInt) (B : Int) (s : Sys S) : Prop where
  base : BaseOk sv H B s.crit.base
  ws : ∀ w ∈ s.ws, WOkP sv B w

theorem BaseOk.of_eq {sv : SolverCfg S} {H : Nat → S → EInt} {B : Int} {b b' : SeqSt S} (h : BaseOk sv H B b)
    (hfr : ∀ c ∈ b'.fringe, c ∈ b.fringe) (hlb : b'.bestLb = b.bestLb) (hsol : b'.bestSol = b.bestSol) :
    BaseOk sv H B b' :=
  ⟨fun c hc => h.fr c (hfr c hc), by rw [hlb]; exact h.lbLo, by rw [hlb]; exact h.lbHi,
   by rw [hlb, hsol]; exact h.solLb, by rw [hlb, hsol]; exact h.infeas⟩

/-- what a restricted compilation of an exactly reached node reports, without reference to an optimum -/
theorem okRm_facts {sv : SolverCfg S} {H : Nat → S → EInt} {B0 B : Int} (hwf : WellFormed sv H B0 B)
    {n : SubP S} {lb : Int} {o : DDOut S} (hn : C01.NodeOk sv.P n) (hok : okRm sv n lb o) :
    (∀ w, o.bestExact = some w → w ≤ B ∧ ∃ p, o.bestExactSol = some p) ∧
    ((H 0 sv.P.init).addI sv.P.initVal = none → o.bestExact = none) := by
  obtain ⟨p0, hroot, hperm⟩ := hn
  obtain ⟨cache, store, polls, hout, rfl⟩ := hok
  have hBN : NoClamp sv.P sv.R n.value B := hwf.bound.noClamp_at hwf.nv hroot
  have sR : ∀ w, (toOut (sv.resR cache store polls n lb)).bestExact = some w →
      IsSol (sv.cfg .restricted n lb) p0 w (toOut (sv.resR cache store polls n lb)).bestExactSol :=
    fun w hw => isSol_restricted (sv.cfg .restricted n lb) B p0 cache store polls none rfl hBN hroot hout w hw
  refine ⟨fun w hw => C01.isSol_le hwf _ rfl p0 w _ (sR w hw), fun hinf => ?_⟩
  have hdead : optOf H n = none := reach_dead hwf.pot hinf hroot
  cases hb : (toOut (sv.resR cache store polls n lb)).bestExact with
  | none => rfl
  | some w =>
    obtain ⟨x, hx, _⟩ := within_of_isSol (sv.cfg .restricted n lb) H p0 hwf.pot hroot w _ (sR w hb)
    rw [show optOf H (sv.cfg .restricted n lb).root = optOf H n from rfl, hdead] at hx
    cases hx

/-- the same for a relaxed compilation, and its cut-set: exact nodes (C08 (i)), strictly deeper (C08 (ii)), not deeper
    than `nb_variables` (`NvBound`) -/
theorem okXm_facts {sv : SolverCfg S} {H : Nat → S → EInt} {B0 B : Int} (hwf : WellFormed sv H B0 B)
    {n : SubP S} {lb : Int} {o : DDOut S} (hn : C01.NodeOk sv.P n) (hok : okXm sv n lb o) :
    (∀ w, o.bestExact = some w → w ≤ B ∧ ∃ p, o.bestExactSol = some p) ∧
    ((H 0 sv.P.init).addI sv.P.initVal = none → o.bestExact = none) ∧
    (∀ c ∈ o.cutset, C01.NodeOk sv.P c ∧ n.depth < c.depth ∧ c.depth ≤ sv.P.nbVars) := by
  obtain ⟨p0, hroot, hperm⟩ := hn
  obtain ⟨cache, store, polls, hout, rfl⟩ := hok
  have hBN : NoClamp sv.P sv.R n.value B := hwf.bound.noClamp_at hwf.nv hroot
  have sX : ∀ w, (toOut (sv.resX cache store polls n lb)).bestExact = some w →
      IsSol (sv.cfg .relaxed n lb) p0 w (toOut (sv.resX cache store polls n lb)).bestExactSol :=
    fun w hw => isSol_relaxed (sv.cfg .relaxed n lb) B p0 cache store polls rfl rfl rfl (hwf.width n) hBN hroot hout w hw
  refine ⟨fun w hw => C01.isSol_le hwf _ rfl p0 w _ (sX w hw), fun hinf => ?_, fun c hc => ?_⟩
  · have hdead : optOf H n = none := reach_dead hwf.pot hinf hroot
    cases hb : (toOut (sv.resX cache store polls n lb)).bestExact with
    | none => rfl
    | some w =>
      obtain ⟨x, hx, _⟩ := within_of_isSol (sv.cfg .relaxed n lb) H p0 hwf.pot hroot w _ (sX w hb)
      rw [show optOf H (sv.cfg .relaxed n lb).root = optOf H n from rfl, hdead] at hx
      cases hx
  · have hc : c ∈ (sv.resX cache store polls n lb).cutset := hc
    obtain ⟨q, hq, hpath⟩ := C08.cutset_exact (sv.cfg .relaxed n lb) B p0 cache store polls none hroot hBN hout _
      (.inl rfl) c hc
    have hprog := C08.cutset_progress (sv.cfg .relaxed n lb) B p0 cache store polls none rfl hroot hBN hout _
      (.inl rfl) c hc
    refine ⟨⟨p0 ++ q, hq, ?_⟩, hprog, reach_depth_le hwf.nv hq⟩
    rw [hpath]
    exact List.Perm.append hperm (List.reverse_perm q)

/-- `maybe_update_best` with a diagram whose reported values are in range and come with a solution -/
theorem baseOk_update {sv : SolverCfg S} {H : Nat → S → EInt} {B : Int} {b : SeqSt S} {o : DDOut S}
    (hb : BaseOk sv H B b) (h1 : ∀ w, o.bestExact = some w → w ≤ B ∧ ∃ p, o.bestExactSol = some p)
    (h2 : (H 0 sv.P.init).addI sv.P.initVal = none → o.bestExact = none) : BaseOk sv H B (b.updateBest o) := by
  refine ⟨?_, ?_, ?_, ?_, ?_⟩
  · rw [(updateBest_fringe b o).1]; exact hb.fr
  · have := updateBest_lb_ge b o
    have := hb.lbLo
    omega
  · exact C01.updateBest_le b o B (fun w hw => (h1 w hw).1) hb.lbHi
  · exact updateBest_solLb b o (fun w hw => (h1 w hw).2) hb.solLb
  · intro hinf
    rw [updateBest_none b o (h2 hinf)]
    exact hb.infeas hinf

/-- either fringe: a property of sub-problems that does not look at the bound passes from the old fringe and the cut-set
    to the fringe after `enqueue_cutset` -/
theorem enqueue_forall (Q : SubP S → Prop) (hQ : ∀ (c : SubP S) (u : Int), Q c → Q { c with ub := u })
    (dedup : Bool) (st : SeqSt S) (cs : List (SubP S))
    (h1 : ∀ c ∈ st.fringe, Q c) (h2 : ∀ c ∈ cs, Q c) : ∀ c ∈ (st.enqueue dedup cs).fringe, Q c := by
  have hL : ∀ a, (a ∈ st.fringe ∨ ∃ c0 ∈ cs, a = c0 ∧ c0.ub > st.bestLb) → Q a := by
    rintro a (ha | ⟨c0, hc0, rfl, _⟩)
    · exact h1 a ha
    · exact h2 a hc0
  cases dedup with
  | false =>
    intro c hc
    exact hL c (((enqueue_false_spec st cs).2.2.2.2 c).mp hc)
  | true =>
    intro c hc
    obtain ⟨_, _, _, _, _, hco⟩ := enqueue_true_spec st cs
    obtain ⟨a, b, ha, _, rfl, _⟩ := hco.1 c hc
    exact hQ a _ (hL a ha)

theorem mem_set_elim {α : Type} {P : α → Prop} {l : List α} {i : Nat} {a : α} (hl : ∀ x ∈ l, P x) (ha : P a) :
    ∀ x ∈ l.set i a, P x := by
  intro x hx
  rcases List.mem_or_eq_of_mem_set hx with h | h
  · exact hl x h
  · rw [h]; exact ha

theorem wake_node (w : WSt S) : w.wake.node = w.node := by cases w <;> rfl

theorem wokp_wake {sv : SolverCfg S} {B : Int} {w : WSt S} (h : WOkP sv B w) : WOkP sv B w.wake := by
  cases w <;> first | exact h | exact ⟨fun n hn => (by cases hn), trivial⟩

/-- a worker without a node and without stage facts -/
theorem wokp_free {sv : SolverCfg S} {B : Int} {w : WSt S} (hn : w.node = none) (hs : WInv sv B w) : WOkP sv B w :=
  ⟨fun n h => (by rw [hn] at h; cases h), hs⟩

/-- a worker that keeps its node `n` -/
theorem wokp_keep {sv : SolverCfg S} {B : Int} {w w' : WSt S} {n : SubP S} (h : WOkP sv B w) (hn : w.node = some n)
    (hn' : w'.node = some n) (hs : WInv sv B w') : WOkP sv B w' :=
  ⟨fun m hm => (by rw [hn'] at hm; injection hm with hm; subst hm; exact h.node _ hn), hs⟩

/-- **every section of every worker preserves `PCInv`** -/
theorem pstep_pcinv {sv : SolverCfg S} {H : Nat → S → EInt} {B0 B : Int} (hwf : WellFormed sv H B0 B) {s t : Sys S}
    (h : PStep sv s t) (hI : PCInv sv H B s) : PCInv sv H B t := by
  have hmem : ∀ {i : Nat} {w : WSt S}, s.ws[i]? = some w → WOkP sv B w :=
    fun hw => hI.ws _ (List.mem_of_getElem? hw)
  cases h with
  | gwAborted i hw ha => exact ⟨hI.base, mem_set_elim hI.ws (wokp_free rfl trivial)⟩
  | gwComplete i hw ha ho hf =>
    exact ⟨hI.base.of_eq (fun c hc => hc) rfl rfl, mem_set_elim hI.ws (wokp_free rfl trivial)⟩
  | gwWait i hw ha ho hf => exact ⟨hI.base, mem_set_elim hI.ws (wokp_free rfl trivial)⟩
  | gwStarve i N rest c' k hw ha hp hl =>
    rw [popLoop_single] at hl
    split at hl
    · injection hl with hc _
      subst hc
      exact ⟨hI.base.of_eq (fun c hc => by cases hc) rfl rfl, hI.ws⟩
    · injection hl with _ hl; injection hl with hl; cases hl
  | gwItem i N rest c' nn k c'' hw ha hp hl ht =>
    obtain ⟨rfl, rfl⟩ := popLoop_item hl
    obtain ⟨t1, t2, t3, _⟩ := take_spec ht
    have hN : nn ∈ s.crit.base.fringe := (mem_of_popMax hp nn).mpr (Or.inl rfl)
    refine ⟨hI.base.of_eq (fun c hc => ?_) t2 t3, mem_set_elim hI.ws ⟨fun m hm => ?_, trivial⟩⟩
    · rw [t1] at hc
      exact (mem_of_popMax hp c).mpr (Or.inr hc)
    · injection hm with hm; subst hm; exact hI.base.fr _ hN
  | gwCrash i N rest c' nn k hw ha hp hl ht =>
    obtain ⟨rfl, rfl⟩ := popLoop_item hl
    have hN : nn ∈ s.crit.base.fringe := (mem_of_popMax hp nn).mpr (Or.inl rfl)
    refine ⟨hI.base.of_eq (fun c hc => ?_) rfl rfl, mem_set_elim hI.ws ⟨fun m hm => ?_, trivial⟩⟩
    · exact (mem_of_popMax hp c).mpr (Or.inr hc)
    · injection hm with hm; subst hm; exact hI.base.fr _ hN
  | readLbR i n hw =>
    refine ⟨hI.base, mem_set_elim hI.ws ?_⟩
    split
    · exact wokp_keep (hmem hw) rfl rfl trivial
    · exact wokp_keep (hmem hw) rfl rfl ⟨hI.base.lbLo, hI.base.lbHi⟩
  | compileR i n lb r hw hok =>
    refine ⟨hI.base, mem_set_elim hI.ws ?_⟩
    cases r with
    | ok o => exact wokp_keep (hmem hw) rfl rfl (hok o rfl)
    | cutoff => exact wokp_keep (hmem hw) rfl rfl trivial
  | updateR i n lb o hw =>
    obtain ⟨f1, f2⟩ := okRm_facts hwf ((hmem hw).node n rfl) (hmem hw).stage
    refine ⟨baseOk_update hI.base f1 f2, mem_set_elim hI.ws ?_⟩
    split
    · exact wokp_keep (hmem hw) rfl rfl trivial
    · exact wokp_keep (hmem hw) rfl rfl trivial
  | readLbX i n hw =>
    exact ⟨hI.base, mem_set_elim hI.ws (wokp_keep (hmem hw) rfl rfl ⟨hI.base.lbLo, hI.base.lbHi⟩)⟩
  | compileX i n lb r hw hok =>
    refine ⟨hI.base, mem_set_elim hI.ws ?_⟩
    cases r with
    | ok o => exact wokp_keep (hmem hw) rfl rfl (hok o rfl)
    | cutoff => exact wokp_keep (hmem hw) rfl rfl trivial
  | updateX i n lb o hw =>
    obtain ⟨f1, f2, _⟩ := okXm_facts hwf ((hmem hw).node n rfl) (hmem hw).stage
    refine ⟨baseOk_update hI.base f1 f2, mem_set_elim hI.ws ?_⟩
    split
    · exact wokp_keep (hmem hw) rfl rfl trivial
    · exact wokp_keep (hmem hw) rfl rfl (hmem hw).stage
  | enqueue i n lb o hw =>
    obtain ⟨_, _, f3⟩ := okXm_facts hwf ((hmem hw).node n rfl) (hmem hw).stage
    obtain ⟨e1, e2⟩ := enqueue_lb_sol sv.dedup s.crit.base o.cutset
    refine ⟨⟨?_, ?_, ?_, ?_, ?_⟩, mem_set_elim hI.ws (wokp_keep (hmem hw) rfl rfl trivial)⟩
    · exact enqueue_forall (C01.NodeOk sv.P) (C01.nodeOk_ub sv.P) sv.dedup s.crit.base o.cutset hI.base.fr
        (fun c hc => (f3 c hc).1)
    · show iMin ≤ (s.crit.base.enqueue sv.dedup o.cutset).bestLb
      rw [e1]; exact hI.base.lbLo
    · show (s.crit.base.enqueue sv.dedup o.cutset).bestLb ≤ B
      rw [e1]; exact hI.base.lbHi
    · show (s.crit.base.enqueue sv.dedup o.cutset).bestSol = none → (s.crit.base.enqueue sv.dedup o.cutset).bestLb = iMin
      rw [e1, e2]; exact hI.base.solLb
    · show _ → (s.crit.base.enqueue sv.dedup o.cutset).bestLb = iMin ∧ (s.crit.base.enqueue sv.dedup o.cutset).bestSol = none
      rw [e1, e2]; exact hI.base.infeas
  | abort i n top hw htop =>
    exact ⟨hI.base.of_eq (fun c hc => by cases hc) rfl rfl, mem_set_elim hI.ws (wokp_keep (hmem hw) rfl rfl trivial)⟩
  | notify i n te c' hw hn =>
    obtain ⟨n1, _, _, _⟩ := notify_spec hn
    refine ⟨by rw [n1]; exact hI.base, mem_set_elim (fun w hw' => ?_) ?_⟩
    · obtain ⟨w0, hw0, rfl⟩ := List.mem_map.mp hw'
      exact wokp_wake (hI.ws w0 hw0)
    · cases te
      · exact wokp_free rfl trivial
      · exact wokp_free rfl trivial

theorem prun_pcinv {sv : SolverCfg S} {H : Nat → S → EInt} {B0 B : Int} (hwf : WellFormed sv H B0 B) {s t : Sys S}
    (h : PRun sv s t) (hI : PCInv sv H B s) : PCInv sv H B t := by
  induction h with
  | refl => exact hI
  | tail _ hst ih => exact pstep_pcinv hwf hst ih

/-! ## 3. the contracts hold on every state that satisfies the invariant -/

/-- the answer of the diagram model **together with** the side conditions of the diagram theorems -/
def okR' (sv : SolverCfg S) (B : Int) (n : SubP S) (lb : Int) (o : DDOut S) : Prop :=
  okRm sv n lb o ∧ C01.NodeOk sv.P n ∧ iMin ≤ lb ∧ lb ≤ B
def okX' (sv : SolverCfg S) (B : Int) (n : SubP S) (lb : Int) (o : DDOut S) : Prop :=
  okXm sv n lb o ∧ C01.NodeOk sv.P n ∧ iMin ≤ lb ∧ lb ≤ B

theorem lb_range {sv : SolverCfg S} {H : Nat → S → EInt} {B0 B : Int} (hwf : WellFormed sv H B0 B) {lb : Int}
    (h1 : iMin ≤ lb) (h2 : lb ≤ B) : InI lb ∧ lb < iMax := by
  have h3 := hwf.bound.B_small
  unfold InI
  simp only [iMin, iMax] at *
  omega

/-- **the contract of the restricted compilation, discharged**: relative to the (stale) incumbent `lb` the worker read -/
theorem okR'_contract {sv : SolverCfg S} {H : Nat → S → EInt} {B0 B : Int} (hwf : WellFormed sv H B0 B) {opt : Int}
    (hopt : (H 0 sv.P.init).addI sv.P.initVal = some opt) (n : SubP S) (lb : Int) (o : DDOut S)
    (h : okR' sv B n lb o) : OkR (optOf H) opt (SolOf sv.P) n lb o := by
  obtain ⟨⟨cache, store, polls, hout, rfl⟩, ⟨p0, hroot, hperm⟩, h1, h2⟩ := h
  obtain ⟨hlb1, hlb2⟩ := lb_range hwf h1 h2
  exact C01.compileOk_restricted (sv.cfg .restricted n lb) H B opt p0 cache store polls rfl rfl rfl hwf.pot hwf.rub
    (hwf.bound.noClamp_at hwf.nv hroot) hlb1 hlb2 hroot hperm hopt hout

/-- **the contracts of the relaxed compilation, discharged** (`CompileOk` and, all four fields, `CutsetOk`) -/
theorem okX'_contract {sv : SolverCfg S} {H : Nat → S → EInt} {B0 B : Int} (hwf : WellFormed sv H B0 B) {opt : Int}
    (hopt : (H 0 sv.P.init).addI sv.P.initVal = some opt) (n : SubP S) (lb : Int) (o : DDOut S)
    (h : okX' sv B n lb o) : OkX (optOf H) opt (SolOf sv.P) n lb o := by
  obtain ⟨⟨cache, store, polls, hout, rfl⟩, ⟨p0, hroot, hperm⟩, h1, h2⟩ := h
  obtain ⟨hlb1, hlb2⟩ := lb_range hwf h1 h2
  have hBN : NoClamp sv.P sv.R n.value B := hwf.bound.noClamp_at hwf.nv hroot
  refine ⟨?_, fun _ => ?_⟩
  · exact C01.compileOk_relaxed (sv.cfg .relaxed n lb) H B opt p0 cache store polls rfl rfl rfl (hwf.width n) hwf.pot
      hwf.rub hwf.merge hwf.attMerge hBN hlb1 hlb2 hroot hperm hopt hout
  · exact C01.cutsetOk_relaxed (sv.cfg .relaxed n lb) H B opt p0 cache store polls none rfl rfl rfl (hwf.width n) hwf.pot
      hwf.rub hwf.merge hwf.attMerge hBN hlb1 hlb2 hroot hopt hout _ (.inl rfl)

/-- the progress clause C08 (ii) and the depth bound, for `ProgOk` -/
theorem okX'_progress {sv : SolverCfg S} {H : Nat → S → EInt} {B0 B : Int} (hwf : WellFormed sv H B0 B)
    (n : SubP S) (lb : Int) (o : DDOut S) (h : okX' sv B n lb o) :
    ∀ c ∈ o.cutset, n.depth < c.depth ∧ c.depth ≤ sv.P.nbVars :=
  fun c hc => ((okXm_facts hwf h.2.1 h.1).2.2 c hc).2

/-- on a state that satisfies `PCInv`, a step of the concrete system is a step of the system under `okR'` / `okX'` -/
theorem pstep_lift {sv : SolverCfg S} {H : Nat → S → EInt} {B : Int} {s t : Sys S}
    (h : PStep sv s t) (hI : PCInv sv H B s) : Step sv.dedup (okR' sv B) (okX' sv B) s t :=
  step_mono h
    (fun i n lb o hw hok => ⟨hok, (hI.ws _ (List.mem_of_getElem? hw)).node n rfl, (hI.ws _ (List.mem_of_getElem? hw)).stage⟩)
    (fun i n lb o hw hok => ⟨hok, (hI.ws _ (List.mem_of_getElem? hw)).node n rfl, (hI.ws _ (List.mem_of_getElem? hw)).stage⟩)

theorem pstep_unlift {sv : SolverCfg S} {B : Int} {s t : Sys S}
    (h : Step sv.dedup (okR' sv B) (okX' sv B) s t) : PStep sv s t :=
  step_mono h (fun _ _ _ _ _ hok => hok.1) (fun _ _ _ _ _ hok => hok.1)

theorem prun_lift {sv : SolverCfg S} {H : Nat → S → EInt} {B0 B : Int} (hwf : WellFormed sv H B0 B) {s t : Sys S}
    (h : PRun sv s t) (hI : PCInv sv H B s) : Run sv.dedup (okR' sv B) (okX' sv B) s t ∧ PCInv sv H B t := by
  induction h with
  | refl => exact ⟨RunG.refl _, hI⟩
  | tail _ hst ih => exact ⟨RunG.tail ih.1 (pstep_lift hst ih.2), pstep_pcinv hwf hst ih.2⟩

/-! ## 4. the initial state -/

/-- a feasible solution of value `v`: `v` is within the bound and the problem is feasible -/
theorem solOf_facts {sv : SolverCfg S} {H : Nat → S → EInt} {B0 B : Int} (hwf : WellFormed sv H B0 B)
    {p : List Dec} {v : Int} (h : SolOf sv.P p v) :
    -B ≤ v ∧ v ≤ B ∧ ∃ x, (H 0 sv.P.init).addI sv.P.initVal = some x ∧ v ≤ x := by
  obtain ⟨k, s, q, L, hr, hs, hnv, _⟩ := h
  obtain ⟨h1, h2⟩ := hwf.bound.value_le hwf.nv hr
  obtain ⟨x, hx, hle⟩ := complete_le_opt (N := ⟨sv.P.init, sv.P.initVal, [], 0, 0⟩) (lowRel_of_potential hwf.pot) Reach.root
    trivial (q := q) (by simpa using hr) hs hnv
  exact ⟨h1, h2, x, hx, hle⟩

/-- **`PCInv` holds initially** (`with_nb_threads(U)` + optional `set_primal` with a feasible solution + `initialize`) -/
theorem init_pcinv {sv : SolverCfg S} {H : Nat → S → EInt} {B0 B : Int} (hwf : WellFormed sv H B0 B)
    (primal : Option (Int × List Dec)) (hp : ∀ v sol, primal = some (v, sol) → SolOf sv.P sol v) (U : Nat) :
    PCInv sv H B (Sys.init sv.P primal sv.dedup U) := by
  obtain ⟨b1, _, _, b4, b5⟩ := init_base sv.P primal sv.dedup
  have hB0 := hwf.bound.clamp.nonneg
  refine ⟨⟨?_, ?_, ?_, ?_, ?_⟩, ?_⟩
  · intro c hc
    have hc : c ∈ (SeqSt.init sv.P primal sv.dedup).fringe := hc
    rw [b1] at hc
    rcases List.mem_cons.mp hc with e | e
    · subst e; exact ⟨[], Reach.root, List.Perm.refl _⟩
    · cases e
  · show iMin ≤ (SeqSt.init sv.P primal sv.dedup).bestLb
    rw [b4]
    cases primal with
    | none => exact Int.le_refl _
    | some vs => obtain ⟨v, sol⟩ := vs; simp only [primalLb]; split <;> omega
  · show (SeqSt.init sv.P primal sv.dedup).bestLb ≤ B
    rw [b4]
    cases primal with
    | none => simp only [primalLb, iMin]; omega
    | some vs =>
      obtain ⟨v, sol⟩ := vs
      have := (solOf_facts hwf (hp v sol rfl)).2.1
      simp only [primalLb]; split
      · exact this
      · simp only [iMin]; omega
  · exact init_noSol sv.P primal sv.dedup U
  · intro hinf
    show (SeqSt.init sv.P primal sv.dedup).bestLb = iMin ∧ (SeqSt.init sv.P primal sv.dedup).bestSol = none
    rw [b4, b5]
    cases primal with
    | none => exact ⟨rfl, rfl⟩
    | some vs =>
      obtain ⟨v, sol⟩ := vs
      obtain ⟨_, _, x, hx, _⟩ := solOf_facts hwf (hp v sol rfl)
      rw [hinf] at hx; cases hx
  · intro w hw
    have hw : w ∈ List.replicate U (WSt.idle : WSt S) := hw
    rw [List.eq_of_mem_replicate hw]
    exact wokp_free rfl trivial

/-! ## 5. the bookkeeping: `open_by_layer`, `ongoing_by_layer`, `ongoing`, `upper_bounds` — no panic -/

/-- does the worker hold (taken, not yet acknowledged) a node of depth `d`? -/
def hd (d : Nat) (w : WSt S) : Bool :=
  match w.node with
  | some n => n.depth == d
  | none => false

/-- number of nodes of depth `d` in the hands of the workers -/
def handD (ws : List (WSt S)) (d : Nat) : Nat := ws.countP (hd d)

theorem hd_congr {d : Nat} {w w' : WSt S} (h : w'.node = w.node) : hd d w' = hd d w := by unfold hd; rw [h]
theorem holds_congr {w w' : WSt S} (h : w'.node = w.node) : w'.holds = w.holds := by unfold WSt.holds; rw [h]

/-- the shared record, `open_by_layer` side: `nb_variables + 1` cells; as long as the search is not aborted cell `d`
    counts the fringe entries of depth `d` (`abort_search` clears the fringe without resetting the counters: from then on
    they only over-approximate, and nothing is popped any more); no checked operation failed in `enqueue_cutset` -/
structure CritLay (n : Nat) (b : SeqSt S) : Prop where
  openLen : b.openByLayer.length = n + 1
  openOk : b.abort = false → LayersOk n b.openByLayer b.fringe
  noPanic : b.crashed = false

/-- the shared record, workers side: `ongoing_by_layer` has `nb_variables + 1` cells and cell `d` counts the nodes of depth
    `d` in hand; `ongoing` counts the workers that hold a node; one cell of `upper_bounds` per worker; no worker has
    panicked; a parked worker implies work in progress (no lost wake-up) -/
structure HandLay (n : Nat) (c : ParCrit S) (ws : List (WSt S)) : Prop where
  ongoLen : c.ongoingByLayer.length = n + 1
  ongoCnt : ∀ d, d ≤ n → c.ongoingByLayer[d]? = some (handD ws d)
  cnt : c.ongoing = ws.countP WSt.holds
  len : ws.length = c.upperBounds.length
  noCrash : ∀ w ∈ ws, w.isCrashed = false
  parked : WSt.waiting ∈ ws → c.ongoing ≠ 0

/-- **`LayInv`**: the bookkeeping invariant of the concrete parallel system -/
structure LayInv (sv : SolverCfg S) (s : Sys S) : Prop where
  crit : CritLay sv.P.nbVars s.crit.base
  hand : HandLay sv.P.nbVars s.crit s.ws

theorem decLayer_spec {l l' : List Nat} {d : Nat} (h : decLayer l d = some l') :
    ∃ c, l[d]? = some c ∧ c ≠ 0 ∧ l' = l.set d (c - 1) := by
  unfold decLayer at h
  cases hc : l[d]? with
  | none => rw [hc] at h; cases h
  | some c =>
    rw [hc] at h
    simp only at h
    split at h
    · cases h
    · next hne => injection h with h; exact ⟨c, rfl, hne, h.symm⟩

theorem bumpLayer_spec {l l' : List Nat} {d k : Nat} (h : bumpLayer l d k = some l') :
    ∃ c, l[d]? = some c ∧ l' = l.set d (c + k) := by
  unfold bumpLayer at h
  cases hc : l[d]? with
  | none => rw [hc] at h; cases h
  | some c => rw [hc] at h; injection h with h; exact ⟨c, rfl, h.symm⟩

/-- one cell of a per-depth counter is overwritten -/
theorem layer_set {n : Nat} {l : List Nat} {f : Nat → Nat} (hlen : l.length = n + 1)
    (h : ∀ d, d ≤ n → l[d]? = some (f d)) (d0 v : Nat) (g : Nat → Nat) (hd0 : d0 ≤ n) (hg0 : g d0 = v)
    (hg : ∀ d, d ≠ d0 → g d = f d) :
    (l.set d0 v).length = n + 1 ∧ ∀ d, d ≤ n → (l.set d0 v)[d]? = some (g d) := by
  refine ⟨by rw [List.length_set]; exact hlen, fun d hd => ?_⟩
  rw [List.getElem?_set]
  by_cases e : d0 = d
  · subst e
    rw [if_pos rfl, if_pos (by omega), hg0]
  · rw [if_neg e, h d hd, hg d (fun e' => e e'.symm)]

/-- the pop: the cell of the popped node is positive (no underflow), the count stays exact -/
theorem open_dec {n : Nat} {l : List Nat} {fr rest : List (SubP S)} {N : SubP S} (hL : LayersOk n l fr)
    (hp : fr.Perm (N :: rest)) (hN : N.depth ≤ n) : ∃ l', decLayer l N.depth = some l' ∧ LayersOk n l' rest := by
  have hc : l[N.depth]? = some (cntD rest N.depth + 1) := by
    rw [hL.2 N.depth hN, cntD_perm hp, cntD_cons, if_pos rfl]
  refine ⟨l.set N.depth (cntD rest N.depth), ?_, ?_⟩
  · unfold decLayer
    rw [hc]
    simp only
    rw [if_neg (by omega)]
    rfl
  · refine layer_set hL.1 hL.2 N.depth _ _ hN rfl (fun d hd => ?_)
    rw [cntD_perm hp, cntD_cons, if_neg (fun e => hd e.symm)]; rfl

theorem enqOne_len (n : Nat) (dedup : Bool) (st : SeqSt S) (c : SubP S) (hc : c.depth ≤ n)
    (hL : st.openByLayer.length = n + 1) :
    (enqOne dedup st c).openByLayer.length = n + 1 ∧ (enqOne dedup st c).crashed = st.crashed ∧
    (enqOne dedup st c).abort = st.abort := by
  unfold enqOne
  simp only
  split
  · cases hb : bumpLayer st.openByLayer c.depth
        ((pushSpec dedup st.fringe c).length - st.fringe.length) with
    | none =>
      unfold bumpLayer at hb
      have : c.depth < st.openByLayer.length := by omega
      rw [List.getElem?_eq_getElem this] at hb
      cases hb
    | some l' =>
      obtain ⟨_, _, rfl⟩ := bumpLayer_spec hb
      exact ⟨by simp only [List.length_set]; exact hL, rfl, rfl⟩
  · exact ⟨hL, rfl, rfl⟩

/-- `enqueue_cutset` after an abort: the counters keep their size, nothing panics (only increments) -/
theorem enqueue_len (n : Nat) (dedup : Bool) (cs : List (SubP S)) (hcs : ∀ c ∈ cs, c.depth ≤ n) :
    ∀ (st : SeqSt S), st.openByLayer.length = n + 1 →
      (st.enqueue dedup cs).openByLayer.length = n + 1 ∧ (st.enqueue dedup cs).crashed = st.crashed ∧
      (st.enqueue dedup cs).abort = st.abort := by
  induction cs with
  | nil => intro st hL; exact ⟨hL, rfl, rfl⟩
  | cons c cs ih =>
    intro st hL
    rw [enqueue_eq_foldl, List.foldl_cons, ← enqueue_eq_foldl]
    obtain ⟨h1, h2, h3⟩ := enqOne_len n dedup st c (hcs c List.mem_cons_self) hL
    obtain ⟨h4, h5, h6⟩ := ih (fun c hc => hcs c (List.mem_cons_of_mem _ hc)) _ h1
    exact ⟨h4, h5.trans h2, h6.trans h3⟩

theorem critLay_enqueue {n : Nat} (dedup : Bool) {b : SeqSt S} (cs : List (SubP S))
    (hcs : ∀ c ∈ cs, c.depth ≤ n) (h : CritLay n b) : CritLay n (b.enqueue dedup cs) := by
  obtain ⟨h1, h2, h3⟩ := enqueue_len n dedup cs hcs b h.openLen
  refine ⟨h1, fun ha => ?_, h2.trans h.noPanic⟩
  rw [h3] at ha
  exact (enqueue_layers n dedup cs hcs b (h.openOk ha)).1

theorem critLay_update {n : Nat} {b : SeqSt S} (o : DDOut S) (h : CritLay n b) : CritLay n (b.updateBest o) := by
  obtain ⟨f1, _, f3, f4, _⟩ := updateBest_fringe b o
  exact ⟨by rw [f4]; exact h.openLen, fun ha => by rw [f1, f4]; exact h.openOk (f3 ▸ ha),
    (updateBest_crashed b o).trans h.noPanic⟩

theorem countP_wake (p : WSt S → Bool) (hp : ∀ w, p w.wake = p w) (ws : List (WSt S)) :
    (ws.map WSt.wake).countP p = ws.countP p := by
  rw [List.countP_map]
  congr 1
  funext w; exact hp w

/-- worker `i` changes stage keeping its node (or having none before and after); the workers side of the record is
    untouched -/
theorem handLay_set {n : Nat} {c c' : ParCrit S} {ws : List (WSt S)} {i : Nat} {w w' : WSt S} (h : HandLay n c ws)
    (hw : ws[i]? = some w) (hnode : w'.node = w.node) (hcr : w'.isCrashed = false)
    (hwait : w' = .waiting → c.ongoing ≠ 0)
    (e1 : c'.ongoingByLayer = c.ongoingByLayer) (e2 : c'.ongoing = c.ongoing)
    (e3 : c'.upperBounds.length = c.upperBounds.length) : HandLay n c' (ws.set i w') := by
  refine ⟨by rw [e1]; exact h.ongoLen, fun d hd' => ?_, ?_, by rw [List.length_set, e3]; exact h.len,
    mem_set_elim h.noCrash hcr, fun hm => ?_⟩
  · rw [e1, h.ongoCnt d hd']
    have := countP_set (hd d) w' hw
    rw [hd_congr hnode] at this
    unfold handD
    congr 1
    omega
  · rw [e2, h.cnt]
    have := countP_set WSt.holds w' hw
    rw [holds_congr hnode] at this
    omega
  · rw [e2]
    rcases List.mem_or_eq_of_mem_set hm with h' | h'
    · exact h.parked h'
    · exact hwait h'.symm

/-- the end of `get_workload`: an idle worker takes `nn` -/
theorem handLay_take {n : Nat} {c c'' : ParCrit S} {ws : List (WSt S)} {i : Nat} {nn : SubP S} (h : HandLay n c ws)
    (hw : ws[i]? = some .idle) (hd' : nn.depth ≤ n) {ol : List Nat} (hb : bumpLayer c.ongoingByLayer nn.depth 1 = some ol)
    (e1 : c''.ongoingByLayer = ol) (e2 : c''.ongoing = c.ongoing + 1)
    (e3 : c''.upperBounds.length = c.upperBounds.length) : HandLay n c'' (ws.set i (.readR nn)) := by
  obtain ⟨cc, hcc, rfl⟩ := bumpLayer_spec hb
  have hcc' : cc = handD ws nn.depth := by
    have := h.ongoCnt nn.depth hd'
    rw [hcc] at this
    exact Option.some.inj this
  have hset : ∀ d, handD (ws.set i (.readR nn)) d = handD ws d + (if nn.depth = d then 1 else 0) := by
    intro d
    have := countP_set (hd d) (WSt.readR nn) hw
    have h1 : hd d (WSt.idle : WSt S) = false := rfl
    have h2 : hd d (WSt.readR nn) = (nn.depth == d) := rfl
    rw [h1, h2] at this
    unfold handD
    by_cases e : nn.depth = d
    · simp only [e, beq_self_eq_true, if_true] at this ⊢; simp at this; omega
    · have hb' : (nn.depth == d) = false := by simpa using e
      rw [hb'] at this; simp only [if_neg e]; simp at this; omega
  obtain ⟨l1, l2⟩ := layer_set h.ongoLen h.ongoCnt nn.depth (cc + 1) (handD (ws.set i (.readR nn))) hd'
    (by rw [hset, if_pos rfl, hcc']) (fun d hne => by rw [hset, if_neg (fun e => hne e.symm)]; rfl)
  refine ⟨by rw [e1]; exact l1, fun d hd'' => by rw [e1]; exact l2 d hd'', ?_,
    by rw [List.length_set, e3]; exact h.len, mem_set_elim h.noCrash rfl, fun _ => by rw [e2]; omega⟩
  rw [e2, h.cnt]
  have := countP_set WSt.holds (WSt.readR nn) hw
  have h1 : (WSt.idle : WSt S).holds = false := rfl
  have h2 : (WSt.readR nn).holds = true := rfl
  rw [h1, h2] at this
  simp at this
  omega

theorem wake_ne_waiting (w : WSt S) : w.wake ≠ .waiting := by cases w <;> simp [WSt.wake]

/-- `notify_node_finished`: the worker gives its node back, every parked worker is woken -/
theorem handLay_notify {n : Nat} {c c' : ParCrit S} {ws : List (WSt S)} {i : Nat} {m : SubP S} {te : Bool}
    (h : HandLay n c ws) (hw : ws[i]? = some (.fin m te)) (hd' : m.depth ≤ n) {ol : List Nat}
    (hb : decLayer c.ongoingByLayer m.depth = some ol)
    (e1 : c'.ongoingByLayer = ol) (e2 : c'.ongoing + 1 = c.ongoing)
    (e3 : c'.upperBounds.length = c.upperBounds.length) (w' : WSt S) (hw' : w' = .idle ∨ w' = .done) :
    HandLay n c' ((ws.map WSt.wake).set i w') := by
  obtain ⟨cc, hcc, hne, rfl⟩ := decLayer_spec hb
  have hcc' : cc = handD ws m.depth := by
    have := h.ongoCnt m.depth hd'
    rw [hcc] at this
    exact Option.some.inj this
  have hwk : (ws.map WSt.wake)[i]? = some (.fin m te) := by rw [List.getElem?_map, hw]; rfl
  have hnode' : w'.node = none := by rcases hw' with rfl | rfl <;> rfl
  have hset : ∀ d, handD ((ws.map WSt.wake).set i w') d + (if m.depth = d then 1 else 0) = handD ws d := by
    intro d
    have := countP_set (hd d) w' hwk
    have h1 : hd d w' = false := by unfold hd; rw [hnode']
    have h2 : hd d (WSt.fin m te) = (m.depth == d) := rfl
    rw [h1, h2, countP_wake _ (fun w => hd_congr (wake_node w))] at this
    unfold handD
    by_cases e : m.depth = d
    · simp only [e, beq_self_eq_true, if_true] at this ⊢; simp at this; omega
    · have hb' : (m.depth == d) = false := by simpa using e
      rw [hb'] at this; simp only [if_neg e]; simp at this; omega
  obtain ⟨l1, l2⟩ := layer_set h.ongoLen h.ongoCnt m.depth (cc - 1) (handD ((ws.map WSt.wake).set i w')) hd'
    (by have := hset m.depth; rw [if_pos rfl] at this; omega)
    (fun d hne' => by have := hset d; rw [if_neg (fun e => hne' e.symm)] at this; omega)
  refine ⟨by rw [e1]; exact l1, fun d hd'' => by rw [e1]; exact l2 d hd'', ?_,
    by rw [List.length_set, List.length_map, e3]; exact h.len, ?_, fun hm => ?_⟩
  · have := countP_set WSt.holds w' hwk
    have h1 : w'.holds = false := by unfold WSt.holds; rw [hnode']; rfl
    have h2 : (WSt.fin m te).holds = true := rfl
    rw [h1, h2, countP_wake _ wake_holds] at this
    have := h.cnt
    simp at *
    omega
  · refine mem_set_elim (fun w hw'' => ?_) (by rcases hw' with rfl | rfl <;> rfl)
    obtain ⟨w0, hw0, rfl⟩ := List.mem_map.mp hw''
    rw [wake_isCrashed]; exact h.noCrash w0 hw0
  · exfalso
    rcases List.mem_or_eq_of_mem_set hm with h' | h'
    · obtain ⟨w0, _, e⟩ := List.mem_map.mp h'
      exact wake_ne_waiting w0 e
    · rcases hw' with rfl | rfl <;> cases h'

theorem take_full {c c'' : ParCrit S} {i : Nat} {nn : SubP S} (h : c.take i nn = some c'') :
    ∃ l ol, decLayer c.base.openByLayer nn.depth = some l ∧ bumpLayer c.ongoingByLayer nn.depth 1 = some ol ∧
      c''.base.openByLayer = l ∧ c''.ongoingByLayer = ol ∧ c''.base.crashed = c.base.crashed := by
  unfold ParCrit.take at h
  split at h
  · split at h
    · next l ol h1 h2 => injection h with h; subst h; exact ⟨l, ol, h1, h2, rfl, rfl, rfl⟩
    · cases h
  · cases h

theorem notify_full {c c' : ParCrit S} {i d : Nat} (h : c.notifyFinished i d = some c') :
    ∃ ol, decLayer c.ongoingByLayer d = some ol ∧ c'.ongoingByLayer = ol := by
  unfold ParCrit.notifyFinished at h
  split at h
  · cases h
  · split at h
    · split at h
      · next ol h1 => injection h with h; subst h; exact ⟨ol, h1, rfl⟩
      · cases h
    · cases h

theorem node_depth_le {sv : SolverCfg S} {H : Nat → S → EInt} {B0 B : Int} (hwf : WellFormed sv H B0 B) {n : SubP S}
    (h : C01.NodeOk sv.P n) : n.depth ≤ sv.P.nbVars := by
  obtain ⟨p0, hr, _⟩ := h
  exact reach_depth_le hwf.nv hr

/-- **the bookkeeping of `get_workload` does not panic**: with a cell of `upper_bounds` per worker, exact counters and a
    popped node not deeper than `nb_variables`, `take` succeeds -/
theorem take_ne_none {sv : SolverCfg S} {s : Sys S} {i : Nat} {N : SubP S} {rest : List (SubP S)} (hL : LayInv sv s)
    (hw : s.ws[i]? = some .idle) (ha : s.crit.base.abort = false) (hp : PopMax s.crit.base.fringe N rest)
    (hN : N.depth ≤ sv.P.nbVars) : ∃ c'', (setFringe s.crit rest).take i N = some c'' := by
  obtain ⟨l', hl', _⟩ := open_dec (hL.crit.openOk ha) hp.1 hN
  have hi : i < s.crit.upperBounds.length := by
    rw [← hL.hand.len]; exact (List.getElem?_eq_some_iff.mp hw).1
  have hb : bumpLayer s.crit.ongoingByLayer N.depth 1 = some (s.crit.ongoingByLayer.set N.depth (handD s.ws N.depth + 1)) := by
    unfold bumpLayer; rw [hL.hand.ongoCnt N.depth hN]
  unfold ParCrit.take
  rw [if_pos (show i < (setFringe s.crit rest).upperBounds.length from hi)]
  rw [show decLayer (setFringe s.crit rest).base.openByLayer N.depth = some l' from hl',
    show bumpLayer (setFringe s.crit rest).ongoingByLayer N.depth 1 = _ from hb]
  exact ⟨_, rfl⟩

/-- **`notify_node_finished` does not panic**: `ongoing` is positive, the cell of `upper_bounds` exists, the cell of
    `ongoing_by_layer` is positive -/
theorem notify_ne_none {sv : SolverCfg S} {s : Sys S} {i : Nat} {n : SubP S} {te : Bool} (hL : LayInv sv s)
    (hw : s.ws[i]? = some (.fin n te)) (hN : n.depth ≤ sv.P.nbVars) :
    ∃ c', s.crit.notifyFinished i n.depth = some c' := by
  have hmem : WSt.fin n te ∈ s.ws := List.mem_of_getElem? hw
  have h1 : s.crit.ongoing ≠ 0 := by
    rw [hL.hand.cnt]
    have : 0 < s.ws.countP WSt.holds := List.countP_pos_iff.mpr ⟨_, hmem, rfl⟩
    omega
  have hi : i < s.crit.upperBounds.length := by
    rw [← hL.hand.len]; exact (List.getElem?_eq_some_iff.mp hw).1
  have h3 : 0 < handD s.ws n.depth := List.countP_pos_iff.mpr ⟨_, hmem, by simp [hd, WSt.node]⟩
  unfold ParCrit.notifyFinished decLayer
  rw [if_neg h1, if_pos hi, hL.hand.ongoCnt n.depth hN]
  simp only
  rw [if_neg (by omega)]
  exact ⟨_, rfl⟩

/-- **every section of every worker preserves the bookkeeping invariant** (the depth of every open node and of every
    cut-set node is at most `nb_variables`: `PCInv`, C08 (i), `NvBound`) — and the panic step `gwCrash` is not enabled -/
theorem pstep_layinv {sv : SolverCfg S} {H : Nat → S → EInt} {B0 B : Int} (hwf : WellFormed sv H B0 B) {s t : Sys S}
    (h : PStep sv s t) (hI : PCInv sv H B s) (hL : LayInv sv s) : LayInv sv t := by
  have hmem : ∀ {i : Nat} {w : WSt S}, s.ws[i]? = some w → WOkP sv B w :=
    fun hw => hI.ws _ (List.mem_of_getElem? hw)
  cases h with
  | gwAborted i hw ha => exact ⟨hL.crit, handLay_set hL.hand hw rfl rfl (fun e => by cases e) rfl rfl rfl⟩
  | gwComplete i hw ha ho hf =>
    exact ⟨⟨hL.crit.openLen, hL.crit.openOk, hL.crit.noPanic⟩,
      handLay_set hL.hand hw rfl rfl (fun e => by cases e) rfl rfl rfl⟩
  | gwWait i hw ha ho hf => exact ⟨hL.crit, handLay_set hL.hand hw rfl rfl (fun _ => ho) rfl rfl rfl⟩
  | gwStarve i N rest c' k hw ha hp hl =>
    rw [popLoop_single] at hl
    split at hl
    · injection hl with hc _
      subst hc
      refine ⟨⟨?_, fun _ => ⟨?_, fun d hd' => ?_⟩, hL.crit.noPanic⟩,
        ⟨hL.hand.ongoLen, hL.hand.ongoCnt, hL.hand.cnt, hL.hand.len, hL.hand.noCrash, hL.hand.parked⟩⟩
      · show (s.crit.base.openByLayer.map (fun _ => 0)).length = _
        rw [List.length_map]; exact hL.crit.openLen
      · show (s.crit.base.openByLayer.map (fun _ => 0)).length = _
        rw [List.length_map]; exact hL.crit.openLen
      · show (s.crit.base.openByLayer.map (fun _ => 0))[d]? = some (cntD [] d)
        rw [List.getElem?_map, List.getElem?_eq_getElem (by rw [hL.crit.openLen]; omega)]
        rfl
    · injection hl with _ hl; injection hl with hl; cases hl
  | gwItem i N rest c' nn k c'' hw ha hp hl ht =>
    obtain ⟨rfl, rfl⟩ := popLoop_item hl
    obtain ⟨t1, _, _, _, t5, t6, t7, _⟩ := take_spec ht
    obtain ⟨l, ol, h1, h2, h3, h4, h5⟩ := take_full ht
    have hN : nn.depth ≤ sv.P.nbVars :=
      node_depth_le hwf (hI.base.fr nn ((mem_of_popMax hp nn).mpr (Or.inl rfl)))
    obtain ⟨l', hl', hlay⟩ := open_dec (hL.crit.openOk ha) hp.1 hN
    have hll : l = l' := by
      have h1 : decLayer s.crit.base.openByLayer nn.depth = some l := h1
      rw [hl'] at h1; exact (Option.some.inj h1).symm
    refine ⟨⟨by rw [h3, hll]; exact hlay.1, fun _ => ?_, by rw [h5]; exact hL.crit.noPanic⟩, ?_⟩
    · rw [h3, hll, t1]; exact hlay
    · exact handLay_take hL.hand hw hN h2 h4 t6 (by rw [t7, List.length_set]; rfl)
  | gwCrash i N rest c' nn k hw ha hp hl ht =>
    obtain ⟨rfl, rfl⟩ := popLoop_item hl
    have hN : nn.depth ≤ sv.P.nbVars :=
      node_depth_le hwf (hI.base.fr nn ((mem_of_popMax hp nn).mpr (Or.inl rfl)))
    obtain ⟨c'', hc''⟩ := take_ne_none hL hw ha hp hN
    rw [hc''] at ht; cases ht
  | readLbR i n hw =>
    refine ⟨hL.crit, handLay_set hL.hand hw ?_ ?_ (fun e => ?_) rfl rfl rfl⟩
    · split <;> rfl
    · split <;> rfl
    · split at e <;> cases e
  | compileR i n lb r hw hok =>
    refine ⟨hL.crit, handLay_set hL.hand hw ?_ ?_ (fun e => ?_) rfl rfl rfl⟩
    · cases r <;> rfl
    · cases r <;> rfl
    · cases r <;> cases e
  | updateR i n lb o hw =>
    refine ⟨critLay_update o hL.crit, handLay_set hL.hand hw ?_ ?_ (fun e => ?_) rfl rfl rfl⟩
    · split <;> rfl
    · split <;> rfl
    · split at e <;> cases e
  | readLbX i n hw => exact ⟨hL.crit, handLay_set hL.hand hw rfl rfl (fun e => by cases e) rfl rfl rfl⟩
  | compileX i n lb r hw hok =>
    refine ⟨hL.crit, handLay_set hL.hand hw ?_ ?_ (fun e => ?_) rfl rfl rfl⟩
    · cases r <;> rfl
    · cases r <;> rfl
    · cases r <;> cases e
  | updateX i n lb o hw =>
    refine ⟨critLay_update o hL.crit, handLay_set hL.hand hw ?_ ?_ (fun e => ?_) rfl rfl rfl⟩
    · split <;> rfl
    · split <;> rfl
    · split at e <;> cases e
  | enqueue i n lb o hw =>
    obtain ⟨_, _, f3⟩ := okXm_facts hwf ((hmem hw).node n rfl) (hmem hw).stage
    exact ⟨critLay_enqueue sv.dedup o.cutset (fun c hc => (f3 c hc).2.2) hL.crit,
      handLay_set hL.hand hw rfl rfl (fun e => by cases e) rfl rfl rfl⟩
  | abort i n top hw htop =>
    exact ⟨⟨hL.crit.openLen, fun ha => (by cases ha), hL.crit.noPanic⟩,
      handLay_set hL.hand hw rfl rfl (fun e => by cases e) rfl rfl rfl⟩
  | notify i n te c' hw hn =>
    obtain ⟨n1, n2, n3, _⟩ := notify_spec hn
    obtain ⟨ol, h1, h2⟩ := notify_full hn
    have hN : n.depth ≤ sv.P.nbVars := node_depth_le hwf ((hmem hw).node n rfl)
    refine ⟨by rw [n1]; exact hL.crit, ?_⟩
    cases te
    · exact handLay_notify hL.hand hw hN h1 h2 n2 (by rw [n3, List.length_set]) .idle (Or.inl rfl)
    · exact handLay_notify hL.hand hw hN h1 h2 n2 (by rw [n3, List.length_set]) .done (Or.inr rfl)

/-- the bookkeeping invariant holds initially: `U` workers, `U` cells of `upper_bounds` (`with_nb_threads`, fix D3) -/
theorem init_layinv (sv : SolverCfg S) (primal : Option (Int × List Dec)) (U : Nat) :
    LayInv sv (Sys.init sv.P primal sv.dedup U) := by
  have hidle : ∀ w ∈ List.replicate U (WSt.idle : WSt S), w = .idle := fun w hw => List.eq_of_mem_replicate hw
  have hcp : ∀ p : WSt S → Bool, p .idle = false → (List.replicate U (WSt.idle : WSt S)).countP p = 0 := by
    intro p hp
    rw [List.countP_replicate, hp]; rfl
  refine ⟨?_, ⟨by simp [Sys.init, ParCrit.init], fun d hd' => ?_, ?_, by simp [Sys.init, ParCrit.init],
    fun w hw => by rw [hidle w hw]; rfl, fun hm => by cases hidle _ hm⟩⟩
  · -- the `open_by_layer` side does not depend on the primal
    have e1 : (SeqSt.init sv.P primal sv.dedup).openByLayer = (SeqSt.init sv.P none sv.dedup).openByLayer := by
      cases primal with
      | none => rfl
      | some vs => obtain ⟨v, sol⟩ := vs; simp only [SeqSt.init]; split <;> rfl
    have e2 : (SeqSt.init sv.P primal sv.dedup).fringe = (SeqSt.init sv.P none sv.dedup).fringe := by
      rw [(init_base sv.P primal sv.dedup).1, (init_base sv.P none sv.dedup).1]
    have e3 : (SeqSt.init sv.P primal sv.dedup).crashed = false := by
      cases primal with
      | none => rfl
      | some vs => obtain ⟨v, sol⟩ := vs; simp only [SeqSt.init]; split <;> rfl
    obtain ⟨h1, _⟩ := init_layers sv.P sv.dedup
    exact ⟨by show (SeqSt.init sv.P primal sv.dedup).openByLayer.length = _; rw [e1]; exact h1.1,
      fun _ => by show LayersOk _ (SeqSt.init sv.P primal sv.dedup).openByLayer (SeqSt.init sv.P primal sv.dedup).fringe; rw [e1, e2]; exact h1, e3⟩
  · show (List.replicate (sv.P.nbVars + 1) 0)[d]? = some (handD (List.replicate U (WSt.idle : WSt S)) d)
    rw [List.getElem?_replicate, if_pos (by omega)]
    unfold handD
    rw [hcp _ rfl]
  · show 0 = (List.replicate U (WSt.idle : WSt S)).countP WSt.holds
    rw [hcp _ rfl]

theorem prun_layinv {sv : SolverCfg S} {H : Nat → S → EInt} {B0 B : Int} (hwf : WellFormed sv H B0 B) {s t : Sys S}
    (h : PRun sv s t) (hI : PCInv sv H B s) (hL : LayInv sv s) : LayInv sv t := by
  induction h with
  | refl => exact hL
  | tail hr hst ih => exact pstep_layinv hwf hst (prun_pcinv hwf hr hI) ih

/-! ## 6. a deterministic scheduler; progress -/

/-- the fringe cleared, the open counters zeroed (`get_workload`, branch `nn.ub <= best_lb`) -/
def starved (c : ParCrit S) : ParCrit S :=
  { c with base := { c.base with fringe := [], openByLayer := c.base.openByLayer.map (fun _ => 0) } }

/-- what `abort_search`'s `fringe.pop()` contributes, computed with `popMax` -/
def topOf (fr : List (SubP S)) : Option Int := (popMax fr).map (fun p => p.1.ub)

/-- the empty cache / dominance store the scheduler hands to the compilations -/
def cache0 (sv : SolverCfg S) : Cache S := Cache.init sv.P.nbVars
def store0 (sv : SolverCfg S) : DomStore S Unit := DomStore.init sv.P.nbVars

/-- **the next section of worker `i`**, as a function: the pop is `popMax` (the first maximal entry), the compilations are
    those of the diagram model with the empty cache / store, no cut-off ever strikes.  `none`: the worker is parked, has
    left, does not exist — or the section panics / the compilation does not end normally (`next_some`: this does not
    happen on reachable states). -/
def next (sv : SolverCfg S) (s : Sys S) (i : Nat) : Option (Sys S) :=
  match s.ws[i]? with
  | none => none
  | some .idle =>
    if s.crit.base.abort then some { crit := s.crit, ws := s.ws.set i .done }
    else
      match popMax s.crit.base.fringe with
      | none =>
        if s.crit.ongoing = 0 then some { crit := s.crit.complete, ws := s.ws.set i .done }
        else some { crit := s.crit, ws := s.ws.set i .waiting }
      | some (N, rest) =>
        if N.ub ≤ s.crit.base.bestLb then some { crit := starved (setFringe s.crit rest), ws := s.ws }
        else
          match (setFringe s.crit rest).take i N with
          | some c'' => some { crit := c'', ws := s.ws.set i (.readR N) }
          | none => none
  | some .waiting => none
  | some .done => none
  | some (.crashed _) => none
  | some (.readR n) =>
    some { crit := s.crit, ws := s.ws.set i (if n.ub ≤ s.crit.readLb then .fin n false else .compR n s.crit.readLb) }
  | some (.compR n lb) =>
    if sv.outR (cache0 sv) (store0 sv) 0 n lb = .ok then
      some { crit := s.crit, ws := s.ws.set i (.updR n lb (toOut (sv.resR (cache0 sv) (store0 sv) 0 n lb))) }
    else none
  | some (.updR n _ o) =>
    some { crit := s.crit.updateBest o, ws := s.ws.set i (if o.isExact then .fin n false else .readX n) }
  | some (.readX n) => some { crit := s.crit, ws := s.ws.set i (.compX n s.crit.readLb) }
  | some (.compX n lb) =>
    if sv.outX (cache0 sv) (store0 sv) 0 n lb = .ok then
      some { crit := s.crit, ws := s.ws.set i (.updX n lb (toOut (sv.resX (cache0 sv) (store0 sv) 0 n lb))) }
    else none
  | some (.updX n lb o) =>
    some { crit := s.crit.updateBest o, ws := s.ws.set i (if o.isExact then .fin n false else .enq n lb o) }
  | some (.enq n _ o) => some { crit := s.crit.enqueue sv.dedup o.cutset, ws := s.ws.set i (.fin n false) }
  | some (.abortS n) =>
    some { crit := s.crit.abortSearch n.ub (topOf s.crit.base.fringe), ws := s.ws.set i (.fin n true) }
  | some (.fin n te) =>
    match s.crit.notifyFinished i n.depth with
    | some c' => some { crit := c', ws := (s.ws.map WSt.wake).set i (if te then .done else .idle) }
    | none => none

omit [DecidableEq S] in
theorem popMax_none {l : List (SubP S)} (h : popMax l = none) : l = [] := by
  cases l with
  | nil => rfl
  | cons a l' =>
    obtain ⟨N, rest, e⟩ := popMax_some (a :: l') (by simp)
    rw [h] at e; cases e

omit [DecidableEq S] in
theorem popMax_popMax {l : List (SubP S)} {N : SubP S} {rest : List (SubP S)} (h : popMax l = some (N, rest)) :
    PopMax l N rest := by
  obtain ⟨h1, h2⟩ := popMax_spec l N rest h
  exact ⟨h1, fun c hc => by have := h2 c hc; omega⟩

omit [DecidableEq S] in
theorem topOf_abortTop (fr : List (SubP S)) : AbortTop fr (topOf fr) := by
  unfold topOf
  cases h : popMax fr with
  | none => exact Or.inl ⟨popMax_none h, rfl⟩
  | some p =>
    obtain ⟨N, rest⟩ := p
    obtain ⟨h1, h2⟩ := popMax_popMax h
    refine Or.inr ⟨N, h1.mem_iff.mpr List.mem_cons_self, rfl, fun c hc => ?_⟩
    rcases List.mem_cons.mp (h1.mem_iff.mp hc) with e | e
    · rw [e]; exact Int.le_refl _
    · exact h2 c e

/-- **the scheduler only takes steps of the concrete system** -/
theorem next_step {sv : SolverCfg S} {s t : Sys S} {i : Nat} (h : next sv s i = some t) : PStep sv s t := by
  unfold next at h
  split at h
  · cases h
  · next hw =>
    split at h
    · next ha => injection h with h; subst h; exact .gwAborted s i hw ha
    · next ha =>
      have ha : s.crit.base.abort = false := by simpa using ha
      split at h
      · next hp =>
        have hf := popMax_none hp
        split at h
        · next ho => injection h with h; subst h; exact .gwComplete s i hw ha ho hf
        · next ho => injection h with h; subst h; exact .gwWait s i hw ha ho hf
      · next N rest hp =>
        have hpm := popMax_popMax hp
        split at h
        · next hle =>
          injection h with h; subst h
          refine .gwStarve s i N rest _ 1 hw ha hpm ?_
          rw [popLoop_single]
          exact if_pos hle
        · next hgt =>
          have hl : popLoop (setFringe s.crit rest) [(N, true)] 0 = (setFringe s.crit rest, some (some N), 1) := by
            rw [popLoop_single]; exact if_neg hgt
          split at h
          · next c'' ht => injection h with h; subst h; exact .gwItem s i N rest _ N 1 c'' hw ha hpm hl ht
          · cases h
  · cases h
  · cases h
  · cases h
  · next n hw => injection h with h; subst h; exact .readLbR s i n hw
  · next n lb hw =>
    split at h
    · next hok =>
      injection h with h; subst h
      exact .compileR s i n lb (.ok _) hw (fun o ho => by injection ho with ho; subst ho; exact ⟨_, _, _, hok, rfl⟩)
    · cases h
  · next n lb o hw => injection h with h; subst h; exact .updateR s i n lb o hw
  · next n hw => injection h with h; subst h; exact .readLbX s i n hw
  · next n lb hw =>
    split at h
    · next hok =>
      injection h with h; subst h
      exact .compileX s i n lb (.ok _) hw (fun o ho => by injection ho with ho; subst ho; exact ⟨_, _, _, hok, rfl⟩)
    · cases h
  · next n lb o hw => injection h with h; subst h; exact .updateX s i n lb o hw
  · next n lb o hw => injection h with h; subst h; exact .enqueue s i n lb o hw
  · next n hw => injection h with h; subst h; exact .abort s i n _ hw (topOf_abortTop _)
  · next n te hw =>
    split at h
    · next c' hn => injection h with h; subst h; exact .notify s i n te c' hw hn
    · cases h

/-- **on a state that satisfies the invariants the scheduler is never stuck at a worker that is neither parked nor gone**:
    no section panics (`take`, `notify_node_finished`), no compilation of the diagram model fails to end normally
    (`compile_no_crash`) -/
theorem next_some {sv : SolverCfg S} {H : Nat → S → EInt} {B0 B : Int} (hwf : WellFormed sv H B0 B) {s : Sys S}
    (hI : PCInv sv H B s) (hL : LayInv sv s) {i : Nat} {w : WSt S} (hw : s.ws[i]? = some w)
    (h1 : w ≠ .done) (h2 : w ≠ .waiting) : ∃ t, next sv s i = some t := by
  have hmem := List.mem_of_getElem? hw
  have hcr := hL.hand.noCrash w hmem
  have hwok := hI.ws w hmem
  unfold next
  rw [hw]
  cases w with
  | idle =>
    simp only
    split
    · exact ⟨_, rfl⟩
    · next ha =>
      have ha : s.crit.base.abort = false := by simpa using ha
      split
      · split <;> exact ⟨_, rfl⟩
      · next N rest hp =>
        have hpm := popMax_popMax hp
        split
        · exact ⟨_, rfl⟩
        · have hN : N.depth ≤ sv.P.nbVars :=
            node_depth_le hwf (hI.base.fr N ((mem_of_popMax hpm N).mpr (Or.inl rfl)))
          obtain ⟨c'', hc''⟩ := take_ne_none hL hw ha hpm hN
          rw [hc'']
          exact ⟨_, rfl⟩
  | waiting => exact absurd rfl h2
  | done => exact absurd rfl h1
  | crashed n => cases hcr
  | readR n => exact ⟨_, rfl⟩
  | compR n lb =>
    simp only
    have hd := node_depth_le hwf (hwok.node n rfl)
    rw [if_pos (show sv.outR (cache0 sv) (store0 sv) 0 n lb = .ok from
      compile_no_crash (sv.cfg .restricted n lb) _ _ 0 rfl rfl (hwf.width n) hwf.nv hd)]
    exact ⟨_, rfl⟩
  | updR n lb o => exact ⟨_, rfl⟩
  | readX n => exact ⟨_, rfl⟩
  | compX n lb =>
    simp only
    have hd := node_depth_le hwf (hwok.node n rfl)
    rw [if_pos (show sv.outX (cache0 sv) (store0 sv) 0 n lb = .ok from
      compile_no_crash (sv.cfg .relaxed n lb) _ _ 0 rfl rfl (hwf.width n) hwf.nv hd)]
    exact ⟨_, rfl⟩
  | updX n lb o => exact ⟨_, rfl⟩
  | enq n lb o => exact ⟨_, rfl⟩
  | abortS n => exact ⟨_, rfl⟩
  | fin n te =>
    simp only
    obtain ⟨c', hc'⟩ := notify_ne_none hL hw (node_depth_le hwf (hwok.node n rfl))
    rw [hc']
    exact ⟨_, rfl⟩

/-- **no deadlock, no lost wake-up, no panic**: as long as some worker has not left its loop, some worker can move -/
theorem pstep_progress {sv : SolverCfg S} {H : Nat → S → EInt} {B0 B : Int} (hwf : WellFormed sv H B0 B) {s : Sys S}
    (hI : PCInv sv H B s) (hL : LayInv sv s) (hlive : ¬ AllDone s) :
    ∃ i t, next sv s i = some t ∧ PStep sv s t := by
  -- some worker is neither gone nor parked
  have hex : ∃ w ∈ s.ws, w ≠ WSt.done ∧ w ≠ WSt.waiting := by
    by_cases hwait : WSt.waiting ∈ s.ws
    · have h0 := hL.hand.parked hwait
      rw [hL.hand.cnt] at h0
      have hpos : 0 < s.ws.countP WSt.holds := by omega
      obtain ⟨w, hw, hh⟩ := List.countP_pos_iff.mp hpos
      refine ⟨w, hw, ?_, ?_⟩ <;> intro e <;> rw [e] at hh <;> cases hh
    · have : ∃ w ∈ s.ws, w ≠ WSt.done := by
        apply Classical.byContradiction
        intro hno
        apply hlive
        intro w hw
        apply Classical.byContradiction
        intro hne
        exact hno ⟨w, hw, hne⟩
      obtain ⟨w, hw, hne⟩ := this
      exact ⟨w, hw, hne, fun e => hwait (e ▸ hw)⟩
  obtain ⟨w, hw, h1, h2⟩ := hex
  obtain ⟨i, hi⟩ := List.mem_iff_getElem?.mp hw
  obtain ⟨t, ht⟩ := next_some hwf hI hL hi h1 h2
  exact ⟨i, t, ht, next_step ht⟩

/-- the scheduler run along a list of worker indices (a worker that cannot move is skipped) -/
def runSched (sv : SolverCfg S) : Sys S → List Nat → Sys S
  | s, [] => s
  | s, i :: is =>
    match next sv s i with
    | some t => runSched sv t is
    | none => runSched sv s is

theorem prun_head {sv : SolverCfg S} {s t u : Sys S} (h : PStep sv s t) (r : PRun sv t u) : PRun sv s u := by
  induction r with
  | refl => exact RunG.tail (RunG.refl _) h
  | tail _ hst ih => exact RunG.tail ih hst

theorem prun_trans {sv : SolverCfg S} {s t u : Sys S} (h1 : PRun sv s t) (h2 : PRun sv t u) : PRun sv s u := by
  induction h2 with
  | refl => exact h1
  | tail _ hst ih => exact RunG.tail ih hst

theorem runSched_run (sv : SolverCfg S) : ∀ (is : List Nat) (s : Sys S), PRun sv s (runSched sv s is) := by
  intro is
  induction is with
  | nil => intro s; exact RunG.refl s
  | cons i is ih =>
    intro s
    unfold runSched
    cases h : next sv s i with
    | none => exact ih s
    | some t => exact prun_head (next_step h) (ih t)

/-- observable summary of a worker state (for `decide`) -/
def tag : WSt S → Nat
  | .idle => 0 | .waiting => 1 | .done => 2 | .crashed _ => 3 | .readR _ => 4 | .compR _ _ => 5 | .updR _ _ _ => 6
  | .readX _ => 7 | .compX _ _ => 8 | .updX _ _ _ => 9 | .enq _ _ _ => 10 | .abortS _ => 11 | .fin _ _ => 12

theorem tag_idle {w : WSt S} (h : tag w = 0) : w = .idle := by cases w <;> simp_all [tag]
theorem tag_done {w : WSt S} (h : tag w = 2) : w = .done := by cases w <;> simp_all [tag]

/-! ## 7. uninterrupted runs: no cut-off ever strikes -/

/-- no cut-off has struck so far: the abort flag is down, no worker is on the abort path -/
def NoCut (s : Sys S) : Prop :=
  s.crit.base.abort = false ∧ ∀ w ∈ s.ws, ∀ n, w ≠ WSt.abortS n ∧ w ≠ WSt.fin n true

/-- no worker has just been cut off -/
def NoAbortS (s : Sys S) : Prop := ∀ w ∈ s.ws, ∀ n, w ≠ WSt.abortS n

theorem noCut_set {ws : List (WSt S)} {i : Nat} {w' : WSt S}
    (h : ∀ w ∈ ws, ∀ n, w ≠ WSt.abortS n ∧ w ≠ WSt.fin n true) (hn : ∀ w ∈ ws.set i w', ∀ n, w ≠ WSt.abortS n)
    (hw' : ∀ n, w' ≠ WSt.fin n true) : ∀ w ∈ ws.set i w', ∀ n, w ≠ WSt.abortS n ∧ w ≠ WSt.fin n true := by
  intro w hw n
  refine ⟨hn w hw n, ?_⟩
  rcases List.mem_or_eq_of_mem_set hw with h' | h'
  · exact (h w h' n).2
  · rw [h']; exact hw' n

/-- a step whose target shows no freshly cut-off worker keeps "no cut-off so far" -/
theorem step_noCut {ab : ParCrit S → Int → Option Int → ParCrit S} {dedup : Bool}
    {okR okX : SubP S → Int → DDOut S → Prop} {s t : Sys S}
    (h : StepG ab dedup okR okX s t) (hs : NoCut s) (ht : NoAbortS t) : NoCut t := by
  obtain ⟨ha0, hws⟩ := hs
  have hmem : ∀ {i : Nat} {w : WSt S}, s.ws[i]? = some w → ∀ n, w ≠ WSt.abortS n ∧ w ≠ WSt.fin n true :=
    fun hw => hws _ (List.mem_of_getElem? hw)
  cases h with
  | gwAborted i hw ha => rw [ha0] at ha; cases ha
  | gwComplete i hw ha ho hf => exact ⟨ha0, noCut_set hws ht (fun n => by simp)⟩
  | gwWait i hw ha ho hf => exact ⟨ha0, noCut_set hws ht (fun n => by simp)⟩
  | gwStarve i N rest c' k hw ha hp hl =>
    rw [popLoop_single] at hl
    split at hl
    · injection hl with hc _
      subst hc
      exact ⟨ha0, hws⟩
    · injection hl with _ hl; injection hl with hl; cases hl
  | gwItem i N rest c' nn k c'' hw ha hp hl ht' =>
    obtain ⟨rfl, rfl⟩ := popLoop_item hl
    obtain ⟨_, _, _, _, t5, _⟩ := take_spec ht'
    exact ⟨t5.trans ha0, noCut_set hws ht (fun n => by simp)⟩
  | gwCrash i N rest c' nn k hw ha hp hl ht' =>
    obtain ⟨rfl, rfl⟩ := popLoop_item hl
    exact ⟨ha0, noCut_set hws ht (fun n => by simp)⟩
  | readLbR i n hw => exact ⟨ha0, noCut_set hws ht (fun m => by split <;> simp)⟩
  | compileR i n lb r hw hok => exact ⟨ha0, noCut_set hws ht (fun m => by cases r <;> simp [WSt.afterR])⟩
  | updateR i n lb o hw =>
    exact ⟨(updateBest_fringe s.crit.base o).2.2.1.trans ha0, noCut_set hws ht (fun m => by split <;> simp)⟩
  | readLbX i n hw => exact ⟨ha0, noCut_set hws ht (fun m => by simp)⟩
  | compileX i n lb r hw hok => exact ⟨ha0, noCut_set hws ht (fun m => by cases r <;> simp [WSt.afterX])⟩
  | updateX i n lb o hw =>
    exact ⟨(updateBest_fringe s.crit.base o).2.2.1.trans ha0, noCut_set hws ht (fun m => by split <;> simp)⟩
  | enqueue i n lb o hw => exact ⟨(enqueue_abort dedup _ _).trans ha0, noCut_set hws ht (fun m => by simp)⟩
  | abort i n top hw htop => exact absurd rfl (hmem hw n).1
  | notify i n te c' hw hn =>
    obtain ⟨n1, _, _, _⟩ := notify_spec hn
    cases te with
    | true => exact absurd rfl (hmem hw n).2
    | false =>
      refine ⟨by rw [n1]; exact ha0, noCut_set (fun w hw' m => ?_) ht (fun m => by simp)⟩
      obtain ⟨w0, hw0, rfl⟩ := List.mem_map.mp hw'
      refine ⟨fun e => ?_, fun e => ?_⟩
      · have : w0 = .abortS m := by cases w0 <;> simp_all [WSt.wake]
        exact (hws w0 hw0 m).1 this
      · exact (hws w0 hw0 m).2 (wake_eq_fin e)

/-- the scheduler never cuts a compilation off -/
theorem next_noAbortS {sv : SolverCfg S} {s t : Sys S} {i : Nat} (hs : NoCut s) (h : next sv s i = some t) : NoAbortS t := by
  have hws : ∀ w ∈ s.ws, ∀ n, w ≠ WSt.abortS n := fun w hw n => (hs.2 w hw n).1
  have key : ∀ (c : ParCrit S) (w' : WSt S), (∀ n, w' ≠ WSt.abortS n) → NoAbortS { crit := c, ws := s.ws.set i w' } :=
    fun c w' hw' => mem_set_elim (P := fun w => ∀ n, w ≠ WSt.abortS n) hws hw'
  unfold next at h
  split at h
  · cases h
  · split at h
    · injection h with h; subst h; exact key _ _ (fun n => by simp)
    · split at h
      · split at h
        · injection h with h; subst h; exact key _ _ (fun n => by simp)
        · injection h with h; subst h; exact key _ _ (fun n => by simp)
      · split at h
        · injection h with h; subst h; exact hws
        · split at h
          · injection h with h; subst h; exact key _ _ (fun n => by simp)
          · cases h
  · cases h
  · cases h
  · cases h
  · injection h with h; subst h; exact key _ _ (fun n => by split <;> simp)
  · split at h
    · injection h with h; subst h; exact key _ _ (fun n => by simp)
    · cases h
  · injection h with h; subst h; exact key _ _ (fun n => by split <;> simp)
  · injection h with h; subst h; exact key _ _ (fun n => by simp)
  · split at h
    · injection h with h; subst h; exact key _ _ (fun n => by simp)
    · cases h
  · injection h with h; subst h; exact key _ _ (fun n => by split <;> simp)
  · injection h with h; subst h; exact key _ _ (fun n => by simp)
  · next n hw => exact absurd rfl (hs.2 _ (List.mem_of_getElem? hw) n).1
  · next n te hw =>
    split at h
    · injection h with h; subst h
      refine mem_set_elim (P := fun w => ∀ n, w ≠ WSt.abortS n) (fun w hw' m e => ?_) (fun m => by split <;> simp)
      obtain ⟨w0, hw0, rfl⟩ := List.mem_map.mp hw'
      have : w0 = .abortS m := by cases w0 <;> simp_all [WSt.wake]
      exact hws w0 hw0 m this
    · cases h

/-- a cut-off strikes the compilation worker `i` is about to run (`none`: the worker is not about to compile) -/
def cutoffAt (s : Sys S) (i : Nat) : Option (Sys S) :=
  match s.ws[i]? with
  | some (.compR n _) => some { crit := s.crit, ws := s.ws.set i (.abortS n) }
  | some (.compX n _) => some { crit := s.crit, ws := s.ws.set i (.abortS n) }
  | _ => none

theorem cutoffAt_step {sv : SolverCfg S} {s t : Sys S} {i : Nat} (h : cutoffAt s i = some t) : PStep sv s t := by
  unfold cutoffAt at h
  split at h
  · next n lb hw => injection h with h; subst h; exact .compileR s i n lb .cutoff hw (fun o ho => by cases ho)
  · next n lb hw => injection h with h; subst h; exact .compileX s i n lb .cutoff hw (fun o ho => by cases ho)
  · cases h

/-- **uninterrupted runs**: finite schedules along which no compilation is ever cut off -/
inductive URun (sv : SolverCfg S) : Sys S → Sys S → Prop
  | refl (s : Sys S) : URun sv s s
  | tail {s t u : Sys S} : URun sv s t → PStep sv t u → NoAbortS u → URun sv s u

theorem URun.toRun {sv : SolverCfg S} {s t : Sys S} (h : URun sv s t) : PRun sv s t := by
  induction h with
  | refl => exact RunG.refl _
  | tail _ hst _ ih => exact RunG.tail ih hst

theorem URun.noCut {sv : SolverCfg S} {s t : Sys S} (h : URun sv s t) (hs : NoCut s) : NoCut t := by
  induction h with
  | refl => exact hs
  | tail _ hst hn ih => exact step_noCut hst ih hn

theorem init_noCut (P : Problem S) (primal : Option (Int × List Dec)) (dedup : Bool) (U : Nat) :
    NoCut (Sys.init P primal dedup U) := by
  refine ⟨(init_base P primal dedup).2.1, fun w hw n => ?_⟩
  have hw : w ∈ List.replicate U (WSt.idle : WSt S) := hw
  rw [List.eq_of_mem_replicate hw]
  exact ⟨by simp, by simp⟩

end Ddo.ParClosed
