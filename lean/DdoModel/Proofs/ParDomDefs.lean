import DdoModel.Props.C10b
import DdoModel.Props.C03c
/-! # The PARALLEL solver with the shared dominance checker — definitions

`ParSys.Step` (the concrete transition system of `parallel.rs`, `DdoModel/ParSys.lean`) instantiated with compilations of the
diagram model **with the dominance checker enabled** (`DSolverCfg.cfg`: `dom := some D`, `EmptyCache`).

* `okRd` / `okXd`: the answer a worker gets is the answer of `compile` run from **some** store all of whose entries are exactly
  reached items (`StoreReach`) — *whatever the shared store is at that moment*: nothing else is assumed of it (adversarial store);
* `QStep` / `QRun`: the projected system (no cut-off: `NoAbortS`, as for `dominance_solver_optimal`);
* `DSys`, `DPStep`: the system that carries the shared store as a state component, every compilation reading and updating it;
* `DWOk`, `DSysInv`: the coverage invariant for a protected family (`BBInv`-style: "some open sub-problem lies on the protected
  family with a bound that does not cut the optimum off, or the incumbent is optimal"), per-worker stage facts;
* `DPCInv`: the side conditions of the diagram theorems. -/
set_option linter.unusedSectionVars false
set_option linter.unusedVariables false
namespace Ddo.ParDom
open Ddo Ddo.Truth Ddo.Closed Ddo.ParSys Ddo.ParClosed Ddo.C10
open Ddo.C01 (SolverCfg WellFormed toOut SolOf)
variable {S K : Type} [DecidableEq S] [DecidableEq K]

/-! ## 1. the answers of the compilations -/

/-- the restricted compilation of `N` with the (stale) incumbent `lb` answered `o`: the result of the diagram model with the
    checker enabled, run from a store whose entries are exactly reached items -/
def okRd (dv : DSolverCfg S K) (N : SubP S) (lb : Int) (o : DDOut S) : Prop :=
  ∃ store : DomStore S K, StoreReach dv.D dv.sv.P store ∧ store.layers.length = dv.sv.P.nbVars + 1 ∧
    (dv.compR store N lb).1 = .ok ∧ o = toOut (dv.compR store N lb).2.1

/-- the same for the relaxed compilation -/
def okXd (dv : DSolverCfg S K) (N : SubP S) (lb : Int) (o : DDOut S) : Prop :=
  ∃ store : DomStore S K, StoreReach dv.D dv.sv.P store ∧ store.layers.length = dv.sv.P.nbVars + 1 ∧
    (dv.compX store N lb).1 = .ok ∧ o = toOut (dv.compX store N lb).2.1

/-- **the steps of the parallel solver with the checker, store abstracted** (no compilation is cut off) -/
def QStep (dv : DSolverCfg S K) (s t : Sys S) : Prop :=
  Step dv.sv.dedup (okRd dv) (okXd dv) s t ∧ NoAbortS t

inductive QRun (dv : DSolverCfg S K) : Sys S → Sys S → Prop
  | refl (s : Sys S) : QRun dv s s
  | tail {s t u : Sys S} : QRun dv s t → QStep dv t u → QRun dv s u

/-! ## 2. the system with the shared store as a state component -/

structure DSys (S K : Type) where
  sys : Sys S
  store : DomStore S K

def DSys.init (dv : DSolverCfg S K) (U : Nat) : DSys S K :=
  ⟨Sys.init dv.sv.P none dv.sv.dedup U, DomStore.init dv.sv.P.nbVars⟩

/-- the critical sections are those of `ParSys` (they do not touch the checker); a compilation reads the shared store and leaves
    it as the compilation left it -/
inductive DPStep (dv : DSolverCfg S K) : DSys S K → DSys S K → Prop
  | sec (s : DSys S K) (t : Sys S)
      (h : Step dv.sv.dedup (fun _ _ _ => False) (fun _ _ _ => False) s.sys t) (hna : NoAbortS t) :
      DPStep dv s ⟨t, s.store⟩
  | compileR (s : DSys S K) (i : Nat) (n : SubP S) (lb : Int) (hw : s.sys.ws[i]? = some (.compR n lb))
      (hok : (dv.compR s.store n lb).1 = .ok) :
      DPStep dv s ⟨{ crit := s.sys.crit, ws := s.sys.ws.set i (.updR n lb (toOut (dv.compR s.store n lb).2.1)) },
        (dv.compR s.store n lb).2.2.2.store⟩
  | compileX (s : DSys S K) (i : Nat) (n : SubP S) (lb : Int) (hw : s.sys.ws[i]? = some (.compX n lb))
      (hok : (dv.compX s.store n lb).1 = .ok) :
      DPStep dv s ⟨{ crit := s.sys.crit, ws := s.sys.ws.set i (.updX n lb (toOut (dv.compX s.store n lb).2.1)) },
        (dv.compX s.store n lb).2.2.2.store⟩

inductive DPRun (dv : DSolverCfg S K) : DSys S K → DSys S K → Prop
  | refl (s : DSys S K) : DPRun dv s s
  | tail {s t u : DSys S K} : DPRun dv s t → DPStep dv t u → DPRun dv s u

/-! ## 3. the coverage invariant for a protected family (abstract in the diagram) -/
section abstract
variable (On : SubP S → Prop) (opt : Int) (Sol : List Dec → Int → Prop)

/-- stage facts of a worker, relative to the *current* incumbent `lbNow` -/
def DWOk (lbNow : Int) : WSt S → Prop
  | .compR _ lb => lb ≤ lbNow
  | .updR n lb o => lb ≤ lbNow ∧ DCompileOk On opt Sol n lb o
  | .compX _ lb => lb ≤ lbNow
  | .updX n lb o => lb ≤ lbNow ∧ DCompileOk On opt Sol n lb o ∧ (o.isExact = false → DCutsetOk On opt n lb o)
  | .enq n lb o => lb ≤ lbNow ∧ DCutsetOk On opt n lb o ∧ (∀ w, o.bestExact = some w → w ≤ lbNow)
  | _ => True

/-- **the coverage invariant of the parallel system, protected-family form** -/
structure DSysInv (s : Sys S) : Prop where
  lbOk : s.crit.base.bestLb ≤ opt
  solOk : ∀ p, s.crit.base.bestSol = some p → Sol p s.crit.base.bestLb
  loc : ∀ (i : Nat) (w : WSt S), s.ws[i]? = some w → DWOk On opt Sol s.crit.base.bestLb w
  /-- if the optimum beats the incumbent, an open node on the protected family still carries it below its bound (or the search
      was aborted) -/
  cover : opt > s.crit.base.bestLb → (∃ x, Open s x ∧ On x ∧ opt ≤ x.ub) ∨ s.crit.base.abort = true
  cnt : s.crit.ongoing = s.ws.countP WSt.holds
  /-- a worker that has left saw the abort flag or the optimum -/
  doneOk : (∃ i : Nat, s.ws[i]? = some .done) → s.crit.base.abort = true ∨ s.crit.base.bestLb = opt
  finAb : ∀ (i : Nat) (n : SubP S), s.ws[i]? = some (.fin n true) → s.crit.base.abort = true

end abstract

/-! ## 4. the side conditions of the diagram theorems -/

/-- what a worker carries between two sections: a stale incumbent in range, an answer of the diagram model -/
def DWInv (dv : DSolverCfg S K) (B : Int) : WSt S → Prop
  | .compR _ lb => iMin ≤ lb ∧ lb ≤ B
  | .compX _ lb => iMin ≤ lb ∧ lb ≤ B
  | .updR n lb o => okRd dv n lb o
  | .updX n lb o => okXd dv n lb o
  | .enq n lb o => okXd dv n lb o
  | _ => True

structure DWOkP (dv : DSolverCfg S K) (B : Int) (w : WSt S) : Prop where
  node : ∀ n, w.node = some n → C01.NodeOk dv.sv.P n
  stage : DWInv dv B w

/-- every fringe entry and every node in hand is reached exactly; incumbents in range; carried answers are the model's -/
structure DPCInv (dv : DSolverCfg S K) (H : Nat → S → EInt) (B : Int) (s : Sys S) : Prop where
  base : BaseOk dv.sv H B s.crit.base
  ws : ∀ w ∈ s.ws, DWOkP dv B w

/-- the model answers together with the side conditions -/
def okRd' (dv : DSolverCfg S K) (B : Int) (n : SubP S) (lb : Int) (o : DDOut S) : Prop :=
  okRd dv n lb o ∧ C01.NodeOk dv.sv.P n ∧ iMin ≤ lb ∧ lb ≤ B
def okXd' (dv : DSolverCfg S K) (B : Int) (n : SubP S) (lb : Int) (o : DDOut S) : Prop :=
  okXd dv n lb o ∧ C01.NodeOk dv.sv.P n ∧ iMin ≤ lb ∧ lb ≤ B

end Ddo.ParDom
