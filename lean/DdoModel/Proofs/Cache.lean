import DdoModel.Cache
/-! Helper lemmas about the cache model (order facts about `Thr`, frame lemmas of the layers). -/
set_option linter.unusedSectionVars false
namespace Ddo
variable {S : Type} [DecidableEq S]

/-- rank of a threshold: the derived order on `(value, explored)` is the order of `2·value + explored` -/
def Thr.key (a : Thr) : Int := 2 * a.value + (if a.explored then 1 else 0)

theorem Thr.le_iff_key (a b : Thr) : Thr.le a b ↔ a.key ≤ b.key := by
  obtain ⟨av, ae⟩ := a; obtain ⟨bv, be⟩ := b
  unfold Thr.le Thr.key; cases ae <;> cases be <;> simp <;> omega

theorem Thr.key_inj (a b : Thr) (h : a.key = b.key) : a = b := by
  obtain ⟨av, ae⟩ := a; obtain ⟨bv, be⟩ := b
  unfold Thr.key at h; cases ae <;> cases be <;> simp at h ⊢ <;> omega

theorem Thr.join_key (a b : Thr) : (Thr.join a b).key = max a.key b.key := by
  unfold Thr.join
  split
  · next h => have := (Thr.le_iff_key a b).mp h; omega
  · next h => have : ¬ a.key ≤ b.key := fun h' => h ((Thr.le_iff_key a b).mpr h'); omega

theorem Thr.join_comm (a b : Thr) : Thr.join a b = Thr.join b a := by
  apply Thr.key_inj; rw [Thr.join_key, Thr.join_key]; omega
theorem Thr.join_assoc (a b c : Thr) : Thr.join (Thr.join a b) c = Thr.join a (Thr.join b c) := by
  apply Thr.key_inj; simp only [Thr.join_key]; omega
theorem Thr.join_idem (a : Thr) : Thr.join a a = a := by
  apply Thr.key_inj; rw [Thr.join_key]; omega
theorem Thr.le_join_left (a b : Thr) : Thr.le a (Thr.join a b) := by
  rw [Thr.le_iff_key, Thr.join_key]; omega
theorem Thr.le_join_right (a b : Thr) : Thr.le b (Thr.join a b) := by
  rw [Thr.le_iff_key, Thr.join_key]; omega
theorem Thr.le_refl (a : Thr) : Thr.le a a := by rw [Thr.le_iff_key]; omega
theorem Thr.le_trans {a b c : Thr} (h1 : Thr.le a b) (h2 : Thr.le b c) : Thr.le a c := by
  rw [Thr.le_iff_key] at *; omega
theorem Thr.le_antisymm {a b : Thr} (h1 : Thr.le a b) (h2 : Thr.le b a) : a = b := by
  rw [Thr.le_iff_key] at *; exact Thr.key_inj _ _ (by omega)

/-- the cell of one `(state, depth)` after an update -/
def updCell (cell : Option Thr) (t : Thr) : Option Thr :=
  match cell with
  | none => some t
  | some e => some (Thr.join t e)

theorem CLayer.get_upd_same (l : CLayer S) (s : S) (t : Thr) :
    (l.upd s t).get s = updCell (l.get s) t := by
  induction l with
  | nil => simp [CLayer.upd, CLayer.get, updCell]
  | cons p r ih =>
    obtain ⟨s', e⟩ := p
    by_cases h : s' = s
    · simp [CLayer.upd, CLayer.get, h, updCell]
    · simp [CLayer.upd, CLayer.get, h, ih]

theorem CLayer.get_upd_other (l : CLayer S) (s s2 : S) (t : Thr) (hne : s2 ≠ s) :
    (l.upd s t).get s2 = l.get s2 := by
  induction l with
  | nil => simp [CLayer.upd, CLayer.get]; intro h; exact absurd h.symm hne
  | cons p r ih =>
    obtain ⟨s', e⟩ := p
    by_cases h : s' = s
    · subst h
      have : ¬ s' = s2 := fun h' => hne h'.symm
      simp [CLayer.upd, CLayer.get, this]
    · by_cases h2 : s' = s2
      · subst h2; simp [CLayer.upd, CLayer.get, h]
      · simp [CLayer.upd, CLayer.get, h, h2, ih]

theorem Cache.get_update (c c' : Cache S) (s s2 : S) (d d2 : Nat) (t : Thr)
    (h : c.update s d t = some c') :
    c'.get s2 d2 = if d2 = d ∧ s2 = s then (c.get s2 d2).map (fun cell => updCell cell t) else c.get s2 d2 := by
  unfold Cache.update at h
  cases hl : c.layers[d]? with
  | none => simp [hl] at h
  | some l =>
    simp only [hl, Option.some.injEq] at h
    subst h
    have hd : d < c.layers.length := by
      rcases Nat.lt_or_ge d c.layers.length with h | h
      · exact h
      · rw [List.getElem?_eq_none_iff.mpr h] at hl; cases hl
    by_cases hdd : d2 = d
    · subst hdd
      simp only [Cache.get, List.getElem?_set_self hd, hl, true_and]
      by_cases hs : s2 = s
      · subst hs; simp [CLayer.get_upd_same]
      · simp [hs, CLayer.get_upd_other _ _ _ _ hs]
    · have : ¬ (d2 = d ∧ s2 = s) := fun h' => hdd h'.1
      simp only [this, if_false, Cache.get]
      rw [List.getElem?_set_ne (fun h' => hdd h'.symm)]

theorem Cache.get_clearLayer (c c' : Cache S) (s2 : S) (d d2 : Nat) (h : c.clearLayer d = some c') :
    c'.get s2 d2 = if d2 = d then some none else c.get s2 d2 := by
  unfold Cache.clearLayer at h
  cases hl : c.layers[d]? with
  | none => simp [hl] at h
  | some l =>
    simp only [hl, Option.some.injEq] at h
    subst h
    have hd : d < c.layers.length := by
      rcases Nat.lt_or_ge d c.layers.length with h | h
      · exact h
      · rw [List.getElem?_eq_none_iff.mpr h] at hl; cases hl
    by_cases hdd : d2 = d
    · subst hdd; simp [Cache.get, List.getElem?_set_self hd, CLayer.get]
    · simp only [hdd, if_false, Cache.get]
      rw [List.getElem?_set_ne (fun h' => hdd h'.symm)]

theorem Cache.get_clear (c : Cache S) (s2 : S) (d2 : Nat) :
    c.clear.get s2 d2 = (c.get s2 d2).map (fun _ => none) := by
  simp only [Cache.get, Cache.clear, List.getElem?_map]
  cases c.layers[d2]? <;> simp [CLayer.get]

theorem Cache.layers_len_update (c c' : Cache S) (s : S) (d : Nat) (t : Thr) (h : c.update s d t = some c') :
    c'.layers.length = c.layers.length := by
  unfold Cache.update at h; split at h
  · cases h
  · injection h with h; subst h; simp
theorem Cache.layers_len_clearLayer (c c' : Cache S) (d : Nat) (h : c.clearLayer d = some c') :
    c'.layers.length = c.layers.length := by
  unfold Cache.clearLayer at h; split at h
  · cases h
  · injection h with h; subst h; simp
theorem Cache.layers_len_clear (c : Cache S) : c.clear.layers.length = c.layers.length := by
  simp [Cache.clear]

theorem Cache.update_isSome (c : Cache S) (s : S) (d : Nat) (t : Thr) (hd : d < c.layers.length) :
    ∃ c', c.update s d t = some c' := by
  unfold Cache.update; rw [List.getElem?_eq_getElem hd]; exact ⟨_, rfl⟩
theorem Cache.clearLayer_isSome (c : Cache S) (d : Nat) (hd : d < c.layers.length) :
    ∃ c', c.clearLayer d = some c' := by
  unfold Cache.clearLayer; rw [List.getElem?_eq_getElem hd]; exact ⟨_, rfl⟩
theorem Cache.update_none (c : Cache S) (s : S) (d : Nat) (t : Thr) (hd : c.layers.length ≤ d) :
    c.update s d t = none := by
  unfold Cache.update; rw [List.getElem?_eq_none_iff.mpr hd]
theorem Cache.clearLayer_none (c : Cache S) (d : Nat) (hd : c.layers.length ≤ d) :
    c.clearLayer d = none := by
  unfold Cache.clearLayer; rw [List.getElem?_eq_none_iff.mpr hd]

end Ddo
