import DdoModel.Proofs.DomSound
/-! # Relaxed compilation with the dominance checker enabled — part A: flag analysis of `relaxLayer` / `expandAll`

* `FlagInv`, `relaxLayer_specF` — `relaxLayer` position-wise, flags included: a node of the relaxed layer is kept at its
  position (exactness does not increase, an exact node keeps its value) or merged into the node at the merged position,
  which is flagged relaxed (hence inexact).
* `fold_child_exsrc` — `expandAll`: an exact child only holds arcs from exact nodes of the expanded layer.
-/
set_option linter.unusedSectionVars false
set_option linter.unusedVariables false
namespace Ddo.C10
open Ddo Ddo.C01 Ddo.Closed Ddo.Truth
variable {S K : Type} [DecidableEq S] [DecidableEq K]

/-! ## `relaxLayer`, flags position-wise -/

/-- `ly` against the layer `base` it was computed from: exactness does not increase position-wise; the node at `mpos` is
    flagged relaxed -/
structure FlagInv (mpos : Nat) (base ly : List (Node S)) : Prop where
  ex : ∀ (q : Nat) (n' : Node S), ly[q]? = some n' → n'.isExact = true → ∃ n, base[q]? = some n ∧ n.isExact = true
  rel : ∀ m, ly[mpos]? = some m → m.fRelaxed = true

theorem FlagInv.set {mpos : Nat} {base ly : List (Node S)} (h : FlagInv mpos base ly) {p : Nat} {n n' : Node S}
    (hp : ly[p]? = some n) (he : n'.isExact = true → n.isExact = true) (hr : n.fRelaxed = true → n'.fRelaxed = true) :
    FlagInv mpos base (ly.set p n') := by
  have hlt := Cover.lt_of_getElem?_some hp
  refine ⟨fun q m hq hm => ?_, fun m hm => ?_⟩
  · by_cases hpq : p = q
    · subst hpq
      rw [List.getElem?_set_self hlt] at hq
      cases hq
      exact h.ex p n hp (he hm)
    · rw [List.getElem?_set_ne hpq] at hq
      exact h.ex q m hq hm
  · by_cases hpq : p = mpos
    · subst hpq
      rw [List.getElem?_set_self hlt] at hm
      cases hm
      exact hr (h.rel n hp)
    · rw [List.getElem?_set_ne hpq] at hm
      exact h.rel m hm

theorem redirStep_flag (cfg : Cfg S K) (layers : List (List (Node S))) (merged : S) (mpos : Nat) (dropN : Node S)
    (acc : List (Node S) × List (Call S)) (e : Arc) (base : List (Node S)) (h : FlagInv mpos base acc.1) :
    FlagInv mpos base (Cover.redirStep cfg layers merged mpos dropN acc e).1 := by
  rcases Cover.redirStep_cases cfg layers merged mpos dropN acc e with ⟨h1, _⟩ | ⟨src, m, _, hm, h1⟩
  · rw [h1]; exact h
  · rw [h1]
    refine h.set hm (fun he => ?_) (fun hr => ?_)
    · rw [Ddo.appendEdge_isExact, Bool.and_eq_true] at he
      exact he.2
    · rw [Ddo.appendEdge_fRelaxed]; exact hr

theorem dropStep_flag (cfg : Cfg S K) (layers : List (List (Node S))) (merged : S) (mpos : Nat)
    (acc : List (Node S) × List (Call S)) (p : Nat) (base : List (Node S)) (h : FlagInv mpos base acc.1) :
    FlagInv mpos base (Cover.dropStep cfg layers merged mpos acc p).1 := by
  unfold Cover.dropStep
  cases h1 : acc.1[p]? with
  | none => exact h
  | some dropN =>
    dsimp only
    refine Ddo.foldl_inv (β := List (Node S) × List (Call S)) (fun b => FlagInv mpos base b.1) _ dropN.inb _
      (h.set h1 (fun he => he) (fun hr => hr)) ?_
    intro b e _ hb
    exact redirStep_flag cfg layers merged mpos _ b e base hb

theorem outer_flag (cfg : Cfg S K) (layers : List (List (Node S))) (merged : S) (mpos : Nat)
    (rest : List Nat) (acc : List (Node S) × List (Call S)) (base : List (Node S)) (h : FlagInv mpos base acc.1) :
    FlagInv mpos base (rest.foldl (Cover.dropStep cfg layers merged mpos) acc).1 :=
  Ddo.foldl_inv (β := List (Node S) × List (Call S)) (fun b => FlagInv mpos base b.1) _ rest acc h
    (fun b p _ hb => dropStep_flag cfg layers merged mpos b p base hb)

theorem markRelaxed_flag (mpos : Nat) (base l : List (Node S))
    (h : ∀ (q : Nat) (n' : Node S), l[q]? = some n' → n'.isExact = true → ∃ n, base[q]? = some n ∧ n.isExact = true) :
    FlagInv mpos base (Cover.markRelaxed l mpos) := by
  unfold Cover.markRelaxed
  cases h1 : l[mpos]? with
  | none => exact ⟨h, fun m hm => by rw [h1] at hm; cases hm⟩
  | some n =>
    dsimp only
    have hlt := Cover.lt_of_getElem?_some h1
    refine ⟨fun q m hq hm => ?_, fun m hm => ?_⟩
    · by_cases hpq : mpos = q
      · subst hpq
        rw [List.getElem?_set_self hlt] at hq
        cases hq
        rw [Ddo.isExact_of_fRelaxed rfl] at hm
        cases hm
      · rw [List.getElem?_set_ne hpq] at hq
        exact h q m hq hm
    · rw [List.getElem?_set_self hlt] at hm
      cases hm
      rfl

theorem undelete_flag (mpos : Nat) (base l : List (Node S)) (c : List Nat) (h : FlagInv mpos base l) :
    FlagInv mpos base (Cover.undelete l c) := by
  unfold Cover.undelete
  cases c.getLast? with
  | none => exact h
  | some sp =>
    dsimp only
    cases h1 : l[sp]? with
    | none => exact h
    | some n => exact h.set h1 (fun he => he) (fun hr => hr)

/-- what a node `u` (position `q`) of the layer becomes after the relaxation, flags included: it is kept at its position
    (value and arcs can only grow, exactness does not increase, an exact node keeps its value), or it is merged into an
    inexact node to which every one of its inbound arcs has been redirected -/
def TransferF (cfg : Cfg S K) (layers : List (List (Node S))) (layer : List (Node S)) (cur : List Nat)
    (u n' : Node S) : Prop :=
  (n'.state = u.state ∧ u.value ≤ n'.value ∧ (∀ a ∈ u.inb, a ∈ n'.inb) ∧
    (n'.isExact = true → u.isExact = true ∧ n'.value = u.value)) ∨
  (n'.isExact = false ∧ u.state ∈ Cover.restStatesOf cfg layer cur ∧ n'.state = Cover.mergedOf cfg layer cur ∧
    ∀ a ∈ u.inb, ∀ src, getNode layers a.fromL a.fromP = some src →
      (⟨a.fromL, a.fromP, a.dec, cfg.R.relax src.state u.state (Cover.mergedOf cfg layer cur) a.dec a.cost⟩ : Arc) ∈ n'.inb ∧
      satAdd src.value (cfg.R.relax src.state u.state (Cover.mergedOf cfg layer cur) a.dec a.cost) ≤ n'.value)

theorem relax_coreF (cfg : Cfg S K) (layers : List (List (Node S))) (layer layer1 out : List (Node S)) (cur cur' : List Nat)
    (mpos : Nat) (lg0 : List (Call S))
    (h1 : ∀ q, q < layer.length → layer1[q]? = layer[q]?)
    (hm0 : ∃ m0, layer1[mpos]? = some m0 ∧ m0.state = Cover.mergedOf cfg layer cur)
    (hout : Cover.Ext mpos ((Cover.restOf cfg layer cur).foldl (Cover.dropStep cfg layers (Cover.mergedOf cfg layer cur) mpos)
            (Cover.markRelaxed layer1 mpos, lg0)).1 out)
    (houtI : Bounds.InbSub mpos ((Cover.restOf cfg layer cur).foldl (Cover.dropStep cfg layers (Cover.mergedOf cfg layer cur) mpos)
            (Cover.markRelaxed layer1 mpos, lg0)).1 out)
    (hF : FlagInv mpos layer out)
    (hkeep : ∀ q ∈ Cover.keepOf cfg layer cur, q ∈ cur') (hmp : mpos ∈ cur')
    (q : Nat) (hq : q ∈ cur) (u : Node S) (hu : layer[q]? = some u) :
    ∃ q' ∈ cur', ∃ n', out[q']? = some n' ∧ TransferF cfg layers layer cur u n' := by
  have hql := Cover.lt_of_getElem?_some hu
  have hu1 : layer1[q]? = some u := by rw [h1 q hql]; exact hu
  have E1 := Cover.markRelaxed_ext mpos layer1 mpos
  have E2 := Cover.outer_ext cfg layers (Cover.mergedOf cfg layer cur) mpos (Cover.restOf cfg layer cur)
    (Cover.markRelaxed layer1 mpos, lg0)
  have E : Cover.Ext mpos layer1 out := E1.trans (E2.trans hout)
  have I1 := Bounds.markRelaxed_inbSub mpos layer1 mpos
  have I2 := Bounds.outer_inbSub cfg layers (Cover.mergedOf cfg layer cur) mpos (Cover.restOf cfg layer cur)
    (Cover.markRelaxed layer1 mpos, lg0)
  have I : Bounds.InbSub mpos layer1 out := I1.trans (I2.trans houtI)
  have hqs : q ∈ Cover.keepOf cfg layer cur ∨ q ∈ Cover.restOf cfg layer cur := by
    have : q ∈ sortSquash cfg layer cur := by unfold sortSquash; exact (Cover.mem_sortBy _ _ _).mpr hq
    rw [← List.take_append_drop (cfg.width - 1) (sortSquash cfg layer cur)] at this
    exact List.mem_append.mp this
  by_cases hqm : q = mpos
  · subst hqm
    obtain ⟨m', hm', hs', hv'⟩ := E.at_m u hu1
    obtain ⟨m'', hm'', hi'⟩ := I u hu1
    rw [hm'] at hm''; cases hm''
    refine ⟨q, hmp, m', hm', Or.inl ⟨hs', hv', hi', fun he => ?_⟩⟩
    rw [Ddo.isExact_of_fRelaxed (hF.rel m' hm')] at he
    cases he
  · have ho := E.other q hqm
    rw [hu1] at ho
    obtain ⟨n', hn', hs', hv', hi'⟩ := Cover.sig_of_map ho
    rcases hqs with hk | hr
    · refine ⟨q, hkeep q hk, n', hn', Or.inl ⟨hs', by omega, fun a ha => by rw [hi']; exact ha, fun he => ?_⟩⟩
      obtain ⟨u', hu', hue⟩ := hF.ex q n' hn' he
      rw [hu] at hu'; cases hu'
      exact ⟨hue, hv'⟩
    · obtain ⟨m0, hm0, hms⟩ := hm0
      obtain ⟨m', hm', hs'', _⟩ := E.at_m m0 hm0
      refine ⟨mpos, hmp, m', hm', Or.inr ⟨Ddo.isExact_of_fRelaxed (hF.rel m' hm'), ?_, by rw [hs'', hms], ?_⟩⟩
      · unfold Cover.restStatesOf
        exact List.mem_filterMap.mpr ⟨q, hr, by rw [hu]; rfl⟩
      · intro a ha src hsrc
        obtain ⟨m1, hm1, _, _⟩ := E1.at_m m0 hm0
        have hlb := Cover.outer_recv cfg layers (Cover.mergedOf cfg layer cur) mpos (Cover.restOf cfg layer cur)
          (Cover.markRelaxed layer1 mpos, lg0) q hr hqm u.state u.value u.inb
          (by rw [E1.other q hqm, hu1]; rfl) a ha src m1 hsrc hm1
        have hla := Bounds.outer_recvA cfg layers (Cover.mergedOf cfg layer cur) mpos (Cover.restOf cfg layer cur)
          (Cover.markRelaxed layer1 mpos, lg0) q hr hqm u.state u.value u.inb
          (by rw [E1.other q hqm, hu1]; rfl) a ha src m1 hsrc hm1
        obtain ⟨m2, hm2, hv2⟩ := Cover.LB_ext hlb hout
        rw [hm'] at hm2; cases hm2
        obtain ⟨m3, hm3, hv3⟩ := Bounds.HasArc_sub hla houtI
        rw [hm'] at hm3; cases hm3
        exact ⟨hv3, hv2⟩

/-- **post-condition of `relaxLayer`, flags included** (any list `cur` of positions of the layer) -/
theorem relaxLayer_specF (cfg : Cfg S K) (layers : List (List (Node S))) (layer : List (Node S)) (cur : List Nat)
    (log : List (Call S)) (hW : 1 ≤ cfg.width) (hcur : ∀ p ∈ cur, p < layer.length) :
    ∀ q ∈ cur, ∀ u, layer[q]? = some u →
      ∃ q' ∈ (relaxLayer cfg layers layer cur log).2.1, ∃ n', (relaxLayer cfg layers layer cur log).1[q']? = some n' ∧
        TransferF cfg layers layer cur u n' := by
  apply Cover.relaxLayer_elim cfg layers layer cur log
    (fun r => ∀ q ∈ cur, ∀ u, layer[q]? = some u → ∃ q' ∈ r.2.1, ∃ n', r.1[q']? = some n' ∧ TransferF cfg layers layer cur u n')
  · -- fresh merged node
    intro hrec d0 lg q hq u hu
    have h1 : ∀ q, q < layer.length →
        (layer ++ [Cover.freshMerged (Cover.mergedOf cfg layer cur) d0])[q]? = layer[q]? :=
      fun q hq => List.getElem?_append_left hq
    have hm0 : (layer ++ [Cover.freshMerged (Cover.mergedOf cfg layer cur) d0])[layer.length]? =
        some (Cover.freshMerged (Cover.mergedOf cfg layer cur) d0) := List.getElem?_concat_length
    have hF0 : ∀ (q : Nat) (n' : Node S), (layer ++ [Cover.freshMerged (Cover.mergedOf cfg layer cur) d0])[q]? = some n' →
        n'.isExact = true → ∃ n, layer[q]? = some n ∧ n.isExact = true := by
      intro q n' hq' he
      rcases Nat.lt_or_ge q layer.length with hlt | hge
      · rw [h1 q hlt] at hq'; exact ⟨n', hq', he⟩
      · have hlt2 := Cover.lt_of_getElem?_some hq'
        rw [List.length_append, List.length_singleton] at hlt2
        have : q = layer.length := by omega
        subst this
        rw [hm0] at hq'
        cases hq'
        cases he
    have hF := outer_flag cfg layers (Cover.mergedOf cfg layer cur) layer.length (Cover.restOf cfg layer cur)
      (Cover.markRelaxed (layer ++ [Cover.freshMerged (Cover.mergedOf cfg layer cur) d0]) layer.length, lg) layer
      (markRelaxed_flag layer.length layer _ hF0)
    exact relax_coreF cfg layers layer _ _ cur _ layer.length lg h1 ⟨_, hm0, rfl⟩ (Cover.Ext.refl _ _)
      (Bounds.InbSub.refl _ _) hF (fun q hq => List.mem_append_left _ hq)
      (List.mem_append_right _ List.mem_cons_self) q hq u hu
  · -- recycled node
    intro mp hrec lg q hq u hu
    have hmk : mp ∈ Cover.keepOf cfg layer cur := List.mem_of_find?_eq_some hrec
    have hmn : ∃ n, layer[mp]? = some n ∧ n.state = Cover.mergedOf cfg layer cur := by
      have := List.find?_some hrec
      cases h : layer[mp]? with
      | none => rw [h] at this; cases this
      | some n => rw [h] at this; exact ⟨n, rfl, of_decide_eq_true this⟩
    have hsub : ∀ q ∈ Cover.keepOf cfg layer cur, q ∈ (sortSquash cfg layer cur).take cfg.width :=
      fun q hq => Cover.mem_take_mono hq (by omega)
    have hF := undelete_flag mp layer _ ((sortSquash cfg layer cur).take cfg.width)
      (outer_flag cfg layers (Cover.mergedOf cfg layer cur) mp (Cover.restOf cfg layer cur)
        (Cover.markRelaxed layer mp, lg) layer (markRelaxed_flag mp layer layer (fun q n' hq' he => ⟨n', hq', he⟩)))
    exact relax_coreF cfg layers layer layer _ cur _ mp lg (fun _ _ => rfl) hmn (Cover.undelete_ext _ _ _)
      (Bounds.undelete_inbSub _ _ _) hF hsub (hsub mp hmk) q hq u hu

/-! ## `expandAll`: an exact child only holds arcs from exact nodes of the expanded layer -/

/-- every arc of an exact node comes from a position of `ly0` holding an exact node -/
def ExSrc (ly0 : List (Node S)) (m : Node S) : Prop :=
  m.isExact = true → ∀ a ∈ m.inb, ∃ n0, ly0[a.fromP]? = some n0 ∧ n0.isExact = true

theorem expandOne_exsrc (cfg : Cfg S K) (var lidx : Nat) (ly0 : List (Node S))
    (acc : List (Node S) × List (Node S) × List (Call S)) (p : Nat)
    (hrub : RubEq acc.1 ly0) (hall : ∀ m ∈ acc.2.1, ExSrc ly0 m) :
    ∀ m ∈ (expandOne cfg var lidx acc p).2.1, ExSrc ly0 m := by
  obtain ⟨ly, nx, lg⟩ := acc
  cases h : ly[p]? with
  | none => rw [Cover.expandOne_none _ _ _ _ _ _ _ h]; exact hall
  | some n =>
    rw [Cover.expandOne_some _ _ _ _ _ _ _ n h]
    obtain ⟨n0, hn0, hs⟩ := hrub.get h
    have hie : n0.isExact = n.isExact := (Ddo.stripRub_core hs).1
    split
    · dsimp only at hall ⊢
      refine Cover.branchAll_forall (ExSrc ly0) cfg var lidx p _ _ (nx, _) hall ?_ ?_
      · intro d _ m hm he a ha
        rw [Ddo.appendEdge_isExact, Bool.and_eq_true] at he
        rw [Cover.appendEdge_inb] at ha
        rcases List.mem_cons.mp ha with ha | ha
        · rw [ha]
          exact ⟨n0, hn0, by rw [hie]; exact he.1⟩
        · exact hm he.2 a ha
      · intro d _ he a ha
        rw [Ddo.appendEdge_isExact, Bool.and_eq_true] at he
        rw [Cover.appendEdge_inb] at ha
        rcases List.mem_cons.mp ha with ha | ha
        · rw [ha]
          exact ⟨n0, hn0, by rw [hie]; exact he.1⟩
        · simp only [Cover.freshNode] at ha; cases ha
    · exact hall

theorem fold_child_exsrc (cfg : Cfg S K) (var lidx : Nat) (cur : List Nat) (layer : List (Node S)) (lg : List (Call S)) :
    ∀ m ∈ (cur.foldl (expandOne cfg var lidx) (layer, [], lg)).2.1, ExSrc layer m := by
  have key : RubEq (cur.foldl (expandOne cfg var lidx) (layer, [], lg)).1 layer ∧
      ∀ m ∈ (cur.foldl (expandOne cfg var lidx) (layer, [], lg)).2.1, ExSrc layer m := by
    refine Ddo.foldl_inv (β := List (Node S) × List (Node S) × List (Call S))
      (fun acc => RubEq acc.1 layer ∧ ∀ m ∈ acc.2.1, ExSrc layer m) _ cur _ ⟨RubEq.refl _, fun m hm => by cases hm⟩ ?_
    intro b q _ hb
    exact ⟨Bounds.expandOne_rubEq cfg var lidx b q layer hb.1, expandOne_exsrc cfg var lidx layer b q hb.1 hb.2⟩
  exact key.2

end Ddo.C10
