import DdoModel.ParSys
import DdoModel.Proofs.SeqCache
/-! # The parallel solver WITH the threshold cache — the transition system (`parallel.rs` + `SimpleCache`)

`DdoModel/ParSys.lean` is the cache-less parallel solver.  Here the shared `SimpleCache` (a `DashMap` per layer: every
`get_threshold` / `update_threshold` / `clear_layer` is atomic, nothing more) is part of the state and **every single cache
access is a step of its own**, so that the interleavings of the system are those of the critical sections *and* of the
individual cache reads / writes that happen outside any lock or inside `get_workload` while other workers write:

* `get_workload(i)` holds the mutex over several steps (worker stages `gwC`, `gwP`, `gwW`; no other critical section is
  enabled meanwhile: `LockFree`; the lock-free steps of the other workers — ends of compilations, threshold writes — are):
  `gwEnter`; the cache-cleaning loop, one `clear_layer` per step (`gwClear`, condition of `clear_layer_safe_par`:
  `open_by_layer[fa] + ongoing_by_layer[fa] == 0`); `gwComplete` / `gwWait` / `gwToPop`; then the pop loop: `gwEmpty`
  (fringe empty after a refused node: `Starvation`), `gwStarve` (`nn.ub <= best_lb`: the fringe is cleared), `gwDrop`
  (`must_explore(nn)` — ONE atomic read — answered `false`: `open_by_layer[nn.depth] -= 1`, next pop), `gwKeep`
  (`must_explore(nn) = true`), and — a separate step, other workers may write the same cell in between — `gwTake`:
  `update_threshold(nn.state, nn.depth, nn.value, explored = true)` + the bookkeeping `ParCrit.take` + unlock.
  Every pop is a best-first pop (`ParSys.PopMax`, the `MaxUB` ranking: `gwStarve` clears the fringe on that basis).
* `process_one_node`: `readLbR`, the restricted compilation `compileR` (lock-free), its `update_threshold` calls one per
  step in call order (`writeR`, lock-free), `updateR` (`maybe_update_best`), `readLbX`, `compileX`, `writeX`, `updateX`,
  `enqueue` (`enqueue_cutset`, no cap: repair of D14), `notify`.
* **A compilation reads a cache that changes under it.**  The compilation of the diagram model takes the cache as a value;
  here the worker that ends a compilation (`compileR` / `compileX`) presents a *virtual* cache `cv` — what its reads
  answered — each of whose entries `(s, d) ↦ t` was the content of that cell of the shared cache at some moment between
  the worker's `best_lb()` (stage `compR` / `compX` entered, `k0` = length of the log then) and now: `FromLog`.  `log` is a
  ghost component: every content the shared cache ever had, newest first (head = current content).  Each cell is read at
  most once per compilation (one node per state and layer, one depth per layer), so the answers of one compilation are a
  function of the cell — `Proofs/ParCacheOracle.lean` proves that a compilation whose `j`-th read is answered by the
  `j`-th cache of an arbitrary sequence is the compilation against such a virtual cache.  Reads are not required to be
  consistent in time (a superset of the real behaviours).
* No cut-off (`NoCutoff`, as for the sequential caching theorem): `abort_search` is never called.
* Panics are explicit: `crash` is enabled exactly when the operation the worker is about to perform would panic
  (`Panics`: `Vec` index out of range in the cache or the counters, `usize` underflow); "never panics" = no reachable
  state has a `crashed` worker and `crashed = false` in the shared record.

`okR` / `okX` constrain what a compilation answers (node, incumbent read, virtual cache, what the solver reads, the
`update_threshold` calls in call order). -/
set_option linter.unusedSectionVars false
set_option linter.unusedVariables false
namespace Ddo.ParCache
open Ddo Ddo.C09 Ddo.ParSys
variable {S : Type} [DecidableEq S]

abbrev Up (S : Type) := S × Nat × Int × Bool

/-- worker-local state -/
inductive KW (S : Type)
  | idle                                              -- next: `get_workload`
  | waiting                                           -- parked in `monitor.wait`
  | done                                              -- left the loop (`Complete`)
  | crashed                                           -- panicked
  | gwC                                               -- in `get_workload`, holds the mutex: cleaning loop, then the tests
  | gwP                                               -- in `get_workload`, holds the mutex: about to test / pop the fringe
  | gwW (n : SubP S)                                  -- … `must_explore(n)` answered true; next: threshold write + bookkeeping
  | readR (n : SubP S)                                -- holds `n`; next: `best_lb()`
  | compR (n : SubP S) (lb : Int) (k0 : Nat)          -- restricted compilation in progress since the log had length `k0`
  | wrR (n : SubP S) (lb : Int) (o : DDOut S) (cv : Cache S) (ups todo : List (Up S))   -- `update_threshold` calls left: `todo`
  | readX (n : SubP S)
  | compX (n : SubP S) (lb : Int) (k0 : Nat)
  | wrX (n : SubP S) (lb : Int) (o : DDOut S) (cv : Cache S) (ups todo : List (Up S))
  | enq (n : SubP S) (lb : Int) (o : DDOut S) (cv : Cache S) (ups : List (Up S))        -- next: `enqueue_cutset()`
  | fin (n : SubP S)                                  -- next: `notify_node_finished`

/-- the worker holds the mutex of `Critical` over several steps -/
def KW.inGw : KW S → Bool
  | .gwC | .gwP | .gwW _ => true
  | _ => false

/-- the node taken (counted by `ongoing`): from `take` to `notify_node_finished` -/
def KW.node : KW S → Option (SubP S)
  | .readR n | .compR n _ _ | .wrR n _ _ _ _ _ | .readX n | .compX n _ _ | .wrX n _ _ _ _ _ | .enq n _ _ _ _ | .fin n => some n
  | _ => none

/-- the node in hand as long as it is *open* (popped and kept, not yet closed / handed back) -/
def KW.openNode : KW S → Option (SubP S)
  | .gwW n | .readR n | .compR n _ _ | .wrR n _ _ _ _ _ | .readX n | .compX n _ _ | .wrX n _ _ _ _ _ | .enq n _ _ _ _ => some n
  | _ => none

/-- an exact value found by a compilation and not yet published by `maybe_update_best` -/
def KW.pendVal : KW S → Option Int
  | .wrR _ _ o _ _ _ | .wrX _ _ o _ _ _ => o.bestExact
  | _ => none

/-- the cut-set of a finished relaxed compilation that is not exact, not yet enqueued -/
def KW.pendCut : KW S → List (SubP S)
  | .wrX _ _ o _ _ _ => if o.isExact then [] else o.cutset
  | .enq _ _ o _ _ => o.cutset
  | _ => []

def KW.holds (w : KW S) : Bool := w.node.isSome

def KW.wake : KW S → KW S
  | .waiting => .idle
  | w => w

structure KSys (S : Type) where
  crit : ParCrit S
  cache : Cache S
  /-- ghost: every content the shared cache ever had, newest first (head = current content) -/
  log : List (Cache S)
  ws : List (KW S)

/-- `maximize()` after `initialize()` -/
def KSys.init (P : Problem S) (dedup : Bool) (U : Nat) : KSys S :=
  { crit := ParCrit.init P none dedup U, cache := Cache.init P.nbVars, log := [Cache.init P.nbVars],
    ws := List.replicate U .idle }

/-- nobody is inside `get_workload`: the mutex can be taken -/
def LockFree (s : KSys S) : Prop := ∀ w ∈ s.ws, w.inGw = false

/-- the condition of the cache-cleaning loop of the parallel `get_workload` -/
def cleanCond (nbVars : Nat) (c : ParCrit S) : Prop :=
  c.base.firstActive < nbVars ∧
    (c.base.openByLayer[c.base.firstActive]?.getD 1) + (c.ongoingByLayer[c.base.firstActive]?.getD 1) = 0

instance (nbVars : Nat) (c : ParCrit S) : Decidable (cleanCond nbVars c) := by unfold cleanCond; exact inferInstance

def bumpFirst (c : ParCrit S) : ParCrit S := { c with base := { c.base with firstActive := c.base.firstActive + 1 } }

/-- `nn.ub <= best_lb`: `fringe.clear()`, counters zeroed -/
def starve (c : ParCrit S) : ParCrit S :=
  { c with base := { c.base with fringe := [], openByLayer := c.base.openByLayer.map (fun _ => 0) } }

/-- a node refused by `must_explore`: `open_by_layer[nn.depth] -= 1`, the fringe is what is left -/
def dropOne (c : ParCrit S) (N : SubP S) (rest : List (SubP S)) : Option (ParCrit S) :=
  match decLayer c.base.openByLayer N.depth with
  | some l => some { c with base := { c.base with fringe := rest, openByLayer := l } }
  | none => none

/-- every entry of the virtual cache `cv` is an entry of one of the `m` newest contents of the shared cache -/
def FromLog (cv : Cache S) (log : List (Cache S)) (m : Nat) : Prop :=
  ∀ s d t, viewOf cv s d = some t → ∃ c ∈ log.take m, viewOf c s d = some t

def upThr (u : Up S) : Thr := ⟨u.2.2.1, u.2.2.2⟩

/-- the operation the worker is about to perform panics -/
def Panics (nbVars : Nat) (s : KSys S) (i : Nat) : KW S → Prop
  | .gwC => cleanCond nbVars s.crit ∧ s.cache.clearLayer s.crit.base.firstActive = none
  | .gwP => ∃ N rest, PopMax s.crit.base.fringe N rest ∧ ¬ N.ub ≤ s.crit.base.bestLb ∧
      (s.cache.mustExplore N.state N.depth N.value = none ∨
        (s.cache.mustExplore N.state N.depth N.value = some false ∧ dropOne s.crit N rest = none))
  | .gwW n => s.cache.update n.state n.depth ⟨n.value, true⟩ = none ∨ s.crit.take i n = none
  | .wrR _ _ _ _ _ (u :: _) => s.cache.update u.1 u.2.1 (upThr u) = none
  | .wrX _ _ _ _ _ (u :: _) => s.cache.update u.1 u.2.1 (upThr u) = none
  | .fin n => s.crit.notifyFinished i n.depth = none
  | _ => False

/-- **the steps** -/
inductive KStep (nbVars : Nat) (dedup : Bool)
    (okR okX : SubP S → Int → Cache S → DDOut S → List (Up S) → Prop) : KSys S → KSys S → Prop
  /- ### `get_workload(i)` -/
  | gwEnter (s : KSys S) (i : Nat) (hw : s.ws[i]? = some .idle) (hl : LockFree s) :
      KStep nbVars dedup okR okX s { s with ws := s.ws.set i .gwC }
  | gwClear (s : KSys S) (i : Nat) (c' : Cache S) (hw : s.ws[i]? = some .gwC) (hc : cleanCond nbVars s.crit)
      (hcl : s.cache.clearLayer s.crit.base.firstActive = some c') :
      KStep nbVars dedup okR okX s { s with crit := bumpFirst s.crit, cache := c', log := c' :: s.log }
  | gwComplete (s : KSys S) (i : Nat) (hw : s.ws[i]? = some .gwC) (hc : ¬ cleanCond nbVars s.crit)
      (ho : s.crit.ongoing = 0) (hf : s.crit.base.fringe = []) :
      KStep nbVars dedup okR okX s { s with crit := s.crit.complete, ws := s.ws.set i .done }
  | gwWait (s : KSys S) (i : Nat) (hw : s.ws[i]? = some .gwC) (hc : ¬ cleanCond nbVars s.crit)
      (ho : s.crit.ongoing ≠ 0) (hf : s.crit.base.fringe = []) :
      KStep nbVars dedup okR okX s { s with ws := s.ws.set i .waiting }
  | gwToPop (s : KSys S) (i : Nat) (hw : s.ws[i]? = some .gwC) (hc : ¬ cleanCond nbVars s.crit)
      (hf : s.crit.base.fringe ≠ []) :
      KStep nbVars dedup okR okX s { s with ws := s.ws.set i .gwP }
  | gwEmpty (s : KSys S) (i : Nat) (hw : s.ws[i]? = some .gwP) (hf : s.crit.base.fringe = []) :
      KStep nbVars dedup okR okX s { s with ws := s.ws.set i .idle }
  | gwStarve (s : KSys S) (i : Nat) (N : SubP S) (rest : List (SubP S)) (hw : s.ws[i]? = some .gwP)
      (hp : PopMax s.crit.base.fringe N rest) (hub : N.ub ≤ s.crit.base.bestLb) :
      KStep nbVars dedup okR okX s { s with crit := starve s.crit, ws := s.ws.set i .idle }
  | gwDrop (s : KSys S) (i : Nat) (N : SubP S) (rest : List (SubP S)) (c' : ParCrit S) (hw : s.ws[i]? = some .gwP)
      (hp : PopMax s.crit.base.fringe N rest) (hub : ¬ N.ub ≤ s.crit.base.bestLb)
      (hme : s.cache.mustExplore N.state N.depth N.value = some false) (hd : dropOne s.crit N rest = some c') :
      KStep nbVars dedup okR okX s { s with crit := c' }
  | gwKeep (s : KSys S) (i : Nat) (N : SubP S) (rest : List (SubP S)) (hw : s.ws[i]? = some .gwP)
      (hp : PopMax s.crit.base.fringe N rest) (hub : ¬ N.ub ≤ s.crit.base.bestLb)
      (hme : s.cache.mustExplore N.state N.depth N.value = some true) :
      KStep nbVars dedup okR okX s { s with crit := setFringe s.crit rest, ws := s.ws.set i (.gwW N) }
  | gwTake (s : KSys S) (i : Nat) (n : SubP S) (c' : Cache S) (crit' : ParCrit S) (hw : s.ws[i]? = some (.gwW n))
      (hu : s.cache.update n.state n.depth ⟨n.value, true⟩ = some c') (ht : s.crit.take i n = some crit') :
      KStep nbVars dedup okR okX s { crit := crit', cache := c', log := c' :: s.log, ws := s.ws.set i (.readR n) }
  /- ### `process_one_node` -/
  | readLbR (s : KSys S) (i : Nat) (n : SubP S) (hw : s.ws[i]? = some (.readR n)) (hl : LockFree s) :
      KStep nbVars dedup okR okX s
        { s with ws := s.ws.set i (if n.ub ≤ s.crit.readLb then .fin n else .compR n s.crit.readLb s.log.length) }
  | compileR (s : KSys S) (i : Nat) (n : SubP S) (lb : Int) (k0 : Nat) (cv : Cache S) (o : DDOut S) (ups : List (Up S))
      (hw : s.ws[i]? = some (.compR n lb k0)) (hcv : FromLog cv s.log (s.log.length + 1 - k0)) (hok : okR n lb cv o ups) :
      KStep nbVars dedup okR okX s { s with ws := s.ws.set i (.wrR n lb o cv ups ups) }
  | writeR (s : KSys S) (i : Nat) (n : SubP S) (lb : Int) (o : DDOut S) (cv : Cache S) (ups : List (Up S)) (u : Up S)
      (todo : List (Up S)) (c' : Cache S) (hw : s.ws[i]? = some (.wrR n lb o cv ups (u :: todo)))
      (hu : s.cache.update u.1 u.2.1 (upThr u) = some c') :
      KStep nbVars dedup okR okX s { s with cache := c', log := c' :: s.log, ws := s.ws.set i (.wrR n lb o cv ups todo) }
  | updateR (s : KSys S) (i : Nat) (n : SubP S) (lb : Int) (o : DDOut S) (cv : Cache S) (ups : List (Up S))
      (hw : s.ws[i]? = some (.wrR n lb o cv ups [])) (hl : LockFree s) :
      KStep nbVars dedup okR okX s
        { s with crit := s.crit.updateBest o, ws := s.ws.set i (if o.isExact then .fin n else .readX n) }
  | readLbX (s : KSys S) (i : Nat) (n : SubP S) (hw : s.ws[i]? = some (.readX n)) (hl : LockFree s) :
      KStep nbVars dedup okR okX s { s with ws := s.ws.set i (.compX n s.crit.readLb s.log.length) }
  | compileX (s : KSys S) (i : Nat) (n : SubP S) (lb : Int) (k0 : Nat) (cv : Cache S) (o : DDOut S) (ups : List (Up S))
      (hw : s.ws[i]? = some (.compX n lb k0)) (hcv : FromLog cv s.log (s.log.length + 1 - k0)) (hok : okX n lb cv o ups) :
      KStep nbVars dedup okR okX s { s with ws := s.ws.set i (.wrX n lb o cv ups ups) }
  | writeX (s : KSys S) (i : Nat) (n : SubP S) (lb : Int) (o : DDOut S) (cv : Cache S) (ups : List (Up S)) (u : Up S)
      (todo : List (Up S)) (c' : Cache S) (hw : s.ws[i]? = some (.wrX n lb o cv ups (u :: todo)))
      (hu : s.cache.update u.1 u.2.1 (upThr u) = some c') :
      KStep nbVars dedup okR okX s { s with cache := c', log := c' :: s.log, ws := s.ws.set i (.wrX n lb o cv ups todo) }
  | updateX (s : KSys S) (i : Nat) (n : SubP S) (lb : Int) (o : DDOut S) (cv : Cache S) (ups : List (Up S))
      (hw : s.ws[i]? = some (.wrX n lb o cv ups [])) (hl : LockFree s) :
      KStep nbVars dedup okR okX s
        { s with crit := s.crit.updateBest o, ws := s.ws.set i (if o.isExact then .fin n else .enq n lb o cv ups) }
  | enqueue (s : KSys S) (i : Nat) (n : SubP S) (lb : Int) (o : DDOut S) (cv : Cache S) (ups : List (Up S))
      (hw : s.ws[i]? = some (.enq n lb o cv ups)) (hl : LockFree s) :
      KStep nbVars dedup okR okX s { s with crit := s.crit.enqueue dedup o.cutset, ws := s.ws.set i (.fin n) }
  /- ### `notify_node_finished(i, depth)` -/
  | notify (s : KSys S) (i : Nat) (n : SubP S) (c' : ParCrit S) (hw : s.ws[i]? = some (.fin n)) (hl : LockFree s)
      (hn : s.crit.notifyFinished i n.depth = some c') :
      KStep nbVars dedup okR okX s { s with crit := c', ws := (s.ws.map KW.wake).set i .idle }
  /- ### a panic -/
  | crash (s : KSys S) (i : Nat) (w : KW S) (hw : s.ws[i]? = some w) (hp : Panics nbVars s i w) :
      KStep nbVars dedup okR okX s { s with ws := s.ws.set i .crashed }

/-- finite schedules -/
inductive KRun (nbVars : Nat) (dedup : Bool) (okR okX : SubP S → Int → Cache S → DDOut S → List (Up S) → Prop) :
    KSys S → KSys S → Prop
  | refl (s : KSys S) : KRun nbVars dedup okR okX s s
  | tail {s t u : KSys S} : KRun nbVars dedup okR okX s t → KStep nbVars dedup okR okX t u → KRun nbVars dedup okR okX s u

/-- the `get_workload` of worker `i` answers `Complete` in `s` (it is inside the section, past the cleaning loop) -/
def CompletesAt (nbVars : Nat) (s : KSys S) (i : Nat) : Prop :=
  s.ws[i]? = some .gwC ∧ ¬ cleanCond nbVars s.crit ∧ s.crit.ongoing = 0 ∧ s.crit.base.fringe = []

/-- every worker has left its loop: `maximize()` returns -/
def AllDone (s : KSys S) : Prop := ∀ w ∈ s.ws, w = KW.done

/-- nothing has panicked -/
def NoPanic (s : KSys S) : Prop := (∀ w ∈ s.ws, w ≠ KW.crashed) ∧ s.crit.base.crashed = false

/-- the contract parameters only matter at the worker that compiles -/
theorem KStep.mono {nbVars : Nat} {dedup : Bool} {okR okX okR' okX' : SubP S → Int → Cache S → DDOut S → List (Up S) → Prop}
    {s t : KSys S} (h : KStep nbVars dedup okR okX s t)
    (hR : ∀ (i : Nat) (n : SubP S) (lb : Int) (k0 : Nat) (cv : Cache S) (o : DDOut S) (ups : List (Up S)),
      s.ws[i]? = some (.compR n lb k0) → FromLog cv s.log (s.log.length + 1 - k0) → okR n lb cv o ups → okR' n lb cv o ups)
    (hX : ∀ (i : Nat) (n : SubP S) (lb : Int) (k0 : Nat) (cv : Cache S) (o : DDOut S) (ups : List (Up S)),
      s.ws[i]? = some (.compX n lb k0) → FromLog cv s.log (s.log.length + 1 - k0) → okX n lb cv o ups → okX' n lb cv o ups) :
    KStep nbVars dedup okR' okX' s t := by
  cases h with
  | gwEnter i hw hl => exact .gwEnter s i hw hl
  | gwClear i c' hw hc hcl => exact .gwClear s i c' hw hc hcl
  | gwComplete i hw hc ho hf => exact .gwComplete s i hw hc ho hf
  | gwWait i hw hc ho hf => exact .gwWait s i hw hc ho hf
  | gwToPop i hw hc hf => exact .gwToPop s i hw hc hf
  | gwEmpty i hw hf => exact .gwEmpty s i hw hf
  | gwStarve i N rest hw hp hub => exact .gwStarve s i N rest hw hp hub
  | gwDrop i N rest c' hw hp hub hme hd => exact .gwDrop s i N rest c' hw hp hub hme hd
  | gwKeep i N rest hw hp hub hme => exact .gwKeep s i N rest hw hp hub hme
  | gwTake i n c' crit' hw hu ht => exact .gwTake s i n c' crit' hw hu ht
  | readLbR i n hw hl => exact .readLbR s i n hw hl
  | compileR i n lb k0 cv o ups hw hcv hok => exact .compileR s i n lb k0 cv o ups hw hcv (hR i n lb k0 cv o ups hw hcv hok)
  | writeR i n lb o cv ups u todo c' hw hu => exact .writeR s i n lb o cv ups u todo c' hw hu
  | updateR i n lb o cv ups hw hl => exact .updateR s i n lb o cv ups hw hl
  | readLbX i n hw hl => exact .readLbX s i n hw hl
  | compileX i n lb k0 cv o ups hw hcv hok => exact .compileX s i n lb k0 cv o ups hw hcv (hX i n lb k0 cv o ups hw hcv hok)
  | writeX i n lb o cv ups u todo c' hw hu => exact .writeX s i n lb o cv ups u todo c' hw hu
  | updateX i n lb o cv ups hw hl => exact .updateX s i n lb o cv ups hw hl
  | enqueue i n lb o cv ups hw hl => exact .enqueue s i n lb o cv ups hw hl
  | notify i n c' hw hl hn => exact .notify s i n c' hw hl hn
  | crash i w hw hp => exact .crash s i w hw hp

theorem KRun.head {nbVars : Nat} {dedup : Bool} {okR okX : SubP S → Int → Cache S → DDOut S → List (Up S) → Prop}
    {s t u : KSys S} (h : KStep nbVars dedup okR okX s t) (r : KRun nbVars dedup okR okX t u) :
    KRun nbVars dedup okR okX s u := by
  induction r with
  | refl => exact .tail (.refl _) h
  | tail _ hs ih => exact .tail ih hs

theorem KRun.trans {nbVars : Nat} {dedup : Bool} {okR okX : SubP S → Int → Cache S → DDOut S → List (Up S) → Prop}
    {s t u : KSys S} (h1 : KRun nbVars dedup okR okX s t) (h2 : KRun nbVars dedup okR okX t u) :
    KRun nbVars dedup okR okX s u := by
  induction h2 with
  | refl => exact h1
  | tail _ hs ih => exact .tail ih hs

end Ddo.ParCache
