import DdoModel.Proofs.NoCapDefs
import DdoModel.Proofs.CacheClosedSolver
/-! C09 / D14 — **without the cap of `enqueue_cutset` the invariant `CInvC` of the caching solver needs no hypothesis on the
pop order** (abstract level: the diagram contracts `CompC` of `Proofs/SeqCache.lean`).

The invariant `CInvC` (`Proofs/SeqCache.lean`) *is* depth-stratified: `Live F T x d` asks for an open carrier of depth `≥ d`,
`CacheCov T d x` points strictly deeper than `d`, and the transfer lemma of `step_generic` is an induction on the depth,
deepest first.  The best-first hypothesis `hbf` of `step_generic` is used at exactly one place (`hEnq`): to show that a
cut-set node `c'` whose own bound dominates the potential `x` it must carry still does so after
`c'.ub := min N.ub c'.ub`, i.e. `x ≤ N.ub` — true when `N.ub` dominates every bound of the fringe.

Without the cap `N.ub` is read once, by the test `node.ub ≤ best_lb` at the top of `process_one_node`.  Hence:

* `processNC_eq` (`Proofs/NoCapDefs.lean`): when `N` passes that test, processing `N` without the cap is processing
  `raise N U` (the same node with its bound raised to `U`) **with** the cap, for any `U` that dominates the bounds of the
  cut-set;
* `cinvC_raise`: `CInvC` is monotone in the bound of a node (a larger bound only makes it a better carrier; the invariant
  never asks a bound to be *small*);
* `compC_raise`: the contract of a compilation does not read the bound of its root;
* with `U` also above every bound of the fringe, `raise N U` **is** a best-first pop: `processC_inv_any` applies.

So `processC_inv_nocap` — `process_one_node` without the cap preserves `CInvC` for **any** popped node — is a corollary of
the best-first theorem, not a new induction. -/
set_option linter.unusedSectionVars false
set_option linter.unusedVariables false
namespace Ddo.C09
open Ddo
variable {S : Type} [DecidableEq S]

/-! ## the no-cap `process_one_node` inherits the elementary facts of the capped one -/

theorem processNC_skip_ub (dedup : Bool) (st : SeqSt S) (N : SubP S) (me : Bool) (r x : DDRes S) (h : N.ub ≤ st.bestLb) :
    (st.processNC dedup N me r x).1 = st := by
  unfold SeqSt.processNC; rw [if_pos h]

theorem processNC_skip_me (dedup : Bool) (st : SeqSt S) (N : SubP S) (r x : DDRes S) :
    (st.processNC dedup N false r x).1 = st := by
  unfold SeqSt.processNC
  split
  · rfl
  · rfl

/-- the no-cap `process_one_node` as a capped one: nothing happens, or `raise N (capX x)` is processed with the cap -/
theorem processNC_cases (dedup : Bool) (st : SeqSt S) (N : SubP S) (me : Bool) (r x : DDRes S) :
    (st.processNC dedup N me r x).1 = st ∨
    (st.processNC dedup N me r x).1 = (st.process dedup (raise N (capX x)) me r x).1 := by
  rw [processNC_eq dedup st N me r x (capX x) (Int.le_refl _)]
  split
  · exact Or.inl rfl
  · exact Or.inr rfl

theorem processNC_main (dedup : Bool) (st : SeqSt S) (N : SubP S) (r x : DDOut S) (h : ¬ N.ub ≤ st.bestLb) :
    (st.processNC dedup N true (.ok r) (.ok x)).1 =
      if r.isExact then st.updateBest r
      else if x.isExact then (st.updateBest r).updateBest x
      else ((st.updateBest r).updateBest x).enqueueNC dedup x.cutset := by
  unfold SeqSt.processNC
  rw [if_neg h]
  simp only [Bool.not_true, Bool.false_eq_true, if_false]
  split
  · rfl
  · split <;> rfl

theorem processNC_forall (Q : SubP S → Prop) (hQ : ∀ (c : SubP S) (u : Int), Q c → Q { c with ub := u })
    (dedup : Bool) (st : SeqSt S) (N : SubP S) (me : Bool) (r x : DDRes S)
    (h1 : ∀ c ∈ st.fringe, Q c) (h2 : ∀ o, x = .ok o → ∀ c ∈ o.cutset, Q c) :
    ∀ c ∈ (st.processNC dedup N me r x).1.fringe, Q c := by
  rcases processNC_cases dedup st N me r x with e | e
  · rw [e]; exact h1
  · rw [e]; exact Closed.process_forall Q hQ dedup st _ me r x h1 h2

theorem processNC_abort (dedup : Bool) (st : SeqSt S) (N : SubP S) (me : Bool) (r x : DDOut S) :
    (st.processNC dedup N me (.ok r) (.ok x)).1.abort = st.abort := by
  rcases processNC_cases dedup st N me (.ok r) (.ok x) with e | e
  · rw [e]
  · rw [e]; exact Closed.process_abort dedup st _ me r x

theorem processNC_lb_sol (dedup : Bool) (st : SeqSt S) (N : SubP S) (me : Bool) (r x : DDOut S) :
    ((st.processNC dedup N me (.ok r) (.ok x)).1.bestLb = st.bestLb ∧
      (st.processNC dedup N me (.ok r) (.ok x)).1.bestSol = st.bestSol) ∨
    ((st.processNC dedup N me (.ok r) (.ok x)).1.bestLb = (st.updateBest r).bestLb ∧
      (st.processNC dedup N me (.ok r) (.ok x)).1.bestSol = (st.updateBest r).bestSol) ∨
    ((st.processNC dedup N me (.ok r) (.ok x)).1.bestLb = ((st.updateBest r).updateBest x).bestLb ∧
      (st.processNC dedup N me (.ok r) (.ok x)).1.bestSol = ((st.updateBest r).updateBest x).bestSol) := by
  rcases processNC_cases dedup st N me (.ok r) (.ok x) with e | e
  · rw [e]; exact Or.inl ⟨rfl, rfl⟩
  · rw [e]; exact Closed.process_lb_sol dedup st _ me r x

theorem processNC_layers (n : Nat) (dedup : Bool) (st : SeqSt S) (N : SubP S) (me : Bool) (r x : DDOut S)
    (hcs : ∀ c ∈ x.cutset, c.depth ≤ n) (hL : Closed.LayersOk n st.openByLayer st.fringe) :
    Closed.LayersOk n (st.processNC dedup N me (.ok r) (.ok x)).1.openByLayer (st.processNC dedup N me (.ok r) (.ok x)).1.fringe ∧
    (st.processNC dedup N me (.ok r) (.ok x)).1.crashed = st.crashed := by
  rcases processNC_cases dedup st N me (.ok r) (.ok x) with e | e
  · rw [e]; exact ⟨hL, rfl⟩
  · rw [e]; exact Closed.process_layers n dedup st _ me r x hcs hL

/-- the termination measure of `Props/C01t.lean` does not grow where the cut-set has no node -/
theorem processNC_cnt_le (K : Nat) (dedup : Bool) (st : SeqSt S) (N : SubP S) (me : Bool) (r x : DDRes S) (e : Nat)
    (h : ∀ o, x = .ok o → ∀ c ∈ o.cutset, C01t.cdepth K c ≠ e) :
    C01t.cnt K (st.processNC dedup N me r x).1.fringe e ≤ C01t.cnt K st.fringe e := by
  rcases processNC_cases dedup st N me r x with e1 | e1
  · rw [e1]; exact Nat.le_refl _
  · rw [e1]; exact C01t.process_cnt_le K dedup st _ me r x e h

/-! ## termination: the step relation of the no-cap loop -/

/-- one turn of the no-cap loop on the sequential state (`C01t.Step` with `processNC`): any pop, arbitrary answers of the
    cache and of the compilations, the cut-set strictly deeper than the popped node -/
inductive StepNC (nbVars : Nat) (dedup : Bool) : SeqSt S → SeqSt S → Prop
  | pop (s : SeqSt S) (N : SubP S) (rest : List (SubP S)) (fa : Nat) (me : Bool) (r x : DDRes S)
      (hpop : s.fringe.Perm (N :: rest))
      (hprog : ∀ o, x = .ok o → ∀ c ∈ o.cutset, N.depth < c.depth ∧ c.depth ≤ nbVars) :
      StepNC nbVars dedup s
        ((({ s with fringe := rest, firstActive := fa }).afterPop N).processNC dedup N me r x).1

/-- the measure of `Props/C01t.lean` (fringe entries per depth, shallow first, lexicographically) decreases -/
theorem stepNC_measure_lt {nbVars : Nat} {dedup : Bool} {s t : SeqSt S} (h : StepNC nbVars dedup s t) :
    LexLT (nbVars + 2) (C01t.mu nbVars t) (C01t.mu nbVars s) := by
  cases h with
  | pop N rest fa me r x hpop hprog =>
    have hle : ∀ e, e ≤ C01t.cdepth (nbVars + 1) N →
        C01t.mu nbVars ((({ s with fringe := rest, firstActive := fa }).afterPop N).processNC dedup N me r x).1 e
          ≤ C01t.cnt (nbVars + 1) rest e := by
      intro e he
      have := processNC_cnt_le (nbVars + 1) dedup (({ s with fringe := rest, firstActive := fa }).afterPop N) N me r x e
        (by
          intro o ho c hc
          obtain ⟨h1, h2⟩ := hprog o ho c hc
          unfold C01t.cdepth at he ⊢
          omega)
      rw [C01t.afterPop_fringe] at this
      exact this
    have hs : ∀ e, C01t.mu nbVars s e =
        C01t.cnt (nbVars + 1) rest e + if C01t.cdepth (nbVars + 1) N = e then 1 else 0 := by
      intro e
      unfold C01t.mu
      rw [C01t.cnt_perm _ hpop, C01t.cnt_cons]
    refine lexLT_of_le (C01t.cdepth (nbVars + 1) N) (by unfold C01t.cdepth; omega) ?_ ?_
    · have := hle _ (Nat.le_refl _)
      rw [hs, if_pos rfl]; omega
    · intro e he
      have := hle e (by omega)
      rw [hs]; omega

/-- the no-cap loop terminates from any state, whatever is popped and whatever the diagrams and the cache answer -/
theorem seqNC_terminates (nbVars : Nat) (dedup : Bool) :
    WellFounded (fun t s : SeqSt S => StepNC nbVars dedup s t) :=
  Subrelation.wf (r := InvImage (LexLT (nbVars + 2)) (C01t.mu nbVars))
    (fun {_ _} h => stepNC_measure_lt h) (InvImage.wf _ (lexLT_wf _))

/-! ## the invariant -/

section
variable (H : Nat → S → EInt) (opt : Int) (Sol : List Dec → Int → Prop) (Rg : Nat → Int → Prop)

/-- raising the bound of a node keeps what it carries -/
theorem live_raise {N : SubP S} {U : Int} {F : List (SubP S)} {T : CView S} {x : Int} {d : Nat}
    (h : Live H (N :: F) T x d) : Live H (raise N U :: F) T x d := by
  obtain ⟨c, hc, hdc, hy, hxu, hnp⟩ := h
  rcases List.mem_cons.mp hc with e | e
  · subst e
    refine ⟨raise c U, List.mem_cons_self, hdc, hy, ?_, hnp⟩
    show x ≤ max c.ub U
    omega
  · exact ⟨c, List.mem_cons_of_mem _ e, hdc, hy, hxu, hnp⟩

/-- **`CInvC` is monotone in the bound of a node**: the invariant never asks a bound to be small -/
theorem cinvC_raise (N : SubP S) (U : Int) (F : List (SubP S)) (T : CView S) (lb : Int) (sol : Option (List Dec))
    (h : CInvC H opt Sol Rg (N :: F) T lb sol) : CInvC H opt Sol Rg (raise N U :: F) T lb sol := by
  refine ⟨?_, ?_, h.lbOk, h.solOk, fun hgt => live_raise H (h.root hgt), ?_, ?_⟩
  · intro c hc
    rcases List.mem_cons.mp hc with e | e
    · subst e; exact h.good N List.mem_cons_self
    · exact h.good c (List.mem_cons_of_mem _ e)
  · intro c hc
    rcases List.mem_cons.mp hc with e | e
    · subst e; exact h.rng N List.mem_cons_self
    · exact h.rng c (List.mem_cons_of_mem _ e)
  · intro s d t v hh hT hrg hvt hH hgt
    exact live_raise H (h.cache s d t v hh hT hrg hvt hH hgt)
  · intro c hc y hy hgt
    rcases List.mem_cons.mp hc with e | e
    · subst e; exact live_raise H (h.open_ N List.mem_cons_self y hy hgt)
    · exact live_raise H (h.open_ c (List.mem_cons_of_mem _ e) y hy hgt)

/-- **the contract of a compilation does not read the bound of its root** -/
theorem compC_raise {N : SubP S} (U : Int) {lb : Int} {T : CView S} {o : DDOut S} {ups : List (S × Nat × Int × Bool)}
    {bk : Int} (h : CompC H opt Sol Rg N lb T o ups bk) : CompC H opt Sol Rg (raise N U) lb T o ups bk :=
  ⟨h.sound, h.exact, h.exactCut, h.cover, h.theta, h.good, h.rng, h.sub, h.deeper, h.ub, h.fresh⟩

/-- the solver state after the no-cap `process_one_node (N)`, `must_explore` answered by the cache, either fringe -/
def stateAfterNC (dedup : Bool) (st : SeqSt S) (T : CView S) (N : SubP S) (r x : DDOut S) : SeqSt S :=
  (st.processNC dedup N (decide (¬ prunM T N)) (.ok r) (.ok x)).1

/-- **Stage 2 without the cap, any pop order**: one `process_one_node` of the no-cap solver preserves the invariant `CInvC`
    (coverage + `CacheOk`) under the contracts `CompC` of the two compilations, **whatever node `N` was popped** — the
    statement of `processC_inv_any` with the best-first hypothesis `hbf` deleted. -/
theorem processC_inv_nocap (dedup : Bool)
    (st : SeqSt S) (T : CView S) (N : SubP S) (r : DDOut S) (rups : List (S × Nat × Int × Bool))
    (x : DDOut S) (xups : List (S × Nat × Int × Bool))
    (hinv : CInvC H opt Sol Rg (N :: st.fringe) T st.bestLb st.bestSol)
    (hrs : ∀ w, r.bestExact = some w → ∃ p, r.bestExactSol = some p ∧ Sol p w ∧ w ≤ opt)
    (hr : r.isExact = true → CompC H opt Sol Rg N st.bestLb T r rups (st.updateBest r).bestLb)
    (hrups : r.isExact = false → rups = [])
    (hx : r.isExact = false → CompC H opt Sol Rg N (st.updateBest r).bestLb T x xups ((st.updateBest r).updateBest x).bestLb) :
    CInvC H opt Sol Rg (stateAfterNC dedup st T N r x).fringe (viewAfter st T N r rups xups)
      (stateAfterNC dedup st T N r x).bestLb (stateAfterNC dedup st T N r x).bestSol := by
  by_cases hub : N.ub ≤ st.bestLb
  · -- pruned by its bound: nothing happens, and `N` carried nothing
    have e1 : stateAfterNC dedup st T N r x = st := processNC_skip_ub dedup st N _ _ _ hub
    have e2 : viewAfter st T N r rups xups = T := by unfold viewAfter; rw [if_pos hub]
    rw [e1, e2]
    exact drop_inv H opt Sol Rg N st.fringe T st.bestLb st.bestSol hinv (fun x h1 h2 _ => by omega)
  · -- `N` with its bound raised above everything is a best-first pop of the capped solver
    let U : Int := max (capOf x.cutset) (capOf st.fringe)
    have hU1 : capX (DDRes.ok x) ≤ U := by show capOf x.cutset ≤ max _ _; omega
    have hub' : ¬ (raise N U).ub ≤ st.bestLb := by
      show ¬ max N.ub U ≤ st.bestLb
      omega
    have e1 : stateAfterNC dedup st T N r x = stateAfterD dedup st T (raise N U) r x := by
      unfold stateAfterNC stateAfterD
      rw [processNC_eq dedup st N _ (.ok r) (.ok x) U hU1, if_neg hub]
      rfl
    have e2 : viewAfter st T N r rups xups = viewAfter st T (raise N U) r rups xups := by
      unfold viewAfter
      rw [if_neg hub, if_neg hub']
      rfl
    rw [e1, e2]
    refine processC_inv_any H opt Sol Rg dedup st T (raise N U) r rups x xups
      (cinvC_raise H opt Sol Rg N U st.fringe T st.bestLb st.bestSol hinv) ?_ hrs
      (fun h => compC_raise H opt Sol Rg U (hr h)) hrups (fun h => compC_raise H opt Sol Rg U (hx h))
    intro c hc
    have := capOf_ge st.fringe c hc
    show c.ub ≤ max N.ub U
    omega

end
end Ddo.C09

#print axioms Ddo.C09.processC_inv_nocap
#print axioms Ddo.C09.seqNC_terminates
