import DdoModel.Proofs.ParCacheSys
import DdoModel.Proofs.CacheClosedDefs
/-! # The parallel caching solver over the diagram model: `KPStep sv` / `KPRun sv`

The transition system of `Proofs/ParCacheSys.lean` instantiated with the compilations of the diagram model
(`DdoModel/Mdd.lean`) configured as `process_one_node` does in the caching solvers (`SolverCfg.ccfg`: `useCache := true`,
no dominance checker, no cut-off): the answer a worker gets for the node `N` in hand, the incumbent `lb` it read and the
virtual cache `cv` its reads assembled is `toOut` of the `must` result of `compile (sv.ccfg ct N lb) cv …`, and the
`update_threshold` calls it then issues, first call first, are `cacheUpdates.reverse` (as in the sequential caching solver
`SolverCfg.kprocess`). -/
set_option linter.unusedSectionVars false
set_option linter.unusedVariables false
namespace Ddo.ParCache
open Ddo Ddo.C01 Ddo.C09
variable {S : Type} [DecidableEq S]

/-- the restricted compilation of `N` (incumbent `lb`, reads answered by `cv`) ended normally and answered `o`, `ups` -/
def okRk (sv : SolverCfg S) (N : SubP S) (lb : Int) (cv : Cache S) (o : DDOut S) (ups : List (Up S)) : Prop :=
  sv.coutR cv N lb = .ok ∧ o = toOut (sv.cresR cv N lb) ∧ ups = (sv.cresR cv N lb).cacheUpdates.reverse

/-- the same for the relaxed compilation -/
def okXk (sv : SolverCfg S) (N : SubP S) (lb : Int) (cv : Cache S) (o : DDOut S) (ups : List (Up S)) : Prop :=
  sv.coutX cv N lb = .ok ∧ o = toOut (sv.cresX cv N lb) ∧ ups = (sv.cresX cv N lb).cacheUpdates.reverse

/-- **the steps of the parallel caching solver over the diagram model** -/
abbrev KPStep (sv : SolverCfg S) : KSys S → KSys S → Prop := KStep sv.P.nbVars sv.dedup (okRk sv) (okXk sv)
abbrev KPRun (sv : SolverCfg S) : KSys S → KSys S → Prop := KRun sv.P.nbVars sv.dedup (okRk sv) (okXk sv)

end Ddo.ParCache
