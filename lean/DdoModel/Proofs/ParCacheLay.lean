import DdoModel.Proofs.ParCacheSys
import DdoModel.Proofs.ParClosed
/-! # The parallel solver with the threshold cache: bookkeeping invariant, "never panics", "never deadlocks"

Port of `DdoModel/Proofs/ParClosed.lean` §5–§6 (`LayInv`, `pstep_layinv`, `take_ne_none`, `notify_ne_none`,
`pstep_progress`) to the transition system `KStep` of `DdoModel/Proofs/ParCacheSys.lean`.

* `DepthOk nbVars s`: every node around (fringe, in hand, cut-set about to be enqueued, threshold writes to come) is at a
  depth `≤ nbVars` — a hypothesis here, established elsewhere from the diagram theorems.
* `LayInvK nbVars s`: the bookkeeping invariant (`OpenK`: `open_by_layer`; `HandK`: `ongoing_by_layer`, `ongoing`,
  `upper_bounds`, nobody crashed, no lost wake-up, mutual exclusion of `get_workload`; `LogK`: the cache has
  `nbVars + 1` layers, the head of the ghost log is the current cache, a compilation started no later than now).
* `init_layInvK`, `kstep_layInvK` (every step, `crash` included: under the invariant it is not enabled),
  `no_panics`, `layInvK_noPanic`, `completes_nothing_open`, `kstep_progress`. -/
set_option linter.unusedSectionVars false
set_option linter.unusedVariables false
namespace Ddo.ParCache
open Ddo Ddo.C09 Ddo.ParSys Ddo.Closed
open Ddo.ParClosed (decLayer_spec bumpLayer_spec layer_set enqueue_len take_full notify_full mem_set_elim popMax_none
  popMax_popMax)
variable {S : Type} [DecidableEq S]

/-! ## 1. the hypothesis on depths -/

/-- every node around is at a depth `≤ nbVars` -/
structure DepthOk (nbVars : Nat) (s : KSys S) : Prop where
  fr : ∀ c ∈ s.crit.base.fringe, c.depth ≤ nbVars
  held : ∀ w ∈ s.ws, ∀ n, (w.node = some n ∨ w.openNode = some n) → n.depth ≤ nbVars
  cut : ∀ w ∈ s.ws, ∀ n lb o cv ups, w = .enq n lb o cv ups → ∀ c ∈ o.cutset, c.depth ≤ nbVars
  todo : ∀ w ∈ s.ws, ∀ n lb o cv ups todo, (w = .wrR n lb o cv ups todo ∨ w = .wrX n lb o cv ups todo) →
    ∀ u ∈ todo, u.2.1 ≤ nbVars

/-! ## 2. counting nodes per depth -/

/-- the node popped and kept by `get_workload`, `take` not yet done: still counted by `open_by_layer` -/
def KW.gwNode : KW S → Option (SubP S)
  | .gwW n => some n
  | _ => none

/-- the length of the log when the compilation in progress started -/
def KW.k0 : KW S → Nat
  | .compR _ _ k | .compX _ _ k => k
  | _ => 0

def depthIs (o : Option (SubP S)) (d : Nat) : Bool :=
  match o with
  | some n => n.depth == d
  | none => false

/-- number of workers whose `f`-node is at depth `d` -/
def cntF (f : KW S → Option (SubP S)) (ws : List (KW S)) (d : Nat) : Nat := ws.countP (fun w => depthIs (f w) d)

/-- number of nodes of depth `d` taken by the workers (`KW.node`) -/
abbrev handD (ws : List (KW S)) (d : Nat) : Nat := cntF KW.node ws d
/-- number of nodes of depth `d` held in stage `gwW` -/
abbrev gwD (ws : List (KW S)) (d : Nat) : Nat := cntF KW.gwNode ws d

theorem cntF_set_same (f : KW S → Option (SubP S)) {l : List (KW S)} {i : Nat} {w a : KW S} (hw : l[i]? = some w)
    (h : f a = f w) (d : Nat) : cntF f (l.set i a) d = cntF f l d := by
  have := countP_set (fun w => depthIs (f w) d) a hw
  simp only [h] at this
  unfold cntF
  omega

theorem cntF_set_gain (f : KW S → Option (SubP S)) {l : List (KW S)} {i : Nat} {w a : KW S} {n : SubP S}
    (hw : l[i]? = some w) (h1 : f w = none) (h2 : f a = some n) (d : Nat) :
    cntF f (l.set i a) d = cntF f l d + (if n.depth = d then 1 else 0) := by
  have := countP_set (fun w => depthIs (f w) d) a hw
  have e1 : depthIs (f w) d = false := by rw [h1]; rfl
  have e2 : depthIs (f a) d = (n.depth == d) := by rw [h2]; rfl
  simp only [e1, e2] at this
  unfold cntF
  by_cases e : n.depth = d
  · simp [e] at this ⊢; omega
  · simp [e] at this ⊢; omega

theorem cntF_set_loss (f : KW S → Option (SubP S)) {l : List (KW S)} {i : Nat} {w a : KW S} {n : SubP S}
    (hw : l[i]? = some w) (h1 : f w = some n) (h2 : f a = none) (d : Nat) :
    cntF f (l.set i a) d + (if n.depth = d then 1 else 0) = cntF f l d := by
  have := countP_set (fun w => depthIs (f w) d) a hw
  have e1 : depthIs (f w) d = (n.depth == d) := by rw [h1]; rfl
  have e2 : depthIs (f a) d = false := by rw [h2]; rfl
  simp only [e1, e2] at this
  unfold cntF
  by_cases e : n.depth = d
  · simp [e] at this ⊢; omega
  · simp [e] at this ⊢; omega

theorem cntF_map (f : KW S → Option (SubP S)) (g : KW S → KW S) (h : ∀ w, f (g w) = f w) (l : List (KW S)) (d : Nat) :
    cntF f (l.map g) d = cntF f l d := by
  unfold cntF
  rw [List.countP_map]
  congr 1
  funext w
  simp only [Function.comp, h]

theorem cntF_zero (f : KW S → Option (SubP S)) {l : List (KW S)} (h : ∀ w ∈ l, f w = none) (d : Nat) :
    cntF f l d = 0 := by
  unfold cntF
  rw [List.countP_eq_zero]
  intro w hw
  rw [h w hw]
  simp [depthIs]

theorem cntF_pos (f : KW S → Option (SubP S)) {l : List (KW S)} {w : KW S} {n : SubP S} (hw : w ∈ l)
    (h : f w = some n) : 0 < cntF f l n.depth := by
  unfold cntF
  exact List.countP_pos_iff.mpr ⟨w, hw, by rw [h]; simp [depthIs]⟩

theorem countP_set_same {α : Type} (p : α → Bool) {l : List α} {i : Nat} {w a : α} (hw : l[i]? = some w)
    (h : p a = p w) : (l.set i a).countP p = l.countP p := by
  have := countP_set p a hw
  rw [h] at this
  omega

/-! ## 3. the cache operations are defined at depths `≤ nbVars` -/

theorem update_def (c : Cache S) (s : S) (d : Nat) (t : Thr) (hd : d < c.layers.length) :
    ∃ c', c.update s d t = some c' := by
  unfold Cache.update
  rw [List.getElem?_eq_getElem hd]
  exact ⟨_, rfl⟩

theorem update_length {c c' : Cache S} {s : S} {d : Nat} {t : Thr} (h : c.update s d t = some c') :
    c'.layers.length = c.layers.length := by
  unfold Cache.update at h
  split at h
  · cases h
  · injection h with h; subst h; simp

theorem clearLayer_def (c : Cache S) (d : Nat) (hd : d < c.layers.length) : ∃ c', c.clearLayer d = some c' := by
  unfold Cache.clearLayer
  rw [List.getElem?_eq_getElem hd]
  exact ⟨_, rfl⟩

theorem clearLayer_length {c c' : Cache S} {d : Nat} (h : c.clearLayer d = some c') :
    c'.layers.length = c.layers.length := by
  unfold Cache.clearLayer at h
  split at h
  · cases h
  · injection h with h; subst h; simp

theorem mustExplore_def (c : Cache S) (s : S) (d : Nat) (v : Int) (hd : d < c.layers.length) :
    ∃ b, c.mustExplore s d v = some b := by
  unfold Cache.mustExplore Cache.get
  rw [List.getElem?_eq_getElem hd]
  exact ⟨_, rfl⟩

/-! ## 4. the invariant -/

/-- `open_by_layer` side: `nbVars + 1` cells; cell `d` counts the fringe entries of depth `d` plus the nodes of depth `d`
    held in stage `gwW` (popped and kept, `take` — which decrements — not yet done); no checked operation failed in
    `enqueue_cutset`; no abort -/
structure OpenK (n : Nat) (b : SeqSt S) (ws : List (KW S)) : Prop where
  openLen : b.openByLayer.length = n + 1
  openCnt : ∀ d, d ≤ n → b.openByLayer[d]? = some (cntD b.fringe d + gwD ws d)
  noPanic : b.crashed = false
  noAbort : b.abort = false

/-- workers side: `ongoing_by_layer` has `nbVars + 1` cells and cell `d` counts the nodes of depth `d` taken (`KW.node`);
    `ongoing` counts the workers that hold a node; one cell of `upper_bounds` per worker; nobody has panicked; a parked
    worker implies work in progress (no lost wake-up); at most one worker is inside `get_workload` -/
structure HandK (n : Nat) (c : ParCrit S) (ws : List (KW S)) : Prop where
  ongoLen : c.ongoingByLayer.length = n + 1
  ongoCnt : ∀ d, d ≤ n → c.ongoingByLayer[d]? = some (handD ws d)
  cnt : c.ongoing = ws.countP KW.holds
  len : ws.length = c.upperBounds.length
  noCrash : ∀ w ∈ ws, w ≠ KW.crashed
  parked : KW.waiting ∈ ws → c.ongoing ≠ 0
  mutex : ws.countP KW.inGw ≤ 1

/-- cache side: `nbVars + 1` layers; the head of the ghost log is the current cache; a compilation in progress started
    when the log was no longer than now -/
structure LogK (n : Nat) (cache : Cache S) (log : List (Cache S)) (ws : List (KW S)) : Prop where
  cacheLen : cache.layers.length = n + 1
  logHead : log.head? = some cache
  logK : ∀ w ∈ ws, w.k0 ≤ log.length

/-- **`LayInvK`**: the bookkeeping invariant of the parallel solver with the cache -/
structure LayInvK (nbVars : Nat) (s : KSys S) : Prop where
  opn : OpenK nbVars s.crit.base s.ws
  hand : HandK nbVars s.crit s.ws
  lg : LogK nbVars s.cache s.log s.ws

/-! ### mutual exclusion, index form -/

theorem lockFree_iff (ws : List (KW S)) : ws.countP KW.inGw = 0 ↔ ∀ w ∈ ws, w.inGw = false := by
  rw [List.countP_eq_zero]
  constructor
  · intro h w hw; simpa using h w hw
  · intro h w hw; simp [h w hw]

/-- the worker inside `get_workload` is alone there -/
theorem mutex_others {ws : List (KW S)} {i : Nat} {w x : KW S} (hm : ws.countP KW.inGw ≤ 1) (hw : ws[i]? = some w)
    (hin : w.inGw = true) (hx : x.inGw = false) : ∀ w' ∈ ws.set i x, w'.inGw = false := by
  have := countP_set KW.inGw x hw
  rw [hin, hx] at this
  simp at this
  exact (lockFree_iff _).mp (by omega)

theorem mutex_index {ws : List (KW S)} {i j : Nat} {w w' : KW S} (hm : ws.countP KW.inGw ≤ 1) (hw : ws[i]? = some w)
    (hin : w.inGw = true) (hw' : ws[j]? = some w') (hin' : w'.inGw = true) : j = i := by
  apply Classical.byContradiction
  intro hne
  have h1 : (ws.set i KW.idle)[j]? = some w' := by
    rw [List.getElem?_set_ne (fun e => hne e.symm)]; exact hw'
  have := mutex_others hm hw hin (x := KW.idle) rfl w' (List.mem_of_getElem? h1)
  rw [hin'] at this
  cases this

theorem wake_node (w : KW S) : w.wake.node = w.node := by cases w <;> rfl
theorem wake_gwNode (w : KW S) : w.wake.gwNode = w.gwNode := by cases w <;> rfl
theorem wake_inGw (w : KW S) : w.wake.inGw = w.inGw := by cases w <;> rfl
theorem wake_holds (w : KW S) : w.wake.holds = w.holds := by cases w <;> rfl
theorem wake_k0 (w : KW S) : w.wake.k0 = w.k0 := by cases w <;> rfl
theorem wake_ne_waiting (w : KW S) : w.wake ≠ .waiting := by cases w <;> simp [KW.wake]
theorem wake_ne_crashed {w : KW S} (h : w ≠ .crashed) : w.wake ≠ .crashed := by cases w <;> simp_all [KW.wake]

theorem inGw_gwNode {w : KW S} (h : w.inGw = false) : w.gwNode = none := by cases w <;> first | rfl | cases h

/-! ### a worker changes stage -/

/-- worker `i` changes stage keeping its taken node (or having none before and after) -/
theorem handK_set {n : Nat} {c c' : ParCrit S} {ws : List (KW S)} {i : Nat} {w w' : KW S} (h : HandK n c ws)
    (hw : ws[i]? = some w) (hnode : w'.node = w.node) (hcr : w' ≠ .crashed)
    (hwait : w' = .waiting → c.ongoing ≠ 0)
    (hgw : w'.inGw = true → w.inGw = true ∨ ws.countP KW.inGw = 0)
    (e1 : c'.ongoingByLayer = c.ongoingByLayer) (e2 : c'.ongoing = c.ongoing)
    (e3 : c'.upperBounds.length = c.upperBounds.length) : HandK n c' (ws.set i w') := by
  refine ⟨by rw [e1]; exact h.ongoLen, fun d hd' => ?_, ?_, by rw [List.length_set, e3]; exact h.len,
    mem_set_elim h.noCrash hcr, fun hm => ?_, ?_⟩
  · rw [e1, h.ongoCnt d hd']
    show some (cntF _ _ _) = some (cntF _ _ _)
    rw [cntF_set_same KW.node hw hnode]
  · rw [e2, h.cnt, countP_set_same KW.holds hw (by unfold KW.holds; rw [hnode])]
  · rw [e2]
    rcases List.mem_or_eq_of_mem_set hm with h' | h'
    · exact h.parked h'
    · exact hwait h'.symm
  · have := countP_set KW.inGw w' hw
    have hm := h.mutex
    cases h1 : w'.inGw with
    | false =>
      rw [h1] at this
      simp only [Bool.false_eq_true, if_false] at this
      omega
    | true =>
      rcases hgw h1 with h2 | h2
      · rw [h1, h2] at this; omega
      · rw [h1, h2] at this
        simp only [if_true] at this
        omega

theorem openK_set {n : Nat} {b b' : SeqSt S} {ws : List (KW S)} {i : Nat} {w w' : KW S} (h : OpenK n b ws)
    (hw : ws[i]? = some w) (hg : w'.gwNode = w.gwNode) (e1 : b'.openByLayer = b.openByLayer)
    (e2 : b'.fringe = b.fringe) (e3 : b'.crashed = b.crashed) (e4 : b'.abort = b.abort) :
    OpenK n b' (ws.set i w') := by
  refine ⟨by rw [e1]; exact h.openLen, fun d hd' => ?_, by rw [e3]; exact h.noPanic, by rw [e4]; exact h.noAbort⟩
  rw [e1, e2, h.openCnt d hd']
  show some (_ + cntF _ _ _) = some (_ + cntF _ _ _)
  rw [cntF_set_same KW.gwNode hw hg]

theorem logK_set {n : Nat} {cache cache' : Cache S} {log log' : List (Cache S)} {ws : List (KW S)} {i : Nat}
    {w' : KW S} (h : LogK n cache log ws) (hc : cache'.layers.length = n + 1) (hh : log'.head? = some cache')
    (hl : log.length ≤ log'.length) (hk : w'.k0 ≤ log'.length) : LogK n cache' log' (ws.set i w') :=
  ⟨hc, hh, mem_set_elim (fun w hw => Nat.le_trans (h.logK w hw) hl) hk⟩

theorem logK_push {n : Nat} {cache cache' : Cache S} {log : List (Cache S)} {ws : List (KW S)}
    (h : LogK n cache log ws) (hc : cache'.layers.length = n + 1) : LogK n cache' (cache' :: log) ws :=
  ⟨hc, rfl, fun w hw => Nat.le_trans (h.logK w hw) (Nat.le_succ _)⟩

/-- a step that only moves worker `i` to a stage with the same taken node and the same `gwW` node, and leaves the
    counters alone -/
theorem layInvK_local {n : Nat} {s : KSys S} {i : Nat} {w w' : KW S} {c' : ParCrit S} (hL : LayInvK n s)
    (hw : s.ws[i]? = some w) (hnode : w'.node = w.node) (hgn : w'.gwNode = w.gwNode) (hcr : w' ≠ .crashed)
    (hwait : w' = .waiting → s.crit.ongoing ≠ 0) (hgw : w'.inGw = true → w.inGw = true ∨ LockFree s)
    (hk : w'.k0 ≤ s.log.length)
    (e1 : c'.base.openByLayer = s.crit.base.openByLayer) (e2 : c'.base.fringe = s.crit.base.fringe)
    (e3 : c'.base.crashed = s.crit.base.crashed) (e4 : c'.base.abort = s.crit.base.abort)
    (e5 : c'.ongoingByLayer = s.crit.ongoingByLayer) (e6 : c'.ongoing = s.crit.ongoing)
    (e7 : c'.upperBounds = s.crit.upperBounds) :
    LayInvK n { s with crit := c', ws := s.ws.set i w' } :=
  ⟨openK_set hL.opn hw hgn e1 e2 e3 e4,
    handK_set hL.hand hw hnode hcr hwait
      (fun h => (hgw h).imp id (fun hl => (lockFree_iff _).mpr hl)) e5 e6 (by rw [e7]),
    logK_set hL.lg hL.lg.cacheLen hL.lg.logHead (Nat.le_refl _) hk⟩

/-- the end of `get_workload`: the worker in stage `gwW nn` takes `nn` -/
theorem handK_take {n : Nat} {c c'' : ParCrit S} {ws : List (KW S)} {i : Nat} {nn : SubP S} (h : HandK n c ws)
    (hw : ws[i]? = some (.gwW nn)) (hd' : nn.depth ≤ n) {ol : List Nat}
    (hb : bumpLayer c.ongoingByLayer nn.depth 1 = some ol)
    (e1 : c''.ongoingByLayer = ol) (e2 : c''.ongoing = c.ongoing + 1)
    (e3 : c''.upperBounds.length = c.upperBounds.length) : HandK n c'' (ws.set i (.readR nn)) := by
  obtain ⟨cc, hcc, rfl⟩ := bumpLayer_spec hb
  have hcc' : cc = handD ws nn.depth := by
    have := h.ongoCnt nn.depth hd'
    rw [hcc] at this
    exact Option.some.inj this
  have hset : ∀ d, handD (ws.set i (.readR nn)) d = handD ws d + (if nn.depth = d then 1 else 0) :=
    cntF_set_gain KW.node (a := .readR nn) (n := nn) hw rfl rfl
  obtain ⟨l1, l2⟩ := layer_set h.ongoLen h.ongoCnt nn.depth (cc + 1) (handD (ws.set i (.readR nn))) hd'
    (by rw [hset, if_pos rfl, hcc']) (fun d hne => by rw [hset, if_neg (fun e => hne e.symm)]; rfl)
  refine ⟨by rw [e1]; exact l1, fun d hd'' => by rw [e1]; exact l2 d hd'', ?_,
    by rw [List.length_set, e3]; exact h.len, mem_set_elim h.noCrash (by intro e; cases e),
    fun _ => by rw [e2]; omega, ?_⟩
  · rw [e2, h.cnt]
    have := countP_set KW.holds (KW.readR nn) hw
    have h1 : (KW.gwW nn).holds = false := rfl
    have h2 : (KW.readR nn).holds = true := rfl
    rw [h1, h2] at this
    simp only [Bool.false_eq_true, if_false, if_true] at this
    omega
  · have := countP_set KW.inGw (KW.readR nn) hw
    have h1 : (KW.gwW nn).inGw = true := rfl
    have h2 : (KW.readR nn).inGw = false := rfl
    rw [h1, h2] at this
    simp only [Bool.false_eq_true, if_false, if_true] at this
    have := h.mutex
    omega

/-- `notify_node_finished`: the worker gives its node back, every parked worker is woken -/
theorem handK_notify {n : Nat} {c c' : ParCrit S} {ws : List (KW S)} {i : Nat} {m : SubP S}
    (h : HandK n c ws) (hw : ws[i]? = some (.fin m)) (hd' : m.depth ≤ n) {ol : List Nat}
    (hb : decLayer c.ongoingByLayer m.depth = some ol)
    (e1 : c'.ongoingByLayer = ol) (e2 : c'.ongoing + 1 = c.ongoing)
    (e3 : c'.upperBounds.length = c.upperBounds.length) :
    HandK n c' ((ws.map KW.wake).set i .idle) := by
  obtain ⟨cc, hcc, hne, rfl⟩ := decLayer_spec hb
  have hcc' : cc = handD ws m.depth := by
    have := h.ongoCnt m.depth hd'
    rw [hcc] at this
    exact Option.some.inj this
  have hwk : (ws.map KW.wake)[i]? = some (.fin m) := by rw [List.getElem?_map, hw]; rfl
  have hset : ∀ d, handD ((ws.map KW.wake).set i .idle) d + (if m.depth = d then 1 else 0) = handD ws d := by
    intro d
    have := cntF_set_loss KW.node (a := .idle) (n := m) hwk rfl rfl d
    rw [cntF_map KW.node KW.wake wake_node] at this
    exact this
  obtain ⟨l1, l2⟩ := layer_set h.ongoLen h.ongoCnt m.depth (cc - 1) (handD ((ws.map KW.wake).set i .idle)) hd'
    (by have := hset m.depth; rw [if_pos rfl] at this; omega)
    (fun d hne' => by have := hset d; rw [if_neg (fun e => hne' e.symm)] at this; omega)
  refine ⟨by rw [e1]; exact l1, fun d hd'' => by rw [e1]; exact l2 d hd'', ?_,
    by rw [List.length_set, List.length_map, e3]; exact h.len, ?_, fun hm => ?_, ?_⟩
  · have := countP_set KW.holds KW.idle hwk
    have h1 : (KW.idle : KW S).holds = false := rfl
    have h2 : (KW.fin m).holds = true := rfl
    rw [h1, h2, List.countP_map] at this
    have e : (KW.holds ∘ KW.wake : KW S → Bool) = KW.holds := by funext w; exact wake_holds w
    rw [e] at this
    simp only [Bool.false_eq_true, if_false, if_true] at this
    have := h.cnt
    omega
  · refine mem_set_elim (fun w hw'' => ?_) (by intro e; cases e)
    obtain ⟨w0, hw0, rfl⟩ := List.mem_map.mp hw''
    exact wake_ne_crashed (h.noCrash w0 hw0)
  · exfalso
    rcases List.mem_or_eq_of_mem_set hm with h' | h'
    · obtain ⟨w0, _, e⟩ := List.mem_map.mp h'
      exact wake_ne_waiting w0 e
    · cases h'
  · have := countP_set KW.inGw KW.idle hwk
    have h1 : (KW.idle : KW S).inGw = false := rfl
    have h2 : (KW.fin m).inGw = false := rfl
    rw [h1, h2, List.countP_map] at this
    have e : (KW.inGw ∘ KW.wake : KW S → Bool) = KW.inGw := by funext w; exact wake_inGw w
    rw [e] at this
    have := h.mutex
    omega

/-! ## 5. never panics -/

/-- the bookkeeping at the end of `get_workload` does not panic -/
theorem take_defined {nbVars : Nat} {s : KSys S} {i : Nat} {n : SubP S} (hL : LayInvK nbVars s)
    (hw : s.ws[i]? = some (.gwW n)) (hN : n.depth ≤ nbVars) : ∃ c'', s.crit.take i n = some c'' := by
  have hmem := List.mem_of_getElem? hw
  have hpos : 0 < gwD s.ws n.depth := cntF_pos KW.gwNode hmem rfl
  have hi : i < s.crit.upperBounds.length := by
    rw [← hL.hand.len]; exact (List.getElem?_eq_some_iff.mp hw).1
  unfold ParCrit.take decLayer bumpLayer
  rw [if_pos hi, hL.opn.openCnt n.depth hN, hL.hand.ongoCnt n.depth hN]
  simp only
  rw [if_neg (by omega)]
  exact ⟨_, rfl⟩

/-- a refused node: the counter of its depth is positive (the node was in the fringe) -/
theorem dropOne_defined {nbVars : Nat} {s : KSys S} {N : SubP S} {rest : List (SubP S)} (hL : LayInvK nbVars s)
    (hp : PopMax s.crit.base.fringe N rest) (hN : N.depth ≤ nbVars) : ∃ c', dropOne s.crit N rest = some c' := by
  have hc : cntD s.crit.base.fringe N.depth = cntD rest N.depth + 1 := by
    rw [cntD_perm hp.1, cntD_cons, if_pos rfl]
  unfold dropOne decLayer
  rw [hL.opn.openCnt N.depth hN]
  simp only
  rw [if_neg (by omega)]
  exact ⟨_, rfl⟩

/-- `notify_node_finished` does not panic -/
theorem notify_defined {nbVars : Nat} {s : KSys S} {i : Nat} {n : SubP S} (hL : LayInvK nbVars s)
    (hw : s.ws[i]? = some (.fin n)) (hN : n.depth ≤ nbVars) : ∃ c', s.crit.notifyFinished i n.depth = some c' := by
  have hmem := List.mem_of_getElem? hw
  have h1 : s.crit.ongoing ≠ 0 := by
    rw [hL.hand.cnt]
    have : 0 < s.ws.countP KW.holds := List.countP_pos_iff.mpr ⟨_, hmem, rfl⟩
    omega
  have hi : i < s.crit.upperBounds.length := by
    rw [← hL.hand.len]; exact (List.getElem?_eq_some_iff.mp hw).1
  have h3 : 0 < handD s.ws n.depth := cntF_pos KW.node hmem rfl
  unfold ParCrit.notifyFinished decLayer
  rw [if_neg h1, if_pos hi, hL.hand.ongoCnt n.depth hN]
  simp only
  rw [if_neg (by omega)]
  exact ⟨_, rfl⟩

/-- **never panics**: under the invariant no `crash` step is enabled -/
theorem no_panics {nbVars : Nat} {s : KSys S} {i : Nat} {w : KW S} (hL : LayInvK nbVars s) (hD : DepthOk nbVars s)
    (hw : s.ws[i]? = some w) : ¬ Panics nbVars s i w := by
  have hmem := List.mem_of_getElem? hw
  intro hp
  cases w with
  | gwC =>
    obtain ⟨hc, hcl⟩ := hp
    obtain ⟨c', h⟩ := clearLayer_def s.cache s.crit.base.firstActive (by rw [hL.lg.cacheLen]; have := hc.1; omega)
    rw [h] at hcl; cases hcl
  | gwP =>
    obtain ⟨N, rest, hpm, hub, h⟩ := hp
    have hN := hD.fr N ((mem_of_popMax hpm N).mpr (Or.inl rfl))
    rcases h with h | ⟨_, h⟩
    · obtain ⟨b, hb⟩ := mustExplore_def s.cache N.state N.depth N.value (by rw [hL.lg.cacheLen]; omega)
      rw [hb] at h; cases h
    · obtain ⟨c', hc'⟩ := dropOne_defined hL hpm hN
      rw [hc'] at h; cases h
  | gwW n =>
    have hN := hD.held _ hmem n (Or.inr rfl)
    rcases hp with h | h
    · obtain ⟨c', hc'⟩ := update_def s.cache n.state n.depth ⟨n.value, true⟩ (by rw [hL.lg.cacheLen]; omega)
      rw [hc'] at h; cases h
    · obtain ⟨c', hc'⟩ := take_defined hL hw hN
      rw [hc'] at h; cases h
  | wrR n lb o cv ups todo =>
    cases todo with
    | nil => exact hp
    | cons u todo =>
      have hu := hD.todo _ hmem n lb o cv ups (u :: todo) (Or.inl rfl) u List.mem_cons_self
      obtain ⟨c', hc'⟩ := update_def s.cache u.1 u.2.1 (upThr u) (by rw [hL.lg.cacheLen]; omega)
      have hp : s.cache.update u.1 u.2.1 (upThr u) = none := hp
      rw [hc'] at hp; cases hp
  | wrX n lb o cv ups todo =>
    cases todo with
    | nil => exact hp
    | cons u todo =>
      have hu := hD.todo _ hmem n lb o cv ups (u :: todo) (Or.inr rfl) u List.mem_cons_self
      obtain ⟨c', hc'⟩ := update_def s.cache u.1 u.2.1 (upThr u) (by rw [hL.lg.cacheLen]; omega)
      have hp : s.cache.update u.1 u.2.1 (upThr u) = none := hp
      rw [hc'] at hp; cases hp
  | fin n =>
    obtain ⟨c', hc'⟩ := notify_defined hL hw (hD.held _ hmem n (Or.inl rfl))
    have hp : s.crit.notifyFinished i n.depth = none := hp
    rw [hc'] at hp; cases hp
  | _ => exact hp

theorem layInvK_noPanic {nbVars : Nat} {s : KSys S} (hL : LayInvK nbVars s) : NoPanic s :=
  ⟨hL.hand.noCrash, hL.opn.noPanic⟩

/-! ## 6. every step preserves the invariant -/

theorem gwD_lockFree {s : KSys S} (hl : LockFree s) (d : Nat) : gwD s.ws d = 0 :=
  cntF_zero KW.gwNode (fun w hw => inGw_gwNode (hl w hw)) d

/-- **every step of every worker preserves the bookkeeping invariant** — `crash` included: it is not enabled -/
theorem kstep_layInvK {nbVars : Nat} {dedup : Bool} {okR okX : SubP S → Int → Cache S → DDOut S → List (Up S) → Prop}
    {s t : KSys S} (h : KStep nbVars dedup okR okX s t) (hL : LayInvK nbVars s) (hD : DepthOk nbVars s) :
    LayInvK nbVars t := by
  have hO := hL.opn
  have hH := hL.hand
  have hG := hL.lg
  cases h with
  | gwEnter i hw hl =>
    exact layInvK_local (c' := s.crit) hL hw rfl rfl (by intro e; cases e) (fun e => by cases e) (fun _ => Or.inr hl)
      (Nat.zero_le _) rfl rfl rfl rfl rfl rfl rfl
  | gwClear i c' hw hc hcl =>
    exact ⟨⟨hO.openLen, hO.openCnt, hO.noPanic, hO.noAbort⟩,
      ⟨hH.ongoLen, hH.ongoCnt, hH.cnt, hH.len, hH.noCrash, hH.parked, hH.mutex⟩,
      logK_push hG (by rw [clearLayer_length hcl]; exact hG.cacheLen)⟩
  | gwComplete i hw hc ho hf =>
    exact layInvK_local (c' := s.crit.complete) hL hw rfl rfl (by intro e; cases e) (fun e => by cases e)
      (fun e => by cases e) (Nat.zero_le _) rfl rfl rfl rfl rfl rfl rfl
  | gwWait i hw hc ho hf =>
    exact layInvK_local (c' := s.crit) hL hw rfl rfl (by intro e; cases e) (fun _ => ho)
      (fun e => by cases e) (Nat.zero_le _) rfl rfl rfl rfl rfl rfl rfl
  | gwToPop i hw hc hf =>
    exact layInvK_local (c' := s.crit) hL hw rfl rfl (by intro e; cases e) (fun e => by cases e)
      (fun _ => Or.inl rfl) (Nat.zero_le _) rfl rfl rfl rfl rfl rfl rfl
  | gwEmpty i hw hf =>
    exact layInvK_local (c' := s.crit) hL hw rfl rfl (by intro e; cases e) (fun e => by cases e)
      (fun e => by cases e) (Nat.zero_le _) rfl rfl rfl rfl rfl rfl rfl
  | gwStarve i N rest hw hp hub =>
    have hz : ∀ d, gwD (s.ws.set i .idle) d = 0 := fun d =>
      cntF_zero KW.gwNode (fun w hw' => inGw_gwNode (mutex_others hH.mutex hw rfl (x := .idle) rfl w hw')) d
    refine ⟨⟨?_, fun d hd' => ?_, hO.noPanic, hO.noAbort⟩,
      handK_set (c' := starve s.crit) hH hw rfl (by intro e; cases e) (fun e => by cases e) (fun e => by cases e)
        rfl rfl rfl,
      logK_set hG hG.cacheLen hG.logHead (Nat.le_refl _) (Nat.zero_le _)⟩
    · show (s.crit.base.openByLayer.map (fun _ => 0)).length = _
      rw [List.length_map]; exact hO.openLen
    · show (s.crit.base.openByLayer.map (fun _ => 0))[d]? = some (cntD [] d + gwD (s.ws.set i .idle) d)
      rw [hz d, List.getElem?_map, List.getElem?_eq_getElem (by rw [hO.openLen]; omega)]
      rfl
  | gwDrop i N rest c' hw hp hub hme hd =>
    have hN := hD.fr N ((mem_of_popMax hp N).mpr (Or.inl rfl))
    unfold dropOne at hd
    split at hd
    · next l hl =>
      injection hd with hd
      subst hd
      obtain ⟨c, hc, hne, rfl⟩ := decLayer_spec hl
      have hcc : c = cntD s.crit.base.fringe N.depth + gwD s.ws N.depth := by
        have := hO.openCnt N.depth hN
        rw [hc] at this
        exact Option.some.inj this
      have hfr : ∀ d, cntD s.crit.base.fringe d = cntD rest d + (if N.depth = d then 1 else 0) := fun d => by
        rw [cntD_perm hp.1, cntD_cons]
      obtain ⟨l1, l2⟩ := layer_set hO.openLen hO.openCnt N.depth (c - 1) (fun d => cntD rest d + gwD s.ws d) hN
        (by have := hfr N.depth; rw [if_pos rfl] at this; show cntD rest N.depth + gwD s.ws N.depth = c - 1; omega)
        (fun d hne' => by
          have := hfr d; rw [if_neg (fun e => hne' e.symm)] at this
          show cntD rest d + gwD s.ws d = cntD s.crit.base.fringe d + gwD s.ws d; omega)
      exact ⟨⟨l1, l2, hO.noPanic, hO.noAbort⟩,
        ⟨hH.ongoLen, hH.ongoCnt, hH.cnt, hH.len, hH.noCrash, hH.parked, hH.mutex⟩, hG⟩
    · cases hd
  | gwKeep i N rest hw hp hub hme =>
    have hfr : ∀ d, cntD s.crit.base.fringe d = cntD rest d + (if N.depth = d then 1 else 0) := fun d => by
      rw [cntD_perm hp.1, cntD_cons]
    have hset : ∀ d, gwD (s.ws.set i (.gwW N)) d = gwD s.ws d + (if N.depth = d then 1 else 0) :=
      cntF_set_gain KW.gwNode (a := .gwW N) (n := N) hw rfl rfl
    refine ⟨⟨hO.openLen, fun d hd' => ?_, hO.noPanic, hO.noAbort⟩,
      handK_set (c' := setFringe s.crit rest) hH hw rfl (by intro e; cases e) (fun e => by cases e)
        (fun _ => Or.inl rfl) rfl rfl rfl,
      logK_set hG hG.cacheLen hG.logHead (Nat.le_refl _) (Nat.zero_le _)⟩
    show s.crit.base.openByLayer[d]? = some (cntD rest d + gwD (s.ws.set i (.gwW N)) d)
    rw [hO.openCnt d hd', hset d, hfr d]
    congr 1
    omega
  | gwTake i n c' crit' hw hu ht =>
    have hmem := List.mem_of_getElem? hw
    have hN := hD.held _ hmem n (Or.inr rfl)
    obtain ⟨t1, _, _, _, t5, t6, t7, _⟩ := take_spec ht
    obtain ⟨l, ol, h1, h2, h3, h4, h5⟩ := take_full ht
    obtain ⟨c, hc, hne, rfl⟩ := decLayer_spec h1
    have hcc : c = cntD s.crit.base.fringe n.depth + gwD s.ws n.depth := by
      have := hO.openCnt n.depth hN
      rw [hc] at this
      exact Option.some.inj this
    have hset : ∀ d, gwD (s.ws.set i (.readR n)) d + (if n.depth = d then 1 else 0) = gwD s.ws d :=
      cntF_set_loss KW.gwNode (a := .readR n) (n := n) hw rfl rfl
    obtain ⟨l1, l2⟩ := layer_set hO.openLen hO.openCnt n.depth (c - 1)
      (fun d => cntD crit'.base.fringe d + gwD (s.ws.set i (.readR n)) d) hN
      (by have := hset n.depth; rw [if_pos rfl] at this
          show cntD crit'.base.fringe n.depth + gwD (s.ws.set i (.readR n)) n.depth = c - 1
          rw [t1]; omega)
      (fun d hne' => by
        have := hset d; rw [if_neg (fun e => hne' e.symm)] at this
        show cntD crit'.base.fringe d + gwD (s.ws.set i (.readR n)) d = cntD s.crit.base.fringe d + gwD s.ws d
        rw [t1]; omega)
    exact ⟨⟨by rw [h3]; exact l1, fun d hd' => by rw [h3]; exact l2 d hd', by rw [h5]; exact hO.noPanic,
        by rw [t5]; exact hO.noAbort⟩,
      handK_take hH hw hN h2 h4 t6 (by rw [t7, List.length_set]),
      logK_set hG (by rw [update_length hu]; exact hG.cacheLen) rfl (Nat.le_succ _) (Nat.zero_le _)⟩
  | readLbR i n hw hl =>
    refine layInvK_local (c' := s.crit) hL hw ?_ ?_ ?_ (fun e => ?_) (fun e => ?_) ?_ rfl rfl rfl rfl rfl rfl rfl
    · split <;> rfl
    · split <;> rfl
    · split <;> (intro e; cases e)
    · split at e <;> cases e
    · split at e <;> cases e
    · split
      · exact Nat.zero_le _
      · exact Nat.le_refl _
  | compileR i n lb k0 cv o ups hw hcv hok =>
    exact layInvK_local (c' := s.crit) hL hw rfl rfl (by intro e; cases e) (fun e => by cases e)
      (fun e => by cases e) (Nat.zero_le _) rfl rfl rfl rfl rfl rfl rfl
  | writeR i n lb o cv ups u todo c' hw hu =>
    exact ⟨openK_set hO hw rfl rfl rfl rfl rfl,
      handK_set (c' := s.crit) hH hw rfl (by intro e; cases e) (fun e => by cases e) (fun e => by cases e)
        rfl rfl rfl,
      logK_set hG (by rw [update_length hu]; exact hG.cacheLen) rfl (Nat.le_succ _) (Nat.zero_le _)⟩
  | updateR i n lb o cv ups hw hl =>
    obtain ⟨f1, _, f3, f4, _⟩ := updateBest_fringe s.crit.base o
    refine layInvK_local (c' := s.crit.updateBest o) hL hw ?_ ?_ ?_ (fun e => ?_) (fun e => ?_) ?_
      f4 f1 (updateBest_crashed s.crit.base o) f3 rfl rfl rfl
    · split <;> rfl
    · split <;> rfl
    · split <;> (intro e; cases e)
    · split at e <;> cases e
    · split at e <;> cases e
    · split <;> exact Nat.zero_le _
  | readLbX i n hw hl =>
    exact layInvK_local (c' := s.crit) hL hw rfl rfl (by intro e; cases e) (fun e => by cases e)
      (fun e => by cases e) (Nat.le_refl _) rfl rfl rfl rfl rfl rfl rfl
  | compileX i n lb k0 cv o ups hw hcv hok =>
    exact layInvK_local (c' := s.crit) hL hw rfl rfl (by intro e; cases e) (fun e => by cases e)
      (fun e => by cases e) (Nat.zero_le _) rfl rfl rfl rfl rfl rfl rfl
  | writeX i n lb o cv ups u todo c' hw hu =>
    exact ⟨openK_set hO hw rfl rfl rfl rfl rfl,
      handK_set (c' := s.crit) hH hw rfl (by intro e; cases e) (fun e => by cases e) (fun e => by cases e)
        rfl rfl rfl,
      logK_set hG (by rw [update_length hu]; exact hG.cacheLen) rfl (Nat.le_succ _) (Nat.zero_le _)⟩
  | updateX i n lb o cv ups hw hl =>
    obtain ⟨f1, _, f3, f4, _⟩ := updateBest_fringe s.crit.base o
    refine layInvK_local (c' := s.crit.updateBest o) hL hw ?_ ?_ ?_ (fun e => ?_) (fun e => ?_) ?_
      f4 f1 (updateBest_crashed s.crit.base o) f3 rfl rfl rfl
    · split <;> rfl
    · split <;> rfl
    · split <;> (intro e; cases e)
    · split at e <;> cases e
    · split at e <;> cases e
    · split <;> exact Nat.zero_le _
  | enqueue i n lb o cv ups hw hl =>
    have hmem := List.mem_of_getElem? hw
    have hcs : ∀ c ∈ o.cutset, c.depth ≤ nbVars := hD.cut _ hmem n lb o cv ups rfl
    have hlay : LayersOk nbVars s.crit.base.openByLayer s.crit.base.fringe :=
      ⟨hO.openLen, fun d hd' => by rw [hO.openCnt d hd', gwD_lockFree hl d]; rfl⟩
    obtain ⟨g1, g2⟩ := enqueue_layers nbVars dedup o.cutset hcs _ hlay
    obtain ⟨_, _, g3⟩ := enqueue_len nbVars dedup o.cutset hcs _ hO.openLen
    have hz : ∀ d, gwD (s.ws.set i (.fin n)) d = 0 := fun d => by
      show cntF _ _ _ = 0
      rw [cntF_set_same KW.gwNode hw (a := .fin n) rfl]
      exact gwD_lockFree hl d
    exact ⟨⟨g1.1, fun d hd' => by rw [hz d]; exact g1.2 d hd', g2.trans hO.noPanic, g3.trans hO.noAbort⟩,
      handK_set (c' := s.crit.enqueue dedup o.cutset) hH hw rfl (by intro e; cases e) (fun e => by cases e)
        (fun e => by cases e) rfl rfl rfl,
      logK_set hG hG.cacheLen hG.logHead (Nat.le_refl _) (Nat.zero_le _)⟩
  | notify i n c' hw hl hn =>
    have hmem := List.mem_of_getElem? hw
    have hN := hD.held _ hmem n (Or.inl rfl)
    obtain ⟨n1, n2, n3, _⟩ := notify_spec hn
    obtain ⟨ol, h1, h2⟩ := notify_full hn
    have hwk : (s.ws.map KW.wake)[i]? = some (.fin n) := by rw [List.getElem?_map, hw]; rfl
    have hz : ∀ d, gwD ((s.ws.map KW.wake).set i .idle) d = gwD s.ws d := fun d => by
      show cntF _ _ _ = cntF _ _ _
      rw [cntF_set_same KW.gwNode hwk (a := .idle) rfl, cntF_map KW.gwNode KW.wake wake_gwNode]
    refine ⟨⟨by rw [n1]; exact hO.openLen, fun d hd' => by rw [n1, hz d]; exact hO.openCnt d hd',
        by rw [n1]; exact hO.noPanic, by rw [n1]; exact hO.noAbort⟩,
      handK_notify hH hw hN h1 h2 n2 (by rw [n3, List.length_set]),
      ⟨hG.cacheLen, hG.logHead, mem_set_elim (fun w hw' => ?_) (Nat.zero_le _)⟩⟩
    obtain ⟨w0, hw0, rfl⟩ := List.mem_map.mp hw'
    rw [wake_k0]; exact hG.logK w0 hw0
  | crash i w hw hp => exact absurd hp (no_panics hL hD hw)

/-- the invariant holds initially: `U` idle workers, `U` cells of `upper_bounds`, the empty cache with `nbVars + 1` layers -/
theorem init_layInvK (P : Problem S) (dedup : Bool) (U : Nat) : LayInvK P.nbVars (KSys.init P dedup U) := by
  have hidle : ∀ w ∈ List.replicate U (KW.idle : KW S), w = .idle := fun w hw => List.eq_of_mem_replicate hw
  have hcp : ∀ p : KW S → Bool, p .idle = false → (List.replicate U (KW.idle : KW S)).countP p = 0 := by
    intro p hp
    rw [List.countP_replicate, hp]; rfl
  have hz : ∀ (f : KW S → Option (SubP S)), f .idle = none → ∀ d, cntF f (List.replicate U (KW.idle : KW S)) d = 0 :=
    fun f hf d => cntF_zero f (fun w hw => by rw [hidle w hw]; exact hf) d
  have hzg : ∀ d, gwD (List.replicate U (KW.idle : KW S)) d = 0 := hz KW.gwNode rfl
  have hzh : ∀ d, handD (List.replicate U (KW.idle : KW S)) d = 0 := hz KW.node rfl
  obtain ⟨h1, h2⟩ := init_layers P dedup
  refine ⟨⟨h1.1, fun d hd' => ?_, h2, ?_⟩,
    ⟨by simp [KSys.init, ParCrit.init], fun d hd' => ?_, ?_, by simp [KSys.init, ParCrit.init],
      (fun w hw => by rw [hidle w hw]; intro e; cases e), (fun hm => by cases hidle _ hm), ?_⟩,
    ⟨by simp [KSys.init, Cache.init], rfl, (fun w hw => by rw [hidle w hw]; exact Nat.zero_le _)⟩⟩
  · show (SeqSt.init P none dedup).openByLayer[d]? = some (cntD (SeqSt.init P none dedup).fringe d +
      gwD (List.replicate U (KW.idle : KW S)) d)
    rw [hzg d]; exact h1.2 d hd'
  · show (SeqSt.init P none dedup).abort = false
    rfl
  · show (List.replicate (P.nbVars + 1) 0)[d]? = some (handD (List.replicate U (KW.idle : KW S)) d)
    rw [List.getElem?_replicate, if_pos (by omega), hzh d]
  · show 0 = (List.replicate U (KW.idle : KW S)).countP KW.holds
    rw [hcp _ rfl]
  · show (List.replicate U (KW.idle : KW S)).countP KW.inGw ≤ 1
    rw [hcp _ rfl]; exact Nat.zero_le _

/-! ## 7. when `get_workload` answers `Complete` nothing is open -/

theorem completes_nothing_open {nbVars : Nat} {s : KSys S} {i : Nat} (hL : LayInvK nbVars s)
    (hc : CompletesAt nbVars s i) : ∀ w ∈ s.ws, w.openNode = none ∧ w.pendVal = none ∧ w.pendCut = [] := by
  obtain ⟨hw, _, ho, _⟩ := hc
  intro w hmem
  have hno : w.holds = false := by
    have h0 : s.ws.countP KW.holds = 0 := by rw [← hL.hand.cnt]; exact ho
    have := List.countP_eq_zero.mp h0 w hmem
    simpa using this
  have hnode : w.node = none := by
    unfold KW.holds at hno
    cases h : w.node with
    | none => rfl
    | some n => rw [h] at hno; cases hno
  obtain ⟨j, hj⟩ := List.mem_iff_getElem?.mp hmem
  have hgw : ∀ n, w ≠ .gwW n := by
    intro n e
    subst e
    have := mutex_index hL.hand.mutex hw rfl hj rfl
    subst this
    rw [hw] at hj
    cases hj
  cases w with
  | gwW n => exact absurd rfl (hgw n)
  | idle | waiting | done | crashed | gwC | gwP | fin _ => exact ⟨rfl, rfl, rfl⟩
  | _ => cases hnode

/-! ## 8. never deadlocks -/

/-- the current cache is a legitimate virtual cache for a compilation that started no later than now -/
theorem fromLog_cur {cache : Cache S} {log : List (Cache S)} {k0 : Nat} (hh : log.head? = some cache)
    (hk : k0 ≤ log.length) : FromLog cache log (log.length + 1 - k0) := by
  intro st d t hv
  refine ⟨cache, ?_, hv⟩
  cases log with
  | nil => cases hh
  | cons c l =>
    simp only [List.head?_cons, Option.some.injEq] at hh
    subst hh
    obtain ⟨m, hm⟩ : ∃ m, (c :: l).length + 1 - k0 = m + 1 := ⟨(c :: l).length - k0, by omega⟩
    rw [hm, List.take_succ_cons]
    exact List.mem_cons_self

/-- the worker inside `get_workload` can always move -/
theorem gw_moves {nbVars : Nat} {dedup : Bool} {okR okX : SubP S → Int → Cache S → DDOut S → List (Up S) → Prop}
    {s : KSys S} (hL : LayInvK nbVars s) (hD : DepthOk nbVars s) {j : Nat} {w : KW S} (hw : s.ws[j]? = some w)
    (hin : w.inGw = true) : ∃ t, KStep nbVars dedup okR okX s t := by
  have hmem := List.mem_of_getElem? hw
  cases w with
  | gwC =>
    by_cases hc : cleanCond nbVars s.crit
    · obtain ⟨c', h⟩ := clearLayer_def s.cache s.crit.base.firstActive
        (by rw [hL.lg.cacheLen]; have := hc.1; omega)
      exact ⟨_, .gwClear s j c' hw hc h⟩
    · by_cases hf : s.crit.base.fringe = []
      · by_cases ho : s.crit.ongoing = 0
        · exact ⟨_, .gwComplete s j hw hc ho hf⟩
        · exact ⟨_, .gwWait s j hw hc ho hf⟩
      · exact ⟨_, .gwToPop s j hw hc hf⟩
  | gwP =>
    by_cases hf : s.crit.base.fringe = []
    · exact ⟨_, .gwEmpty s j hw hf⟩
    · obtain ⟨N, rest, hpm⟩ := popMax_some _ hf
      have hpm := popMax_popMax hpm
      have hN := hD.fr N ((mem_of_popMax hpm N).mpr (Or.inl rfl))
      by_cases hub : N.ub ≤ s.crit.base.bestLb
      · exact ⟨_, .gwStarve s j N rest hw hpm hub⟩
      · obtain ⟨b, hb⟩ := mustExplore_def s.cache N.state N.depth N.value (by rw [hL.lg.cacheLen]; omega)
        cases b with
        | true => exact ⟨_, .gwKeep s j N rest hw hpm hub hb⟩
        | false =>
          obtain ⟨c', hc'⟩ := dropOne_defined hL hpm hN
          exact ⟨_, .gwDrop s j N rest c' hw hpm hub hb hc'⟩
  | gwW n =>
    have hN := hD.held _ hmem n (Or.inr rfl)
    obtain ⟨c', hc'⟩ := update_def s.cache n.state n.depth ⟨n.value, true⟩ (by rw [hL.lg.cacheLen]; omega)
    obtain ⟨crit', ht⟩ := take_defined hL hw hN
    exact ⟨_, .gwTake s j n c' crit' hw hc' ht⟩
  | _ => cases hin

/-- the mutex is free: every worker that is neither parked nor gone can perform its next section -/
theorem free_moves {nbVars : Nat} {dedup : Bool} {okR okX : SubP S → Int → Cache S → DDOut S → List (Up S) → Prop}
    {s : KSys S} (hL : LayInvK nbVars s) (hD : DepthOk nbVars s)
    (hR : ∀ n lb cv, ∃ o ups, okR n lb cv o ups) (hX : ∀ n lb cv, ∃ o ups, okX n lb cv o ups)
    (hl : LockFree s) {j : Nat} {w : KW S} (hw : s.ws[j]? = some w) (h1 : w ≠ .done) (h2 : w ≠ .waiting) :
    ∃ t, KStep nbVars dedup okR okX s t := by
  have hmem := List.mem_of_getElem? hw
  cases w with
  | idle => exact ⟨_, .gwEnter s j hw hl⟩
  | waiting => exact absurd rfl h2
  | done => exact absurd rfl h1
  | crashed => exact absurd rfl (hL.hand.noCrash _ hmem)
  | gwC => have := hl _ hmem; cases this
  | gwP => have := hl _ hmem; cases this
  | gwW n => have := hl _ hmem; cases this
  | readR n => exact ⟨_, .readLbR s j n hw hl⟩
  | compR n lb k0 =>
    obtain ⟨o, ups, hok⟩ := hR n lb s.cache
    exact ⟨_, .compileR s j n lb k0 s.cache o ups hw (fromLog_cur hL.lg.logHead (hL.lg.logK _ hmem)) hok⟩
  | wrR n lb o cv ups todo =>
    cases todo with
    | nil => exact ⟨_, .updateR s j n lb o cv ups hw hl⟩
    | cons u todo =>
      have hu := hD.todo _ hmem n lb o cv ups (u :: todo) (Or.inl rfl) u List.mem_cons_self
      obtain ⟨c', hc'⟩ := update_def s.cache u.1 u.2.1 (upThr u) (by rw [hL.lg.cacheLen]; omega)
      exact ⟨_, .writeR s j n lb o cv ups u todo c' hw hc'⟩
  | readX n => exact ⟨_, .readLbX s j n hw hl⟩
  | compX n lb k0 =>
    obtain ⟨o, ups, hok⟩ := hX n lb s.cache
    exact ⟨_, .compileX s j n lb k0 s.cache o ups hw (fromLog_cur hL.lg.logHead (hL.lg.logK _ hmem)) hok⟩
  | wrX n lb o cv ups todo =>
    cases todo with
    | nil => exact ⟨_, .updateX s j n lb o cv ups hw hl⟩
    | cons u todo =>
      have hu := hD.todo _ hmem n lb o cv ups (u :: todo) (Or.inr rfl) u List.mem_cons_self
      obtain ⟨c', hc'⟩ := update_def s.cache u.1 u.2.1 (upThr u) (by rw [hL.lg.cacheLen]; omega)
      exact ⟨_, .writeX s j n lb o cv ups u todo c' hw hc'⟩
  | enq n lb o cv ups => exact ⟨_, .enqueue s j n lb o cv ups hw hl⟩
  | fin n =>
    obtain ⟨c', hc'⟩ := notify_defined hL hw (hD.held _ hmem n (Or.inl rfl))
    exact ⟨_, .notify s j n c' hw hl hc'⟩

/-- **never deadlocks** (no lost wake-up, no panic): as long as some worker has not left its loop and the compilations
    answer, some step other than `crash` is enabled — the state reached satisfies the invariant again, in particular no
    worker is `crashed` there -/
theorem kstep_progress {nbVars : Nat} {dedup : Bool} {okR okX : SubP S → Int → Cache S → DDOut S → List (Up S) → Prop}
    {s : KSys S} (hL : LayInvK nbVars s) (hD : DepthOk nbVars s) (hlive : ¬ AllDone s)
    (hR : ∀ n lb cv, ∃ o ups, okR n lb cv o ups) (hX : ∀ n lb cv, ∃ o ups, okX n lb cv o ups) :
    ∃ t, KStep nbVars dedup okR okX s t ∧ LayInvK nbVars t ∧ (∀ w ∈ t.ws, w ≠ KW.crashed) := by
  have hstep : ∃ t, KStep nbVars dedup okR okX s t := by
    by_cases hlk : s.ws.countP KW.inGw = 0
    · have hl : LockFree s := (lockFree_iff _).mp hlk
      -- some worker is neither gone nor parked
      have hex : ∃ w ∈ s.ws, w ≠ KW.done ∧ w ≠ KW.waiting := by
        by_cases hwait : KW.waiting ∈ s.ws
        · have h0 := hL.hand.parked hwait
          rw [hL.hand.cnt] at h0
          have hpos : 0 < s.ws.countP KW.holds := by omega
          obtain ⟨w, hw, hh⟩ := List.countP_pos_iff.mp hpos
          refine ⟨w, hw, ?_, ?_⟩ <;> intro e <;> rw [e] at hh <;> cases hh
        · have : ∃ w ∈ s.ws, w ≠ KW.done := by
            apply Classical.byContradiction
            intro hno
            apply hlive
            intro w hw
            apply Classical.byContradiction
            intro hne
            exact hno ⟨w, hw, hne⟩
          obtain ⟨w, hw, hne⟩ := this
          exact ⟨w, hw, hne, fun e => hwait (e ▸ hw)⟩
      obtain ⟨w, hw, h1, h2⟩ := hex
      obtain ⟨j, hj⟩ := List.mem_iff_getElem?.mp hw
      exact free_moves hL hD hR hX hl hj h1 h2
    · have hpos : 0 < s.ws.countP KW.inGw := by omega
      obtain ⟨w, hw, hin⟩ := List.countP_pos_iff.mp hpos
      obtain ⟨j, hj⟩ := List.mem_iff_getElem?.mp hw
      exact gw_moves hL hD hj hin
  obtain ⟨t, ht⟩ := hstep
  have hLt := kstep_layInvK ht hL hD
  exact ⟨t, ht, hLt, hLt.hand.noCrash⟩

/-- along a run on which the depths stay in range -/
theorem krun_layInvK {nbVars : Nat} {dedup : Bool} {okR okX : SubP S → Int → Cache S → DDOut S → List (Up S) → Prop}
    {s t : KSys S} (h : KRun nbVars dedup okR okX s t) (hL : LayInvK nbVars s)
    (hD : ∀ u, KRun nbVars dedup okR okX s u → DepthOk nbVars u) : LayInvK nbVars t := by
  induction h with
  | refl => exact hL
  | tail hr hst ih => exact kstep_layInvK hst ih (hD _ hr)

end Ddo.ParCache

#print axioms Ddo.ParCache.init_layInvK
#print axioms Ddo.ParCache.kstep_layInvK
#print axioms Ddo.ParCache.no_panics
#print axioms Ddo.ParCache.layInvK_noPanic
#print axioms Ddo.ParCache.completes_nothing_open
#print axioms Ddo.ParCache.kstep_progress
#print axioms Ddo.ParCache.krun_layInvK
