import DdoModel.Proofs.CompatOrder
/-! C10d — **when is the potential monotone in the rule's order?**  (`PotMono`, the hypothesis `Shadow` shows to be missing from
`Ddo.C10c.CachingDominanceCompat`.)

`Potential.le` — "no decision gains potential": the potential is an upper bound of the value-to-go — is required by `WellFormed` on
exactly reached states only.  If it holds on **every** state (`PotLeAll`: the potential *is* the value-to-go of every state, reached
or not — what a user has in mind when writing `fast_upper_bound`, and what the tables `Ddo.C09.Layered.H`, `Ddo.C10.Kp.H` are), then a
rule that satisfies `SimAll` makes the potential monotone in its order: `potMono_of_leAll` (the proof of `Ddo.C10.sim_value` with the
reachability hypotheses dropped).  So the repaired joint statement covers every model whose rough upper bound dominates the
value-to-go of every state. -/
set_option linter.unusedSectionVars false
set_option linter.unusedVariables false
namespace Ddo.C10d
open Ddo Ddo.C01 Ddo.Closed Ddo.C09 Ddo.C10 Ddo.C10c
variable {S K : Type}

/-- `Potential.le` on **all** states: no decision of any state gains potential -/
def PotLeAll (P : Problem S) (H : Nat → S → EInt) : Prop :=
  ∀ k L x s d, P.nextVar k L = some x → s ∈ L → d ∈ P.domain x s →
    (H (k + 1) (P.trans s ⟨x, d⟩)).addI (P.cost s (P.trans s ⟨x, d⟩) ⟨x, d⟩) ≤ H k s

/-- an item at least as good has at least the potential — all states -/
theorem sim_value_all {D : DomRule S K} {P : Problem S} {H : Nat → S → EInt} {n : Nat}
    (hP : Potential P H) (hle : PotLeAll P H) (hNV : NvBound P) (hstat : StaticOrder P) (hsim : SimAll D P n) :
    ∀ (m k : Nat) (a : S) (va : Int) (b : S) (vb : Int), P.nbVars ≤ k + m → GeItem D n a va b vb → ∀ h, H k b = some h →
      ∃ h', H k a = some h' ∧ vb + h ≤ va + h' := by
  intro m
  induction m with
  | zero =>
    intro k a va b vb hk hg h hH
    have hnv : nvar P k = none := hNV k _ (by omega)
    have hHb := hP.term k [b] b (by rw [nv_one hstat]; exact hnv) List.mem_cons_self
    have hHa := hP.term k [a] a (by rw [nv_one hstat]; exact hnv) List.mem_cons_self
    have h1 := hsim.value a va b vb hg
    rw [hHb] at hH
    cases hH
    exact ⟨0, hHa, by omega⟩
  | succ m ih =>
    intro k a va b vb hk hg h hH
    cases hnv : nvar P k with
    | none =>
      have hHb := hP.term k [b] b (by rw [nv_one hstat]; exact hnv) List.mem_cons_self
      have hHa := hP.term k [a] a (by rw [nv_one hstat]; exact hnv) List.mem_cons_self
      have h1 := hsim.value a va b vb hg
      rw [hHb] at hH
      cases hH
      exact ⟨0, hHa, by omega⟩
    | some x =>
      have hnvb : P.nextVar k [b] = some x := by rw [nv_one hstat]; exact hnv
      have hnva : P.nextVar k [a] = some x := by rw [nv_one hstat]; exact hnv
      obtain ⟨db, hdb, hb', hHb', hle'⟩ := hP.att k [b] x b h hnvb List.mem_cons_self hH
      obtain ⟨da, hda, hgc⟩ := hsim.step k a va b vb [b] x hg hnvb List.mem_cons_self db hdb
      obtain ⟨ha', hHa', hle''⟩ := ih (k + 1) _ _ _ _ (by omega) hgc hb' hHb'
      have hla := hle k [a] x a da hnva List.mem_cons_self hda
      rw [hHa'] at hla
      cases hHa : H k a with
      | none => rw [hHa] at hla; exact absurd hla (by simp [EInt.addI])
      | some h0 =>
        rw [hHa] at hla
        simp only [EInt.addI, Option.map_some, EInt.some_le_some] at hla
        exact ⟨h0, rfl, by omega⟩

/-- **a potential that is the value-to-go of every state is monotone in the order of a `SimAll` rule** -/
theorem potMono_of_leAll {D : DomRule S K} {P : Problem S} {H : Nat → S → EInt} {n : Nat}
    (hP : Potential P H) (hle : PotLeAll P H) (hNV : NvBound P) (hstat : StaticOrder P) (hsim : SimAll D P n) : PotMono D n H := by
  intro k a va b vb hg
  cases hH : H k b with
  | none => exact EInt.none_le _
  | some h =>
    obtain ⟨h', hHa, hle'⟩ := sim_value_all hP hle hNV hstat hsim P.nbVars k a va b vb (by omega) hg h hH
    rw [hHa]
    simp only [EInt.addI, Option.map_some, EInt.some_le_some]
    omega

/-! ## what `SimAll` and `MergeCompat` force on the shape of the rule -/

/-- **`SimAll` forces `use_value`**: a rule that gives a key to some state and ignores the value relates `(s, 0)` and `(s, 1)` both ways,
    against `SimAll.value` -/
theorem simAll_useValue {D : DomRule S K} {P : Problem S} {n : Nat} (hsim : SimAll D P n) {s : S} {k : K} (hk : D.key s = some k) :
    D.useValue = true := by
  cases hu : D.useValue with
  | true => rfl
  | false =>
    have hge : GeItem D n s 0 s 1 := by
      refine Or.inr ⟨⟨k, hk, hk⟩, ?_⟩
      simp only [geEnt, hu, Bool.not_false, Bool.true_or, Bool.and_true]
      exact leB_refl _
    have := hsim.value s 0 s 1 hge
    omega

/-- **`MergeCompat` forces one key on everything that is merged**: a state replaced by a different merged state has the key of the
    merged state -/
theorem mergeCompat_key {D : DomRule S K} {R : Relax S} {n : Nat} (hmc : MergeCompat D R n) {X : List S} {u : S} (hu : u ∈ X)
    (hne : R.merge X ≠ u) : ∃ k, D.key (R.merge X) = some k ∧ D.key u = some k := by
  rcases hmc.merge X u 0 hu with ⟨e, _⟩ | ⟨hk, _⟩
  · exact absurd e hne
  · exact hk

end Ddo.C10d

#print axioms Ddo.C10d.potMono_of_leAll
#print axioms Ddo.C10d.simAll_useValue
#print axioms Ddo.C10d.mergeCompat_key
