import DdoModel.Wf
/-! Exactness invariant of the top-down compilation (`buildLoop` of `DdoModel/Mdd.lean`): every node
    flagged exact is genuinely reachable (`Reach`) by the decisions along its `best` chain; in a
    restricted / exact compilation every node is exact.  Property theorems: `DdoModel/Props/C07.lean`.

Structure of the proof (bottom-up):

* `BestChain layers l b q` — the `best` chain starting with the field `b` of a node of layer `l` reaches
  a node without `best` arc at layer `0` and meets the decisions `q` (root first);
  `BestChain.bestPath_eq`: then `(bestPath layers fuel n).reverse = q` for every `fuel ≥ l`.
* `NodeOk cfg B p0 layers l n` — the per-node invariant: if `n.isExact` then, for some `q`,
  `BestChain … q`, `Reach cfg.P n.depth n.state n.value (p0 ++ q)`, `n.depth = cfg.root.depth + l` and
  `|n.value| ≤ (l + 1) · B` (`Bnd`, what makes `NoClamp` applicable to `satAdd`).  `p0` is any decision
  list by which the root sub-problem is reached exactly (`Reach` lists decisions in order, whereas the
  `path` of a sub-problem handed out by `finalize` is `root.path ++ bestPath …`, last arc first: taking
  `p0` arbitrary keeps the result usable for sub-problems; `p0 := cfg.root.path` is the special case).
* `SubS` / `SubE` — "every (exact) node of the new layer is an (exact) node of the old layer up to fields
  other than `state`, `value`, `best`, `depth`": `filterCache`, `filterDom`, `restrictLayer` (`SubS`),
  `relaxLayer` (`SubE`; `RInv`: the node at `mpos` stays flagged relaxed, so redirected arcs only ever
  enter a non-exact node), `squash`.
* `expandAll` (`EInv`): the expanded layer changes in its `rub` fields only (`RubEq`), every exact child
  satisfies `ChildOk` (`childOk_appendEdge`: the `Reach.step`), children of an all-exact layer are exact.
* `MInv` — the loop invariant; `stepLayer_inv`, `buildLoop_inv`, `initDD_inv`; `ExactReach` is the
  user-facing consequence (`MInv.exactReach`, `buildLoop_exact_reach`).
* finalisation: `bestValue` is the value of a node of `dd.next` (`maxValue_mem`); the bottom-up passes
  leave `value` / `best` untouched position-wise (`KeyEq`, `computeCutset_keyEq`,
  `computeThresholds_keyEq`), hence the reported `bestSol` is the `best` chain of that node
  (`finalize_bestSol_eq`). -/
set_option linter.unusedSectionVars false
namespace Ddo
variable {S : Type}

/-! ## generic helpers -/

theorem foldl_inv {α β : Type} (Pr : β → Prop) (f : β → α → β) (l : List α) (b : β)
    (h0 : Pr b) (hstep : ∀ b a, a ∈ l → Pr b → Pr (f b a)) : Pr (l.foldl f b) := by
  induction l generalizing b with
  | nil => exact h0
  | cons x r ih =>
    simp only [List.foldl_cons]
    exact ih _ (hstep b x (List.mem_cons_self) h0) (fun b a ha hb => hstep b a (List.mem_cons_of_mem _ ha) hb)

/-! ## the best chain -/

/-- `BestChain layers l b q`: starting from a node of layer `l` whose `best` field is `b` and following
    the `best` arcs up to a node without `best` arc (the root, layer `0`), the decisions met are `q`
    (listed from the root down). -/
inductive BestChain (layers : List (List (Node S))) : Nat → Option Arc → List Dec → Prop
  | root : BestChain layers 0 none []
  | step (l : Nat) (a : Arc) (p : Node S) (q : List Dec) :
      a.fromL = l → getNode layers l a.fromP = some p → BestChain layers l p.best q →
      BestChain layers (l + 1) (some a) (q ++ [a.dec])

theorem getNode_append_left (layers more : List (List (Node S))) (l p : Nat) (n : Node S)
    (h : getNode layers l p = some n) : getNode (layers ++ more) l p = some n := by
  unfold getNode at h ⊢
  cases hl : layers[l]? with
  | none => rw [hl] at h; cases h
  | some ly =>
    have hlt : l < layers.length := by
      rcases Nat.lt_or_ge l layers.length with h' | h'
      · exact h'
      · rw [List.getElem?_eq_none h'] at hl; cases hl
    rw [List.getElem?_append_left hlt, hl]
    rw [hl] at h; exact h

theorem BestChain.mono {layers : List (List (Node S))} (more : List (List (Node S))) {l : Nat} {b : Option Arc}
    {q : List Dec} (h : BestChain layers l b q) : BestChain (layers ++ more) l b q := by
  induction h with
  | root => exact .root
  | step l a p q hl hg _ ih => exact .step l a p q hl (getNode_append_left _ _ _ _ _ hg) ih

theorem BestChain.bestPath_eq {layers : List (List (Node S))} {l : Nat} {b : Option Arc} {q : List Dec}
    (h : BestChain layers l b q) : ∀ (n : Node S), n.best = b → ∀ fuel, l ≤ fuel →
      (bestPath layers fuel n).reverse = q := by
  induction h with
  | root =>
    intro n hn fuel _
    cases fuel with
    | zero => rfl
    | succ f => simp only [bestPath, hn, List.reverse_nil]
  | step l a p q hl hg _ ih =>
    intro n hn fuel hf
    cases fuel with
    | zero => omega
    | succ f =>
      simp only [bestPath, hn, hl, hg, List.reverse_cons]
      rw [ih p rfl f (by omega)]

/-! ## node cores -/

/-- the fields the exactness invariant talks about -/
def CoreEq (a b : Node S) : Prop := a.state = b.state ∧ a.value = b.value ∧ a.best = b.best ∧ a.depth = b.depth

theorem CoreEq.rfl' (a : Node S) : CoreEq a a := ⟨rfl, rfl, rfl, rfl⟩
theorem CoreEq.trans {a b c : Node S} (h1 : CoreEq a b) (h2 : CoreEq b c) : CoreEq a c :=
  ⟨h1.1.trans h2.1, h1.2.1.trans h2.2.1, h1.2.2.1.trans h2.2.2.1, h1.2.2.2.trans h2.2.2.2⟩

/-- every node of `ly` is a node of `ly0` up to fields irrelevant to exactness -/
def SubS (ly ly0 : List (Node S)) : Prop := ∀ n ∈ ly, ∃ n0 ∈ ly0, n0.isExact = n.isExact ∧ CoreEq n0 n
/-- every *exact* node of `ly` is an exact node of `ly0` up to fields irrelevant to exactness -/
def SubE (ly ly0 : List (Node S)) : Prop := ∀ n ∈ ly, n.isExact = true → ∃ n0 ∈ ly0, n0.isExact = true ∧ CoreEq n0 n

theorem SubS.refl (ly : List (Node S)) : SubS ly ly := fun n hn => ⟨n, hn, rfl, CoreEq.rfl' n⟩
theorem SubE.refl (ly : List (Node S)) : SubE ly ly := fun n hn he => ⟨n, hn, he, CoreEq.rfl' n⟩
theorem SubS.toSub {ly ly0 : List (Node S)} (h : SubS ly ly0) : SubE ly ly0 := fun n hn he => by
  obtain ⟨n0, h0, he0, hc⟩ := h n hn
  exact ⟨n0, h0, he0.trans he, hc⟩
theorem SubS.trans {a b c : List (Node S)} (h1 : SubS a b) (h2 : SubS b c) : SubS a c := fun n hn => by
  obtain ⟨n1, hn1, he1, hc1⟩ := h1 n hn
  obtain ⟨n2, hn2, he2, hc2⟩ := h2 n1 hn1
  exact ⟨n2, hn2, he2.trans he1, hc2.trans hc1⟩
theorem SubE.trans {a b c : List (Node S)} (h1 : SubE a b) (h2 : SubE b c) : SubE a c := fun n hn he => by
  obtain ⟨n1, hn1, he1, hc1⟩ := h1 n hn he
  obtain ⟨n2, hn2, he2, hc2⟩ := h2 n1 hn1 he1
  exact ⟨n2, hn2, he2, hc2.trans hc1⟩

theorem SubS.set {ly ly0 : List (Node S)} (h : SubS ly ly0) {p : Nat} {n n' : Node S} (hp : ly[p]? = some n)
    (he : n'.isExact = n.isExact) (hc : CoreEq n n') : SubS (ly.set p n') ly0 := fun m hm => by
  rcases List.mem_or_eq_of_mem_set hm with hm | rfl
  · exact h m hm
  · obtain ⟨n0, h0, he0, hc0⟩ := h n (List.mem_of_getElem? hp)
    exact ⟨n0, h0, he0.trans he.symm, hc0.trans hc⟩

theorem SubE.set {ly ly0 : List (Node S)} (h : SubE ly ly0) {p : Nat} {n n' : Node S} (hp : ly[p]? = some n)
    (he : n'.isExact = true → n.isExact = true) (hc : CoreEq n n') : SubE (ly.set p n') ly0 := fun m hm hme => by
  rcases List.mem_or_eq_of_mem_set hm with hm | rfl
  · exact h m hm hme
  · obtain ⟨n0, h0, he0, hc0⟩ := h n (List.mem_of_getElem? hp) (he hme)
    exact ⟨n0, h0, he0, hc0.trans hc⟩

variable {K : Type} [DecidableEq S] [DecidableEq K]

/-! ## the filters only touch `theta` / `cache` / `deleted` -/

theorem filterCache_subS (cfg : Cfg S K) (cache : Cache S) (layer : List (Node S)) (cur : List Nat) :
    SubS (filterCache cfg cache layer cur).1 layer := by
  unfold filterCache
  refine foldl_inv (β := List (Node S) × List Nat) (fun acc => SubS acc.1 layer) _ _ _ ?_ ?_
  · exact SubS.refl _
  · rintro ⟨ly, keep⟩ p _ h
    dsimp only at h ⊢
    split
    · exact h
    · rename_i n hn
      split
      · split
        · exact h
        · exact h.set hn rfl ⟨rfl, rfl, rfl, rfl⟩
      · exact h

theorem filterDom_subS (cfg : Cfg S K) (store : DomStore S K) (layer : List (Node S)) (cur : List Nat) :
    SubS (filterDom cfg store layer cur).1 layer := by
  unfold filterDom
  split
  · exact SubS.refl _
  · rename_i D _
    refine foldl_inv (β := List (Node S) × List Nat × DomStore S K × Bool) (fun acc => SubS acc.1 layer) _ _ _ ?_ ?_
    · exact SubS.refl _
    · rintro ⟨ly, keep, st, ok⟩ p _ h
      dsimp only at h ⊢
      split
      · exact h
      · rename_i n hn
        split
        · split
          · exact h
          · split
            · exact h.set hn rfl ⟨rfl, rfl, rfl, rfl⟩
            · exact h
        · exact h

theorem restrictLayer_subS (cfg : Cfg S K) (layer : List (Node S)) (cur : List Nat) :
    SubS (restrictLayer cfg layer cur).1 layer := by
  unfold restrictLayer
  dsimp only
  refine foldl_inv (β := List (Node S)) (fun acc => SubS acc layer) _ _ _ ?_ ?_
  · exact SubS.refl _
  · intro ly p _ h
    split
    · rename_i n hn
      exact h.set hn rfl ⟨rfl, rfl, rfl, rfl⟩
    · exact h

/-! ## `relaxLayer`: merged nodes are flagged relaxed; the other nodes keep their core -/

theorem SubE.set_nonexact {ly ly0 : List (Node S)} (h : SubE ly ly0) (p : Nat) {n' : Node S}
    (he : n'.isExact = false) : SubE (ly.set p n') ly0 := fun m hm hme => by
  rcases List.mem_or_eq_of_mem_set hm with hm | rfl
  · exact h m hm hme
  · rw [he] at hme; cases hme

theorem isExact_of_fRelaxed {n : Node S} (h : n.fRelaxed = true) : n.isExact = false := by
  unfold Node.isExact; rw [h]; simp

theorem appendEdge_fRelaxed (p c : Node S) (a : Arc) : (appendEdge p c a).fRelaxed = c.fRelaxed := by
  unfold appendEdge; dsimp only; split <;> rfl

/-- invariant of the redirection loop of `relaxLayer`: the node at `mpos` is flagged relaxed -/
def RInv (layer : List (Node S)) (mpos : Nat) (ly : List (Node S)) : Prop :=
  SubE ly layer ∧ ∀ m, ly[mpos]? = some m → m.fRelaxed = true

theorem RInv.set {layer ly : List (Node S)} {mpos : Nat} (h : RInv layer mpos ly) {p : Nat} {n n' : Node S}
    (hp : ly[p]? = some n) (he : n'.isExact = true → n.isExact = true) (hc : CoreEq n n')
    (hr : n'.fRelaxed = n.fRelaxed) : RInv layer mpos (ly.set p n') := by
  refine ⟨h.1.set hp he hc, fun m hm => ?_⟩
  rw [List.getElem?_set] at hm
  split at hm
  · rename_i hpm
    split at hm
    · cases hm; rw [hr]; exact h.2 n (hpm ▸ hp)
    · cases hm
  · exact h.2 m hm

theorem RInv.set_mpos {layer ly : List (Node S)} {mpos : Nat} (h : RInv layer mpos ly) {n' : Node S}
    (hr : n'.fRelaxed = true) : RInv layer mpos (ly.set mpos n') := by
  refine ⟨h.1.set_nonexact mpos (isExact_of_fRelaxed hr), fun m hm => ?_⟩
  rw [List.getElem?_set] at hm
  simp only [if_true] at hm
  split at hm
  · cases hm; exact hr
  · cases hm

/-- the redirection loop of `relaxLayer` preserves `RInv` (goal: `RInv layer mpos (foldl … (ly2, lg) rest).1`) -/
local macro "relax_fold" h2:term : tactic => `(tactic| (
    refine foldl_inv (β := List (Node S) × List (Call S)) (fun acc => RInv _ _ acc.1) _ _ _ $h2 ?_
    rintro ⟨ly, lg⟩ p _ h
    dsimp only at h ⊢
    split
    · exact h
    · rename_i dropN hd
      refine foldl_inv (β := List (Node S) × List (Call S)) (fun acc => RInv _ _ acc.1) _ _ _
        (h.set hd (fun he => he) ⟨rfl, rfl, rfl, rfl⟩ rfl) ?_
      rintro ⟨ly2, lg2⟩ e _ h2
      dsimp only at h2 ⊢
      split
      · rename_i src m _ hm
        exact h2.set_mpos (by rw [appendEdge_fRelaxed]; exact h2.2 m hm)
      · exact h2))

theorem relaxLayer_sub (cfg : Cfg S K) (layers : List (List (Node S))) (layer : List (Node S)) (cur : List Nat) (log : List (Call S)) :
    SubE (relaxLayer cfg layers layer cur log).1 layer := by
  unfold relaxLayer
  extract_lets sorted keep rest restStates merged log' recycled depth0 cur'
  clear_value recycled depth0 merged log' cur' keep rest
  have hA : ∀ (layer1 : List (Node S)) (mpos : Nat), SubE layer1 layer →
      RInv layer mpos (match layer1[mpos]? with
        | some n => layer1.set mpos { n with fRelaxed := true }
        | none => layer1) := by
    intro layer1 mpos h1
    split
    · exact ⟨h1.set_nonexact mpos (isExact_of_fRelaxed rfl), fun m hm => by
        rw [List.getElem?_set] at hm
        simp only [if_true] at hm
        split at hm
        · cases hm; rfl
        · cases hm⟩
    · rename_i hnone
      exact ⟨h1, fun m hm => by rw [hnone] at hm; cases hm⟩
  cases recycled with
  | some p =>
    dsimp only
    generalize hr : List.foldl _ _ rest = r
    have h3 : RInv layer p r.1 := by
      rw [← hr]
      relax_fold (hA layer p (SubE.refl _))
    split
    · split
      · rename_i n hn
        exact h3.1.set hn (fun he => he) ⟨rfl, rfl, rfl, rfl⟩
      · exact h3.1
    · exact h3.1
  | none =>
    dsimp only
    refine (?_ : RInv layer layer.length _).1
    relax_fold (hA _ layer.length (by
      intro n hn he
      rcases List.mem_append.1 hn with hn | hn
      · exact SubE.refl _ n hn he
      · rw [List.mem_singleton] at hn; subst hn; cases he))

/-! ## `appendEdge`, `branchOn` -/

theorem appendEdge_state (p c : Node S) (a : Arc) : (appendEdge p c a).state = c.state := by
  unfold appendEdge; dsimp only; split <;> rfl
theorem appendEdge_depth (p c : Node S) (a : Arc) : (appendEdge p c a).depth = c.depth := by
  unfold appendEdge; dsimp only; split <;> rfl
theorem appendEdge_isExact (p c : Node S) (a : Arc) : (appendEdge p c a).isExact = (p.isExact && c.isExact) := by
  unfold appendEdge; dsimp only
  split <;> (simp only [Node.isExact]; cases p.fExact <;> cases p.fRelaxed <;> cases c.fExact <;> cases c.fRelaxed <;> rfl)
theorem appendEdge_best_value (p c : Node S) (a : Arc) :
    (c.value ≤ satAdd p.value a.cost ∧ (appendEdge p c a).best = some a ∧ (appendEdge p c a).value = satAdd p.value a.cost) ∨
    (¬ c.value ≤ satAdd p.value a.cost ∧ (appendEdge p c a).best = c.best ∧ (appendEdge p c a).value = c.value) := by
  unfold appendEdge; dsimp only
  split
  · rename_i h; exact .inl ⟨h, rfl, rfl⟩
  · rename_i h; exact .inr ⟨h, rfl, rfl⟩

/-- the node `branchOn` creates when the target state is new -/
def freshNode (cfg : Cfg S K) (parent : Node S) (d : Dec) : Node S :=
  { state := cfg.P.trans parent.state d,
    value := satAdd parent.value (cfg.P.cost parent.state (cfg.P.trans parent.state d) d),
    fExact := parent.isExact, depth := parent.depth + 1 }

theorem branchOn_mem (cfg : Cfg S K) (parent : Node S) (pl pp : Nat) (d : Dec) (next : List (Node S)) :
    ∀ c ∈ branchOn cfg parent pl pp d next, c ∈ next ∨
      ∃ m, (m ∈ next ∨ m = freshNode cfg parent d) ∧ m.state = cfg.P.trans parent.state d ∧
        c = appendEdge parent m ⟨pl, pp, d, cfg.P.cost parent.state (cfg.P.trans parent.state d) d⟩ := by
  unfold branchOn
  dsimp only
  induction next with
  | nil =>
    intro c hc
    simp only [branchOn.go, List.mem_singleton] at hc
    exact .inr ⟨freshNode cfg parent d, .inr rfl, rfl, hc⟩
  | cons n r ih =>
    intro c hc
    simp only [branchOn.go] at hc
    split at hc
    · rename_i hs
      rcases List.mem_cons.1 hc with hc | hc
      · exact .inr ⟨n, .inl List.mem_cons_self, hs, hc⟩
      · exact .inl (List.mem_cons_of_mem _ hc)
    · rcases List.mem_cons.1 hc with hc | hc
      · exact .inl (hc ▸ List.mem_cons_self)
      · rcases ih c hc with h | ⟨m, hm, hs, he⟩
        · exact .inl (List.mem_cons_of_mem _ h)
        · refine .inr ⟨m, ?_, hs, he⟩
          rcases hm with hm | hm
          · exact .inl (List.mem_cons_of_mem _ hm)
          · exact .inr hm

/-! ## value bounds -/

/-- `|v| ≤ (l + 1) · B`: bound on the value of an exact node of layer `l` -/
def Bnd (B : Int) (l : Nat) (v : Int) : Prop := -(((l : Int) + 1) * B) ≤ v ∧ v ≤ ((l : Int) + 1) * B

theorem Bnd.step {B : Int} {l : Nat} {v c : Int} (h : Bnd B l v) (hc : -B ≤ c ∧ c ≤ B) : Bnd B (l + 1) (v + c) := by
  unfold Bnd at *
  have e : (((l + 1 : Nat) : Int) + 1) * B = ((l : Int) + 1) * B + B := by
    rw [show (((l + 1 : Nat) : Int) + 1) = ((l : Int) + 1) + 1 by omega, Int.add_mul, Int.one_mul]
  rw [e]; omega

theorem Bnd.inI {B : Int} {nb l : Nat} {v : Int} (h0 : 0 ≤ B) (hs : ((nb : Int) + 2) * B ≤ 4611686018427387904)
    (hl : l ≤ nb + 2) (h : Bnd B l v) : InI v := by
  unfold Bnd at h
  have h1 : ((l : Int) + 1) * B ≤ ((nb : Int) + 3) * B := Int.mul_le_mul_of_nonneg_right (by omega) h0
  have h2 : ((nb : Int) + 3) * B = ((nb : Int) + 2) * B + B := by
    rw [show ((nb : Int) + 3) = ((nb : Int) + 2) + 1 by omega, Int.add_mul, Int.one_mul]
  have h3 : (2 : Int) * B ≤ ((nb : Int) + 2) * B := Int.mul_le_mul_of_nonneg_right (by omega) h0
  unfold InI iMin iMax
  omega


/-! ## the per-node invariant -/

/-- an exact node `n` of layer `l` is reached exactly by the decisions of its `best` chain -/
def NodeOk (cfg : Cfg S K) (B : Int) (p0 : List Dec) (layers : List (List (Node S))) (l : Nat) (n : Node S) : Prop :=
  n.isExact = true → ∃ q, BestChain layers l n.best q ∧
    Reach cfg.P n.depth n.state n.value (p0 ++ q) ∧
    n.depth = cfg.root.depth + l ∧ Bnd B l n.value

/-- a node of the layer being expanded (layer `layers.length`); `L` = states handed to `nextVar` -/
def ParOk (cfg : Cfg S K) (B : Int) (p0 : List Dec) (layers : List (List (Node S))) (L : List S) (n : Node S) : Prop :=
  NodeOk cfg B p0 layers layers.length n ∧ (n.isExact = true → n.state ∈ L)

theorem NodeOk.of_coreEq {cfg : Cfg S K} {B : Int} {p0 : List Dec} {layers : List (List (Node S))} {l : Nat} {n0 n : Node S}
    (h : NodeOk cfg B p0 layers l n0) (he : n.isExact = true → n0.isExact = true) (hc : CoreEq n0 n) : NodeOk cfg B p0 layers l n := by
  intro hn
  obtain ⟨q, h1, h2, h3, h4⟩ := h (he hn)
  obtain ⟨hs, hv, hb, hd⟩ := hc
  exact ⟨q, hb ▸ h1, hs ▸ hv ▸ hd ▸ h2, hd ▸ h3, hv ▸ h4⟩

theorem NodeOk.mono {cfg : Cfg S K} {B : Int} {p0 : List Dec} {layers : List (List (Node S))} {l : Nat} {n : Node S}
    (h : NodeOk cfg B p0 layers l n) (more : List (List (Node S))) : NodeOk cfg B p0 (layers ++ more) l n := by
  intro hn
  obtain ⟨q, h1, h2⟩ := h hn
  exact ⟨q, h1.mono more, h2⟩

theorem ParOk.of_sub {cfg : Cfg S K} {B : Int} {p0 : List Dec} {layers : List (List (Node S))} {L : List S} {ly ly0 : List (Node S)}
    (hs : SubE ly ly0) (h : ∀ n ∈ ly0, ParOk cfg B p0 layers L n) : ∀ n ∈ ly, ParOk cfg B p0 layers L n := by
  intro n hn
  refine ⟨fun he => ?_, fun he => ?_⟩
  · obtain ⟨n0, h0, he0, hc⟩ := hs n hn he
    exact (h n0 h0).1.of_coreEq (fun _ => he0) hc he
  · obtain ⟨n0, h0, he0, hc⟩ := hs n hn he
    exact hc.1 ▸ (h n0 h0).2 he0

/-! ## rub-only changes -/

def stripRub (n : Node S) : Node S := { n with rub := 0 }

/-- position-wise equality up to the `rub` field -/
def RubEq (ly ly0 : List (Node S)) : Prop := ∀ p : Nat, (ly[p]?).map stripRub = (ly0[p]?).map stripRub

theorem RubEq.refl (ly : List (Node S)) : RubEq ly ly := fun _ => rfl

theorem RubEq.set {ly ly0 : List (Node S)} (h : RubEq ly ly0) {p : Nat} {n n' : Node S} (hp : ly[p]? = some n)
    (hs : stripRub n' = stripRub n) : RubEq (ly.set p n') ly0 := by
  intro j
  rw [List.getElem?_set]
  split
  · rename_i hpj
    subst hpj
    have hlt : p < ly.length := by
      rcases Nat.lt_or_ge p ly.length with h' | h'
      · exact h'
      · rw [List.getElem?_eq_none h'] at hp; cases hp
    rw [if_pos hlt, ← h p, hp]
    simp only [Option.map_some, hs]
  · exact h j

theorem RubEq.get {ly ly0 : List (Node S)} (h : RubEq ly ly0) {p : Nat} {n : Node S} (hp : ly[p]? = some n) :
    ∃ n0, ly0[p]? = some n0 ∧ stripRub n0 = stripRub n := by
  have := h p
  rw [hp] at this
  cases h0 : ly0[p]? with
  | none => rw [h0] at this; cases this
  | some n0 =>
    rw [h0] at this
    simp only [Option.map_some, Option.some.injEq] at this
    exact ⟨n0, rfl, this.symm⟩

theorem RubEq.get' {ly ly0 : List (Node S)} (h : RubEq ly ly0) {p : Nat} {n0 : Node S} (hp : ly0[p]? = some n0) :
    ∃ n, ly[p]? = some n ∧ stripRub n0 = stripRub n :=
  RubEq.get (fun j => (h j).symm) hp |>.imp fun _ h => ⟨h.1, h.2.symm⟩

theorem stripRub_core {a b : Node S} (h : stripRub a = stripRub b) : a.isExact = b.isExact ∧ CoreEq a b := by
  have h1 := congrArg Node.state h
  have h2 := congrArg Node.value h
  have h3 := congrArg Node.best h
  have h4 := congrArg Node.depth h
  have h5 := congrArg Node.fExact h
  have h6 := congrArg Node.fRelaxed h
  simp only [stripRub] at h1 h2 h3 h4 h5 h6
  exact ⟨by simp only [Node.isExact, h5, h6], h1, h2, h3, h4⟩

theorem RubEq.subS {ly ly0 : List (Node S)} (h : RubEq ly ly0) : SubS ly ly0 := by
  intro n hn
  obtain ⟨p, hp⟩ := List.mem_iff_getElem?.1 hn
  obtain ⟨n0, h0, hs⟩ := h.get hp
  exact ⟨n0, List.mem_of_getElem? h0, (stripRub_core hs).1, (stripRub_core hs).2⟩


/-! ## expansion of a layer -/

/-- a node of the layer under construction (`next`), children of the layer `ly0` (index `layers.length`) -/
def ChildOk (cfg : Cfg S K) (B : Int) (p0 : List Dec) (layers : List (List (Node S))) (ly0 : List (Node S)) (c : Node S) : Prop :=
  c.isExact = true → ∃ (a : Arc) (pn : Node S) (q : List Dec),
    c.best = some a ∧ a.fromL = layers.length ∧ ly0[a.fromP]? = some pn ∧
    BestChain layers layers.length pn.best q ∧
    Reach cfg.P c.depth c.state c.value (p0 ++ (q ++ [a.dec])) ∧
    c.depth = cfg.root.depth + (layers.length + 1) ∧ Bnd B (layers.length + 1) c.value

theorem satAdd_of_bnd {P : Problem S} {R : Relax S} {rv B : Int} (hB : NoClamp P R rv B) {l : Nat} {v : Int}
    (hl : l ≤ P.nbVars + 2) (h : Bnd B l v) : InI v := Bnd.inI hB.nonneg hB.small hl h

/-- the child obtained by `appendEdge` from an (exact) parent satisfies `ChildOk` -/
theorem childOk_appendEdge (cfg : Cfg S K) (B : Int) (p0 : List Dec) (hB : NoClamp cfg.P cfg.R cfg.root.value B)
    (layers : List (List (Node S))) (hlen : layers.length ≤ cfg.P.nbVars + 1)
    (ly0 : List (Node S)) (L : List S) (var : Nat)
    (hnv : cfg.P.nextVar (cfg.root.depth + layers.length) L = some var)
    (p : Nat) (n0 par : Node S) (h0 : ly0[p]? = some n0) (hpar0 : ParOk cfg B p0 layers L n0)
    (hs : stripRub n0 = stripRub par) (d : Int) (hd : d ∈ cfg.P.domain var par.state)
    (m : Node S) (hm : ChildOk cfg B p0 layers ly0 m ∨ m = freshNode cfg par ⟨var, d⟩)
    (hms : m.state = cfg.P.trans par.state ⟨var, d⟩) :
    ChildOk cfg B p0 layers ly0 (appendEdge par m
      ⟨layers.length, p, ⟨var, d⟩, cfg.P.cost par.state (cfg.P.trans par.state ⟨var, d⟩) ⟨var, d⟩⟩) := by
  intro hex
  rw [appendEdge_isExact, Bool.and_eq_true] at hex
  obtain ⟨hpe, hme⟩ := hex
  obtain ⟨hie, hst, hv, hb, hdp⟩ := stripRub_core hs
  obtain ⟨q, hq, hreach, hdepth, hbnd⟩ := hpar0.1 (hie.trans hpe)
  have hinL := hpar0.2 (hie.trans hpe)
  rw [appendEdge_state, appendEdge_depth]
  -- the new arc
  have hcost := hB.cost par.state (cfg.P.trans par.state ⟨var, d⟩) ⟨var, d⟩
  have hbnd' : Bnd B (layers.length + 1) (par.value + cfg.P.cost par.state (cfg.P.trans par.state ⟨var, d⟩) ⟨var, d⟩) :=
    (hv ▸ hbnd).step hcost
  have hsat : satAdd par.value (cfg.P.cost par.state (cfg.P.trans par.state ⟨var, d⟩) ⟨var, d⟩) =
      par.value + cfg.P.cost par.state (cfg.P.trans par.state ⟨var, d⟩) ⟨var, d⟩ :=
    clamp_of_in (satAdd_of_bnd hB (by omega) hbnd')
  have hstep := Reach.step _ _ _ _ L var d hreach (hdepth ▸ hnv) hinL (hst ▸ hd)
  rw [hst, hv, hdepth] at hstep
  have hmdepth : m.depth = cfg.root.depth + (layers.length + 1) := by
    rcases hm with hm | hm
    · obtain ⟨_, _, _, _, _, _, _, _, h, _⟩ := hm hme; exact h
    · rw [hm]; simp only [freshNode]; omega
  rcases appendEdge_best_value par m
    ⟨layers.length, p, ⟨var, d⟩, cfg.P.cost par.state (cfg.P.trans par.state ⟨var, d⟩) ⟨var, d⟩⟩ with ⟨_, hbest, hval⟩ | ⟨hlt, hbest, hval⟩
  · refine ⟨_, n0, q, hbest, rfl, h0, hq, ?_, hmdepth, ?_⟩
    · rw [hval, hmdepth, hms]
      dsimp only
      rw [hsat, ← List.append_assoc]
      exact hstep
    · rw [hval]; dsimp only; rw [hsat]; exact hbnd'
  · rw [hbest, hval]
    rcases hm with hm | hm
    · exact hm hme
    · exfalso
      apply hlt
      rw [hm]
      simp only [freshNode]
      exact Int.le_refl _


theorem freshNode_isExact (cfg : Cfg S K) (par : Node S) (d : Dec) : (freshNode cfg par d).isExact = par.isExact := by
  simp only [freshNode, Node.isExact, Bool.not_false, Bool.and_true]

/-- invariant of `expandAll`: the layer changes in the `rub` fields only, the children are fine -/
structure EInv (cfg : Cfg S K) (B : Int) (p0 : List Dec) (layers : List (List (Node S))) (ly0 : List (Node S))
    (acc : List (Node S) × List (Node S) × List (Call S)) : Prop where
  rub : RubEq acc.1 ly0
  child : ∀ c ∈ acc.2.1, ChildOk cfg B p0 layers ly0 c
  allEx : (∀ n ∈ ly0, n.isExact = true) → ∀ c ∈ acc.2.1, c.isExact = true

theorem expandOne_inv (cfg : Cfg S K) (B : Int) (p0 : List Dec) (hB : NoClamp cfg.P cfg.R cfg.root.value B)
    (layers : List (List (Node S))) (hlen : layers.length ≤ cfg.P.nbVars + 1)
    (ly0 : List (Node S)) (L : List S) (var : Nat)
    (hnv : cfg.P.nextVar (cfg.root.depth + layers.length) L = some var)
    (hpar : ∀ n ∈ ly0, ParOk cfg B p0 layers L n)
    (acc : List (Node S) × List (Node S) × List (Call S)) (p : Nat) (h : EInv cfg B p0 layers ly0 acc) :
    EInv cfg B p0 layers ly0 (expandOne cfg var layers.length acc p) := by
  obtain ⟨ly, nx, lg⟩ := acc
  unfold expandOne
  dsimp only
  split
  · exact h
  · rename_i n hn
    obtain ⟨n0, h0, hs⟩ := h.rub.get hn
    have hrub : RubEq (ly.set p { n with rub := cfg.R.rub n.state }) ly0 := h.rub.set hn rfl
    split
    · have hs' : stripRub n0 = stripRub { n with rub := cfg.R.rub n.state } := hs
      generalize hpar' : ({ n with rub := cfg.R.rub n.state } : Node S) = par at hs' hrub ⊢
      have hst : n.state = par.state := by rw [← hpar']
      simp only [hst]
      have key : (∀ c ∈ (List.foldl (fun (x : List (Node S) × List (Call S)) (d : Int) =>
            (branchOn cfg par layers.length p ⟨var, d⟩ x.1,
              Call.cost par.state (cfg.P.trans par.state ⟨var, d⟩) ⟨var, d⟩ :: Call.trans par.state ⟨var, d⟩ :: x.2))
            (nx, Call.domain var par.state :: Call.rub par.state :: lg) (cfg.P.domain var par.state)).1,
              ChildOk cfg B p0 layers ly0 c) ∧
          ((∀ n ∈ ly0, n.isExact = true) → ∀ c ∈ (List.foldl (fun (x : List (Node S) × List (Call S)) (d : Int) =>
            (branchOn cfg par layers.length p ⟨var, d⟩ x.1,
              Call.cost par.state (cfg.P.trans par.state ⟨var, d⟩) ⟨var, d⟩ :: Call.trans par.state ⟨var, d⟩ :: x.2))
            (nx, Call.domain var par.state :: Call.rub par.state :: lg) (cfg.P.domain var par.state)).1,
              c.isExact = true) := by
        refine foldl_inv (β := List (Node S) × List (Call S))
          (fun acc => (∀ c ∈ acc.1, ChildOk cfg B p0 layers ly0 c) ∧
            ((∀ n ∈ ly0, n.isExact = true) → ∀ c ∈ acc.1, c.isExact = true)) _ _ _ ⟨h.child, h.allEx⟩ ?_
        rintro ⟨nx', lg'⟩ d hd ⟨ih1, ih2⟩
        dsimp only at ih1 ih2 ⊢
        refine ⟨fun c hc => ?_, fun hall c hc => ?_⟩
        · rcases branchOn_mem cfg par layers.length p ⟨var, d⟩ nx' c hc with hc | ⟨m, hm, hms, rfl⟩
          · exact ih1 c hc
          · refine childOk_appendEdge cfg B p0 hB layers hlen ly0 L var hnv p n0 par h0
              (hpar n0 (List.mem_of_getElem? h0)) hs' d hd m ?_ hms
            rcases hm with hm | hm
            · exact .inl (ih1 m hm)
            · exact .inr hm
        · rcases branchOn_mem cfg par layers.length p ⟨var, d⟩ nx' c hc with hc | ⟨m, hm, hms, rfl⟩
          · exact ih2 hall c hc
          · have hpe : par.isExact = true :=
              (stripRub_core hs').1 ▸ hall n0 (List.mem_of_getElem? h0)
            rw [appendEdge_isExact, hpe, Bool.true_and]
            rcases hm with hm | hm
            · exact ih2 hall m hm
            · rw [hm, freshNode_isExact]; exact hpe
      exact ⟨hrub, key.1, key.2⟩
    · exact ⟨hrub, h.child, h.allEx⟩

theorem expandAll_inv (cfg : Cfg S K) (B : Int) (p0 : List Dec) (hB : NoClamp cfg.P cfg.R cfg.root.value B)
    (layers : List (List (Node S))) (hlen : layers.length ≤ cfg.P.nbVars + 1)
    (ly0 : List (Node S)) (L : List S) (var : Nat)
    (hnv : cfg.P.nextVar (cfg.root.depth + layers.length) L = some var)
    (hpar : ∀ n ∈ ly0, ParOk cfg B p0 layers L n) (cur : List Nat) (log : List (Call S)) :
    EInv cfg B p0 layers ly0 (expandAll cfg var layers.length ly0 cur log) := by
  unfold expandAll
  refine foldl_inv (EInv cfg B p0 layers ly0) _ _ _ ⟨RubEq.refl _, ?_, ?_⟩ ?_
  · intro c hc; cases hc
  · intro _ c hc; cases hc
  · intro acc p _ h
    exact expandOne_inv cfg B p0 hB layers hlen ly0 L var hnv hpar acc p h


/-! ## `squash`, `stepLayer`, `buildLoop` -/

theorem squash_sub (cfg : Cfg S K) (dd : DD S K) (layer : List (Node S)) (cur : List Nat)
    (l : List (Node S)) (c : List Nat) (lg : List (Call S)) (lel : Option Nat)
    (h : squash cfg dd layer cur = some (l, c, lg, lel)) :
    SubE l layer ∧ (cfg.ctype ≠ .relaxed → SubS l layer) := by
  unfold squash at h
  dsimp only at h
  split at h
  · cases h
  · split at h
    · cases h
    · split at h
      · simp only [Option.some.injEq, Prod.mk.injEq] at h
        rw [← h.1]
        exact ⟨(restrictLayer_subS cfg layer cur).toSub, fun _ => restrictLayer_subS cfg layer cur⟩
      · split at h
        · rename_i hrel
          simp only [Option.some.injEq, Prod.mk.injEq] at h
          rw [← h.1]
          refine ⟨relaxLayer_sub cfg dd.layers layer cur dd.log, fun hne => ?_⟩
          simp only [Bool.and_eq_true, beq_iff_eq] at hrel
          exact absurd hrel.1.1 hne
        · simp only [Option.some.injEq, Prod.mk.injEq] at h
          rw [← h.1]
          exact ⟨SubE.refl _, fun _ => SubS.refl _⟩

/-- the invariant of the top-down build -/
structure MInv (cfg : Cfg S K) (B : Int) (p0 : List Dec) (dd : DD S K) : Prop where
  layers : ∀ (l : Nat) (ly : List (Node S)), dd.layers[l]? = some ly → ∀ n ∈ ly, NodeOk cfg B p0 dd.layers l n
  next : ∀ n ∈ dd.next, NodeOk cfg B p0 dd.layers dd.layers.length n
  allEx : cfg.ctype ≠ .relaxed → ∀ n ∈ dd.next, n.isExact = true

theorem MInv.append_layer {cfg : Cfg S K} {B : Int} {p0 : List Dec} {layers : List (List (Node S))} {lyF : List (Node S)}
    (hold : ∀ (l : Nat) (ly : List (Node S)), layers[l]? = some ly → ∀ n ∈ ly, NodeOk cfg B p0 layers l n)
    (hnew : ∀ n ∈ lyF, NodeOk cfg B p0 layers layers.length n) :
    ∀ (l : Nat) (ly : List (Node S)), (layers ++ [lyF])[l]? = some ly → ∀ n ∈ ly, NodeOk cfg B p0 (layers ++ [lyF]) l n := by
  intro l ly hl n hn
  rw [List.getElem?_append] at hl
  split at hl
  · exact (hold l ly hl n hn).mono _
  · rename_i hge
    have hlt : l - layers.length < 1 := by
      rcases Nat.lt_or_ge (l - layers.length) 1 with h' | h'
      · exact h'
      · rw [List.getElem?_eq_none (by simpa using h')] at hl; cases hl
    have : l = layers.length := by omega
    subst this
    simp only [Nat.sub_self, List.getElem?_cons_zero, Option.some.injEq] at hl
    subst hl
    exact (hnew n hn).mono _

theorem stepLayer_inv (cfg : Cfg S K) (B : Int) (p0 : List Dec) (hB : NoClamp cfg.P cfg.R cfg.root.value B)
    (dd : DD S K) (var : Nat) (hinv : MInv cfg B p0 dd) (hdepth : dd.depth = cfg.root.depth + dd.layers.length)
    (hnv : cfg.P.nextVar dd.depth (dd.next.map (·.state)) = some var)
    (hlen : dd.layers.length ≤ cfg.P.nbVars + 1) (dd' : DD S K) (oc : Outcome)
    (h : stepLayer cfg dd var = (some dd', oc)) :
    MInv cfg B p0 dd' ∧ (oc = .ok → dd'.depth = cfg.root.depth + dd'.layers.length ∧ dd'.layers.length = dd.layers.length + 1) ∧
      (oc ≠ .ok → dd'.next = []) := by
  unfold stepLayer at h
  split at h
  · rename_i hempty
    simp only [Prod.mk.injEq, Option.some.injEq] at h
    obtain ⟨rfl, rfl⟩ := h
    have hnil : dd.next = [] := List.isEmpty_iff.1 hempty
    refine ⟨⟨?_, ?_, ?_⟩, (fun h => by cases h), fun _ => hnil⟩
    · exact MInv.append_layer hinv.layers (fun n hn => by cases hn)
    · dsimp only; rw [hnil]; intro n hn; cases hn
    · dsimp only; rw [hnil]; intro _ n hn; cases hn
  · have hfc : SubS (if dd.layers.isEmpty = true then (dd.next, List.range dd.next.length)
        else filterCache cfg dd.cache dd.next (List.range dd.next.length)).1 dd.next := by
      split
      · exact SubS.refl _
      · exact filterCache_subS _ _ _ _
    dsimp only at h
    generalize (if dd.layers.isEmpty = true then (dd.next, List.range dd.next.length)
        else filterCache cfg dd.cache dd.next (List.range dd.next.length)) = fc at h hfc
    have hfd := filterDom_subS cfg dd.store fc.1 fc.2
    generalize filterDom cfg dd.store fc.1 fc.2 = fd at h hfd
    split at h
    · cases h
    · split at h
      · cases h
      · rename_i lsq csq lgsq lel hsq
        simp only [Prod.mk.injEq, Option.some.injEq] at h
        obtain ⟨rfl, rfl⟩ := h
        obtain ⟨hsub, hsubS⟩ := squash_sub cfg dd fd.1 fd.2.1 lsq csq lgsq lel hsq
        have hsub0 : SubE lsq dd.next := hsub.trans (hfd.trans hfc).toSub
        -- the nodes of the layer about to be expanded
        have hpar0 : ∀ n ∈ dd.next, ParOk cfg B p0 dd.layers (dd.next.map (·.state)) n := fun n hn =>
          ⟨hinv.next n hn, fun _ => List.mem_map.2 ⟨n, hn, rfl⟩⟩
        have hpar : ∀ n ∈ lsq, ParOk cfg B p0 dd.layers (dd.next.map (·.state)) n := ParOk.of_sub hsub0 hpar0
        have hE := expandAll_inv cfg B p0 hB dd.layers hlen lsq (dd.next.map (·.state)) var (hdepth ▸ hnv) hpar csq lgsq
        generalize expandAll cfg var dd.layers.length lsq csq lgsq = ex at hE
        obtain ⟨hrub, hchild, hallEx⟩ := hE
        refine ⟨⟨?_, ?_, ?_⟩, fun _ => ⟨?_, ?_⟩, fun h => absurd rfl h⟩
        · dsimp only
          refine MInv.append_layer hinv.layers ?_
          exact fun n hn => (ParOk.of_sub hrub.subS.toSub hpar n hn).1
        · dsimp only
          intro c hc hex
          obtain ⟨a, pn, q, hbest, hfrom, hpn, hchain, hreach, hd, hbnd⟩ := hchild c hc hex
          obtain ⟨pF, hpF, hsF⟩ := hrub.get' hpn
          refine ⟨q ++ [a.dec], ?_, hreach, ?_, ?_⟩
          · rw [hbest, List.length_append, List.length_singleton]
            refine BestChain.step _ a pF q hfrom ?_ ?_
            · unfold getNode
              rw [List.getElem?_concat_length]
              exact hpF
            · rw [← (stripRub_core hsF).2.2.2.1]
              exact hchain.mono _
          · rw [hd, List.length_append, List.length_singleton]
          · rw [List.length_append, List.length_singleton]; exact hbnd
        · dsimp only
          intro hne c hc
          refine hallEx ?_ c hc
          intro n hn
          obtain ⟨n0, h0, he0, _⟩ := (hsubS hne).trans (hfd.trans hfc) n hn
          rw [← he0]
          exact hinv.allEx hne n0 h0
        · dsimp only
          rw [hdepth, List.length_append, List.length_singleton]; omega
        · dsimp only
          rw [List.length_append, List.length_singleton]

theorem MInv.congr {cfg : Cfg S K} {B : Int} {p0 : List Dec} {dd dd' : DD S K} (h : MInv cfg B p0 dd)
    (hl : dd'.layers = dd.layers) (hn : dd'.next = dd.next) : MInv cfg B p0 dd' := by
  obtain ⟨h1, h2, h3⟩ := h
  exact ⟨hl ▸ h1, hl ▸ hn ▸ h2, hn ▸ h3⟩

/-- what holds of the diagram when the loop ends normally: either the last layer is empty
    (the `break`), or `nextVar` answered `none` on the states of `dd.next`, the terminal layer -/
def Terminal (cfg : Cfg S K) (dd : DD S K) : Prop :=
  dd.next = [] ∨ (cfg.P.nextVar dd.depth (dd.next.map (·.state)) = none ∧
    dd.depth = cfg.root.depth + dd.layers.length)

theorem buildLoop_inv (cfg : Cfg S K) (B : Int) (p0 : List Dec) (hB : NoClamp cfg.P cfg.R cfg.root.value B) (stopAt : Option Nat) :
    ∀ (fuel : Nat) (dd : DD S K), MInv cfg B p0 dd → dd.depth = cfg.root.depth + dd.layers.length →
      dd.layers.length + fuel ≤ cfg.P.nbVars + 2 →
      MInv cfg B p0 (buildLoop cfg stopAt fuel dd).1 ∧
        ((buildLoop cfg stopAt fuel dd).2 = .ok → Terminal cfg (buildLoop cfg stopAt fuel dd).1) := by
  cases stopAt <;> intro fuel <;> induction fuel with
  | zero =>
    intro dd hinv _ _
    exact ⟨hinv, fun h => by cases h⟩
  | succ fuel ih =>
    intro dd hinv hdepth hfuel
    unfold buildLoop
    dsimp only
    split
    · rename_i hnone
      exact ⟨hinv.congr rfl rfl, fun _ => .inr ⟨hnone, hdepth⟩⟩
    · rename_i var hvar
      split
      · exact ⟨hinv.congr rfl rfl, fun h => by cases h⟩
      · have hstep := stepLayer_inv cfg B p0 hB
          { dd with log := Call.nextVar dd.depth (dd.next.map (·.state)) (some var) :: dd.log, polls := dd.polls + 1 }
          var (hinv.congr rfl rfl) hdepth hvar (by dsimp only; omega)
        rw [hvar]
        split
        · exact ⟨hinv.congr rfl rfl, fun h => by cases h⟩
        · rename_i dd' heq
          obtain ⟨h1, _, h3⟩ := hstep dd' _ heq
          exact ⟨h1, fun _ => .inl (h3 (by decide))⟩
        · rename_i dd' heq
          obtain ⟨h1, _, _⟩ := hstep dd' _ heq
          exact ⟨h1, fun h => by cases h⟩
        · rename_i dd' heq
          obtain ⟨h1, h2, _⟩ := hstep dd' _ heq
          obtain ⟨h2a, h2b⟩ := h2 rfl
          exact ih dd' h1 h2a (by rw [h2b]; dsimp only; omega)

/-! ## the initial diagram; (A) -/

theorem initDD_inv (cfg : Cfg S K) (B : Int) (p0 : List Dec) (hB : NoClamp cfg.P cfg.R cfg.root.value B)
    (hroot : Reach cfg.P cfg.root.depth cfg.root.state cfg.root.value p0)
    (cache : Cache S) (store : DomStore S K) (polls : Nat) : MInv cfg B p0 (initDD cfg cache store polls) := by
  refine ⟨?_, ?_, ?_⟩
  · intro l ly hl
    simp only [initDD, List.getElem?_nil] at hl
    cases hl
  · intro n hn
    simp only [initDD, List.mem_singleton] at hn
    subst hn
    intro _
    refine ⟨[], .root, ?_, rfl, ?_⟩
    · rw [List.append_nil]; exact hroot
    · have := hB.root
      show -((((0 : Nat) : Int) + 1) * B) ≤ cfg.root.value ∧ cfg.root.value ≤ (((0 : Nat) : Int) + 1) * B
      rw [show (((0 : Nat) : Int) + 1) = 1 by rfl, Int.one_mul]
      exact this
  · intro _ n hn
    simp only [initDD, List.mem_singleton] at hn
    subst hn
    rfl

/-- **(A), user-facing form.**  Every node flagged exact — in a completed layer or in the layer under
    construction — is reached exactly (`Reach`) from the problem root by `p0` (a decision list reaching
    the root sub-problem exactly, e.g. `cfg.root.path`) followed by the decisions of its `best` chain
    (`bestPath` lists them last arc first), at the depth it records. -/
def ExactReach (cfg : Cfg S K) (p0 : List Dec) (dd : DD S K) : Prop :=
  (∀ (l : Nat) (ly : List (Node S)), dd.layers[l]? = some ly → ∀ n ∈ ly, n.isExact = true →
    n.depth = cfg.root.depth + l ∧ ∀ fuel, l ≤ fuel →
      Reach cfg.P n.depth n.state n.value (p0 ++ (bestPath dd.layers fuel n).reverse)) ∧
  (∀ n ∈ dd.next, n.isExact = true →
    n.depth = cfg.root.depth + dd.layers.length ∧ ∀ fuel, dd.layers.length ≤ fuel →
      Reach cfg.P n.depth n.state n.value (p0 ++ (bestPath dd.layers fuel n).reverse))

theorem NodeOk.exactReach {cfg : Cfg S K} {B : Int} {p0 : List Dec} {layers : List (List (Node S))} {l : Nat} {n : Node S}
    (h : NodeOk cfg B p0 layers l n) (he : n.isExact = true) :
    n.depth = cfg.root.depth + l ∧ ∀ fuel, l ≤ fuel →
      Reach cfg.P n.depth n.state n.value (p0 ++ (bestPath layers fuel n).reverse) := by
  obtain ⟨q, hq, hr, hd, _⟩ := h he
  exact ⟨hd, fun fuel hf => by rw [hq.bestPath_eq n rfl fuel hf]; exact hr⟩

theorem MInv.exactReach {cfg : Cfg S K} {B : Int} {p0 : List Dec} {dd : DD S K} (h : MInv cfg B p0 dd) : ExactReach cfg p0 dd :=
  ⟨fun l ly hl n hn he => (h.layers l ly hl n hn).exactReach he, fun n hn he => (h.next n hn).exactReach he⟩

/-- **(A)** for the loop started on any diagram satisfying the invariant -/
theorem buildLoop_exact_reach_from (cfg : Cfg S K) (B : Int) (p0 : List Dec) (hB : NoClamp cfg.P cfg.R cfg.root.value B)
    (stopAt : Option Nat) (fuel : Nat) (dd : DD S K) (hinv : MInv cfg B p0 dd)
    (hdepth : dd.depth = cfg.root.depth + dd.layers.length)
    (hfuel : dd.layers.length + fuel ≤ cfg.P.nbVars + 2) :
    ExactReach cfg p0 (buildLoop cfg stopAt fuel dd).1 :=
  (buildLoop_inv cfg B p0 hB stopAt fuel dd hinv hdepth hfuel).1.exactReach

/-- **(A)** for a whole compilation, any compilation type, any cache / dominance configuration -/
theorem buildLoop_exact_reach (cfg : Cfg S K) (B : Int) (p0 : List Dec) (hB : NoClamp cfg.P cfg.R cfg.root.value B)
    (hroot : Reach cfg.P cfg.root.depth cfg.root.state cfg.root.value p0)
    (cache : Cache S) (store : DomStore S K) (polls : Nat) (stopAt : Option Nat) (fuel : Nat)
    (hfuel : fuel ≤ cfg.P.nbVars + 2) :
    ExactReach cfg p0 (buildLoop cfg stopAt fuel (initDD cfg cache store polls)).1 :=
  buildLoop_exact_reach_from cfg B p0 hB stopAt fuel _ (initDD_inv cfg B p0 hB hroot cache store polls) rfl
    (by simp only [initDD, List.length_nil]; omega)


/-! ## finalisation: the best value is the value of a terminal node -/

theorem maxValue_mem_aux (l : List (Node S)) : ∀ (acc : Option Int) (w : Int),
    l.foldl (fun acc n => match acc with | none => some n.value | some m => some (max m n.value)) acc = some w →
    acc = some w ∨ ∃ n ∈ l, n.value = w := by
  induction l with
  | nil => intro acc w h; exact .inl h
  | cons x r ih =>
    intro acc w h
    simp only [List.foldl_cons] at h
    rcases ih _ w h with h' | ⟨n, hn, hv⟩
    · cases acc with
      | none =>
        simp only [Option.some.injEq] at h'
        exact .inr ⟨x, List.mem_cons_self, h'⟩
      | some m =>
        simp only [Option.some.injEq] at h'
        rcases Int.le_total m x.value with hle | hle
        · rw [Int.max_eq_right hle] at h'
          exact .inr ⟨x, List.mem_cons_self, h'⟩
        · rw [Int.max_eq_left hle] at h'
          exact .inl (by rw [h'])
    · exact .inr ⟨n, List.mem_cons_of_mem _ hn, hv⟩

theorem maxValue_mem {l : List (Node S)} {w : Int} (h : maxValue l = some w) : ∃ n ∈ l, n.value = w := by
  rcases maxValue_mem_aux l none w h with h' | h'
  · cases h'
  · exact h'

theorem finalize_bestValue (cfg : Cfg S K) (b : Built S K) (e : Bool) : (finalize cfg b e).1.bestValue = b.bestValue := rfl

theorem terminals_finalizeLayers (dd : DD S K) : (finalizeLayers dd).terminals = dd.next := by
  unfold finalizeLayers Built.terminals
  by_cases h : dd.next.isEmpty = true
  · simp only [h, if_true]
    exact (List.isEmpty_iff.1 h).symm
  · have h' : dd.next.isEmpty = false := by simpa using h
    simp only [h', Bool.false_eq_true, if_false, List.getElem?_concat_length, Option.getD_some]


theorem compile_ok (cfg : Cfg S K) (cache : Cache S) (store : DomStore S K) (polls : Nat) (stopAt : Option Nat)
    (h : (compile cfg cache store polls stopAt).1 = .ok) :
    (buildLoop cfg stopAt (cfg.P.nbVars + 2) (initDD cfg cache store polls)).2 = .ok ∧
    (compile cfg cache store polls stopAt).2.2.2 = (buildLoop cfg stopAt (cfg.P.nbVars + 2) (initDD cfg cache store polls)).1 ∧
    (compile cfg cache store polls stopAt).2.1 =
      (finalize cfg (finalizeLayers (buildLoop cfg stopAt (cfg.P.nbVars + 2) (initDD cfg cache store polls)).1)
        ((finalizeLayers (buildLoop cfg stopAt (cfg.P.nbVars + 2) (initDD cfg cache store polls)).1).ebpMust
          (cfg.ctype == .relaxed))).1 := by
  unfold compile at h ⊢
  generalize buildLoop cfg stopAt (cfg.P.nbVars + 2) (initDD cfg cache store polls) = bl at h ⊢
  obtain ⟨dd, oc⟩ := bl
  dsimp only at h ⊢
  cases oc
  · exact ⟨rfl, rfl, rfl⟩
  · cases h
  · cases h


/-! ## the bottom-up passes do not touch `value` / `best` -/

/-- value and best arc of a node -/
def bv (n : Node S) : Int × Option Arc := (n.value, n.best)

/-- position-wise equality of the `value` and `best` fields -/
def KeyEq (ls ls' : List (List (Node S))) : Prop := ls.map (List.map bv) = ls'.map (List.map bv)

theorem KeyEq.refl (ls : List (List (Node S))) : KeyEq ls ls := rfl
theorem KeyEq.trans {a b c : List (List (Node S))} (h1 : KeyEq a b) (h2 : KeyEq b c) : KeyEq a c := Eq.trans h1 h2

theorem List.set_self' {α : Type} {l : List α} {i : Nat} {a : α} (h : l[i]? = some a) : l.set i a = l := by
  apply List.ext_getElem?
  intro j
  rw [List.getElem?_set]
  split
  · rename_i hij
    subst hij
    have hlt : i < l.length := by
      rcases Nat.lt_or_ge i l.length with h' | h'
      · exact h'
      · rw [List.getElem?_eq_none h'] at h; cases h
    rw [if_pos hlt, h]
  · rfl

theorem KeyEq.set_layer {ls ls0 : List (List (Node S))} (h : KeyEq ls ls0) (l : Nat) (ly' : List (Node S))
    (hl : ∀ ly, ls[l]? = some ly → ly'.map bv = ly.map bv) : KeyEq (ls.set l ly') ls0 := by
  unfold KeyEq at *
  rw [List.map_set, ← h]
  cases hls : ls[l]? with
  | none =>
    have : ls.length ≤ l := by
      rcases Nat.lt_or_ge l ls.length with h' | h'
      · rw [List.getElem?_eq_getElem h'] at hls; cases hls
      · exact h'
    exact List.set_eq_of_length_le (by rw [List.length_map]; exact this)
  | some ly =>
    rw [hl ly hls]
    exact List.set_self' (by rw [List.getElem?_map, hls]; rfl)

theorem KeyEq.set_map {ls ls0 : List (List (Node S))} (h : KeyEq ls ls0) (l : Nat) (f : Node S → Node S)
    (hf : ∀ n, bv (f n) = bv n) : KeyEq (ls.set l ((ls[l]?.getD []).map f)) ls0 := by
  refine h.set_layer l _ (fun ly hly => ?_)
  rw [hly, Option.getD_some, List.map_map]
  exact List.map_congr_left (fun n _ => hf n)

theorem KeyEq.modNode {ls ls0 : List (List (Node S))} (h : KeyEq ls ls0) (l p : Nat) (f : Node S → Node S)
    (hf : ∀ n, getNode ls l p = some n → bv (f n) = bv n) : KeyEq (Ddo.modNode ls l p f) ls0 := by
  unfold Ddo.modNode
  split
  · exact h
  · rename_i ly hly
    split
    · exact h
    · rename_i n hn
      refine h.set_layer l _ (fun ly' hly' => ?_)
      rw [hly] at hly'
      cases hly'
      rw [List.map_set, hf n (by unfold getNode; rw [hly]; exact hn)]
      exact List.set_self' (by rw [List.getElem?_map, hn]; rfl)

theorem KeyEq.length {ls ls0 : List (List (Node S))} (h : KeyEq ls ls0) : ls.length = ls0.length := by
  have := congrArg List.length h
  simpa using this

theorem KeyEq.layer {ls ls0 : List (List (Node S))} (h : KeyEq ls ls0) (l : Nat) :
    (ls[l]?.getD []).map bv = (ls0[l]?.getD []).map bv := by
  have := congrArg (fun x => (x[l]?).getD []) h
  simp only [List.getElem?_map] at this
  cases h1 : ls[l]? <;> cases h2 : ls0[l]? <;> simp only [h1, h2, Option.map_none, Option.map_some, Option.getD_none,
    Option.getD_some, List.map_nil] at this ⊢ <;> exact this

theorem KeyEq.getNode {ls ls0 : List (List (Node S))} (h : KeyEq ls ls0) (l p : Nat) :
    (Ddo.getNode ls l p).map bv = (Ddo.getNode ls0 l p).map bv := by
  have h1 : ∀ (xs : List (List (Node S))), (Ddo.getNode xs l p).map bv = ((xs[l]?.getD []).map bv)[p]? := by
    intro xs
    unfold Ddo.getNode
    cases xs[l]? with
    | none => rfl
    | some ly => simp only [Option.getD_some, List.getElem?_map]
  rw [h1, h1, h.layer l]


theorem computeCutset_keyEq (kind : CutsetKind) (lel : Nat) (layers : List (List (Node S))) :
    KeyEq (computeCutset kind lel layers).1 layers := by
  unfold computeCutset
  cases kind with
  | lel =>
    dsimp only
    refine foldl_inv (β := List (List (Node S))) (fun ls => KeyEq ls layers) _ _ _ (KeyEq.refl _) ?_
    intro ls l _ h
    split
    · exact h.set_map l _ (fun _ => rfl)
    · split
      · exact h.set_map l _ (fun _ => rfl)
      · exact h
  | frontier =>
    dsimp only
    refine foldl_inv (β := List (List (Node S)) × List (Nat × Nat)) (fun acc => KeyEq acc.1 layers) _ _ _ (KeyEq.refl _) ?_
    rintro ⟨ls, cs⟩ l _ h
    dsimp only at h ⊢
    refine foldl_inv (β := List (List (Node S)) × List (Nat × Nat)) (fun acc => KeyEq acc.1 layers) _ _ _ h ?_
    rintro ⟨ls, cs⟩ p _ h
    dsimp only at h ⊢
    split
    · exact h
    · rename_i n _
      split
      · exact h.modNode l p _ (fun _ _ => rfl)
      · refine foldl_inv (β := List (List (Node S)) × List (Nat × Nat)) (fun acc => KeyEq acc.1 layers) _ _ _ h ?_
        rintro ⟨ls, cs⟩ e _ h
        dsimp only at h ⊢
        split
        · split
          · exact h.modNode _ _ _ (fun _ _ => rfl)
          · exact h
        · exact h


theorem computeThresholds_keyEq (kind : CutsetKind) (isExactField : Bool) (lb : Int) (bestExact : Option Int)
    (termL : Option Nat) (layers : List (List (Node S))) :
    KeyEq (computeThresholds kind isExactField lb bestExact termL layers).1 layers := by
  unfold computeThresholds
  extract_lets bk layers0
  have h0 : KeyEq layers0 layers := by
    show KeyEq (match bestExact, termL with | some _, some tl => _ | _, _ => _) layers
    split
    · refine (KeyEq.refl _).set_map _ _ (fun n => ?_)
      split <;> rfl
    · exact KeyEq.refl _
  clear_value layers0
  refine foldl_inv (β := List (List (Node S)) × List (S × Nat × Int × Bool)) (fun acc => KeyEq acc.1 layers) _ _ _ h0 ?_
  rintro ⟨ls, ups⟩ l _ h
  dsimp only at h ⊢
  refine foldl_inv (β := List (List (Node S)) × List (S × Nat × Int × Bool)) (fun acc => KeyEq acc.1 layers) _ _ _ h ?_
  rintro ⟨ls, ups⟩ p _ h
  dsimp -zeta only at h ⊢
  split
  · exact h
  · rename_i n hn
    split
    · exact h
    · generalize heq : (ite ((!n.cache) = true) _ _ : Node S × List (S × Nat × Int × Bool)) = r
      obtain ⟨n1, ups1⟩ := r
      have hbv : bv n1 = bv n := by
        have e : Prod.fst _ = n1 := congrArg Prod.fst heq
        rw [← e]
        split
        · dsimp only
          repeat' split
          all_goals rfl
        · rfl
      clear heq
      dsimp -zeta only
      have h1 : KeyEq (modNode ls l p (fun _ => n1)) layers :=
        h.modNode l p _ (fun m hm => by rw [hn] at hm; cases hm; exact hbv)
      split
      · dsimp only
        refine foldl_inv (β := List (List (Node S))) (fun acc => KeyEq acc layers) _ _ _ h1 ?_
        intro ls2 e _ h2
        exact h2.modNode _ _ _ (fun _ _ => rfl)
      · exact h1

theorem finalize_layers_keyEq (cfg : Cfg S K) (b : Built S K) (e : Bool) (hrel : (cfg.ctype == .relaxed) = false) :
    KeyEq (finalize cfg b e).2 b.layers := by
  unfold finalize
  simp only [hrel, Bool.and_false, Bool.false_eq_true, if_false, Bool.false_or]
  by_cases hx : b.isExactField = true
  · simp only [hx, if_true]
    exact (computeThresholds_keyEq _ _ _ _ _ _).trans (computeCutset_keyEq _ _ _)
  · simp only [hx]
    exact KeyEq.refl _

theorem finalize_bestSol (cfg : Cfg S K) (b : Built S K) (e : Bool) :
    (finalize cfg b e).1.bestSol =
      (match b.bestValue with
        | none => none
        | some v => b.termL.bind (fun l => ((finalize cfg b e).2[l]?.getD []).find? (fun (n : Node S) => decide (n.value = v)))).map
        (fun n => cfg.root.path ++ bestPath (finalize cfg b e).2 ((finalize cfg b e).2.length + 1) n) := rfl


theorem BestChain.of_keyEq {ls ls' : List (List (Node S))} {l : Nat} {b : Option Arc} {q : List Dec}
    (h : BestChain ls l b q) (hk : KeyEq ls' ls) : BestChain ls' l b q := by
  induction h with
  | root => exact .root
  | step l a p q hl hg _ ih =>
    have := hk.getNode l a.fromP
    rw [hg] at this
    cases hg' : getNode ls' l a.fromP with
    | none => rw [hg'] at this; cases this
    | some p' =>
      rw [hg'] at this
      simp only [Option.map_some, Option.some.injEq, bv, Prod.mk.injEq] at this
      exact .step l a p' q hl hg' (this.2 ▸ ih)

theorem find?_map_bv (v : Int) : ∀ (l l' : List (Node S)), l.map bv = l'.map bv →
    (l.find? (fun n => decide (n.value = v))).map bv = (l'.find? (fun n => decide (n.value = v))).map bv := by
  intro l
  induction l with
  | nil =>
    intro l' h
    cases l' with
    | nil => rfl
    | cons _ _ => cases h
  | cons x r ih =>
    intro l' h
    cases l' with
    | nil => cases h
    | cons y r' =>
      simp only [List.map_cons, List.cons.injEq] at h
      have hv : x.value = y.value := congrArg Prod.fst h.1
      simp only [List.find?_cons, hv]
      by_cases hy : y.value = v
      · simp only [hy, decide_true, Option.map_some, h.1]
      · simp only [hy, decide_false]
        exact ih r' h.2

theorem find?_of_maxValue {l : List (Node S)} {w : Int} (h : maxValue l = some w) :
    ∃ n, l.find? (fun n => decide (n.value = w)) = some n ∧ n ∈ l ∧ n.value = w := by
  obtain ⟨m, hm, hmv⟩ := maxValue_mem h
  cases hf : l.find? (fun n => decide (n.value = w)) with
  | none =>
    rw [List.find?_eq_none] at hf
    exact absurd (by simpa using hmv) (hf m hm)
  | some n =>
    exact ⟨n, rfl, List.mem_of_find?_eq_some hf, by simpa using List.find?_some hf⟩


theorem finalizeLayers_nonempty (dd : DD S K) (h : dd.next ≠ []) :
    (finalizeLayers dd).layers = dd.layers ++ [dd.next] ∧ (finalizeLayers dd).termL = some dd.layers.length := by
  have h' : dd.next.isEmpty = false := by
    cases hn : dd.next with
    | nil => exact absurd hn h
    | cons _ _ => rfl
  unfold finalizeLayers
  simp only [h', Bool.false_eq_true, if_false, and_self]

/-- the reported best solution of a non-relaxed compilation: the root path followed by the `best`
    chain (last arc first) of the first terminal node attaining the best value -/
theorem finalize_bestSol_eq (cfg : Cfg S K) (dd : DD S K) (e : Bool) (hrel : (cfg.ctype == .relaxed) = false)
    (w : Int) (hw : (finalizeLayers dd).bestValue = some w) :
    ∃ n, n ∈ dd.next ∧ n.value = w ∧ ∀ q, BestChain dd.layers dd.layers.length n.best q →
      (finalize cfg (finalizeLayers dd) e).1.bestSol = some (cfg.root.path ++ q.reverse) := by
  have hw' : maxValue dd.next = some w := by
    unfold Built.bestValue at hw; rwa [terminals_finalizeLayers] at hw
  obtain ⟨n, hfind, hn, hv⟩ := find?_of_maxValue hw'
  refine ⟨n, hn, hv, fun q hq => ?_⟩
  have hne : dd.next ≠ [] := fun h => by rw [h] at hn; cases hn
  obtain ⟨hlayers, hterm⟩ := finalizeLayers_nonempty dd hne
  have hk := finalize_layers_keyEq cfg (finalizeLayers dd) e hrel
  rw [finalize_bestSol, hw, hterm]
  dsimp only [Option.bind_some]
  generalize (finalize cfg (finalizeLayers dd) e).2 = L3 at hk ⊢
  rw [hlayers] at hk
  -- the terminal layer of `L3`
  have hlayer := hk.layer dd.layers.length
  rw [List.getElem?_concat_length, Option.getD_some] at hlayer
  have hf := find?_map_bv w _ _ hlayer
  rw [hfind] at hf
  cases hf3 : (L3[dd.layers.length]?.getD []).find? (fun n => decide (n.value = w)) with
  | none => rw [hf3] at hf; cases hf
  | some n3 =>
    rw [hf3] at hf
    simp only [Option.map_some, Option.some.injEq, bv, Prod.mk.injEq] at hf
    have hchain : BestChain L3 dd.layers.length n3.best q := by
      rw [hf.2]; exact (hq.mono [dd.next]).of_keyEq hk
    have := hchain.bestPath_eq n3 rfl (L3.length + 1) (by
      rw [hk.length, List.length_append, List.length_singleton]; omega)
    simp only [Option.map_some, Option.some.injEq, List.append_cancel_left_eq]
    rw [← this, List.reverse_reverse]


end Ddo
