import DdoModel.Proofs.CompatBuiltS
/-! C10e — **what `_filter_with_dominance` records in the nodes it drops** (`FdSpecJoint`): the fold of `fdStep`, position by
position, with the threshold of every `dominated` verdict read through `GAbove.not_below_threshold`. -/
set_option linter.unusedSectionVars false
set_option linter.unusedVariables false
namespace Ddo.C10d
open Ddo Ddo.C01 Ddo.Closed Ddo.C09 Ddo.C10 Ddo.C10c Ddo.Truth Ddo.Theta Ddo.Bounds
variable {S K : Type} [DecidableEq S] [DecidableEq K]

section q
variable {D : DomRule S K} {P : Problem S} {R : Relax S} {H : Nat → S → EInt} {n : Nat} {opt B0 B : Int}

theorem reach_InI (hRB : RunBound P R B0 B) (hNV : NvBound P) {k : Nat} {s : S} {v : Int} {p : List Dec}
    (h : Reach P k s v p) : InI v := by
  have h1 := reach_value_bound hRB.cost h
  have h2 := reach_depth_le hNV h
  have h3 := hRB.fit
  have h4 := hRB.B_small
  have h0 := hRB.B0_nonneg
  have h5 : ((k : Int) + 1) * B0 ≤ ((P.nbVars : Int) + 1) * B0 := Int.mul_le_mul_of_nonneg_right (by omega) h0
  unfold InI iMin iMax
  omega

/-- the threshold of a `dominated` verdict of the checker, entries exactly reached -/
theorem query_thr (hyp : GHyp D P R H n opt B0 B) (st st' : DomStore S K) (s : S) (d : Nat) (v : Int) (thr : Option Int)
    (h : DomStore.query D st s d v = some (st', true, thr)) (hst : StoreReach D P st) (hv : InI v) :
    ∃ t, thr = some t ∧ v ≤ t ∧ DomOkAt (gpot D P n opt B) (opt - 1) d s t := by
  cases hk : D.key s with
  | none =>
    rw [query_no_key D st s d v hk] at h
    cases h
  | some k =>
    obtain ⟨h1, _⟩ := query_refines_bucket D st st' s d v k true thr hk h
    have hd : (D.bucketQuery s v (bucketOf st d k)).2.1 = true := by rw [← h1]
    have ht : (D.bucketQuery s v (bucketOf st d k)).2.2 = thr := by rw [← h1]
    have hb : ∀ o ∈ bucketOf st d k, D.key o.1 = some k ∧ ∃ p, Reach P d o.1 o.2 p := fun o ho => hst d k o.1 o.2 ho
    obtain ⟨t, e, hvt, hall⟩ := GAbove.not_below_threshold (P := P) (opt := opt) hyp.hdim (bucketOf st d k) s v hv
      (fun o ho => by obtain ⟨_, p, hr⟩ := hb o ho; exact reach_InI hyp.hRB hyp.hNV hr) hb hk hd
    refine ⟨t, by rw [← ht, e], hvt, ?_⟩
    intro v' hv' h' hg
    apply Classical.byContradiction
    intro hc
    exact hall v' hv' ((gpot_spec hyp).mpr ⟨h', hg, by omega⟩)

/-- invariant of the fold of `fdStep` (`proc`: the positions processed so far) -/
structure FdInv2 (D : DomRule S K) (P : Problem S) (Hh : Nat → S → EInt) (O : Int) (layer : List (Node S)) (proc : List Nat)
    (acc : List (Node S) × List Nat × DomStore S K × Bool) : Prop where
  sub : ∀ p ∈ acc.2.1, p ∈ proc
  same : ∀ p, (p ∈ acc.2.1 ∨ p ∉ proc) → acc.1[p]? = layer[p]?
  drop : ∀ p ∈ proc, p ∉ acc.2.1 → ∃ n thr, layer[p]? = some n ∧ acc.1[p]? = some { n with theta := some thr } ∧
    n.isExact = true ∧ (∀ h, Hh n.depth n.state = some h → n.value + h ≤ O) ∧ DomOkAt Hh O n.depth n.state thr
  st : StoreReach D P acc.2.2.1

theorem fdInv2_keep {Hh : Nat → S → EInt} {O : Int} {layer : List (Node S)} {proc : List Nat} {ly : List (Node S)}
    {keep : List Nat} {st st' : DomStore S K} {ok ok' : Bool} (p : Nat) (hp : p ∉ proc)
    (hI : FdInv2 D P Hh O layer proc (ly, keep, st, ok)) (hst : StoreReach D P st') :
    FdInv2 D P Hh O layer (proc ++ [p]) (ly, keep ++ [p], st', ok') := by
  obtain ⟨h1, h2, h3, _⟩ := hI
  dsimp only at h1 h2 h3
  refine ⟨?_, ?_, ?_, hst⟩
  · intro q hq
    dsimp only at hq
    rcases List.mem_append.mp hq with hq | hq
    · exact List.mem_append_left _ (h1 q hq)
    · exact List.mem_append_right _ hq
  · intro q hq
    dsimp only at hq ⊢
    rcases hq with hq | hq
    · rcases List.mem_append.mp hq with hq | hq
      · exact h2 q (.inl hq)
      · rw [List.mem_singleton] at hq; subst hq; exact h2 q (.inr hp)
    · exact h2 q (.inr (fun h => hq (List.mem_append_left _ h)))
  · intro q hq hnq
    dsimp only at hnq ⊢
    rcases List.mem_append.mp hq with hq | hq
    · exact h3 q hq (fun h => hnq (List.mem_append_left _ h))
    · exact absurd (List.mem_append_right _ hq) hnq

theorem fdStep_inv2 (hyp : GHyp D P R H n opt B0 B) (layer : List (Node S))
    (hreach : ∀ m ∈ layer, m.isExact = true → ∃ p, Reach P m.depth m.state m.value p)
    (proc : List Nat) (acc : List (Node S) × List Nat × DomStore S K × Bool) (p : Nat) (hlt : p < layer.length) (hp : p ∉ proc)
    (hI : FdInv2 D P (gpot D P n opt B) (opt - 1) layer proc acc) :
    FdInv2 D P (gpot D P n opt B) (opt - 1) layer (proc ++ [p]) (fdStep D acc p) := by
  obtain ⟨ly, keep, st, ok⟩ := acc
  have hn : layer[p]? = some layer[p] := List.getElem?_eq_getElem hlt
  have hlp : ly[p]? = some layer[p] := by rw [← hn]; exact hI.same p (.inr hp)
  have hlt' : p < ly.length := Cover.lt_of_getElem?_some hlp
  generalize layer[p] = m at hn hlp
  unfold fdStep
  dsimp only
  rw [hlp]
  dsimp only
  by_cases hex : m.isExact = true
  · rw [if_pos hex]
    obtain ⟨pp, hr⟩ := hreach m (List.mem_of_getElem? hn) hex
    cases hq : DomStore.query D st m.state m.depth m.value with
    | none => exact fdInv2_keep p hp hI hI.st
    | some r =>
      obtain ⟨st', dom, thr⟩ := r
      dsimp only
      have hst' : StoreReach D P st' := query_storeAll D _ st st' _ _ _ dom thr hq hI.st ⟨pp, hr⟩
      cases dom with
      | false =>
        rw [if_neg (by simp)]
        exact fdInv2_keep p hp hI hst'
      | true =>
        rw [if_pos rfl]
        obtain ⟨t, rfl, hvt, hok⟩ := query_thr hyp st st' m.state m.depth m.value thr hq hI.st (reach_InI hyp.hRB hyp.hNV hr)
        obtain ⟨h1, h2, h3, _⟩ := hI
        dsimp only at h1 h2 h3
        refine ⟨?_, ?_, ?_, hst'⟩
        · intro q hq'; exact List.mem_append_left _ (h1 q hq')
        · intro q hq'
          dsimp only at hq' ⊢
          have hne : p ≠ q := by
            rintro rfl
            rcases hq' with hq' | hq'
            · exact hp (h1 p hq')
            · exact hq' (List.mem_append_right _ (List.mem_singleton.mpr rfl))
          rw [List.getElem?_set_ne hne]
          rcases hq' with hq' | hq'
          · exact h2 q (.inl hq')
          · exact h2 q (.inr (fun h => hq' (List.mem_append_left _ h)))
        · intro q hq' hnq
          dsimp only at hnq ⊢
          rcases List.mem_append.mp hq' with hq' | hq'
          · have hne : p ≠ q := by rintro rfl; exact hp hq'
            rw [List.getElem?_set_ne hne]
            exact h3 q hq' hnq
          · rw [List.mem_singleton] at hq'
            subst hq'
            refine ⟨m, t, hn, ?_, hex, fun h hg => hok m.value hvt h hg, hok⟩
            rw [List.getElem?_set_self hlt']
  · rw [if_neg hex]
    exact fdInv2_keep p hp hI hI.st

theorem fdFold_inv2 (hyp : GHyp D P R H n opt B0 B) (layer : List (Node S))
    (hreach : ∀ m ∈ layer, m.isExact = true → ∃ p, Reach P m.depth m.state m.value p) :
    ∀ (l proc : List Nat) (acc : List (Node S) × List Nat × DomStore S K × Bool), (∀ p ∈ l, p < layer.length) → l.Nodup →
      (∀ p ∈ l, p ∉ proc) → FdInv2 D P (gpot D P n opt B) (opt - 1) layer proc acc →
      FdInv2 D P (gpot D P n opt B) (opt - 1) layer (proc ++ l) (l.foldl (fdStep D) acc) := by
  intro l
  induction l with
  | nil => intro proc acc _ _ _ h; simpa using h
  | cons p ps ih =>
    intro proc acc hl hnd hdis h
    rw [List.foldl_cons]
    obtain ⟨hpn, hnd'⟩ := List.nodup_cons.mp hnd
    have := ih (proc ++ [p]) _ (fun q hq => hl q (List.mem_cons_of_mem _ hq)) hnd'
      (fun q hq hq' => by
        rcases List.mem_append.mp hq' with h1 | h1
        · exact hdis q (List.mem_cons_of_mem _ hq) h1
        · rw [List.mem_singleton] at h1; subst h1; exact hpn hq)
      (fdStep_inv2 hyp layer hreach proc acc p (hl p List.mem_cons_self) (hdis p List.mem_cons_self) h)
    simpa using this

/-- **position-wise description of `_filter_with_dominance`** -/
theorem filterDom_desc (hyp : GHyp D P R H n opt B0 B) (cfg : Cfg S K) (hD : cfg.dom = some D) (store : DomStore S K)
    (layer : List (Node S)) (cur : List Nat) (k : Nat) (hcur : ∀ p ∈ cur, p < layer.length) (hnd : cur.Nodup)
    (hreach : ∀ m ∈ layer, m.isExact = true → (∃ p, Reach P m.depth m.state m.value p) ∧ m.depth = k)
    (hst : StoreReach D P store) :
    FdDesc (gpot D P n opt B) (opt - 1) k layer (filterDom cfg store layer cur).1 cur (filterDom cfg store layer cur).2.1 := by
  have hlen := (filterDom_weak' cfg store layer cur).1.length
  obtain ⟨hsub, hnd2⟩ := filterDom_sub cfg store layer cur
  have hmem : ∀ p, p ∈ fdSorted D layer cur ↔ p ∈ cur := fun p => Cover.mem_sortBy _ _ _
  have hinit : FdInv2 D P (gpot D P n opt B) (opt - 1) layer [] (layer, [], store, true) :=
    ⟨(fun p hp => by cases hp), (fun p _ => rfl), (fun p hp => by cases hp), hst⟩
  have h := fdFold_inv2 hyp layer (fun m hm he => (hreach m hm he).1) (fdSorted D layer cur) [] _
    (fun p hp => hcur p ((hmem p).mp hp)) (C12.nodup_sortBy _ _ hnd) (fun p _ hp => (by cases hp)) hinit
  rw [List.nil_append, ← filterDom_eq cfg D hD] at h
  refine ⟨hlen, hsub, hnd2 hnd, fun p hp => ?_, fun p hp hnp => ?_⟩
  · apply h.same p
    rcases hp with hp | hp
    · exact .inl hp
    · exact .inr (fun h' => hp ((hmem p).mp h'))
  · obtain ⟨m, thr, h1, h2, h3, h4, h5⟩ := h.drop p ((hmem p).mpr hp) hnp
    have hk := (hreach m (List.mem_of_getElem? h1) h3).2
    rw [hk] at h4 h5
    exact ⟨m, thr, h1, h2, h3, h4, h5⟩

end q

/-- **`FdSpecJoint` holds** -/
theorem fdSpecJoint : FdSpecJoint := by
  intro S K _ _ dv H B0 B opt n hM N lb p0 hroot dd var hS hMI hdepth hnv
  have hlt := nv_depth_lt hM.wf.nv hnv
  obtain ⟨g, keep, hl, hk, hndp, _, _⟩ := Theta.fcOf_desc (dv.kdcfg .relaxed N lb) dd
  have hcur : ∀ p ∈ (Theta.fcOf (dv.kdcfg .relaxed N lb) dd).2, p < (Theta.fcOf (dv.kdcfg .relaxed N lb) dd).1.length := by
    intro p hp
    obtain ⟨m, hm, _⟩ := (hk p).1 hp
    rw [hl, List.length_map]
    exact Cover.lt_of_getElem?_some hm
  have hnode : ∀ m ∈ (Theta.fcOf (dv.kdcfg .relaxed N lb) dd).1, m.isExact = true →
      (∃ p, Reach dv.sv.P m.depth m.state m.value p) ∧ m.depth = dd.depth := by
    intro m hm he
    obtain ⟨n00, h00, e00, d00, _⟩ := fcOf_node (dv.kdcfg .relaxed N lb) dd m hm
    obtain ⟨q, _, hr, hd, _⟩ := hMI.next n00 h00 (by rw [ess_isExact e00]; exact he)
    refine ⟨⟨p0 ++ q, ?_⟩, ?_⟩
    · rw [d00, ← e00.1, ← e00.2.1]; exact hr
    · rw [d00, hd, ← hdepth]
  exact filterDom_desc hM.ghyp (dv.kdcfg .relaxed N lb) rfl dd.store _ _ dd.depth hcur hndp hnode hS.store

/-- **the top-down obligation is a theorem** -/
theorem builtOkJoint : BuiltOkJoint := builtOkJoint_of_fd fdSpecJoint

end Ddo.C10d

#print axioms Ddo.C10d.fdSpecJoint
#print axioms Ddo.C10d.builtOkJoint
