/-! Prototype: one iteration of the sequential branch-and-bound preserves the coverage invariant,
    given exactly the diagram contracts of DESIGN §5.3 (potential form). -/
namespace Ddo.AbsSeq

abbrev EInt := Option Int
def ele (a : EInt) (b : Int) : Prop := match a with | none => True | some x => x ≤ b   -- a ≤ b

structure Sub where
  id : Nat
  ub : Int
  depth : Nat
deriving DecidableEq

structure DDOut where
  isExact   : Bool
  bestExact : Option Int
  cutset    : List Sub

structure St where
  fringe : List Sub
  lb     : Int

def upd (lb : Int) (o : Option Int) : Int :=
  match o with
  | some w => max lb w
  | none => lb

theorem upd_ge (lb : Int) (o : Option Int) : lb ≤ upd lb o := by
  cases o <;> simp [upd] <;> omega
theorem upd_ge_some (lb w : Int) : w ≤ upd lb (some w) := by
  simp [upd]; omega

/-- what `enqueue_cutset` pushes: the cut-set nodes whose own bound still beats the incumbent (since the repair of
    finding D14 the bound is **not** capped by the bound of the node just processed) -/
def keepCut (lb : Int) (cs : List Sub) : List Sub :=
  cs.filter (fun c => decide (c.ub > lb))

/-- **pre-fix** `enqueue_cutset(ub)`: every cut-set node capped by the bound of the processed node `N` first -/
def capCut (N : Sub) (lb : Int) (cs : List Sub) : List Sub :=
  (cs.map (fun c => { c with ub := min N.ub c.ub })).filter (fun c => decide (c.ub > lb))

/-- `process_one_node` after the pop of `N` (fringe already without `N`) -/
def step (rest : List Sub) (lb : Int) (N : Sub) (r x : DDOut) : St :=
  if N.ub ≤ lb then ⟨rest, lb⟩
  else
    let lb1 := upd lb r.bestExact
    if r.isExact then ⟨rest, lb1⟩
    else
      let lb2 := upd lb1 x.bestExact
      if x.isExact then ⟨rest, lb2⟩
      else ⟨rest ++ keepCut lb2 x.cutset, lb2⟩

section
variable (Phi : Nat → EInt) (opt : Int) (Ach : Int → Prop)

/-- exact reachable node: its potential is a genuine solution value, hence ≤ opt -/
def Good (c : Sub) : Prop := ∀ x, Phi c.id = some x → Ach x ∧ x ≤ opt

/-- both compilations: a reported exact value is achieved; an exact diagram finds the node's optimum if it beats lb -/
def CompileOk (N : Sub) (lb : Int) (o : DDOut) : Prop :=
  (∀ w, o.bestExact = some w → Ach w ∧ w ≤ opt) ∧
  (o.isExact = true → ∀ x, Phi N.id = some x → x > lb → o.bestExact = some x)

/-- cut-set contract of a non-exact relaxed diagram -/
def CutsetOk (N : Sub) (lb : Int) (o : DDOut) : Prop :=
  (∀ c ∈ o.cutset, Good Phi opt Ach c) ∧
  (∀ c ∈ o.cutset, ∀ x, Phi c.id = some x → x > lb → x ≤ c.ub) ∧
  (∀ x, Phi N.id = some x → x > lb → (∀ w, o.bestExact = some w → w < x) →
      ∃ c ∈ o.cutset, ∃ y, Phi c.id = some y ∧ x ≤ y)

structure Inv (fr : List Sub) (lb : Int) : Prop where
  good  : ∀ c ∈ fr, Good Phi opt Ach c
  lbOk  : lb ≤ opt
  cover : opt > lb → ∃ c ∈ fr, Phi c.id = some opt ∧ opt ≤ c.ub

theorem step_inv (rest : List Sub) (lb : Int) (N : Sub) (r x : DDOut)
    (hinv : Inv Phi opt Ach (N :: rest) lb)
    (hr : CompileOk Phi opt Ach N lb r)
    (hx : CompileOk Phi opt Ach N (upd lb r.bestExact) x)
    (hcut : x.isExact = false → CutsetOk Phi opt Ach N (upd lb r.bestExact) x) :
    Inv Phi opt Ach (step rest lb N r x).fringe (step rest lb N r x).lb := by
  have hgoodRest : ∀ c ∈ rest, Good Phi opt Ach c := fun c hc => hinv.good c (List.mem_cons_of_mem _ hc)
  have updOk : ∀ l (o : DDOut), l ≤ opt → (∀ w, o.bestExact = some w → Ach w ∧ w ≤ opt) → upd l o.bestExact ≤ opt := by
    intro l o hl ho
    cases hb : o.bestExact with
    | none => simpa [upd] using hl
    | some w => have := (ho w hb).2; simp [upd]; omega
  -- where can the cover witness be after `N` left the fringe?
  have coverRest : ∀ l, lb ≤ l → opt > l → (Phi N.id = some opt → opt ≤ N.ub → False) →
      ∃ c ∈ rest, Phi c.id = some opt ∧ opt ≤ c.ub := by
    intro l hl hgt hN
    obtain ⟨c, hc, h1, h2⟩ := hinv.cover (by omega)
    cases hc with
    | head => exact absurd h2 (fun h => hN h1 h)
    | tail _ h => exact ⟨c, h, h1, h2⟩
  unfold step
  split
  · next hub =>
    exact ⟨hgoodRest, hinv.lbOk, fun hgt => coverRest lb (Int.le_refl _) hgt (fun _ h => by dsimp only at hgt; omega)⟩
  · next hub =>
    have hlb1 := updOk lb r hinv.lbOk hr.1
    simp only []
    split
    · next hre =>
      refine ⟨hgoodRest, hlb1, fun hgt => coverRest _ (upd_ge _ _) hgt (fun hP _ => ?_)⟩
      have : opt > lb := Int.lt_of_le_of_lt (upd_ge lb r.bestExact) hgt
      have := hr.2 hre opt hP this
      rw [this] at hgt
      have := upd_ge_some lb opt
      dsimp only at hgt
      omega
    · next hre =>
      have hlb2 := updOk _ x hlb1 hx.1
      split
      · next hxe =>
        refine ⟨hgoodRest, hlb2, fun hgt => coverRest _ (Int.le_trans (upd_ge _ _) (upd_ge _ _)) hgt (fun hP _ => ?_)⟩
        have h1 : opt > upd lb r.bestExact := Int.lt_of_le_of_lt (upd_ge _ x.bestExact) hgt
        have := hx.2 hxe opt hP h1
        rw [this] at hgt
        have := upd_ge_some (upd lb r.bestExact) opt
        dsimp only at hgt
        omega
      · next hxe =>
        have hxe' : x.isExact = false := by simpa using hxe
        obtain ⟨hcg, hcub, hccov⟩ := hcut hxe'
        refine ⟨?_, hlb2, ?_⟩
        · intro c hc
          rcases List.mem_append.mp hc with hc | hc
          · exact hgoodRest c hc
          · simp only [keepCut, List.mem_filter] at hc
            exact hcg c hc.1
        · intro hgt
          dsimp only at hgt
          have h1 : opt > upd lb r.bestExact := Int.lt_of_le_of_lt (upd_ge _ x.bestExact) hgt
          obtain ⟨c, hc, hP, hU⟩ := hinv.cover (Int.lt_of_le_of_lt (upd_ge lb r.bestExact) h1)
          cases hc with
          | tail _ h => exact ⟨c, List.mem_append_left _ h, hP, hU⟩
          | head =>
            have hw : ∀ w, x.bestExact = some w → w < opt := by
              intro w hw
              have := upd_ge_some (upd lb r.bestExact) w
              rw [← hw] at this; omega
            obtain ⟨c, hc, y, hy, hxy⟩ := hccov opt hP h1 hw
            have hyo := (hcg c hc y hy).2
            have hyeq : y = opt := by omega
            subst hyeq
            have hcu := hcub c hc y hy h1
            refine ⟨c, List.mem_append_right _ ?_, hy, hcu⟩
            simp only [keepCut, List.mem_filter, decide_eq_true_eq]
            exact ⟨hc, by omega⟩
end
end Ddo.AbsSeq
