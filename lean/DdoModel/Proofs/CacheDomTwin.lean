import DdoModel.Proofs.CacheDomDefs
/-! # `Twin` — cache + dominance lose the optimum with a rule that is valid in every sense (finding **D16**, strongest form)

`Cross` (rule admissible for all values, protected strategy), `CrossSim` (simulation condition on exactly reached items) and
`Carrier` (the carrier of a potential is dropped by the checker) still leave room for "the rule was too weak".  Here it is not:
two states, `0` and `1`, have **identical transitions and costs at every depth** (they are bisimilar), and the rule says "`0` is at
least as good as `1`" — which is true.  The rule satisfies the simulation condition for **all** pairs of states and values
(`SimAll`, the condition `Props/C10c.lean` states; in particular `SimAdmissible`, `AdmissibleAll`, `UndomOpt`).  The relaxation
merges to the largest state (a valid relaxation: `WellFormed`), and the largest state happens to be the one the rule likes less.
The solver with cache and checker ends with `is_exact = true`, **`best_value = Some(5)`; the optimum is 10** — both fringes, both
cut-set kinds, forced pop order; each mechanism alone returns 10; the real library reproduces every number.

## the model (family `Ddo.C09.Layered`)

6 binary variables in static order, 5 states `0 … 4`, initial state `0`, value `0`.  Tables (`state: (next, cost) for decision 0 |
decision 1`; the rows of the states `0` and `1` are equal at every depth):

```
x0:  every state: (2,2)|(3,1)                                R=0 → A=2 (cost 2) | P=3 (cost 1)
x1:  0, 1, 2: (2,-2)|(2,-2)      3, 4: (3,-1)|(3,-1)          A=2 → a2=2 (cost -2);  P=3 → N=3 (cost -1)
x2:  0, 1, 2: (4,0)|(4,0)        3, 4: (2,1)|(3,0)            a2=2 → a3=4;  N=3 → pE=2 (cost 1) | pF=3
x3:  0, 1, 2: (0,-1)|(0,-1)      3: (1,-1)|(1,-1)   4: (1,0)|(1,0)     pE=2 → e=0 (cost -1);  pF=3 → s=1 (cost -1);  a3=4 → s=1
x4:  every state: (3,0)|(2,5)                                 e=0, s=1 → t5=3 | u5=2 (cost 5, the decoy)
x5:  0, 1, 2: (2,0)|(2,0)        3, 4: (2,10)|(2,0)           t5=3 earns 10;  u5=2 earns 0
```

Value-to-go by depth: 0: `10 ×5`; 1: `8,8,8,9,9`; 2: `10 ×5`; 3: `9,9,9,9,10`; 4: `10 ×5`; 5: `0,0,0,10,10`.  **Optimum 10**: through
`A` (`R, A, a2, a3, k2 = (s = 1, depth 4, value 0), t5`) and through `P` (`R, P, N, pE, E = (e = 0, depth 4, value 0), t5` and
`R, P, N, pF, (1, depth 4, value -1) …` is worth 9).  Relaxation: `merge` = largest state, `relax` = identity,
`fast_upper_bound` = 30; ranking: larger state better; `FixedWidth(1)`.

**The rule**: key `0` for the states `0` and `1`, none for the others; one coordinate: `1` for state `0`, `0` for state `1`; the value is
used: `(0, v)` dominates `(1, v')` whenever `v ≥ v'`.

## the run (four turns, every configuration; the pop order is forced: no ties)

```
turn 1  pop R.  Restricted: A, a2, a3, k2 = (1, depth 4, 0) — recorded by the checker —, then the decoy u5: 5.  Incumbent 5.
        Relaxed: cut-set {A = (2, value 2, ub 15), P = (3, value 1, ub 15)}.
turn 2  pop A (value 2 > 1).  Relaxed: exact chain a2, a3, k2; the depth-5 layer {t5, u5} is merged; cut-set {k2}: k2 is enqueued
        (ub 15) and the threshold (1, depth 4) ↦ (0, **unexplored**) is recorded: "whoever reaches state 1 at depth 4 with a value ≤ 0
        may stop: k2 is open and will do the work".   fringe [k2 = (1, 0, 15, 4), P = (3, 1, 15, 1)].
turn 3  pop P (value 1 > 0).  Restricted (width 1): N, keeps pE (value 1 > 0), then E = (0, depth 4, value 0): the checker evicts the
        entry k2 = (1, 0) — E dominates it — and records E; then the decoy: 5.  Relaxed: {pE (value 1), pF (value 0)} are merged into
        M = (state 3, value 1, inexact); the only child of M is (**state 1**, depth 4, value 0), inexact — the image of E, whose state 0
        was merged away — and `_filter_with_cache` prunes it with the threshold of turn 2.  Empty layer, no terminal node,
        `is_exact() = true`, nothing enqueued: the cut-set node N, which leads to E, is gone.   fringe [k2].
turn 4  pop k2: `must_explore` accepts it (0 = threshold, unexplored); `_filter_with_dominance` drops the **root** of its diagram:
        dominated by the entry E of turn 3.  "E is at least as good: whoever explored E did the work."
        fringe [], incumbent 5: `is_exact = true`, `best_value = Some(5)`.
```

**Mechanism: a cycle of deferrals.**  The cache defers the relaxed image of `E` to the open node `k2` (sound for the cache alone:
`k2` is explored later); the checker defers `k2` to `E` (sound for the checker alone: `E`'s sub-tree is covered by the cut-set
node `N` of the diagram that recorded it — which the relaxed compilation of the same turn enqueues, unless something prunes
below it); the pruning below `N` is the first deferral.  Each invariant — C09's "an open sub-problem carries the potential",
C10's "a protected / simulating item is never dropped" — holds of its own mechanism and is broken by the other.  The state the
relaxation produces (`1`, reached through the merged `pF`) is dominated by an exact state (`0`) it stands for: the merge
operator is a valid relaxation but not *maximal for the rule*.

Replay on the real library (crate `/tmp/agent_cachedom/rs`, binary `twin`): `Some(5)` with cache + checker (sequential LEL /
frontier, both fringes, parallel with one thread, `DefaultCachingSolver`), `Some(10)` with either mechanism alone. -/
set_option linter.unusedSectionVars false
set_option linter.unusedVariables false
namespace Ddo.C10c.Twin
open Ddo Ddo.C01 Ddo.Closed Ddo.C09 Ddo.C10 Ddo.C10c Ddo.C09.Layered

def T : Tab :=
  { n := 6, m := 5,
    --      s0      s1      s2      s3      s4
    trl := [2,3,    2,3,    2,3,    2,3,    2,3,
            2,2,    2,2,    2,2,    3,3,    3,3,
            4,4,    4,4,    4,4,    2,3,    2,3,
            0,0,    0,0,    0,0,    1,1,    1,1,
            3,2,    3,2,    3,2,    3,2,    3,2,
            2,2,    2,2,    2,2,    2,2,    2,2],
    cl :=  [2,1,    2,1,    2,1,    2,1,    2,1,
            -2,-2,  -2,-2,  -2,-2,  -1,-1,  -1,-1,
            0,0,    0,0,    0,0,    1,0,    1,0,
            -1,-1,  -1,-1,  -1,-1,  -1,-1,  0,0,
            0,5,    0,5,    0,5,    0,5,    0,5,
            0,0,    0,0,    0,0,    10,0,   10,0],
    rub := 30 }

/-- `FixedWidth(1)` -/
def ws : List Nat := List.replicate 35 1

/-- states 0 and 1 are comparable, 0 is the better one; the value is used -/
def rule : DomRule Int Int :=
  { key := fun s => if s = 0 ∨ s = 1 then some 0 else none, dims := fun _ => 1,
    coord := fun s _ => if s = 0 then 1 else 0, useValue := true }

def sv (dedup : Bool) (kind : CutsetKind) : SolverCfg Int := Layered.sv T ws dedup kind
def dv (dedup : Bool) (kind : CutsetKind) : DSolverCfg Int Int := ⟨sv dedup kind, rule⟩

theorem checked : check T 10 = true := by decide

theorem wellFormed (dedup : Bool) (kind : CutsetKind) : WellFormed (dv dedup kind).sv (H T) 10 80 :=
  wellFormed_ofTables T 10 80 ws dedup kind checked (by decide) (by decide)

theorem opt10 : (H T 0 (prob T).init).addI (prob T).initVal = some 10 := by decide

theorem staticOrder : StaticOrder (prob T) := fun _ _ _ _ _ => rfl

/-! ## the rule: the states 0 and 1 are twins -/

/-- **the states `0` and `1` have the same transitions and the same costs at every depth** -/
theorem twins : ∀ k ∈ List.range 6, ∀ b ∈ [false, true], tr T k 0 b = tr T k 1 b ∧ c T k 0 b = c T k 1 b := by decide

theorem key_some {s : Int} {k : Int} (h : rule.key s = some k) : s = 0 ∨ s = 1 := by
  simp only [rule] at h
  split at h
  · next hc => exact hc
  · cases h

theorem twin_trans {x : Nat} (hx : x < 6) (d : Int) {a b : Int} (ha : a = 0 ∨ a = 1) (hb : b = 0 ∨ b = 1) :
    (prob T).trans a ⟨x, d⟩ = (prob T).trans b ⟨x, d⟩ ∧
    (prob T).cost a ((prob T).trans a ⟨x, d⟩) ⟨x, d⟩ = (prob T).cost b ((prob T).trans b ⟨x, d⟩) ⟨x, d⟩ := by
  have h := twins x (List.mem_range.mpr hx) (decide (d = 1)) (by cases decide (d = 1) <;> simp)
  have e0 : st T 0 = 0 := by decide
  have e1 : st T 1 = 1 := by decide
  show (((tr T x (st T a) (decide (d = 1)) : Nat) : Int) = ((tr T x (st T b) (decide (d = 1)) : Nat) : Int)) ∧
    c T x (st T a) (decide (d = 1)) = c T x (st T b) (decide (d = 1))
  rcases ha with rfl | rfl <;> rcases hb with rfl | rfl <;> simp only [e0, e1, h.1, h.2, and_self]

/-- with the value in use, "at least as good" includes the value -/
theorem geItem_value {a va b vb : Int} (h : GeItem rule 1 a va b vb) : vb ≤ va := by
  have := h.ge
  have hu : rule.useValue = true := rfl
  rw [hu] at this
  simp only [geEnt, Bool.not_true, Bool.false_or, Bool.and_eq_true, decide_eq_true_eq] at this
  exact this.2

/-- **the simulation step for all pairs of states and values** (not only exactly reached ones): whenever `(a, va)` is at least as good
    as `(b, vb)`, the *same* decision in `a` leads to a child at least as good as `b`'s — to the same state, in fact -/
theorem sim_step (d : Nat) (a va b vb : Int) (L : List Int) (x : Nat) (hge : GeItem rule 1 a va b vb)
    (hnv : (prob T).nextVar d L = some x) (db : Int) (hdb : db ∈ (prob T).domain x b) :
    ∃ da ∈ (prob T).domain x a,
      GeItem rule 1 ((prob T).trans a ⟨x, da⟩) (va + (prob T).cost a ((prob T).trans a ⟨x, da⟩) ⟨x, da⟩)
        ((prob T).trans b ⟨x, db⟩) (vb + (prob T).cost b ((prob T).trans b ⟨x, db⟩) ⟨x, db⟩) := by
  obtain ⟨hk, hx⟩ := nv_some hnv
  have hx6 : x < 6 := by rw [hx]; exact hk
  have hv := geItem_value hge
  refine ⟨db, hdb, ?_⟩
  rcases hge with ⟨rfl, _⟩ | ⟨⟨k, hka, hkb⟩, _⟩
  · exact Or.inl ⟨rfl, by omega⟩
  · obtain ⟨e1, e2⟩ := twin_trans hx6 db (key_some hka) (key_some hkb)
    exact Or.inl ⟨e1, by rw [e2]; omega⟩

/-- hence the simulation condition of `Proofs/DomSim.lean` … -/
theorem simAdmissible : SimAdmissible rule (prob T) 1 :=
  ⟨fun d a va b vb _ _ L x _ _ hge hnv _ db hdb => sim_step d a va b vb L x hge hnv db hdb,
   fun _ a va b vb _ _ _ _ _ hge _ _ => geItem_value hge⟩

/-- … a protected optimal strategy … -/
theorem undomOpt : UndomOpt rule (prob T) (H T) 10 :=
  undomOpt_of_sim rule (prob T) (H T) 1 10 (fun _ => rfl) (potential T) (nvBound T) staticOrder simAdmissible opt10

/-- the twins have the same value-to-go at every depth -/
theorem hfrom_twins : ∀ j ∈ List.range 7, hfrom T j 0 = hfrom T j 1 := by decide

/-- … and admissibility in the potential form for **all** pairs of values -/
theorem admissibleAll : AdmissibleAll rule (H T) := by
  intro d a va b vb ⟨⟨k, hka, hkb⟩, hdom⟩
  have hv : vb ≤ va := by
    have hu : rule.useValue = true := rfl
    have hd : rule.dims b = 1 := rfl
    rw [hu, hd] at hdom
    simp only [domEnt, geEnt, Bool.not_true, Bool.false_or, Bool.and_eq_true, decide_eq_true_eq] at hdom
    exact hdom.1.2
  have hH : H T d b = H T d a := by
    have h := hfrom_twins (T.n - d) (List.mem_range.mpr (by show 6 - d < 7; omega))
    have e0 : st T 0 = 0 := by decide
    have e1 : st T 1 = 1 := by decide
    show some (hfrom T (T.n - d) (st T b)) = some (hfrom T (T.n - d) (st T a))
    rcases key_some hka with rfl | rfl <;> rcases key_some hkb with rfl | rfl <;> simp only [e0, e1, h]
  rw [hH]
  cases hHa : H T d a with
  | none => exact EInt.none_le _
  | some z => show z + vb ≤ z + va; omega

/-! ## the runs -/

def after (dedup : Bool) (kind : CutsetKind) (j : Nat) : KDSt Int Int :=
  (dv dedup kind).kdsolveLoop j (KDSt.init (dv dedup kind))

def viewKD (s : KDSt Int Int) : List (Int × Int × Int × Nat) × Int :=
  (s.st.fringe.map (fun c => (c.state, c.value, c.ub, c.depth)), s.st.bestLb)
def cacheAtKD (s : KDSt Int Int) (d : Nat) : List (Int × Int × Bool) :=
  (s.cache.layers.getD d []).map (fun e => (e.1, e.2.value, e.2.explored))
/-- the cache the compilations of the next turn consult (after the cache-cleaning loop of `get_workload`) -/
def cacheIn (s : KDSt Int Int) : Cache Int :=
  (cleanCache T.n s.st.openByLayer T.n s.st.firstActive s.cache).getD s.cache
/-- the checker as the restricted compilation of `N` leaves it -/
def storeR (s : KDSt Int Int) (N : SubP Int) : DomStore Int Int :=
  ((dv false .lel).kdcompR (cacheIn s) s.store N s.st.bestLb).2.2.2.store
def storeAt (s : KDSt Int Int) (d : Nat) : List (Int × List (Int × Int)) := s.store.layers.getD d []
def cachePruned (dd : DD Int Int) : List (Int × Int × Nat × Bool) :=
  (dd.layers.flatMap id).filterMap (fun n => if n.cache then some (n.state, n.value, n.depth, n.isExact) else none)

set_option maxRecDepth 100000 in
/-- **cache + dominance: four turns, empty fringe, `is_exact = true`, `best_value = Some(5)`**; the optimum is 10 — both fringes, both
    cut-set kinds, nothing panics -/
theorem joint_value : ∀ dedup ∈ [false, true], ∀ kind ∈ [CutsetKind.lel, CutsetKind.frontier],
    (after dedup kind 8).st.fringe.length = 0 ∧ (after dedup kind 8).st.completion = (true, some 5) ∧
    (after dedup kind 8).st.explored = 4 ∧ (after dedup kind 8).st.crashed = false := by decide

set_option maxRecDepth 100000 in
/-- the checker alone: the optimum -/
theorem dom_only : ∀ dedup ∈ [false, true], ∀ kind ∈ [CutsetKind.lel, CutsetKind.frontier],
    ((dv dedup kind).solveLoop 16 (dv dedup kind).init).st.fringe.length = 0 ∧
    ((dv dedup kind).solveLoop 16 (dv dedup kind).init).st.completion = (true, some 10) := by decide

set_option maxRecDepth 100000 in
/-- the cache alone: the optimum -/
theorem cache_only : ∀ dedup ∈ [false, true], ∀ kind ∈ [CutsetKind.lel, CutsetKind.frontier],
    ((sv dedup kind).ksolveLoop 16 (KSt.init (sv dedup kind))).st.fringe.length = 0 ∧
    ((sv dedup kind).ksolveLoop 16 (KSt.init (sv dedup kind))).st.completion = (true, some 10) := by decide

/-! ### turn by turn (plain fringe, last-exact-layer cut-set) -/

set_option maxRecDepth 100000 in
/-- after turn 1: incumbent 5; `A` (value 2) and `P` (value 1) open with the same bound: `A` is the only best-first choice; the checker
    holds `k2 = (1, value 0)` at depth 4 -/
theorem stage1 : viewKD (after false .lel 1) = ([(3, 1, 15, 1), (2, 2, 15, 1)], 5) ∧
    storeAt (after false .lel 1) 4 = [(0, [(1, 0)])] := by decide

set_option maxRecDepth 100000 in
/-- after turn 2 (`A`): `k2 = (1, value 0, ub 15, depth 4)` and `P` are open, `P` is the only best-first choice (same bound, larger
    value); the cache holds `(1, depth 4) ↦ (0, unexplored)` — justified by the open `k2` -/
theorem stage2 : viewKD (after false .lel 2) = ([(1, 0, 15, 4), (3, 1, 15, 1)], 5) ∧
    cacheAtKD (after false .lel 2) 4 = [(1, 0, false)] ∧ storeAt (after false .lel 2) 4 = [(0, [(1, 0)])] := by decide

set_option maxRecDepth 100000 in
/-- turn 3 pops `P`: its restricted compilation reaches `E = (0, depth 4, 0)`, which replaces `k2` in the checker; its relaxed compilation
    loses the **inexact** node `(1, depth 4, value 0)` — the image of `E` — to the cache, has no terminal node, reports
    `is_exact = true` and an empty cut-set; no `dominated` verdict in either -/
theorem stage3 :
    ((dv false .lel).kdcompR (cacheIn (after false .lel 2)) (after false .lel 2).store ⟨3, 1, [⟨0, 1⟩], 15, 1⟩ 5).2.1.bestValue = some 5 ∧
    ((dv false .lel).kdcompR (cacheIn (after false .lel 2)) (after false .lel 2).store ⟨3, 1, [⟨0, 1⟩], 15, 1⟩ 5).2.2.2.ndom = 0 ∧
    (storeR (after false .lel 2) ⟨3, 1, [⟨0, 1⟩], 15, 1⟩).layers.getD 4 [] = [(0, [(0, 0)])] ∧
    cachePruned ((dv false .lel).kdcompX (cacheIn (after false .lel 2)) (storeR (after false .lel 2) ⟨3, 1, [⟨0, 1⟩], 15, 1⟩)
      ⟨3, 1, [⟨0, 1⟩], 15, 1⟩ 5).2.2.2 = [(1, 0, 4, false)] ∧
    ((dv false .lel).kdcompX (cacheIn (after false .lel 2)) (storeR (after false .lel 2) ⟨3, 1, [⟨0, 1⟩], 15, 1⟩)
      ⟨3, 1, [⟨0, 1⟩], 15, 1⟩ 5).2.1.bestValue = none ∧
    ((dv false .lel).kdcompX (cacheIn (after false .lel 2)) (storeR (after false .lel 2) ⟨3, 1, [⟨0, 1⟩], 15, 1⟩)
      ⟨3, 1, [⟨0, 1⟩], 15, 1⟩ 5).2.1.isExact = true ∧
    ((dv false .lel).kdcompX (cacheIn (after false .lel 2)) (storeR (after false .lel 2) ⟨3, 1, [⟨0, 1⟩], 15, 1⟩)
      ⟨3, 1, [⟨0, 1⟩], 15, 1⟩ 5).2.1.cutset.length = 0 ∧
    ((dv false .lel).kdcompX (cacheIn (after false .lel 2)) (storeR (after false .lel 2) ⟨3, 1, [⟨0, 1⟩], 15, 1⟩)
      ⟨3, 1, [⟨0, 1⟩], 15, 1⟩ 5).2.2.2.ndom = 0 := by decide

set_option maxRecDepth 100000 in
/-- after turn 3 only `k2` is open; the checker holds `E = (0, value 0)` at depth 4 -/
theorem stage3b : viewKD (after false .lel 3) = ([(1, 0, 15, 4)], 5) ∧ storeAt (after false .lel 3) 4 = [(0, [(0, 0)])] := by decide

set_option maxRecDepth 100000 in
/-- turn 4 pops `k2`: `must_explore` accepts it, the checker drops the root of its diagram (one `dominated` verdict, exact, no value) -/
theorem stage4 : (cacheIn (after false .lel 3)).mustExplore 1 4 0 = some true ∧
    ((dv false .lel).kdcompR (cacheIn (after false .lel 3)) (after false .lel 3).store ⟨1, 0, [⟨0, 0⟩, ⟨1, 1⟩, ⟨2, 1⟩, ⟨3, 1⟩], 15, 4⟩ 5).2.2.2.ndom = 1 ∧
    ((dv false .lel).kdcompR (cacheIn (after false .lel 3)) (after false .lel 3).store ⟨1, 0, [⟨0, 0⟩, ⟨1, 1⟩, ⟨2, 1⟩, ⟨3, 1⟩], 15, 4⟩ 5).2.1.isExact = true ∧
    ((dv false .lel).kdcompR (cacheIn (after false .lel 3)) (after false .lel 3).store ⟨1, 0, [⟨0, 0⟩, ⟨1, 1⟩, ⟨2, 1⟩, ⟨3, 1⟩], 15, 4⟩ 5).2.1.bestValue = none := by
  decide

set_option maxRecDepth 100000 in
theorem stage_end : viewKD (after false .lel 4) = ([], 5) := by decide

end Ddo.C10c.Twin
