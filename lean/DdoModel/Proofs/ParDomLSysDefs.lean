import DdoModel.Proofs.ParDomInst
/-! # The parallel solver with the shared dominance checker — compilations that interleave LAYER BY LAYER on the shared store

`LSys`: the shared `Critical` record and the workers (`ParSys.Sys`), **the shared store**, and per worker the diagram its current
compilation has built so far.  `LStep`:
* `sec`: a critical section of `ParSys` (they do not touch the checker);
* `layer`: ONE iteration of the `while let Some(var) = next_variable(..)` loop of the compilation of worker `i`: the
  `_filter_with_dominance` of that layer runs on **the shared store as it is now** (whatever the other workers — and this worker
  in its previous layers — did to it) and leaves it updated; then restrict / relax, expansion;
* `finish`: the loop of worker `i` ends (no next variable, or the layer is empty); the worker goes on with the answer of
  `finalize` (`resultOf`).
Between two `layer` steps of a worker any number of steps of the other workers take place. -/
set_option linter.unusedSectionVars false
set_option linter.unusedVariables false
namespace Ddo.ParDom
open Ddo Ddo.Truth Ddo.Closed Ddo.ParSys Ddo.ParClosed Ddo.C10
open Ddo.C01 (SolverCfg WellFormed toOut SolOf)
variable {S K : Type} [DecidableEq S] [DecidableEq K]

/-- the `CompilationInput` of the compilation a worker is in -/
def cfgOf (dv : DSolverCfg S K) : WSt S → Option (Cfg S K)
  | .compR n lb => some (dv.cfg .restricted n lb)
  | .compX n lb => some (dv.cfg .relaxed n lb)
  | _ => none

/-- where the answer `o` of its compilation sends the worker -/
def afterComp (o : DDOut S) : WSt S → WSt S
  | .compR n lb => .updR n lb o
  | .compX n lb => .updX n lb o
  | w => w

structure LSys (S K : Type) where
  sys : Sys S
  store : DomStore S K
  prog : List (Option (DD S K))

def LSys.init (dv : DSolverCfg S K) (U : Nat) : LSys S K :=
  ⟨Sys.init dv.sv.P none dv.sv.dedup U, DomStore.init dv.sv.P.nbVars, List.replicate U none⟩

/-- the diagram under construction (`none`: the compilation has not started: `initDD`; its `store` field is never read, every
    layer takes the shared store) -/
def ddOf (dv : DSolverCfg S K) (cfg : Cfg S K) (pr : Option (DD S K)) : DD S K :=
  pr.getD (initDD cfg (Cache.init dv.sv.P.nbVars) (DomStore.init dv.sv.P.nbVars) 0)

/-- the loop of the compilation ends at `dd` (the shared store being `st`) with the diagram `fin` -/
def LoopEnd (cfg : Cfg S K) (st : DomStore S K) (dd fin : DD S K) : Prop :=
  (cfg.P.nextVar dd.depth (dd.next.map (·.state)) = none ∧
    fin = { dd with log := Call.nextVar dd.depth (dd.next.map (·.state)) none :: dd.log }) ∨
  (∃ var, cfg.P.nextVar dd.depth (dd.next.map (·.state)) = some var ∧
    stepLayer cfg (tick (withStore dd st) var) var = (some fin, .cutoff))

inductive LStep (dv : DSolverCfg S K) : LSys S K → LSys S K → Prop
  | sec (s : LSys S K) (t : Sys S)
      (h : Step dv.sv.dedup (fun _ _ _ => False) (fun _ _ _ => False) s.sys t) (hna : NoAbortS t) :
      LStep dv s ⟨t, s.store, s.prog⟩
  | layer (s : LSys S K) (i : Nat) (w : WSt S) (cfg : Cfg S K) (pr : Option (DD S K)) (var : Nat) (dd' : DD S K)
      (hw : s.sys.ws[i]? = some w) (hc : cfgOf dv w = some cfg) (hp : s.prog[i]? = some pr)
      (hnv : cfg.P.nextVar (ddOf dv cfg pr).depth ((ddOf dv cfg pr).next.map (·.state)) = some var)
      (hst : stepLayer cfg (tick (withStore (ddOf dv cfg pr) s.store) var) var = (some dd', .ok)) :
      LStep dv s ⟨s.sys, dd'.store, s.prog.set i (some dd')⟩
  | finish (s : LSys S K) (i : Nat) (w : WSt S) (cfg : Cfg S K) (pr : Option (DD S K)) (fin : DD S K)
      (hw : s.sys.ws[i]? = some w) (hc : cfgOf dv w = some cfg) (hp : s.prog[i]? = some pr)
      (hfin : LoopEnd cfg s.store (ddOf dv cfg pr) fin) :
      LStep dv s ⟨{ crit := s.sys.crit, ws := s.sys.ws.set i (afterComp (toOut (resultOf cfg fin)) w) }, s.store,
        s.prog.set i none⟩

inductive LRun (dv : DSolverCfg S K) : LSys S K → LSys S K → Prop
  | refl (s : LSys S K) : LRun dv s s
  | tail {s t u : LSys S K} : LRun dv s t → LStep dv t u → LRun dv s u

end Ddo.ParDom
