import DdoModel.Proofs.AbsSeq
/-! Prototype: data-level coverage invariant of the parallel solver (C03), as a transition system
    whose steps are the critical sections of `parallel.rs` and the lock-free compilations.
    Reuses the contracts of `Seq.lean`.  No cache, no dominance, no cutoff. -/
namespace Ddo.ParCover
open Ddo.AbsSeq

/-- what a worker knows about the node it holds -/
inductive Stage
  | got                                  -- popped, nothing read yet
  | readR (lb0 : Int)                    -- best_lb read before the restricted compilation
  | doneR (lb0 : Int) (r : DDOut)        -- restricted compilation finished (best not yet updated)
  | mid                                  -- restricted not exact, best updated
  | readX (lb1 : Int)
  | doneX (lb1 : Int) (x : DDOut)        -- relaxed compilation finished (best not yet updated)
  | updX (lb1 : Int) (x : DDOut)         -- best updated with the relaxed diagram, cut-set not yet enqueued

structure PSt where
  fringe : List Sub
  held   : List (Sub × Stage)
  lb     : Int

section
variable (Phi : Nat → EInt) (opt : Int) (Ach : Int → Prop)

/-- one step; `pre ++ (N, st) :: post` is the held list with the acting worker's entry singled out -/
inductive Step : PSt → PSt → Prop
  | pop (s : PSt) (N : Sub) (a b : List Sub) : s.fringe = a ++ N :: b →
      Step s ⟨a ++ b, (N, .got) :: s.held, s.lb⟩
  /-- the popped node is the fringe maximum and its ub is not above lb: drop everything -/
  | clear (s : PSt) (N : Sub) : N ∈ s.fringe → (∀ c ∈ s.fringe, c.ub ≤ N.ub) → N.ub ≤ s.lb →
      Step s ⟨[], s.held, s.lb⟩
  | readR (s : PSt) (N : Sub) (pre post) : s.held = pre ++ (N, .got) :: post →
      Step s ⟨s.fringe, pre ++ (N, if N.ub ≤ s.lb then .got else .readR s.lb) :: post, s.lb⟩
  /-- node not worth processing: finished without compiling -/
  | skip (s : PSt) (N : Sub) (pre post) : s.held = pre ++ (N, .got) :: post → N.ub ≤ s.lb →
      Step s ⟨s.fringe, pre ++ post, s.lb⟩
  | compileR (s : PSt) (N : Sub) (lb0 : Int) (r : DDOut) (pre post) : s.held = pre ++ (N, .readR lb0) :: post →
      CompileOk Phi opt Ach N lb0 r →
      Step s ⟨s.fringe, pre ++ (N, .doneR lb0 r) :: post, s.lb⟩
  | updateR (s : PSt) (N : Sub) (lb0 : Int) (r : DDOut) (pre post) : s.held = pre ++ (N, .doneR lb0 r) :: post →
      Step s ⟨s.fringe, if r.isExact then pre ++ post else pre ++ (N, .mid) :: post, upd s.lb r.bestExact⟩
  | readX (s : PSt) (N : Sub) (pre post) : s.held = pre ++ (N, .mid) :: post →
      Step s ⟨s.fringe, pre ++ (N, .readX s.lb) :: post, s.lb⟩
  | compileX (s : PSt) (N : Sub) (lb1 : Int) (x : DDOut) (pre post) : s.held = pre ++ (N, .readX lb1) :: post →
      CompileOk Phi opt Ach N lb1 x → (x.isExact = false → CutsetOk Phi opt Ach N lb1 x) →
      Step s ⟨s.fringe, pre ++ (N, .doneX lb1 x) :: post, s.lb⟩
  | updateX (s : PSt) (N : Sub) (lb1 : Int) (x : DDOut) (pre post) : s.held = pre ++ (N, .doneX lb1 x) :: post →
      Step s ⟨s.fringe, if x.isExact then pre ++ post else pre ++ (N, .updX lb1 x) :: post, upd s.lb x.bestExact⟩
  | enqueue (s : PSt) (N : Sub) (lb1 : Int) (x : DDOut) (pre post) : s.held = pre ++ (N, .updX lb1 x) :: post →
      Step s ⟨s.fringe ++ keepCut s.lb x.cutset, pre ++ post, s.lb⟩

/-- what is known about a held entry -/
def StageOk (lb : Int) : Sub × Stage → Prop
  | (_, .got) => True
  | (N, .readR lb0) => lb0 ≤ lb ∧ N.ub > lb0
  | (N, .doneR lb0 r) => lb0 ≤ lb ∧ CompileOk Phi opt Ach N lb0 r
  | (_, .mid) => True
  | (_, .readX lb1) => lb1 ≤ lb
  | (N, .doneX lb1 x) => lb1 ≤ lb ∧ CompileOk Phi opt Ach N lb1 x ∧ (x.isExact = false → CutsetOk Phi opt Ach N lb1 x)
  | (N, .updX lb1 x) => lb1 ≤ lb ∧ x.isExact = false ∧ CutsetOk Phi opt Ach N lb1 x ∧
      (∀ w, x.bestExact = some w → w ≤ lb)

structure PInv (s : PSt) : Prop where
  goodF : ∀ c ∈ s.fringe, Good Phi opt Ach c
  goodH : ∀ e ∈ s.held, Good Phi opt Ach e.1
  stage : ∀ e ∈ s.held, StageOk Phi opt Ach s.lb e
  lbOk  : s.lb ≤ opt
  cover : opt > s.lb → ∃ c, (c ∈ s.fringe ∨ ∃ st, (c, st) ∈ s.held) ∧ Phi c.id = some opt ∧ opt ≤ c.ub

theorem stageOk_mono (lb lb' : Int) (h : lb ≤ lb') (e : Sub × Stage)
    (he : StageOk Phi opt Ach lb e) : StageOk Phi opt Ach lb' e := by
  obtain ⟨N, st⟩ := e
  cases st <;> simp only [StageOk] at he ⊢
  · exact ⟨by omega, he.2⟩
  · exact ⟨by omega, he.2⟩
  · omega
  · exact ⟨by omega, he.2⟩
  · exact ⟨by omega, he.2.1, he.2.2.1, fun w hw => by have := he.2.2.2 w hw; omega⟩

theorem upd_le_opt (lb : Int) (o : Option Int) (hl : lb ≤ opt) (ho : ∀ w, o = some w → w ≤ opt) :
    upd lb o ≤ opt := by
  cases o with
  | none => simpa [upd] using hl
  | some w => have := ho w rfl; simp [upd]; omega

theorem mem_self_split {α : Type} {l pre post : List α} {x : α} (h : l = pre ++ x :: post) : x ∈ l := by
  subst h; simp

theorem forall_replace {α : Type} {P : α → Prop} {l pre post : List α} {x x' : α}
    (hl : l = pre ++ x :: post) (h : ∀ e ∈ l, P e) (hx : P x') : ∀ e ∈ pre ++ x' :: post, P e := by
  subst hl
  intro e he
  simp only [List.mem_append, List.mem_cons] at he h
  rcases he with he | rfl | he
  · exact h e (Or.inl he)
  · exact hx
  · exact h e (Or.inr (Or.inr he))

theorem forall_remove {α : Type} {P : α → Prop} {l pre post : List α} {x : α}
    (hl : l = pre ++ x :: post) (h : ∀ e ∈ l, P e) : ∀ e ∈ pre ++ post, P e := by
  subst hl
  intro e he
  simp only [List.mem_append, List.mem_cons] at he h
  rcases he with he | he
  · exact h e (Or.inl he)
  · exact h e (Or.inr (Or.inr he))

theorem forall_weaken {α : Type} {P Q : α → Prop} {l : List α} (h : ∀ e ∈ l, P e) (hpq : ∀ e, P e → Q e) :
    ∀ e ∈ l, Q e := fun e he => hpq e (h e he)

/-- a held node stays held when the acting entry only changes its stage -/
theorem held_replace {l pre post : List (Sub × Stage)} {N c : Sub} {s0 st : Stage} (s1 : Stage)
    (hl : l = pre ++ (N, s0) :: post) (hc : (c, st) ∈ l) : ∃ st', (c, st') ∈ pre ++ (N, s1) :: post := by
  subst hl
  simp only [List.mem_append, List.mem_cons] at hc
  rcases hc with hc | hc | hc
  · exact ⟨st, by simp [hc]⟩
  · injection hc with h1 _; subst h1; exact ⟨s1, by simp⟩
  · exact ⟨st, by simp [hc]⟩

/-- when the acting entry leaves, a held node is the acting one or stays held -/
theorem held_remove {l pre post : List (Sub × Stage)} {N c : Sub} {s0 st : Stage}
    (hl : l = pre ++ (N, s0) :: post) (hc : (c, st) ∈ l) : c = N ∨ ∃ st', (c, st') ∈ pre ++ post := by
  subst hl
  simp only [List.mem_append, List.mem_cons] at hc
  rcases hc with hc | hc | hc
  · exact Or.inr ⟨st, by simp [hc]⟩
  · injection hc with h1 _; exact Or.inl h1
  · exact Or.inr ⟨st, by simp [hc]⟩

theorem mem_split {α : Type} {l pre post : List α} {x y : α} (h : l = pre ++ x :: post) (hy : y ∈ l) :
    y = x ∨ y ∈ pre ++ post := by
  subst h
  simp only [List.mem_append, List.mem_cons] at hy ⊢
  rcases hy with h | h | h
  · exact Or.inr (Or.inl h)
  · exact Or.inl h
  · exact Or.inr (Or.inr h)

theorem mem_of_split {α : Type} {l pre post : List α} {x y : α} (h : l = pre ++ x :: post) (hy : y ∈ pre ++ post) :
    y ∈ l := by
  subst h
  simp only [List.mem_append, List.mem_cons] at hy ⊢
  rcases hy with h | h
  · exact Or.inl h
  · exact Or.inr (Or.inr h)

/-- the cover witness survives a step that keeps the fringe, keeps `lb`, and only restages an entry -/
theorem cover_restage {fr : List Sub} {l pre post : List (Sub × Stage)} {N : Sub} {s0 : Stage} (s1 : Stage) {lb : Int}
    (hl : l = pre ++ (N, s0) :: post)
    (hcov : opt > lb → ∃ c, (c ∈ fr ∨ ∃ st, (c, st) ∈ l) ∧ Phi c.id = some opt ∧ opt ≤ c.ub) :
    opt > lb → ∃ c, (c ∈ fr ∨ ∃ st, (c, st) ∈ pre ++ (N, s1) :: post) ∧ Phi c.id = some opt ∧ opt ≤ c.ub := by
  intro hgt
  obtain ⟨c, hc, h1, h2⟩ := hcov hgt
  rcases hc with hc | ⟨st, hc⟩
  · exact ⟨c, Or.inl hc, h1, h2⟩
  · exact ⟨c, Or.inr (held_replace s1 hl hc), h1, h2⟩

theorem step_inv {s t : PSt} (h : Step Phi opt Ach s t) (hi : PInv Phi opt Ach s) : PInv Phi opt Ach t := by
  obtain ⟨hgF, hgH, hst, hlb, hcov⟩ := hi
  cases h with
  | pop N a b hf =>
    refine ⟨fun c hc => hgF c (mem_of_split hf hc), ?_, ?_, hlb, ?_⟩
    · intro e he
      cases he with
      | head => exact hgF N (mem_self_split hf)
      | tail _ he => exact hgH e he
    · intro e he
      cases he with
      | head => simp [StageOk]
      | tail _ he => exact hst e he
    · intro hgt
      obtain ⟨c, hc, h1, h2⟩ := hcov hgt
      rcases hc with hc | ⟨st, hc⟩
      · rcases mem_split hf hc with rfl | hc
        · exact ⟨c, Or.inr ⟨.got, List.mem_cons_self⟩, h1, h2⟩
        · exact ⟨c, Or.inl hc, h1, h2⟩
      · exact ⟨c, Or.inr ⟨st, List.mem_cons_of_mem _ hc⟩, h1, h2⟩
  | clear N hN hmax hub =>
    refine ⟨(fun c hc => by cases hc), hgH, hst, hlb, ?_⟩
    intro hgt
    obtain ⟨c, hc, h1, h2⟩ := hcov hgt
    rcases hc with hc | hc
    · have := hmax c hc; dsimp only at hgt; omega
    · exact ⟨c, Or.inr hc, h1, h2⟩
  | readR N pre post hh =>
    refine ⟨hgF, forall_replace hh hgH (show Good Phi opt Ach N from hgH _ (mem_self_split hh)), forall_replace hh hst ?_, hlb,
      cover_restage Phi opt _ hh hcov⟩
    split
    · simp [StageOk]
    · simp only [StageOk]; exact ⟨Int.le_refl _, by omega⟩
  | skip N pre post hh hub =>
    refine ⟨hgF, forall_remove hh hgH, forall_remove hh hst, hlb, ?_⟩
    intro hgt
    obtain ⟨c, hc, h1, h2⟩ := hcov hgt
    rcases hc with hc | ⟨st, hc⟩
    · exact ⟨c, Or.inl hc, h1, h2⟩
    · rcases held_remove hh hc with rfl | hc
      · dsimp only at hgt; omega
      · exact ⟨c, Or.inr hc, h1, h2⟩
  | compileR N lb0 r pre post hh hok =>
    have hthis := hst _ (mem_self_split hh)
    simp only [StageOk] at hthis
    exact ⟨hgF, forall_replace hh hgH (show Good Phi opt Ach N from hgH _ (mem_self_split hh)),
      forall_replace hh hst (by simp only [StageOk]; exact ⟨hthis.1, hok⟩), hlb,
      cover_restage Phi opt _ hh hcov⟩
  | updateR N lb0 r pre post hh =>
    have hthis := hst _ (mem_self_split hh)
    simp only [StageOk] at hthis
    obtain ⟨hlb0, hok⟩ := hthis
    have hlb' : upd s.lb r.bestExact ≤ opt := upd_le_opt opt _ _ hlb (fun w hw => (hok.1 w hw).2)
    have hmono : s.lb ≤ upd s.lb r.bestExact := upd_ge _ _
    have hst' := forall_weaken hst (stageOk_mono Phi opt Ach _ _ hmono)
    have hcovS : opt > upd s.lb r.bestExact → ∃ c, (c ∈ s.fringe ∨ ∃ st, (c, st) ∈ s.held) ∧ Phi c.id = some opt ∧ opt ≤ c.ub :=
      fun hgt => hcov (by omega)
    by_cases hre : r.isExact = true
    · simp only [hre, if_true]
      refine ⟨hgF, forall_remove hh hgH, forall_remove hh hst', hlb', ?_⟩
      intro hgt
      dsimp only at hgt
      obtain ⟨c, hc, h1, h2⟩ := hcovS hgt
      rcases hc with hc | ⟨st, hc⟩
      · exact ⟨c, Or.inl hc, h1, h2⟩
      · rcases held_remove hh hc with rfl | hc
        · exfalso
          have := hok.2 hre opt h1 (by omega)
          rw [this] at hgt
          have := upd_ge_some s.lb opt
          omega
        · exact ⟨c, Or.inr hc, h1, h2⟩
    · simp only [hre, if_false]
      exact ⟨hgF, forall_replace hh hgH (show Good Phi opt Ach N from hgH _ (mem_self_split hh)),
        forall_replace hh hst' (by simp [StageOk]), hlb', cover_restage Phi opt _ hh hcovS⟩
  | readX N pre post hh =>
    exact ⟨hgF, forall_replace hh hgH (show Good Phi opt Ach N from hgH _ (mem_self_split hh)),
      forall_replace hh hst (by simp only [StageOk]; exact Int.le_refl _), hlb,
      cover_restage Phi opt _ hh hcov⟩
  | compileX N lb1 x pre post hh hok hcut =>
    have hthis := hst _ (mem_self_split hh)
    simp only [StageOk] at hthis
    exact ⟨hgF, forall_replace hh hgH (show Good Phi opt Ach N from hgH _ (mem_self_split hh)),
      forall_replace hh hst (by simp only [StageOk]; exact ⟨hthis, hok, hcut⟩), hlb,
      cover_restage Phi opt _ hh hcov⟩
  | updateX N lb1 x pre post hh =>
    have hthis := hst _ (mem_self_split hh)
    simp only [StageOk] at hthis
    obtain ⟨hlb1, hok, hcut⟩ := hthis
    have hlb' : upd s.lb x.bestExact ≤ opt := upd_le_opt opt _ _ hlb (fun w hw => (hok.1 w hw).2)
    have hmono : s.lb ≤ upd s.lb x.bestExact := upd_ge _ _
    have hst' := forall_weaken hst (stageOk_mono Phi opt Ach _ _ hmono)
    have hcovS : opt > upd s.lb x.bestExact → ∃ c, (c ∈ s.fringe ∨ ∃ st, (c, st) ∈ s.held) ∧ Phi c.id = some opt ∧ opt ≤ c.ub :=
      fun hgt => hcov (by omega)
    by_cases hxe : x.isExact = true
    · simp only [hxe, if_true]
      refine ⟨hgF, forall_remove hh hgH, forall_remove hh hst', hlb', ?_⟩
      intro hgt
      dsimp only at hgt
      obtain ⟨c, hc, h1, h2⟩ := hcovS hgt
      rcases hc with hc | ⟨st, hc⟩
      · exact ⟨c, Or.inl hc, h1, h2⟩
      · rcases held_remove hh hc with rfl | hc
        · exfalso
          have := hok.2 hxe opt h1 (by omega)
          rw [this] at hgt
          have := upd_ge_some s.lb opt
          omega
        · exact ⟨c, Or.inr hc, h1, h2⟩
    · simp only [hxe, if_false]
      have hxe' : x.isExact = false := by simpa using hxe
      refine ⟨hgF, forall_replace hh hgH (show Good Phi opt Ach N from hgH _ (mem_self_split hh)),
        forall_replace hh hst' ?_, hlb', cover_restage Phi opt _ hh hcovS⟩
      simp only [StageOk]
      refine ⟨by omega, hxe', hcut hxe', fun w hw => ?_⟩
      rw [hw]; exact upd_ge_some _ _
  | enqueue N lb1 x pre post hh =>
    have hthis := hst _ (mem_self_split hh)
    simp only [StageOk] at hthis
    obtain ⟨hlb1, hxe, ⟨hcg, hcub, hccov⟩, hbest⟩ := hthis
    refine ⟨?_, forall_remove hh hgH, forall_remove hh hst, hlb, ?_⟩
    · intro c hc
      rcases List.mem_append.mp hc with hc | hc
      · exact hgF c hc
      · simp only [keepCut, List.mem_filter] at hc
        exact hcg c hc.1
    · intro hgt
      dsimp only at hgt
      obtain ⟨c, hc, h1, h2⟩ := hcov hgt
      rcases hc with hc | ⟨st, hc⟩
      · exact ⟨c, Or.inl (List.mem_append_left _ hc), h1, h2⟩
      · rcases held_remove hh hc with rfl | hc
        · have hw : ∀ w, x.bestExact = some w → w < opt := fun w hw => by have := hbest w hw; omega
          obtain ⟨c', hc', y, hy, hxy⟩ := hccov opt h1 (by omega) hw
          have hyo := (hcg c' hc' y hy).2
          have hyeq : y = opt := by omega
          subst hyeq
          have hcu := hcub c' hc' y hy (by omega)
          refine ⟨c', Or.inl (List.mem_append_right _ ?_), hy, hcu⟩
          simp only [keepCut, List.mem_filter, decide_eq_true_eq]
          exact ⟨hc', by omega⟩
        · exact ⟨c, Or.inr hc, h1, h2⟩

/-- at completion (nothing open, nothing held) the incumbent is the optimum -/
theorem final (s : PSt) (hi : PInv Phi opt Ach s) (hf : s.fringe = []) (hh : s.held = []) : s.lb = opt := by
  have := hi.lbOk
  by_cases hgt : opt > s.lb
  · obtain ⟨c, hc, _, _⟩ := hi.cover hgt
    rcases hc with hc | ⟨st, hc⟩
    · rw [hf] at hc; cases hc
    · rw [hh] at hc; cases hc
  · omega
end
end Ddo.ParCover
