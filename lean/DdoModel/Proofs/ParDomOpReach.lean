import DdoModel.Proofs.ParDomOpSane
/-! # Whatever the oracle, the items an operation-wise compilation presents to the shared store are exactly reached

`compileOp_ops_reached`: for ANY sequence of stores `τ` (even ill-formed ones), every operation logged by `compileOp` presents an
exact node of the layer about to be expanded, hence (exactness invariant `MInv` of `Proofs/MddExact.lean`, which the
operation-wise layer step preserves: the filter only `set`s `theta`) an exactly reached item. -/
set_option linter.unusedSectionVars false
set_option linter.unusedVariables false
namespace Ddo.ParDom
open Ddo Ddo.Truth Ddo.Closed Ddo.C10
variable {S K : Type} [DecidableEq S] [DecidableEq K]

/-- the operations present exact nodes of `layer` -/
def OpsOf (layer : List (Node S)) (ops : List (Op S)) : Prop :=
  ∀ op ∈ ops, ∃ m ∈ layer, m.isExact = true ∧ op.state = m.state ∧ op.depth = m.depth ∧ op.value = m.value

/-- one step of the operation-wise filter: the layer changes in `theta` only; the new operation presents an exact node -/
theorem fdStepO_invR (D : DomRule S K) (τ : Nat → DomStore S K) (layer : List (Node S))
    (acc : List (Node S) × List Nat × Nat × Bool × List (Op S)) (p : Nat)
    (h : SubS acc.1 layer ∧ OpsOf layer acc.2.2.2.2) :
    SubS (fdStepO D τ acc p).1 layer ∧ OpsOf layer (fdStepO D τ acc p).2.2.2.2 := by
  obtain ⟨h1, h2⟩ := h
  unfold fdStepO
  cases hn : acc.1[p]? with
  | none => exact ⟨h1, h2⟩
  | some n =>
    simp only
    by_cases he : n.isExact = true
    · rw [if_pos he]
      have hnew : OpsOf layer (acc.2.2.2.2 ++ [⟨n.state, n.depth, n.value⟩]) := by
        intro op hop
        rcases List.mem_append.1 hop with hop | hop
        · exact h2 op hop
        · rw [List.mem_singleton] at hop
          subst hop
          obtain ⟨n0, h0, he0, hc⟩ := h1 n (List.mem_of_getElem? hn)
          exact ⟨n0, h0, he0.trans he, hc.1.symm, hc.2.2.2.symm, hc.2.1.symm⟩
      cases hq : DomStore.query D (τ acc.2.2.1) n.state n.depth n.value with
      | none => exact ⟨h1, hnew⟩
      | some x =>
        obtain ⟨st', dom, thr⟩ := x
        cases dom
        · exact ⟨h1, hnew⟩
        · exact ⟨h1.set hn rfl ⟨rfl, rfl, rfl, rfl⟩, hnew⟩
    · rw [if_neg he]; exact ⟨h1, h2⟩

theorem filterDomO_inv (cfg : Cfg S K) (τ : Nat → DomStore S K) (k : Nat) (layer : List (Node S)) (cur : List Nat) :
    SubS (filterDomO cfg τ k layer cur).1 layer ∧ OpsOf layer (filterDomO cfg τ k layer cur).2.2.2.2 := by
  unfold filterDomO
  cases hd : cfg.dom with
  | none => exact ⟨SubS.refl _, fun op hop => by cases hop⟩
  | some D =>
    simp only
    refine foldl_inv (β := List (Node S) × List Nat × Nat × Bool × List (Op S))
      (fun acc => SubS acc.1 layer ∧ OpsOf layer acc.2.2.2.2) _ _ _ ⟨SubS.refl _, fun op hop => by cases hop⟩ ?_
    intro acc p _ h
    exact fdStepO_invR D τ layer acc p h

/-- the operation-wise filter changes `theta` only -/
theorem filterDomO_subS (cfg : Cfg S K) (τ : Nat → DomStore S K) (k : Nat) (layer : List (Node S)) (cur : List Nat) :
    SubS (filterDomO cfg τ k layer cur).1 layer := (filterDomO_inv cfg τ k layer cur).1

/-- the operations of the operation-wise filter present exact nodes of the layer -/
theorem filterDomO_ops (cfg : Cfg S K) (τ : Nat → DomStore S K) (k : Nat) (layer : List (Node S)) (cur : List Nat) :
    ∀ op ∈ (filterDomO cfg τ k layer cur).2.2.2.2,
      ∃ m ∈ layer, m.isExact = true ∧ op.state = m.state ∧ op.depth = m.depth ∧ op.value = m.value :=
  (filterDomO_inv cfg τ k layer cur).2

theorem fcOf_subS (cfg : Cfg S K) (dd : DD S K) : SubS (fcOf cfg dd).1 dd.next := by
  unfold fcOf
  split
  · exact SubS.refl _
  · exact filterCache_subS _ _ _ _

/-- **one layer** (the analogue of `stepLayer_inv`): the exactness invariant is kept, and the new operations present exactly
    reached items — whatever the oracle -/
theorem stepLayerO_inv (cfg : Cfg S K) (B : Int) (p0 : List Dec) (hB : NoClamp cfg.P cfg.R cfg.root.value B)
    (τ : Nat → DomStore S K) (dd : DD S K) (k : Nat) (ops : List (Op S)) (var : Nat)
    (hinv : MInv cfg B p0 dd) (hdepth : dd.depth = cfg.root.depth + dd.layers.length)
    (hnv : cfg.P.nextVar dd.depth (dd.next.map (·.state)) = some var)
    (hlen : dd.layers.length ≤ cfg.P.nbVars + 1) (dd' : DD S K) (k' : Nat) (ops' : List (Op S)) (oc : Outcome)
    (h : stepLayerO cfg τ dd k ops var = (some (dd', k', ops'), oc)) :
    MInv cfg B p0 dd' ∧
      (oc = .ok → dd'.depth = cfg.root.depth + dd'.layers.length ∧ dd'.layers.length = dd.layers.length + 1) ∧
      (∀ op ∈ ops', op ∈ ops ∨ OpReached cfg.P op) := by
  by_cases hempty : dd.next.isEmpty = true
  · unfold stepLayerO at h
    rw [if_pos hempty] at h
    simp only [Prod.mk.injEq, Option.some.injEq] at h
    obtain ⟨⟨rfl, rfl, rfl⟩, rfl⟩ := h
    have hnil : dd.next = [] := List.isEmpty_iff.1 hempty
    refine ⟨⟨?_, ?_, ?_⟩, (fun h => by cases h), fun op hop => .inl hop⟩
    · exact MInv.append_layer hinv.layers (fun n hn => by cases hn)
    · dsimp only; rw [hnil]; intro n hn; cases hn
    · dsimp only; rw [hnil]; intro _ n hn; cases hn
  · have hne' : dd.next.isEmpty = false := by simpa using hempty
    rw [stepLayerO_unfold cfg τ dd k ops var hne'] at h
    have hops := stepTailO_ops cfg dd ops var _ _ dd' k' ops' oc h
    have hfc := fcOf_subS cfg dd
    obtain ⟨hfd, hfo⟩ := filterDomO_inv cfg τ k (fcOf cfg dd).1 (fcOf cfg dd).2
    -- the operations
    have hopsR : ∀ op ∈ ops', op ∈ ops ∨ OpReached cfg.P op := by
      intro op hop
      rw [hops] at hop
      rcases List.mem_append.1 hop with hop | hop
      · exact .inl hop
      · right
        obtain ⟨m, hm, hme, e1, e2, e3⟩ := hfo op hop
        obtain ⟨n0, h0, he0, hc⟩ := hfc m hm
        obtain ⟨q, _, hr, _, _⟩ := hinv.next n0 h0 (he0.trans hme)
        refine ⟨p0 ++ q, ?_⟩
        rw [e1, e2, e3, ← hc.1, ← hc.2.1, ← hc.2.2.2]
        exact hr
    generalize fcOf cfg dd = fc at h hfc hfd
    generalize filterDomO cfg τ k fc.1 fc.2 = fd at h hfd
    unfold stepTailO at h
    split at h
    · cases h
    · split at h
      · cases h
      · rename_i lsq csq lgsq lel hsq
        simp only [Prod.mk.injEq, Option.some.injEq] at h
        obtain ⟨⟨rfl, rfl, rfl⟩, rfl⟩ := h
        obtain ⟨hsub, hsubS⟩ := squash_sub cfg dd fd.1 fd.2.1 lsq csq lgsq lel hsq
        have hsub0 : SubE lsq dd.next := hsub.trans (hfd.trans hfc).toSub
        have hpar0 : ∀ n ∈ dd.next, ParOk cfg B p0 dd.layers (dd.next.map (·.state)) n := fun n hn =>
          ⟨hinv.next n hn, fun _ => List.mem_map.2 ⟨n, hn, rfl⟩⟩
        have hpar : ∀ n ∈ lsq, ParOk cfg B p0 dd.layers (dd.next.map (·.state)) n := ParOk.of_sub hsub0 hpar0
        have hE := expandAll_inv cfg B p0 hB dd.layers hlen lsq (dd.next.map (·.state)) var (hdepth ▸ hnv) hpar csq lgsq
        generalize expandAll cfg var dd.layers.length lsq csq lgsq = ex at hE
        obtain ⟨hrub, hchild, hallEx⟩ := hE
        refine ⟨⟨?_, ?_, ?_⟩, fun _ => ⟨?_, ?_⟩, hopsR⟩
        · dsimp only
          refine MInv.append_layer hinv.layers ?_
          exact fun n hn => (ParOk.of_sub hrub.subS.toSub hpar n hn).1
        · dsimp only
          intro c hc hex
          obtain ⟨a, pn, q, hbest, hfrom, hpn, hchain, hreach, hd, hbnd⟩ := hchild c hc hex
          obtain ⟨pF, hpF, hsF⟩ := hrub.get' hpn
          refine ⟨q ++ [a.dec], ?_, hreach, ?_, ?_⟩
          · rw [hbest, List.length_append, List.length_singleton]
            refine BestChain.step _ a pF q hfrom ?_ ?_
            · unfold getNode
              rw [List.getElem?_concat_length]
              exact hpF
            · rw [← (stripRub_core hsF).2.2.2.1]
              exact hchain.mono _
          · rw [hd, List.length_append, List.length_singleton]
          · rw [List.length_append, List.length_singleton]; exact hbnd
        · dsimp only
          intro hne c hc
          refine hallEx ?_ c hc
          intro n hn
          obtain ⟨n0, h0, he0, _⟩ := (hsubS hne).trans (hfd.trans hfc) n hn
          rw [← he0]
          exact hinv.allEx hne n0 h0
        · dsimp only
          rw [hdepth, List.length_append, List.length_singleton]; omega
        · dsimp only
          rw [List.length_append, List.length_singleton]

/-- **the loop**: every operation logged is exactly reached -/
theorem buildLoopO_ops_reached (cfg : Cfg S K) (B : Int) (p0 : List Dec) (hB : NoClamp cfg.P cfg.R cfg.root.value B)
    (τ : Nat → DomStore S K) :
    ∀ (fuel : Nat) (dd : DD S K) (k : Nat) (ops : List (Op S)), MInv cfg B p0 dd →
      dd.depth = cfg.root.depth + dd.layers.length → dd.layers.length + fuel ≤ cfg.P.nbVars + 2 →
      (∀ op ∈ ops, OpReached cfg.P op) →
      ∀ op ∈ (buildLoopO cfg τ fuel dd k ops).1.2, OpReached cfg.P op := by
  intro fuel
  induction fuel with
  | zero => intro dd k ops _ _ _ hops; exact hops
  | succ fuel ih =>
    intro dd k ops hM hdepth hfuel hops
    cases hnv : cfg.P.nextVar dd.depth (dd.next.map (·.state)) with
    | none => rw [buildLoopO_stop cfg τ fuel dd k ops hnv]; exact hops
    | some var =>
      rw [buildLoopO_step cfg τ fuel dd k ops var hnv]
      have hM' : MInv cfg B p0 (tick dd var) := hM.congr rfl rfl
      cases hs : stepLayerO cfg τ (tick dd var) k ops var with
      | mk o oc =>
        cases o with
        | none => exact hops
        | some x =>
          obtain ⟨dd', k', ops'⟩ := x
          obtain ⟨m1, m2, m3⟩ := stepLayerO_inv cfg B p0 hB τ (tick dd var) k ops var hM' hdepth hnv
            (by show dd.layers.length ≤ _; omega) dd' k' ops' oc hs
          have hops' : ∀ op ∈ ops', OpReached cfg.P op := fun op hop => by
            rcases m3 op hop with h | h
            · exact hops op h
            · exact h
          cases oc with
          | cutoff => exact hops'
          | crash => exact hops'
          | ok =>
            obtain ⟨m2a, m2b⟩ := m2 rfl
            exact ih dd' k' ops' m1 m2a (by rw [m2b]; show dd.layers.length + 1 + fuel ≤ _; omega) hops'

/-- **whatever the oracle** (ANY stores, even ill-formed ones), every item an operation-wise compilation of an exactly reached
    root presents to the shared store is an exactly reached item -/
theorem compileOp_ops_reached (cfg : Cfg S K) (B : Int) (p0 : List Dec) (hB : NoClamp cfg.P cfg.R cfg.root.value B)
    (hroot : Reach cfg.P cfg.root.depth cfg.root.state cfg.root.value p0)
    (cache : Cache S) (τ : Nat → DomStore S K) (polls : Nat) :
    ∀ op ∈ (compileOp cfg cache τ polls).2.2, OpReached cfg.P op := by
  show ∀ op ∈ (buildLoopO cfg τ (cfg.P.nbVars + 2) (initDD cfg cache (τ 0) polls) 0 []).1.2, OpReached cfg.P op
  refine buildLoopO_ops_reached cfg B p0 hB τ (cfg.P.nbVars + 2) (initDD cfg cache (τ 0) polls) 0 []
    (initDD_inv cfg B p0 hB hroot cache (τ 0) polls) ?_ ?_ (fun op hop => by cases hop)
  · show cfg.root.depth = cfg.root.depth + 0
    rfl
  · show 0 + (cfg.P.nbVars + 2) ≤ cfg.P.nbVars + 2
    omega

end Ddo.ParDom
