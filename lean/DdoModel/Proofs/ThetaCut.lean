import DdoModel.Proofs.MddBounds
/-! Stage 1 of C09: the flags `cutset` / `above` that `computeCutset` (`_compute_last_exact_layer_cutset`,
    `_compute_frontier_cutset`) writes, exactly — for a diagram in which no flag is raised yet. -/
set_option linter.unusedSectionVars false
set_option linter.unusedVariables false
namespace Ddo.Theta
open Ddo Ddo.Bounds
variable {S : Type} [DecidableEq S]

/-! ## last exact layer -/

theorem getNode_set_map (ls : List (List (Node S))) (l : Nat) (h : Node S → Node S) (l' p' : Nat) :
    getNode (ls.set l ((ls[l]?.getD []).map h)) l' p'
      = if l' = l then (getNode ls l' p').map h else getNode ls l' p' := by
  unfold getNode
  by_cases hl : l' = l
  · subst hl
    rw [if_pos rfl]
    by_cases hlt : l' < ls.length
    · rw [List.getElem?_set_self hlt, List.getElem?_eq_getElem hlt]
      dsimp only [Option.getD_some]
      rw [List.getElem?_map]
    · have h1 : ls[l']? = none := List.getElem?_eq_none (Nat.le_of_not_lt hlt)
      have h2 : (ls.set l' ((ls[l']?.getD []).map h))[l']? = none :=
        List.getElem?_eq_none (by rw [List.length_set]; exact Nat.le_of_not_lt hlt)
      rw [h2, h1]; rfl
  · rw [if_neg hl, List.getElem?_set_ne (fun h => hl h.symm)]

/-- what the pass of the last-exact-layer kind does to a node of layer `l` -/
def lelUpd (lel l : Nat) (n : Node S) : Node S :=
  if l = lel then { n with cutset := true, above := true } else if l < lel then { n with above := true } else n

/-- one step of the fold of the last-exact-layer kind -/
def lelStep (lel : Nat) (ls : List (List (Node S))) (l : Nat) : List (List (Node S)) :=
  if l = lel then ls.set l ((ls[l]?.getD []).map (fun n => { n with cutset := true, above := true }))
  else if l < lel then ls.set l ((ls[l]?.getD []).map (fun n => { n with above := true }))
  else ls

theorem computeCutset_lel_eq (lel : Nat) (layers : List (List (Node S))) :
    (computeCutset .lel lel layers).1 = (List.range layers.length).foldl (lelStep lel) layers := rfl

theorem lelStep_getNode (lel : Nat) (ls : List (List (Node S))) (k l p : Nat) :
    getNode (lelStep lel ls k) l p = if l = k then (getNode ls l p).map (lelUpd lel k) else getNode ls l p := by
  unfold lelStep
  by_cases h1 : k = lel
  · rw [if_pos h1, getNode_set_map]
    have : lelUpd (S := S) lel k = fun n => { n with cutset := true, above := true } := by
      funext n; unfold lelUpd; rw [if_pos h1]
    rw [this]
  · rw [if_neg h1]
    by_cases h2 : k < lel
    · rw [if_pos h2, getNode_set_map]
      have : lelUpd (S := S) lel k = fun n => { n with above := true } := by
        funext n; unfold lelUpd; rw [if_neg h1, if_pos h2]
      rw [this]
    · rw [if_neg h2]
      have : lelUpd (S := S) lel k = fun n => n := by
        funext n; unfold lelUpd; rw [if_neg h1, if_neg h2]
      rw [this]
      split
      · cases getNode ls l p <;> rfl
      · rfl

theorem lelFold_getNode (lel : Nat) (layers : List (List (Node S))) (k l p : Nat) :
    getNode ((List.range k).foldl (lelStep lel) layers) l p
      = if l < k then (getNode layers l p).map (lelUpd lel l) else getNode layers l p := by
  induction k with
  | zero => rw [if_neg (Nat.not_lt_zero _)]; rfl
  | succ k ih =>
    rw [List.range_succ, List.foldl_append, List.foldl_cons, List.foldl_nil, lelStep_getNode, ih]
    by_cases h : l = k
    · subst h
      rw [if_pos rfl, if_neg (Nat.lt_irrefl _), if_pos (Nat.lt_succ_self _)]
    · rw [if_neg h]
      by_cases h2 : l < k
      · rw [if_pos h2, if_pos (Nat.lt_succ_of_lt h2)]
      · rw [if_neg h2, if_neg (by omega)]

/-- **last exact layer**: a node of layer `l` is flagged `above` iff `l ≤ lel`, `cutset` iff `l = lel`, and the positions of
    layer `lel` are in the cut-set -/
theorem computeCutset_lel_flags (lel : Nat) (layers : List (List (Node S)))
    (h0 : ∀ (l p : Nat) (n : Node S), getNode layers l p = some n → n.cutset = false ∧ n.above = false)
    (l p : Nat) (n1 : Node S) (hn1 : getNode (computeCutset .lel lel layers).1 l p = some n1) :
    (n1.above = true ↔ l ≤ lel) ∧ (n1.cutset = true ↔ l = lel) ∧
    (n1.cutset = true → (l, p) ∈ (computeCutset .lel lel layers).2) := by
  rw [computeCutset_lel_eq, lelFold_getNode] at hn1
  have hex : ∃ n0, getNode layers l p = some n0 ∧ n1 = lelUpd lel l n0 := by
    cases hg : getNode layers l p with
    | none => rw [hg] at hn1; split at hn1 <;> cases hn1
    | some n0 =>
      have hl : l < layers.length := Ddo.getNode_lt hg
      rw [hg, if_pos hl] at hn1
      exact ⟨n0, rfl, (Option.some.inj hn1).symm⟩
  obtain ⟨n0, hg, rfl⟩ := hex
  obtain ⟨hc, ha⟩ := h0 l p n0 hg
  unfold lelUpd
  by_cases h1 : l = lel
  · rw [if_pos h1]
    subst h1
    exact ⟨⟨fun _ => Nat.le_refl _, fun _ => rfl⟩, ⟨fun _ => rfl, fun _ => rfl⟩,
      fun _ => computeCutset_lel_mem l layers p n0 hg⟩
  · rw [if_neg h1]
    by_cases h2 : l < lel
    · rw [if_pos h2]
      dsimp only
      rw [hc]
      exact ⟨⟨fun _ => Nat.le_of_lt h2, fun _ => rfl⟩, ⟨fun h => (by cases h), fun h => absurd h h1⟩, fun h => (by cases h)⟩
    · rw [if_neg h2, hc, ha]
      exact ⟨⟨fun h => (by cases h), fun h => by omega⟩, ⟨fun h => (by cases h), fun h => absurd h h1⟩, fun h => (by cases h)⟩

/-! ## frontier -/

/-- invariant of the frontier pass: a raised `cutset` flag sits on an exact node whose position has been pushed; a raised
    `above` flag sits on an exact node -/
def FrInv2 (layers : List (List (Node S))) (acc : FrAcc S) : Prop :=
  XEq acc.1 layers ∧ ∀ (l p : Nat) (n : Node S), getNode acc.1 l p = some n →
    (n.cutset = true → n.isExact = true ∧ (l, p) ∈ acc.2) ∧ (n.above = true → n.isExact = true)

/-- the node at `(l, p)` exists and satisfies `g` -/
def Flag (g : Node S → Bool) (l p : Nat) (acc : FrAcc S) : Prop := ∃ n, getNode acc.1 l p = some n ∧ g n = true

/-- `g` is not lowered by the two writes of the frontier pass -/
def GMono (g : Node S → Bool) : Prop :=
  ∀ n : Node S, g n = true → g { n with cutset := true } = true ∧ g { n with above := true } = true

theorem gMono_cutset : GMono (S := S) Node.cutset := fun n h => ⟨rfl, h⟩
theorem gMono_above : GMono (S := S) Node.above := fun n h => ⟨h, rfl⟩

theorem getNode_map_some {ls : List (List (Node S))} {l p : Nat} {f : Node S → Node S} {n : Node S}
    (h : (getNode ls l p).map f = some n) : ∃ n0, getNode ls l p = some n0 ∧ n = f n0 := by
  cases h0 : getNode ls l p with
  | none => rw [h0] at h; cases h
  | some n0 => rw [h0] at h; exact ⟨n0, rfl, (Option.some.inj h).symm⟩

theorem flag_modNode {g : Node S → Bool} {l p : Nat} {ls : List (List (Node S))} {cs cs' : List (Nat × Nat)}
    (h : Flag g l p (ls, cs)) (l' p' : Nat) (f : Node S → Node S) (hf : ∀ n, g n = true → g (f n) = true) :
    Flag g l p (modNode ls l' p' f, cs') := by
  obtain ⟨n, hn, hg⟩ := h
  dsimp only at hn
  unfold Flag
  dsimp only
  rw [getNode_modNode]
  split
  · exact ⟨f n, by rw [hn]; rfl, hf n hg⟩
  · exact ⟨n, hn, hg⟩

theorem frArc_flag {g : Node S → Bool} (hg : GMono g) {l p : Nat} {acc : FrAcc S} (h : Flag g l p acc) (e : Arc) :
    Flag g l p (frArc acc e) := by
  unfold frArc
  split
  · split
    · exact flag_modNode (cs := acc.2) h _ _ _ (fun n hn => (hg n hn).1)
    · exact h
  · exact h

theorem frPos_flag {g : Node S → Bool} (hg : GMono g) {l p : Nat} {acc : FrAcc S} (h : Flag g l p acc) (l' p' : Nat) :
    Flag g l p (frPos l' acc p') := by
  unfold frPos
  split
  · exact h
  · split
    · exact flag_modNode (cs := acc.2) h _ _ _ (fun n hn => (hg n hn).2)
    · exact Ddo.foldl_inv (β := FrAcc S) (Flag g l p) frArc _ _ h (fun b e _ hb => frArc_flag hg hb e)

theorem frLayer_flag {g : Node S → Bool} (hg : GMono g) {l p : Nat} {acc : FrAcc S} (h : Flag g l p acc) (l' : Nat) :
    Flag g l p (frLayer acc l') :=
  Ddo.foldl_inv (β := FrAcc S) (Flag g l p) (frPos l') _ _ h (fun b q _ hb => frPos_flag hg hb l' q)

theorem frArc_inv2 {layers : List (List (Node S))} {acc : FrAcc S} (h : FrInv2 layers acc) (e : Arc) :
    FrInv2 layers (frArc acc e) := by
  unfold frArc
  split
  · rename_i par hpar
    split
    · rename_i hcond
      refine ⟨h.1.modNode _ _ _ (fun _ _ => rfl), fun l p n hn => ?_⟩
      dsimp only at hn ⊢
      rw [getNode_modNode] at hn
      split at hn
      · rename_i hlp
        obtain ⟨n0, hn0, rfl⟩ := getNode_map_some hn
        rw [hlp.1, hlp.2] at hn0
        rw [hpar] at hn0
        cases hn0
        rw [hlp.1, hlp.2]
        have hpex : par.isExact = true := by
          cases hx : par.isExact with
          | true => rfl
          | false => rw [hx] at hcond; cases hcond
        exact ⟨fun _ => ⟨hpex, List.mem_append_right _ List.mem_cons_self⟩, fun ha => (h.2 _ _ par hpar).2 ha⟩
      · exact ⟨fun hc => ⟨((h.2 l p n hn).1 hc).1, List.mem_append_left _ ((h.2 l p n hn).1 hc).2⟩, (h.2 l p n hn).2⟩
    · exact h
  · exact h

theorem frPos_inv2 {layers : List (List (Node S))} {acc : FrAcc S} (h : FrInv2 layers acc) (l p : Nat) :
    FrInv2 layers (frPos l acc p) := by
  unfold frPos
  split
  · exact h
  · rename_i m hm
    split
    · rename_i hmex
      refine ⟨h.1.modNode _ _ _ (fun _ _ => rfl), fun l' p' n hn => ?_⟩
      dsimp only at hn ⊢
      rw [getNode_modNode] at hn
      split at hn
      · rename_i hlp
        obtain ⟨n0, hn0, rfl⟩ := getNode_map_some hn
        rw [hlp.1, hlp.2] at hn0
        rw [hm] at hn0
        cases hn0
        rw [hlp.1, hlp.2]
        exact ⟨fun hc => (h.2 _ _ m hm).1 hc, fun _ => hmex⟩
      · exact h.2 l' p' n hn
    · exact Ddo.foldl_inv (FrInv2 layers) frArc _ _ h (fun b e _ hb => frArc_inv2 hb e)

theorem frLayer_inv2 {layers : List (List (Node S))} {acc : FrAcc S} (h : FrInv2 layers acc) (l : Nat) :
    FrInv2 layers (frLayer acc l) :=
  Ddo.foldl_inv (FrInv2 layers) (frPos l) _ _ h (fun b p _ hb => frPos_inv2 hb l p)

theorem frInv2_init (layers : List (List (Node S)))
    (h0 : ∀ (l p : Nat) (n : Node S), getNode layers l p = some n → n.cutset = false ∧ n.above = false) :
    FrInv2 layers (layers, []) := by
  refine ⟨XEq.refl _, fun l p n hn => ?_⟩
  obtain ⟨hc, ha⟩ := h0 l p n hn
  exact ⟨fun h => (by rw [hc] at h; cases h), fun h => (by rw [ha] at h; cases h)⟩

/-- an exact node is flagged `above` once the pass is over -/
theorem frontier_above (lel : Nat) (layers : List (List (Node S)))
    (h0 : ∀ (l p : Nat) (n : Node S), getNode layers l p = some n → n.cutset = false ∧ n.above = false)
    (l p : Nat) (n : Node S) (hn : getNode layers l p = some n) (hex : n.isExact = true) :
    Flag Node.above l p (computeCutset .frontier lel layers) := by
  rw [computeCutset_frontier_eq]
  have hl : l ∈ (List.range layers.length).reverse := by
    rw [List.mem_reverse, List.mem_range]; exact Ddo.getNode_lt hn
  refine foldl_reach frLayer (FrInv2 layers) (Flag Node.above l p) l
    (fun b a hb => frLayer_inv2 hb a) (fun b a hb => frLayer_flag gMono_above hb a) ?_ _ _ hl (frInv2_init layers h0)
  intro b hb
  obtain ⟨m1, hm1, hs1⟩ := hb.1.symm.getNode_some hn
  unfold frLayer
  refine foldl_reach (frPos l) (FrInv2 layers) (Flag Node.above l p) p
    (fun b a hb => frPos_inv2 hb l a) (fun b a hb => frPos_flag gMono_above hb l a) ?_ _ _
    (List.mem_range.mpr (getNode_pos_lt hm1)) hb
  intro b' hb'
  obtain ⟨m2, hm2, hs2⟩ := hb'.1.symm.getNode_some hn
  have hm2ex : m2.isExact = true := by rw [stripB_isExact hs2]; exact hex
  unfold frPos
  rw [hm2]
  dsimp only
  rw [if_pos hm2ex]
  unfold Flag
  dsimp only
  rw [getNode_modNode, if_pos ⟨rfl, rfl⟩, hm2]
  exact ⟨_, rfl, rfl⟩

/-- the exact source of an inbound arc of an inexact node is flagged `cutset` once the pass is over -/
theorem frontier_cutset (lel : Nat) (layers : List (List (Node S)))
    (h0 : ∀ (l p : Nat) (n : Node S), getNode layers l p = some n → n.cutset = false ∧ n.above = false)
    (l' p' : Nat) (m : Node S) (e : Arc) (par : Node S)
    (hm : getNode layers l' p' = some m) (hmex : m.isExact = false) (he : e ∈ m.inb)
    (hpar : getNode layers e.fromL e.fromP = some par) (hpex : par.isExact = true) :
    Flag Node.cutset e.fromL e.fromP (computeCutset .frontier lel layers) := by
  rw [computeCutset_frontier_eq]
  have hl' : l' ∈ (List.range layers.length).reverse := by
    rw [List.mem_reverse, List.mem_range]; exact Ddo.getNode_lt hm
  refine foldl_reach frLayer (FrInv2 layers) (Flag Node.cutset e.fromL e.fromP) l'
    (fun b a hb => frLayer_inv2 hb a) (fun b a hb => frLayer_flag gMono_cutset hb a) ?_ _ _ hl' (frInv2_init layers h0)
  intro b hb
  obtain ⟨m1, hm1, hs1⟩ := hb.1.symm.getNode_some hm
  unfold frLayer
  refine foldl_reach (frPos l') (FrInv2 layers) (Flag Node.cutset e.fromL e.fromP) p'
    (fun b a hb => frPos_inv2 hb l' a) (fun b a hb => frPos_flag gMono_cutset hb l' a) ?_ _ _
    (List.mem_range.mpr (getNode_pos_lt hm1)) hb
  intro b' hb'
  obtain ⟨m2, hm2, hs2⟩ := hb'.1.symm.getNode_some hm
  have hm2ex : m2.isExact = false := by rw [stripB_isExact hs2]; exact hmex
  have he2 : e ∈ m2.inb := by rw [stripB_inb hs2]; exact he
  unfold frPos
  rw [hm2]
  dsimp only
  rw [if_neg (by rw [hm2ex]; simp)]
  refine foldl_reach frArc (FrInv2 layers) (Flag Node.cutset e.fromL e.fromP) e
    (fun b a hb => frArc_inv2 hb a) (fun b a hb => frArc_flag gMono_cutset hb a) ?_ _ _ he2 hb'
  intro b'' hb''
  obtain ⟨par2, hpar2, hsp⟩ := hb''.1.symm.getNode_some hpar
  have hp2ex : par2.isExact = true := by rw [stripB_isExact hsp]; exact hpex
  unfold frArc
  rw [hpar2]
  dsimp only
  split
  · unfold Flag
    dsimp only
    rw [getNode_modNode, if_pos ⟨rfl, rfl⟩, hpar2]
    exact ⟨_, rfl, rfl⟩
  · rename_i hcond
    rw [hp2ex] at hcond
    simp only [Bool.true_and, Bool.not_eq_true', Bool.not_eq_false] at hcond
    exact ⟨par2, hpar2, by simpa using hcond⟩

theorem frontier_inv2 (lel : Nat) (layers : List (List (Node S)))
    (h0 : ∀ (l p : Nat) (n : Node S), getNode layers l p = some n → n.cutset = false ∧ n.above = false) :
    FrInv2 layers (computeCutset .frontier lel layers) := by
  rw [computeCutset_frontier_eq]
  exact Ddo.foldl_inv (FrInv2 layers) frLayer _ _ (frInv2_init layers h0) (fun b a _ hb => frLayer_inv2 hb a)

/-- **frontier**: a node is flagged `above` iff it is exact; a node flagged `cutset` is exact and its position is in the
    cut-set; an exact node that is the source of an inbound arc of a node that is not exact is flagged `cutset` -/
theorem computeCutset_frontier_flags (lel : Nat) (layers : List (List (Node S)))
    (h0 : ∀ (l p : Nat) (n : Node S), getNode layers l p = some n → n.cutset = false ∧ n.above = false) :
    (∀ (l p : Nat) (n1 : Node S), getNode (computeCutset .frontier lel layers).1 l p = some n1 →
      (n1.above = true ↔ n1.isExact = true) ∧
      (n1.cutset = true → n1.isExact = true ∧ (l, p) ∈ (computeCutset .frontier lel layers).2)) ∧
    (∀ (l' p' : Nat) (m1 : Node S) (e : Arc) (par1 : Node S),
      getNode (computeCutset .frontier lel layers).1 l' p' = some m1 → m1.isExact = false → e ∈ m1.inb →
      getNode (computeCutset .frontier lel layers).1 e.fromL e.fromP = some par1 → par1.isExact = true →
      par1.cutset = true) := by
  have hinv := frontier_inv2 lel layers h0
  refine ⟨fun l p n1 hn1 => ⟨⟨(hinv.2 l p n1 hn1).2, fun hex => ?_⟩, (hinv.2 l p n1 hn1).1⟩, ?_⟩
  · obtain ⟨n0, hn0, hs⟩ := hinv.1.getNode_some hn1
    have hex0 : n0.isExact = true := by rw [stripB_isExact hs]; exact hex
    obtain ⟨n2, hn2, ha⟩ := frontier_above lel layers h0 l p n0 hn0 hex0
    rw [hn1] at hn2
    cases hn2
    exact ha
  · intro l' p' m1 e par1 hm1 hmex he hpar1 hpex
    obtain ⟨m0, hm0, hsm⟩ := hinv.1.getNode_some hm1
    obtain ⟨par0, hpar0, hsp⟩ := hinv.1.getNode_some hpar1
    have hmex0 : m0.isExact = false := by rw [stripB_isExact hsm]; exact hmex
    have he0 : e ∈ m0.inb := by rw [stripB_inb hsm]; exact he
    have hpex0 : par0.isExact = true := by rw [stripB_isExact hsp]; exact hpex
    obtain ⟨n2, hn2, hc⟩ := frontier_cutset lel layers h0 l' p' m0 e par0 hm0 hmex0 he0 hpar0 hpex0
    rw [hpar1] at hn2
    cases hn2
    exact hc

end Ddo.Theta

#print axioms Ddo.Theta.computeCutset_lel_flags
#print axioms Ddo.Theta.computeCutset_frontier_flags
