import DdoModel.Proofs.ParDomHead
import DdoModel.Proofs.ParDomLay
import DdoModel.Proofs.ParDomContract
import DdoModel.Proofs.ParDomLayerB
/-! # The parallel solver with the shared dominance checker — the answer relations that are CLOSED

* `ansOk_d`: `AnsOk` for `okRd` / `okXd` (the answer of `compile` from ANY store of exactly reached items);
* `okRL` / `okXL`: the answer of `compileL` — the layer of depth `d` of the compilation filtered (atomically) against the store
  `σ d`, ANY sequence `σ` of stores of exactly reached items: the shared checker as it is when the compilation reaches that layer,
  whatever the other workers did to it in between; `okRL_okRd`, `okXL_okXd`: such an answer is an `okRd` / `okXd` answer (virtual
  store, `compileL_virtual`); `ansOk_L`;
* the system that carries the shared store as a state component (`DPStep`: whole compilations atomic w.r.t. the store, several
  nodes in progress): `dprun_inv` — its runs project to runs of the store-abstracted system and **the shared store holds exactly
  reached items only in every reachable state**. -/
set_option linter.unusedSectionVars false
set_option linter.unusedVariables false
namespace Ddo.ParDom
open Ddo Ddo.Truth Ddo.Closed Ddo.ParSys Ddo.ParClosed Ddo.C10
open Ddo.C01 (SolverCfg WellFormed toOut SolOf)
variable {S K : Type} [DecidableEq S] [DecidableEq K]

/-- **`AnsOk` holds for the compilations of the diagram model run from any store of exactly reached items** -/
theorem ansOk_d {dv : DSolverCfg S K} {H : Nat → S → EInt} {B0 B opt : Int} {Prot : Nat → S → Int → Prop}
    (hwf : WellFormed dv.sv H B0 B) (hopt : (H 0 dv.sv.P.init).addI dv.sv.P.initVal = some opt)
    (hPr : Protected dv.D dv.sv.P H opt Prot) : AnsOk dv B opt Prot (okRd dv) (okXd dv) where
  factsR := fun n lb o hn hok => okRd_facts hwf hn hok
  factsX := fun n lb o hn hok => okXd_facts hwf hn hok
  contractR := fun n lb o hn h1 h2 hle hok => okRd'_contract hwf hopt hPr n lb o ⟨hok, hn, h1, h2⟩ hle
  contractX := fun n lb o hn h1 h2 hle hok => okXd'_contract hwf hopt hPr n lb o ⟨hok, hn, h1, h2⟩ hle
  answersR := fun n lb hn => ⟨_, (store0_ok hwf hn lb).1⟩
  answersX := fun n lb hn => ⟨_, (store0_ok hwf hn lb).2⟩

/-! ## layer-wise access to the shared store -/

/-- a sequence of stores of exactly reached items (what the shared checker holds at successive moments) -/
def GoodStores (dv : DSolverCfg S K) (σ : Nat → DomStore S K) : Prop :=
  ∀ d, StoreReach dv.D dv.sv.P (σ d) ∧ (σ d).layers.length = dv.sv.P.nbVars + 1

/-- the restricted compilation of `N` whose layer of depth `d` is filtered against `σ d` answered `o` -/
def okRL (dv : DSolverCfg S K) (N : SubP S) (lb : Int) (o : DDOut S) : Prop :=
  ∃ σ : Nat → DomStore S K, GoodStores dv σ ∧
    (compileL (dv.cfg .restricted N lb) (Cache.init dv.sv.P.nbVars) σ 0).1 = .ok ∧
    o = toOut (compileL (dv.cfg .restricted N lb) (Cache.init dv.sv.P.nbVars) σ 0).2.1

def okXL (dv : DSolverCfg S K) (N : SubP S) (lb : Int) (o : DDOut S) : Prop :=
  ∃ σ : Nat → DomStore S K, GoodStores dv σ ∧
    (compileL (dv.cfg .relaxed N lb) (Cache.init dv.sv.P.nbVars) σ 0).1 = .ok ∧
    o = toOut (compileL (dv.cfg .relaxed N lb) (Cache.init dv.sv.P.nbVars) σ 0).2.1

/-- the layer-wise compilation is the compilation from the virtual store -/
theorem compileL_dv {dv : DSolverCfg S K} {H : Nat → S → EInt} {B0 B : Int} (hwf : WellFormed dv.sv H B0 B)
    (ct : CompType) {N : SubP S} (hn : C01.NodeOk dv.sv.P N) (lb : Int) {σ : Nat → DomStore S K} (hσ : GoodStores dv σ) :
    ∃ V : DomStore S K, StoreReach dv.D dv.sv.P V ∧ V.layers.length = dv.sv.P.nbVars + 1 ∧
      (compileL (dv.cfg ct N lb) (Cache.init dv.sv.P.nbVars) σ 0).1 =
        (compile (dv.cfg ct N lb) (Cache.init dv.sv.P.nbVars) V 0 none).1 ∧
      ((compile (dv.cfg ct N lb) (Cache.init dv.sv.P.nbVars) V 0 none).1 = .ok →
        (compileL (dv.cfg ct N lb) (Cache.init dv.sv.P.nbVars) σ 0).2.1 =
          (compile (dv.cfg ct N lb) (Cache.init dv.sv.P.nbVars) V 0 none).2.1) := by
  obtain ⟨p0, hroot, _⟩ := hn
  exact compileL_virtual (dv.cfg ct N lb) dv.D rfl B p0 (hwf.bound.noClamp_at hwf.nv hroot) hroot _ σ 0 hσ

theorem okRL_okRd {dv : DSolverCfg S K} {H : Nat → S → EInt} {B0 B : Int} (hwf : WellFormed dv.sv H B0 B)
    {N : SubP S} (hn : C01.NodeOk dv.sv.P N) {lb : Int} {o : DDOut S} (h : okRL dv N lb o) : okRd dv N lb o := by
  obtain ⟨σ, hσ, hok, rfl⟩ := h
  obtain ⟨V, h1, h2, h3, h4⟩ := compileL_dv hwf .restricted hn lb hσ
  have hokV : (dv.compR V N lb).1 = .ok := by rw [← hok, h3]; rfl
  exact ⟨V, h1, h2, hokV, by rw [h4 hokV]; rfl⟩

theorem okXL_okXd {dv : DSolverCfg S K} {H : Nat → S → EInt} {B0 B : Int} (hwf : WellFormed dv.sv H B0 B)
    {N : SubP S} (hn : C01.NodeOk dv.sv.P N) {lb : Int} {o : DDOut S} (h : okXL dv N lb o) : okXd dv N lb o := by
  obtain ⟨σ, hσ, hok, rfl⟩ := h
  obtain ⟨V, h1, h2, h3, h4⟩ := compileL_dv hwf .relaxed hn lb hσ
  have hokV : (dv.compX V N lb).1 = .ok := by rw [← hok, h3]; rfl
  exact ⟨V, h1, h2, hokV, by rw [h4 hokV]; rfl⟩

/-- a layer-wise compilation never crashes -/
theorem compileL_no_crash {dv : DSolverCfg S K} {H : Nat → S → EInt} {B0 B : Int} (hwf : WellFormed dv.sv H B0 B)
    (ct : CompType) {N : SubP S} (hn : C01.NodeOk dv.sv.P N) (lb : Int) {σ : Nat → DomStore S K} (hσ : GoodStores dv σ) :
    (compileL (dv.cfg ct N lb) (Cache.init dv.sv.P.nbVars) σ 0).1 = .ok := by
  obtain ⟨V, _, h2, h3, _⟩ := compileL_dv hwf ct hn lb hσ
  obtain ⟨p0, hroot, _⟩ := hn
  rw [h3]
  exact compile_no_crash_dom (dv.cfg ct N lb) dv.D rfl B p0 _ V 0 rfl (hwf.width N) hwf.nv
    (hwf.bound.noClamp_at hwf.nv hroot) hroot h2

theorem goodStores_const (dv : DSolverCfg S K) : GoodStores dv (fun _ => DomStore.init dv.sv.P.nbVars) :=
  fun _ => ⟨storeReach_init dv.D dv.sv.P _, by simp [DomStore.init]⟩

/-- **`AnsOk` holds for the compilations that access the shared store layer by layer** -/
theorem ansOk_L {dv : DSolverCfg S K} {H : Nat → S → EInt} {B0 B opt : Int} {Prot : Nat → S → Int → Prop}
    (hwf : WellFormed dv.sv H B0 B) (hopt : (H 0 dv.sv.P.init).addI dv.sv.P.initVal = some opt)
    (hPr : Protected dv.D dv.sv.P H opt Prot) : AnsOk dv B opt Prot (okRL dv) (okXL dv) where
  factsR := fun n lb o hn hok => okRd_facts hwf hn (okRL_okRd hwf hn hok)
  factsX := fun n lb o hn hok => okXd_facts hwf hn (okXL_okXd hwf hn hok)
  contractR := fun n lb o hn h1 h2 hle hok => okRd'_contract hwf hopt hPr n lb o ⟨okRL_okRd hwf hn hok, hn, h1, h2⟩ hle
  contractX := fun n lb o hn h1 h2 hle hok => okXd'_contract hwf hopt hPr n lb o ⟨okXL_okXd hwf hn hok, hn, h1, h2⟩ hle
  answersR := fun n lb hn => ⟨_, _, goodStores_const dv, compileL_no_crash hwf .restricted hn lb (goodStores_const dv), rfl⟩
  answersX := fun n lb hn => ⟨_, _, goodStores_const dv, compileL_no_crash hwf .relaxed hn lb (goodStores_const dv), rfl⟩

/-! ## the system that carries the shared store: whole compilations atomic w.r.t. the store -/

/-- along every run of the system with the shared store: the projection is a run of the store-abstracted system, and the shared
    store holds exactly reached items only -/
theorem dprun_inv {dv : DSolverCfg S K} {H : Nat → S → EInt} {B0 B opt : Int} {Prot : Nat → S → Int → Prop}
    (hwf : WellFormed dv.sv H B0 B) (hopt : (H 0 dv.sv.P.init).addI dv.sv.P.initVal = some opt)
    (hPr : Protected dv.D dv.sv.P H opt Prot) (U : Nat) {t : DSys S K} (h : DPRun dv (DSys.init dv U) t) :
    GRun dv.sv.dedup (okRd dv) (okXd dv) (Sys.init dv.sv.P none dv.sv.dedup U) t.sys ∧
    StoreReach dv.D dv.sv.P t.store ∧ t.store.layers.length = dv.sv.P.nbVars + 1 := by
  induction h with
  | refl => exact ⟨GRun.refl _, storeReach_init dv.D dv.sv.P _, by simp [DSys.init, DomStore.init]⟩
  | tail _ hst ih =>
    obtain ⟨hrun, hs, hl⟩ := ih
    have hI := grun_gall hwf hopt hPr (ansOk_d hwf hopt hPr) hrun
    have hq := dpstep_qstep hst hI.noCut hs hl
    have hpc : DPCInv dv H B _ := ⟨hI.pc.base, fun w hw => ⟨(hI.pc.ws w hw).node, by
      have := (hI.pc.ws w hw).stage
      cases w <;> exact this⟩⟩
    exact ⟨GRun.tail hrun hq, dpstep_store hwf hst hpc hs hl⟩

end Ddo.ParDom
