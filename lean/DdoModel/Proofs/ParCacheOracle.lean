import DdoModel.Mdd
import DdoModel.Proofs.Cache
import DdoModel.Proofs.CacheClosedInvB
/-! One compilation against a cache that changes under it (the parallel solver: the cache is a concurrent map other
    threads write while this compilation reads it).

`filterCacheO` / `stepLayerO` / `buildLoopO` / `compileO` are line-by-line copies of `filterCache` / `stepLayer` /
`buildLoop` / `compile` of `Mdd.lean`, except that the cache is a function `cs` of the READ INDEX: the `j`-th
`get_threshold` issued by the compilation is answered by the cache `cs j`.  The read counter is incremented once per node
examined by `_filter_with_cache` (once per `some n` branch of the fold), whatever `cfg.useCache` (with `EmptyCache` the
call is issued as well, it just answers `None`).

`compileO_sim`: the compilation against the changing cache is the compilation against ONE *virtual* cache `cv`, each of
whose entries was an entry of `cs j` for some read index `j`.  The reason: one compilation never reads the same cell
`(state, depth)` twice (`loopReads_ok`) — inside a layer the states are pairwise distinct (`_branch_on` is
insert-or-update keyed by the state), all the nodes of the layer under construction have depth `dd.depth`, and the depth
increases by one from a layer to the next. -/
set_option linter.unusedSectionVars false
set_option linter.unusedVariables false
namespace Ddo.ParCache
open Ddo
variable {S K : Type} [DecidableEq S] [DecidableEq K]

/-! ## the definitions -/

/-- `_filter_with_cache` against the changing cache; `k` = number of reads issued so far.  Returns the result of
    `filterCache` and the read counter afterwards. -/
def filterCacheO (cfg : Cfg S K) (cs : Nat → Cache S) (k : Nat) (layer : List (Node S)) (cur : List Nat) :
    (List (Node S) × List Nat) × Nat :=
  cur.foldl (fun ((ly, keep), j) p =>
    match ly[p]? with
    | none => ((ly, keep), j)
    | some n =>
      let t := if cfg.useCache then ((cs j).get n.state n.depth).getD none else none
      match t with
      | some t => if n.value > t.value then ((ly, keep ++ [p]), j + 1)
                  else ((ly.set p { n with cache := true, theta := some t.value }, keep), j + 1)
      | none => ((ly, keep ++ [p]), j + 1)) ((layer, []), k)

/-- `stepLayer` against the changing cache -/
def stepLayerO (cfg : Cfg S K) (cs : Nat → Cache S) (k : Nat) (dd : DD S K) (var : Nat) :
    (Option (DD S K) × Outcome) × Nat :=
  if dd.next.isEmpty then
    ((some { dd with layers := dd.layers ++ [[]] }, .cutoff), k)
  else
    let layer := dd.next
    let cur := List.range layer.length
    let ((layer, cur), k) := if dd.layers.isEmpty then ((layer, cur), k) else filterCacheO cfg cs k layer cur
    let before := cur.length
    let (layer, cur, store, okDom) := filterDom cfg dd.store layer cur
    let ndom := dd.ndom + (before - cur.length)
    if !okDom then ((none, .crash), k) else
    match squash cfg dd layer cur with
    | none => ((none, .crash), k)
    | some (layer, cur, log, lel) =>
      let lidx := dd.layers.length
      let (layer, next, log) := expandAll cfg var lidx layer cur log
      ((some { dd with layers := dd.layers ++ [layer], next := next, depth := dd.depth + 1, lel := lel, store := store, log := log, ndom := ndom }, .ok), k)

/-- `buildLoop` against the changing cache (`fuel`, then the read counter) -/
def buildLoopO (cfg : Cfg S K) (cs : Nat → Cache S) (stopAt : Option Nat) : Nat → Nat → DD S K → (DD S K × Outcome) × Nat
  | 0, k, dd => ((dd, .crash), k)
  | fuel + 1, k, dd =>
    let states := dd.next.map (·.state)
    let ans := cfg.P.nextVar dd.depth states
    let dd := { dd with log := Call.nextVar dd.depth states ans :: dd.log }
    match ans with
    | none => ((dd, .ok), k)
    | some var =>
      let dd := { dd with polls := dd.polls + 1 }
      if (match stopAt with | some k => decide (dd.polls ≥ k) | none => false) then ((dd, .cutoff), k)
      else
        match stepLayerO cfg cs k dd var with
        | ((none, _), k') => ((dd, .crash), k')
        | ((some dd', .cutoff), k') => ((dd', .ok), k')
        | ((some dd', .crash), k') => ((dd', .crash), k')
        | ((some dd', .ok), k') => buildLoopO cfg cs stopAt fuel k' dd'

/-- `compile` against the changing cache: the first three components of what `compile` returns (the cache field of the
    diagram is irrelevant; it is initialised with `cs 0`) -/
def compileO (cfg : Cfg S K) (cs : Nat → Cache S) (store : DomStore S K) (polls : Nat) (stopAt : Option Nat) :
    Outcome × Result S × Option (Result S) :=
  let ((dd, oc), _) := buildLoopO cfg cs stopAt (cfg.P.nbVars + 2) 0 (initDD cfg (cs 0) store polls)
  let empty : Result S := { outcome := oc, isExact := false, bestValue := none, bestExactValue := none, bestSol := none,
                            bestExactSol := none, cutset := [], cacheUpdates := [], expanded := [], polls := dd.polls }
  match oc with
  | .ok =>
    let b := finalizeLayers dd
    let relaxed := cfg.ctype == .relaxed
    let must := b.ebpMust relaxed
    let may := b.ebpMay relaxed
    let r1 := (finalize cfg b must).1
    (oc, r1, if may != must then some (finalize cfg b may).1 else none)
  | _ => (oc, empty, none)

/-! ## the part of `stepLayer` that does not look at the cache -/

def setCache (c : Cache S) (dd : DD S K) : DD S K := { dd with cache := c }

/-- `stepLayer` after `_filter_with_cache` -/
def stepRest (cfg : Cfg S K) (dd : DD S K) (var : Nat) (lc : List (Node S) × List Nat) : Option (DD S K) × Outcome :=
  let (layer, cur) := lc
  let before := cur.length
  let (layer, cur, store, okDom) := filterDom cfg dd.store layer cur
  let ndom := dd.ndom + (before - cur.length)
  if !okDom then (none, .crash) else
  match squash cfg dd layer cur with
  | none => (none, .crash)
  | some (layer, cur, log, lel) =>
    let lidx := dd.layers.length
    let (layer, next, log) := expandAll cfg var lidx layer cur log
    (some { dd with layers := dd.layers ++ [layer], next := next, depth := dd.depth + 1, lel := lel, store := store, log := log, ndom := ndom }, .ok)

theorem stepLayer_eq (cfg : Cfg S K) (dd : DD S K) (var : Nat) :
    stepLayer cfg dd var =
      if dd.next.isEmpty then (some { dd with layers := dd.layers ++ [[]] }, .cutoff)
      else stepRest cfg dd var (if dd.layers.isEmpty then (dd.next, List.range dd.next.length)
        else filterCache cfg dd.cache dd.next (List.range dd.next.length)) := rfl

theorem stepLayerO_eq (cfg : Cfg S K) (cs : Nat → Cache S) (k : Nat) (dd : DD S K) (var : Nat) :
    stepLayerO cfg cs k dd var =
      if dd.next.isEmpty then ((some { dd with layers := dd.layers ++ [[]] }, .cutoff), k)
      else
        (stepRest cfg dd var (if dd.layers.isEmpty then ((dd.next, List.range dd.next.length), k)
          else filterCacheO cfg cs k dd.next (List.range dd.next.length)).1,
         (if dd.layers.isEmpty then ((dd.next, List.range dd.next.length), k)
          else filterCacheO cfg cs k dd.next (List.range dd.next.length)).2) := by
  unfold stepLayerO stepRest
  split
  · rfl
  · dsimp only
    generalize (if dd.layers.isEmpty then ((dd.next, List.range dd.next.length), k)
          else filterCacheO cfg cs k dd.next (List.range dd.next.length)) = r
    obtain ⟨⟨layer, cur⟩, k'⟩ := r
    dsimp only
    generalize filterDom cfg dd.store layer cur = fd
    obtain ⟨l1, c1, st, ok⟩ := fd
    dsimp only
    split
    · rfl
    · split
      · rfl
      · rfl

theorem stepRest_setCache (cfg : Cfg S K) (c : Cache S) (dd : DD S K) (var : Nat) (lc : List (Node S) × List Nat) :
    stepRest cfg (setCache c dd) var lc = ((stepRest cfg dd var lc).1.map (setCache c), (stepRest cfg dd var lc).2) := by
  unfold stepRest
  obtain ⟨layer, cur⟩ := lc
  dsimp only
  have e1 : (setCache c dd).store = dd.store := rfl
  have e2 : squash cfg (setCache c dd) = squash cfg dd := rfl
  rw [e1]
  generalize filterDom cfg dd.store layer cur = fd
  obtain ⟨l1, c1, st, ok⟩ := fd
  dsimp only
  rw [e2]
  split
  · rfl
  · split
    · rfl
    · rfl

/-! ## `_filter_with_cache`, step by step -/

/-- a read: the cell `(state, depth)` and the read index -/
abbrev Read (S : Type) := S × Nat × Nat

/-- the answer to the read `e` -/
def ansOf (cs : Nat → Cache S) (e : Read S) : Option Thr := ((cs e.2.2).get e.1 e.2.1).getD none

/-- the cache `cv` answers the read `e` as `cs` did -/
def Agree (cv : Cache S) (cs : Nat → Cache S) (e : Read S) : Prop := (cv.get e.1 e.2.1).getD none = ansOf cs e

def lookupO (cfg : Cfg S K) (cs : Nat → Cache S) (j : Nat) (n : Node S) : Option Thr :=
  if cfg.useCache then ((cs j).get n.state n.depth).getD none else none

def fcNodeA (a : Option Thr) (n : Node S) : Node S :=
  match a with
  | some t => if n.value > t.value then n else { n with cache := true, theta := some t.value }
  | none => n

def fcKeepA (a : Option Thr) (n : Node S) : Bool :=
  match a with
  | some t => decide (n.value > t.value)
  | none => true

def fcStepO (cfg : Cfg S K) (cs : Nat → Cache S) (acc : (List (Node S) × List Nat) × Nat) (p : Nat) :
    (List (Node S) × List Nat) × Nat :=
  match acc.1.1[p]? with
  | none => acc
  | some n => ((acc.1.1.set p (fcNodeA (lookupO cfg cs acc.2 n) n),
      if fcKeepA (lookupO cfg cs acc.2 n) n then acc.1.2 ++ [p] else acc.1.2), acc.2 + 1)

theorem filterCacheO_eq (cfg : Cfg S K) (cs : Nat → Cache S) (k : Nat) (layer : List (Node S)) (cur : List Nat) :
    filterCacheO cfg cs k layer cur = cur.foldl (fcStepO cfg cs) ((layer, []), k) := by
  unfold filterCacheO
  congr 1
  funext acc p
  obtain ⟨⟨ly, keep⟩, j⟩ := acc
  unfold fcStepO fcNodeA fcKeepA lookupO
  dsimp only
  cases hp : ly[p]? with
  | none => rfl
  | some n =>
    dsimp only
    cases ht : (if cfg.useCache = true then ((cs j).get n.state n.depth).getD none else none) with
    | none =>
      dsimp only
      rw [Cover.set_same _ _ _ hp]
      rfl
    | some t =>
      dsimp only
      by_cases hv : n.value > t.value
      · simp only [hv, if_true, decide_true]
        rw [Cover.set_same _ _ _ hp]
      · simp only [hv, if_false, decide_false]
        rfl

/-- the reads issued by the fold, in issue order -/
def fcReads (cfg : Cfg S K) (cs : Nat → Cache S) : List Nat → (List (Node S) × List Nat) × Nat → List (Read S)
  | [], _ => []
  | p :: cur, acc =>
    (match acc.1.1[p]? with | none => [] | some n => [(n.state, n.depth, acc.2)]) ++ fcReads cfg cs cur (fcStepO cfg cs acc p)

theorem fcStep_agree (cfg : Cfg S K) (cs : Nat → Cache S) (cv : Cache S) (acc : (List (Node S) × List Nat) × Nat) (p : Nat)
    (h : ∀ n, acc.1.1[p]? = some n → Agree cv cs (n.state, n.depth, acc.2)) :
    Theta.fcStep cfg cv acc.1 p = (fcStepO cfg cs acc p).1 := by
  unfold Theta.fcStep fcStepO
  cases hp : acc.1.1[p]? with
  | none => rfl
  | some n =>
    dsimp only
    have hl : Theta.lookup cfg cv n = lookupO cfg cs acc.2 n := by
      unfold Theta.lookup lookupO
      have := h n hp
      unfold Agree ansOf at this
      dsimp only at this
      rw [this]
    have e1 : Theta.fcNode cfg cv n = fcNodeA (lookupO cfg cs acc.2 n) n := by
      unfold Theta.fcNode fcNodeA; rw [hl]; cases lookupO cfg cs acc.2 n <;> rfl
    have e2 : Theta.fcKeep cfg cv n = fcKeepA (lookupO cfg cs acc.2 n) n := by
      unfold Theta.fcKeep fcKeepA; rw [hl]; cases lookupO cfg cs acc.2 n <;> rfl
    rw [e1, e2]

theorem fcFold_sim (cfg : Cfg S K) (cs : Nat → Cache S) (cv : Cache S) :
    ∀ (cur : List Nat) (acc : (List (Node S) × List Nat) × Nat),
      (∀ e ∈ fcReads cfg cs cur acc, Agree cv cs e) →
      cur.foldl (Theta.fcStep cfg cv) acc.1 = (cur.foldl (fcStepO cfg cs) acc).1 := by
  intro cur
  induction cur with
  | nil => intro acc _; rfl
  | cons p cur ih =>
    intro acc h
    rw [List.foldl_cons, List.foldl_cons]
    have h1 : Theta.fcStep cfg cv acc.1 p = (fcStepO cfg cs acc p).1 := by
      apply fcStep_agree
      intro n hn
      apply h
      unfold fcReads
      rw [hn]
      exact List.mem_append_left _ List.mem_cons_self
    rw [h1]
    apply ih
    intro e he
    apply h
    unfold fcReads
    exact List.mem_append_right _ he

/-- **`_filter_with_cache`**: against any cache that answers the reads of this call as the changing cache did, the
    result is the same -/
theorem filterCacheO_sim (cfg : Cfg S K) (cs : Nat → Cache S) (cv : Cache S) (k : Nat) (layer : List (Node S))
    (cur : List Nat) (h : ∀ e ∈ fcReads cfg cs cur ((layer, []), k), Agree cv cs e) :
    filterCache cfg cv layer cur = (filterCacheO cfg cs k layer cur).1 := by
  rw [Theta.filterCache_eq, filterCacheO_eq]
  exact fcFold_sim cfg cs cv cur ((layer, []), k) h

/-! ## one layer step, the loop -/

/-- the reads issued by one layer step (the root layer is not filtered) -/
def stepReads (cfg : Cfg S K) (cs : Nat → Cache S) (k : Nat) (dd : DD S K) : List (Read S) :=
  if dd.next.isEmpty then [] else if dd.layers.isEmpty then []
  else fcReads cfg cs (List.range dd.next.length) ((dd.next, []), k)

theorem stepLayer_setCache_eq (cfg : Cfg S K) (cv : Cache S) (dd : DD S K) (var : Nat) :
    stepLayer cfg (setCache cv dd) var =
      if dd.next.isEmpty then (some (setCache cv { dd with layers := dd.layers ++ [[]] }), .cutoff)
      else stepRest cfg (setCache cv dd) var (if dd.layers.isEmpty then (dd.next, List.range dd.next.length)
        else filterCache cfg cv dd.next (List.range dd.next.length)) := rfl

theorem stepLayerO_sim (cfg : Cfg S K) (cs : Nat → Cache S) (cv : Cache S) (k : Nat) (dd : DD S K) (var : Nat)
    (h : ∀ e ∈ stepReads cfg cs k dd, Agree cv cs e) :
    stepLayer cfg (setCache cv dd) var =
      ((stepLayerO cfg cs k dd var).1.1.map (setCache cv), (stepLayerO cfg cs k dd var).1.2) := by
  rw [stepLayer_setCache_eq, stepLayerO_eq]
  unfold stepReads at h
  by_cases h1 : dd.next.isEmpty = true
  · rw [if_pos h1, if_pos h1]; rfl
  · rw [if_neg h1, if_neg h1]
    rw [if_neg h1] at h
    rw [stepRest_setCache]
    by_cases h2 : dd.layers.isEmpty = true
    · rw [if_pos h2, if_pos h2]
    · rw [if_neg h2, if_neg h2]
      rw [if_neg h2] at h
      rw [filterCacheO_sim cfg cs cv k dd.next _ h]

/-- the reads issued by the loop, in issue order -/
def loopReads (cfg : Cfg S K) (cs : Nat → Cache S) (stopAt : Option Nat) : Nat → Nat → DD S K → List (Read S)
  | 0, _, _ => []
  | fuel + 1, k, dd =>
    let states := dd.next.map (·.state)
    let ans := cfg.P.nextVar dd.depth states
    let dd := { dd with log := Call.nextVar dd.depth states ans :: dd.log }
    match ans with
    | none => []
    | some var =>
      let dd := { dd with polls := dd.polls + 1 }
      if (match stopAt with | some k => decide (dd.polls ≥ k) | none => false) then []
      else
        stepReads cfg cs k dd ++
        match stepLayerO cfg cs k dd var with
        | ((some dd', .ok), k') => loopReads cfg cs stopAt fuel k' dd'
        | _ => []

/-- **the loop**: against any cache that answers the reads of the run as the changing cache did, `buildLoop` returns the
    same diagram (up to its `cache` field) and the same outcome -/
theorem buildLoopO_sim (cfg : Cfg S K) (cs : Nat → Cache S) (cv : Cache S) (stopAt : Option Nat) :
    ∀ (fuel k : Nat) (dd : DD S K), (∀ e ∈ loopReads cfg cs stopAt fuel k dd, Agree cv cs e) →
      buildLoop cfg stopAt fuel (setCache cv dd) =
        (setCache cv (buildLoopO cfg cs stopAt fuel k dd).1.1, (buildLoopO cfg cs stopAt fuel k dd).1.2) := by
  cases stopAt <;> intro fuel <;> induction fuel with
  | zero => intro k dd _; rfl
  | succ fuel ih =>
    intro k dd h
    unfold buildLoop buildLoopO
    unfold loopReads at h
    have en : (setCache cv dd).next = dd.next := rfl
    have ed : (setCache cv dd).depth = dd.depth := rfl
    dsimp only at h ⊢
    rw [en, ed]
    cases hans : cfg.P.nextVar dd.depth (dd.next.map (·.state)) with
    | none => rfl
    | some var =>
      rw [hans] at h
      dsimp only at h ⊢
      have ep : (setCache cv dd).polls = dd.polls := rfl
      rw [ep]
      split
      · rfl
      · rename_i hstop
        rw [if_neg hstop] at h
        generalize hdd1 : (DD.mk dd.layers dd.next dd.depth dd.lel dd.cache dd.store
          (Call.nextVar dd.depth (dd.next.map (·.state)) (some var) :: dd.log) dd.cacheLog (dd.polls + 1) dd.ndom) = dd1 at h ⊢
        have hsc : (DD.mk (setCache cv dd).layers dd.next dd.depth (setCache cv dd).lel (setCache cv dd).cache
            (setCache cv dd).store (Call.nextVar dd.depth (dd.next.map (·.state)) (some var) :: (setCache cv dd).log)
            (setCache cv dd).cacheLog (dd.polls + 1) (setCache cv dd).ndom) = setCache cv dd1 := by
          rw [← hdd1]; rfl
        rw [hsc]
        rw [stepLayerO_sim cfg cs cv k dd1 var (fun e he => h e (List.mem_append_left _ he))]
        generalize hr : stepLayerO cfg cs k dd1 var = r at h
        obtain ⟨⟨o, oc⟩, k'⟩ := r
        cases o with
        | none => rfl
        | some dd' =>
          cases oc with
          | cutoff => rfl
          | crash => rfl
          | ok =>
            dsimp only [Option.map_some]
            exact ih k' dd' (fun e he => h e (List.mem_append_right _ he))

/-! ## `compile` -/

theorem finalizeLayers_setCache (c : Cache S) (dd : DD S K) :
    finalizeLayers (setCache c dd) = { finalizeLayers dd with dd := setCache c dd } := by
  unfold finalizeLayers
  have e1 : (setCache c dd).next = dd.next := rfl
  have e2 : (setCache c dd).layers = dd.layers := rfl
  have e3 : (setCache c dd).lel = dd.lel := rfl
  rw [e1, e2, e3]

theorem finalize_setCache (cfg : Cfg S K) (c : Cache S) (b : Built S K) (e : Bool) :
    finalize cfg { b with dd := setCache c b.dd } e = finalize cfg b e := rfl

theorem ebpMust_setCache (c : Cache S) (b : Built S K) (r : Bool) :
    Built.ebpMust { b with dd := setCache c b.dd } r = b.ebpMust r := rfl
theorem ebpMay_setCache (c : Cache S) (b : Built S K) (r : Bool) :
    Built.ebpMay { b with dd := setCache c b.dd } r = b.ebpMay r := rfl

/-- the reads issued by the whole compilation -/
def compileReads (cfg : Cfg S K) (cs : Nat → Cache S) (store : DomStore S K) (polls : Nat) (stopAt : Option Nat) :
    List (Read S) :=
  loopReads cfg cs stopAt (cfg.P.nbVars + 2) 0 (initDD cfg (cs 0) store polls)

/-- against any cache that answers the reads of the compilation as the changing cache did, `compile` returns the same -/
theorem compileO_of_agree (cfg : Cfg S K) (cs : Nat → Cache S) (cv : Cache S) (store : DomStore S K) (polls : Nat)
    (stopAt : Option Nat) (h : ∀ e ∈ compileReads cfg cs store polls stopAt, Agree cv cs e) :
    compileO cfg cs store polls stopAt =
      ((compile cfg cv store polls stopAt).1, (compile cfg cv store polls stopAt).2.1,
       (compile cfg cv store polls stopAt).2.2.1) := by
  have hsim := buildLoopO_sim cfg cs cv stopAt (cfg.P.nbVars + 2) 0 (initDD cfg (cs 0) store polls) h
  have hinit : setCache cv (initDD cfg (cs 0) store polls) = initDD cfg cv store polls := rfl
  rw [hinit] at hsim
  unfold compile compileO
  rw [hsim]
  generalize buildLoopO cfg cs stopAt (cfg.P.nbVars + 2) 0 (initDD cfg (cs 0) store polls) = r
  obtain ⟨⟨dd, oc⟩, k⟩ := r
  dsimp only
  cases oc with
  | ok =>
    dsimp only
    rw [finalizeLayers_setCache]
    rfl
  | cutoff => rfl
  | crash => rfl

/-- sanity: against a cache that does not change, `compileO` is `compile` -/
theorem compileO_const (cfg : Cfg S K) (cache : Cache S) (store : DomStore S K) (polls : Nat) (stopAt : Option Nat) :
    compileO cfg (fun _ => cache) store polls stopAt =
      ((compile cfg cache store polls stopAt).1, (compile cfg cache store polls stopAt).2.1,
       (compile cfg cache store polls stopAt).2.2.1) :=
  compileO_of_agree cfg (fun _ => cache) cache store polls stopAt (fun _ _ => rfl)

/-! ## the virtual cache built from the reads -/

/-- the cell of a read -/
def cellOf (e : Read S) : S × Nat := (e.1, e.2.1)

/-- no cell is read twice -/
def Distinct (log : List (Read S)) : Prop := log.Pairwise (fun a b => cellOf a ≠ cellOf b)

/-- layer `d` of the virtual cache: the non-empty answers to the reads at depth `d` -/
def layerOf (cs : Nat → Cache S) (d : Nat) : List (Read S) → CLayer S
  | [] => []
  | e :: r =>
    match (if e.2.1 = d then ansOf cs e else none) with
    | some t => (e.1, t) :: layerOf cs d r
    | none => layerOf cs d r

/-- the virtual cache: `n` layers, layer `d` holds the non-empty answers to the reads at depth `d` -/
def virtCache (cs : Nat → Cache S) (n : Nat) (log : List (Read S)) : Cache S :=
  ⟨(List.range n).map (fun d => layerOf cs d log)⟩

theorem virt_get (cs : Nat → Cache S) (n : Nat) (log : List (Read S)) (s : S) (d : Nat) :
    (virtCache cs n log).get s d = if d < n then some ((layerOf cs d log).get s) else none := by
  unfold Cache.get virtCache
  dsimp only
  by_cases hd : d < n
  · rw [if_pos hd, List.getElem?_map, List.getElem?_range hd]; rfl
  · rw [if_neg hd, List.getElem?_eq_none (by rw [List.length_map, List.length_range]; omega)]

theorem layerOf_cons_some (cs : Nat → Cache S) (d : Nat) (e : Read S) (r : List (Read S)) (t : Thr)
    (h : (if e.2.1 = d then ansOf cs e else none) = some t) :
    layerOf cs d (e :: r) = (e.1, t) :: layerOf cs d r := by
  rw [layerOf, h]
theorem layerOf_cons_none (cs : Nat → Cache S) (d : Nat) (e : Read S) (r : List (Read S))
    (h : (if e.2.1 = d then ansOf cs e else none) = none) :
    layerOf cs d (e :: r) = layerOf cs d r := by
  rw [layerOf, h]

theorem ite_some_elim {d d' : Nat} {a : Option Thr} {t : Thr} (h : (if d' = d then a else none) = some t) :
    d' = d ∧ a = some t := by
  by_cases hd : d' = d
  · rw [if_pos hd] at h; exact ⟨hd, h⟩
  · rw [if_neg hd] at h; cases h

/-- every entry of the virtual cache is the answer to a read -/
theorem layerOf_get_some (cs : Nat → Cache S) (d : Nat) (s : S) (t : Thr) :
    ∀ (log : List (Read S)), (layerOf cs d log).get s = some t →
      ∃ e ∈ log, e.1 = s ∧ e.2.1 = d ∧ ansOf cs e = some t := by
  intro log
  induction log with
  | nil => intro h; simp [layerOf, CLayer.get] at h
  | cons e r ih =>
    intro h
    cases ha : (if e.2.1 = d then ansOf cs e else none) with
    | none =>
      rw [layerOf_cons_none cs d e r ha] at h
      obtain ⟨e', he', h'⟩ := ih h
      exact ⟨e', List.mem_cons_of_mem _ he', h'⟩
    | some t' =>
      rw [layerOf_cons_some cs d e r t' ha] at h
      obtain ⟨hd, hans⟩ := ite_some_elim ha
      unfold CLayer.get at h
      by_cases hs : e.1 = s
      · rw [if_pos hs] at h
        injection h with h
        exact ⟨e, List.mem_cons_self, hs, hd, by rw [hans, h]⟩
      · rw [if_neg hs] at h
        obtain ⟨e', he', h'⟩ := ih h
        exact ⟨e', List.mem_cons_of_mem _ he', h'⟩

/-- when no cell is read twice, the virtual cache holds, in the cell of a read, exactly the answer to that read -/
theorem layerOf_get_of_mem (cs : Nat → Cache S) (d : Nat) :
    ∀ (log : List (Read S)), Distinct log → ∀ e ∈ log, e.2.1 = d → (layerOf cs d log).get e.1 = ansOf cs e := by
  intro log
  induction log with
  | nil => intro _ e he; cases he
  | cons e0 r ih =>
    intro hD e he hd
    obtain ⟨hD0, hDr⟩ := List.pairwise_cons.mp hD
    rcases List.mem_cons.mp he with rfl | her
    · cases ha : ansOf cs e with
      | some t =>
        rw [layerOf_cons_some cs d e r t (by rw [if_pos hd, ha])]
        unfold CLayer.get
        rw [if_pos rfl]
      | none =>
        rw [layerOf_cons_none cs d e r (by rw [if_pos hd, ha])]
        cases hg : (layerOf cs d r).get e.1 with
        | none => rfl
        | some t =>
          obtain ⟨e', he', h1, h2, _⟩ := layerOf_get_some cs d e.1 t r hg
          exfalso
          apply hD0 e' he'
          unfold cellOf
          rw [h1, h2, hd]
    · cases ha : (if e0.2.1 = d then ansOf cs e0 else none) with
      | none =>
        rw [layerOf_cons_none cs d e0 r ha]
        exact ih hDr e her hd
      | some t' =>
        rw [layerOf_cons_some cs d e0 r t' ha]
        obtain ⟨hd0, _⟩ := ite_some_elim ha
        unfold CLayer.get
        have hs : ¬ e0.1 = e.1 := by
          intro hs
          apply hD0 e her
          unfold cellOf
          rw [hs, hd0, hd]
        rw [if_neg hs]
        exact ih hDr e her hd

theorem virt_agree (cs : Nat → Cache S) (n : Nat) (log : List (Read S)) (hD : Distinct log)
    (hn : ∀ e ∈ log, ∀ t, ansOf cs e = some t → e.2.1 < n) : ∀ e ∈ log, Agree (virtCache cs n log) cs e := by
  intro e he
  unfold Agree
  rw [virt_get]
  by_cases hd : e.2.1 < n
  · rw [if_pos hd]
    exact layerOf_get_of_mem cs e.2.1 log hD e he rfl
  · rw [if_neg hd]
    cases ha : ansOf cs e with
    | none => rfl
    | some t => exact absurd (hn e he t ha) hd

theorem virt_entry (cs : Nat → Cache S) (n : Nat) (log : List (Read S)) (s : S) (d : Nat) (t : Thr)
    (h : (virtCache cs n log).get s d = some (some t)) : ∃ j, (cs j).get s d = some (some t) := by
  rw [virt_get] at h
  by_cases hd : d < n
  · rw [if_pos hd] at h
    injection h with h
    obtain ⟨e, _, h1, h2, h3⟩ := layerOf_get_some cs d s t log h
    refine ⟨e.2.2, ?_⟩
    unfold ansOf at h3
    rw [h1, h2] at h3
    cases hg : (cs e.2.2).get s d with
    | none => rw [hg] at h3; cases h3
    | some o => rw [hg] at h3; exact congrArg some h3
  · rw [if_neg hd] at h; cases h

theorem virt_len (cs : Nat → Cache S) (n : Nat) (log : List (Read S)) : (virtCache cs n log).layers.length = n := by
  unfold virtCache
  dsimp only
  rw [List.length_map, List.length_range]

/-! ## no cell is read twice: the invariant of the loop -/

/-- the states of the layer under construction are pairwise distinct and all its nodes have depth `dd.depth` -/
def NextInv (dd : DD S K) : Prop := (dd.next.map (·.state)).Nodup ∧ ∀ n ∈ dd.next, n.depth = dd.depth

theorem filterDom_depth (cfg : Cfg S K) (store : DomStore S K) (layer : List (Node S)) (cur : List Nat) (D : Nat)
    (h : ∀ n ∈ layer, n.depth = D) : ∀ n ∈ (filterDom cfg store layer cur).1, n.depth = D := by
  unfold filterDom
  split
  · exact h
  · rename_i Dr _
    dsimp only
    refine Cover.foldl_inv (β := List (Node S) × List Nat × DomStore S K × Bool)
      (fun acc => ∀ n ∈ acc.1, n.depth = D) _ _ _ h ?_
    rintro ⟨ly, keep, st, ok⟩ p _ h
    dsimp only at h ⊢
    split
    · exact h
    · rename_i n hn
      split
      · split
        · exact h
        · split
          · exact Bounds.forall_set h p (h n (List.mem_of_getElem? hn))
          · exact h
      · exact h

theorem restrictLayer_depth (cfg : Cfg S K) (layer : List (Node S)) (cur : List Nat) (D : Nat)
    (h : ∀ n ∈ layer, n.depth = D) : ∀ n ∈ (restrictLayer cfg layer cur).1, n.depth = D := by
  unfold restrictLayer
  dsimp only
  refine Cover.foldl_inv (β := List (Node S)) (fun acc => ∀ n ∈ acc, n.depth = D) _ _ _ h ?_
  intro ly p _ h
  split
  · rename_i n hn
    exact Bounds.forall_set h p (h n (List.mem_of_getElem? hn))
  · exact h

theorem squash_depth (cfg : Cfg S K) (dd : DD S K) (layer : List (Node S)) (cur : List Nat)
    (l : List (Node S)) (c : List Nat) (lg : List (Call S)) (lel : Option Nat) (D : Nat)
    (h : squash cfg dd layer cur = some (l, c, lg, lel))
    (hD : ∀ n ∈ layer, n.depth = D) (hcur : ∀ p ∈ cur, p < layer.length) : ∀ n ∈ l, n.depth = D := by
  unfold squash at h
  dsimp only at h
  split at h
  · cases h
  · rename_i hW
    split at h
    · cases h
    · split at h
      · simp only [Option.some.injEq, Prod.mk.injEq] at h
        obtain ⟨rfl, _, _, _⟩ := h
        exact restrictLayer_depth cfg layer cur D hD
      · split at h
        · rename_i hrel
          simp only [Option.some.injEq, Prod.mk.injEq] at h
          obtain ⟨rfl, _, _, _⟩ := h
          simp only [hrel, Bool.true_and, beq_iff_eq] at hW
          simp only [Bool.and_eq_true, beq_iff_eq, decide_eq_true_eq] at hrel
          have hd0 : Theta.d0Of cfg layer cur = D := Theta.d0Of_eq cfg layer cur D (by omega) hrel.1.2 hcur hD
          refine Theta.relaxLayer_forallD (fun n => n.depth = D) cfg dd.layers layer cur dd.log ?_ (fun n h => h)
            (fun n b h => h) ?_ hD
          · exact hd0
          · intro dropN _ e _ src m hm
            exact (Theta.appendEdge_flds src m _).1.trans hm
        · simp only [Option.some.injEq, Prod.mk.injEq] at h
          obtain ⟨rfl, _, _, _⟩ := h
          exact hD

/-- the part of a successful layer step after `_filter_with_cache` re-establishes the invariant, one level deeper -/
theorem stepRest_inv (cfg : Cfg S K) (dd dd' : DD S K) (var : Nat) (layer : List (Node S)) (cur : List Nat)
    (h : stepRest cfg dd var (layer, cur) = (some dd', .ok))
    (hD : ∀ n ∈ layer, n.depth = dd.depth) (hcur : ∀ p ∈ cur, p < layer.length) :
    NextInv dd' ∧ dd'.depth = dd.depth + 1 := by
  unfold stepRest at h
  dsimp only at h
  have f1 := filterDom_depth cfg dd.store layer cur dd.depth hD
  have f2 := (C12.filterDom_keep cfg dd.store layer cur).2.2
  have f3 : (filterDom cfg dd.store layer cur).1.length = layer.length := by
    have := congrArg List.length (C12.filterDom_keep cfg dd.store layer cur).1
    rw [List.length_map, List.length_map] at this
    exact this
  generalize filterDom cfg dd.store layer cur = fd at h f1 f2 f3
  obtain ⟨l1, c1, st, ok⟩ := fd
  dsimp only at h f1 f2 f3
  split at h
  · cases h
  · split at h
    · cases h
    · rename_i l2 c2 lg lel hsq
      have hl2 : ∀ n ∈ l2, n.depth = dd.depth :=
        squash_depth cfg dd l1 c1 l2 c2 lg lel dd.depth hsq f1 (fun p hp => by rw [f3]; exact hcur p (f2 p hp))
      simp only [Prod.mk.injEq, Option.some.injEq, and_true] at h
      subst h
      refine ⟨⟨?_, ?_⟩, rfl⟩
      · dsimp only
        unfold expandAll
        exact CacheClosedB.fold_nodup cfg var dd.layers.length c2 (l2, [], lg) List.nodup_nil
      · dsimp only
        unfold expandAll
        refine Theta.fold_childrenP (fun m => m.depth = dd.depth + 1) (fun n => n.depth = dd.depth)
          cfg var dd.layers.length c2 (l2, [], lg) (fun n r h => h) ?_ ?_ hl2
          (fun m hm => absurd hm List.not_mem_nil)
        · intro q par d n _ hn
          exact (Theta.appendEdge_flds par n _).1.trans hn
        · intro q par d hp
          rw [(Theta.appendEdge_flds par _ _).1]
          simp only [Cover.freshNode]
          rw [hp]

/-- the cells of the nodes of a layer, position-wise -/
def cellsOf (ly : List (Node S)) : List (S × Nat) := ly.map (fun n => (n.state, n.depth))

theorem fcNodeA_cell (a : Option Thr) (n : Node S) :
    (fcNodeA a n).state = n.state ∧ (fcNodeA a n).depth = n.depth := by
  unfold fcNodeA
  cases a with
  | none => exact ⟨rfl, rfl⟩
  | some t => dsimp only; split <;> exact ⟨rfl, rfl⟩

theorem fcStepO_facts (cfg : Cfg S K) (cs : Nat → Cache S) (acc : (List (Node S) × List Nat) × Nat) (p : Nat) :
    cellsOf (fcStepO cfg cs acc p).1.1 = cellsOf acc.1.1 ∧
    (∀ q ∈ (fcStepO cfg cs acc p).1.2, q ∈ acc.1.2 ∨ q = p) := by
  unfold fcStepO
  cases hp : acc.1.1[p]? with
  | none => exact ⟨rfl, fun q hq => .inl hq⟩
  | some n =>
    dsimp only
    refine ⟨?_, ?_⟩
    · unfold cellsOf
      refine C12.map_set_same _ _ p n _ hp ?_
      rw [(fcNodeA_cell _ n).1, (fcNodeA_cell _ n).2]
    · intro q hq
      split at hq
      · rcases List.mem_append.mp hq with hq | hq
        · exact .inl hq
        · exact .inr (List.mem_singleton.mp hq)
      · exact .inl hq

theorem fcFold_facts (cfg : Cfg S K) (cs : Nat → Cache S) :
    ∀ (cur : List Nat) (acc : (List (Node S) × List Nat) × Nat),
      cellsOf (cur.foldl (fcStepO cfg cs) acc).1.1 = cellsOf acc.1.1 ∧
      (∀ q ∈ (cur.foldl (fcStepO cfg cs) acc).1.2, q ∈ acc.1.2 ∨ q ∈ cur) := by
  intro cur
  induction cur with
  | nil => intro acc; exact ⟨rfl, fun q hq => .inl hq⟩
  | cons p cur ih =>
    intro acc
    rw [List.foldl_cons]
    obtain ⟨i1, i2⟩ := ih (fcStepO cfg cs acc p)
    obtain ⟨s1, s2⟩ := fcStepO_facts cfg cs acc p
    refine ⟨i1.trans s1, fun q hq => ?_⟩
    rcases i2 q hq with h | h
    · rcases s2 q h with h | h
      · exact .inl h
      · exact .inr (h ▸ List.mem_cons_self)
    · exact .inr (List.mem_cons_of_mem _ h)

/-- the cells read by the fold: those of the nodes at the positions examined, in order -/
theorem fcReads_cells (cfg : Cfg S K) (cs : Nat → Cache S) :
    ∀ (cur : List Nat) (acc : (List (Node S) × List Nat) × Nat),
      (fcReads cfg cs cur acc).map cellOf = cur.filterMap (fun p => (cellsOf acc.1.1)[p]?) := by
  intro cur
  induction cur with
  | nil => intro acc; rfl
  | cons p cur ih =>
    intro acc
    unfold fcReads
    rw [List.map_append, ih, (fcStepO_facts cfg cs acc p).1, List.filterMap_cons]
    have hc : (cellsOf acc.1.1)[p]? = (acc.1.1[p]?).map (fun n => (n.state, n.depth)) := by
      unfold cellsOf; rw [List.getElem?_map]
    rw [hc]
    cases hp : acc.1.1[p]? with
    | none => rfl
    | some n => rfl

theorem cellsOf_nodup (ly : List (Node S)) (h : (ly.map (·.state)).Nodup) : (cellsOf ly).Nodup := by
  unfold cellsOf
  rw [List.nodup_iff_pairwise_ne, List.pairwise_map] at h ⊢
  refine List.Pairwise.imp ?_ h
  intro a b hab hcell
  exact hab (congrArg Prod.fst hcell)

/-- inside one `_filter_with_cache` no cell is read twice, and every cell read is the cell of a node of the layer -/
theorem fcReads_ok (cfg : Cfg S K) (cs : Nat → Cache S) (k : Nat) (layer : List (Node S))
    (h : (layer.map (·.state)).Nodup) :
    Distinct (fcReads cfg cs (List.range layer.length) ((layer, []), k)) ∧
    ∀ e ∈ fcReads cfg cs (List.range layer.length) ((layer, []), k), ∃ n ∈ layer, e.1 = n.state ∧ e.2.1 = n.depth := by
  have hcells := fcReads_cells cfg cs (List.range layer.length) ((layer, []), k)
  dsimp only at hcells
  have hnd := cellsOf_nodup layer h
  refine ⟨?_, ?_⟩
  · unfold Distinct
    have : ((fcReads cfg cs (List.range layer.length) ((layer, []), k)).map cellOf).Nodup := by
      rw [hcells, List.nodup_iff_pairwise_ne]
      refine List.Pairwise.filterMap _ ?_ (List.nodup_iff_pairwise_ne.mp List.nodup_range)
      intro a a' haa b hb b' hb' hbb
      apply haa
      have hlt : a < (cellsOf layer).length := Cover.lt_of_getElem?_some hb
      exact (List.getElem?_inj hlt hnd).mp (by rw [hb, hb', hbb])
    rw [List.nodup_iff_pairwise_ne, List.pairwise_map] at this
    exact this
  · intro e he
    have hm : cellOf e ∈ (fcReads cfg cs (List.range layer.length) ((layer, []), k)).map cellOf :=
      List.mem_map_of_mem he
    rw [hcells] at hm
    obtain ⟨p, _, hp⟩ := List.mem_filterMap.mp hm
    unfold cellsOf at hp
    rw [List.getElem?_map] at hp
    cases hn : layer[p]? with
    | none => rw [hn] at hp; cases hp
    | some n =>
      rw [hn] at hp
      simp only [Option.map_some, Option.some.injEq] at hp
      refine ⟨n, List.mem_of_getElem? hn, ?_, ?_⟩
      · exact (congrArg Prod.fst hp).symm
      · exact (congrArg Prod.snd hp).symm

/-- the reads of one layer step: pairwise distinct states, all at depth `dd.depth` -/
theorem stepReads_ok (cfg : Cfg S K) (cs : Nat → Cache S) (k : Nat) (dd : DD S K) (hI : NextInv dd) :
    Distinct (stepReads cfg cs k dd) ∧ ∀ e ∈ stepReads cfg cs k dd, e.2.1 = dd.depth := by
  unfold stepReads
  split
  · exact ⟨List.Pairwise.nil, fun e he => absurd he List.not_mem_nil⟩
  · split
    · exact ⟨List.Pairwise.nil, fun e he => absurd he List.not_mem_nil⟩
    · obtain ⟨h1, h2⟩ := fcReads_ok cfg cs k dd.next hI.1
      refine ⟨h1, fun e he => ?_⟩
      obtain ⟨n, hn, _, hd⟩ := h2 e he
      rw [hd]; exact hI.2 n hn

/-- a successful layer step re-establishes the invariant, one level deeper -/
theorem stepLayerO_inv (cfg : Cfg S K) (cs : Nat → Cache S) (k k' : Nat) (dd dd' : DD S K) (var : Nat)
    (h : stepLayerO cfg cs k dd var = ((some dd', .ok), k')) (hI : NextInv dd) :
    NextInv dd' ∧ dd'.depth = dd.depth + 1 := by
  rw [stepLayerO_eq] at h
  split at h
  · simp only [Prod.mk.injEq, reduceCtorEq, and_false, false_and] at h
  · simp only [Prod.mk.injEq] at h
    obtain ⟨h, _⟩ := h
    split at h
    · refine stepRest_inv cfg dd dd' var dd.next (List.range dd.next.length) h hI.2 (fun p hp => List.mem_range.mp hp)
    · rw [filterCacheO_eq] at h
      obtain ⟨c1, c2⟩ := fcFold_facts cfg cs (List.range dd.next.length) ((dd.next, []), k)
      generalize (List.range dd.next.length).foldl (fcStepO cfg cs) ((dd.next, []), k) = r at h c1 c2
      obtain ⟨⟨ly, keep⟩, k2⟩ := r
      dsimp only at h c1 c2
      have hlen : ly.length = dd.next.length := by
        have := congrArg List.length c1
        unfold cellsOf at this
        rw [List.length_map, List.length_map] at this
        exact this
      refine stepRest_inv cfg dd dd' var ly keep h ?_ ?_
      · intro n hn
        obtain ⟨q, hq⟩ := List.mem_iff_getElem?.mp hn
        have hc : (cellsOf ly)[q]? = some (n.state, n.depth) := by
          unfold cellsOf; rw [List.getElem?_map, hq]; rfl
        rw [c1] at hc
        unfold cellsOf at hc
        rw [List.getElem?_map] at hc
        cases hm : dd.next[q]? with
        | none => rw [hm] at hc; cases hc
        | some m =>
          rw [hm] at hc
          simp only [Option.map_some, Option.some.injEq, Prod.mk.injEq] at hc
          rw [← hc.2]
          exact hI.2 m (List.mem_of_getElem? hm)
      · intro q hq
        rcases c2 q hq with h' | h'
        · cases h'
        · rw [hlen]; exact List.mem_range.mp h'

/-- **one compilation never reads the same cell twice**: the reads of the loop are pairwise distinct cells, at depths
    `dd.depth ≤ · < dd.depth + fuel` -/
theorem loopReads_ok (cfg : Cfg S K) (cs : Nat → Cache S) (stopAt : Option Nat) :
    ∀ (fuel k : Nat) (dd : DD S K), NextInv dd →
      Distinct (loopReads cfg cs stopAt fuel k dd) ∧
      ∀ e ∈ loopReads cfg cs stopAt fuel k dd, dd.depth ≤ e.2.1 ∧ e.2.1 < dd.depth + fuel := by
  cases stopAt <;> intro fuel <;> induction fuel with
  | zero => intro k dd _; exact ⟨List.Pairwise.nil, fun e he => absurd he List.not_mem_nil⟩
  | succ fuel ih =>
    intro k dd hI
    unfold loopReads
    dsimp only
    cases hans : cfg.P.nextVar dd.depth (dd.next.map (·.state)) with
    | none => exact ⟨List.Pairwise.nil, fun e he => absurd he List.not_mem_nil⟩
    | some var =>
      dsimp only
      split
      · exact ⟨List.Pairwise.nil, fun e he => absurd he List.not_mem_nil⟩
      · generalize hdd1 : (DD.mk dd.layers dd.next dd.depth dd.lel dd.cache dd.store
          (Call.nextVar dd.depth (dd.next.map (·.state)) (some var) :: dd.log) dd.cacheLog (dd.polls + 1) dd.ndom) = dd1
        have hI1 : NextInv dd1 := by rw [← hdd1]; exact hI
        have hdep : dd1.depth = dd.depth := by rw [← hdd1]
        obtain ⟨s1, s2⟩ := stepReads_ok cfg cs k dd1 hI1
        rw [hdep] at s2
        generalize hr : stepLayerO cfg cs k dd1 var = r
        obtain ⟨⟨o, oc⟩, k'⟩ := r
        have hnil : Distinct (stepReads cfg cs k dd1 ++ []) ∧
            ∀ e ∈ stepReads cfg cs k dd1 ++ [], dd.depth ≤ e.2.1 ∧ e.2.1 < dd.depth + (fuel + 1) := by
          rw [List.append_nil]
          exact ⟨s1, fun e he => by have := s2 e he; omega⟩
        cases o with
        | none => exact hnil
        | some dd' =>
          cases oc with
          | cutoff => exact hnil
          | crash => exact hnil
          | ok =>
            obtain ⟨hI', hd'⟩ := stepLayerO_inv cfg cs k k' dd1 dd' var hr hI1
            rw [hdep] at hd'
            obtain ⟨r1, r2⟩ := ih k' dd' hI'
            rw [hd'] at r2
            refine ⟨?_, ?_⟩
            · unfold Distinct
              refine List.pairwise_append.mpr ⟨s1, r1, ?_⟩
              intro a ha b hb hab
              have h1 := s2 a ha
              have h2 := (r2 b hb).1
              have h3 : a.2.1 = b.2.1 := congrArg Prod.snd hab
              omega
            · intro e he
              rcases List.mem_append.mp he with he | he
              · have := s2 e he; omega
              · have := r2 e he; omega

/-! ## the simulation theorem -/

theorem init_nextInv (cfg : Cfg S K) (cache : Cache S) (store : DomStore S K) (polls : Nat) :
    NextInv (initDD cfg cache store polls) := by
  refine ⟨?_, ?_⟩
  · exact List.nodup_cons.mpr ⟨List.not_mem_nil, List.nodup_nil⟩
  · intro n hn
    have hnext : (initDD cfg cache store polls).next =
        [{ state := cfg.root.state, value := cfg.root.value, depth := cfg.root.depth }] := rfl
    rw [hnext, List.mem_singleton] at hn
    rw [hn]; rfl

/-- **one compilation never reads the same cell `(state, depth)` twice**, and the depths it reads lie in
    `cfg.root.depth ≤ · < cfg.root.depth + cfg.P.nbVars + 2` -/
theorem compileReads_ok (cfg : Cfg S K) (cs : Nat → Cache S) (store : DomStore S K) (polls : Nat) (stopAt : Option Nat) :
    Distinct (compileReads cfg cs store polls stopAt) ∧
    ∀ e ∈ compileReads cfg cs store polls stopAt,
      cfg.root.depth ≤ e.2.1 ∧ e.2.1 < cfg.root.depth + (cfg.P.nbVars + 2) :=
  loopReads_ok cfg cs stopAt (cfg.P.nbVars + 2) 0 (initDD cfg (cs 0) store polls) (init_nextInv cfg (cs 0) store polls)

/-- the simulation theorem, side condition on the reads: every non-empty answer was read at a depth `< n` -/
theorem compileO_sim_of_reads (cfg : Cfg S K) (cs : Nat → Cache S) (store : DomStore S K) (polls : Nat)
    (stopAt : Option Nat) (n : Nat)
    (hn : ∀ e ∈ compileReads cfg cs store polls stopAt, ∀ t, ansOf cs e = some t → e.2.1 < n) :
    ∃ cv : Cache S, cv.layers.length = n ∧
      (∀ s d t, cv.get s d = some (some t) → ∃ j, (cs j).get s d = some (some t)) ∧
      compileO cfg cs store polls stopAt =
        ((compile cfg cv store polls stopAt).1, (compile cfg cv store polls stopAt).2.1,
         (compile cfg cv store polls stopAt).2.2.1) := by
  refine ⟨virtCache cs n (compileReads cfg cs store polls stopAt), virt_len cs n _, ?_, ?_⟩
  · intro s d t h
    exact virt_entry cs n _ s d t h
  · exact compileO_of_agree cfg cs _ store polls stopAt
      (virt_agree cs n _ (compileReads_ok cfg cs store polls stopAt).1 hn)

/-- **Simulation theorem.**  The compilation that ran against the changing cache `cs` (read `j` answered by `cs j`) is the
    compilation against ONE virtual cache `cv` with `n` layers, each of whose entries was an entry of `cs j` for some
    read index `j`.  Side condition (needed: an entry read at a depth `≥ n` cannot be stored in a cache with `n` layers):
    either no `cs j` has more than `n` layers, or `n` exceeds every depth the compilation can read. -/
theorem compileO_sim (cfg : Cfg S K) (cs : Nat → Cache S) (store : DomStore S K) (polls : Nat) (stopAt : Option Nat)
    (n : Nat) (hn : (∀ j, (cs j).layers.length ≤ n) ∨ cfg.root.depth + cfg.P.nbVars + 2 ≤ n) :
    ∃ cv : Cache S, cv.layers.length = n ∧
      (∀ s d t, cv.get s d = some (some t) → ∃ j, (cs j).get s d = some (some t)) ∧
      compileO cfg cs store polls stopAt =
        ((compile cfg cv store polls stopAt).1, (compile cfg cv store polls stopAt).2.1,
         (compile cfg cv store polls stopAt).2.2.1) := by
  apply compileO_sim_of_reads
  intro e he t ht
  rcases hn with hn | hn
  · unfold ansOf Cache.get at ht
    cases hl : (cs e.2.2).layers[e.2.1]? with
    | none => rw [hl] at ht; cases ht
    | some l =>
      have := Cover.lt_of_getElem?_some hl
      have := hn e.2.2
      omega
  · have := ((compileReads_ok cfg cs store polls stopAt).2 e he).2
    omega

end Ddo.ParCache

#print axioms Ddo.ParCache.compileO_const
#print axioms Ddo.ParCache.compileO_sim
#print axioms Ddo.ParCache.compileReads_ok
