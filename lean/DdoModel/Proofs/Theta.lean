import DdoModel.Proofs.ThetaCore
import DdoModel.Proofs.ThetaCut
import DdoModel.Proofs.ThetaEq
/-! Stage 1 of C09: the thresholds recorded by a relaxed compilation are sound (`theta_sound`, any cache;
    `theta_sound_isolated`, `EmptyCache`).  Assembly of the top-down invariant (`ThetaBuild.lean`), of the analyses of the
    bottom-up passes (`ThetaPass.lean`, `ThetaCut.lean`, `ThetaEq.lean`, `computeLocalBounds_good`) into the facts `FF` of
    `ThetaCore.lean`, and reading of the result on `compile`. -/
set_option linter.unusedSectionVars false
set_option linter.unusedVariables false
namespace Ddo.Theta
open Ddo Ddo.Bounds
variable {S K : Type} [DecidableEq S] [DecidableEq K]

/-! ## the built diagram seen through the invariant -/

/-- the finalized layers of `fin` are the layers of `dd` plus its layer under construction (`dd = fin`, or `fin` = `dd`
    plus an empty layer when the loop stopped on an empty layer) -/
structure BuiltOk (cfg : Cfg S K) (H : Nat → S → EInt) (B : Int) (cache : Cache S) (fin : DD S K)
    (Live : Nat → Nat → Prop) (dd : DD S K) : Prop where
  inv : TInv cfg H B cache Live dd
  at_ : ∀ (l p : Nat) (n : Node S), getNode (finalizeLayers fin).layers l p = some n →
    (∃ ly, dd.layers[l]? = some ly ∧ ly[p]? = some n) ∨ (l = dd.layers.length ∧ dd.next[p]? = some n)
  ofL : ∀ (l : Nat) ly (p : Nat) (n : Node S), dd.layers[l]? = some ly → ly[p]? = some n →
    getNode (finalizeLayers fin).layers l p = some n
  ofN : ∀ (p : Nat) (n : Node S), dd.next[p]? = some n → getNode (finalizeLayers fin).layers dd.layers.length p = some n
  termL : (finalizeLayers fin).termL = if dd.next.isEmpty then none else some dd.layers.length
  terms : (finalizeLayers fin).terminals = dd.next
  nv : dd.next ≠ [] → cfg.P.nextVar dd.depth (dd.next.map (·.state)) = none
  len : dd.layers.length ≤ cfg.P.nbVars + 1
  lenT : dd.next ≠ [] → (finalizeLayers fin).layers.length = dd.layers.length + 1
  lelEq : fin.lel = dd.lel
  same : dd.next ≠ [] → fin = dd
  lenB : (finalizeLayers fin).layers.length ≤ dd.layers.length + 1

theorem view_at {Ls LB : List (List (Node S))} {nx : List (Node S)}
    (hs : LB = Ls ++ [nx] ∨ (LB = Ls ∧ nx = [])) (l p : Nat) (n : Node S) (h : getNode LB l p = some n) :
    (∃ ly, Ls[l]? = some ly ∧ ly[p]? = some n) ∨ (l = Ls.length ∧ nx[p]? = some n) := by
  rcases hs with rfl | ⟨rfl, _⟩
  · rcases Nat.lt_or_ge l Ls.length with hl | hl
    · exact .inl (getNode_full_lt h hl)
    · have hlt := Ddo.getNode_lt h
      rw [List.length_append, List.length_singleton] at hlt
      have : l = Ls.length := by omega
      subst this
      rw [getNode_full_last] at h
      exact .inr ⟨rfl, h⟩
  · exact .inl (Cover.getNode_lt h)

theorem view_ofL {Ls LB : List (List (Node S))} {nx : List (Node S)}
    (hs : LB = Ls ++ [nx] ∨ (LB = Ls ∧ nx = [])) (l : Nat) (ly : List (Node S)) (p : Nat) (n : Node S)
    (hl : Ls[l]? = some ly) (hp : ly[p]? = some n) : getNode LB l p = some n := by
  rcases hs with rfl | ⟨rfl, _⟩
  · exact getNode_full_of hl hp
  · exact getNode_of hl hp

theorem view_ofN {Ls LB : List (List (Node S))} {nx : List (Node S)}
    (hs : LB = Ls ++ [nx] ∨ (LB = Ls ∧ nx = [])) (p : Nat) (n : Node S) (hp : nx[p]? = some n) :
    getNode LB Ls.length p = some n := by
  rcases hs with rfl | ⟨rfl, rfl⟩
  · rw [getNode_full_last]; exact hp
  · simp at hp

theorem builtOk_of_done (cfg : Cfg S K) (H : Nat → S → EInt) (B : Int) (cache : Cache S) (fin : DD S K)
    (h : DoneT cfg H B cache fin) : ∃ Live dd, BuiltOk cfg H B cache fin Live dd := by
  cases h with
  | brk Live dd0 hI hn0 hlen hL hN hlel =>
    have hlay : (finalizeLayers fin).layers = fin.layers := by
      unfold finalizeLayers; simp only [hN, List.isEmpty_nil, if_true]
    have hs : (finalizeLayers fin).layers = dd0.layers ++ [dd0.next] ∨ ((finalizeLayers fin).layers = dd0.layers ∧ dd0.next = []) := by
      left; rw [hlay, hL, hn0]
    refine ⟨Live, dd0, hI, view_at hs, view_ofL hs, view_ofN hs, ?_, ?_, fun h => absurd hn0 h, hlen, fun h => absurd hn0 h, hlel,
      fun h => absurd hn0 h, ?_⟩
    · rw [hn0]
      unfold finalizeLayers; simp only [hN, List.isEmpty_nil, if_true]
    · rw [terminals_finalizeLayers, hN, hn0]
    · rw [hlay, hL, List.length_append, List.length_singleton]; exact Nat.le_refl _
  | term Live hI hnone hlen =>
    by_cases hne : fin.next = []
    · have hlay : (finalizeLayers fin).layers = fin.layers := by
        unfold finalizeLayers; simp only [hne, List.isEmpty_nil, if_true]
      have hs : (finalizeLayers fin).layers = fin.layers ++ [fin.next] ∨ ((finalizeLayers fin).layers = fin.layers ∧ fin.next = []) :=
        .inr ⟨hlay, hne⟩
      refine ⟨Live, fin, hI, view_at hs, view_ofL hs, view_ofN hs, ?_, terminals_finalizeLayers fin, fun _ => hnone, hlen,
        fun h => absurd hne h, rfl, fun _ => rfl, ?_⟩
      · unfold finalizeLayers; simp only [hne, List.isEmpty_nil, if_true]
      · rw [hlay]; omega
    · obtain ⟨h1, h2⟩ := finalizeLayers_nonempty fin hne
      have hs : (finalizeLayers fin).layers = fin.layers ++ [fin.next] ∨ ((finalizeLayers fin).layers = fin.layers ∧ fin.next = []) :=
        .inl h1
      have hemp : fin.next.isEmpty = false := by
        cases hn : fin.next with
        | nil => exact absurd hn hne
        | cons _ _ => rfl
      refine ⟨Live, fin, hI, view_at hs, view_ofL hs, view_ofN hs, ?_, terminals_finalizeLayers fin, fun _ => hnone, hlen,
        fun _ => ?_, rfl, fun _ => rfl, ?_⟩
      · rw [h2, hemp]; rfl
      · rw [h1, List.length_append, List.length_singleton]
      · rw [h1, List.length_append, List.length_singleton]; omega

/-! ## `finalize` of a relaxed compilation, pass by pass -/

theorem finalize_relaxed (cfg : Cfg S K) (b : Built S K) (e : Bool) (hrel : cfg.ctype = .relaxed) :
    (finalize cfg b e).2 = (computeThresholds cfg.kind b.isExactField cfg.lb (finalize cfg b e).1.bestExactValue b.termL
      (fLayers2 cfg b)).1 ∧
    (finalize cfg b e).1.cacheUpdates = (computeThresholds cfg.kind b.isExactField cfg.lb (finalize cfg b e).1.bestExactValue
      b.termL (fLayers2 cfg b)).2 := by
  have e2 : (cfg.ctype == CompType.relaxed) = true := by rw [hrel]; decide
  unfold finalize fLayers2 fLayers1
  simp only [e2, Bool.true_or, if_true, Bool.and_true]
  trivial

theorem fLayers1_relaxed (cfg : Cfg S K) (b : Built S K) (hrel : cfg.ctype = .relaxed) :
    fLayers1 cfg b = (computeCutset cfg.kind b.lel b.layers).1 := by
  unfold fLayers1
  rw [if_pos (by rw [hrel]; rfl)]

theorem fLayers1_eqC (cfg : Cfg S K) (b : Built S K) : EqUp stripC (fLayers1 cfg b) b.layers := by
  unfold fLayers1
  split
  · exact computeCutset_eqC _ _ _
  · exact EqUp.refl _ _

theorem fLayers2_eqL (cfg : Cfg S K) (b : Built S K) : EqUp stripL (fLayers2 cfg b) (fLayers1 cfg b) := by
  unfold fLayers2
  split
  · exact computeLocalBounds_eqL _
  · exact EqUp.refl _ _

/-- the same node in the four successive diagrams: built (`n0`), after the cut-set (`n1`), after the local bounds (`n2`),
    after the thresholds (`n3`) -/
structure Corr (n0 n1 n2 n3 : Node S) : Prop where
  c01 : stripC n0 = stripC n1
  c12 : stripL n1 = stripL n2
  c23 : stripT n2 = stripT n3

theorem Corr.state {n0 n1 n2 n3 : Node S} (h : Corr n0 n1 n2 n3) : n3.state = n0.state := by
  rw [← (stripT_fields h.c23).1, ← (stripL_fields h.c12).1, ← (stripC_fields h.c01).1]
theorem Corr.value {n0 n1 n2 n3 : Node S} (h : Corr n0 n1 n2 n3) : n3.value = n0.value := by
  rw [← (stripT_fields h.c23).2.1, ← (stripL_fields h.c12).2.1, ← (stripC_fields h.c01).2.1]
theorem Corr.inb {n0 n1 n2 n3 : Node S} (h : Corr n0 n1 n2 n3) : n3.inb = n0.inb := by
  rw [← (stripT_more h.c23).2.2.2.2.2.2, ← (stripL_fields h.c12).2.2.2.1, ← (stripC_fields h.c01).2.2.2.2.1]
theorem Corr.rub {n0 n1 n2 n3 : Node S} (h : Corr n0 n1 n2 n3) : n3.rub = n0.rub := by
  rw [← (stripT_fields h.c23).2.2.1, ← (stripL_fields h.c12).2.2.2.2.1, ← (stripC_fields h.c01).2.2.2.2.2.1]
theorem Corr.depth {n0 n1 n2 n3 : Node S} (h : Corr n0 n1 n2 n3) : n3.depth = n0.depth := by
  rw [← (stripT_fields h.c23).2.2.2.1, ← (stripL_fields h.c12).2.2.2.2.2.2.2.2.2.2.2.2, ← (stripC_fields h.c01).2.2.2.2.2.2.2.2.2.2.2.2]
theorem Corr.deleted {n0 n1 n2 n3 : Node S} (h : Corr n0 n1 n2 n3) : n3.deleted = n0.deleted := by
  rw [← (stripT_more h.c23).2.2.2.2.2.1, ← (stripL_fields h.c12).2.2.2.2.2.2.2.2.2.1, ← (stripC_fields h.c01).2.2.2.2.2.2.2.2.2.2.1]
theorem Corr.cache {n0 n1 n2 n3 : Node S} (h : Corr n0 n1 n2 n3) : n3.cache = n0.cache := by
  rw [← (stripT_more h.c23).1, ← (stripL_fields h.c12).2.2.2.2.2.2.2.2.2.2.1, ← (stripC_fields h.c01).2.2.2.2.2.2.2.2.2.2.2.1]
theorem Corr.isExact {n0 n1 n2 n3 : Node S} (h : Corr n0 n1 n2 n3) : n3.isExact = n0.isExact := by
  unfold Node.isExact
  rw [← (stripT_more h.c23).2.2.1, ← (stripT_more h.c23).2.2.2.1, ← (stripL_fields h.c12).2.2.2.2.2.2.1,
    ← (stripL_fields h.c12).2.2.2.2.2.2.2.1, ← (stripC_fields h.c01).2.2.2.2.2.2.2.1, ← (stripC_fields h.c01).2.2.2.2.2.2.2.2.1]
theorem Corr.isExact1 {n0 n1 n2 n3 : Node S} (h : Corr n0 n1 n2 n3) : n1.isExact = n0.isExact := by
  unfold Node.isExact
  rw [← (stripC_fields h.c01).2.2.2.2.2.2.2.1, ← (stripC_fields h.c01).2.2.2.2.2.2.2.2.1]
theorem Corr.inb1 {n0 n1 n2 n3 : Node S} (h : Corr n0 n1 n2 n3) : n1.inb = n0.inb := (stripC_fields h.c01).2.2.2.2.1.symm
/-- the threshold the thresholds pass starts from is the one the top-down build left -/
theorem Corr.theta2 {n0 n1 n2 n3 : Node S} (h : Corr n0 n1 n2 n3) : n2.theta = n0.theta := by
  rw [← (stripL_fields h.c12).2.2.2.2.2.1, ← (stripC_fields h.c01).2.2.2.2.2.2.1]
theorem Corr.cutset {n0 n1 n2 n3 : Node S} (h : Corr n0 n1 n2 n3) : n3.cutset = n1.cutset := by
  rw [← (stripT_more h.c23).2.1, ← (stripL_fields h.c12).2.2.2.2.2.2.2.2.1]
theorem Corr.above {n0 n1 n2 n3 : Node S} (h : Corr n0 n1 n2 n3) : n3.above = n1.above := by
  rw [← (stripT_more h.c23).2.2.2.2.1, ← (stripL_fields h.c12).2.2.2.2.2.2.2.2.2.2.2.1]

/-- from the final diagram down to the built one -/
theorem corr_of_L3 (cfg : Cfg S K) (b : Built S K) (e : Bool) {l p : Nat} {n3 : Node S}
    (h : getNode (finalize cfg b e).2 l p = some n3) :
    ∃ n0 n1 n2, getNode b.layers l p = some n0 ∧ getNode (fLayers1 cfg b) l p = some n1 ∧
      getNode (fLayers2 cfg b) l p = some n2 ∧ Corr n0 n1 n2 n3 := by
  obtain ⟨n2, h2, s2⟩ := (finalize_layers_tEq cfg b e).getNode_some h
  obtain ⟨n1, h1, s1⟩ := (fLayers2_eqL cfg b).getNode_some h2
  obtain ⟨n0, h0, s0⟩ := (fLayers1_eqC cfg b).getNode_some h1
  exact ⟨n0, n1, n2, h0, h1, h2, s0, s1, s2⟩

/-- from the built diagram up to the final one -/
theorem corr_of_L0 (cfg : Cfg S K) (b : Built S K) (e : Bool) {l p : Nat} {n0 : Node S}
    (h : getNode b.layers l p = some n0) :
    ∃ n1 n2 n3, getNode (fLayers1 cfg b) l p = some n1 ∧ getNode (fLayers2 cfg b) l p = some n2 ∧
      getNode (finalize cfg b e).2 l p = some n3 ∧ Corr n0 n1 n2 n3 := by
  obtain ⟨n1, h1, s1⟩ := (fLayers1_eqC cfg b).symm.getNode_some h
  obtain ⟨n2, h2, s2⟩ := (fLayers2_eqL cfg b).symm.getNode_some h1
  obtain ⟨n3, h3, s3⟩ := (finalize_layers_tEq cfg b e).symm.getNode_some h2
  exact ⟨n1, n2, n3, h1, h2, h3, s1.symm, s2.symm, s3.symm⟩

/-! ## the initial thresholds -/

theorem getNode_set_other (ls : List (List (Node S))) (tl : Nat) (ly : List (Node S)) (l p : Nat) (hl : l ≠ tl) :
    getNode (ls.set tl ly) l p = getNode ls l p := by
  unfold getNode
  rw [List.getElem?_set_ne (fun h => hl h.symm)]

theorem thInit_other (kind : CutsetKind) (ie : Bool) (lb : Int) (be : Option Int) (termL : Option Nat)
    (layers : List (List (Node S))) (l p : Nat) (hl : ∀ tl, termL = some tl → l ≠ tl) :
    getNode (thInit kind ie lb be termL layers) l p = getNode layers l p := by
  unfold thInit
  split
  · rename_i tl
    exact getNode_set_other _ _ _ _ _ (hl tl rfl)
  · rfl

theorem thInit_term (kind : CutsetKind) (ie : Bool) (lb : Int) (w : Int) (tl : Nat)
    (layers : List (List (Node S))) (p : Nat) (n : Node S) (hn : getNode layers tl p = some n)
    (hc : ((kind == .lel && ie) || (kind == .frontier && n.isExact)) = true) :
    getNode (thInit kind ie lb (some w) (some tl) layers) tl p = some { n with theta := some (bkOf lb (some w)) } := by
  unfold thInit
  dsimp only
  obtain ⟨ly, hly, hp⟩ := Cover.getNode_lt hn
  have hlt := Cover.lt_of_getElem?_some hly
  unfold getNode
  rw [List.getElem?_set_self hlt]
  dsimp only
  rw [hly, Option.getD_some, List.getElem?_map, hp]
  simp only [Option.map_some, hc, if_true]

/-! ## the facts `FF` for a relaxed compilation -/

/-- everything known about the built diagram `fin` -/
structure Ctx (cfg : Cfg S K) (H : Nat → S → EInt) (B : Int) (cache : Cache S) (p0 : List Dec) (fin : DD S K)
    (Live : Nat → Nat → Prop) (dd : DD S K) : Prop where
  hy : HypT cfg H B
  bo : BuiltOk cfg H B cache fin Live dd
  wf : CutWF cfg p0 (finalizeLayers fin).layers (finalizeLayers fin).lel
  inv2 : Inv2 cfg fin

section
variable {cfg : Cfg S K} {H : Nat → S → EInt} {B : Int} {cache : Cache S} {p0 : List Dec} {fin : DD S K}
  {Live : Nat → Nat → Prop} {dd : DD S K}

/-- where a node of the final diagram sits in the diagram of the invariant -/
theorem Ctx.locate (hx : Ctx cfg H B cache p0 fin Live dd) (e : Bool) {l p : Nat} {n3 : Node S}
    (h : getNode (finalize cfg (finalizeLayers fin) e).2 l p = some n3) :
    ∃ n0 n1 n2, getNode (finalizeLayers fin).layers l p = some n0 ∧ getNode (fLayers1 cfg (finalizeLayers fin)) l p = some n1 ∧
      getNode (fLayers2 cfg (finalizeLayers fin)) l p = some n2 ∧ Corr n0 n1 n2 n3 ∧
      ((∃ ly, dd.layers[l]? = some ly ∧ ly[p]? = some n0 ∧ l < dd.layers.length) ∨ (l = dd.layers.length ∧ dd.next[p]? = some n0)) := by
  obtain ⟨n0, n1, n2, h0, h1, h2, hc⟩ := corr_of_L3 cfg (finalizeLayers fin) e h
  refine ⟨n0, n1, n2, h0, h1, h2, hc, ?_⟩
  rcases hx.bo.at_ l p n0 h0 with ⟨ly, hly, hp⟩ | h'
  · exact .inl ⟨ly, hly, hp, Cover.lt_of_getElem?_some hly⟩
  · exact .inr h'

theorem Ctx.lmax (hx : Ctx cfg H B cache p0 fin Live dd) (e : Bool) (l p : Nat) (n3 : Node S)
    (h : getNode (finalize cfg (finalizeLayers fin) e).2 l p = some n3) : l ≤ dd.layers.length := by
  obtain ⟨n0, n1, n2, _, _, _, _, hloc⟩ := hx.locate e h
  rcases hloc with ⟨_, _, _, hl⟩ | ⟨hl, _⟩ <;> omega

theorem Ctx.rng (hx : Ctx cfg H B cache p0 fin Live dd) (e : Bool) (l p : Nat) (n3 : Node S)
    (h : getNode (finalize cfg (finalizeLayers fin) e).2 l p = some n3) : Cover.Within (Cover.Bd B l) n3.value := by
  obtain ⟨n0, n1, n2, _, _, _, hc, hloc⟩ := hx.locate e h
  rw [hc.value]
  rcases hloc with ⟨ly, hly, hp, _⟩ | ⟨rfl, hp⟩
  · exact hx.bo.inv.rngL l ly hly n0 (List.mem_of_getElem? hp)
  · exact hx.bo.inv.rngN n0 (List.mem_of_getElem? hp)

theorem Ctx.depth (hx : Ctx cfg H B cache p0 fin Live dd) (e : Bool) (l p : Nat) (n3 : Node S)
    (h : getNode (finalize cfg (finalizeLayers fin) e).2 l p = some n3) : n3.depth = cfg.root.depth + l := by
  obtain ⟨n0, n1, n2, _, _, _, hc, hloc⟩ := hx.locate e h
  rw [hc.depth]
  rcases hloc with ⟨ly, hly, hp, _⟩ | ⟨rfl, hp⟩
  · exact (hx.bo.inv.baseL l ly hly n0 (List.mem_of_getElem? hp)).depth
  · rw [(hx.bo.inv.baseN n0 (List.mem_of_getElem? hp)).1.depth, hx.bo.inv.depth]

/-- a child found by the invariant, read in the final diagram -/
theorem Ctx.child (hx : Ctx cfg H B cache p0 fin Live dd) (e : Bool) {l p' : Nat} {m0 : Node S}
    (h : getNode (finalizeLayers fin).layers l p' = some m0) :
    ∃ m3, getNode (finalize cfg (finalizeLayers fin) e).2 l p' = some m3 ∧ m3.state = m0.state ∧ m3.value = m0.value ∧
      m3.inb = m0.inb ∧ m3.deleted = m0.deleted ∧ m3.cache = m0.cache := by
  obtain ⟨n1, n2, n3, _, _, h3, hc⟩ := corr_of_L0 cfg (finalizeLayers fin) e h
  exact ⟨n3, h3, hc.state, hc.value, hc.inb, hc.deleted, hc.cache⟩

theorem Ctx.liveN (hx : Ctx cfg H B cache p0 fin Live dd) (e : Bool) (l p : Nat) (n3 : Node S)
    (h : getNode (finalize cfg (finalizeLayers fin) e).2 l p = some n3) (hdel : n3.deleted = false) (hc : n3.cache = false)
    (hl : l < dd.layers.length) :
    n3.rub = cfg.R.rub n3.state ∧ StepF cfg H B (finalize cfg (finalizeLayers fin) e).2 l p n3 := by
  obtain ⟨n0, n1, n2, _, _, _, hco, hloc⟩ := hx.locate e h
  rcases hloc with ⟨ly, hly, hp, _⟩ | ⟨hl', _⟩
  case inr => omega
  have hcls := hx.bo.inv.clsL l p ly n0 hly hp
  have hlive : Live l p := hcls.alive (by rw [← hco.cache]; exact hc) (by rw [← hco.deleted]; exact hdel)
  refine ⟨by rw [hco.rub, hco.state]; exact hx.bo.inv.rub l p ly n0 hly hlive hp, ?_⟩
  intro htest h' hH
  rw [hco.state, hco.value] at htest
  rw [hco.state] at hH
  by_cases hl1 : l + 1 = dd.layers.length
  · obtain ⟨p', m0, a, h'', hm0, _, ha, hfl, hfp, hw, hH', hle, hval⟩ :=
      hx.bo.inv.stepN l p ly n0 hl1 hly hlive hp htest h' hH
    have hmd := (hx.bo.inv.baseN m0 (List.mem_of_getElem? hm0)).2.2
    obtain ⟨m3, hm3, e1, e2, e3, e4, _⟩ := hx.child e (hl1 ▸ hx.bo.ofN p' m0 hm0)
    exact ⟨p', m3, a, h'', hm3, by rw [e4]; exact hmd, by rw [e3]; exact ha, hfl, hfp, hw, by rw [e1]; exact hH', hle,
      by rw [hco.value, e2]; exact hval⟩
  · have hlt1 : l + 1 < dd.layers.length := by omega
    have hly' : dd.layers[l + 1]? = some dd.layers[l + 1] := List.getElem?_eq_getElem hlt1
    obtain ⟨p', m0, a, h'', hm0, hok, ha, hfl, hfp, hw, hH', hle, hval⟩ :=
      hx.bo.inv.stepL l p ly _ n0 hly hly' hlive hp htest h' hH
    have hcls' := hx.bo.inv.clsL (l + 1) p' _ m0 hly' hm0
    have hmd : m0.deleted = false := by
      rcases hok with hlv | hca
      · exact (hcls'.cur hlv).2
      · exact (hcls'.pruned hca).1
    obtain ⟨m3, hm3, e1, e2, e3, e4, _⟩ := hx.child e (hx.bo.ofL (l + 1) _ p' m0 hly' hm0)
    exact ⟨p', m3, a, h'', hm3, by rw [e4]; exact hmd, by rw [e3]; exact ha, hfl, hfp, hw, by rw [e1]; exact hH', hle,
      by rw [hco.value, e2]; exact hval⟩

theorem fLayers2_arcs (cfg : Cfg S K) (p0 : List Dec) (b : Built S K) (hwf : CutWF cfg p0 b.layers b.lel)
    (l p : Nat) (n : Node S) (h : getNode (fLayers2 cfg b) l p = some n) : ∀ a ∈ n.inb, a.fromL + 1 = l := by
  obtain ⟨n1, h1, s1⟩ := (fLayers2_eqL cfg b).getNode_some h
  obtain ⟨n0, h0, s0⟩ := (fLayers1_eqC cfg b).getNode_some h1
  intro a ha
  refine hwf.arcs l p n0 h0 a ?_
  rw [(stripC_fields s0).2.2.2.2.1, (stripL_fields s1).2.2.2.1]
  exact ha

/-- `computeThresholds_spec`, read on `finalize` -/
theorem Ctx.spec (hx : Ctx cfg H B cache p0 fin Live dd) (e : Bool) :
    (∀ (l p : Nat) (n3 : Node S),
      getNode (finalize cfg (finalizeLayers fin) e).2 l p = some n3 → n3.deleted = false →
      ∃ (n0 : Node S) (θp : Option Int),
        getNode (thInit cfg.kind (finalizeLayers fin).isExactField cfg.lb (finalize cfg (finalizeLayers fin) e).1.bestExactValue
          (finalizeLayers fin).termL (fLayers2 cfg (finalizeLayers fin))) l p = some n0 ∧ stripT n0 = stripT n3 ∧
        (∀ t0, n0.theta = some t0 → ∃ tp, θp = some tp ∧ tp ≤ t0) ∧
        (∀ (p' : Nat) (m3 : Node S) (t : Int) (a : Arc),
          getNode (finalize cfg (finalizeLayers fin) e).2 (l + 1) p' = some m3 →
          m3.deleted = false → m3.theta = some t → a ∈ m3.inb → a.fromP = p →
          ∃ tp, θp = some tp ∧ tp ≤ satSub t a.cost) ∧
        n3.theta = ownTheta (bkOf cfg.lb (finalize cfg (finalizeLayers fin) e).1.bestExactValue) n3 θp) ∧
    (∀ u ∈ (finalize cfg (finalizeLayers fin) e).1.cacheUpdates,
      ∃ (l p : Nat) (n3 : Node S),
        getNode (finalize cfg (finalizeLayers fin) e).2 l p = some n3 ∧
        n3.deleted = false ∧ n3.cache = false ∧ n3.above = true ∧
        ∃ t, n3.theta = some t ∧ u = (n3.state, n3.depth, t, !n3.cutset)) := by
  have h := computeThresholds_spec cfg.kind (finalizeLayers fin).isExactField cfg.lb
    (finalize cfg (finalizeLayers fin) e).1.bestExactValue (finalizeLayers fin).termL (fLayers2 cfg (finalizeLayers fin))
    (fLayers2_arcs cfg p0 (finalizeLayers fin) hx.wf)
  obtain ⟨e1, e2⟩ := finalize_relaxed cfg (finalizeLayers fin) e hx.hy.rel
  rw [← e1, ← e2] at h
  exact h

theorem Ctx.termL_ne (hx : Ctx cfg H B cache p0 fin Live dd) {l : Nat} (hl : l < dd.layers.length) :
    ∀ tl, (finalizeLayers fin).termL = some tl → l ≠ tl := by
  intro tl htl
  rw [hx.bo.termL] at htl
  split at htl
  · cases htl
  · cases htl; omega

theorem Ctx.cacheN (hx : Ctx cfg H B cache p0 fin Live dd) (e : Bool) (l p : Nat) (n3 : Node S)
    (h : getNode (finalize cfg (finalizeLayers fin) e).2 l p = some n3) (hdel : n3.deleted = false) (hc : n3.cache = true) :
    l < dd.layers.length ∧ ∃ (t : Thr) (tf : Int), lookup cfg cache n3 = some t ∧ n3.value ≤ t.value ∧
      n3.theta = some tf ∧ tf ≤ t.value := by
  obtain ⟨n0, n1, n2, _, _, h2, hco, hloc⟩ := hx.locate e h
  have hc0 : n0.cache = true := by rw [← hco.cache]; exact hc
  rcases hloc with ⟨ly, hly, hp, hl⟩ | ⟨_, hp⟩
  case inr =>
    have := (hx.bo.inv.baseN n0 (List.mem_of_getElem? hp)).2.1
    rw [hc0] at this; cases this
  refine ⟨hl, ?_⟩
  obtain ⟨_, t, ht, hth, hv⟩ := (hx.bo.inv.clsL l p ly n0 hly hp).pruned hc0
  obtain ⟨n0', θp, hn0', hs0, hP1, _, hP3⟩ := (hx.spec e).1 l p n3 h hdel
  rw [thInit_other _ _ _ _ _ _ l p (hx.termL_ne hl), h2] at hn0'
  cases hn0'
  obtain ⟨tp, htp, htple⟩ := hP1 t.value (by rw [hco.theta2]; exact hth)
  refine ⟨t, tp, ?_, by rw [hco.value]; exact hv, ?_, htple⟩
  · unfold lookup at ht ⊢
    rw [hco.state, hco.depth]; exact ht
  · rw [hP3]
    unfold ownTheta
    rw [hc, htp]
    rfl

/-- no flag of the bottom-up passes is raised in the built diagram -/
theorem Ctx.flags0 (hx : Ctx cfg H B cache p0 fin Live dd) (l p : Nat) (n : Node S)
    (h : getNode (finalizeLayers fin).layers l p = some n) : n.cutset = false ∧ n.above = false := by
  rcases hx.bo.at_ l p n h with ⟨ly, hly, hp⟩ | ⟨_, hp⟩
  · have := hx.bo.inv.baseL l ly hly n (List.mem_of_getElem? hp)
    exact ⟨this.cutset, this.above⟩
  · have := (hx.bo.inv.baseN n (List.mem_of_getElem? hp)).1
    exact ⟨this.cutset, this.above⟩

theorem Ctx.flagStep (hx : Ctx cfg H B cache p0 fin Live dd) (e : Bool) (l p p' : Nat) (n3 m3 : Node S) (a : Arc)
    (hn : getNode (finalize cfg (finalizeLayers fin) e).2 l p = some n3) (hab : n3.above = true) (hcut : n3.cutset = false)
    (hm : getNode (finalize cfg (finalizeLayers fin) e).2 (l + 1) p' = some m3) (ha : a ∈ m3.inb) (hfl : a.fromL = l)
    (hfp : a.fromP = p) : m3.above = true := by
  obtain ⟨n0, n1, n2, _, hn1, _, hco, _⟩ := hx.locate e hn
  obtain ⟨m0, m1, m2, _, hm1, _, hcm, _⟩ := hx.locate e hm
  rw [hco.above] at hab
  rw [hco.cutset] at hcut
  rw [hcm.above]
  rw [fLayers1_relaxed cfg _ hx.hy.rel] at hn1 hm1
  cases hk : cfg.kind with
  | lel =>
    rw [hk] at hn1 hm1
    obtain ⟨a1, a2, _⟩ := computeCutset_lel_flags _ _ hx.flags0 l p n1 hn1
    obtain ⟨b1, _, _⟩ := computeCutset_lel_flags _ _ hx.flags0 (l + 1) p' m1 hm1
    have h1 := a1.mp hab
    have h2 : ¬ l = (finalizeLayers fin).lel := fun h => by rw [a2.mpr h] at hcut; cases hcut
    exact b1.mpr (by omega)
  | frontier =>
    rw [hk] at hn1 hm1
    obtain ⟨f1, f2⟩ := computeCutset_frontier_flags (finalizeLayers fin).lel _ hx.flags0
    have hnex := (f1 l p n1 hn1).1.mp hab
    apply (f1 (l + 1) p' m1 hm1).1.mpr
    cases hmex : m1.isExact with
    | true => rfl
    | false =>
      exfalso
      have ha1 : a ∈ m1.inb := by rw [hcm.inb1, ← hcm.inb]; exact ha
      have := f2 (l + 1) p' m1 a n1 hm1 hmex ha1 (by rw [hfl, hfp]; exact hn1) hnex
      rw [this] at hcut; cases hcut

/-- a node flagged `cutset` is exact and its position belongs to the cut-set -/
theorem Ctx.cutMem (hx : Ctx cfg H B cache p0 fin Live dd) (e : Bool) (l p : Nat) (n3 : Node S)
    (hn : getNode (finalize cfg (finalizeLayers fin) e).2 l p = some n3) (hcut : n3.cutset = true) :
    (l, p) ∈ fCs cfg (finalizeLayers fin) := by
  obtain ⟨n0, n1, n2, _, hn1, _, hco, _⟩ := hx.locate e hn
  rw [hco.cutset] at hcut
  rw [fCs_of_relaxed cfg _ hx.hy.rel]
  rw [fLayers1_relaxed cfg _ hx.hy.rel] at hn1
  cases hk : cfg.kind with
  | lel =>
    rw [hk] at hn1
    exact (computeCutset_lel_flags _ _ hx.flags0 l p n1 hn1).2.2 hcut
  | frontier =>
    rw [hk] at hn1
    exact ((computeCutset_frontier_flags (finalizeLayers fin).lel _ hx.flags0).1 l p n1 hn1).2 hcut |>.2

/-- the local bounds dominate the potential-preserving paths, as soon as some node is flagged `cutset` -/
theorem Ctx.good (hx : Ctx cfg H B cache p0 fin Live dd) (e : Bool) (l0 q0 : Nat) (c3 : Node S)
    (hc : getNode (finalize cfg (finalizeLayers fin) e).2 l0 q0 = some c3) (hcut : c3.cutset = true)
    (l p : Nat) (h : Int) (r : Nat) (hp : Path (finalize cfg (finalizeLayers fin) e).2 H cfg.root.depth B l p h r) :
    ∃ n3, getNode (finalize cfg (finalizeLayers fin) e).2 l p = some n3 ∧ n3.marked = true ∧ h ≤ n3.vbot := by
  have hmem := hx.cutMem e l0 q0 c3 hc hcut
  have hlel : (finalizeLayers fin).lel < (finalizeLayers fin).layers.length := by
    rcases Nat.lt_or_ge (finalizeLayers fin).lel (finalizeLayers fin).layers.length with h' | h'
    · exact h'
    · have := fCs_sub cfg _ _ hmem
      rw [hx.wf.cutset_nil h'] at this
      exact absurd this List.not_mem_nil
  have hlenB : (finalizeLayers fin).layers.length ≤ cfg.P.nbVars + 2 := by
    have := hx.bo.lenB; have := hx.bo.len; omega
  exact finalize_good cfg (finalizeLayers fin) e H cfg.root.depth B hx.hy.rel hlel
    (small_of_noClamp hx.hy.B hlenB) l p h r (hp.of_xEq (finalize_layers_xEq cfg (finalizeLayers fin) e).symm)

/-- the last exact layer is not the terminal layer -/
theorem Ctx.lel_ne (hx : Ctx cfg H B cache p0 fin Live dd) (hne : dd.next ≠ []) :
    (fin.lel = none ∧ (finalizeLayers fin).lel = dd.layers.length + 1) ∨ (finalizeLayers fin).lel < dd.layers.length := by
  have hsame := hx.bo.same hne
  rw [finalizeLayers_lel]
  cases hl : fin.lel with
  | none => left; exact ⟨rfl, by rw [Option.getD_none, hx.bo.lenT hne]⟩
  | some k =>
    right
    rw [Option.getD_some]
    have := (hx.inv2.lelSome k hl).1
    rw [hsame] at this
    exact this

theorem Ctx.termN (hx : Ctx cfg H B cache p0 fin Live dd) (e : Bool) (p : Nat) (n3 : Node S)
    (h : getNode (finalize cfg (finalizeLayers fin) e).2 dd.layers.length p = some n3) :
    n3.deleted = false ∧ n3.cache = false ∧ n3.cutset = false ∧ n3.rub = iMax ∧
    H (cfg.root.depth + dd.layers.length) n3.state = some 0 ∧
    (finalize cfg (finalizeLayers fin) e).2.length = dd.layers.length + 1 := by
  obtain ⟨n0, n1, n2, hn0, hn1, _, hco, hloc⟩ := hx.locate e h
  rcases hloc with ⟨_, _, _, hl⟩ | ⟨_, hp⟩
  case inl => omega
  have hmem : n0 ∈ dd.next := List.mem_of_getElem? hp
  have hne : dd.next ≠ [] := List.ne_nil_of_mem hmem
  obtain ⟨hb, hc, hd⟩ := hx.bo.inv.baseN n0 hmem
  have hlenT := hx.bo.lenT hne
  refine ⟨by rw [hco.deleted]; exact hd, by rw [hco.cache]; exact hc, ?_, by rw [hco.rub]; exact hx.bo.inv.rubN n0 hmem, ?_, ?_⟩
  · rw [hco.cutset]
    rw [fLayers1_relaxed cfg _ hx.hy.rel] at hn1
    cases hcs : n1.cutset with
    | false => rfl
    | true =>
      exfalso
      cases hk : cfg.kind with
      | lel =>
        rw [hk] at hn1
        have := (computeCutset_lel_flags _ _ hx.flags0 _ p n1 hn1).2.1.mp hcs
        rcases hx.lel_ne hne with ⟨_, h2⟩ | h2 <;> omega
      | frontier =>
        rw [hk] at hn1
        have hm := ((computeCutset_frontier_flags (finalizeLayers fin).lel _ hx.flags0).1 _ p n1 hn1).2 hcs |>.2
        obtain ⟨_, _, _, l', p', m, a, hm', _, ha, hfl, _⟩ := computeCutset_frontier _ _ _ hm
        have h1 := hx.wf.arcs l' p' m hm' a ha
        have h2 := Ddo.getNode_lt hm'
        dsimp only at hfl
        omega
  · rw [hco.state, ← hx.bo.inv.depth]
    exact hx.hy.P.term dd.depth _ n0.state (hx.bo.nv hne) (List.mem_map_of_mem hmem)
  · rw [(finalize_layers_xEq cfg (finalizeLayers fin) e).length, hlenT]

theorem Ctx.thetaF (hx : Ctx cfg H B cache p0 fin Live dd) (e : Bool) (l p : Nat) (n3 : Node S)
    (h : getNode (finalize cfg (finalizeLayers fin) e).2 l p = some n3) (hdel : n3.deleted = false) :
    ∃ θp : Option Int, n3.theta = ownTheta (bkOf cfg.lb (finalize cfg (finalizeLayers fin) e).1.bestExactValue) n3 θp ∧
      (∀ (p' : Nat) (m3 : Node S) (t : Int) (a : Arc), getNode (finalize cfg (finalizeLayers fin) e).2 (l + 1) p' = some m3 →
        m3.deleted = false → m3.theta = some t → a ∈ m3.inb → a.fromP = p → ∃ tp, θp = some tp ∧ tp ≤ satSub t a.cost) ∧
      (l = dd.layers.length → n3.above = true →
        ∃ tp, θp = some tp ∧ tp ≤ bkOf cfg.lb (finalize cfg (finalizeLayers fin) e).1.bestExactValue) := by
  obtain ⟨n0', θp, hn0', hs0, hP1, hP2, hP3⟩ := (hx.spec e).1 l p n3 h hdel
  refine ⟨θp, hP3, hP2, ?_⟩
  intro hl hab
  subst hl
  obtain ⟨n0, n1, n2, hn0, hn1, hn2, hco, hloc⟩ := hx.locate e h
  rcases hloc with ⟨_, _, _, hl⟩ | ⟨_, hp⟩
  case inl => omega
  have hmem : n0 ∈ dd.next := List.mem_of_getElem? hp
  have hne : dd.next ≠ [] := List.ne_nil_of_mem hmem
  have hsame := hx.bo.same hne
  have htl : (finalizeLayers fin).termL = some dd.layers.length := by
    rw [hx.bo.termL]
    cases hn : dd.next with
    | nil => exact absurd hn hne
    | cons _ _ => rfl
  -- the node is exact, and the condition under which the terminal thresholds are initialised holds
  rw [hco.above] at hab
  rw [fLayers1_relaxed cfg _ hx.hy.rel] at hn1
  have hcond : ((cfg.kind == .lel && (finalizeLayers fin).isExactField) || (cfg.kind == .frontier && n2.isExact)) = true ∧
      n0.isExact = true := by
    have hex2 : n2.isExact = n0.isExact := by
      unfold Node.isExact
      rw [← (stripL_fields hco.c12).2.2.2.2.2.2.1, ← (stripL_fields hco.c12).2.2.2.2.2.2.2.1,
        ← (stripC_fields hco.c01).2.2.2.2.2.2.2.1, ← (stripC_fields hco.c01).2.2.2.2.2.2.2.2.1]
    cases hk : cfg.kind with
    | lel =>
      rw [hk] at hn1
      have h1 := (computeCutset_lel_flags _ _ hx.flags0 _ p n1 hn1).1.mp hab
      rcases hx.lel_ne hne with ⟨hnone, _⟩ | h2
      · have hie : (finalizeLayers fin).isExactField = true := by
          unfold finalizeLayers; dsimp only; rw [hnone]; rfl
        refine ⟨by rw [hie]; rfl, ?_⟩
        have := (hx.inv2.lelNone hnone).2 n0 (by rw [hsame]; exact hmem)
        exact this
      · omega
    | frontier =>
      rw [hk] at hn1
      have h1 := ((computeCutset_frontier_flags (finalizeLayers fin).lel _ hx.flags0).1 _ p n1 hn1).1.mp hab
      rw [hco.isExact1] at h1
      refine ⟨by rw [hex2, h1]; simp, h1⟩
  -- hence some exact value is reported
  have hbe : ∃ w, (finalize cfg (finalizeLayers fin) e).1.bestExactValue = some w := by
    rw [finalize_bestExactValue]
    have hterm : n0 ∈ (finalizeLayers fin).terminals := by rw [hx.bo.terms]; exact hmem
    split
    · obtain ⟨bv, hbv, _⟩ := Cover.maxValue_ge _ n0 hterm
      exact ⟨bv, hbv⟩
    · obtain ⟨bv, hbv, _⟩ := Cover.maxValue_ge _ n0 (List.mem_filter.mpr ⟨hterm, hcond.2⟩)
      exact ⟨bv, hbv⟩
  obtain ⟨w, hw⟩ := hbe
  rw [hw, htl, thInit_term cfg.kind _ cfg.lb w dd.layers.length _ p n2 hn2 hcond.1] at hn0'
  cases hn0'
  rw [hw]
  exact hP1 _ rfl

/-- **the facts of `ThetaCore.lean` hold for the finished diagram of a relaxed compilation** -/
theorem Ctx.ff (hx : Ctx cfg H B cache p0 fin Live dd) (e : Bool) :
    FF cfg H B cache (finalize cfg (finalizeLayers fin) e).2 dd.layers.length
      (bkOf cfg.lb (finalize cfg (finalizeLayers fin) e).1.bestExactValue) :=
  ⟨hx.lmax e, hx.rng e, hx.cacheN e, hx.liveN e, hx.termN e, hx.thetaF e, hx.flagStep e, hx.good e⟩

theorem bkOf_ge (lb : Int) (be : Option Int) : lb ≤ bkOf lb be := by
  unfold bkOf; split <;> omega

/-- what the cache holds for a node it pruned -/
theorem lookup_some {cfg : Cfg S K} {cache : Cache S} {n : Node S} {t : Thr} (h : lookup cfg cache n = some t) :
    cfg.useCache = true ∧ cache.get n.state n.depth = some (some t) := by
  unfold lookup at h
  split at h
  · rename_i hu
    refine ⟨hu, ?_⟩
    cases hg : cache.get n.state n.depth with
    | none => rw [hg] at h; cases h
    | some x => rw [hg, Option.getD_some] at h; rw [h]
  · cases h

/-- **soundness of the thresholds, on `finalize`** -/
theorem Ctx.theta_sound (hx : Ctx cfg H B cache p0 fin Live dd) (hR : RubOk cfg.R H) (hlb : cfg.lb < iMax)
    (M : Int) (hM0 : 0 ≤ M) (hMs : M + Cover.Bd B (cfg.P.nbVars + 1) ≤ big) (e : Bool) :
    ∀ u ∈ (finalize cfg (finalizeLayers fin) e).1.cacheUpdates, cfg.root.depth ≤ u.2.1 ∧
      ∀ v h, Cover.Within (M + Cover.Bd B (u.2.1 - cfg.root.depth)) v → v ≤ u.2.2.1 → H u.2.1 u.1 = some h →
        v + h ≤ bkOf cfg.lb (finalize cfg (finalizeLayers fin) e).1.bestExactValue ∨
        (∃ c ∈ (finalize cfg (finalizeLayers fin) e).1.cutset, u.2.1 ≤ c.depth ∧
          ∃ y, (H c.depth c.state).addI c.value = some y ∧ v + h ≤ y) ∨
        (cfg.useCache = true ∧ ∃ (s' : S) (d' : Nat) (t : Thr) (v' h' : Int), cache.get s' d' = some (some t) ∧ u.2.1 < d' ∧
          Cover.Within (M + Cover.Bd B (d' - cfg.root.depth)) v' ∧ v' ≤ t.value ∧ H d' s' = some h' ∧ v + h ≤ v' + h') := by
  intro u hu
  obtain ⟨l, p, n3, hn, hdel, hc, hab, t, hth, rfl⟩ := (hx.spec e).2 u hu
  have hdep := hx.depth e l p n3 hn
  dsimp only
  refine ⟨by omega, ?_⟩
  intro v h hv hvt hH
  have hlmax := hx.lmax e l p n3 hn
  have hy : HypF cfg H B M dd.layers.length (bkOf cfg.lb (finalize cfg (finalizeLayers fin) e).1.bestExactValue) := by
    refine ⟨hR, hlb, bkOf_ge _ _, hx.hy.B.nonneg, hM0, ?_⟩
    have := Cover.Bd_mono hx.hy.B.nonneg hx.bo.len
    omega
  have hg := gt_all (hx.ff e) hy (dd.layers.length - l) l p n3 (by omega) hn hdel
  rw [hdep, Nat.add_sub_cancel_left] at hv
  rw [hdep] at hH
  rcases hg v hv (fun t' ht' => by rw [hth] at ht'; cases ht'; exact hvt) h hH with g1 | g1 | g1 | ⟨g1, _⟩
  · exact .inl g1
  · -- a cut-set node that is handed out
    right; left
    obtain ⟨l', p', c3, hc', hll, hc3, _, hcut3, hmk3, _, _, ⟨pt, tn, htn⟩, hHc, hxle⟩ := g1
    -- the diagram has terminal nodes, hence a best value
    obtain ⟨t0, _, _, _, _, _, _, hloc⟩ := hx.locate e htn
    have hbv : ∃ bv, (finalizeLayers fin).bestValue = some bv := by
      rcases hloc with ⟨_, _, _, hl⟩ | ⟨_, hp⟩
      · omega
      · have hterm : t0 ∈ (finalizeLayers fin).terminals := by rw [hx.bo.terms]; exact List.mem_of_getElem? hp
        obtain ⟨bv, hbv, _⟩ := Cover.maxValue_ge _ t0 hterm
        exact ⟨bv, hbv⟩
    obtain ⟨bv, hbv⟩ := hbv
    refine ⟨subOf cfg (finalize cfg (finalizeLayers fin) e).2 bv c3, ?_, ?_, c3.value + hc', ?_, hxle⟩
    · exact (finalize_cutset_iff cfg _ e _).2 ⟨bv, (l', p'), c3, hbv, hx.cutMem e l' p' c3 hc3 hcut3, hc3, hmk3, rfl⟩
    · simp only [subOf]
      rw [hdep, hx.depth e l' p' c3 hc3]; omega
    · simp only [subOf]
      rw [hx.depth e l' p' c3 hc3, hHc]
      simp only [EInt.addI, Option.map_some]
      rw [Int.add_comm]
  · -- a node pruned by the cache, strictly deeper
    right; right
    obtain ⟨l', p', m3, t', v', h', hll, hpp, hm3, _, hcm, hlook, hv't, hw', hH', hxle⟩ := g1
    have hlt : l < l' := by
      rcases Nat.lt_or_ge l l' with h1 | h1
      · exact h1
      · have hl' : l' = l := by omega
        subst hl'
        rw [hpp rfl, hn] at hm3
        cases hm3
        rw [hc] at hcm; cases hcm
    obtain ⟨hu1, hget⟩ := lookup_some hlook
    have hdm := hx.depth e l' p' m3 hm3
    refine ⟨hu1, m3.state, m3.depth, t', v', h', hget, by rw [hdep, hdm]; omega, ?_, hv't, by rw [hdm]; exact hH', hxle⟩
    rw [hdm, Nat.add_sub_cancel_left]
    exact hw'
  · rw [hab] at g1; cases g1

end

/-! ## `compile` -/

/-- **`theta_sound`** — Stage 1 of C09 for a relaxed compilation, with or without cache (no dominance rule): every
    recorded threshold `(s, d, θ, explored)` is sound.  For every value `v ≤ θ` (the rule of `_filter_with_cache`, which
    ignores the `explored` flag and is the stronger of the two pruning rules) in range and every potential `h` of `(d, s)`:
    `v + h ≤ bk` (the incumbent after this diagram), or a sub-problem of the cut-set of *this* diagram, not shallower than
    `d`, has potential `≥ v + h`, or the cache consulted by the compilation prunes, strictly deeper than `d`, a sub-problem
    `(s', d', v')` with potential `≥ v + h`. -/
theorem theta_sound (cfg : Cfg S K) (H : Nat → S → EInt) (B M : Int) (p0 : List Dec) (cache : Cache S) (store : DomStore S K)
    (polls : Nat) (stopAt : Option Nat)
    (hrel : cfg.ctype = .relaxed) (hdom : cfg.dom = none) (hW : 1 ≤ cfg.width)
    (hP : Potential cfg.P H) (hR : RubOk cfg.R H) (hM : MergeOk cfg.R H) (hAM : Cover.AttMerge cfg.P cfg.R H)
    (hB : NoClamp cfg.P cfg.R cfg.root.value B) (hlb : cfg.lb < iMax)
    (hroot : Reach cfg.P cfg.root.depth cfg.root.state cfg.root.value p0)
    (hM0 : 0 ≤ M) (hMs : M + Cover.Bd B (cfg.P.nbVars + 1) ≤ big)
    (hok : (compile cfg cache store polls stopAt).1 = .ok) (r : Result S)
    (hr : r = (compile cfg cache store polls stopAt).2.1 ∨ (compile cfg cache store polls stopAt).2.2.1 = some r) :
    ∀ u ∈ r.cacheUpdates, cfg.root.depth ≤ u.2.1 ∧
      ∀ v h, Cover.Within (M + Cover.Bd B (u.2.1 - cfg.root.depth)) v → v ≤ u.2.2.1 → H u.2.1 u.1 = some h →
        v + h ≤ bkOf cfg.lb r.bestExactValue ∨
        (∃ c ∈ r.cutset, u.2.1 ≤ c.depth ∧ ∃ y, (H c.depth c.state).addI c.value = some y ∧ v + h ≤ y) ∨
        (cfg.useCache = true ∧ ∃ (s' : S) (d' : Nat) (t : Thr) (v' h' : Int), cache.get s' d' = some (some t) ∧ u.2.1 < d' ∧
          Cover.Within (M + Cover.Bd B (d' - cfg.root.depth)) v' ∧ v' ≤ t.value ∧ H d' s' = some h' ∧ v + h ≤ v' + h') := by
  have hy : HypT cfg H B := ⟨hrel, hdom, hW, hP, hM, hAM, hB⟩
  obtain ⟨_, e, rfl⟩ := compile_results cfg cache store polls stopAt hok r hr
  have hdone := compile_doneT cfg H B hy cache store polls stopAt hok
  have hwf := compile_wf cfg B p0 hB hroot cache store polls stopAt
  have hinv2 := (buildLoop_inv2 cfg B p0 hB stopAt (cfg.P.nbVars + 2) (initDD cfg cache store polls)
    (initDD_inv cfg B p0 hB hroot cache store polls) (initDD_inv2 cfg cache store polls) rfl
    (by simp only [initDD, List.length_nil]; omega)).2
  generalize (buildLoop cfg stopAt (cfg.P.nbVars + 2) (initDD cfg cache store polls)).1 = fin at hdone hwf hinv2 ⊢
  obtain ⟨Live, dd, hbo⟩ := builtOk_of_done cfg H B cache fin hdone
  exact Ctx.theta_sound (p0 := p0) ⟨hy, hbo, hwf, hinv2⟩ hR hlb M hM0 hMs e

end Ddo.Theta
