import DdoModel.Proofs.ParDomLSysDefs
/-! # The parallel solver with the shared dominance checker — compilations that interleave LAYER BY LAYER: the proofs -/
set_option linter.unusedSectionVars false
set_option linter.unusedVariables false
namespace Ddo.ParDom
open Ddo Ddo.Truth Ddo.Closed Ddo.ParSys Ddo.ParClosed Ddo.C10
open Ddo.C01 (SolverCfg WellFormed toOut SolOf)
variable {S K : Type} [DecidableEq S] [DecidableEq K]

/-! ## Part A: one compilation -/

/-- the diagrams a compilation of `cfg` can have built so far when each of its layers ran on SOME store of exactly reached items -/
inductive LReach (dv : DSolverCfg S K) (cfg : Cfg S K) : DD S K → Prop
  | init : LReach dv cfg (ddOf dv cfg none)
  | step (dd dd' : DD S K) (st : DomStore S K) (var : Nat) : LReach dv cfg dd →
      StoreReach dv.D dv.sv.P st → st.layers.length = dv.sv.P.nbVars + 1 →
      cfg.P.nextVar dd.depth (dd.next.map (·.state)) = some var →
      stepLayer cfg (tick (withStore dd st) var) var = (some dd', .ok) → LReach dv cfg dd'

theorem buildLoopL_none (cfg : Cfg S K) (σ : Nat → DomStore S K) (fuel : Nat) (dd : DD S K)
    (h : cfg.P.nextVar dd.depth (dd.next.map (·.state)) = none) :
    buildLoopL cfg σ (fuel + 1) dd =
      ({ dd with log := Call.nextVar dd.depth (dd.next.map (·.state)) none :: dd.log }, .ok) := by
  unfold buildLoopL; simp only [h]

theorem buildLoopL_some (cfg : Cfg S K) (σ : Nat → DomStore S K) (fuel : Nat) (dd : DD S K) (var : Nat)
    (h : cfg.P.nextVar dd.depth (dd.next.map (·.state)) = some var) :
    buildLoopL cfg σ (fuel + 1) dd =
      match stepLayer cfg (tick (withStore dd (σ dd.depth)) var) var with
      | (none, _) => (tick dd var, .crash)
      | (some dd', .cutoff) => (dd', .ok)
      | (some dd', .crash) => (dd', .crash)
      | (some dd', .ok) => buildLoopL cfg σ fuel dd' := by
  conv => lhs; unfold buildLoopL
  simp only [h]
  rfl

theorem buildLoopL_ok (cfg : Cfg S K) (σ : Nat → DomStore S K) (fuel : Nat) (dd dd' : DD S K) (var : Nat)
    (h : cfg.P.nextVar dd.depth (dd.next.map (·.state)) = some var)
    (hs : stepLayer cfg (tick (withStore dd (σ dd.depth)) var) var = (some dd', .ok)) :
    buildLoopL cfg σ (fuel + 1) dd = buildLoopL cfg σ fuel dd' := by
  rw [buildLoopL_some cfg σ fuel dd var h, hs]

theorem buildLoopL_cutoff (cfg : Cfg S K) (σ : Nat → DomStore S K) (fuel : Nat) (dd dd' : DD S K) (var : Nat)
    (h : cfg.P.nextVar dd.depth (dd.next.map (·.state)) = some var)
    (hs : stepLayer cfg (tick (withStore dd (σ dd.depth)) var) var = (some dd', .cutoff)) :
    buildLoopL cfg σ (fuel + 1) dd = (dd', .ok) := by
  rw [buildLoopL_some cfg σ fuel dd var h, hs]

/-- the store field of the diagram the loop starts from is never read -/
theorem buildLoopL_withStore (cfg : Cfg S K) (σ : Nat → DomStore S K) (fuel : Nat) (dd : DD S K) (x : DomStore S K) :
    (buildLoopL cfg σ fuel (withStore dd x)).2 = (buildLoopL cfg σ fuel dd).2 ∧
    resultOf cfg (buildLoopL cfg σ fuel (withStore dd x)).1 = resultOf cfg (buildLoopL cfg σ fuel dd).1 := by
  cases fuel with
  | zero => exact ⟨rfl, rfl⟩
  | succ fuel =>
    cases hnv : cfg.P.nextVar dd.depth (dd.next.map (·.state)) with
    | none =>
      rw [buildLoopL_none cfg σ fuel dd hnv, buildLoopL_none cfg σ fuel (withStore dd x) hnv]
      exact ⟨rfl, rfl⟩
    | some var =>
      rw [buildLoopL_some cfg σ fuel dd var hnv, buildLoopL_some cfg σ fuel (withStore dd x) var hnv]
      have e : stepLayer cfg (tick (withStore (withStore dd x) (σ (withStore dd x).depth)) var) var =
          stepLayer cfg (tick (withStore dd (σ dd.depth)) var) var := rfl
      rw [e]
      cases stepLayer cfg (tick (withStore dd (σ dd.depth)) var) var with
      | mk o oc =>
        cases o with
        | none => exact ⟨rfl, rfl⟩
        | some a => cases oc <;> exact ⟨rfl, rfl⟩

/-- the loop from the initial diagram, in terms of the loop from `dd`, whatever stores the layers from `dd.depth` on will see -/
def SimFrom (dv : DSolverCfg S K) (cfg : Cfg S K) (dd : DD S K) : Prop :=
  ∃ σ : Nat → DomStore S K, GoodStores dv σ ∧ ∀ σ' : Nat → DomStore S K, (∀ d, d < dd.depth → σ' d = σ d) → ∀ fuel : Nat,
    (buildLoopL cfg σ' (dd.layers.length + fuel) (initDD cfg (Cache.init dv.sv.P.nbVars) (σ' cfg.root.depth) 0)).2 =
      (buildLoopL cfg σ' fuel dd).2 ∧
    resultOf cfg (buildLoopL cfg σ' (dd.layers.length + fuel)
        (initDD cfg (Cache.init dv.sv.P.nbVars) (σ' cfg.root.depth) 0)).1 = resultOf cfg (buildLoopL cfg σ' fuel dd).1

structure LI (dv : DSolverCfg S K) (cfg : Cfg S K) (B : Int) (p0 : List Dec) (dd : DD S K) : Prop where
  minv : MInv cfg B p0 dd
  depth : dd.depth = cfg.root.depth + dd.layers.length
  len : dd.layers.length ≤ cfg.P.nbVars + 1
  sim : SimFrom dv cfg dd

theorem goodStores_upd {dv : DSolverCfg S K} {σ : Nat → DomStore S K} (hσ : GoodStores dv σ) (k : Nat) {st : DomStore S K}
    (hst : StoreReach dv.D dv.sv.P st) (hlen : st.layers.length = dv.sv.P.nbVars + 1) :
    GoodStores dv (fun d => if d = k then st else σ d) := by
  intro d
  by_cases h : d = k
  · simp only [h, if_true]; exact ⟨hst, hlen⟩
  · simp only [h, if_false]; exact hσ d

theorem lreach_li (dv : DSolverCfg S K) (cfg : Cfg S K) (B : Int) (p0 : List Dec)
    (hB : NoClamp cfg.P cfg.R cfg.root.value B) (hroot : Reach cfg.P cfg.root.depth cfg.root.state cfg.root.value p0)
    (hNV : NvBound cfg.P) {dd : DD S K} (h : LReach dv cfg dd) : LI dv cfg B p0 dd := by
  induction h with
  | init =>
    refine ⟨initDD_inv cfg B p0 hB hroot _ _ _, rfl, Nat.zero_le _, fun _ => DomStore.init dv.sv.P.nbVars,
      goodStores_const dv, fun σ' _ fuel => ?_⟩
    have := buildLoopL_withStore cfg σ' fuel (initDD cfg (Cache.init dv.sv.P.nbVars) (σ' cfg.root.depth) 0)
      (DomStore.init dv.sv.P.nbVars)
    show (buildLoopL cfg σ' (0 + fuel) _).2 = _ ∧ resultOf cfg (buildLoopL cfg σ' (0 + fuel) _).1 = _
    rw [Nat.zero_add]
    exact ⟨this.1.symm, this.2.symm⟩
  | step dd dd' st var hr hst hlen hnv hs ih =>
    obtain ⟨hM, hdep, hl, σ, hσ, hsim⟩ := ih
    have hlt : dd.depth < cfg.P.nbVars := nv_depth_lt hNV hnv
    obtain ⟨m1, m2, _⟩ := Ddo.stepLayer_inv cfg B p0 hB (tick (withStore dd st) var) var (hM.congr rfl rfl) hdep hnv hl
      dd' .ok hs
    obtain ⟨m2a, m2b⟩ := m2 rfl
    have m2b' : dd'.layers.length = dd.layers.length + 1 := m2b
    have hd' : dd'.depth = dd.depth + 1 := by rw [m2a, m2b', hdep]; omega
    refine ⟨m1, m2a, by omega, fun d => if d = dd.depth then st else σ d, goodStores_upd hσ _ hst hlen, ?_⟩
    intro σ' hag fuel
    have h1 := hsim σ' (fun d hd => by rw [hag d (by omega)]; simp [Nat.ne_of_lt hd]) (fuel + 1)
    have h2 : σ' dd.depth = st := by rw [hag dd.depth (by omega)]; simp
    have h3 : buildLoopL cfg σ' (fuel + 1) dd = buildLoopL cfg σ' fuel dd' :=
      buildLoopL_ok cfg σ' fuel dd dd' var hnv (by rw [h2]; exact hs)
    rw [h3] at h1
    have h4 : dd'.layers.length + fuel = dd.layers.length + (fuel + 1) := by omega
    rw [h4]; exact h1

/-- **target A**: when the loop ends at a reachable diagram, the answer is a `compileL` answer -/
theorem lreach_finish {dv : DSolverCfg S K} {H : Nat → S → EInt} {B0 B : Int} (hwf : WellFormed dv.sv H B0 B)
    (ct : CompType) {N : SubP S} (hn : C01.NodeOk dv.sv.P N) (lb : Int) {dd fin : DD S K} {st : DomStore S K}
    (hr : LReach dv (dv.cfg ct N lb) dd) (hst : StoreReach dv.D dv.sv.P st) (hlen : st.layers.length = dv.sv.P.nbVars + 1)
    (hfin : LoopEnd (dv.cfg ct N lb) st dd fin) :
    ∃ σ, GoodStores dv σ ∧ (compileL (dv.cfg ct N lb) (Cache.init dv.sv.P.nbVars) σ 0).1 = .ok ∧
      resultOf (dv.cfg ct N lb) fin = (compileL (dv.cfg ct N lb) (Cache.init dv.sv.P.nbVars) σ 0).2.1 := by
  obtain ⟨p0, hroot, _⟩ := hn
  have hB : NoClamp dv.sv.P dv.sv.R N.value B := hwf.bound.noClamp_at hwf.nv hroot
  obtain ⟨hM, hdep, hl, σ, hσ, hsim⟩ := lreach_li dv (dv.cfg ct N lb) B p0 hB hroot hwf.nv hr
  refine ⟨fun d => if d = dd.depth then st else σ d, goodStores_upd hσ _ hst hlen, ?_⟩
  have hl' : dd.layers.length ≤ dv.sv.P.nbVars + 1 := hl
  obtain ⟨k, hk⟩ : ∃ k, dd.layers.length + (k + 1) = dv.sv.P.nbVars + 2 := ⟨dv.sv.P.nbVars + 1 - dd.layers.length, by omega⟩
  have h1 := hsim (fun d => if d = dd.depth then st else σ d) (fun d hd => by simp [Nat.ne_of_lt hd]) (k + 1)
  rw [hk] at h1
  have h2 : (fun d => if d = dd.depth then st else σ d) dd.depth = st := by simp
  have hfin' : buildLoopL (dv.cfg ct N lb) (fun d => if d = dd.depth then st else σ d) (k + 1) dd = (fin, .ok) := by
    rcases hfin with ⟨hnv, rfl⟩ | ⟨var, hnv, hs⟩
    · exact buildLoopL_none _ _ _ _ hnv
    · exact buildLoopL_cutoff _ _ _ _ _ var hnv (by simp only [if_true]; exact hs)
  rw [hfin'] at h1
  exact ⟨h1.1, h1.2.symm⟩

/-- **target A'**: the store a layer leaves holds exactly reached items again -/
theorem lreach_store {dv : DSolverCfg S K} {H : Nat → S → EInt} {B0 B : Int} (hwf : WellFormed dv.sv H B0 B)
    (ct : CompType) {N : SubP S} (hn : C01.NodeOk dv.sv.P N) (lb : Int) {dd dd' : DD S K} {st : DomStore S K} {var : Nat}
    (hr : LReach dv (dv.cfg ct N lb) dd) (hst : StoreReach dv.D dv.sv.P st) (hlen : st.layers.length = dv.sv.P.nbVars + 1)
    (hnv : (dv.cfg ct N lb).P.nextVar dd.depth (dd.next.map (·.state)) = some var)
    (hs : stepLayer (dv.cfg ct N lb) (tick (withStore dd st) var) var = (some dd', .ok)) :
    StoreReach dv.D dv.sv.P dd'.store ∧ dd'.store.layers.length = dv.sv.P.nbVars + 1 := by
  obtain ⟨p0, hroot, _⟩ := hn
  have hB : NoClamp dv.sv.P dv.sv.R N.value B := hwf.bound.noClamp_at hwf.nv hroot
  obtain ⟨hM, hdep, hl, _⟩ := lreach_li dv (dv.cfg ct N lb) B p0 hB hroot hwf.nv hr
  obtain ⟨h1, h2⟩ := stepLayer_sinv (dv.cfg ct N lb) dv.D rfl rfl hwf.nv B p0 (tick (withStore dd st) var) dd' var .ok
    ⟨hst, hlen⟩ (hM.congr rfl rfl) hdep hnv hs
  exact ⟨h1, h2⟩

/-! ## Part B: the system -/

/-- what holds of the in-progress diagrams -/
structure ProgInv (dv : DSolverCfg S K) (s : LSys S K) : Prop where
  len : s.prog.length = s.sys.ws.length
  idle : ∀ (i : Nat) (w : WSt S), s.sys.ws[i]? = some w → cfgOf dv w = none → s.prog[i]? = some none
  reach : ∀ (i : Nat) (w : WSt S) (cfg : Cfg S K) (dd : DD S K), s.sys.ws[i]? = some w → cfgOf dv w = some cfg →
    s.prog[i]? = some (some dd) → LReach dv cfg dd

theorem cfgOf_some {dv : DSolverCfg S K} {w : WSt S} {cfg : Cfg S K} (h : cfgOf dv w = some cfg) :
    ∃ ct n lb, cfg = dv.cfg ct n lb ∧ w.node = some n ∧
      ((w = .compR n lb ∧ ct = .restricted) ∨ (w = .compX n lb ∧ ct = .relaxed)) := by
  cases w <;> first | (cases h; done) | skip
  · rename_i n lb
    injection h with h
    exact ⟨.restricted, n, lb, h.symm, rfl, Or.inl ⟨rfl, rfl⟩⟩
  · rename_i n lb
    injection h with h
    exact ⟨.relaxed, n, lb, h.symm, rfl, Or.inr ⟨rfl, rfl⟩⟩

theorem set_frame {dv : DSolverCfg S K} (ws : List (WSt S)) (i : Nat) (w wn : WSt S) (hw : ws[i]? = some w)
    (h : cfgOf dv w = none) (j : Nat) : (ws.set i wn)[j]? = ws[j]? ∨ ∃ w, ws[j]? = some w ∧ cfgOf dv w = none := by
  by_cases hj : i = j
  · subst hj; exact Or.inr ⟨w, hw, h⟩
  · exact Or.inl (List.getElem?_set_ne hj)

theorem mem_set_self' {α : Type} {l : List α} {i : Nat} {a b : α} (h : l[i]? = some a) : b ∈ l.set i b := by
  obtain ⟨hlt, _⟩ := List.getElem?_eq_some_iff.1 h
  exact List.mem_of_getElem? (List.getElem?_set_self hlt)

/-- a critical section leaves every worker that is inside a compilation alone -/
theorem sec_frame {dv : DSolverCfg S K} {dedup : Bool} {s t : Sys S}
    (h : Step dedup (fun _ _ _ => False) (fun _ _ _ => False) s t) (hna : NoAbortS t) :
    t.ws.length = s.ws.length ∧ ∀ j : Nat, t.ws[j]? = s.ws[j]? ∨ ∃ w, s.ws[j]? = some w ∧ cfgOf dv w = none := by
  cases h with
  | gwAborted i hw ha => exact ⟨List.length_set, set_frame _ _ _ _ hw rfl⟩
  | gwComplete i hw ha ho hf => exact ⟨List.length_set, set_frame _ _ _ _ hw rfl⟩
  | gwWait i hw ha ho hf => exact ⟨List.length_set, set_frame _ _ _ _ hw rfl⟩
  | gwStarve i N rest c' k hw ha hp hl => exact ⟨rfl, fun _ => Or.inl rfl⟩
  | gwItem i N rest c' nn k c'' hw ha hp hl ht => exact ⟨List.length_set, set_frame _ _ _ _ hw rfl⟩
  | gwCrash i N rest c' nn k hw ha hp hl ht => exact ⟨List.length_set, set_frame _ _ _ _ hw rfl⟩
  | readLbR i n hw => exact ⟨List.length_set, set_frame _ _ _ _ hw rfl⟩
  | compileR i n lb r hw hok =>
    cases r with
    | ok o => exact (hok o rfl).elim
    | cutoff => exact (hna _ (mem_set_self' hw) n rfl).elim
  | updateR i n lb o hw => exact ⟨List.length_set, set_frame _ _ _ _ hw rfl⟩
  | readLbX i n hw => exact ⟨List.length_set, set_frame _ _ _ _ hw rfl⟩
  | compileX i n lb r hw hok =>
    cases r with
    | ok o => exact (hok o rfl).elim
    | cutoff => exact (hna _ (mem_set_self' hw) n rfl).elim
  | updateX i n lb o hw => exact ⟨List.length_set, set_frame _ _ _ _ hw rfl⟩
  | enqueue i n lb o hw => exact ⟨List.length_set, set_frame _ _ _ _ hw rfl⟩
  | abort i n top hw htop => exact ⟨List.length_set, set_frame _ _ _ _ hw rfl⟩
  | notify i n te c' hw hn =>
    refine ⟨by simp, fun j => ?_⟩
    by_cases hj : i = j
    · subst hj; exact Or.inr ⟨_, hw, rfl⟩
    · show ((s.ws.map WSt.wake).set i _)[j]? = _ ∨ _
      rw [List.getElem?_set_ne hj, List.getElem?_map]
      cases hwj : s.ws[j]? with
      | none => exact Or.inl rfl
      | some w =>
        by_cases hwt : w = .waiting
        · subst hwt; exact Or.inr ⟨_, rfl, rfl⟩
        · refine Or.inl ?_
          cases w <;> first | rfl | exact (hwt rfl).elim

theorem progInv_init (dv : DSolverCfg S K) (U : Nat) : ProgInv dv (LSys.init dv U) := by
  refine ⟨by simp [LSys.init, Sys.init], fun i w hw _ => ?_, fun i w cfg dd _ _ hp => ?_⟩
  · have hw' : (List.replicate U (WSt.idle : WSt S))[i]? = some w := hw
    show (List.replicate U none)[i]? = some none
    rw [List.getElem?_replicate] at hw' ⊢
    split at hw'
    · rename_i hlt; rw [if_pos hlt]
    · cases hw'
  · have hp' : (List.replicate U (none : Option (DD S K)))[i]? = some (some dd) := hp
    rw [List.getElem?_replicate] at hp'
    split at hp'
    · cases hp'
    · cases hp'

/-- **target B**: along every run of the layer-interleaved system from its initial state: the projection reaches `t.sys` by a run
    of `GStep` with the answers `okRL`/`okXL` (layer steps are stuttering steps), the shared store holds exactly reached items
    only, and `ProgInv` -/
theorem lrun_inv {dv : DSolverCfg S K} {H : Nat → S → EInt} {B0 B opt : Int} {Prot : Nat → S → Int → Prop}
    (hwf : WellFormed dv.sv H B0 B) (hopt : (H 0 dv.sv.P.init).addI dv.sv.P.initVal = some opt)
    (hPr : Protected dv.D dv.sv.P H opt Prot) (U : Nat) {t : LSys S K} (h : LRun dv (LSys.init dv U) t) :
    GRun dv.sv.dedup (okRL dv) (okXL dv) (Sys.init dv.sv.P none dv.sv.dedup U) t.sys ∧
    StoreReach dv.D dv.sv.P t.store ∧ t.store.layers.length = dv.sv.P.nbVars + 1 ∧ ProgInv dv t := by
  induction h with
  | refl =>
    exact ⟨GRun.refl _, storeReach_init dv.D dv.sv.P _, by simp [LSys.init, DomStore.init], progInv_init dv U⟩
  | @tail s0 _ _ hstep ih =>
    obtain ⟨hrun, hs, hl, hP⟩ := ih
    have hI := grun_gall hwf hopt hPr (ansOk_L hwf hopt hPr) hrun
    cases hstep with
    | sec t' h hna =>
      obtain ⟨f1, f2⟩ := sec_frame (dv := dv) h hna
      refine ⟨GRun.tail hrun ⟨step_mono h (fun _ _ _ _ _ hf => hf.elim) (fun _ _ _ _ _ hf => hf.elim), hna⟩, hs, hl,
        hP.len.trans f1.symm, fun j w hw hc => ?_, fun j w cfg dd hw hc hp => ?_⟩
      · have hw' : t'.ws[j]? = some w := hw
        rcases f2 j with e | ⟨w0, e, hc0⟩
        · exact hP.idle j w (e ▸ hw') hc
        · exact hP.idle j w0 e hc0
      · have hw' : t'.ws[j]? = some w := hw
        rcases f2 j with e | ⟨w0, e, hc0⟩
        · exact hP.reach j w cfg dd (e ▸ hw') hc hp
        · have := hP.idle j w0 e hc0
          rw [this] at hp; cases hp
    | layer i w cfg pr var dd' hw hc hp hnv hst =>
      obtain ⟨ct, n, lb, rfl, hnode, _⟩ := cfgOf_some hc
      have hn : C01.NodeOk dv.sv.P n := (hI.pc.ws w (List.mem_of_getElem? hw)).node n hnode
      have hr : LReach dv (dv.cfg ct n lb) (ddOf dv (dv.cfg ct n lb) pr) := by
        cases pr with
        | none => exact LReach.init
        | some dd => exact hP.reach i w _ dd hw hc hp
      obtain ⟨s1, s2⟩ := lreach_store hwf ct hn lb hr hs hl hnv hst
      refine ⟨hrun, s1, s2, (List.length_set).trans hP.len, fun j w0 hw0 hc0 => ?_, fun j w0 cfg0 dd0 hw0 hc0 hp0 => ?_⟩
      · have hw0' : _[j]? = some w0 := hw0
        have hij : i ≠ j := by
          intro e; subst e; rw [hw] at hw0'; injection hw0' with e; subst e; rw [hc] at hc0; cases hc0
        show (List.set _ i _)[j]? = _
        rw [List.getElem?_set_ne hij]
        exact hP.idle j w0 hw0' hc0
      · have hw0' : _[j]? = some w0 := hw0
        have hp0' : (List.set _ i (some dd'))[j]? = some (some dd0) := hp0
        by_cases hij : i = j
        · subst hij
          rw [hw] at hw0'; injection hw0' with e; subst e
          rw [hc] at hc0; injection hc0 with e; subst e
          have hlt : i < _ := (List.getElem?_eq_some_iff.1 hp).1
          rw [List.getElem?_set_self hlt] at hp0'
          injection hp0' with e; injection e with e; subst e
          exact LReach.step _ _ _ var hr hs hl hnv hst
        · rw [List.getElem?_set_ne hij] at hp0'
          exact hP.reach j w0 cfg0 dd0 hw0' hc0 hp0'
    | finish i w cfg pr fin hw hc hp hfin =>
      obtain ⟨ct, n, lb, rfl, hnode, hcase⟩ := cfgOf_some hc
      have hn : C01.NodeOk dv.sv.P n := (hI.pc.ws w (List.mem_of_getElem? hw)).node n hnode
      have hr : LReach dv (dv.cfg ct n lb) (ddOf dv (dv.cfg ct n lb) pr) := by
        cases pr with
        | none => exact LReach.init
        | some dd => exact hP.reach i w _ dd hw hc hp
      obtain ⟨σ, hσ, hok, heq⟩ := lreach_finish hwf ct hn lb hr hs hl hfin
      have hcn : cfgOf dv (afterComp (toOut (resultOf (dv.cfg ct n lb) fin)) w) = none := by
        rcases hcase with ⟨rfl, _⟩ | ⟨rfl, _⟩ <;> rfl
      have hna : NoAbortS (S := S) { crit := s0.sys.crit, ws := List.set s0.sys.ws i (afterComp (toOut (resultOf (dv.cfg ct n lb) fin)) w) } := by
        intro w0 hw0 m
        rcases List.mem_or_eq_of_mem_set hw0 with h' | h'
        · exact (hI.noCut.2 w0 h' m).1
        · rw [h']; rcases hcase with ⟨rfl, _⟩ | ⟨rfl, _⟩ <;> simp [afterComp]
      have hstep : Step dv.sv.dedup (okRL dv) (okXL dv) s0.sys
          { crit := s0.sys.crit, ws := List.set s0.sys.ws i (afterComp (toOut (resultOf (dv.cfg ct n lb) fin)) w) } := by
        rcases hcase with ⟨rfl, rfl⟩ | ⟨rfl, rfl⟩
        · exact StepG.compileR _ i n lb (.ok _) hw (fun o ho => by
            injection ho with ho; subst ho; exact ⟨σ, hσ, hok, by rw [heq]⟩)
        · exact StepG.compileX _ i n lb (.ok _) hw (fun o ho => by
            injection ho with ho; subst ho; exact ⟨σ, hσ, hok, by rw [heq]⟩)
      refine ⟨GRun.tail hrun ⟨hstep, hna⟩, hs, hl, ?_, fun j w0 hw0 hc0 => ?_, fun j w0 cfg0 dd0 hw0 hc0 hp0 => ?_⟩
      · show (List.set _ i _).length = (List.set _ i _).length
        rw [List.length_set, List.length_set]; exact hP.len
      · have hw0' : (List.set _ i _)[j]? = some w0 := hw0
        show (List.set _ i _)[j]? = _
        by_cases hij : i = j
        · subst hij
          exact List.getElem?_set_self (List.getElem?_eq_some_iff.1 hp).1
        · rw [List.getElem?_set_ne hij] at hw0' ⊢
          exact hP.idle j w0 hw0' hc0
      · have hw0' : (List.set _ i _)[j]? = some w0 := hw0
        have hp0' : (List.set _ i none)[j]? = some (some dd0) := hp0
        by_cases hij : i = j
        · subst hij
          rw [List.getElem?_set_self (List.getElem?_eq_some_iff.1 hw).1] at hw0'
          injection hw0' with e; subst e
          rw [hcn] at hc0; cases hc0
        · rw [List.getElem?_set_ne hij] at hw0' hp0'
          exact hP.reach j w0 cfg0 dd0 hw0' hc0 hp0'

end Ddo.ParDom
