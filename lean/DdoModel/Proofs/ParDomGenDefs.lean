import DdoModel.Proofs.ParDomDefs
/-! # The parallel solver with the dominance checker, generic in the way the compilations access the shared store

Everything the system-level proof uses of the answers of the compilations is collected in `AnsOk`: whatever the granularity at
which a compilation interleaves its accesses to the shared checker with those of the other workers (whole compilation, one layer,
one `is_dominated_or_insert`), if the answers meet `AnsOk` the parallel solver is correct (`Props/C10f.lean`). -/
set_option linter.unusedSectionVars false
set_option linter.unusedVariables false
namespace Ddo.ParDom
open Ddo Ddo.Truth Ddo.Closed Ddo.ParSys Ddo.ParClosed Ddo.C10
open Ddo.C01 (SolverCfg WellFormed toOut SolOf)
variable {S K : Type} [DecidableEq S] [DecidableEq K]

/-- **what is needed of the answers of the compilations** (`okR n lb o`: the restricted compilation of the node `n` with the stale
    incumbent `lb` may answer `o`; `okX`: the relaxed one), for nodes reached exactly:
    * `factsR` / `factsX`: reported exact values are in range and come with a solution; cut-set nodes are reached exactly, strictly
      deeper, not deeper than `nb_variables`;
    * `contractR` / `contractX`: the protected-family contracts `DCompileOk` / `DCutsetOk` relative to the stale incumbent;
    * `answersR` / `answersX`: a compilation always ends normally (no panic, no crash). -/
structure AnsOk (dv : DSolverCfg S K) (B opt : Int) (Prot : Nat → S → Int → Prop)
    (okR okX : SubP S → Int → DDOut S → Prop) : Prop where
  factsR : ∀ n lb o, C01.NodeOk dv.sv.P n → okR n lb o →
    ∀ w, o.bestExact = some w → w ≤ B ∧ ∃ p, o.bestExactSol = some p
  factsX : ∀ n lb o, C01.NodeOk dv.sv.P n → okX n lb o →
    (∀ w, o.bestExact = some w → w ≤ B ∧ ∃ p, o.bestExactSol = some p) ∧
    (∀ c ∈ o.cutset, C01.NodeOk dv.sv.P c ∧ n.depth < c.depth ∧ c.depth ≤ dv.sv.P.nbVars)
  contractR : ∀ n lb o, C01.NodeOk dv.sv.P n → iMin ≤ lb → lb ≤ B → lb ≤ opt → okR n lb o →
    DCompileOk (OnP Prot) opt (SolOf dv.sv.P) n lb o
  contractX : ∀ n lb o, C01.NodeOk dv.sv.P n → iMin ≤ lb → lb ≤ B → lb ≤ opt → okX n lb o →
    DCompileOk (OnP Prot) opt (SolOf dv.sv.P) n lb o ∧ (o.isExact = false → DCutsetOk (OnP Prot) opt n lb o)
  answersR : ∀ n lb, C01.NodeOk dv.sv.P n → ∃ o, okR n lb o
  answersX : ∀ n lb, C01.NodeOk dv.sv.P n → ∃ o, okX n lb o

/-- **the steps of the parallel solver with the checker** for given answer relations (no compilation is cut off) -/
def GStep (dedup : Bool) (okR okX : SubP S → Int → DDOut S → Prop) (s t : Sys S) : Prop :=
  Step dedup okR okX s t ∧ NoAbortS t

inductive GRun (dedup : Bool) (okR okX : SubP S → Int → DDOut S → Prop) : Sys S → Sys S → Prop
  | refl (s : Sys S) : GRun dedup okR okX s s
  | tail {s t u : Sys S} : GRun dedup okR okX s t → GStep dedup okR okX t u → GRun dedup okR okX s u

/-- what a worker carries between two sections -/
def GWInv (okR okX : SubP S → Int → DDOut S → Prop) (B : Int) : WSt S → Prop
  | .compR _ lb => iMin ≤ lb ∧ lb ≤ B
  | .compX _ lb => iMin ≤ lb ∧ lb ≤ B
  | .updR n lb o => okR n lb o
  | .updX n lb o => okX n lb o
  | .enq n lb o => okX n lb o
  | _ => True

structure GWOkP (dv : DSolverCfg S K) (okR okX : SubP S → Int → DDOut S → Prop) (B : Int) (w : WSt S) : Prop where
  node : ∀ n, w.node = some n → C01.NodeOk dv.sv.P n
  stage : GWInv okR okX B w

/-- the side conditions: every fringe entry and every node in hand is reached exactly; incumbents in range; carried answers are
    answers -/
structure GPCInv (dv : DSolverCfg S K) (H : Nat → S → EInt) (okR okX : SubP S → Int → DDOut S → Prop) (B : Int) (s : Sys S) :
    Prop where
  base : BaseOk dv.sv H B s.crit.base
  ws : ∀ w ∈ s.ws, GWOkP dv okR okX B w

end Ddo.ParDom
