import DdoModel.Props.C01d
import DdoModel.Props.C01b
import DdoModel.Proofs.MddWidth
/-! Helpers for `Props/C19b.lean`: the sequential solver over the diagram model **with a cutoff**.

* diagram level: `stepLayer_polls` (a layer step neither reads nor writes the poll counter), `buildLoop_polls_mono`,
  `buildLoop_none_ne_cutoff`, **`buildLoop_prefix`** (with `stopAt = some k` the loop does what it does with `stopAt = none`
  until the poll counter reaches `k`), `buildLoop_prefix_trace` (the cut diagram is an intermediate diagram of the
  uninterrupted loop), `compile_prefix`, `compile_polls_irrel` (without cutoff the poll counter handed to a compilation does not
  influence anything but the counter it returns);
* solver level: `solveCut` (the loop of `maximize` as a fuel-driven function, poll counter threaded through the two compilations
  of every turn, cutoff firing at the `k`-th poll), `finish` (what `maximize` leaves behind), `cutTurn_closed` (closed form of a turn
  of the cut run in terms of the same turn of the uninterrupted run: unaffected, or `abortAt`), `cut_poll_location` (into which of the
  two compilations the `k`-th poll falls), `solveCut_nil` / `solveCut_stable` / `solveCut_polls_mono`, `solveCut_eq_of_lt` (a cutoff
  that fires after the last poll of the uninterrupted run changes nothing).

Nothing here assumes anything about the model (no `WellFormed`): these are structural facts about the two loops.  Core Lean only. -/
set_option linter.unusedSectionVars false
set_option linter.unusedVariables false
namespace Ddo.C19
open Ddo Ddo.Truth Ddo.Closed Ddo.C01
variable {S K : Type} [DecidableEq S] [DecidableEq K]

/-! ## 1. the compilation loop and the poll counter -/
section Diagram

theorem squash_setPolls (cfg : Cfg S K) (dd : DD S K) (q : Nat) (l : List (Node S)) (c : List Nat) :
    squash cfg { dd with polls := q } l c = squash cfg dd l c := rfl

theorem stepLayer_setPolls (cfg : Cfg S K) (dd : DD S K) (var q : Nat) :
    stepLayer cfg { dd with polls := q } var =
      ((stepLayer cfg dd var).1.map (fun d => { d with polls := q }), (stepLayer cfg dd var).2) := by
  rw [Ddo.Width.stepLayer_eq, Ddo.Width.stepLayer_eq]
  have e : Ddo.Width.squashOf cfg { dd with polls := q } = Ddo.Width.squashOf cfg dd := rfl
  rw [e]
  split
  · rfl
  · split <;> rfl

theorem stepLayer_polls (cfg : Cfg S K) (dd dd' : DD S K) (var : Nat) (oc : Outcome)
    (h : stepLayer cfg dd var = (some dd', oc)) : dd'.polls = dd.polls := by
  rw [Ddo.Width.stepLayer_eq] at h
  split at h
  · cases h; rfl
  · split at h
    · cases h
    · cases h; rfl

/-- the loop when `next_variable` answers `None` -/
theorem buildLoop_stop (cfg : Cfg S K) (stopAt : Option Nat) (fuel : Nat) (dd : DD S K)
    (h : cfg.P.nextVar dd.depth (dd.next.map (·.state)) = none) :
    buildLoop cfg stopAt (fuel + 1) dd =
      ({ dd with log := Call.nextVar dd.depth (dd.next.map (·.state)) none :: dd.log }, .ok) := by
  conv => lhs; unfold buildLoop
  simp only [h]

/-- one iteration of the loop with a cutoff firing at the `k`-th poll -/
theorem buildLoop_some_step (cfg : Cfg S K) (k fuel : Nat) (dd : DD S K) (var : Nat)
    (h : cfg.P.nextVar dd.depth (dd.next.map (·.state)) = some var) :
    buildLoop cfg (some k) (fuel + 1) dd =
      if k ≤ dd.polls + 1 then (tick dd var, .cutoff) else
      match stepLayer cfg (tick dd var) var with
      | (none, _) => (tick dd var, .crash)
      | (some dd', .cutoff) => (dd', .ok)
      | (some dd', .crash) => (dd', .crash)
      | (some dd', .ok) => buildLoop cfg (some k) fuel dd' := by
  conv => lhs; unfold buildLoop
  simp only [h]
  by_cases hk : k ≤ dd.polls + 1
  · simp only [hk, decide_true, if_true]; rfl
  · simp only [hk, decide_false, Bool.false_eq_true, if_false]; rfl

theorem tick_polls (dd : DD S K) (var : Nat) : (tick dd var).polls = dd.polls + 1 := rfl

/-- the poll counter only grows -/
theorem buildLoop_polls_mono (cfg : Cfg S K) (stopAt : Option Nat) :
    ∀ (fuel : Nat) (dd : DD S K), dd.polls ≤ (buildLoop cfg stopAt fuel dd).1.polls := by
  intro fuel
  induction fuel with
  | zero => intro dd; exact Nat.le_refl _
  | succ fuel ih =>
    intro dd
    cases hnv : cfg.P.nextVar dd.depth (dd.next.map (·.state)) with
    | none => rw [buildLoop_stop cfg stopAt fuel dd hnv]; exact Nat.le_refl _
    | some var =>
      have key : ∀ r : Option (DD S K) × Outcome, stepLayer cfg (tick dd var) var = r →
          dd.polls ≤ (match r with
            | (none, _) => (tick dd var, Outcome.crash)
            | (some dd', .cutoff) => (dd', .ok)
            | (some dd', .crash) => (dd', .crash)
            | (some dd', .ok) => buildLoop cfg stopAt fuel dd').1.polls := by
        intro r hr
        split
        · show dd.polls ≤ dd.polls + 1; omega
        · have := stepLayer_polls cfg _ _ var _ hr; rw [tick_polls] at this; simp only; omega
        · have := stepLayer_polls cfg _ _ var _ hr; rw [tick_polls] at this; simp only; omega
        · next dd' =>
          have := stepLayer_polls cfg _ _ var _ hr; rw [tick_polls] at this
          have := ih dd'; omega
      cases stopAt with
      | none => rw [buildLoop_step cfg fuel dd var hnv]; exact key _ rfl
      | some k =>
        rw [buildLoop_some_step cfg k fuel dd var hnv]
        split
        · show dd.polls ≤ dd.polls + 1; omega
        · exact key _ rfl

/-- without a cutoff the loop never answers `cutoff` -/
theorem buildLoop_none_ne_cutoff (cfg : Cfg S K) :
    ∀ (fuel : Nat) (dd : DD S K), (buildLoop cfg none fuel dd).2 ≠ .cutoff := by
  intro fuel
  induction fuel with
  | zero => intro dd h; cases h
  | succ fuel ih =>
    intro dd
    cases hnv : cfg.P.nextVar dd.depth (dd.next.map (·.state)) with
    | none => rw [buildLoop_stop cfg none fuel dd hnv]; intro h; cases h
    | some var =>
      rw [buildLoop_step cfg fuel dd var hnv]
      split
      · intro h; cases h
      · intro h; cases h
      · intro h; cases h
      · exact ih _

/-- **`buildLoop_prefix`**: with `stopAt = some k` the loop performs exactly the steps it performs with `stopAt = none` as long
    as the poll counter stays below `k`:
    * if the uninterrupted loop ends with fewer than `k` polls, the cutoff changes nothing;
    * otherwise (the counter is still below `k` when the loop is entered) the loop with the cutoff answers `cutoff`, at the
      poll that brings the counter to `k`. -/
theorem buildLoop_prefix (cfg : Cfg S K) (k : Nat) :
    ∀ (fuel : Nat) (dd : DD S K),
      ((buildLoop cfg none fuel dd).1.polls < k → buildLoop cfg (some k) fuel dd = buildLoop cfg none fuel dd) ∧
      (dd.polls < k → k ≤ (buildLoop cfg none fuel dd).1.polls →
        (buildLoop cfg (some k) fuel dd).2 = .cutoff ∧ (buildLoop cfg (some k) fuel dd).1.polls = k) := by
  intro fuel
  induction fuel with
  | zero => intro dd; exact ⟨fun _ => rfl, fun h1 h2 => absurd h2 (by show ¬ k ≤ dd.polls; omega)⟩
  | succ fuel ih =>
    intro dd
    cases hnv : cfg.P.nextVar dd.depth (dd.next.map (·.state)) with
    | none =>
      rw [buildLoop_stop cfg none fuel dd hnv, buildLoop_stop cfg (some k) fuel dd hnv]
      exact ⟨fun _ => rfl, fun h1 h2 => absurd h2 (by show ¬ k ≤ dd.polls; omega)⟩
    | some var =>
      have hmono := buildLoop_polls_mono cfg none (fuel + 1) dd
      rw [buildLoop_step cfg fuel dd var hnv] at hmono ⊢
      rw [buildLoop_some_step cfg k fuel dd var hnv]
      by_cases hk : k ≤ dd.polls + 1
      · rw [if_pos hk]
        refine ⟨fun h => ?_, fun h1 _ => ⟨rfl, by rw [tick_polls]; omega⟩⟩
        -- the uninterrupted loop polls at least once: contradiction
        exfalso
        revert h
        generalize hr : stepLayer cfg (tick dd var) var = r
        split
        · show ¬ dd.polls + 1 < k; omega
        · have := stepLayer_polls cfg _ _ var _ hr; rw [tick_polls] at this; simp only; omega
        · have := stepLayer_polls cfg _ _ var _ hr; rw [tick_polls] at this; simp only; omega
        · next dd' =>
          have := stepLayer_polls cfg _ _ var _ hr; rw [tick_polls] at this
          have := buildLoop_polls_mono cfg none fuel dd'; omega
      · rw [if_neg hk]
        generalize hr : stepLayer cfg (tick dd var) var = r
        split
        · exact ⟨fun _ => rfl, fun _ h2 => absurd h2 (by show ¬ k ≤ dd.polls + 1; omega)⟩
        · have := stepLayer_polls cfg _ _ var _ hr; rw [tick_polls] at this
          exact ⟨fun _ => rfl, fun _ h2 => absurd h2 (by simp only; omega)⟩
        · have := stepLayer_polls cfg _ _ var _ hr; rw [tick_polls] at this
          exact ⟨fun _ => rfl, fun _ h2 => absurd h2 (by simp only; omega)⟩
        · next dd' =>
          have := stepLayer_polls cfg _ _ var _ hr; rw [tick_polls] at this
          exact ⟨(ih dd').1, fun _ h2 => (ih dd').2 (by omega) h2⟩

/-- `dd'` is the diagram at the head of a later iteration of the compilation loop started on `dd` (no cutoff, no break in between) -/
inductive LoopReach (cfg : Cfg S K) : DD S K → DD S K → Prop
  | refl (dd : DD S K) : LoopReach cfg dd dd
  | step (dd dd' dd'' : DD S K) (var : Nat) : cfg.P.nextVar dd.depth (dd.next.map (·.state)) = some var →
      stepLayer cfg (tick dd var) var = (some dd', .ok) → LoopReach cfg dd' dd'' → LoopReach cfg dd dd''

/-- **the cut diagram is an intermediate diagram of the uninterrupted loop**: when the `k`-th poll falls into this loop, there is
    an iteration head `dm` of the uninterrupted loop (reached through the very same layer steps, `LoopReach`) with `k - 1` polls, at
    which `next_variable` answers `Some(var)`; the loop with the cutoff stops there (`tick` = the log entry and the poll), the loop
    without goes on from there. -/
theorem buildLoop_prefix_trace (cfg : Cfg S K) (k : Nat) :
    ∀ (fuel : Nat) (dd : DD S K), dd.polls < k → k ≤ (buildLoop cfg none fuel dd).1.polls →
      ∃ (dm : DD S K) (var fuel' : Nat), LoopReach cfg dd dm ∧ cfg.P.nextVar dm.depth (dm.next.map (·.state)) = some var ∧
        dm.polls + 1 = k ∧ fuel' < fuel ∧ buildLoop cfg (some k) fuel dd = (tick dm var, .cutoff) ∧
        buildLoop cfg none fuel dd = buildLoop cfg none (fuel' + 1) dm := by
  intro fuel
  induction fuel with
  | zero => intro dd h1 h2; exact absurd h2 (by show ¬ k ≤ dd.polls; omega)
  | succ fuel ih =>
    intro dd h1 h2
    cases hnv : cfg.P.nextVar dd.depth (dd.next.map (·.state)) with
    | none =>
      rw [buildLoop_stop cfg none fuel dd hnv] at h2
      exact absurd h2 (by show ¬ k ≤ dd.polls; omega)
    | some var =>
      by_cases hk : k ≤ dd.polls + 1
      · refine ⟨dd, var, fuel, LoopReach.refl dd, hnv, by omega, Nat.lt_succ_self _, ?_, rfl⟩
        rw [buildLoop_some_step cfg k fuel dd var hnv, if_pos hk]
      · rw [buildLoop_step cfg fuel dd var hnv] at h2 ⊢
        rw [buildLoop_some_step cfg k fuel dd var hnv, if_neg hk]
        generalize hr : stepLayer cfg (tick dd var) var = r at h2 ⊢
        split at h2
        · exact absurd h2 (by show ¬ k ≤ dd.polls + 1; omega)
        · have := stepLayer_polls cfg _ _ var _ hr; rw [tick_polls] at this
          exact absurd h2 (by simp only; omega)
        · have := stepLayer_polls cfg _ _ var _ hr; rw [tick_polls] at this
          exact absurd h2 (by simp only; omega)
        · next dd' =>
          have hp := stepLayer_polls cfg _ _ var _ hr; rw [tick_polls] at hp
          obtain ⟨dm, v, f', hreach, hv, hpk, hf, e1, e2⟩ := ih dd' (by omega) h2
          exact ⟨dm, v, f', LoopReach.step dd dd' dm var hnv hr hreach, hv, hpk, by omega, e1, e2⟩

/-- without cutoff the poll counter is carried along, nothing else depends on it -/
theorem buildLoop_setPolls (cfg : Cfg S K) :
    ∀ (fuel : Nat) (dd : DD S K) (q : Nat), ∃ q', buildLoop cfg none fuel { dd with polls := q } =
      ({ (buildLoop cfg none fuel dd).1 with polls := q' }, (buildLoop cfg none fuel dd).2) := by
  intro fuel
  induction fuel with
  | zero => intro dd q; exact ⟨q, rfl⟩
  | succ fuel ih =>
    intro dd q
    cases hnv : cfg.P.nextVar dd.depth (dd.next.map (·.state)) with
    | none =>
      rw [buildLoop_stop cfg none fuel dd hnv, buildLoop_stop cfg none fuel { dd with polls := q } hnv]
      exact ⟨q, rfl⟩
    | some var =>
      rw [buildLoop_step cfg fuel dd var hnv, buildLoop_step cfg fuel { dd with polls := q } var hnv]
      have e : tick { dd with polls := q } var = { tick dd var with polls := q + 1 } := rfl
      rw [e, stepLayer_setPolls]
      generalize stepLayer cfg (tick dd var) var = r
      obtain ⟨o, oc⟩ := r
      cases o with
      | none => exact ⟨q + 1, rfl⟩
      | some dd' =>
        cases oc with
        | ok => exact ih dd' (q + 1)
        | cutoff => exact ⟨q + 1, rfl⟩
        | crash => exact ⟨q + 1, rfl⟩

/-! ## 2. one compilation and the poll counter -/

/-- the counter a compilation hands back is the counter of its loop -/
theorem compile_polls (cfg : Cfg S K) (cache : Cache S) (store : DomStore S K) (p : Nat) (stopAt : Option Nat) :
    (compile cfg cache store p stopAt).2.1.polls = (buildLoop cfg stopAt (cfg.P.nbVars + 2) (initDD cfg cache store p)).1.polls := by
  unfold compile
  generalize buildLoop cfg stopAt (cfg.P.nbVars + 2) (initDD cfg cache store p) = bl
  obtain ⟨dd, oc⟩ := bl
  cases oc <;> rfl

theorem compile_polls_mono (cfg : Cfg S K) (cache : Cache S) (store : DomStore S K) (p : Nat) (stopAt : Option Nat) :
    p ≤ (compile cfg cache store p stopAt).2.1.polls := by
  rw [compile_polls]
  exact buildLoop_polls_mono cfg stopAt _ (initDD cfg cache store p)

theorem compile_none_ne_cutoff (cfg : Cfg S K) (cache : Cache S) (store : DomStore S K) (p : Nat) :
    (compile cfg cache store p none).1 ≠ .cutoff := by
  rw [compile_fst]
  exact buildLoop_none_ne_cutoff cfg _ _

/-- **`compile_prefix`**: a compilation entered with fewer than `k` polls, cutoff firing at the `k`-th poll:
    if the uninterrupted compilation ends with fewer than `k` polls it is not affected at all; otherwise it is cut off, and the
    counter is `k` -/
theorem compile_prefix (cfg : Cfg S K) (cache : Cache S) (store : DomStore S K) (p k : Nat) :
    ((compile cfg cache store p none).2.1.polls < k → compile cfg cache store p (some k) = compile cfg cache store p none) ∧
    (p < k → k ≤ (compile cfg cache store p none).2.1.polls →
      (compile cfg cache store p (some k)).1 = .cutoff ∧ (compile cfg cache store p (some k)).2.1.polls = k) := by
  obtain ⟨h1, h2⟩ := buildLoop_prefix cfg k (cfg.P.nbVars + 2) (initDD cfg cache store p)
  rw [compile_polls, compile_polls, compile_fst]
  refine ⟨fun h => ?_, fun hp hk => h2 hp hk⟩
  unfold compile
  rw [h1 h]

/-- without cutoff, the poll counter a compilation is entered with influences nothing but the counter it returns -/
theorem compile_polls_irrel (cfg : Cfg S K) (cache : Cache S) (store : DomStore S K) (p q : Nat) :
    (compile cfg cache store p none).1 = (compile cfg cache store q none).1 ∧
    toOut (compile cfg cache store p none).2.1 = toOut (compile cfg cache store q none).2.1 := by
  have e : initDD cfg cache store p = { initDD cfg cache store q with polls := p } := rfl
  obtain ⟨q', hq⟩ := buildLoop_setPolls cfg (cfg.P.nbVars + 2) (initDD cfg cache store q) p
  unfold compile
  rw [e, hq]
  generalize buildLoop cfg none (cfg.P.nbVars + 2) (initDD cfg cache store q) = bl
  obtain ⟨dd, oc⟩ := bl
  cases oc
  · exact ⟨rfl, rfl⟩
  · exact ⟨rfl, rfl⟩
  · exact ⟨rfl, rfl⟩

end Diagram

/-! ## 3. the solver loop with a cutoff -/

/-- the answer of a compilation as `process_one_node` reads it; a compilation that does not end normally (cutoff — or a panic,
    which the loop below turns into a stop before the answer is looked at) stops `process_one_node` -/
def resOf (c : Outcome × Result S × Option (Result S) × DD S Unit) : DDRes S :=
  match c.1 with
  | .ok => .ok (toOut c.2.1)
  | _ => .cutoff

/-- a compilation of the solver: `EmptyCache`, no dominance checker, entered with `p` polls, cutoff firing at the `k`-th poll
    (`none` = `NoCutoff`) -/
def _root_.Ddo.C01.SolverCfg.comp (sv : SolverCfg S) (k : Option Nat) (ct : CompType) (p : Nat) (N : SubP S) (lb : Int) :
    Outcome × Result S × Option (Result S) × DD S Unit :=
  compile (sv.cfg ct N lb) (Cache.init sv.P.nbVars) (DomStore.init sv.P.nbVars) p k

/-- the restricted compilation of `N` from the popped state `st`, and the relaxed one (entered with the polls the restricted one
    returned and the incumbent it left) -/
def _root_.Ddo.C01.SolverCfg.cR (sv : SolverCfg S) (k : Option Nat) (st : SeqSt S) (N : SubP S) (p : Nat) :=
  sv.comp k .restricted p N st.bestLb
def _root_.Ddo.C01.SolverCfg.cX (sv : SolverCfg S) (k : Option Nat) (st : SeqSt S) (N : SubP S) (p : Nat) :=
  sv.comp k .relaxed (sv.cR k st N p).2.1.polls N (st.updateBest (toOut (sv.cR k st N p).2.1)).bestLb

/-- `process_one_node(N)` from the popped state `st`, `p` polls so far: the new state and the new poll count (the polls of the
    compilations that were actually started: `process` says how many) -/
def _root_.Ddo.C01.SolverCfg.cutTurn (sv : SolverCfg S) (k : Option Nat) (st : SeqSt S) (N : SubP S) (p : Nat) : SeqSt S × Nat :=
  ((st.process sv.dedup N true (resOf (sv.cR k st N p)) (resOf (sv.cX k st N p))).1,
   match (st.process sv.dedup N true (resOf (sv.cR k st N p)) (resOf (sv.cX k st N p))).2 with
   | 0 => p
   | 1 => (sv.cR k st N p).2.1.polls
   | _ => (sv.cX k st N p).2.1.polls)

/-- a compilation that was started panicked -/
def _root_.Ddo.C01.SolverCfg.cutCrash (sv : SolverCfg S) (k : Option Nat) (st : SeqSt S) (N : SubP S) (p : Nat) : Bool :=
  (decide (1 ≤ (st.process sv.dedup N true (resOf (sv.cR k st N p)) (resOf (sv.cX k st N p))).2) &&
      decide ((sv.cR k st N p).1 = .crash)) ||
  (decide ((st.process sv.dedup N true (resOf (sv.cR k st N p)) (resOf (sv.cX k st N p))).2 = 2) &&
      decide ((sv.cX k st N p).1 = .crash))

/-- **the loop of `maximize` with a cutoff**, as a function of the fuel: like `C01.SolverCfg.solveLoop`, with the poll counter
    threaded through all compilations and the cutoff answering "stop" from its `k`-th poll on (`k = none`: `NoCutoff`).
    A cut-off `process_one_node` calls `abort_search`, which empties the fringe: the loop then stops by itself. -/
def _root_.Ddo.C01.SolverCfg.solveCut (sv : SolverCfg S) (k : Option Nat) : Nat → SeqSt S × Nat → SeqSt S × Nat
  | 0, sp => sp
  | n + 1, sp =>
    match popMax sp.1.fringe with
    | none => sp
    | some (N, rest) =>
      if sv.cutCrash k (popped sp.1 N rest (cleanLoop sv.P.nbVars sp.1.openByLayer sv.P.nbVars sp.1.firstActive)) N sp.2 then
        -- a panic: the loop stops; what is returned is the state before the pop (as `solveLoop` does) and the polls made so far
        (sp.1, (sv.cutTurn k (popped sp.1 N rest (cleanLoop sv.P.nbVars sp.1.openByLayer sv.P.nbVars sp.1.firstActive)) N sp.2).2)
      else sv.solveCut k n
        (sv.cutTurn k (popped sp.1 N rest (cleanLoop sv.P.nbVars sp.1.openByLayer sv.P.nbVars sp.1.firstActive)) N sp.2)

/-- what `maximize` leaves behind once the loop has ended (empty fringe): `get_workload` finds the fringe empty and sets
    `best_ub := best_lb` — unless the search was aborted, in which case the loop `break`s without calling `get_workload` again -/
def finish (s : SeqSt S) : SeqSt S := if s.abort then s else s.complete

/-! ### `process_one_node`, case by case -/

theorem process_pruned (dedup : Bool) (st : SeqSt S) (N : SubP S) (r x : DDRes S) (h : N.ub ≤ st.bestLb) :
    st.process dedup N true r x = (st, 0) := by
  unfold SeqSt.process; rw [if_pos h]

theorem process_cutR (dedup : Bool) (st : SeqSt S) (N : SubP S) (x : DDRes S) (h : ¬ N.ub ≤ st.bestLb) :
    st.process dedup N true .cutoff x = (st.abortSearch, 1) := by
  unfold SeqSt.process; rw [if_neg h]; rfl

theorem process_exactR (dedup : Bool) (st : SeqSt S) (N : SubP S) (r : DDOut S) (x : DDRes S) (h : ¬ N.ub ≤ st.bestLb)
    (he : r.isExact = true) : st.process dedup N true (.ok r) x = (st.updateBest r, 1) := by
  unfold SeqSt.process; rw [if_neg h]; simp only [Bool.not_true, Bool.false_eq_true, if_false, he, if_true]

theorem process_cutX (dedup : Bool) (st : SeqSt S) (N : SubP S) (r : DDOut S) (h : ¬ N.ub ≤ st.bestLb)
    (he : r.isExact = false) : st.process dedup N true (.ok r) .cutoff = ((st.updateBest r).abortSearch, 2) := by
  unfold SeqSt.process; rw [if_neg h]; simp only [Bool.not_true, Bool.false_eq_true, if_false, he]

theorem process_okX_cnt (dedup : Bool) (st : SeqSt S) (N : SubP S) (r x : DDOut S) (h : ¬ N.ub ≤ st.bestLb)
    (he : r.isExact = false) : (st.process dedup N true (.ok r) (.ok x)).2 = 2 := by
  unfold SeqSt.process; rw [if_neg h]; simp only [Bool.not_true, Bool.false_eq_true, if_false, he]
  split <;> rfl

theorem resOf_ok (c : Outcome × Result S × Option (Result S) × DD S Unit) (h : c.1 = .ok) : resOf c = .ok (toOut c.2.1) := by
  unfold resOf; rw [h]
theorem resOf_not_ok (c : Outcome × Result S × Option (Result S) × DD S Unit) (h : c.1 ≠ .ok) : resOf c = .cutoff := by
  unfold resOf
  split
  · next e => exact absurd e h
  · rfl


/-! ### one turn of the cut run against the same turn of the uninterrupted run -/

/-- the state in which the run cut at poll `k` ends when that poll falls into the turn of `N` (popped state `st`, `p` polls
    before): `abort_search` on the popped state — after the incumbent update of the restricted diagram if the poll falls into the
    relaxed compilation -/
def _root_.Ddo.C01.SolverCfg.abortAt (sv : SolverCfg S) (st : SeqSt S) (N : SubP S) (p k : Nat) : SeqSt S :=
  (if k ≤ (sv.cR none st N p).2.1.polls then st else st.updateBest (toOut (sv.cR none st N p).2.1)).abortSearch

theorem cR_prefix (sv : SolverCfg S) (st : SeqSt S) (N : SubP S) (p k : Nat) :
    ((sv.cR none st N p).2.1.polls < k → sv.cR (some k) st N p = sv.cR none st N p) ∧
    (p < k → k ≤ (sv.cR none st N p).2.1.polls → (sv.cR (some k) st N p).1 = .cutoff ∧ (sv.cR (some k) st N p).2.1.polls = k) :=
  compile_prefix _ _ _ p k

theorem cX_prefix (sv : SolverCfg S) (st : SeqSt S) (N : SubP S) (p k : Nat) (hR : sv.cR (some k) st N p = sv.cR none st N p) :
    ((sv.cX none st N p).2.1.polls < k → sv.cX (some k) st N p = sv.cX none st N p) ∧
    ((sv.cR none st N p).2.1.polls < k → k ≤ (sv.cX none st N p).2.1.polls →
      (sv.cX (some k) st N p).1 = .cutoff ∧ (sv.cX (some k) st N p).2.1.polls = k) := by
  unfold SolverCfg.cX
  rw [hR]
  exact compile_prefix _ _ _ _ k

theorem cR_le_cX (sv : SolverCfg S) (k : Option Nat) (st : SeqSt S) (N : SubP S) (p : Nat) :
    (sv.cR k st N p).2.1.polls ≤ (sv.cX k st N p).2.1.polls := compile_polls_mono _ _ _ _ _

theorem p_le_cR (sv : SolverCfg S) (k : Option Nat) (st : SeqSt S) (N : SubP S) (p : Nat) :
    p ≤ (sv.cR k st N p).2.1.polls := compile_polls_mono _ _ _ _ _

/-- **closed form of a turn of the run cut at poll `k`**, in terms of the same turn of the uninterrupted run (same popped state,
    same node, same polls `p < k` so far; `p'` = the polls after the uninterrupted turn):
    * `p' < k`: the turn is not affected (same state, same polls, same verdict about panics);
    * `k ≤ p'`: the turn is cut off — the node is not pruned, nothing panics, the new state is `abortAt` and the poll count is `k`. -/
theorem cutTurn_closed (sv : SolverCfg S) (st : SeqSt S) (N : SubP S) (p k : Nat) (hp : p < k) :
    ((sv.cutTurn none st N p).2 < k →
      sv.cutTurn (some k) st N p = sv.cutTurn none st N p ∧ sv.cutCrash (some k) st N p = sv.cutCrash none st N p) ∧
    (k ≤ (sv.cutTurn none st N p).2 →
      sv.cutTurn (some k) st N p = (sv.abortAt st N p k, k) ∧ sv.cutCrash (some k) st N p = false ∧ ¬ N.ub ≤ st.bestLb) := by
  by_cases hpr : N.ub ≤ st.bestLb
  · -- pruned: no compilation is started
    have e : ∀ k, sv.cutTurn k st N p = (st, p) ∧ sv.cutCrash k st N p = false := by
      intro k
      unfold SolverCfg.cutTurn SolverCfg.cutCrash
      rw [process_pruned _ _ _ _ _ hpr]
      exact ⟨rfl, rfl⟩
    refine ⟨fun _ => ⟨by rw [(e _).1, (e _).1], by rw [(e _).2, (e _).2]⟩, fun h => ?_⟩
    rw [(e none).1] at h
    exact absurd h (by show ¬ k ≤ p; omega)
  · obtain ⟨hRa, hRb⟩ := cR_prefix sv st N p k
    -- the turn when the restricted compilation is cut off
    have cutR : k ≤ (sv.cR none st N p).2.1.polls →
        sv.cutTurn (some k) st N p = (sv.abortAt st N p k, k) ∧ sv.cutCrash (some k) st N p = false := by
      intro hk
      obtain ⟨h1, h2⟩ := hRb hp hk
      have hres : resOf (sv.cR (some k) st N p) = .cutoff := resOf_not_ok _ (by rw [h1]; intro h; cases h)
      unfold SolverCfg.cutTurn SolverCfg.cutCrash SolverCfg.abortAt
      rw [hres, process_cutR _ _ _ _ hpr, if_pos hk, h1, h2]
      exact ⟨rfl, rfl⟩
    -- the turn when `process_one_node` stops after the restricted compilation (exact, or panic)
    have stopR : ∀ (st' : SeqSt S), (∀ x, st.process sv.dedup N true (resOf (sv.cR none st N p)) x = (st', 1)) →
        ((sv.cutTurn none st N p).2 < k →
          sv.cutTurn (some k) st N p = sv.cutTurn none st N p ∧ sv.cutCrash (some k) st N p = sv.cutCrash none st N p) ∧
        (k ≤ (sv.cutTurn none st N p).2 →
          sv.cutTurn (some k) st N p = (sv.abortAt st N p k, k) ∧ sv.cutCrash (some k) st N p = false ∧ ¬ N.ub ≤ st.bestLb) := by
      intro st' hst
      have e2 : (sv.cutTurn none st N p).2 = (sv.cR none st N p).2.1.polls := by
        unfold SolverCfg.cutTurn; rw [hst]; rfl
      rw [e2]
      refine ⟨fun hlt => ?_, fun hk => ⟨(cutR hk).1, (cutR hk).2, hpr⟩⟩
      have hR := hRa hlt
      unfold SolverCfg.cutTurn SolverCfg.cutCrash
      rw [hR, hst, hst]
      exact ⟨rfl, by simp⟩
    cases hoR : (sv.cR none st N p).1 with
    | cutoff => exact absurd hoR (compile_none_ne_cutoff _ _ _ _)
    | crash =>
      refine stopR st.abortSearch (fun x => ?_)
      rw [resOf_not_ok _ (by rw [hoR]; intro h; cases h), process_cutR _ _ _ _ hpr]
    | ok =>
      have hres := resOf_ok _ hoR
      by_cases hex : (toOut (sv.cR none st N p).2.1).isExact = true
      · refine stopR (st.updateBest (toOut (sv.cR none st N p).2.1)) (fun x => ?_)
        rw [hres, process_exactR _ _ _ _ _ hpr hex]
      · have hex' : (toOut (sv.cR none st N p).2.1).isExact = false := by
          cases h : (toOut (sv.cR none st N p).2.1).isExact with
          | true => exact absurd h hex
          | false => rfl
        -- both compilations are started
        have cnt2 : ∀ x, (st.process sv.dedup N true (resOf (sv.cR none st N p)) x).2 = 2 := by
          intro x
          rw [hres]
          cases x with
          | cutoff => rw [process_cutX _ _ _ _ hpr hex']
          | ok x => exact process_okX_cnt _ _ _ _ _ hpr hex'
        have e2 : (sv.cutTurn none st N p).2 = (sv.cX none st N p).2.1.polls := by
          unfold SolverCfg.cutTurn; rw [cnt2]; rfl
        rw [e2]
        have hle := cR_le_cX sv none st N p
        refine ⟨fun hlt => ?_, fun hk => ?_⟩
        · have hR := hRa (by omega)
          have hX := (cX_prefix sv st N p k hR).1 hlt
          unfold SolverCfg.cutTurn SolverCfg.cutCrash
          rw [hR, hX]
          exact ⟨rfl, rfl⟩
        · by_cases hkR : k ≤ (sv.cR none st N p).2.1.polls
          · exact ⟨(cutR hkR).1, (cutR hkR).2, hpr⟩
          · have hR := hRa (by omega)
            obtain ⟨h1, h2⟩ := (cX_prefix sv st N p k hR).2 (by omega) hk
            have hresX : resOf (sv.cX (some k) st N p) = .cutoff := resOf_not_ok _ (by rw [h1]; intro h; cases h)
            refine ⟨?_, ?_, hpr⟩
            · unfold SolverCfg.cutTurn SolverCfg.abortAt
              rw [hresX, hR, hres, process_cutX _ _ _ _ hpr hex', if_neg hkR, h2]
              rfl
            · unfold SolverCfg.cutCrash
              rw [hresX, hR, hres, process_cutX _ _ _ _ hpr hex', h1, hoR]
              rfl

/-- the polls after a turn of the uninterrupted run: none if the node is pruned, those of the restricted compilation if
    `process_one_node` stops after it (exact — or a panic), those of the relaxed compilation otherwise -/
theorem cutTurn_none_polls (sv : SolverCfg S) (st : SeqSt S) (N : SubP S) (p : Nat) :
    (N.ub ≤ st.bestLb ∧ (sv.cutTurn none st N p).2 = p) ∨
    (¬ N.ub ≤ st.bestLb ∧
      ((sv.cR none st N p).1 = .crash ∨ ((sv.cR none st N p).1 = .ok ∧ (toOut (sv.cR none st N p).2.1).isExact = true)) ∧
      (sv.cutTurn none st N p).2 = (sv.cR none st N p).2.1.polls) ∨
    (¬ N.ub ≤ st.bestLb ∧ (sv.cR none st N p).1 = .ok ∧ (toOut (sv.cR none st N p).2.1).isExact = false ∧
      (sv.cutTurn none st N p).2 = (sv.cX none st N p).2.1.polls) := by
  by_cases hpr : N.ub ≤ st.bestLb
  · refine Or.inl ⟨hpr, ?_⟩
    unfold SolverCfg.cutTurn
    rw [process_pruned _ _ _ _ _ hpr]; rfl
  · cases hoR : (sv.cR none st N p).1 with
    | cutoff => exact absurd hoR (compile_none_ne_cutoff _ _ _ _)
    | crash =>
      refine Or.inr (Or.inl ⟨hpr, Or.inl rfl, ?_⟩)
      unfold SolverCfg.cutTurn
      rw [resOf_not_ok _ (by rw [hoR]; intro h; cases h), process_cutR _ _ _ _ hpr]; rfl
    | ok =>
      have hres := resOf_ok _ hoR
      cases hex : (toOut (sv.cR none st N p).2.1).isExact with
      | true =>
        refine Or.inr (Or.inl ⟨hpr, Or.inr ⟨rfl, rfl⟩, ?_⟩)
        unfold SolverCfg.cutTurn
        rw [hres, process_exactR _ _ _ _ _ hpr hex]; rfl
      | false =>
        refine Or.inr (Or.inr ⟨hpr, rfl, rfl, ?_⟩)
        have cnt2 : ∀ x, (st.process sv.dedup N true (.ok (toOut (sv.cR none st N p).2.1)) x).2 = 2 := by
          intro x
          cases x with
          | cutoff => rw [process_cutX _ _ _ _ hpr hex]
          | ok x => exact process_okX_cnt _ _ _ _ _ hpr hex
        unfold SolverCfg.cutTurn
        rw [hres, cnt2]; rfl

/-- **where the `k`-th poll falls**, when it falls into the turn of `N` (`p < k ≤` the polls after the uninterrupted turn): either
    into the restricted compilation — which then answers `cutoff` where the uninterrupted one goes on —, or into the relaxed one:
    then the restricted compilation is exactly the uninterrupted one (it ended normally and is not exact) and the relaxed one answers
    `cutoff`.  In both cases the counter is exactly `k`. -/
theorem cut_poll_location (sv : SolverCfg S) (st : SeqSt S) (N : SubP S) (p k : Nat) (hp : p < k)
    (hk : k ≤ (sv.cutTurn none st N p).2) :
    (k ≤ (sv.cR none st N p).2.1.polls ∧ (sv.cR (some k) st N p).1 = .cutoff ∧ (sv.cR (some k) st N p).2.1.polls = k) ∨
    ((sv.cR none st N p).2.1.polls < k ∧ k ≤ (sv.cX none st N p).2.1.polls ∧ sv.cR (some k) st N p = sv.cR none st N p ∧
      (sv.cR none st N p).1 = .ok ∧ (toOut (sv.cR none st N p).2.1).isExact = false ∧
      (sv.cX (some k) st N p).1 = .cutoff ∧ (sv.cX (some k) st N p).2.1.polls = k) := by
  obtain ⟨hRa, hRb⟩ := cR_prefix sv st N p k
  by_cases hkR : k ≤ (sv.cR none st N p).2.1.polls
  · exact Or.inl ⟨hkR, hRb hp hkR⟩
  · rcases cutTurn_none_polls sv st N p with ⟨_, e⟩ | ⟨_, _, e⟩ | ⟨_, hok, hex, e⟩
    · rw [e] at hk; omega
    · rw [e] at hk; omega
    · rw [e] at hk
      have hR := hRa (by omega)
      exact Or.inr ⟨by omega, hk, hR, hok, hex, (cX_prefix sv st N p k hR).2 (by omega) hk⟩

/-! ### the loop: structural facts -/

/-- the popped state of a turn of `solveCut` -/
def _root_.Ddo.C01.SolverCfg.pop (sv : SolverCfg S) (s : SeqSt S) (N : SubP S) (rest : List (SubP S)) : SeqSt S :=
  popped s N rest (cleanLoop sv.P.nbVars s.openByLayer sv.P.nbVars s.firstActive)

theorem solveCut_succ (sv : SolverCfg S) (k : Option Nat) (n : Nat) (sp : SeqSt S × Nat) (N : SubP S) (rest : List (SubP S))
    (h : popMax sp.1.fringe = some (N, rest)) :
    sv.solveCut k (n + 1) sp =
      if sv.cutCrash k (sv.pop sp.1 N rest) N sp.2 then (sp.1, (sv.cutTurn k (sv.pop sp.1 N rest) N sp.2).2)
      else sv.solveCut k n (sv.cutTurn k (sv.pop sp.1 N rest) N sp.2) := by
  conv => lhs; unfold SolverCfg.solveCut
  simp only [h]
  rfl

/-- on an empty fringe the loop has ended -/
theorem solveCut_nil (sv : SolverCfg S) (k : Option Nat) (n : Nat) (sp : SeqSt S × Nat) (h : sp.1.fringe = []) :
    sv.solveCut k n sp = sp := by
  cases n with
  | zero => rfl
  | succ n =>
    unfold SolverCfg.solveCut
    rw [h]
    rfl

theorem popMax_none (l : List (SubP S)) (h : popMax l = none) : l = [] := by
  cases l with
  | nil => rfl
  | cons c l =>
    obtain ⟨N, rest, e⟩ := popMax_some (c :: l) (by intro h; cases h)
    rw [e] at h; cases h

/-- once the loop has ended, more fuel changes nothing -/
theorem solveCut_stable (sv : SolverCfg S) (k : Option Nat) :
    ∀ (n : Nat) (sp : SeqSt S × Nat), (sv.solveCut k n sp).1.fringe = [] → ∀ m, n ≤ m → sv.solveCut k m sp = sv.solveCut k n sp := by
  intro n
  induction n with
  | zero =>
    intro sp h m _
    exact solveCut_nil sv k m sp h
  | succ n ih =>
    intro sp h m hm
    obtain ⟨m', rfl⟩ : ∃ m', m = m' + 1 := ⟨m - 1, by omega⟩
    cases hp : popMax sp.1.fringe with
    | none =>
      have := popMax_none _ hp
      rw [solveCut_nil sv k _ sp this, solveCut_nil sv k _ sp this]
    | some Nr =>
      obtain ⟨N, rest⟩ := Nr
      rw [solveCut_succ sv k n sp N rest hp] at h ⊢
      rw [solveCut_succ sv k m' sp N rest hp]
      split
      · rfl
      · next hc =>
        rw [if_neg hc] at h
        exact ih _ h m' (by omega)

theorem cutTurn_polls_mono (sv : SolverCfg S) (k : Option Nat) (st : SeqSt S) (N : SubP S) (p : Nat) :
    p ≤ (sv.cutTurn k st N p).2 := by
  have h1 := p_le_cR sv k st N p
  have h2 := cR_le_cX sv k st N p
  unfold SolverCfg.cutTurn
  simp only
  split <;> omega

/-- the poll counter only grows along the run -/
theorem solveCut_polls_mono (sv : SolverCfg S) (k : Option Nat) :
    ∀ (n : Nat) (sp : SeqSt S × Nat), sp.2 ≤ (sv.solveCut k n sp).2 := by
  intro n
  induction n with
  | zero => intro sp; exact Nat.le_refl _
  | succ n ih =>
    intro sp
    cases hp : popMax sp.1.fringe with
    | none => rw [solveCut_nil sv k _ sp (popMax_none _ hp)]; exact Nat.le_refl _
    | some Nr =>
      obtain ⟨N, rest⟩ := Nr
      rw [solveCut_succ sv k n sp N rest hp]
      have h1 := cutTurn_polls_mono sv k (sv.pop sp.1 N rest) N sp.2
      split
      · exact h1
      · exact Nat.le_trans h1 (ih _)

/-- **a cutoff that fires after the last poll of the uninterrupted run changes nothing** -/
theorem solveCut_eq_of_lt (sv : SolverCfg S) (k : Nat) :
    ∀ (n : Nat) (sp : SeqSt S × Nat), (sv.solveCut none n sp).2 < k → sv.solveCut (some k) n sp = sv.solveCut none n sp := by
  intro n
  induction n with
  | zero => intro sp _; rfl
  | succ n ih =>
    intro sp h
    cases hp : popMax sp.1.fringe with
    | none =>
      have := popMax_none _ hp
      rw [solveCut_nil sv _ _ sp this, solveCut_nil sv _ _ sp this]
    | some Nr =>
      obtain ⟨N, rest⟩ := Nr
      have hmono := solveCut_polls_mono sv none (n + 1) sp
      have h1 := cutTurn_polls_mono sv none (sv.pop sp.1 N rest) N sp.2
      rw [solveCut_succ sv none n sp N rest hp] at h hmono ⊢
      rw [solveCut_succ sv (some k) n sp N rest hp]
      have hlt : (sv.cutTurn none (sv.pop sp.1 N rest) N sp.2).2 < k := by
        split at h
        · exact h
        · exact Nat.lt_of_le_of_lt (solveCut_polls_mono sv none n _) h
      obtain ⟨e1, e2⟩ := (cutTurn_closed sv (sv.pop sp.1 N rest) N sp.2 k (by omega)).1 hlt
      rw [e1, e2]
      split
      · rfl
      · next hc =>
        rw [if_neg hc] at h
        exact ih _ h

end Ddo.C19
