import DdoModel.Proofs.CompatThetaRoot
import DdoModel.Proofs.CacheClosedCut
import DdoModel.Proofs.CacheClosedMark
/-! C10e — **the dominance-aware `ub` contract, read on `compile`** (`JCUb` of `Proofs/CompatProcess.lean`):
`Proofs/CacheClosedCut.lean` (`Ctx.marked_clean`, `Ctx.cut_node`, `Ctx.cut_ub`) re-read with both filters from `CtxJ`; the two
facts of `KFacts` that are needed (`unmarked`, `arcsLive`) are the structure `KFactsJ` (obligation `BuiltOkJointK`); a marked node below the terminal layer was
handed to the expansion, hence is not a node dropped by the checker.  `jcUbX_of : BuiltOkJointK → JCUbX`,
`jcUb_of : BuiltOkJointK → JCUb`, `builtOkJoint_of_K : BuiltOkJointK → BuiltOkJoint`. -/
set_option linter.unusedSectionVars false
set_option linter.unusedVariables false
namespace Ddo.C10d
open Ddo Ddo.C01 Ddo.Closed Ddo.C09 Ddo.C10 Ddo.C10c Ddo.Truth Ddo.Theta Ddo.Bounds Ddo.CacheClosed
variable {S K : Type} [DecidableEq S] [DecidableEq K]


section
variable {cfg : Cfg S K} {H : Nat → S → EInt} {B : Int} {cache : Cache S} {p0 : List Dec} {fin : DD S K}
  {Live Drop : Nat → Nat → Prop} {dd : DD S K} {O : Int}

theorem CtxJ.lenLS (hx : CtxJ cfg H B cache O p0 fin Live Drop dd) (hne : dd.next ≠ []) :
    (finalizeLayers fin).layers.length = dd.layers.length + 1 := hx.bo.lenT hne

/-- **a node pruned by the cache (or deleted) is never marked**: a marked node below the terminal layer was expanded -/
theorem CtxJ.marked_clean (hx : CtxJ cfg H B cache O p0 fin Live Drop dd) (hk : KFactsJ fin Live)
    (e : Bool) (hne : dd.next ≠ []) (l p : Nat) (n3 : Node S)
    (hn : getNode (finalize cfg (finalizeLayers fin) e).2 l p = some n3) (hm : n3.marked = true)
    (hl : l < dd.layers.length) : n3.cache = false ∧ n3.deleted = false ∧ ¬ Drop l p := by
  obtain ⟨n0, n1, n2, hn0, _, _, hco⟩ := corr_of_L3 cfg (finalizeLayers fin) e hn
  rcases finalize_marked cfg (finalizeLayers fin) e hk.unmarked l p n3 hn hm with h | ⟨l', p', m, a, hmm, ha, hfl, hfp⟩
  · have := hx.lenLS hne
    omega
  · have hlv := hk.arcsLive l' p' m a hmm ha
    rw [hfl, hfp] at hlv
    rcases hx.bo.at_ l p n0 hn0 with ⟨ly, hly, hp⟩ | ⟨hl', _⟩
    · obtain ⟨hc, hd, hnd⟩ := (hx.bo.inv.clsL l p ly n0 hly hp).cur hlv
      exact ⟨by rw [hco.cache]; exact hc, by rw [hco.deleted]; exact hd, hnd⟩
    · omega

theorem maxValue_nil_none : maxValue ([] : List (Node S)) = none := rfl

/-- **the node behind a sub-problem handed out by `drain_cutset`** -/
theorem CtxJ.cut_node (hx : CtxJ cfg H B cache O p0 fin Live Drop dd) (hk : KFactsJ fin Live)
    (e : Bool) (c : SubP S) (hc : c ∈ (finalize cfg (finalizeLayers fin) e).1.cutset) :
    ∃ (bv : Int) (l p : Nat) (n3 : Node S), (finalizeLayers fin).bestValue = some bv ∧ dd.next ≠ [] ∧
      getNode (finalize cfg (finalizeLayers fin) e).2 l p = some n3 ∧ 1 ≤ l ∧ l < dd.layers.length ∧
      n3.marked = true ∧ n3.cutset = true ∧ n3.isExact = true ∧ n3.cache = false ∧ n3.deleted = false ∧ ¬ Drop l p ∧
      c = subOf cfg (finalize cfg (finalizeLayers fin) e).2 bv n3 := by
  obtain ⟨bv, lp, n3, hbv, hlp, hn, hmk, hceq⟩ := (finalize_cutset_iff cfg _ e c).1 hc
  have hne : dd.next ≠ [] := by
    intro hnil
    unfold Built.bestValue at hbv
    rw [hx.bo.terms, hnil] at hbv
    cases hbv
  have hlen := hx.lenLS hne
  have hlp' := fCs_sub cfg _ _ hlp
  obtain ⟨n0', hn0', hex0, hpos⟩ := hx.wf.cutset_pos lp hlp'
  obtain ⟨n0, n1, n2, hn0, hn1, _, hco⟩ := corr_of_L3 cfg (finalizeLayers fin) e hn
  rw [hn0] at hn0'
  cases hn0'
  have hex3 : n3.isExact = true := by rw [hco.isExact]; exact hex0
  have hl1 : 1 ≤ lp.1 := hpos hx.hy.rel
  rw [fLayers1_relaxed cfg _ hx.hy.rel] at hn1
  -- the position is below the terminal layer and the node is flagged `cutset`
  have hkey : lp.1 < dd.layers.length ∧ n3.cutset = true := by
    rw [hco.cutset]
    cases hkd : cfg.kind with
    | lel =>
      rw [hkd] at hlp' hn1
      obtain ⟨h1, h2, _⟩ := computeCutset_lel _ _ lp hlp'
      have hfl := (computeCutset_lel_flags _ _ hx.flags0 lp.1 lp.2 n1 hn1).2.1
      refine ⟨?_, hfl.mpr h1⟩
      rcases hx.lel_ne hne with ⟨_, h3⟩ | h3 <;> omega
    | frontier =>
      rw [hkd] at hlp' hn1
      obtain ⟨n00, hn00, _, l', p', m, a, hm, hmex, ha, hfl, hfp⟩ := computeCutset_frontier _ _ lp hlp'
      have harc := hx.wf.arcs l' p' m hm a ha
      have hlt := Ddo.getNode_lt hm
      refine ⟨by omega, ?_⟩
      obtain ⟨m1, hm1, hs⟩ := (computeCutset_eqC cfg.kind (finalizeLayers fin).lel (finalizeLayers fin).layers).symm.getNode_some hm
      rw [hkd] at hm1
      have hf := stripC_fields hs
      have hmex1 : m1.isExact = false := by
        unfold Node.isExact at hmex ⊢
        rw [hf.2.2.2.2.2.2.2.1, hf.2.2.2.2.2.2.2.2.1]; exact hmex
      have ha1 : a ∈ m1.inb := by rw [hf.2.2.2.2.1]; exact ha
      exact (computeCutset_frontier_flags (finalizeLayers fin).lel _ hx.flags0).2 l' p' m1 a n1 hm1 hmex1 ha1
        (by rw [hfl, hfp]; exact hn1) (by rw [hco.isExact1]; exact hex0)
  obtain ⟨hcl, hdl, hnd⟩ := hx.marked_clean hk e hne lp.1 lp.2 n3 hn hmk hkey.1
  exact ⟨bv, lp.1, lp.2, n3, hbv, hne, hn, hl1, hkey.1, hmk, hkey.2, hex3, hcl, hdl, hnd, hceq⟩

/-- **the field `ub` of the contract, on `finalize`**: the bound of a sub-problem of the cut-set dominates its potential
    when that potential beats `lb`, unless the cache cut the diagram strictly below it -/
theorem CtxJ.cut_ub (hx : CtxJ cfg H B cache O p0 fin Live Drop dd) (hk : KFactsJ fin Live)
    (hR : RubOk cfg.R H) (hlb : cfg.lb < iMax)
    (M : Int) (hM0 : 0 ≤ M) (hMs : M + Cover.Bd B (cfg.P.nbVars + 1) ≤ big) (e : Bool)
    (c : SubP S) (hc : c ∈ (finalize cfg (finalizeLayers fin) e).1.cutset)
    (hbkO : bkOf cfg.lb (finalize cfg (finalizeLayers fin) e).1.bestExactValue ≤ O)
    (y : Int) (hy : (H c.depth c.state).addI c.value = some y) (hgt : y > O) :
    y ≤ c.ub ∨ CacheAlt cfg H B M cache c.depth y := by
  obtain ⟨bv, l, p, n3, hbv, hne, hn, hl1, hl, hmk, hcut, hex, hcl, hdl, hnd, rfl⟩ := hx.cut_node hk e c hc
  have hdep := hx.depth e l p n3 hn
  simp only [subOf] at hy ⊢
  rw [hdep] at hy
  obtain ⟨h, hH, hyv⟩ := addI_some hy
  have hyv' : y = n3.value + h := by omega
  have hyF : HypFJ cfg H B M dd.layers.length (bkOf cfg.lb (finalize cfg (finalizeLayers fin) e).1.bestExactValue) O := by
    refine ⟨hR, hlb, bkOf_ge _ _, hbkO, hx.hy.B.nonneg, hM0, ?_⟩
    have := Cover.Bd_mono hx.hy.B.nonneg hx.bo.len
    omega
  rcases npj_all (hx.ffj e) hyF (dd.layers.length - l) l p n3 (by omega) hn hdl h hH with g | g | g
  · omega
  · -- cut by the cache, strictly deeper (the node itself is not pruned)
    right
    obtain ⟨l', p', m3, t', v', h', hll, hpp, hm3, _, hcm, hlook, hv't, hw', hH', hxle⟩ := g
    have hlt : l < l' := by
      rcases Nat.lt_or_ge l l' with h1 | h1
      · exact h1
      · have hl' : l' = l := by omega
        subst hl'
        rw [hpp rfl, hn] at hm3
        cases hm3
        rw [hcl] at hcm; cases hcm
    obtain ⟨hu1, hget⟩ := lookup_some hlook
    have hdm := hx.depth e l' p' m3 hm3
    refine ⟨hu1, m3.state, m3.depth, t', v', h', hget, by rw [hdep, hdm]; omega, ?_, hv't, by rw [hdm]; exact hH', ?_⟩
    · rw [hdm, Nat.add_sub_cancel_left]; exact hw'
    · omega
  · -- a potential-preserving path to the terminal layer
    left
    obtain ⟨n3', hn3', _, hvb⟩ := hx.good e l p n3 hn hcut l p h _ g
    rw [hn] at hn3'; cases hn3'
    obtain ⟨hrub, _⟩ := hx.liveN e l p n3 hn hdl hcl hl hnd
    have hrle : h ≤ n3.rub := by rw [hrub]; exact hR _ _ _ hH
    obtain ⟨n0, hn0, hs0⟩ := (finalize_layers_xEq cfg (finalizeLayers fin) e).getNode_some hn
    have hpLS := g.of_xEq (finalize_layers_xEq cfg (finalizeLayers fin) e).symm
    obtain ⟨pt, tn, _, htmem, hv⟩ := hx.path_end hpLS (by omega) n0 hn0
    obtain ⟨bv', hbv', hle⟩ := hx.best_ge e tn htmem
    have hbveq : bv' = bv := by
      have : (finalize cfg (finalizeLayers fin) e).1.bestValue = some bv := hbv
      rw [this] at hbv'; exact (Option.some.inj hbv').symm
    subst hbveq
    have hval : n0.value = n3.value := (stripB_fields hs0).2.1
    have hrng := hx.bo.inv.rngN tn htmem
    have hsm := Cover.Bd_small hx.hy.B.toDom hx.bo.len
    have hyle : y ≤ iMax := by
      unfold Cover.Within at hrng
      simp only [iMax]
      omega
    have h1 : y ≤ satAdd n3.value n3.rub := le_satAdd (by omega) hyle
    have h2 : y ≤ satAdd n3.value n3.vbot := le_satAdd (by omega) hyle
    omega
end

/-- **the top-down obligation, with the two facts `KFactsJ`** (same classification `Live` / `Drop`): what `JCUb` needs -/
def BuiltOkJointK : Prop :=
  ∀ (S K : Type) [DecidableEq S] [DecidableEq K] (dv : DSolverCfg S K) (H : Nat → S → EInt) (B0 B opt : Int) (n : Nat),
    MonoHyp dv H B0 B opt n →
    ∀ (N : SubP S) (lb : Int) (cache : Cache S) (store : DomStore S K) (p0 : List Dec),
      CompPre dv opt .relaxed N lb cache store p0 →
      ∃ (Live Drop : Nat → Nat → Prop) (dd : DD S K),
        BuiltOkJ (dv.kdcfg .relaxed N lb) (gpot dv.D dv.sv.P n opt B) B cache (opt - 1)
          (buildLoop (dv.kdcfg .relaxed N lb) none (dv.sv.P.nbVars + 2) (initDD (dv.kdcfg .relaxed N lb) cache store 0)).1
          Live Drop dd ∧
        KFactsJ (buildLoop (dv.kdcfg .relaxed N lb) none (dv.sv.P.nbVars + 2) (initDD (dv.kdcfg .relaxed N lb) cache store 0)).1 Live

theorem builtOkJoint_of_K (h : BuiltOkJointK) : BuiltOkJoint := by
  intro S K _ _ dv H B0 B opt n hM N lb cache store p0 hpre
  obtain ⟨Live, Drop, dd, hbo, _⟩ := h S K dv H B0 B opt n hM N lb cache store p0 hpre
  exact ⟨Live, Drop, dd, hbo⟩

/-- **`JCUbX` from the top-down obligation** -/
theorem jcUbX_of (hB : BuiltOkJointK) : JCUbX := by
  intro S K _ _ dv H B0 B opt n hM N lb cache store p0 hpre c hc hot
  obtain ⟨Live, Drop, dd, hbo, hk⟩ := hB S K dv H B0 B opt n hM N lb cache store p0 hpre
  obtain ⟨e, hx, hre, hlb, hM0, hMs⟩ := compile_ctxJ' hM hpre hbo
  have hbk := hpre.bk
  have hBN : NoClamp dv.sv.P dv.sv.R N.value B := hM.wf.bound.noClamp_at hM.wf.nv hpre.root
  have hdeep := C08.cutset_progress (dv.kdcfg .relaxed N lb) B p0 cache store 0 none rfl hpre.root hBN hpre.ok _ (.inl rfl) c hc
  obtain ⟨h0, hH0, hge⟩ := hot
  rw [hre] at hbk hc
  have hy : ((gpot dv.D dv.sv.P n opt B) c.depth c.state).addI c.value = some (h0 + c.value) := by
    rw [hH0]; rfl
  rcases hx.cut_ub hk (gpot_RubOk hM.ghyp hM.mono hM.wf.rub) hlb ((N.depth : Int) * B) hM0 hMs e c hc
    (Int.le_sub_one_of_lt hbk) (h0 + c.value) hy (by omega) with a | a
  · left; omega
  · right
    exact hitO_of_cacheAlt (cfg := dv.kdcfg .relaxed N lb) (by have : N.depth < c.depth := hdeep; omega) (by omega) a

/-- **`JCUb` from the top-down obligation** -/
theorem jcUb_of (hB : BuiltOkJointK) : JCUb := jcUb_of_relaxed (jcUbX_of hB)

end Ddo.C10d

#print axioms Ddo.C10d.jcUbX_of
#print axioms Ddo.C10d.jcUb_of
