import DdoModel.Proofs.CompatProcessAbs
import DdoModel.Proofs.CompatProcessPot
/-! C10e — **from the contract of a single compilation to `CompatProcessME`** (the clauses *main* and *entries* of the joint invariant
over a compiled turn).

* `kdprocess_shape`: what `process_one_node` with cache and checker computes when the popped node passes both tests (the two
  compilations end normally, the cache updates are in range: `Proofs/CompatSound.lean`), with the views of the two caches;
* `processME_of_contract`: with a potential `Hp` whose level `opt` is `GAbove` (`hGA`; the pseudo-potential `gpot` of
  `Proofs/CompatProcessPot.lean`), the contracts `JCompC` of the compilations that matter (the restricted one when it is exact,
  otherwise the relaxed one) give the two clauses in the state the turn ends in — both fringes, any popped node. -/
set_option linter.unusedSectionVars false
set_option linter.unusedVariables false
namespace Ddo.C10d
open Ddo Ddo.C01 Ddo.Closed Ddo.C09 Ddo.C10 Ddo.C10c Ddo.Truth
variable {S K : Type} [DecidableEq S] [DecidableEq K]

/-- the shape of a compiled turn -/
theorem kdprocess_shape {dv : DSolverCfg S K} {H : Nat → S → EInt} {B0 B : Int} (hwf : WellFormed dv.sv H B0 B)
    (st : SeqSt S) (c0 : Cache S) (d0 : DomStore S K) (N : SubP S)
    (hN : C01.NodeOk dv.sv.P N) (hclen : c0.layers.length = dv.sv.P.nbVars + 1) (hslen : d0.layers.length = dv.sv.P.nbVars + 1)
    (hub : ¬ N.ub ≤ st.bestLb) (hmeT : c0.mustExplore N.state N.depth N.value = some true) :
    ∃ (c1 c2 : Cache S) (cR cX : Outcome × Result S × Option (Result S) × DD S K),
      cR = dv.kdcompR c0 d0 N st.bestLb ∧ cX = dv.kdcompX c1 cR.2.2.2.store N (st.updateBest (toOut cR.2.1)).bestLb ∧
      viewOf c1 = (viewOf c0).upds cR.2.1.cacheUpdates.reverse ∧ viewOf c2 = (viewOf c1).upds cX.2.1.cacheUpdates.reverse ∧
      cR.1 = .ok ∧ cX.1 = .ok ∧ c1.layers.length = dv.sv.P.nbVars + 1 ∧ cR.2.2.2.store.layers.length = dv.sv.P.nbVars + 1 ∧
      (∀ c ∈ cX.2.1.cutset, C01.NodeOk dv.sv.P c ∧ N.depth < c.depth ∧ c.depth ≤ dv.sv.P.nbVars) ∧
      dv.kdprocess st c0 d0 N = some ⟨(st.process dv.sv.dedup N true (.ok (toOut cR.2.1)) (.ok (toOut cX.2.1))).1,
        if cR.2.1.isExact then c1 else c2, if cR.2.1.isExact then cR.2.2.2.store else cX.2.2.2.store⟩ := by
  obtain ⟨p0, hroot, hperm⟩ := hN
  have hdN : N.depth ≤ dv.sv.P.nbVars := reach_depth_le hwf.nv hroot
  have hBN : NoClamp dv.sv.P dv.sv.R N.value B := hwf.bound.noClamp_at hwf.nv hroot
  -- the restricted compilation
  obtain ⟨hokR', hsR'⟩ := compile_no_crash_joint (dv.kdcfg .restricted N st.bestLb) B p0 c0 d0 0 (hwf.width N) hwf.nv hBN
    hroot hslen
  have hokR : (dv.kdcompR c0 d0 N st.bestLb).1 = .ok := hokR'
  have hsR : (dv.kdcompR c0 d0 N st.bestLb).2.2.2.store.layers.length = dv.sv.P.nbVars + 1 := hsR'
  have hdepR : ∀ u ∈ (dv.kdcompR c0 d0 N st.bestLb).2.1.cacheUpdates, u.2.1 ≤ dv.sv.P.nbVars :=
    ups_depth_joint (dv.kdcfg .restricted N st.bestLb) B p0 c0 d0 0 hBN hwf.nv hroot hokR'
  obtain ⟨c1, hc1, hl1, hv1⟩ := applyUps_spec (dv.kdcompR c0 d0 N st.bestLb).2.1.cacheUpdates.reverse c0 (by
    intro u hu
    have := hdepR u (List.mem_reverse.mp hu)
    rw [hclen]; exact Nat.lt_succ_of_le this)
  have sR : ∀ w, (toOut (dv.kdcompR c0 d0 N st.bestLb).2.1).bestExact = some w →
      IsSol (dv.kdcfg .restricted N st.bestLb) p0 w (toOut (dv.kdcompR c0 d0 N st.bestLb).2.1).bestExactSol :=
    fun w hw => isSol_restricted (dv.kdcfg .restricted N st.bestLb) B p0 c0 d0 0 none rfl hBN hroot hokR' w hw
  generalize hr : dv.kdcompR c0 d0 N st.bestLb = cR at *
  have eR : ∀ w, (toOut cR.2.1).bestExact = some w → ∃ p, (toOut cR.2.1).bestExactSol = some p :=
    fun w hw => C10c.isSol_some (sR w hw)
  -- the relaxed compilation (consulting `c1` and the store left by the restricted compilation)
  obtain ⟨hokX', hsX'⟩ := compile_no_crash_joint (dv.kdcfg .relaxed N (st.updateBest (toOut cR.2.1)).bestLb) B p0 c1
    cR.2.2.2.store 0 (hwf.width N) hwf.nv hBN hroot hsR
  have hokX : (dv.kdcompX c1 cR.2.2.2.store N (st.updateBest (toOut cR.2.1)).bestLb).1 = .ok := hokX'
  have hsX : (dv.kdcompX c1 cR.2.2.2.store N (st.updateBest (toOut cR.2.1)).bestLb).2.2.2.store.layers.length =
      dv.sv.P.nbVars + 1 := hsX'
  have hdepX : ∀ u ∈ (dv.kdcompX c1 cR.2.2.2.store N (st.updateBest (toOut cR.2.1)).bestLb).2.1.cacheUpdates,
      u.2.1 ≤ dv.sv.P.nbVars :=
    ups_depth_joint (dv.kdcfg .relaxed N (st.updateBest (toOut cR.2.1)).bestLb) B p0 c1 cR.2.2.2.store 0 hBN hwf.nv hroot hokX'
  obtain ⟨c2, hc2, hl2, hv2⟩ := applyUps_spec
    (dv.kdcompX c1 cR.2.2.2.store N (st.updateBest (toOut cR.2.1)).bestLb).2.1.cacheUpdates.reverse c1 (by
    intro u hu
    have := hdepX u (List.mem_reverse.mp hu)
    rw [hl1, hclen]; exact Nat.lt_succ_of_le this)
  have sX : ∀ w, (toOut (dv.kdcompX c1 cR.2.2.2.store N (st.updateBest (toOut cR.2.1)).bestLb).2.1).bestExact = some w →
      IsSol (dv.kdcfg .relaxed N (st.updateBest (toOut cR.2.1)).bestLb) p0 w
        (toOut (dv.kdcompX c1 cR.2.2.2.store N (st.updateBest (toOut cR.2.1)).bestLb).2.1).bestExactSol :=
    fun w hw => isSol_relaxed_joint (dv.kdcfg .relaxed N (st.updateBest (toOut cR.2.1)).bestLb) B p0 c1 cR.2.2.2.store 0 rfl
      (hwf.width N) hBN hroot hokX' w hw
  have hcsX : ∀ c ∈ (dv.kdcompX c1 cR.2.2.2.store N (st.updateBest (toOut cR.2.1)).bestLb).2.1.cutset,
      C01.NodeOk dv.sv.P c ∧ N.depth < c.depth ∧ c.depth ≤ dv.sv.P.nbVars := by
    intro c hc
    obtain ⟨q, hq, hpath⟩ := C08.cutset_exact (dv.kdcfg .relaxed N (st.updateBest (toOut cR.2.1)).bestLb)
      B p0 c1 cR.2.2.2.store 0 none hroot hBN hokX' _ (.inl rfl) c hc
    have hdeep := C08.cutset_progress (dv.kdcfg .relaxed N (st.updateBest (toOut cR.2.1)).bestLb)
      B p0 c1 cR.2.2.2.store 0 none rfl hroot hBN hokX' _ (.inl rfl) c hc
    refine ⟨⟨p0 ++ q, hq, ?_⟩, hdeep, reach_depth_le hwf.nv hq⟩
    rw [hpath]
    exact List.Perm.append hperm (List.reverse_perm q)
  generalize hx : dv.kdcompX c1 cR.2.2.2.store N (st.updateBest (toOut cR.2.1)).bestLb = cX at *
  have eX : ∀ w, (toOut cX.2.1).bestExact = some w → ∃ p, (toOut cX.2.1).bestExactSol = some p :=
    fun w hw => C10c.isSol_some (sX w hw)
  -- the state the turn ends in
  have hkp : dv.kdprocess st c0 d0 N = some ⟨(st.process dv.sv.dedup N true (.ok (toOut cR.2.1)) (.ok (toOut cX.2.1))).1,
      if cR.2.1.isExact then c1 else c2, if cR.2.1.isExact then cR.2.2.2.store else cX.2.2.2.store⟩ := by
    unfold DSolverCfg.kdprocess
    rw [if_neg hub, hmeT]
    simp only [hr, hokR, ne_eq, not_true_eq_false, if_false, hc1]
    rw [process_main dv.sv.dedup st N (toOut cR.2.1) (toOut cX.2.1) hub]
    have e1 : (toOut cR.2.1).isExact = cR.2.1.isExact := rfl
    have e2 : (toOut cX.2.1).isExact = cX.2.1.isExact := rfl
    have e3 : (toOut cX.2.1).cutset = cX.2.1.cutset := rfl
    rw [e1, e2, e3]
    cases hre : cR.2.1.isExact with
    | true => simp only [if_true]
    | false =>
      simp only [Bool.false_eq_true, if_false, hx, hokX, not_true_eq_false, hc2]
      cases hxe : cX.2.1.isExact <;> simp only [Bool.false_eq_true, if_false, if_true]
  exact ⟨c1, c2, cR, cX, rfl, hx.symm, hv1, hv2, hokR, hokX, hl1.trans hclen, hsR, hcsX, hkp⟩

theorem updateBest_bkOf (st : SeqSt S) (o : DDOut S) : (st.updateBest o).bestLb = Theta.bkOf st.bestLb o.bestExact := by
  unfold SeqSt.updateBest Theta.bkOf
  cases o.bestExact with
  | none => rfl
  | some w =>
    dsimp only
    split
    · dsimp only; omega
    · omega

theorem rgB_of_abs {B v : Int} (d : Nat) (hB : 0 ≤ B) (h1 : -B ≤ v) (h2 : v ≤ B) : RgB B d v := by
  have h0 : (0 : Int) ≤ (d : Int) * B := Int.mul_nonneg (by omega) hB
  have e : ((d : Int) + 1) * B = (d : Int) * B + B := by rw [Int.add_mul, Int.one_mul]
  unfold RgB Cover.Within Cover.Bd
  rw [e]
  omega

theorem rgB_of_nodeOk {dv : DSolverCfg S K} {H : Nat → S → EInt} {B0 B : Int} (hwf : WellFormed dv.sv H B0 B) {c : SubP S}
    (hc : C01.NodeOk dv.sv.P c) : RgB B c.depth c.value := by
  obtain ⟨p, hr, _⟩ := hc
  obtain ⟨h1, h2⟩ := hwf.bound.value_le hwf.nv hr
  exact rgB_of_abs c.depth hwf.bound.clamp.nonneg h1 h2

/-- **from the contracts of the compilations of a turn to the clauses *main* and *entries* in the state the turn ends in** (the
    incumbent still being below the optimum: otherwise both clauses hold trivially) -/
theorem processME_of_contract {dv : DSolverCfg S K} {H : Nat → S → EInt} {B0 B opt : Int} {n : Nat}
    (hwf : WellFormed dv.sv H B0 B) (hopt : (H 0 dv.sv.P.init).addI dv.sv.P.initVal = some opt) (hdim : ∀ s, dv.D.dims s = n)
    (hstat : StaticOrder dv.sv.P) (hsim : SimAll dv.D dv.sv.P n)
    (Hp : Nat → S → EInt) (hGA : ∀ d x v, GAbove dv.D dv.sv.P n opt d x v ↔ Hot Hp opt d x v)
    (s t : KDSt S K) (N : SubP S) (rest : List (SubP S)) (c0 : Cache S)
    (hJ : JSInv dv H s) (hI : CompatInv dv n opt s) (hpop : s.st.fringe.Perm (N :: rest))
    (hc0 : cleanCache dv.sv.P.nbVars s.st.openByLayer dv.sv.P.nbVars s.st.firstActive s.cache = some c0)
    (hub : ¬ N.ub ≤ s.st.bestLb) (hme : c0.mustExplore N.state N.depth N.value = some true)
    (hturn : dv.kdturn s N rest = some t) (hlt : t.st.bestLb < opt)
    (hCR : ∀ (lb : Int) cR, lb = s.st.bestLb → cR = dv.kdcompR c0 s.store N lb → cR.2.1.isExact = true →
      Theta.bkOf lb cR.2.1.bestExactValue < opt →
      JCompC Hp opt (RgB B) N (viewOf c0) (toOut cR.2.1) cR.2.1.cacheUpdates.reverse)
    (hCX : ∀ (lb lb1 : Int) (c1 : Cache S) cR cX, lb = s.st.bestLb → cR = dv.kdcompR c0 s.store N lb → cR.2.1.isExact = false →
      viewOf c1 = viewOf c0 → c1.layers.length = dv.sv.P.nbVars + 1 → lb ≤ lb1 → lb1 < opt →
      cX = dv.kdcompX c1 cR.2.2.2.store N lb1 → Theta.bkOf lb1 cX.2.1.bestExactValue < opt →
      JCompC Hp opt (RgB B) N (viewOf c0) (toOut cX.2.1) cX.2.1.cacheUpdates.reverse) :
    (∃ q, Solid dv opt t q) ∧
    ∀ (x : S) (d : Nat) (th : Thr), viewOf t.cache x d = some th → ∀ v', v' ≤ th.value →
      GAbove dv.D dv.sv.P n opt d x v' → ∃ q, Solid dv opt t q ∧ d ≤ q.depth := by
  obtain ⟨t', ht', hJt, _⟩ := kdturn_inv hwf s N rest hpop hJ
  rw [hturn] at ht'
  cases ht'
  obtain ⟨c0', hc0', hl0, hv0⟩ :=
    cleanCache_spec dv.sv.P.nbVars s.st.openByLayer dv.sv.P.nbVars s.st.firstActive s.cache hJ.clen
  rw [hc0] at hc0'
  cases hc0'
  have hNok : C01.NodeOk dv.sv.P N := hJ.nodes N (hpop.mem_iff.mpr List.mem_cons_self)
  generalize hfa : cleanLoop dv.sv.P.nbVars s.st.openByLayer dv.sv.P.nbVars s.st.firstActive = fa at *
  obtain ⟨f1, f2, _⟩ := popped_fields s.st N rest fa
  unfold DSolverCfg.kdturn at hturn
  rw [hc0, hfa] at hturn
  dsimp only at hturn
  obtain ⟨c1, c2, cR, cX, eR, eX, hv1, hv2, hokR, hokX, hl1, hsR, hcsX, hkp⟩ :=
    kdprocess_shape hwf (popped s.st N rest fa) c0 s.store N hNok hl0 hJ.slen (by rw [f2]; exact hub) hme
  rw [hkp] at hturn
  have et := (Option.some.inj hturn).symm
  have hproc := process_main dv.sv.dedup (popped s.st N rest fa) N (toOut cR.2.1) (toOut cX.2.1) (by rw [f2]; exact hub)
  -- the invariant before the turn, in abstract form
  have hinv : MEInv Hp opt (RgB B) (N :: rest) (viewOf c0) := by
    have hsol : ∀ q, Solid dv opt s q → ∀ d, d ≤ q.depth → LiveO Hp opt (N :: rest) (viewOf c0) d := by
      intro q hq d hd
      obtain ⟨hmem, hgood, hqub, hnp⟩ := hq
      exact ⟨q, hpop.mem_iff.mp hmem, hd, (hGA _ _ _).mp (GAbove.of_good hgood), hqub,
        fun hp => hnp (prunM_of_forget hv0 hp)⟩
    have hlb : ¬ opt ≤ s.st.bestLb := by
      have h1 := updateBest_lb_ge (popped s.st N rest fa) (toOut cR.2.1)
      have h2 := updateBest_lb_ge ((popped s.st N rest fa).updateBest (toOut cR.2.1)) (toOut cX.2.1)
      have h3 : t.st.bestLb = (if (toOut cR.2.1).isExact then (popped s.st N rest fa).updateBest (toOut cR.2.1)
          else if (toOut cX.2.1).isExact then ((popped s.st N rest fa).updateBest (toOut cR.2.1)).updateBest (toOut cX.2.1)
          else (((popped s.st N rest fa).updateBest (toOut cR.2.1)).updateBest (toOut cX.2.1)).enqueue dv.sv.dedup
            (toOut cX.2.1).cutset).bestLb := by rw [et, ← hproc]
      have h4 := enqueue_bestLb dv.sv.dedup (((popped s.st N rest fa).updateBest (toOut cR.2.1)).updateBest (toOut cX.2.1))
        (toOut cX.2.1).cutset
      intro hle
      split at h3
      · omega
      · split at h3 <;> omega
    refine ⟨?_, ?_, ?_⟩
    · intro c hc
      exact rgB_of_nodeOk hwf (hJ.nodes c (hpop.mem_iff.mpr hc))
    · rcases hI.main with h | ⟨q, hq⟩
      · exact absurd h hlb
      · exact hsol q hq 0 (Nat.zero_le _)
    · intro x d th v hT hrg hvt hot
      have hT' : viewOf s.cache x d = some th := by
        rcases hv0 x d with e | e
        · rw [← e]; exact hT
        · rw [e] at hT; cases hT
      rcases hI.entries x d th hT' v hvt ((hGA _ _ _).mpr hot) with h | ⟨q, hq, hd⟩
      · exact absurd h hlb
      · exact hsol q hq d hd
  -- reading the conclusion
  have hread : ∀ (Ft : List (SubP S)) (Tt : CView S), t.st.fringe = Ft → viewOf t.cache = Tt →
      (LiveO Hp opt Ft Tt 0 ∧ ∀ (x : S) (d : Nat) (th : Thr) (v : Int), Tt x d = some th → RgB B d v → v ≤ th.value →
        Hot Hp opt d x v → LiveO Hp opt Ft Tt d) →
      (∃ q, Solid dv opt t q) ∧
      ∀ (x : S) (d : Nat) (th : Thr), viewOf t.cache x d = some th → ∀ v', v' ≤ th.value →
        GAbove dv.D dv.sv.P n opt d x v' → ∃ q, Solid dv opt t q ∧ d ≤ q.depth := by
    intro Ft Tt eF eT hst
    have hsolid : ∀ d, LiveO Hp opt Ft Tt d → ∃ q, Solid dv opt t q ∧ d ≤ q.depth := by
      intro d hl
      obtain ⟨q, hq, hdq, hot, hqub, hnp⟩ := hl
      have hqm : q ∈ t.st.fringe := by rw [eF]; exact hq
      obtain ⟨p, hr, _⟩ := hJt.nodes q hqm
      have hg := GAbove.good hdim hwf.pot hstat hsim hopt hr ((hGA _ _ _).mpr hot)
      exact ⟨q, ⟨hqm, hg, hqub, by rw [eT]; exact hnp⟩, hdq⟩
    refine ⟨?_, ?_⟩
    · obtain ⟨q, hq, _⟩ := hsolid 0 hst.1
      exact ⟨q, hq⟩
    · intro x d th hT v' hv' hga
      obtain ⟨g, vg, hgood, hge⟩ := hga
      obtain ⟨pg, hrg⟩ := hgood.reach
      obtain ⟨b1, b2⟩ := hwf.bound.value_le hwf.nv hrg
      have hvg : vg ≤ v' := hsim.value x v' g vg hge
      have hga' : GAbove dv.D dv.sv.P n opt d x vg := ⟨g, vg, hgood, geItem_lower hge (Int.le_refl _) hvg⟩
      exact hsolid d (hst.2 x d th vg (by rw [← eT]; exact hT) (rgB_of_abs d hwf.bound.clamp.nonneg b1 b2) (by omega)
        ((hGA _ _ _).mp hga'))
  have hrestF : (popped s.st N rest fa).fringe = rest := f1
  cases hre : cR.2.1.isExact with
  | true =>
    have hre' : (toOut cR.2.1).isExact = true := hre
    rw [hre', if_pos rfl] at hproc
    have hbk : Theta.bkOf (popped s.st N rest fa).bestLb cR.2.1.bestExactValue < opt := by
      have h1 := updateBest_bkOf (popped s.st N rest fa) (toOut cR.2.1)
      have h2 : t.st.bestLb = ((popped s.st N rest fa).updateBest (toOut cR.2.1)).bestLb := by
        rw [et]; show (SeqSt.process _ _ _ _ _ _).1.bestLb = _; rw [hproc]
      have h3 : (toOut cR.2.1).bestExact = cR.2.1.bestExactValue := rfl
      rw [h3] at h1
      omega
    have hC := hCR (popped s.st N rest fa).bestLb cR f2 eR hre hbk
    have hF : t.st.fringe = rest := by rw [et]; show (SeqSt.process _ _ _ _ _ _).1.fringe = rest; rw [hproc, (updateBest_fringe _ _).1, hrestF]
    have hT : viewOf t.cache = (viewOf c0).upds cR.2.1.cacheUpdates.reverse := by rw [et]; simp only [hre, if_true]; exact hv1
    exact hread rest _ hF hT
      (step_me Hp opt (RgB B) N rest rest (viewOf c0) (toOut cR.2.1) _ hinv hC (fun c hc => ⟨c, hc, Dom.refl c⟩)
        (fun hf => by rw [hre'] at hf; cases hf))
  | false =>
    have hre' : (toOut cR.2.1).isExact = false := hre
    rw [hre'] at hproc
    simp only [Bool.false_eq_true, if_false] at hproc
    have hups : cR.2.1.cacheUpdates = [] := by
      rw [eR]
      exact Ddo.C09.restricted_inexact_no_ups (dv.kdcfg .restricted N (popped s.st N rest fa).bestLb) c0 s.store 0 none rfl
        (by have h := hre; rw [eR] at h; exact h)
    have hv1' : viewOf c1 = viewOf c0 := by rw [hv1, hups]; rfl
    have hlb1 : ((popped s.st N rest fa).updateBest (toOut cR.2.1)).bestLb < opt := by
      have h2 := updateBest_lb_ge ((popped s.st N rest fa).updateBest (toOut cR.2.1)) (toOut cX.2.1)
      have h4 := enqueue_bestLb dv.sv.dedup (((popped s.st N rest fa).updateBest (toOut cR.2.1)).updateBest (toOut cX.2.1))
        (toOut cX.2.1).cutset
      have h3 : t.st.bestLb = (if (toOut cX.2.1).isExact then ((popped s.st N rest fa).updateBest (toOut cR.2.1)).updateBest (toOut cX.2.1)
          else (((popped s.st N rest fa).updateBest (toOut cR.2.1)).updateBest (toOut cX.2.1)).enqueue dv.sv.dedup
            (toOut cX.2.1).cutset).bestLb := by rw [et, ← hproc]
      split at h3 <;> omega
    have hbkX : Theta.bkOf ((popped s.st N rest fa).updateBest (toOut cR.2.1)).bestLb cX.2.1.bestExactValue < opt := by
      have h1 := updateBest_bkOf ((popped s.st N rest fa).updateBest (toOut cR.2.1)) (toOut cX.2.1)
      have h4 := enqueue_bestLb dv.sv.dedup (((popped s.st N rest fa).updateBest (toOut cR.2.1)).updateBest (toOut cX.2.1))
        (toOut cX.2.1).cutset
      have h3 : t.st.bestLb = (if (toOut cX.2.1).isExact then ((popped s.st N rest fa).updateBest (toOut cR.2.1)).updateBest (toOut cX.2.1)
          else (((popped s.st N rest fa).updateBest (toOut cR.2.1)).updateBest (toOut cX.2.1)).enqueue dv.sv.dedup
            (toOut cX.2.1).cutset).bestLb := by rw [et, ← hproc]
      have h5 : (toOut cX.2.1).bestExact = cX.2.1.bestExactValue := rfl
      rw [h5] at h1
      split at h3 <;> omega
    have hC := hCX (popped s.st N rest fa).bestLb _ c1 cR cX f2 eR hre hv1' hl1
      (updateBest_lb_ge (popped s.st N rest fa) (toOut cR.2.1)) hlb1 eX hbkX
    have hT : viewOf t.cache = (viewOf c0).upds cX.2.1.cacheUpdates.reverse := by
      rw [et]; simp only [hre, Bool.false_eq_true, if_false]; rw [hv2, hv1']
    have hfr2 : (((popped s.st N rest fa).updateBest (toOut cR.2.1)).updateBest (toOut cX.2.1)).fringe = rest := by
      rw [(updateBest_fringe _ _).1, (updateBest_fringe _ _).1, hrestF]
    cases hxe : (toOut cX.2.1).isExact with
    | true =>
      rw [hxe, if_pos rfl] at hproc
      have hF : t.st.fringe = rest := by rw [et]; show (SeqSt.process _ _ _ _ _ _).1.fringe = rest; rw [hproc, hfr2]
      exact hread rest _ hF hT
        (step_me Hp opt (RgB B) N rest rest (viewOf c0) (toOut cX.2.1) _ hinv hC (fun c hc => ⟨c, hc, Dom.refl c⟩)
          (fun hf => by rw [hxe] at hf; cases hf))
    | false =>
      rw [hxe] at hproc
      simp only [Bool.false_eq_true, if_false] at hproc
      have hF : t.st.fringe = ((((popped s.st N rest fa).updateBest (toOut cR.2.1)).updateBest (toOut cX.2.1)).enqueue dv.sv.dedup
          (toOut cX.2.1).cutset).fringe := by rw [et]; show (SeqSt.process _ _ _ _ _ _).1.fringe = _; rw [hproc]
      have hlbt : t.st.bestLb = (((popped s.st N rest fa).updateBest (toOut cR.2.1)).updateBest (toOut cX.2.1)).bestLb := by
        rw [et]; show (SeqSt.process _ _ _ _ _ _).1.bestLb = _; rw [hproc]; exact enqueue_bestLb _ _ _
      -- the new fringe dominates the rest of the fringe and the cut-set nodes worth enqueuing
      have hdomF : ∀ c, (c ∈ rest ∨ ∃ c0' ∈ (toOut cX.2.1).cutset, c = c0' ∧
            c0'.ub > (((popped s.st N rest fa).updateBest (toOut cR.2.1)).updateBest (toOut cX.2.1)).bestLb) →
          ∃ s' ∈ ((((popped s.st N rest fa).updateBest (toOut cR.2.1)).updateBest (toOut cX.2.1)).enqueue dv.sv.dedup
            (toOut cX.2.1).cutset).fringe, Dom s' c := by
        intro c hc
        cases hdd : dv.sv.dedup with
        | false =>
          obtain ⟨_, _, _, _, e5⟩ := enqueue_false_spec (((popped s.st N rest fa).updateBest (toOut cR.2.1)).updateBest (toOut cX.2.1))
            (toOut cX.2.1).cutset
          exact ⟨c, (e5 c).mpr (by rw [hfr2]; exact hc), Dom.refl c⟩
        | true =>
          obtain ⟨_, _, _, _, _, hco⟩ := enqueue_true_spec (((popped s.st N rest fa).updateBest (toOut cR.2.1)).updateBest (toOut cX.2.1))
            (toOut cX.2.1).cutset
          exact hco.2 c (by rw [hfr2]; exact hc)
      exact hread _ _ hF hT
        (step_me Hp opt (RgB B) N rest _ (viewOf c0) (toOut cX.2.1) _ hinv hC (fun c hc => hdomF c (Or.inl hc))
          (fun _ c0' hc0' hub' => hdomF c0' (Or.inr ⟨c0', hc0', rfl, by rw [← hlbt]; omega⟩)))

end Ddo.C10d

#print axioms Ddo.C10d.kdprocess_shape
#print axioms Ddo.C10d.processME_of_contract
