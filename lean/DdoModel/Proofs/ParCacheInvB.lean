import DdoModel.Proofs.ParCacheInvA
/-! # The parallel caching solver — frame lemmas for `ws.set i a` and the generic step lemma `kpinv_step` -/
set_option linter.unusedSectionVars false
set_option linter.unusedVariables false
namespace Ddo.ParCache
open Ddo Ddo.C09 Ddo.ParSys Ddo.Theta
variable {S : Type} [DecidableEq S]

section
variable (H : Nat → S → EInt) (opt : Int) (Sol : List Dec → Int → Prop) (Rg : Nat → Int → Prop)

/-! ## `Live` / `Beats` and `ws.set i a` -/

theorem liveC_cases {F : List (SubP S)} {T : CView S} {ws : List (KW S)} {x : Int} {d : Nat} {i : Nat} {Q : Prop}
    (h : LiveC H F T ws x d)
    (hF : ∀ c ∈ F, Carries H c x d → ¬ prunM T c → Q)
    (hself : ∀ w0, ws[i]? = some w0 → WLive H T w0 x d → Q)
    (hoth : ∀ (j : Nat) (w : KW S), j ≠ i → ws[j]? = some w → WLive H T w x d → Q) : Q := by
  rcases h with ⟨c, hc, hcc, hp⟩ | ⟨j, w, hw, hl⟩
  · exact hF c hc hcc hp
  · by_cases e : j = i
    · subst e; exact hself w hw hl
    · exact hoth j w e hw hl

theorem liveC_of_F {F : List (SubP S)} {T : CView S} {ws : List (KW S)} {x : Int} {d : Nat} {c : SubP S}
    (hc : c ∈ F) (hcc : Carries H c x d) (hp : ¬ prunM T c) : LiveC H F T ws x d := .inl ⟨c, hc, hcc, hp⟩

theorem liveC_of_self {F : List (SubP S)} {T : CView S} {ws : List (KW S)} {x : Int} {d : Nat} {i : Nat} {w0 a : KW S}
    (hw : ws[i]? = some w0) (h : WLive H T a x d) : LiveC H F T (ws.set i a) x d :=
  .inr ⟨i, a, get_set_self hw, h⟩

theorem liveC_of_other {F : List (SubP S)} {T : CView S} {ws : List (KW S)} {x : Int} {d : Nat} {i j : Nat} {w a : KW S}
    (hj : j ≠ i) (hw : ws[j]? = some w) (h : WLive H T w x d) : LiveC H F T (ws.set i a) x d :=
  .inr ⟨j, w, by rw [List.getElem?_set_ne (fun e => hj e.symm)]; exact hw, h⟩

theorem beatsC_of_set {lb lb' : Int} {ws : List (KW S)} {i : Nat} {w0 a : KW S} {x : Int} (hw : ws[i]? = some w0)
    (h : BeatsC lb' (ws.set i a) x) (hlb : lb ≤ lb') (hself : ∀ v, w0.pendVal = some v → v < x) : BeatsC lb ws x := by
  refine ⟨by have := h.1; omega, fun j w v hj hv => ?_⟩
  by_cases e : j = i
  · subst e; rw [hw] at hj; cases hj; exact hself v hv
  · exact h.2 j w v (by rw [List.getElem?_set_ne (fun e' => e e'.symm)]; exact hj) hv

theorem beatsC_to_set {lb lb' : Int} {ws : List (KW S)} {i : Nat} {w0 a : KW S} {x : Int} (hw : ws[i]? = some w0)
    (h : BeatsC lb ws x) (hlb : lb' < x) (hself : ∀ v, a.pendVal = some v → v < x) : BeatsC lb' (ws.set i a) x := by
  refine ⟨hlb, fun j w v hj hv => ?_⟩
  rcases get_set_split hj with ⟨_, rfl⟩ | ⟨_, hj'⟩
  · exact hself v hv
  · exact h.2 j w v hj' hv

/-- a worker whose open node and pending cut-set do not change -/
def SameL (w a : KW S) : Prop := a.openNode = w.openNode ∧ a.pendCut = w.pendCut

/-- a worker whose carried data do not change -/
def SameW (w a : KW S) : Prop := a.openNode = w.openNode ∧ a.pendVal = w.pendVal ∧ a.pendCut = w.pendCut

theorem SameW.toL {w a : KW S} (h : SameW w a) : SameL w a := ⟨h.1, h.2.2⟩

theorem wlive_same {T : CView S} {w a : KW S} {x : Int} {d : Nat} (hs : SameL w a) : WLive H T a x d ↔ WLive H T w x d := by
  unfold WLive; rw [hs.1, hs.2]

theorem liveC_set_same {F : List (SubP S)} {T : CView S} {ws : List (KW S)} {x : Int} {d : Nat} {i : Nat} {w0 a : KW S}
    (hw : ws[i]? = some w0) (hs : SameL w0 a) : LiveC H F T (ws.set i a) x d ↔ LiveC H F T ws x d := by
  constructor
  · intro h
    rcases h with h | ⟨j, w, hj, hl⟩
    · exact .inl h
    · rcases get_set_split hj with ⟨_, rfl⟩ | ⟨_, hj'⟩
      · exact .inr ⟨i, w0, hw, (wlive_same H hs).mp hl⟩
      · exact .inr ⟨j, w, hj', hl⟩
  · intro h
    refine liveC_cases H (i := i) h (fun c hc hcc hp => liveC_of_F H hc hcc hp) (fun w1 hw1 hl => ?_)
      (fun j w hj hwj hl => liveC_of_other H hj hwj hl)
    rw [hw] at hw1; cases hw1
    exact liveC_of_self H hw ((wlive_same H hs).mpr hl)

theorem beatsC_set_same {lb : Int} {ws : List (KW S)} {i : Nat} {w0 a : KW S} {x : Int} (hw : ws[i]? = some w0)
    (hs : SameW w0 a) : BeatsC lb (ws.set i a) x ↔ BeatsC lb ws x :=
  ⟨fun h => beatsC_of_set hw h (Int.le_refl _) (fun v hv => h.2 i a v (get_set_self hw) (by rw [hs.2.1]; exact hv)),
   fun h => beatsC_to_set hw h h.1 (fun v hv => h.2 i w0 v hw (by rw [← hs.2.1]; exact hv))⟩

/-! ## the generic step lemma -/

/-- **`kpinv_step`**: the invariant after a step, from the transfer property and what is new -/
theorem kpinv_step {s t : KSys S} (hI : KPInv H opt Sol Rg s)
    (hB : ∀ x, Beats t x → Beats s x)
    (hT : ∀ x d, Beats t x → Live H s x d → Live H t x d)
    (hgood : ∀ c, (Prunable t c ∨ Held t c) → Good (optOf H) opt c)
    (hrng : ∀ c, Prunable t c → Rg c.depth c.value)
    (hlbOk : t.crit.base.bestLb ≤ opt)
    (hsolOk : ∀ p, t.crit.base.bestSol = some p → Sol p t.crit.base.bestLb)
    (hcur : t.cache ∈ t.log)
    (hjst : ∀ c ∈ t.log, c ∈ s.log ∨ ∀ st d tt, viewOf c st d = some tt → Jst H Rg t st d tt.value)
    (hub : ∀ c, (Prunable t c ∨ Fresh t c) → (Prunable s c ∨ Fresh s c) ∨ UbOk H t c)
    (hpop : ∀ (j : Nat) (n : SubP S), t.ws[j]? = some (.gwW n) → ∀ c ∈ t.crit.base.fringe, c.ub ≤ n.ub)
    (hwok : ∀ (j : Nat) (w : KW S), t.ws[j]? = some w → WOk H opt Sol Rg t.crit.base.bestLb t.log w)
    (hdone : (∃ j : Nat, t.ws[j]? = some .done) → t.crit.base.bestLb = opt) : KPInv H opt Sol Rg t := by
  refine ⟨hgood, hrng, hlbOk, hsolOk, hcur, fun hb => hT _ _ hb (hI.root (hB _ hb)), ?_, ?_, hpop, hwok, hdone⟩
  · intro c hc st d tt htt
    rcases hjst c hc with h | h
    · exact (hI.jst c h st d tt htt).transfer H Rg hB hT
    · exact h st d tt htt
  · intro c hc
    rcases hub c hc with h | h
    · exact (hI.ub c h).transfer H hB hT
    · exact h

/-! ## membership after `set` -/

theorem prunable_set {s : KSys S} {crit' : ParCrit S} {cache' : Cache S} {log' : List (Cache S)} {i : Nat} {a : KW S} {c : SubP S}
    (h : Prunable ({ crit := crit', cache := cache', log := log', ws := s.ws.set i a } : KSys S) c) :
    c ∈ crit'.base.fringe ∨ c ∈ a.pendCut ∨ ∃ (j : Nat) (w : KW S), j ≠ i ∧ s.ws[j]? = some w ∧ c ∈ w.pendCut := by
  rcases h with h | ⟨j, w, hj, hc⟩
  · exact .inl h
  · rcases get_set_split hj with ⟨_, rfl⟩ | ⟨hne, hj'⟩
    · exact .inr (.inl hc)
    · exact .inr (.inr ⟨j, w, hne, hj', hc⟩)

theorem held_set {s : KSys S} {crit' : ParCrit S} {cache' : Cache S} {log' : List (Cache S)} {i : Nat} {a : KW S} {c : SubP S}
    (h : Held ({ crit := crit', cache := cache', log := log', ws := s.ws.set i a } : KSys S) c) :
    a.openNode = some c ∨ ∃ (j : Nat) (w : KW S), j ≠ i ∧ s.ws[j]? = some w ∧ w.openNode = some c := by
  obtain ⟨j, w, hj, hc⟩ := h
  rcases get_set_split hj with ⟨_, rfl⟩ | ⟨hne, hj'⟩
  · exact .inl hc
  · exact .inr ⟨j, w, hne, hj', hc⟩

theorem fresh_set {s : KSys S} {crit' : ParCrit S} {cache' : Cache S} {log' : List (Cache S)} {i : Nat} {a : KW S} {c : SubP S}
    (h : Fresh ({ crit := crit', cache := cache', log := log', ws := s.ws.set i a } : KSys S) c) :
    (a = .gwW c ∨ a = .readR c) ∨ ∃ j : Nat, j ≠ i ∧ (s.ws[j]? = some (.gwW c) ∨ s.ws[j]? = some (.readR c)) := by
  obtain ⟨j, hj⟩ := h
  rcases hj with hj | hj
  · rcases get_set_split hj with ⟨_, e⟩ | ⟨hne, hj'⟩
    · exact .inl (.inl e.symm)
    · exact .inr ⟨j, hne, .inl hj'⟩
  · rcases get_set_split hj with ⟨_, e⟩ | ⟨hne, hj'⟩
    · exact .inl (.inr e.symm)
    · exact .inr ⟨j, hne, .inr hj'⟩

theorem prunable_of_other {s : KSys S} {j : Nat} {w : KW S} {c : SubP S} (hj : s.ws[j]? = some w) (hc : c ∈ w.pendCut) :
    Prunable s c := .inr ⟨j, w, hj, hc⟩

end
end Ddo.ParCache
