import DdoModel.Proofs.CompatGrid
import DdoModel.Props.C10c
/-! C10d — the table family `Grid` of `Proofs/CompatGrid.lean`: **generic theorems** from the executable checks.

* `staticOrder`, `dims2`;
* `simAll_of_check`      : `checkSim T` (and `1 ≤ m`) gives `SimAll (rule T) (prob T) 2`;
* `mergeCompat_of_check` : `checkJoin T` (and `1 ≤ m`) gives `MergeCompat (rule T) (rlx T) 2`;
* `wellFormed_of_check`  : `checkWF T hl rl B0` gives `WellFormed (sv T ws dedup kind) (Hof T hl) B0 B` for an **explicit potential
  table** `hl` (entry `k · m + state`, `none` allowed on states that are not reached exactly) and an over-approximation `rl` of the
  exactly reachable `(depth, state)` pairs.

`Shadow`: the 16-state, 6-variable instance; the three checks hold by `decide`. -/
set_option linter.unusedSectionVars false
set_option linter.unusedVariables false
namespace Ddo.C10d.Grid
open Ddo Ddo.C01 Ddo.Closed Ddo.C09 Ddo.C10 Ddo.C10c

/-! ## the potential table and its check -/

/-- the potential of depth `k` and (clamped) state `s`: entry `k * m + s` for `k < n`, `some 0` from depth `n` on -/
def hN (T : Tab) (hl : List (Option Int)) (k s : Nat) : EInt :=
  if k < T.n then hl.getD (k * T.m + s) none else some 0

/-- the potential read in a table: entry `k * m + state` for `k < n`, `some 0` from depth `n` on -/
def Hof (T : Tab) (hl : List (Option Int)) (k : Nat) (s : Int) : EInt :=
  if k < T.n then hl.getD (k * T.m + st T s) none else some 0

/-- the reachability table: entry `k * m + s`, `k ≤ n` -/
def rN (T : Tab) (rl : List Bool) (k s : Nat) : Bool := rl.getD (k * T.m + s) false

def ckShape (T : Tab) : Bool := decide (1 ≤ T.m) && decide (T.init < T.m) && decide (T.bump = 0)

/-- `rl` contains `(0, init)` and is closed under the allowed transitions -/
def ckReach (T : Tab) (rl : List Bool) : Bool :=
  rN T rl 0 T.init &&
  (List.range T.n).all (fun k => (List.range T.m).all (fun s => !rN T rl k s ||
    [false, true].all (fun b => !allowed T k s b || rN T rl (k + 1) (tr T k s b))))

/-- `Potential.att`: a finite potential is attained by an allowed decision (on every state) -/
def ckAtt (T : Tab) (hl : List (Option Int)) : Bool :=
  (List.range T.n).all (fun k => (List.range T.m).all (fun s => (hN T hl k s).isNone ||
    [false, true].any (fun b => allowed T k s b &&
      decide (hN T hl k s ≤ (hN T hl (k + 1) (tr T k s b)).addI (c T k s b)))))

/-- `Potential.le`: on the `rl`-reachable pairs no allowed decision beats the potential -/
def ckLe (T : Tab) (hl : List (Option Int)) (rl : List Bool) : Bool :=
  (List.range T.n).all (fun k => (List.range T.m).all (fun s => !rN T rl k s ||
    [false, true].all (fun b => !allowed T k s b ||
      decide ((hN T hl (k + 1) (tr T k s b)).addI (c T k s b) ≤ hN T hl k s))))

/-- `MergeOk`: the potential of `join a b` is at least the potentials of `a` and of `b` -/
def ckMerge (T : Tab) (hl : List (Option Int)) : Bool :=
  (List.range T.n).all (fun k => (List.range T.m).all (fun a => (List.range T.m).all (fun b =>
    decide (hN T hl k a ≤ hN T hl k (join T a b)) && decide (hN T hl k b ≤ hN T hl k (join T a b)))))

/-- `RubOk`: the rough upper bound is non-negative and dominates the potential -/
def ckRub (T : Tab) (hl : List (Option Int)) : Bool :=
  (List.range T.m).all (fun s => decide (0 ≤ T.rubl.getD s 0) &&
    (List.range T.n).all (fun k => decide (hN T hl k s ≤ some (T.rubl.getD s 0))))

/-- the costs are within `[-B0, B0]` -/
def ckBound (T : Tab) (B0 : Int) : Bool := T.cl.all (fun x => decide (-B0 ≤ x ∧ x ≤ B0)) && decide (0 ≤ B0)

/-- **the executable well-formedness condition** for the potential table `hl` and the reachability table `rl` -/
def checkWF (T : Tab) (hl : List (Option Int)) (rl : List Bool) (B0 : Int) : Bool :=
  ckShape T && ckReach T rl && ckAtt T hl && ckLe T hl rl && ckMerge T hl && ckRub T hl && ckBound T B0


/-! ## basic facts -/

theorem st_lt (T : Tab) (hm : 1 ≤ T.m) (s : Int) : st T s < T.m := by unfold st; omega
theorem tr_lt (T : Tab) (hm : 1 ≤ T.m) (k s : Nat) (b : Bool) : tr T k s b < T.m := by unfold tr; omega
theorem st_nat (T : Tab) (a : Nat) (h : a < T.m) : st T (a : Int) = a := by
  unfold st; rw [Int.toNat_natCast]; omega
theorem st_tr (T : Tab) (k s : Nat) (b : Bool) : st T ((tr T k s b : Nat) : Int) = tr T k s b := by
  have h : tr T k s b ≤ T.m - 1 := by unfold tr; omega
  unfold st; rw [Int.toNat_natCast]; omega
theorem join_lt (T : Tab) (hm : 1 ≤ T.m) (a b : Nat) (ha : a < T.m) : join T a b < T.m := by
  unfold join; split <;> omega

theorem nv_some {T : Tab} {k : Nat} {L : List Int} {x : Nat} (h : (prob T).nextVar k L = some x) : k < T.n ∧ x = k := by
  simp only [prob] at h
  split at h
  · next hk => cases h; exact ⟨hk, rfl⟩
  · cases h

/-- the decision of a Boolean -/
def bdec (b : Bool) : Int := if b then 1 else 0
@[simp] theorem decide_bdec (b : Bool) : decide (bdec b = 1) = b := by cases b <;> simp [bdec]

theorem mem_dom (T : Tab) (k s : Nat) (d : Int) :
    d ∈ dom T k s ↔ ((d = 0 ∧ allowed T k s false = true) ∨ (d = 1 ∧ allowed T k s true = true)) := by
  unfold dom
  cases T.rev <;> cases h0 : allowed T k s false <;> cases h1 : allowed T k s true <;> simp
  all_goals omega

theorem mem_dom' (T : Tab) (k s : Nat) (d : Int) : d ∈ dom T k s ↔ ∃ b, d = bdec b ∧ allowed T k s b = true := by
  rw [mem_dom]
  constructor
  · rintro (⟨rfl, h⟩ | ⟨rfl, h⟩)
    · exact ⟨false, rfl, h⟩
    · exact ⟨true, rfl, h⟩
  · rintro ⟨b, rfl, h⟩
    cases b
    · exact Or.inl ⟨rfl, h⟩
    · exact Or.inr ⟨rfl, h⟩

theorem trans_b (T : Tab) (s : Int) (k : Nat) (b : Bool) :
    (prob T).trans s ⟨k, bdec b⟩ = ((tr T k (st T s) b : Nat) : Int) := by simp [prob]
theorem cost_b (T : Tab) (s s' : Int) (k : Nat) (b : Bool) : (prob T).cost s s' ⟨k, bdec b⟩ = c T k (st T s) b := by
  simp [prob]
theorem Hof_eq (T : Tab) (hl : List (Option Int)) (k : Nat) (s : Int) : Hof T hl k s = hN T hl k (st T s) := rfl
theorem Hof_tr (T : Tab) (hl : List (Option Int)) (k j s : Nat) (b : Bool) :
    Hof T hl k ((tr T j s b : Nat) : Int) = hN T hl k (tr T j s b) := by rw [Hof_eq, st_tr]
theorem mem_ft (b : Bool) : b ∈ [false, true] := by cases b <;> simp

/-! ## folding the join table -/

theorem fold_ub (T : Tab) (hm : 1 ≤ T.m) (R : Nat → Nat → Prop) (hrefl : ∀ a, R a a)
    (htrans : ∀ a b c, R a b → R b c → R a c)
    (hj : ∀ a b, a < T.m → b < T.m → R a (join T a b) ∧ R b (join T a b)) :
    ∀ (r : List Int) (a : Nat), a < T.m →
      r.foldl (fun a u => join T a (st T u)) a < T.m ∧ R a (r.foldl (fun a u => join T a (st T u)) a) ∧
      ∀ u ∈ r, R (st T u) (r.foldl (fun a u => join T a (st T u)) a) := by
  intro r
  induction r with
  | nil => intro a ha; exact ⟨ha, hrefl a, fun u hu => by cases hu⟩
  | cons x r ih =>
    intro a ha
    simp only [List.foldl_cons]
    obtain ⟨h1, h2, h3⟩ := ih (join T a (st T x)) (join_lt T hm _ _ ha)
    obtain ⟨j1, j2⟩ := hj a (st T x) ha (st_lt T hm x)
    refine ⟨h1, htrans _ _ _ j1 h2, fun u hu => ?_⟩
    rcases List.mem_cons.mp hu with e | e
    · subst e; exact htrans _ _ _ j2 h2
    · exact h3 u e

/-- the merged state is an upper bound of every merged state, for every preorder `R` (`R a b`: `a` is below `b`) for which the
    join table gives upper bounds -/
theorem mergeL_ub (T : Tab) (hm : 1 ≤ T.m) (R : Nat → Nat → Prop) (hrefl : ∀ a, R a a)
    (htrans : ∀ a b c, R a b → R b c → R a c)
    (hj : ∀ a b, a < T.m → b < T.m → R a (join T a b) ∧ R b (join T a b))
    (X : List Int) (u : Int) (hu : u ∈ X) : R (st T u) (st T (mergeL T X)) := by
  cases X with
  | nil => cases hu
  | cons x r =>
    obtain ⟨h1, h2, h3⟩ := fold_ub T hm R hrefl htrans hj r (st T x) (st_lt T hm x)
    simp only [mergeL]
    rw [st_nat T _ h1]
    rcases List.mem_cons.mp hu with e | e
    · subst e; exact h2
    · exact h3 u e

/-! ## what the checks say -/

theorem ckAtt_spec {T : Tab} {hl : List (Option Int)} (h : ckAtt T hl = true) {k s : Nat} (hk : k < T.n) (hs : s < T.m)
    {x : Int} (hx : hN T hl k s = some x) :
    ∃ b, allowed T k s b = true ∧ ∃ h', hN T hl (k + 1) (tr T k s b) = some h' ∧ x ≤ c T k s b + h' := by
  simp only [ckAtt, List.all_eq_true, List.mem_range, Bool.or_eq_true, List.any_eq_true, Bool.and_eq_true,
    decide_eq_true_eq] at h
  rcases h k hk s hs with h0 | ⟨b, _, hb, hle⟩
  · rw [hx] at h0; cases h0
  · refine ⟨b, hb, ?_⟩
    rw [hx] at hle
    cases hq : hN T hl (k + 1) (tr T k s b) with
    | none => rw [hq] at hle; exact absurd hle (by simp [EInt.addI])
    | some h' =>
      rw [hq] at hle
      refine ⟨h', rfl, ?_⟩
      simp only [EInt.addI, Option.map_some, EInt.some_le_some] at hle
      omega

theorem ckLe_spec {T : Tab} {hl : List (Option Int)} {rl : List Bool} (h : ckLe T hl rl = true) {k s : Nat} (hk : k < T.n)
    (hs : s < T.m) (hr : rN T rl k s = true) {b : Bool} (hb : allowed T k s b = true) :
    (hN T hl (k + 1) (tr T k s b)).addI (c T k s b) ≤ hN T hl k s := by
  simp only [ckLe, List.all_eq_true, List.mem_range, Bool.or_eq_true, Bool.not_eq_true', decide_eq_true_eq] at h
  rcases h k hk s hs with h0 | h1
  · rw [hr] at h0; cases h0
  · rcases h1 b (mem_ft b) with h2 | h2
    · rw [hb] at h2; cases h2
    · exact h2

theorem ckReach_spec {T : Tab} {rl : List Bool} (h : ckReach T rl = true) {k s : Nat} (hk : k < T.n)
    (hs : s < T.m) (hr : rN T rl k s = true) {b : Bool} (hb : allowed T k s b = true) :
    rN T rl (k + 1) (tr T k s b) = true := by
  simp only [ckReach, List.all_eq_true, List.mem_range, Bool.or_eq_true, Bool.not_eq_true', Bool.and_eq_true] at h
  rcases h.2 k hk s hs with h0 | h1
  · rw [hr] at h0; cases h0
  · rcases h1 b (mem_ft b) with h2 | h2
    · rw [hb] at h2; cases h2
    · exact h2

theorem ckMerge_spec {T : Tab} {hl : List (Option Int)} (h : ckMerge T hl = true) {k : Nat} (hk : k < T.n) {a b : Nat}
    (ha : a < T.m) (hb : b < T.m) : hN T hl k a ≤ hN T hl k (join T a b) ∧ hN T hl k b ≤ hN T hl k (join T a b) := by
  simp only [ckMerge, List.all_eq_true, List.mem_range, Bool.and_eq_true, decide_eq_true_eq] at h
  exact h k hk a ha b hb

theorem ckRub_spec {T : Tab} {hl : List (Option Int)} (h : ckRub T hl = true) {s : Nat} (hs : s < T.m) :
    0 ≤ T.rubl.getD s 0 ∧ ∀ k, k < T.n → hN T hl k s ≤ some (T.rubl.getD s 0) := by
  simp only [ckRub, List.all_eq_true, List.mem_range, Bool.and_eq_true, decide_eq_true_eq] at h
  exact h s hs

/-! ## exact reachability stays inside `rl` -/

theorem reach_rl_aux {T : Tab} {rl : List Bool} (hm : 1 ≤ T.m) (hi : T.init < T.m) (hR : ckReach T rl = true)
    {P : Problem Int} (hP : P = prob T) {k : Nat} {s : Int} {v : Int} {p : List Dec} (h : Reach P k s v p) :
    rN T rl k (st T s) = true ∧ k ≤ T.n := by
  induction h with
  | root =>
    subst hP
    have h0 : rN T rl 0 T.init = true := by
      simp only [ckReach, Bool.and_eq_true] at hR; exact hR.1
    refine ⟨?_, Nat.zero_le _⟩
    show rN T rl 0 (st T ((T.init : Nat) : Int)) = true
    rw [st_nat T _ hi]; exact h0
  | step k s v p L x d hr hnv hs hd ih =>
    subst hP
    obtain ⟨hk, hx⟩ := nv_some hnv; subst x
    obtain ⟨b, rfl, hb⟩ := (mem_dom' T k (st T s) d).1 hd
    rw [trans_b, st_tr]
    exact ⟨ckReach_spec hR hk (st_lt T hm s) ih.1 hb, hk⟩

theorem reach_rl {T : Tab} {rl : List Bool} (hm : 1 ≤ T.m) (hi : T.init < T.m) (hR : ckReach T rl = true)
    {k : Nat} {s : Int} {v : Int} {p : List Dec} (h : Reach (prob T) k s v p) :
    rN T rl k (st T s) = true ∧ k ≤ T.n := reach_rl_aux hm hi hR rfl h

/-! ## well-formedness -/

theorem potential (T : Tab) (hl : List (Option Int)) (rl : List Bool) (hm : 1 ≤ T.m) (hi : T.init < T.m)
    (hR : ckReach T rl = true) (hA : ckAtt T hl = true) (hL : ckLe T hl rl = true) : Potential (prob T) (Hof T hl) := by
  constructor
  · intro k L x s h hnv _ hH
    obtain ⟨hk, hx⟩ := nv_some hnv; subst x
    rw [Hof_eq] at hH
    obtain ⟨b, hb, h', hq, hle⟩ := ckAtt_spec hA hk (st_lt T hm s) hH
    refine ⟨bdec b, (mem_dom' T k (st T s) _).2 ⟨b, rfl, hb⟩, h', ?_, ?_⟩
    · rw [trans_b, Hof_tr]; exact hq
    · rw [trans_b, cost_b]; exact hle
  · intro k L x s v p d hr hnv _ hd
    obtain ⟨hk, hx⟩ := nv_some hnv; subst x
    obtain ⟨b, rfl, hb⟩ := (mem_dom' T k (st T s) d).1 hd
    have hrl := (reach_rl hm hi hR hr).1
    rw [trans_b, cost_b, Hof_tr, Hof_eq]
    exact ckLe_spec hL hk (st_lt T hm s) hrl hb
  · intro k L s hnv _
    simp only [prob] at hnv
    split at hnv
    · cases hnv
    · next hk => simp only [Hof, hk, if_false]

theorem Hof_ge (T : Tab) (hl : List (Option Int)) {k : Nat} (hk : ¬ k < T.n) (s : Int) : Hof T hl k s = some 0 := by
  simp only [Hof, hk, if_false]

theorem mergeOk (T : Tab) (hl : List (Option Int)) (hm : 1 ≤ T.m) (hb : T.bump = 0) (hM : ckMerge T hl = true) :
    MergeOk (rlx T) (Hof T hl) := by
  intro k X u src d c0 h hu hH
  have key : Hof T hl k u ≤ Hof T hl k (mergeL T X) := by
    by_cases hk : k < T.n
    · rw [Hof_eq, Hof_eq]
      exact mergeL_ub T hm (fun a b => hN T hl k a ≤ hN T hl k b) (fun a => EInt.le_refl _)
        (fun a b c h1 h2 => EInt.le_trans h1 h2) (fun a b ha hb => ckMerge_spec hM hk ha hb) X u hu
    · rw [Hof_ge T hl hk, Hof_ge T hl hk]; exact EInt.le_refl _
  show ∃ h', Hof T hl k (mergeL T X) = some h' ∧ c0 + h ≤ (c0 + T.bump) + h'
  rw [hH] at key
  cases hq : Hof T hl k (mergeL T X) with
  | none => rw [hq] at key; exact absurd key (by simp)
  | some h' =>
    rw [hq] at key
    refine ⟨h', rfl, ?_⟩
    simp only [EInt.some_le_some] at key
    omega

theorem rubOk (T : Tab) (hl : List (Option Int)) (hm : 1 ≤ T.m) (hR : ckRub T hl = true) : RubOk (rlx T) (Hof T hl) := by
  intro k s h hH
  obtain ⟨h0, h1⟩ := ckRub_spec hR (st_lt T hm s)
  show h ≤ T.rubl.getD (st T s) 0
  by_cases hk : k < T.n
  · have := h1 k hk
    rw [← Hof_eq, hH] at this
    exact this
  · rw [Hof_ge T hl hk] at hH
    cases hH; exact h0

theorem nvBound (T : Tab) : NvBound (prob T) := by
  intro k L hk
  have : ¬ k < T.n := by simp only [prob] at hk; omega
  simp only [prob, this, if_false]

theorem getD_bound (l : List Int) (i : Nat) (B0 : Int) (h : ∀ x ∈ l, -B0 ≤ x ∧ x ≤ B0) (h0 : 0 ≤ B0) :
    -B0 ≤ l.getD i 0 ∧ l.getD i 0 ≤ B0 := by
  rw [List.getD_eq_getElem?_getD]
  cases hi : l[i]? with
  | none => simp only [Option.getD_none]; omega
  | some x => simp only [Option.getD_some]; exact h x (List.mem_of_getElem? hi)

theorem runBound (T : Tab) (B0 B : Int) (hb : T.bump = 0) (hc : ∀ k s d, -B0 ≤ c T k s d ∧ c T k s d ≤ B0) (hB0 : 0 ≤ B0)
    (hfit : ((T.n : Int) + 1) * B0 ≤ B) (hsmall : ((T.n : Int) + 2) * B ≤ 4611686018427387904) :
    RunBound (prob T) (rlx T) B0 B := by
  have hBB : B0 ≤ B := by
    have h1 : (0 : Int) ≤ (T.n : Int) * B0 := Int.mul_nonneg (by omega) hB0
    rw [Int.add_mul, Int.one_mul] at hfit
    omega
  refine ⟨⟨by omega, ?_, ?_, ?_, hsmall⟩, ⟨?_, ?_⟩, hfit⟩
  · show -B ≤ (0 : Int) ∧ (0 : Int) ≤ B
    omega
  · intro s s' d
    have := hc d.var (st T s) (decide (d.val = 1))
    show -B ≤ c T _ _ _ ∧ c T _ _ _ ≤ B
    omega
  · intro s u m d c0 hcc
    show -B ≤ c0 + T.bump ∧ c0 + T.bump ≤ B
    omega
  · show -B0 ≤ (0 : Int) ∧ (0 : Int) ≤ B0
    omega
  · intro s s' d
    exact hc d.var (st T s) (decide (d.val = 1))

theorem width_pos (T : Tab) (ws : List Nat) (N : SubP Int) : 1 ≤ widthOf T ws N := by
  unfold widthOf; omega

theorem staticOrder (T : Tab) : StaticOrder (prob T) := fun _ _ _ _ _ => rfl
theorem dims2 (T : Tab) : ∀ s, (rule T).dims s = 2 := fun _ => rfl

/-- **the `Grid` models are well formed** as soon as `checkWF` holds for a potential table `hl` and a reachability table `rl` -/
theorem wellFormed_of_check (T : Tab) (hl : List (Option Int)) (rl : List Bool) (ws : List Nat) (dedup : Bool) (kind : CutsetKind)
    (B0 B : Int) (h : checkWF T hl rl B0 = true)
    (hfit : ((T.n : Int) + 1) * B0 ≤ B) (hsmall : ((T.n : Int) + 2) * B ≤ 4611686018427387904) :
    WellFormed (sv T ws dedup kind) (Hof T hl) B0 B := by
  simp only [checkWF, Bool.and_eq_true] at h
  obtain ⟨⟨⟨⟨⟨⟨hS, hR⟩, hA⟩, hL⟩, hM⟩, hRub⟩, hBd⟩ := h
  simp only [ckShape, Bool.and_eq_true, decide_eq_true_eq] at hS
  obtain ⟨⟨hm, hi⟩, hb⟩ := hS
  simp only [ckBound, Bool.and_eq_true, decide_eq_true_eq, List.all_eq_true] at hBd
  have hP := potential T hl rl hm hi hR hA hL
  exact ⟨hP, rubOk T hl hm hRub, mergeOk T hl hm hb hM, Cover.attMerge_of_static hP (staticOrder T),
    runBound T B0 B hb (fun k s d => getD_bound T.cl _ B0 hBd.1 hBd.2) hBd.2 hfit hsmall, nvBound T, width_pos T ws⟩

/-- the potential of the root is the entry of `(0, init)` -/
theorem opt_of_check (T : Tab) (hl : List (Option Int)) (hn : 0 < T.n) (hi : T.init < T.m) :
    (Hof T hl 0 (prob T).init).addI (prob T).initVal = hl.getD (0 * T.m + T.init) none := by
  show (Hof T hl 0 ((T.init : Nat) : Int)).addI 0 = _
  rw [Hof_eq, st_nat T _ hi]
  simp only [hN, hn, if_true, EInt.addI]
  cases hl.getD (0 * T.m + T.init) none <;> simp


/-! ## the rule's order -/

theorem geS_refl (T : Tab) (a : Nat) : geS T a a = true := by
  simp [geS]

theorem geS_trans (T : Tab) {a b c : Nat} (h1 : geS T a b = true) (h2 : geS T b c = true) : geS T a c = true := by
  simp only [geS, Bool.and_eq_true, decide_eq_true_eq] at *
  omega

/-- "at least as good" for the rule of `Grid`: the product order on the two coordinates of the clamped states, and the value -/
theorem geItem_iff (T : Tab) (a : Int) (va : Int) (b : Int) (vb : Int) :
    GeItem (rule T) 2 a va b vb ↔ (geS T (st T a) (st T b) = true ∧ vb ≤ va) := by
  have e : ∀ s v, ((rule T).ent 2 s v).coords =
      [(T.co.getD (st T s) (0, 0)).1, (T.co.getD (st T s) (0, 0)).2] := fun s v => rfl
  have ev : ∀ s v, ((rule T).ent 2 s v).value = v := fun s v => rfl
  have hu : (rule T).useValue = true := rfl
  unfold GeItem
  rw [hu]
  simp only [geEnt, e, ev, leB, geS, Bool.not_true, Bool.false_or, Bool.and_true, Bool.and_eq_true, decide_eq_true_eq]
  constructor
  · rintro (⟨rfl, h⟩ | ⟨_, ⟨h1, h2⟩, h3⟩)
    · exact ⟨⟨Int.le_refl _, Int.le_refl _⟩, h⟩
    · exact ⟨⟨h1, h2⟩, h3⟩
  · rintro ⟨⟨h1, h2⟩, h3⟩
    exact Or.inr ⟨⟨0, rfl, rfl⟩, ⟨h1, h2⟩, h3⟩

theorem checkSim_spec {T : Tab} (h : checkSim T = true) {k a b : Nat} (hk : k < T.n) (ha : a < T.m) (hb : b < T.m)
    (hg : geS T a b = true) {db : Bool} (hdb : allowed T k b db = true) :
    ∃ da, allowed T k a da = true ∧ geS T (tr T k a da) (tr T k b db) = true ∧ c T k b db ≤ c T k a da := by
  simp only [checkSim, List.all_eq_true, List.mem_range, Bool.or_eq_true, Bool.not_eq_true', List.any_eq_true,
    Bool.and_eq_true, decide_eq_true_eq] at h
  rcases h k hk a ha b hb with h0 | h1
  · rw [hg] at h0; cases h0
  · rcases h1 db (mem_ft db) with h2 | ⟨da, _, ⟨h3, h4⟩, h5⟩
    · rw [hdb] at h2; cases h2
    · exact ⟨da, h3, h4, h5⟩

/-- **`checkSim` gives the simulation condition for all pairs of states and values** -/
theorem simAll_of_check (T : Tab) (h : checkSim T = true) (hm : 1 ≤ T.m) : SimAll (rule T) (prob T) 2 := by
  constructor
  · intro d a va b vb L x hge hnv _ db hdb
    rw [geItem_iff] at hge
    obtain ⟨hk, hx⟩ := nv_some hnv; subst x
    obtain ⟨bb, rfl, hbb⟩ := (mem_dom' T d (st T b) db).1 hdb
    obtain ⟨da, h1, h2, h3⟩ := checkSim_spec h hk (st_lt T hm a) (st_lt T hm b) hge.1 hbb
    refine ⟨bdec da, (mem_dom' T d (st T a) _).2 ⟨da, rfl, h1⟩, ?_⟩
    rw [geItem_iff, trans_b, trans_b, cost_b, cost_b, st_tr, st_tr]
    exact ⟨h2, by omega⟩
  · intro a va b vb hge
    rw [geItem_iff] at hge
    exact hge.2

theorem checkJoin_spec {T : Tab} (h : checkJoin T = true) {a b : Nat} (ha : a < T.m) (hb : b < T.m) :
    geS T (join T a b) a = true ∧ geS T (join T a b) b = true := by
  simp only [checkJoin, List.all_eq_true, List.mem_range, Bool.and_eq_true, decide_eq_true_eq] at h
  exact h.1 a ha b hb

/-- **`checkJoin` makes the merge operator maximal for the rule** -/
theorem mergeCompat_of_check (T : Tab) (h : checkJoin T = true) (hm : 1 ≤ T.m) : MergeCompat (rule T) (rlx T) 2 := by
  constructor
  · intro X u v hu
    rw [geItem_iff]
    exact ⟨mergeL_ub T hm (fun a b => geS T b a = true) (fun a => geS_refl T a) (fun a b c h1 h2 => geS_trans T h2 h1)
      (fun a b ha hb => checkJoin_spec h ha hb) X u hu, Int.le_refl v⟩
  · intro _ _ _ _ c0
    have hb : 0 ≤ T.bump := by
      simp only [checkJoin, Bool.and_eq_true, decide_eq_true_eq] at h; exact h.2
    show c0 ≤ c0 + T.bump
    omega

end Ddo.C10d.Grid

namespace Ddo.C10d.Shadow
open Ddo Ddo.C01 Ddo.Closed Ddo.C09 Ddo.C10 Ddo.C10c Ddo.C10d.Grid

def T : Tab :=
  { n := 6, m := 11, init := 0,
    co := [(60, -60), (10, -10), (20, -20), (51, -50), (50, -49), (41, -40), (40, -40), (61, -60), (51, -49), (42, -40), (100, 100)],
    trl := [1, 2, 0, 0, 0, 0, 0, 0, 0, 0, 0, 0, 0, 0, 1, 2, 0, 0, 0, 0, 10, 10, 0, 0, 1, 1, 2, 2, 0, 0, 0, 0, 0, 0, 0, 0, 0, 0, 0, 0, 0, 0, 10, 10, 0, 0, 1, 1, 3, 4, 0, 0, 0, 0, 0, 0, 0, 0, 0, 0, 0, 0, 0, 0, 10, 10, 0, 0, 6, 6, 0, 0, 5, 5, 6, 6, 0, 0, 0, 0, 0, 0, 9, 6, 0, 0, 10, 10, 0, 0, 0, 0, 0, 0, 0, 0, 0, 0, 7, 0, 7, 0, 0, 0, 0, 0, 7, 0, 10, 10, 0, 0, 0, 0, 0, 0, 0, 0, 0, 0, 0, 0, 0, 0, 0, 0, 0, 0, 0, 0, 10, 10],
    cl := [2, 1, 0, 0, 0, 0, 0, 0, 0, 0, 0, 0, 0, 0, 2, 1, 0, 0, 0, 0, 2, 2, 0, 0, -2, -2, -1, -1, 0, 0, 0, 0, 0, 0, 0, 0, 0, 0, 0, 0, 0, 0, 0, 0, 0, 0, 0, 0, 1, 0, 0, 0, 0, 0, 0, 0, 0, 0, 0, 0, 0, 0, 0, 0, 1, 1, 0, 0, 0, 0, 0, 0, -1, -1, -1, -1, 0, 0, 0, 0, 0, 0, -1, -1, 0, 0, 0, 0, 0, 0, 0, 0, 0, 0, 0, 0, 0, 0, 0, 5, 0, 5, 0, 0, 0, 0, 0, 5, 5, 5, 0, 0, 0, 0, 0, 0, 0, 0, 0, 0, 0, 0, 0, 0, 10, 10, 0, 0, 0, 0, 10, 10],
    dl := [3, 3, 3, 3, 3, 3, 3, 3, 3, 3, 3, 3, 3, 3, 3, 3, 3, 3, 3, 3, 3, 3, 3, 3, 3, 3, 3, 3, 3, 3, 3, 3, 3, 3, 3, 3, 3, 3, 3, 3, 3, 3, 3, 3, 3, 3, 3, 3, 3, 3, 3, 3, 3, 3, 3, 3, 3, 3, 3, 3, 3, 3, 3, 3, 3, 3],
    jl := [0, 10, 10, 10, 10, 10, 10, 7, 10, 10, 10, 10, 1, 10, 10, 10, 10, 10, 10, 10, 10, 10, 10, 10, 2, 10, 10, 10, 10, 10, 10, 10, 10, 10, 10, 10, 3, 8, 10, 10, 10, 10, 10, 10, 10, 10, 10, 8, 4, 10, 10, 10, 10, 10, 10, 10, 10, 10, 10, 10, 5, 10, 10, 10, 10, 10, 10, 10, 10, 10, 10, 10, 6, 10, 10, 10, 10, 7, 10, 10, 10, 10, 10, 10, 7, 10, 10, 10, 10, 10, 10, 10, 10, 10, 10, 10, 8, 10, 10, 10, 10, 10, 10, 10, 10, 10, 10, 10, 9, 10, 10, 10, 10, 10, 10, 10, 10, 10, 10, 10, 10],
    rubl := [30, 30, 30, 30, 30, 30, 30, 30, 30, 5, 30],
    rk := [0, 1, 2, 3, 4, 5, 6, 7, 8, 9, 10] }

def hl : List (Option Int) :=
  [some (10), none, none, none, none, none, none, some (10), none, none, some (18), none, some (8), some (9), none, none, none, none, none, none, none, some (16), none, some (10), some (10), none, none, none, none, none, none, none, some (16), none, some (10), none, some (9), some (9), none, none, none, some (9), none, some (15), none, none, none, none, none, some (10), some (10), none, none, none, some (15), some (0), none, none, none, none, none, none, some (10), none, none, some (10)]

def rl : List Bool :=
  [true, false, false, false, false, false, false, false, false, false, false, false, true, true, false, false, false, false, false, false, false, false, false, true, true, false, false, false, false, false, false, false, false, false, true, false, true, true, false, false, false, false, false, false, false, false, false, false, false, true, true, false, false, false, false, true, false, false, false, false, false, false, true, false, false, false, true, false, false, false, false, false, false, false, false, false, false]


def ws : List Nat := List.replicate 77 1


set_option maxRecDepth 100000 in
theorem checkSim_true : checkSim T = true := by decide
set_option maxRecDepth 100000 in
theorem checkJoin_true : checkJoin T = true := by decide
set_option maxRecDepth 100000 in
theorem ckShape_true : ckShape T = true := by decide
set_option maxRecDepth 100000 in
theorem ckReach_true : ckReach T rl = true := by decide
set_option maxRecDepth 100000 in
theorem ckAtt_true : ckAtt T hl = true := by decide
set_option maxRecDepth 100000 in
theorem ckLe_true : ckLe T hl rl = true := by decide
set_option maxRecDepth 100000 in
theorem ckMerge_true : ckMerge T hl = true := by decide
set_option maxRecDepth 100000 in
theorem ckRub_true : ckRub T hl = true := by decide
set_option maxRecDepth 100000 in
theorem ckBound_true : ckBound T 10 = true := by decide

theorem checkWF_true : checkWF T hl rl 10 = true := by
  simp only [checkWF, ckShape_true, ckReach_true, ckAtt_true, ckLe_true, ckMerge_true, ckRub_true, ckBound_true, Bool.and_self]

theorem staticOrder : StaticOrder (prob T) := Grid.staticOrder T
theorem simAll : SimAll (rule T) (prob T) 2 := simAll_of_check T checkSim_true (by decide)
theorem mergeCompat : MergeCompat (rule T) (rlx T) 2 := mergeCompat_of_check T checkJoin_true (by decide)

/-- the instance is well formed, with the potential table `hl` -/
theorem wellFormed (dedup : Bool) (kind : CutsetKind) : WellFormed (dv T ws dedup kind).sv (Hof T hl) 10 80 :=
  wellFormed_of_check T hl rl ws dedup kind 10 80 checkWF_true (by decide) (by decide)

theorem opt10 : (Hof T hl 0 (prob T).init).addI (prob T).initVal = some 10 := by
  rw [opt_of_check T hl (by decide) (by decide)]; rfl

end Ddo.C10d.Shadow

#print axioms Ddo.C10d.Grid.staticOrder
#print axioms Ddo.C10d.Grid.dims2
#print axioms Ddo.C10d.Grid.geItem_iff
#print axioms Ddo.C10d.Grid.simAll_of_check
#print axioms Ddo.C10d.Grid.mergeCompat_of_check
#print axioms Ddo.C10d.Grid.reach_rl
#print axioms Ddo.C10d.Grid.wellFormed_of_check
#print axioms Ddo.C10d.Grid.opt_of_check
#print axioms Ddo.C10d.Shadow.checkSim_true
#print axioms Ddo.C10d.Shadow.checkJoin_true
#print axioms Ddo.C10d.Shadow.checkWF_true
#print axioms Ddo.C10d.Shadow.simAll
#print axioms Ddo.C10d.Shadow.mergeCompat
#print axioms Ddo.C10d.Shadow.wellFormed
#print axioms Ddo.C10d.Shadow.opt10
