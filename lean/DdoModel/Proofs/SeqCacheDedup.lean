import DdoModel.Proofs.SeqCache
import DdoModel.Proofs.SeqInvDedup
/-! C09 for the duplicate-free fringe (`NoDupFringe`, `dedup = true`) — the sequential branch-and-bound **with** the
threshold cache.

`Proofs/SeqCache.lean` proves `processC_inv` for the plain multiset fringe (`stateAfter`, `dedup = false`).  With
`dedup = true` a pushed sub-problem whose `(state, depth)` is already in the fringe is coalesced with it (larger value
kept, `ub := max`).  As for the cache-less solver (`Proofs/SeqInvDedup.lean`, `Props/C01b.lean`):

* `processD_rel`: the state after `process_one_node` with the duplicate-free fringe has the incumbent of the plain one and
  its fringe is a coalescing (`Coalesces`) of the plain one;
* `CInvC.of_coalesce`: the invariant `CInvC` is stable under coalescing — a member `c` of the multiset is dominated
  (`Dom`) by an entry `s` of the coalescing, which has the same depth, a potential `≥` (`optOf_dom`), a bound `≥`, and is
  not refused by the cache when `c` is not (`prunM_dom`: `prunM` is antitone in the value);
* `processC_inv_any`: `processC_inv` for both fringes.  Like `processC_inv` it has **no hypothesis on the pop order**
  (`N` is any element of the fringe).

Core Lean only. -/
set_option linter.unusedSectionVars false
set_option linter.unusedVariables false
namespace Ddo.C09
open Ddo
variable {S : Type} [DecidableEq S]

/-- the solver state after `process_one_node (N)`, `must_explore` answered by the cache, either fringe -/
def stateAfterD (dedup : Bool) (st : SeqSt S) (T : CView S) (N : SubP S) (r x : DDOut S) : SeqSt S :=
  (st.process dedup N (decide (¬ prunM T N)) (.ok r) (.ok x)).1

theorem stateAfterD_false (st : SeqSt S) (T : CView S) (N : SubP S) (r x : DDOut S) :
    stateAfterD false st T N r x = stateAfter st T N r x := rfl

/-- `optOf H` does not read the bound -/
theorem optOf_ub (H : Nat → S → EInt) (c : SubP S) (u : Int) : optOf H { c with ub := u } = optOf H c := rfl

/-- `optOf H` is `PhiMono` -/
theorem optOf_phiMono (H : Nat → S → EInt) : PhiMono (optOf H : SubP S → EInt) :=
  phiMono_of_potential H

/-- the potential of a dominating entry is not smaller -/
theorem optOf_dom (H : Nat → S → EInt) {s c : SubP S} (hd : Dom s c) (y : Int) (hy : optOf H c = some y) :
    ∃ y', optOf H s = some y' ∧ y ≤ y' := by
  have hle : optOf H c ≤ optOf H s := optOf_phiMono H c s hd.state.symm hd.depth.symm hd.value
  rw [hy] at hle
  cases hs : optOf H s with
  | none => rw [hs] at hle; exact absurd hle (by simp)
  | some y' => rw [hs] at hle; exact ⟨y', rfl, by simpa using hle⟩

/-- `prunM` is antitone in the value: what the cache refuses, it refuses with a smaller value -/
theorem prunM_dom (T : CView S) {s c : SubP S} (hd : Dom s c) (hp : prunM T s) : prunM T c := by
  obtain ⟨t, ht, hcond⟩ := hp
  rw [hd.state, hd.depth] at ht
  refine ⟨t, ht, ?_⟩
  have hv := hd.value
  rcases hcond with h | ⟨h, he⟩
  · exact Or.inl (by omega)
  · by_cases hlt : c.value < t.value
    · exact Or.inl hlt
    · exact Or.inr ⟨by omega, he⟩

/-- the duplicate-free run of `process_one_node` against the plain one: same incumbent, coalesced fringe -/
theorem processD_rel (st : SeqSt S) (T : CView S) (N : SubP S) (r x : DDOut S) :
    (stateAfterD true st T N r x).bestLb = (stateAfter st T N r x).bestLb ∧
    (stateAfterD true st T N r x).bestSol = (stateAfter st T N r x).bestSol ∧
    Coalesces (stateAfterD true st T N r x).fringe (fun c => c ∈ (stateAfter st T N r x).fringe) := by
  unfold stateAfterD stateAfter SeqSt.process
  split
  · exact ⟨rfl, rfl, Coalesces.refl _⟩
  · split
    · exact ⟨rfl, rfl, Coalesces.refl _⟩
    · simp only
      split
      · exact ⟨rfl, rfl, Coalesces.refl _⟩
      · split
        · exact ⟨rfl, rfl, Coalesces.refl _⟩
        · obtain ⟨t1, t2, _, _, _, _⟩ := enqueue_true_spec ((st.updateBest r).updateBest x) x.cutset
          obtain ⟨e1, e2, _, _, _⟩ := enqueue_false_spec ((st.updateBest r).updateBest x) x.cutset
          exact ⟨t1.trans e1.symm, t2.trans e2.symm, enqueue_true_coalesces_false _ _⟩

section
variable (H : Nat → S → EInt) (opt : Int) (Sol : List Dec → Int → Prop)
variable (Rg : Nat → Int → Prop)

/-- what is carried by a multiset of open sub-problems is carried by any coalescing of it -/
theorem Live.of_coalesce {L F : List (SubP S)} {T : CView S} {x : Int} {d : Nat}
    (hco : Coalesces F (fun c => c ∈ L)) (h : Live H L T x d) : Live H F T x d := by
  obtain ⟨c, hc, hdc, ⟨y, hy, hxy⟩, hxu, hnp⟩ := h
  obtain ⟨s, hs, hd⟩ := hco.2 c hc
  obtain ⟨y', hy', hyy'⟩ := optOf_dom H hd y hy
  have h1 := hd.depth
  have h2 := hd.ub
  exact ⟨s, hs, by omega, ⟨y', hy', by omega⟩, by omega, fun hp => hnp (prunM_dom T hd hp)⟩

/-- the invariant passes from a multiset of open sub-problems to any coalescing of it -/
theorem CInvC.of_coalesce {L F : List (SubP S)} {T : CView S} {lb : Int} {sol : Option (List Dec)}
    (hinv : CInvC H opt Sol Rg L T lb sol) (hco : Coalesces F (fun c => c ∈ L)) :
    CInvC H opt Sol Rg F T lb sol := by
  refine ⟨?_, ?_, hinv.lbOk, hinv.solOk, fun hgt => Live.of_coalesce H hco (hinv.root hgt), ?_, ?_⟩
  · -- good
    intro s hs
    obtain ⟨a, b, ha, _, rfl, _⟩ := hco.1 s hs
    exact hinv.good a ha
  · -- rng
    intro s hs
    obtain ⟨a, b, ha, _, rfl, _⟩ := hco.1 s hs
    exact hinv.rng a ha
  · -- cache
    intro s d t v h hT hrg hvt hH hgt
    exact Live.of_coalesce H hco (hinv.cache s d t v h hT hrg hvt hH hgt)
  · -- open_
    intro s hs y hy hgt
    obtain ⟨a, b, ha, _, rfl, _⟩ := hco.1 s hs
    exact Live.of_coalesce H hco (hinv.open_ a ha y hy hgt)

/-- **Stage 2 with the duplicate-free fringe**: `processC_inv` for `dedup = true` -/
theorem processC_inv_dedup
    (st : SeqSt S) (T : CView S) (N : SubP S) (r : DDOut S) (rups : List (S × Nat × Int × Bool))
    (x : DDOut S) (xups : List (S × Nat × Int × Bool))
    (hinv : CInvC H opt Sol Rg (N :: st.fringe) T st.bestLb st.bestSol)
    (hrs : ∀ w, r.bestExact = some w → ∃ p, r.bestExactSol = some p ∧ Sol p w ∧ w ≤ opt)
    (hr : r.isExact = true → CompC H opt Sol Rg N st.bestLb T r rups (st.updateBest r).bestLb)
    (hrups : r.isExact = false → rups = [])
    (hx : r.isExact = false → CompC H opt Sol Rg N (st.updateBest r).bestLb T x xups ((st.updateBest r).updateBest x).bestLb) :
    CInvC H opt Sol Rg (stateAfterD true st T N r x).fringe (viewAfter st T N r rups xups)
      (stateAfterD true st T N r x).bestLb (stateAfterD true st T N r x).bestSol := by
  have h := processC_inv H opt Sol Rg st T N r rups x xups hinv hrs hr hrups hx
  obtain ⟨e1, e2, hco⟩ := processD_rel st T N r x
  rw [e1, e2]
  exact CInvC.of_coalesce H opt Sol Rg h hco

/-- `processC_inv` for both fringes; `N` is any element of the fringe (no hypothesis on the pop order) -/
theorem processC_inv_any (dedup : Bool)
    (st : SeqSt S) (T : CView S) (N : SubP S) (r : DDOut S) (rups : List (S × Nat × Int × Bool))
    (x : DDOut S) (xups : List (S × Nat × Int × Bool))
    (hinv : CInvC H opt Sol Rg (N :: st.fringe) T st.bestLb st.bestSol)
    (hrs : ∀ w, r.bestExact = some w → ∃ p, r.bestExactSol = some p ∧ Sol p w ∧ w ≤ opt)
    (hr : r.isExact = true → CompC H opt Sol Rg N st.bestLb T r rups (st.updateBest r).bestLb)
    (hrups : r.isExact = false → rups = [])
    (hx : r.isExact = false → CompC H opt Sol Rg N (st.updateBest r).bestLb T x xups ((st.updateBest r).updateBest x).bestLb) :
    CInvC H opt Sol Rg (stateAfterD dedup st T N r x).fringe (viewAfter st T N r rups xups)
      (stateAfterD dedup st T N r x).bestLb (stateAfterD dedup st T N r x).bestSol := by
  cases dedup
  · exact processC_inv H opt Sol Rg st T N r rups x xups hinv hrs hr hrups hx
  · exact processC_inv_dedup H opt Sol Rg st T N r rups x xups hinv hrs hr hrups hx

end
end Ddo.C09

#print axioms Ddo.C09.CInvC.of_coalesce
#print axioms Ddo.C09.processC_inv_any
