import DdoModel.Proofs.ParDomDefs
/-! # The parallel solver with the shared dominance checker — the contracts of the compilations, discharged

`okRd'` / `okXd'` (an answer of the diagram model with the checker enabled, run from ANY store of exactly reached entries, for a
node reached exactly and an incumbent in range) imply the protected-family contracts `DCompileOk` / `DCutsetOk` of
`Proofs/DomSound.lean` — relative to the STALE incumbent the worker read (`C10.restricted_contract`, `C10.relaxed_contract`,
`C10.relaxedOk`: they hold for every store that satisfies `StoreReach`, which is the point: nothing else is needed of the
shared store, hence nothing about the interleaving). -/
set_option linter.unusedSectionVars false
set_option linter.unusedVariables false
namespace Ddo.ParDom
open Ddo Ddo.Truth Ddo.Closed Ddo.ParSys Ddo.ParClosed Ddo.C10
open Ddo.C01 (SolverCfg WellFormed toOut SolOf)
variable {S K : Type} [DecidableEq S] [DecidableEq K]

/-- **the contract of the restricted compilation, checker enabled, any store of exactly reached entries** -/
theorem okRd'_contract {dv : DSolverCfg S K} {H : Nat → S → EInt} {B0 B opt : Int} {Prot : Nat → S → Int → Prop}
    (hwf : WellFormed dv.sv H B0 B) (hopt : (H 0 dv.sv.P.init).addI dv.sv.P.initVal = some opt)
    (hPr : Protected dv.D dv.sv.P H opt Prot) (n : SubP S) (lb : Int) (o : DDOut S)
    (h : okRd' dv B n lb o) (hle : lb ≤ opt) : DCompileOk (OnP Prot) opt (SolOf dv.sv.P) n lb o := by
  obtain ⟨⟨store, hst, hlen, hok, rfl⟩, ⟨p0, hroot, hperm⟩, h1, _⟩ := h
  exact restricted_contract hwf hopt hPr n lb store p0 hroot hperm hst hlen h1 hle hok

/-- **the contracts of the relaxed compilation, checker enabled, any store of exactly reached entries** -/
theorem okXd'_contract {dv : DSolverCfg S K} {H : Nat → S → EInt} {B0 B opt : Int} {Prot : Nat → S → Int → Prop}
    (hwf : WellFormed dv.sv H B0 B) (hopt : (H 0 dv.sv.P.init).addI dv.sv.P.initVal = some opt)
    (hPr : Protected dv.D dv.sv.P H opt Prot) (n : SubP S) (lb : Int) (o : DDOut S)
    (h : okXd' dv B n lb o) (hle : lb ≤ opt) :
    DCompileOk (OnP Prot) opt (SolOf dv.sv.P) n lb o ∧ (o.isExact = false → DCutsetOk (OnP Prot) opt n lb o) := by
  obtain ⟨⟨store, hst, hlen, hok, rfl⟩, ⟨p0, hroot, hperm⟩, h1, _⟩ := h
  exact relaxed_contract hwf hopt hPr (relaxedOk hwf) n lb store p0 hroot hperm hst hlen h1 hle hok

/-- on a state that satisfies `DPCInv`, a step of the system is a step of the system under `okRd'` / `okXd'` -/
theorem qstep_lift {dv : DSolverCfg S K} {H : Nat → S → EInt} {B : Int} {s t : Sys S}
    (h : Step dv.sv.dedup (okRd dv) (okXd dv) s t) (hI : DPCInv dv H B s) :
    Step dv.sv.dedup (okRd' dv B) (okXd' dv B) s t :=
  step_mono h
    (fun i n lb o hw hok => ⟨hok, (hI.ws _ (List.mem_of_getElem? hw)).node n rfl, (hI.ws _ (List.mem_of_getElem? hw)).stage⟩)
    (fun i n lb o hw hok => ⟨hok, (hI.ws _ (List.mem_of_getElem? hw)).node n rfl, (hI.ws _ (List.mem_of_getElem? hw)).stage⟩)

/-- the protected family is upward closed in the value and ignores bound and path; the root lies on it -/
theorem onP_root {dv : DSolverCfg S K} {H : Nat → S → EInt} {opt : Int} {Prot : Nat → S → Int → Prop}
    (hPr : Protected dv.D dv.sv.P H opt Prot) : OnP Prot (rootOf dv.sv.P) :=
  ⟨dv.sv.P.initVal, Int.le_refl _, hPr.root⟩

/-! ## the system that carries the shared store -/

/-- every step of the system with the shared store is, on the states whose store holds exactly reached items only, a step of the
    store-abstracted system -/
theorem dpstep_qstep {dv : DSolverCfg S K} {s t : DSys S K} (h : DPStep dv s t) (hnc : NoCut s.sys)
    (hst : StoreReach dv.D dv.sv.P s.store) (hlen : s.store.layers.length = dv.sv.P.nbVars + 1) : QStep dv s.sys t.sys := by
  cases h with
  | sec t' h hna => exact ⟨step_mono h (fun _ _ _ _ _ hf => hf.elim) (fun _ _ _ _ _ hf => hf.elim), hna⟩
  | compileR i n lb hw hok =>
    refine ⟨StepG.compileR s.sys i n lb (.ok _) hw (fun o ho => ?_), ?_⟩
    · injection ho with ho; subst ho; exact ⟨s.store, hst, hlen, hok, rfl⟩
    · intro w hw' m
      rcases List.mem_or_eq_of_mem_set hw' with h' | h'
      · exact (hnc.2 w h' m).1
      · rw [h']; simp
  | compileX i n lb hw hok =>
    refine ⟨StepG.compileX s.sys i n lb (.ok _) hw (fun o ho => ?_), ?_⟩
    · injection ho with ho; subst ho; exact ⟨s.store, hst, hlen, hok, rfl⟩
    · intro w hw' m
      rcases List.mem_or_eq_of_mem_set hw' with h' | h'
      · exact (hnc.2 w h' m).1
      · rw [h']; simp

/-- **the shared store holds exactly reached items only, after every step** (a compilation of a node reached exactly leaves such
    a store: `compile_storeReach`; the critical sections do not touch it) -/
theorem dpstep_store {dv : DSolverCfg S K} {H : Nat → S → EInt} {B0 B : Int} (hwf : WellFormed dv.sv H B0 B)
    {s t : DSys S K} (h : DPStep dv s t) (hI : DPCInv dv H B s.sys)
    (hst : StoreReach dv.D dv.sv.P s.store) (hlen : s.store.layers.length = dv.sv.P.nbVars + 1) :
    StoreReach dv.D dv.sv.P t.store ∧ t.store.layers.length = dv.sv.P.nbVars + 1 := by
  cases h with
  | sec t' h hna => exact ⟨hst, hlen⟩
  | compileR i n lb hw hok =>
    obtain ⟨p0, hroot, _⟩ := (hI.ws _ (List.mem_of_getElem? hw)).node n rfl
    exact compile_storeReach (dv.cfg .restricted n lb) dv.D rfl rfl hwf.nv B (hwf.bound.noClamp_at hwf.nv hroot)
      p0 (Cache.init dv.sv.P.nbVars) s.store 0 hroot hst hlen hok
  | compileX i n lb hw hok =>
    obtain ⟨p0, hroot, _⟩ := (hI.ws _ (List.mem_of_getElem? hw)).node n rfl
    exact compile_storeReach (dv.cfg .relaxed n lb) dv.D rfl rfl hwf.nv B (hwf.bound.noClamp_at hwf.nv hroot)
      p0 (Cache.init dv.sv.P.nbVars) s.store 0 hroot hst hlen hok

end Ddo.ParDom
