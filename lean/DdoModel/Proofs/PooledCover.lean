import DdoModel.Proofs.PooledDefs
import DdoModel.Proofs.MddCover
/-! Coverage invariant of the pooled diagram (`DdoModel/Pooled.lean`), long arcs allowed: the analogue of `Ddo.Cover.Inv`
    (`Proofs/MddCover.lean`) for `buildLoopP`.  User-facing statements: `Props/C15b.lean`.

* `fdOf_iso` — in isolation (no cache, no dominance) the filters are the identity.
* `NodeOkG`, `fold_okG` — `Cover.NodeOk` / `Cover.fold_ok` for children that join nodes already waiting in the pool (their
  arcs come from any earlier layer).
* `InvP` — the loop invariant: some pool node has potential `≥ o` at the current depth.  A node that is skipped keeps it by
  `SkipRel.up`, an expanded one by `WfRel.att`, a merged one by `WfRel.merge` / `attMerge`.
* `stepLayerP_cover`, `buildLoopP_cover` — preservation, for every step that does not restrict (`SquashCase.keep` / `.relax`):
  relaxed compilations, and any compilation that ends with `isExactField = true`.
* `stepLayerP_ne_none`, `buildLoopP_no_crash` — a pooled compilation in isolation, width ≥ 1, does not crash. -/
set_option linter.unusedSectionVars false
set_option linter.unusedVariables false
namespace Ddo.PCover
open Ddo Ddo.Pooled Ddo.Cover
variable {S K : Type} [DecidableEq S] [DecidableEq K]

/-! ## isolation -/

theorem fdOf_iso (cfg : Cfg S K) (pd : PD S K) (var : Nat) (hc : cfg.useCache = false) (hd : cfg.dom = none) :
    fdOf cfg pd var = (curNodes cfg pd var, List.range (curNodes cfg pd var).length, pd.store, true) := by
  have hfc : fcOf cfg pd var = (curNodes cfg pd var, List.range (curNodes cfg pd var).length) := by
    unfold fcOf
    split
    · rfl
    · exact filterCache_id cfg pd.cache _ _ hc (fun p hp => List.mem_range.mp hp)
  unfold fdOf
  rw [hfc]
  simp only [filterDom, hd]

/-- the three ways a layer can leave `_squash_if_needed` in isolation -/
theorem squashCase_iso {cfg : Cfg S K} {pd : PD S K} {var : Nat} (hc : cfg.useCache = false) (hd : cfg.dom = none)
    {layer : List (Node S)} {cur : List Nat} {ief : Bool} {log : List (Call S)}
    (h : SquashCase cfg pd.plain pd.layers.length pd.isExactField (fdOf cfg pd var) (impLog pd var) layer cur ief log) :
    SquashCase cfg pd.plain pd.layers.length pd.isExactField
      (curNodes cfg pd var, List.range (curNodes cfg pd var).length, pd.store, true) (impLog pd var) layer cur ief log := by
  rw [fdOf_iso cfg pd var hc hd] at h
  exact h

/-! ## children that join waiting nodes -/

/-- `Cover.NodeOk` with the source of the arcs looked up anywhere: `srcV l p` = value of the node at `(l, p)` -/
structure NodeOkG (srcV : Nat → Nat → Option Int) (B M : Int) (n : Node S) : Prop where
  att : ∃ a ∈ n.inb, ∃ v, srcV a.fromL a.fromP = some v ∧ n.value = satAdd v a.cost
  rng : Within (M + B) n.value
  arc : ∀ a ∈ n.inb, Within B a.cost

theorem appendEdge_okG_old (srcV : Nat → Nat → Option Int) (lidx pp : Nat) (B M : Int) (par n : Node S) (d : Dec) (c : Int)
    (hsrc : srcV lidx pp = some par.value) (hM : Within M par.value) (hc : Within B c) (hn : NodeOkG srcV B M n) :
    NodeOkG srcV B M (appendEdge par n ⟨lidx, pp, d, c⟩) := by
  obtain ⟨⟨a0, ha0, v0, hsv, hv0⟩, hr, harc⟩ := hn
  have harc' : ∀ a ∈ (appendEdge par n ⟨lidx, pp, d, c⟩).inb, Within B a.cost := by
    rw [appendEdge_inb]; intro a ha
    rcases List.mem_cons.mp ha with rfl | ha
    · exact hc
    · exact harc a ha
  rcases appendEdge_value par n ⟨lidx, pp, d, c⟩ with ⟨h1, _⟩ | ⟨h1, _⟩
  · refine ⟨⟨a0, ?_, v0, hsv, ?_⟩, ?_, harc'⟩
    · rw [appendEdge_inb]; exact List.mem_cons_of_mem _ ha0
    · rw [h1]; exact hv0
    · rw [h1]; exact hr
  · refine ⟨⟨⟨lidx, pp, d, c⟩, ?_, par.value, hsrc, ?_⟩, ?_, harc'⟩
    · rw [appendEdge_inb]; exact List.mem_cons_self
    · rw [h1]
    · rw [h1]; exact within_satAdd hM hc

theorem appendEdge_okG_fresh (srcV : Nat → Nat → Option Int) (lidx pp : Nat) (B M : Int) (par : Node S) (dst : S) (d : Dec)
    (c : Int) (hsrc : srcV lidx pp = some par.value) (hM : Within M par.value) (hc : Within B c) :
    NodeOkG srcV B M (appendEdge par (Cover.freshNode par dst c) ⟨lidx, pp, d, c⟩) := by
  have hv : (appendEdge par (Cover.freshNode par dst c) ⟨lidx, pp, d, c⟩).value = satAdd par.value c := by
    rcases appendEdge_value par (Cover.freshNode par dst c) ⟨lidx, pp, d, c⟩ with ⟨h1, h2⟩ | ⟨h1, _⟩
    · simp only [Cover.freshNode] at h2; omega
    · exact h1
  refine ⟨⟨⟨lidx, pp, d, c⟩, ?_, par.value, hsrc, ?_⟩, ?_, ?_⟩
  · rw [appendEdge_inb]; exact List.mem_cons_self
  · rw [hv]
  · rw [hv]; exact within_satAdd hM hc
  · rw [appendEdge_inb]; intro a ha
    rcases List.mem_cons.mp ha with rfl | ha
    · exact hc
    · simp only [Cover.freshNode] at ha; cases ha

theorem expandOne_okG (cfg : Cfg S K) (var lidx : Nat) (acc : List (Node S) × List (Node S) × List (Call S)) (p : Nat)
    (srcV : Nat → Nat → Option Int) (ks : List (S × Int)) (B M : Int) (hks : acc.1.map key = ks)
    (hsrc : ∀ q sv, ks[q]? = some sv → srcV lidx q = some sv.2) (hM : ∀ sv ∈ ks, Within M sv.2)
    (hcost : ∀ s d, d ∈ cfg.P.domain var s → Within B (cfg.P.cost s (cfg.P.trans s ⟨var, d⟩) ⟨var, d⟩))
    (hall : ∀ m ∈ acc.2.1, NodeOkG srcV B M m) :
    ∀ m ∈ (expandOne cfg var lidx acc p).2.1, NodeOkG srcV B M m := by
  obtain ⟨ly, nx, lg⟩ := acc
  cases h : ly[p]? with
  | none => rw [expandOne_none _ _ _ _ _ _ _ h]; exact hall
  | some n =>
    rw [expandOne_some _ _ _ _ _ _ _ n h]
    split
    · have hk : ks[p]? = some (key n) := by rw [getElem?_of_map_key ly ks hks p, h]; rfl
      have hMn : Within M n.value := hM _ (List.mem_of_getElem? hk)
      have hs : srcV lidx p = some n.value := hsrc p _ hk
      dsimp only at hall ⊢
      refine branchAll_forall (NodeOkG srcV B M) cfg var lidx p _ _ (nx, _) hall ?_ ?_
      · intro d hd m hm
        exact appendEdge_okG_old srcV lidx p B M _ m _ _ hs hMn (hcost n.state d hd) hm
      · intro d hd
        exact appendEdge_okG_fresh srcV lidx p B M _ _ _ _ hs hMn (hcost n.state d hd)
    · exact hall

theorem fold_okG (cfg : Cfg S K) (var lidx : Nat) (cur : List Nat) (acc : List (Node S) × List (Node S) × List (Call S))
    (srcV : Nat → Nat → Option Int) (ks : List (S × Int)) (B M : Int) (hks : acc.1.map key = ks)
    (hsrc : ∀ q sv, ks[q]? = some sv → srcV lidx q = some sv.2) (hM : ∀ sv ∈ ks, Within M sv.2)
    (hcost : ∀ s d, d ∈ cfg.P.domain var s → Within B (cfg.P.cost s (cfg.P.trans s ⟨var, d⟩) ⟨var, d⟩))
    (hall : ∀ m ∈ acc.2.1, NodeOkG srcV B M m) :
    ∀ m ∈ (cur.foldl (expandOne cfg var lidx) acc).2.1, NodeOkG srcV B M m := by
  induction cur generalizing acc with
  | nil => exact hall
  | cons y ys ih =>
    rw [List.foldl_cons]
    exact ih _ (by rw [expandOne_keys]; exact hks) (expandOne_okG cfg var lidx acc y srcV ks B M hks hsrc hM hcost hall)

/-- expanding positions of an empty layer does nothing to the pool -/
theorem fold_nil_layer (cfg : Cfg S K) (var lidx : Nat) (cur : List Nat) (rest : List (Node S)) (lg : List (Call S)) :
    (cur.foldl (expandOne cfg var lidx) (([] : List (Node S)), rest, lg)).1 = [] ∧
    (cur.foldl (expandOne cfg var lidx) (([] : List (Node S)), rest, lg)).2.1 = rest := by
  refine foldl_inv (β := List (Node S) × List (Node S) × List (Call S)) (fun acc => acc.1 = [] ∧ acc.2.1 = rest) _ _ _
    ⟨rfl, rfl⟩ ?_
  rintro ⟨ly, nx, lg'⟩ p _ ⟨h1, h2⟩
  dsimp only at h1 h2
  subst h1
  rw [expandOne_none _ _ _ _ _ _ _ (by simp)]
  exact ⟨rfl, h2⟩

/-! ## the loop invariant -/

/-- the invariant of `buildLoopP`: `Cover.Inv` with the pool in the place of the layer under construction -/
structure InvP (H : Nat → S → EInt) (V : Nat → S → Prop) (B o : Int) (pd : PD S K) : Prop where
  valid : ∀ n ∈ pd.pool, V pd.depth n.state
  cover : ∃ n ∈ pd.pool, ∃ h, H pd.depth n.state = some h ∧ o ≤ n.value + h
  att : pd.layers ≠ [] → ∀ n ∈ pd.pool, ∃ a ∈ n.inb, ∃ p, getNode pd.plain a.fromL a.fromP = some p ∧
    n.value = satAdd p.value a.cost
  arcs : ∀ n ∈ pd.pool, ∀ a ∈ n.inb, Within B a.cost
  rngN : ∀ n ∈ pd.pool, Within (Bd B pd.layers.length) n.value
  rngL : ∀ (i : Nat) ly, pd.plain[i]? = some ly → ∀ n ∈ ly, Within (Bd B i) n.value
  root0 : pd.layers = [] → pd.pool.length ≤ 1

theorem InvP.congr {H : Nat → S → EInt} {V : Nat → S → Prop} {B o : Int} {pd pd' : PD S K} (h : InvP H V B o pd)
    (hl : pd'.layers = pd.layers) (hn : pd'.pool = pd.pool) (hd : pd'.depth = pd.depth) : InvP H V B o pd' := by
  obtain ⟨a, b, c, d, e, f, g⟩ := h
  have hp : pd'.plain = pd.plain := by unfold PD.plain; rw [hl]
  exact ⟨by rw [hn, hd]; exact a, by rw [hn, hd]; exact b, by rw [hl, hn, hp]; exact c, by rw [hn]; exact d,
    by rw [hn, hl]; exact e, by rw [hp]; exact f, by rw [hn, hl]; exact g⟩

/-- the hypotheses the loop needs (no hypothesis on the compilation type: see `stepLayerP_cover`) -/
structure HypP (cfg : Cfg S K) (H : Nat → S → EInt) (V : Nat → S → Prop) (B o : Int) : Prop where
  cache : cfg.useCache = false
  dom : cfg.dom = none
  /-- the merge-free part of `WfRel` -/
  wfx : Truth.WfX cfg.P cfg.R H V
  /-- the merge clauses are only needed by relaxed compilations -/
  wfm : cfg.ctype = .relaxed → WfRel cfg.P cfg.R H V
  sk : SkipRel cfg.P H V
  B : NoClampDom cfg.P cfg.R cfg.root.value B
  clamp : ∀ x, o ≤ x → clamp x > cfg.lb

theorem mem_curNodes_iff {cfg : Cfg S K} {pd : PD S K} {var : Nat} {n : Node S} :
    n ∈ curNodes cfg pd var ↔ ∃ m ∈ pd.pool, cfg.P.impacted var m.state = true ∧ n = { m with depth := pd.depth } := by
  unfold curNodes
  rw [List.mem_map]
  constructor
  · rintro ⟨m, hm, rfl⟩
    obtain ⟨h1, h2⟩ := List.mem_filter.1 hm
    exact ⟨m, h1, h2, rfl⟩
  · rintro ⟨m, h1, h2, rfl⟩
    exact ⟨m, List.mem_filter.2 ⟨h1, h2⟩, rfl⟩

/-- what the expansion needs from the squashed layer (`Cover.SqPost`; the witness is asked for every node of the layer
    of impacted pool nodes whose potential reaches `o`) -/
structure SqPostP (cfg : Cfg S K) (H : Nat → S → EInt) (V : Nat → S → Prop) (B o : Int) (pd : PD S K) (var : Nat)
    (layer' : List (Node S)) (cur' : List Nat) : Prop where
  wit : ∀ u ∈ curNodes cfg pd var, ∀ h, H pd.depth u.state = some h → o ≤ u.value + h →
    ∃ q ∈ cur', ∃ n, layer'[q]? = some n ∧ V pd.depth n.state ∧ ∃ h', H pd.depth n.state = some h' ∧
      o ≤ n.value + h' ∧ AttAt cfg H pd.depth var n.state
  kids : ∀ q ∈ cur', ∀ n, layer'[q]? = some n → ∀ d ∈ cfg.P.domain var n.state,
    V (pd.depth + 1) (cfg.P.trans n.state ⟨var, d⟩)
  rng : ∀ n ∈ layer', Within (Bd B pd.layers.length) n.value

theorem curNodes_facts {cfg : Cfg S K} {H : Nat → S → EInt} {V : Nat → S → Prop} {B o : Int} {pd : PD S K} {var : Nat}
    (hI : InvP H V B o pd) {u : Node S} (hu : u ∈ curNodes cfg pd var) :
    u.state ∈ pd.pool.map (·.state) ∧ V pd.depth u.state ∧ Within (Bd B pd.layers.length) u.value ∧
    (∀ a ∈ u.inb, Within B a.cost) ∧
    (pd.layers ≠ [] → ∃ a ∈ u.inb, ∃ p, getNode pd.plain a.fromL a.fromP = some p ∧ u.value = satAdd p.value a.cost) := by
  obtain ⟨m, hm, _, rfl⟩ := mem_curNodes_iff.1 hu
  exact ⟨List.mem_map.2 ⟨m, hm, rfl⟩, hI.valid m hm, hI.rngN m hm, hI.arcs m hm, fun hne => hI.att hne m hm⟩

theorem sqpostP_id (cfg : Cfg S K) (H : Nat → S → EInt) (V : Nat → S → Prop) (B o : Int) (pd : PD S K) (var : Nat)
    (hwf : Truth.WfX cfg.P cfg.R H V) (hnv : cfg.P.nextVar pd.depth (pd.pool.map (·.state)) = some var)
    (hI : InvP H V B o pd) :
    SqPostP cfg H V B o pd var (curNodes cfg pd var) (List.range (curNodes cfg pd var).length) := by
  constructor
  · intro u hu h hH hle
    obtain ⟨hL, hV, _⟩ := curNodes_facts hI hu
    obtain ⟨q, hq⟩ := List.mem_iff_getElem?.mp hu
    refine ⟨q, mem_of_getElem?_range hq, u, hq, hV, h, hH, hle, ?_⟩
    intro h1 hH1
    exact hwf.att pd.depth _ var u.state h1 hnv hL hV hH1
  · intro q _ n hq d hd
    obtain ⟨hL, hV, _⟩ := curNodes_facts hI (List.mem_of_getElem? hq)
    exact hwf.vstep pd.depth _ var n.state d hnv hL hV hd
  · intro n hn
    exact (curNodes_facts hI hn).2.2.1

theorem srcOk_of_invP (cfg : Cfg S K) (H : Nat → S → EInt) (V : Nat → S → Prop) (B o : Int) (pd : PD S K)
    (hB : NoClampDom cfg.P cfg.R cfg.root.value B) (hI : InvP H V B o pd) :
    SrcOk cfg pd.plain B (Bd B pd.layers.length) := by
  constructor
  · intro l p src c hsrc hc
    obtain ⟨ly, hly, hp⟩ := Cover.getNode_lt hsrc
    have hw := hI.rngL l ly hly src (List.mem_of_getElem? hp)
    have hl := lt_of_getElem?_some hly
    have hpl := plain_length pd
    have := within_satAdd hw hc
    rw [← Bd_succ] at this
    exact this.mono (Bd_mono hB.nonneg (by omega))
  · intro s u m d c hc
    exact hB.relax s u m d c hc

theorem sqpostP_relax (cfg : Cfg S K) (H : Nat → S → EInt) (V : Nat → S → Prop) (B o : Int) (pd : PD S K) (var : Nat)
    (lg : List (Call S)) (hwf : WfRel cfg.P cfg.R H V)
    (hB : NoClampDom cfg.P cfg.R cfg.root.value B) (hW : 1 ≤ cfg.width)
    (hnv : cfg.P.nextVar pd.depth (pd.pool.map (·.state)) = some var)
    (hlen : pd.layers.length ≤ cfg.P.nbVars)
    (hc1 : (List.range (curNodes cfg pd var).length).length > cfg.width) (hc2 : pd.layers.length ≥ 2)
    (hI : InvP H V B o pd) :
    SqPostP cfg H V B o pd var
      (relaxLayer cfg pd.plain (curNodes cfg pd var) (List.range (curNodes cfg pd var).length) lg).1
      (relaxLayer cfg pd.plain (curNodes cfg pd var) (List.range (curNodes cfg pd var).length) lg).2.1 := by
  have hne : pd.layers ≠ [] := by intro h; rw [h] at hc2; simp at hc2
  generalize hL0 : curNodes cfg pd var = L0 at hc1 ⊢
  have hfacts : ∀ u ∈ L0, u.state ∈ pd.pool.map (·.state) ∧ V pd.depth u.state ∧ Within (Bd B pd.layers.length) u.value ∧
      (∀ a ∈ u.inb, Within B a.cost) ∧
      (∃ a ∈ u.inb, ∃ p, getNode pd.plain a.fromL a.fromP = some p ∧ u.value = satAdd p.value a.cost) := by
    intro u hu
    obtain ⟨h1, h2, h3, h4, h5⟩ := curNodes_facts hI (hL0 ▸ hu)
    exact ⟨h1, h2, h3, h4, h5 hne⟩
  have hcur : ∀ p ∈ List.range L0.length, p < L0.length := fun p hp => List.mem_range.mp hp
  have hpost := relaxLayer_spec cfg pd.plain L0 (List.range L0.length) lg hW hc1 hcur
  have hsrc := srcOk_of_invP cfg H V B o pd hB hI
  have hXne := restStates_ne_nil cfg L0 (List.range L0.length) hW hc1 hcur
  have hXsub : ∀ x ∈ restStatesOf cfg L0 (List.range L0.length), x ∈ pd.pool.map (·.state) := by
    intro x hx
    obtain ⟨n0, hn0, rfl⟩ := restStates_sub cfg L0 _ x hx
    exact (hfacts n0 hn0).1
  have hXV : ∀ x ∈ restStatesOf cfg L0 (List.range L0.length), V pd.depth x := by
    intro x hx
    obtain ⟨n0, hn0, rfl⟩ := restStates_sub cfg L0 _ x hx
    exact (hfacts n0 hn0).2.1
  have hVm : V pd.depth (mergedOf cfg L0 (List.range L0.length)) := hwf.vmerge pd.depth _ hXne hXV
  constructor
  · intro u hu h hH hle
    rw [hL0] at hu
    obtain ⟨huL, huV, _, huarcs, a, ha, p, hp, hv⟩ := hfacts u hu
    obtain ⟨q, hq⟩ := List.mem_iff_getElem?.mp hu
    obtain ⟨q', hq', n', hn', hT⟩ := hpost.transfer q (mem_of_getElem?_range hq) u hq
    refine ⟨q', hq', n', hn', ?_⟩
    rcases hT with ⟨hs, hv'⟩ | ⟨hX, hs, harc⟩
    · refine ⟨by rw [hs]; exact huV, h, by rw [hs]; exact hH, by omega, ?_⟩
      intro h1 hH1
      rw [hs] at hH1 ⊢
      exact hwf.att pd.depth _ var u.state h1 hnv huL huV hH1
    · obtain ⟨h', hH', hle'⟩ := hwf.merge pd.depth (restStatesOf cfg L0 (List.range L0.length)) u.state p.state
        a.dec a.cost h hX hXV hH
      have hge := harc a ha p hp
      have hac : Within B a.cost := huarcs a ha
      have hrc := hsrc.rel p.state u.state (mergedOf cfg L0 (List.range L0.length)) a.dec a.cost hac
      have hsmall : Bd B pd.layers.length ≤ 4611686018427387904 := Bd_small hB (by omega)
      obtain ⟨ly, hly, hpl⟩ := Cover.getNode_lt hp
      have hw := hI.rngL _ ly hly p (List.mem_of_getElem? hpl)
      have hl := lt_of_getElem?_some hly
      have hpl' := plain_length pd
      have hbd : Bd B a.fromL + B ≤ Bd B pd.layers.length := by
        rw [← Bd_succ]; exact Bd_mono hB.nonneg (by omega)
      have e1 : satAdd p.value a.cost = p.value + a.cost := by
        apply satAdd_eq <;> (unfold Within at hw hac; simp only [iMin, iMax]; omega)
      have e2 : satAdd p.value (cfg.R.relax p.state u.state (mergedOf cfg L0 (List.range L0.length)) a.dec a.cost)
          = p.value + cfg.R.relax p.state u.state (mergedOf cfg L0 (List.range L0.length)) a.dec a.cost := by
        apply satAdd_eq <;> (unfold Within at hw hrc; simp only [iMin, iMax]; omega)
      have hH'' : H pd.depth n'.state = some h' := by rw [hs]; exact hH'
      refine ⟨by rw [hs]; exact hVm, h', hH'', ?_, ?_⟩
      · rw [e2] at hge; rw [e1] at hv
        unfold mergedOf at hge
        omega
      · intro h1' hH1
        rw [hs] at hH1 ⊢
        exact hwf.attMerge pd.depth (pd.pool.map (·.state)) var _ h1' hnv hXne hXsub hXV hH1
  · intro q' _ n' hn' d hd
    rcases relaxLayer_states cfg pd.plain L0 (List.range L0.length) lg q' n' hn' with ⟨n0, hn0, hs⟩ | hs
    · rw [hs] at hd ⊢
      exact hwf.vstep pd.depth _ var n0.state d hnv (hfacts n0 hn0).1 (hfacts n0 hn0).2.1 hd
    · rw [hs] at hd ⊢
      exact hwf.vstepMerge pd.depth (pd.pool.map (·.state)) var _ d hnv hXne hXsub hXV hd
  · exact hpost.range B (Bd B pd.layers.length) hsrc (Bd_nonneg hB.nonneg _)
      ⟨fun n hn => ⟨(hfacts n hn).2.2.1, (hfacts n hn).2.2.2.1⟩, fun q _ u hu => by
        obtain ⟨_, _, _, _, a, ha, p, hp, _⟩ := hfacts u (List.mem_of_getElem? hu)
        exact ⟨a, ha, p, hp⟩⟩

/-! ## one step -/

theorem getNode_value_congr (plain : List (List (Node S))) {ly ly' : List (Node S)} (hk : ly'.map key = ly.map key)
    (l p : Nat) : (getNode (plain ++ [ly']) l p).map (·.value) = (getNode (plain ++ [ly]) l p).map (·.value) := by
  unfold getNode
  rcases Nat.lt_trichotomy l plain.length with hlt | heq | hgt
  · rw [List.getElem?_append_left hlt, List.getElem?_append_left hlt]
  · subst heq
    rw [List.getElem?_concat_length, List.getElem?_concat_length]
    dsimp only
    have h1 := getElem?_of_map_key ly' _ hk p
    have h2 := getElem?_of_map_key ly _ rfl p
    rw [h2] at h1
    cases ha : ly'[p]? <;> cases hb : ly[p]? <;> rw [ha, hb] at h1 <;>
      simp only [Option.map_none, Option.map_some, Option.some.injEq, reduceCtorEq] at h1 ⊢
    exact (congrArg Prod.snd h1).symm
  · rw [List.getElem?_eq_none (by rw [List.length_append, List.length_singleton]; omega),
      List.getElem?_eq_none (by rw [List.length_append, List.length_singleton]; omega)]

/-- **one step of the pooled loop preserves the coverage invariant**, provided the step does not restrict the layer:
    the compilation is relaxed, or `isExactField` is still set afterwards -/
theorem stepLayerP_cover (cfg : Cfg S K) (H : Nat → S → EInt) (V : Nat → S → Prop) (B o : Int) (hy : HypP cfg H V B o)
    (pd pd' : PD S K) (var : Nat) (hnv : cfg.P.nextVar pd.depth (pd.pool.map (·.state)) = some var)
    (hlen : pd.layers.length ≤ cfg.P.nbVars) (hI : InvP H V B o pd)
    (h : stepLayerP cfg pd var = some pd') (hnr : cfg.ctype = .relaxed ∨ pd'.isExactField = true) :
    InvP H V B o pd' ∧ pd'.layers.length ≤ pd.layers.length + 1 := by
  obtain ⟨layer, cur, ief, log, hs⟩ := stepLayerP_elim cfg pd pd' var h
  have hsq := squashCase_iso hy.cache hy.dom hs.sq
  have hlayLen := squashCase_length cfg pd var layer cur ief log hs.sq
  have hpl := plain_length pd
  -- the squashed layer
  have hpost : SqPostP cfg H V B o pd var layer cur := by
    cases hsq with
    | restrict hc _ _ _ _ hief =>
      rcases hnr with h1 | h1
      · rw [h1] at hc; cases hc
      · rw [hs.ief, hief] at h1; cases h1
    | relax hrel hc1 hc2 hW hl hcu _ _ =>
      dsimp only at hc1 hl hcu
      rw [hl, hcu]
      exact sqpostP_relax cfg H V B o pd var _ (hy.wfm hrel) hy.B hW hnv hlen hc1 hc2 hI
    | keep _ _ hl hcu _ _ =>
      dsimp only at hl hcu
      rw [hl, hcu]
      exact sqpostP_id cfg H V B o pd var hy.wfx hnv hI
  have hskipV : ∀ m ∈ restNodes cfg pd var, V (pd.depth + 1) m.state := by
    intro m hm
    obtain ⟨hmp, himp⟩ := mem_restNodes hm
    exact hy.sk.vskip pd.depth _ var m.state hnv (List.mem_map_of_mem hmp) (hI.valid m hmp) himp
  have hskipH : ∀ m ∈ restNodes cfg pd var, ∀ h, H pd.depth m.state = some h →
      ∃ h', H (pd.depth + 1) m.state = some h' ∧ h ≤ h' := by
    intro m hm h hH
    obtain ⟨hmp, himp⟩ := mem_restNodes hm
    have := hy.sk.up pd.depth _ var m.state hnv (List.mem_map_of_mem hmp) (hI.valid m hmp) himp
    rw [hH] at this
    cases hH' : H (pd.depth + 1) m.state with
    | none => rw [hH'] at this; exact absurd this (by simp)
    | some h' => rw [hH'] at this; exact ⟨h', rfl, by simpa using this⟩
  have hcost : ∀ s d, d ∈ cfg.P.domain var s → Within B (cfg.P.cost s (cfg.P.trans s ⟨var, d⟩) ⟨var, d⟩) :=
    fun s d hd => hy.B.cost var s d hd
  by_cases hcn : curNodes cfg pd var = []
  · -- nothing is impacted: no layer, the pool waits one depth further
    have hlayer : layer = [] ∧ cur = [] := by
      cases hsq with
      | restrict _ hc1 _ _ _ _ => dsimp only at hc1; rw [hcn] at hc1; simp at hc1
      | relax _ hc1 _ _ _ _ _ _ => dsimp only at hc1; rw [hcn] at hc1; simp at hc1
      | keep _ _ hl hcu _ _ => dsimp only at hl hcu; rw [hcn] at hl hcu; exact ⟨hl, hcu⟩
    obtain ⟨rfl, rfl⟩ := hlayer
    have hrest : restNodes cfg pd var = pd.pool := by
      unfold restNodes
      rw [List.filter_eq_self]
      intro m hm
      cases hi : cfg.P.impacted var m.state with
      | false => rfl
      | true =>
        exfalso
        have : ({ m with depth := pd.depth } : Node S) ∈ curNodes cfg pd var := mem_curNodes_iff.2 ⟨m, hm, hi, rfl⟩
        rw [hcn] at this; cases this
    have hlayers : pd'.layers = pd.layers := by rw [hs.layers]; simp [expF]
    have hpool : pd'.pool = pd.pool := by rw [hs.pool]; simp [expF, hrest]
    have hplain : pd'.plain = pd.plain := by unfold PD.plain; rw [hlayers]
    rw [hrest] at hskipV hskipH
    refine ⟨⟨?_, ?_, ?_, ?_, ?_, ?_, ?_⟩, by rw [hlayers]; omega⟩
    · rw [hpool, hs.depth]; exact hskipV
    · obtain ⟨n, hn, h0, hH, hle⟩ := hI.cover
      obtain ⟨h', hH', hle'⟩ := hskipH n hn h0 hH
      exact ⟨n, by rw [hpool]; exact hn, h', by rw [hs.depth]; exact hH', by omega⟩
    · rw [hlayers, hpool, hplain]; exact hI.att
    · rw [hpool]; exact hI.arcs
    · rw [hpool, hlayers]; exact hI.rngN
    · rw [hplain]; exact hI.rngL
    · rw [hlayers, hpool]; exact hI.root0
  · -- a layer is materialised
    have hlne : layer ≠ [] := by
      intro hl; rw [hl] at hlayLen
      cases hc : curNodes cfg pd var with
      | nil => exact hcn hc
      | cons _ _ => rw [hc] at hlayLen; simp at hlayLen
    have hrest0 : pd.layers = [] → restNodes cfg pd var = [] := by
      intro hl0
      have h1 := hI.root0 hl0
      cases hpo : pd.pool with
      | nil => unfold restNodes; rw [hpo]; rfl
      | cons m t =>
        rw [hpo] at h1
        have ht : t = [] := by
          cases t with
          | nil => rfl
          | cons _ _ => simp at h1
        subst ht
        unfold restNodes
        rw [hpo]
        cases hi : cfg.P.impacted var m.state with
        | true => simp [hi]
        | false =>
          exfalso
          apply hcn
          unfold curNodes
          rw [hpo]
          simp [hi]
    have hlayers := hs.layers
    have hplain := hs.plain
    have hpool := hs.pool
    unfold expF at hlayers hplain hpool
    have hkeys := fold_keys cfg var pd.layers.length cur (layer, restNodes cfg pd var, log)
    -- the pool after the expansion
    have hokG : ∀ m ∈ (cur.foldl (expandOne cfg var pd.layers.length) (layer, restNodes cfg pd var, log)).2.1,
        NodeOkG (fun l p => (getNode (pd.plain ++ [layer]) l p).map (·.value)) B (Bd B pd.layers.length) m := by
      refine fold_okG cfg var pd.layers.length cur (layer, restNodes cfg pd var, log) _ (layer.map key) B
        (Bd B pd.layers.length) rfl ?_ ?_ hcost ?_
      · intro q sv hq
        rw [← hpl, getNode_last]
        rw [List.getElem?_map] at hq
        cases hlq : layer[q]? with
        | none => rw [hlq] at hq; cases hq
        | some n0 =>
          rw [hlq] at hq
          simp only [Option.map_some, Option.some.injEq] at hq
          rw [← hq]; rfl
      · intro sv hsv
        obtain ⟨n, hn, rfl⟩ := List.mem_map.mp hsv
        exact hpost.rng n hn
      · intro m hm
        dsimp only at hm
        obtain ⟨hmp, _⟩ := mem_restNodes hm
        have hne : pd.layers ≠ [] := by
          intro hl0; rw [hrest0 hl0] at hm; cases hm
        obtain ⟨a, ha, p, hp, hv⟩ := hI.att hne m hmp
        refine ⟨⟨a, ha, p.value, ?_, hv⟩, ?_, hI.arcs m hmp⟩
        · rw [getNode_append_left _ _ _ _ _ hp]; rfl
        · have := hI.rngN m hmp
          have hB0 := hy.B.nonneg
          unfold Within at this ⊢; omega
    have hvalid : ∀ m ∈ (cur.foldl (expandOne cfg var pd.layers.length) (layer, restNodes cfg pd var, log)).2.1,
        V (pd.depth + 1) m.state := by
      refine fold_states (V (pd.depth + 1)) cfg var pd.layers.length cur (layer, restNodes cfg pd var, log)
        (layer.map key) rfl ?_ hskipV
      intro p hp sv hsv d hdm
      rw [List.getElem?_map] at hsv
      cases hlp : layer[p]? with
      | none => rw [hlp] at hsv; cases hsv
      | some n0 =>
        rw [hlp] at hsv
        simp only [Option.map_some, Option.some.injEq] at hsv
        subst hsv
        exact hpost.kids p hp n0 hlp d hdm
    have hcover : ∃ m ∈ (cur.foldl (expandOne cfg var pd.layers.length) (layer, restNodes cfg pd var, log)).2.1,
        ∃ h, H (pd.depth + 1) m.state = some h ∧ o ≤ m.value + h := by
      obtain ⟨n0, hn0, h0, hH0, hle0⟩ := hI.cover
      cases hi : cfg.P.impacted var n0.state with
      | true =>
        have hu : ({ n0 with depth := pd.depth } : Node S) ∈ curNodes cfg pd var := mem_curNodes_iff.2 ⟨n0, hn0, hi, rfl⟩
        obtain ⟨q, hq, n, hnq, hVn, h, hH, hle, hatt⟩ := hpost.wit _ hu h0 hH0 hle0
        obtain ⟨d, hdm, h', hH', hle'⟩ := hatt h hH
        have hrub : satAdd (cfg.R.rub n.state) n.value > cfg.lb := by
          unfold satAdd; apply hy.clamp
          have := hy.wfx.rub _ _ _ hVn hH; omega
        obtain ⟨m, hm, hms, hmv⟩ := fold_has_new cfg var pd.layers.length cur (layer, restNodes cfg pd var, log) q hq
          n.state n.value (by rw [List.getElem?_map, hnq]; rfl) hrub d hdm
        have hw := hpost.rng n (List.mem_of_getElem? hnq)
        have hc := hcost n.state d hdm
        have hsmall : Bd B pd.layers.length + B ≤ 4611686018427387904 := by
          rw [← Bd_succ]; exact Bd_small hy.B (by omega)
        have hsa : satAdd n.value (cfg.P.cost n.state (cfg.P.trans n.state ⟨var, d⟩) ⟨var, d⟩) =
            n.value + cfg.P.cost n.state (cfg.P.trans n.state ⟨var, d⟩) ⟨var, d⟩ := by
          apply satAdd_eq <;> (unfold Within at hw hc; simp only [iMin, iMax]; omega)
        refine ⟨m, hm, h', by rw [hms]; exact hH', ?_⟩
        omega
      | false =>
        have hr : n0 ∈ restNodes cfg pd var := by
          unfold restNodes; exact List.mem_filter.2 ⟨hn0, by simp [hi]⟩
        obtain ⟨h', hH', hle'⟩ := hskipH n0 hr h0 hH0
        obtain ⟨m, hm, hms, hmv⟩ := fold_has_mono cfg var pd.layers.length cur (layer, restNodes cfg pd var, log)
          n0.state n0.value ⟨n0, hr, rfl, Int.le_refl _⟩
        exact ⟨m, hm, h', by rw [hms]; exact hH', by omega⟩
    generalize cur.foldl (expandOne cfg var pd.layers.length) (layer, restNodes cfg pd var, log) = r
      at hlayers hplain hpool hkeys hokG hvalid hcover
    dsimp only at hkeys
    have hrlen : r.1.length = layer.length := by
      have := congrArg List.length hkeys; simpa using this
    have hnemp : r.1.isEmpty = false := by
      cases hr : r.1 with
      | nil =>
        rw [hr] at hrlen
        cases hl : layer with
        | nil => exact absurd hl hlne
        | cons _ _ => rw [hl] at hrlen; simp at hrlen
      | cons _ _ => rfl
    rw [hnemp] at hlayers hplain
    simp only [Bool.false_eq_true, if_false] at hlayers hplain
    have hlen' : pd'.layers.length = pd.layers.length + 1 := by
      rw [hlayers, List.length_append, List.length_singleton]
    refine ⟨⟨?_, ?_, ?_, ?_, ?_, ?_, ?_⟩, by omega⟩
    · rw [hpool, hs.depth]; exact hvalid
    · rw [hpool, hs.depth]; exact hcover
    · intro _ m hm
      rw [hpool] at hm
      obtain ⟨a, ha, v, hv, hval⟩ := (hokG m hm).att
      rw [← getNode_value_congr pd.plain hkeys, ← hplain] at hv
      cases hg : getNode pd'.plain a.fromL a.fromP with
      | none => rw [hg] at hv; cases hv
      | some p =>
        rw [hg] at hv
        simp only [Option.map_some, Option.some.injEq] at hv
        exact ⟨a, ha, p, hg, by rw [hv]; exact hval⟩
    · intro m hm
      rw [hpool] at hm
      exact (hokG m hm).arc
    · intro m hm
      rw [hpool] at hm
      rw [hlen', Bd_succ]
      exact (hokG m hm).rng
    · intro i ly hi m hm
      rw [hplain] at hi
      rcases getElem?_append_singleton_cases hi with hi | ⟨rfl, rfl⟩
      · exact hI.rngL i ly hi m hm
      · have : key m ∈ layer.map key := by rw [← hkeys]; exact List.mem_map_of_mem hm
        obtain ⟨n0, hn0, hk0⟩ := List.mem_map.mp this
        have hv : n0.value = m.value := congrArg Prod.snd hk0
        rw [← hv, hpl]
        exact hpost.rng n0 hn0
    · intro hl0; rw [hlayers] at hl0; simp at hl0

/-! ## the loop -/

/-- `isExactField` is only ever cleared -/
theorem stepLayerP_ief (cfg : Cfg S K) (pd pd' : PD S K) (var : Nat) (h : stepLayerP cfg pd var = some pd')
    (he : pd'.isExactField = true) : pd.isExactField = true := by
  obtain ⟨layer, cur, ief, log, hs⟩ := stepLayerP_elim cfg pd pd' var h
  rw [hs.ief] at he
  cases hs.sq with
  | restrict _ _ _ _ _ hief => rw [hief] at he; cases he
  | relax _ _ _ _ _ _ _ hief => rw [hief] at he; cases he
  | keep _ _ _ _ _ hief => rw [hief] at he; exact he

theorem buildLoopP_ief (cfg : Cfg S K) (stopAt : Option Nat) :
    ∀ (fuel : Nat) (pd : PD S K), (buildLoopP cfg stopAt fuel pd).1.isExactField = true → pd.isExactField = true := by
  intro fuel
  induction fuel with
  | zero => intro pd h; exact h
  | succ fuel ih =>
    intro pd h
    cases buildLoopP_cases cfg stopAt fuel pd with
    | none _ hb => rw [hb] at h; exact h
    | cutoff _ _ hb => rw [hb] at h; exact h
    | empty _ _ _ hb => rw [hb] at h; exact h
    | crash _ _ _ hb => rw [hb] at h; exact h
    | step var pd' _ _ hst hb =>
      rw [hb] at h
      exact stepLayerP_ief cfg (polled cfg pd) pd' var hst (ih pd' h)

/-- **the coverage invariant along the pooled loop**: at a normal exit some pool node (a terminal node) has value `≥ o`,
    for a relaxed compilation, and for any compilation that ends with `isExactField` still set -/
theorem buildLoopP_cover (cfg : Cfg S K) (H : Nat → S → EInt) (V : Nat → S → Prop) (B o : Int) (hy : HypP cfg H V B o)
    (stopAt : Option Nat) :
    ∀ (fuel : Nat) (pd : PD S K), InvP H V B o pd → pd.layers.length + fuel ≤ cfg.P.nbVars + 2 →
      (buildLoopP cfg stopAt fuel pd).2 = .ok →
      (cfg.ctype = .relaxed ∨ (buildLoopP cfg stopAt fuel pd).1.isExactField = true) →
      ∃ n ∈ (buildLoopP cfg stopAt fuel pd).1.pool, o ≤ n.value := by
  intro fuel
  induction fuel with
  | zero => intro pd _ _ h; cases h
  | succ fuel ih =>
    intro pd hI hlen hok hnr
    cases buildLoopP_cases cfg stopAt fuel pd with
    | none hnv hb =>
      rw [hb]
      obtain ⟨n, hn, h, hH, hle⟩ := hI.cover
      have := hy.wfx.term pd.depth _ n.state h hnv (List.mem_map_of_mem hn) (hI.valid n hn) hH
      exact ⟨n, hn, by omega⟩
    | cutoff _ _ hb => rw [hb] at hok; cases hok
    | empty _ _ hemp hb =>
      obtain ⟨n, hn, _⟩ := hI.cover
      rw [hemp] at hn; cases hn
    | crash _ _ _ hb => rw [hb] at hok; cases hok
    | step var pd' hnv _ hst hb =>
      rw [hb] at hok hnr ⊢
      cases fuel with
      | zero => cases hok
      | succ fuel' =>
        have hI2 : InvP H V B o (polled cfg pd) := hI.congr rfl rfl rfl
        have hnr' : cfg.ctype = .relaxed ∨ pd'.isExactField = true :=
          hnr.imp id (fun h => buildLoopP_ief cfg stopAt _ pd' h)
        obtain ⟨hI', hl'⟩ := stepLayerP_cover cfg H V B o hy (polled cfg pd) pd' var hnv
          (by show pd.layers.length ≤ _; omega) hI2 hst hnr'
        exact ih pd' hI' (by have : (polled cfg pd).layers.length = pd.layers.length := rfl; omega) hok hnr

theorem initPD_invP (cfg : Cfg S K) (H : Nat → S → EInt) (V : Nat → S → Prop) (B o : Int) (cache : Cache S)
    (store : DomStore S K) (polls : Nat) (hV : V cfg.root.depth cfg.root.state)
    (hB : NoClampDom cfg.P cfg.R cfg.root.value B) (ho : optOf H cfg.root = some o) :
    InvP H V B o (initPD cfg cache store polls) := by
  unfold optOf EInt.addI at ho
  cases hH : H cfg.root.depth cfg.root.state with
  | none => rw [hH] at ho; cases ho
  | some h0 =>
    rw [hH] at ho
    simp only [Option.map_some, Option.some.injEq] at ho
    refine ⟨?_, ?_, ?_, ?_, ?_, ?_, ?_⟩
    · intro n hn
      simp only [initPD, List.mem_cons, List.not_mem_nil, or_false] at hn
      subst hn
      exact hV
    · refine ⟨_, List.mem_cons_self, h0, hH, ?_⟩
      show o ≤ cfg.root.value + h0
      omega
    · intro h; exact absurd rfl h
    · intro n hn a ha
      simp only [initPD, List.mem_cons, List.not_mem_nil, or_false] at hn
      subst hn; cases ha
    · intro n hn
      simp only [initPD, List.mem_cons, List.not_mem_nil, or_false] at hn
      subst hn
      have := hB.root
      simp only [initPD, List.length_nil, Bd, Within]
      omega
    · intro i ly hi
      simp [initPD, PD.plain] at hi
    · intro _; simp [initPD]

theorem maxValue_termsP_ge (pd : PD S K) (n : Node S) (hn : n ∈ pd.pool) :
    ∃ bv, maxValue (termsP pd) = some bv ∧ n.value ≤ bv := by
  have : ({ n with depth := pd.depth } : Node S) ∈ termsP pd := List.mem_map.2 ⟨n, hn, rfl⟩
  exact maxValue_ge _ { n with depth := pd.depth } this

/-- **`bestValue ≥ o`** for a pooled compilation in isolation that ends normally: relaxed, or exact to the end -/
theorem compileP_cover (cfg : Cfg S K) (H : Nat → S → EInt) (V : Nat → S → Prop) (B o : Int) (hy : HypP cfg H V B o)
    (cache : Cache S) (store : DomStore S K) (polls : Nat) (stopAt : Option Nat)
    (hV : V cfg.root.depth cfg.root.state) (ho : optOf H cfg.root = some o)
    (hok : (compileP cfg cache store polls stopAt).1 = .ok)
    (hnr : cfg.ctype = .relaxed ∨ (compileP cfg cache store polls stopAt).2.2.2.isExactField = true) :
    ∃ bv, maxValue (termsP (compileP cfg cache store polls stopAt).2.2.2) = some bv ∧ o ≤ bv := by
  rw [compileP_outcome] at hok
  rw [compileP_pd] at hnr ⊢
  obtain ⟨n, hn, hle⟩ := buildLoopP_cover cfg H V B o hy stopAt (cfg.P.nbVars + 2) (initPD cfg cache store polls)
    (initPD_invP cfg H V B o cache store polls hV hy.B ho) (by simp [initPD]) hok hnr
  obtain ⟨bv, h1, h2⟩ := maxValue_termsP_ge _ n hn
  exact ⟨bv, h1, by omega⟩

/-! ## no crash -/

theorem buildLoopP_none_succ (cfg : Cfg S K) (fuel : Nat) (pd : PD S K) :
    buildLoopP cfg none (fuel + 1) pd =
      match cfg.P.nextVar pd.depth (pd.pool.map (·.state)) with
      | none => (logNV cfg pd, .ok)
      | some var =>
        if pd.pool.isEmpty = true then (polled cfg pd, Outcome.ok)
        else match stepLayerP cfg (polled cfg pd) var with
          | none => (polled cfg pd, Outcome.crash)
          | some pd' => buildLoopP cfg none fuel pd' := by
  cases hnv : cfg.P.nextVar pd.depth (pd.pool.map (·.state)) with
  | none =>
    conv => lhs; unfold buildLoopP
    simp only [hnv, logNV]
  | some var =>
    conv => lhs; unfold buildLoopP
    simp only [hnv, logNV, polled, Bool.false_eq_true, if_false]
    rfl

/-- in isolation, with a width `≥ 1`, `_move_to_next_layer` does not panic -/
theorem stepLayerP_ne_none (cfg : Cfg S K) (pd : PD S K) (var : Nat) (hc : cfg.useCache = false) (hd : cfg.dom = none)
    (hW : 1 ≤ cfg.width) : stepLayerP cfg pd var ≠ none := by
  have hw0 : (cfg.width == 0) = false := by
    cases h : cfg.width with
    | zero => omega
    | succ n => rfl
  have hp : prepLayerP cfg pd var ≠ none := by
    rw [prepLayerP_eq, fdOf_iso cfg pd var hc hd]
    unfold prepCore
    simp [hw0]
  unfold stepLayerP
  cases h : prepLayerP cfg pd var with
  | none => exact absurd h hp
  | some t => obtain ⟨a, b, c, d, e, f⟩ := t; simp

theorem stepLayerP_depth (cfg : Cfg S K) (pd pd' : PD S K) (var : Nat) (h : stepLayerP cfg pd var = some pd') :
    pd'.depth = pd.depth + 1 := by
  obtain ⟨layer, cur, ief, log, hs⟩ := stepLayerP_elim cfg pd pd' var h
  exact hs.depth

/-- **no crash**: the pooled loop without cutoff, in isolation, width `≥ 1`, ends normally — at the latest when
    `next_variable` answers `None` at depth `nb_variables` (`NvB`) -/
theorem buildLoopP_no_crash (cfg : Cfg S K) (hc : cfg.useCache = false) (hd : cfg.dom = none) (hW : 1 ≤ cfg.width)
    (hNV : ∀ k L, cfg.P.nbVars ≤ k → cfg.P.nextVar k L = none) :
    ∀ (fuel : Nat) (pd : PD S K), pd.depth ≤ cfg.P.nbVars → cfg.P.nbVars + 1 ≤ pd.depth + fuel →
      (buildLoopP cfg none fuel pd).2 = .ok := by
  intro fuel
  induction fuel with
  | zero => intro pd h1 h2; omega
  | succ fuel ih =>
    intro pd h1 h2
    rw [buildLoopP_none_succ]
    cases hnv : cfg.P.nextVar pd.depth (pd.pool.map (·.state)) with
    | none => rfl
    | some var =>
      have hlt : pd.depth < cfg.P.nbVars := by
        by_cases hk : cfg.P.nbVars ≤ pd.depth
        · rw [hNV _ _ hk] at hnv; cases hnv
        · omega
      dsimp only
      split
      · rfl
      · cases hst : stepLayerP cfg (polled cfg pd) var with
        | none => exact absurd hst (stepLayerP_ne_none cfg _ var hc hd hW)
        | some pd' =>
          dsimp only
          have hdep := stepLayerP_depth cfg _ pd' var hst
          have hpd : (polled cfg pd).depth = pd.depth := rfl
          exact ih pd' (by omega) (by omega)

theorem compileP_no_crash (cfg : Cfg S K) (cache : Cache S) (store : DomStore S K) (polls : Nat)
    (hc : cfg.useCache = false) (hd : cfg.dom = none) (hW : 1 ≤ cfg.width)
    (hNV : ∀ k L, cfg.P.nbVars ≤ k → cfg.P.nextVar k L = none)
    (hdepth : cfg.root.depth ≤ cfg.P.nbVars) : (compileP cfg cache store polls none).1 = .ok := by
  rw [compileP_outcome]
  refine buildLoopP_no_crash cfg hc hd hW hNV _ _ hdepth ?_
  show cfg.P.nbVars + 1 ≤ cfg.root.depth + (cfg.P.nbVars + 2); omega

/-! ## a compilation that ends with `isExactField` set holds exact nodes only -/

theorem stepLayerP_allEx (cfg : Cfg S K) (pd pd' : PD S K) (var : Nat) (h : stepLayerP cfg pd var = some pd')
    (he : pd'.isExactField = true) (hall : ∀ n ∈ pd.pool, n.isExact = true) : ∀ n ∈ pd'.pool, n.isExact = true := by
  obtain ⟨layer, cur, ief, log, hs⟩ := stepLayerP_elim cfg pd pd' var h
  rw [hs.ief] at he
  have hlayer : ∀ n ∈ layer, n.isExact = true := by
    cases hs.sq with
    | restrict _ _ _ _ _ hief => rw [hief] at he; cases he
    | relax _ _ _ _ _ _ _ hief => rw [hief] at he; cases he
    | keep _ _ hl _ _ _ =>
      intro n hn
      rw [hl] at hn
      obtain ⟨n0, h0, he0, _⟩ := fdOf_subS cfg pd var n hn
      rw [← he0]
      obtain ⟨m, hm, _, rfl⟩ := mem_curNodes_iff.1 h0
      exact hall m hm
  have hrest : ∀ n ∈ restNodes cfg pd var, n.isExact = true := fun n hn => hall n (mem_restNodes hn).1
  rw [hs.pool]
  unfold expF
  exact (foldl_inv (β := List (Node S) × List (Node S) × List (Call S))
    (fun acc => (∀ n ∈ acc.1, n.isExact = true) ∧ ∀ c ∈ acc.2.1, c.isExact = true) _ _ _ ⟨hlayer, hrest⟩
    (fun acc p _ h => expandOne_allEx cfg var pd.layers.length acc p h.1 h.2)).2

theorem buildLoopP_allEx (cfg : Cfg S K) (stopAt : Option Nat) :
    ∀ (fuel : Nat) (pd : PD S K), (buildLoopP cfg stopAt fuel pd).1.isExactField = true →
      (∀ n ∈ pd.pool, n.isExact = true) → ∀ n ∈ (buildLoopP cfg stopAt fuel pd).1.pool, n.isExact = true := by
  intro fuel
  induction fuel with
  | zero => intro pd _ h; exact h
  | succ fuel ih =>
    intro pd he hall
    cases buildLoopP_cases cfg stopAt fuel pd with
    | none _ hb => rw [hb]; exact hall
    | cutoff _ _ hb => rw [hb]; exact hall
    | empty _ _ _ hb => rw [hb]; exact hall
    | crash _ _ _ hb => rw [hb]; exact hall
    | step var pd' _ _ hst hb =>
      rw [hb] at he ⊢
      exact ih pd' he (stepLayerP_allEx cfg (polled cfg pd) pd' var hst (buildLoopP_ief cfg stopAt _ pd' he) hall)

/-- the terminal nodes of a pooled compilation that ends with `isExactField` set are all exact -/
theorem compileP_allEx (cfg : Cfg S K) (cache : Cache S) (store : DomStore S K) (polls : Nat) (stopAt : Option Nat)
    (he : (compileP cfg cache store polls stopAt).2.2.2.isExactField = true) :
    ∀ n ∈ (compileP cfg cache store polls stopAt).2.2.2.pool, n.isExact = true := by
  rw [compileP_pd] at he ⊢
  refine buildLoopP_allEx cfg stopAt _ _ he ?_
  intro n hn
  simp only [initPD, List.mem_singleton] at hn
  subst hn; rfl

end Ddo.PCover
