import DdoModel.Proofs.NoCapInv
/-! C09 / D14 — the **concrete** no-cap caching solver (`SolverCfg.kturnNC`, `Proofs/NoCapDefs.lean`) over the diagram model:
the loop invariant `KInvSt` of `Proofs/CacheClosedSolver.lean` — the *same* invariant as for the best-first capped solver —
is preserved by one turn **whatever node of the fringe is popped** (`kturnNC_inv`): the turn does not panic (both compilations
end normally, every cache access is in range), the new state satisfies the invariant, and the sequential state makes a
`StepNC` (the termination measure of `Props/C01t.lean` decreases).

The proofs are those of `kprocess_inv` / `kturn_inv` with `processC_inv_nocap` (`Proofs/NoCapInv.lean`) in the place of
`processC_inv_any`; the contracts `CompC` of the two compilations are discharged from the diagram model exactly as there
(`compC_restricted_of_model`, `compC_relaxed_of_model`: they never depended on the cap). -/
set_option linter.unusedSectionVars false
set_option linter.unusedVariables false
namespace Ddo.C09
open Ddo Ddo.C01 Ddo.Closed Ddo.Truth
variable {S : Type} [DecidableEq S]

/-- **the no-cap `process_one_node` with the cache preserves the invariant `KInvSt` and does not panic, whatever node was
    popped**: `st` = the popped state, `N` in hand (**any** node of the fringe), `c0` the cache.  (`kprocess_inv` of
    `Proofs/CacheClosedSolver.lean` without the best-first hypothesis `hbf`; the coverage part is `processC_inv_nocap`.) -/
theorem kprocessNC_inv {sv : SolverCfg S} {H : Nat → S → EInt} {B0 B : Int} (hwf : WellFormed sv H B0 B)
    (st : SeqSt S) (c0 : Cache S) (N : SubP S)
    (hN : C01.NodeOk sv.P N) (hnodes : ∀ c ∈ st.fringe, C01.NodeOk sv.P c) (hlbLo : iMin ≤ st.bestLb)
    (hsolLb : st.bestSol = none → st.bestLb = iMin) (hab : st.abort = false)
    (hfeas : ∀ opt, (H 0 sv.P.init).addI sv.P.initVal = some opt →
      CInvC H opt (SolOf sv.P) (RgB B) (N :: st.fringe) (viewOf c0) st.bestLb st.bestSol)
    (hinf : (H 0 sv.P.init).addI sv.P.initVal = none → st.bestLb = iMin ∧ st.bestSol = none)
    (hclen : c0.layers.length = sv.P.nbVars + 1)
    (hlay : LayersOk sv.P.nbVars st.openByLayer st.fringe) (hcr : st.crashed = false) :
    ∃ (t : KSt S) (me : Bool) (r x : DDRes S), sv.kprocessNC st c0 N = some t ∧ t.st = (st.processNC sv.dedup N me r x).1 ∧
      (∀ o, x = .ok o → ∀ c ∈ o.cutset, N.depth < c.depth ∧ c.depth ≤ sv.P.nbVars) ∧ KInvSt sv H B t := by
  obtain ⟨p0, hroot, hperm⟩ := hN
  have hdN : N.depth ≤ sv.P.nbVars := reach_depth_le hwf.nv hroot
  have hBN : NoClamp sv.P sv.R N.value B := hwf.bound.noClamp_at hwf.nv hroot
  have hBs := hwf.bound.B_small
  have hlbB : st.bestLb ≤ B := kinv_lb_le hwf hfeas hinf
  obtain ⟨hlb1, hlb2⟩ := lb_range hBs hlbB hlbLo
  have hme := mustExplore_view c0 N (by omega)
  -- the invariant when the node is dropped
  have hdrop : (∀ x, x > st.bestLb → x ≤ N.ub → ¬ prunM (viewOf c0) N → False) → KInvSt sv H B ⟨st, c0⟩ := by
    intro hno
    exact ⟨hnodes, hlbLo, hsolLb, hab,
      fun opt hopt => drop_inv H opt (SolOf sv.P) (RgB B) N st.fringe (viewOf c0) st.bestLb st.bestSol (hfeas opt hopt) hno,
      hinf, hclen, ⟨hlay, hcr⟩⟩
  by_cases hub : N.ub ≤ st.bestLb
  · -- pruned by its bound
    refine ⟨⟨st, c0⟩, true, .cutoff, .cutoff, ?_, (processNC_skip_ub sv.dedup st N true _ _ hub).symm,
      (fun o ho => by cases ho), hdrop (fun x h1 h2 _ => by omega)⟩
    unfold SolverCfg.kprocessNC; rw [if_pos hub]
  by_cases hp : prunM (viewOf c0) N
  · -- refused by the cache
    refine ⟨⟨st, c0⟩, false, .cutoff, .cutoff, ?_, (processNC_skip_me sv.dedup st N _ _).symm,
      (fun o ho => by cases ho), hdrop (fun x _ _ h3 => h3 hp)⟩
    unfold SolverCfg.kprocessNC
    rw [if_neg hub, hme, decide_eq_false (fun hn => hn hp)]
  -- both tests passed: the compilations
  have hmeT : c0.mustExplore N.state N.depth N.value = some true := by rw [hme, decide_eq_true hp]
  -- the restricted compilation
  have hokR : sv.coutR c0 N st.bestLb = .ok :=
    CacheClosed.compile_no_crash_cached _ c0 _ 0 rfl (hwf.width N) hwf.nv hdN
  have hdepR := ups_depth_restricted (sv.ccfg .restricted N st.bestLb) H B p0 c0 (DomStore.init sv.P.nbVars) 0 rfl rfl
    (hwf.width N) hwf.pot hwf.merge hwf.attMerge hBN hwf.nv hroot hokR
  obtain ⟨c1, hc1, hl1, hv1⟩ := applyUps_spec (sv.cresR c0 N st.bestLb).cacheUpdates.reverse c0 (by
    intro u hu
    have := hdepR u (List.mem_reverse.mp hu)
    rw [hclen]; exact Nat.lt_succ_of_le this)
  have sR : ∀ w, (toOut (sv.cresR c0 N st.bestLb)).bestExact = some w →
      IsSol (sv.ccfg .restricted N st.bestLb) p0 w (toOut (sv.cresR c0 N st.bestLb)).bestExactSol :=
    fun w hw => isSol_restricted (sv.ccfg .restricted N st.bestLb) B p0 c0 _ 0 none rfl hBN hroot hokR w hw
  have hl1B : (st.updateBest (toOut (sv.cresR c0 N st.bestLb))).bestLb ≤ B :=
    updateBest_le st _ B (fun w hw => (isSol_le hwf _ rfl p0 w _ (sR w hw)).1) hlbB
  have hl1lo : st.bestLb ≤ (st.updateBest (toOut (sv.cresR c0 N st.bestLb))).bestLb := updateBest_lb_ge st _
  obtain ⟨hl1a, hl1b⟩ := lb_range hBs hl1B (by omega)
  have eR : ∀ w, (toOut (sv.cresR c0 N st.bestLb)).bestExact = some w →
      ∃ p, (toOut (sv.cresR c0 N st.bestLb)).bestExactSol = some p :=
    fun w hw => (isSol_le hwf _ rfl p0 w _ (sR w hw)).2
  -- the relaxed compilation (consulting `c1`)
  have hokX : sv.coutX c1 N (st.updateBest (toOut (sv.cresR c0 N st.bestLb))).bestLb = .ok :=
    CacheClosed.compile_no_crash_cached _ c1 _ 0 rfl (hwf.width N) hwf.nv hdN
  have hdepX := ups_depth_relaxed (sv.ccfg .relaxed N (st.updateBest (toOut (sv.cresR c0 N st.bestLb))).bestLb) H B p0 c1
    (DomStore.init sv.P.nbVars) 0 none rfl rfl (hwf.width N) hwf.pot hwf.merge hwf.attMerge hBN hwf.nv hroot hokX _ (.inl rfl)
  obtain ⟨c2, hc2, hl2, hv2⟩ := applyUps_spec
    (sv.cresX c1 N (st.updateBest (toOut (sv.cresR c0 N st.bestLb))).bestLb).cacheUpdates.reverse c1 (by
    intro u hu
    have := hdepX u (List.mem_reverse.mp hu)
    rw [hl1, hclen]; exact Nat.lt_succ_of_le this)
  have sX : ∀ w, (toOut (sv.cresX c1 N (st.updateBest (toOut (sv.cresR c0 N st.bestLb))).bestLb)).bestExact = some w →
      IsSol (sv.ccfg .relaxed N (st.updateBest (toOut (sv.cresR c0 N st.bestLb))).bestLb) p0 w
        (toOut (sv.cresX c1 N (st.updateBest (toOut (sv.cresR c0 N st.bestLb))).bestLb)).bestExactSol :=
    fun w hw => CacheClosed.isSol_relaxed_cached _ B p0 c1 _ 0 rfl rfl (hwf.width N) hBN hroot hokX w hw
  have eX : ∀ w, (toOut (sv.cresX c1 N (st.updateBest (toOut (sv.cresR c0 N st.bestLb))).bestLb)).bestExact = some w →
      ∃ p, (toOut (sv.cresX c1 N (st.updateBest (toOut (sv.cresR c0 N st.bestLb))).bestLb)).bestExactSol = some p :=
    fun w hw => (isSol_le hwf _ rfl p0 w _ (sX w hw)).2
  have hcsX : ∀ c ∈ (sv.cresX c1 N (st.updateBest (toOut (sv.cresR c0 N st.bestLb))).bestLb).cutset,
      C01.NodeOk sv.P c ∧ N.depth < c.depth ∧ c.depth ≤ sv.P.nbVars := by
    intro c hc
    obtain ⟨q, hq, hpath⟩ := C08.cutset_exact (sv.ccfg .relaxed N (st.updateBest (toOut (sv.cresR c0 N st.bestLb))).bestLb)
      B p0 c1 _ 0 none hroot hBN hokX _ (.inl rfl) c hc
    have hdeep := C08.cutset_progress (sv.ccfg .relaxed N (st.updateBest (toOut (sv.cresR c0 N st.bestLb))).bestLb)
      B p0 c1 _ 0 none rfl hroot hBN hokX _ (.inl rfl) c hc
    refine ⟨⟨p0 ++ q, hq, ?_⟩, hdeep, reach_depth_le hwf.nv hq⟩
    rw [hpath]
    exact List.Perm.append hperm (List.reverse_perm q)
  generalize hr : sv.cresR c0 N st.bestLb = r at *
  generalize hx : sv.cresX c1 N (st.updateBest (toOut r)).bestLb = x at *
  -- the restricted compilation records nothing unless it is exact
  have hrups : r.isExact = false → r.cacheUpdates.reverse = [] := by
    intro hex
    have := restricted_inexact_no_ups (sv.ccfg .restricted N st.bestLb) c0 (DomStore.init sv.P.nbVars) 0 none rfl
      (by rw [← hr] at hex; exact hex)
    rw [← hr]
    show (compile _ c0 _ 0 none).2.1.cacheUpdates.reverse = []
    rw [this]; rfl
  have hc10 : r.isExact = false → c1 = c0 := by
    intro hex
    rw [hrups hex, applyUps_nil] at hc1
    exact (Option.some.inj hc1).symm
  -- the state the turn ends in
  have hkp : sv.kprocessNC st c0 N = some ⟨(st.processNC sv.dedup N true (.ok (toOut r)) (.ok (toOut x))).1,
      if r.isExact then c1 else c2⟩ := by
    unfold SolverCfg.kprocessNC
    rw [if_neg hub, hmeT]
    simp only [hokR, ne_eq, not_true_eq_false, if_false, hr, hc1]
    rw [processNC_main sv.dedup st N (toOut r) (toOut x) hub]
    have e1 : (toOut r).isExact = r.isExact := rfl
    have e2 : (toOut x).isExact = x.isExact := rfl
    have e3 : (toOut x).cutset = x.cutset := rfl
    rw [e1, e2, e3]
    cases hre : r.isExact with
    | true => simp only [if_true]
    | false =>
      simp only [Bool.false_eq_true, if_false, hokX, not_true_eq_false, hx, hc2]
      cases hxe : x.isExact <;> simp only [Bool.false_eq_true, if_false, if_true]
  refine ⟨_, true, .ok (toOut r), .ok (toOut x), hkp, rfl, ?_, ?_⟩
  · intro o ho c hc
    injection ho with ho
    subst ho
    exact (hcsX c hc).2
  · -- the invariant
    refine ⟨?_, ?_, ?_, ?_, ?_, ?_, ?_, ?_⟩
    · -- nodes
      refine processNC_forall (C01.NodeOk sv.P) (nodeOk_ub sv.P) sv.dedup st N true _ _ hnodes ?_
      intro o ho c hc
      injection ho with ho
      subst ho
      exact (hcsX c hc).1
    · -- lbLo
      have h2 := updateBest_lb_ge (st.updateBest (toOut r)) (toOut x)
      rcases processNC_lb_sol sv.dedup st N true (toOut r) (toOut x) with ⟨e, _⟩ | ⟨e, _⟩ | ⟨e, _⟩ <;>
      · show iMin ≤ (st.processNC sv.dedup N true (.ok (toOut r)) (.ok (toOut x))).1.bestLb
        rw [e]; omega
    · -- solLb
      have a1 := updateBest_solLb st _ eR hsolLb
      have a2 := updateBest_solLb (st.updateBest (toOut r)) _ eX a1
      show (st.processNC sv.dedup N true (.ok (toOut r)) (.ok (toOut x))).1.bestSol = none →
        (st.processNC sv.dedup N true (.ok (toOut r)) (.ok (toOut x))).1.bestLb = iMin
      rcases processNC_lb_sol sv.dedup st N true (toOut r) (toOut x) with ⟨e1, e2⟩ | ⟨e1, e2⟩ | ⟨e1, e2⟩
      · rw [e1, e2]; exact hsolLb
      · rw [e1, e2]; exact a1
      · rw [e1, e2]; exact a2
    · -- noAbort
      show (st.processNC sv.dedup N true (.ok (toOut r)) (.ok (toOut x))).1.abort = false
      rw [processNC_abort]; exact hab
    · -- feasible: `processC_inv_any`
      intro opt hopt
      have hval : ∀ (k : Nat) (s : S) (v : Int) (p : List Dec), Reach sv.P k s v p → -B ≤ v ∧ v ≤ B :=
        fun k s v p h => hwf.bound.value_le hwf.nv h
      have hrs : ∀ w, (toOut r).bestExact = some w → ∃ p, (toOut r).bestExactSol = some p ∧ SolOf sv.P p w ∧ w ≤ opt := by
        intro w hw
        rw [← hr] at hw ⊢
        exact (restricted_sound_within (sv.ccfg .restricted N st.bestLb) H B opt p0 c0 _ 0 none rfl hwf.pot hBN hroot hperm
          hopt hokR w hw).1
      have hR : (toOut r).isExact = true → CompC H opt (SolOf sv.P) (RgB B) N st.bestLb (viewOf c0) (toOut r)
          r.cacheUpdates.reverse (st.updateBest (toOut r)).bestLb := by
        intro hex
        rw [← bkOf_updateBest]
        rw [← hr] at hex ⊢
        exact compC_restricted_of_model H opt (sv.ccfg .restricted N st.bestLb) B p0 c0 _ 0 rfl rfl rfl (hwf.width N) hwf.pot
          hwf.rub hwf.merge hwf.attMerge hBN hlb2 hroot hperm hdN hopt hokR hex _ (fun u hu => List.mem_reverse.mp hu)
      have hX : (toOut r).isExact = false → CompC H opt (SolOf sv.P) (RgB B) N (st.updateBest (toOut r)).bestLb (viewOf c0)
          (toOut x) x.cacheUpdates.reverse ((st.updateBest (toOut r)).updateBest (toOut x)).bestLb := by
        intro hex
        have hcc := hc10 hex
        subst hcc
        rw [← bkOf_updateBest (st.updateBest (toOut r)) (toOut x)]
        rw [← hx]
        exact compC_relaxed_of_model H opt (sv.ccfg .relaxed N (st.updateBest (toOut r)).bestLb) B p0 c1 _ 0 rfl rfl rfl
          (hwf.width N) hwf.pot hwf.rub hwf.merge hwf.attMerge hBN hl1b hroot hperm hdN hopt hval hokX _
          (fun u hu => List.mem_reverse.mp hu)
      have hmain := processC_inv_nocap H opt (SolOf sv.P) (RgB B) sv.dedup st (viewOf c0) N (toOut r) r.cacheUpdates.reverse
        (toOut x) x.cacheUpdates.reverse (hfeas opt hopt) hrs hR (fun hex => hrups hex) hX
      have hst : stateAfterNC sv.dedup st (viewOf c0) N (toOut r) (toOut x) =
          (st.processNC sv.dedup N true (.ok (toOut r)) (.ok (toOut x))).1 := by
        unfold stateAfterNC; rw [decide_eq_true hp]
      have hvw : viewAfter st (viewOf c0) N (toOut r) r.cacheUpdates.reverse x.cacheUpdates.reverse =
          viewOf (if r.isExact then c1 else c2) := by
        rw [viewAfter_main st (viewOf c0) N (toOut r) _ _ hub hp]
        show (if r.isExact = true then _ else _) = _
        cases hre : r.isExact with
        | true => simp only [if_true]; exact hv1.symm
        | false =>
          simp only [Bool.false_eq_true, if_false]
          rw [hv2, hv1]
      rw [hst, hvw] at hmain
      exact hmain
    · -- infeasible
      intro hinf'
      have hdead : optOf H N = none := reach_dead hwf.pot hinf' hroot
      have nR : (toOut r).bestExact = none := by
        cases hb : (toOut r).bestExact with
        | none => rfl
        | some w =>
          obtain ⟨y, hy, _⟩ := within_of_isSol (sv.ccfg .restricted N st.bestLb) H p0 hwf.pot hroot w _ (sR w hb)
          rw [show optOf H (sv.ccfg .restricted N st.bestLb).root = optOf H N from rfl, hdead] at hy
          cases hy
      have nX : (toOut x).bestExact = none := by
        cases hb : (toOut x).bestExact with
        | none => rfl
        | some w =>
          obtain ⟨y, hy, _⟩ := within_of_isSol (sv.ccfg .relaxed N (st.updateBest (toOut r)).bestLb) H p0 hwf.pot hroot w _
            (sX w hb)
          rw [show optOf H (sv.ccfg .relaxed N (st.updateBest (toOut r)).bestLb).root = optOf H N from rfl, hdead] at hy
          cases hy
      have u1 := updateBest_none st _ nR
      have u2 := updateBest_none (st.updateBest (toOut r)) _ nX
      show (st.processNC sv.dedup N true (.ok (toOut r)) (.ok (toOut x))).1.bestLb = iMin ∧
        (st.processNC sv.dedup N true (.ok (toOut r)) (.ok (toOut x))).1.bestSol = none
      rcases processNC_lb_sol sv.dedup st N true (toOut r) (toOut x) with ⟨e1, e2⟩ | ⟨e1, e2⟩ | ⟨e1, e2⟩
      · rw [e1, e2]; exact hinf hinf'
      · rw [e1, e2, u1]; exact hinf hinf'
      · rw [e1, e2, u2, u1]; exact hinf hinf'
    · -- the cache keeps its shape
      show (if r.isExact then c1 else c2).layers.length = sv.P.nbVars + 1
      split
      · rw [hl1]; exact hclen
      · rw [hl2, hl1]; exact hclen
    · -- bookkeeping
      obtain ⟨h3, h4⟩ := processNC_layers sv.P.nbVars sv.dedup st N true (toOut r) (toOut x)
        (fun c hc => (hcsX c hc).2.2) hlay
      exact ⟨h3, h4.trans hcr⟩

/-! ## one turn -/

/-- **one turn of the no-cap caching solver** from a state that satisfies the invariant, **any** node of the fringe being
    popped: no panic, the invariant is preserved, and the sequential state makes a `StepNC` (termination measure) -/
theorem kturnNC_inv {sv : SolverCfg S} {H : Nat → S → EInt} {B0 B : Int} (hwf : WellFormed sv H B0 B)
    (s : KSt S) (N : SubP S) (rest : List (SubP S)) (hpop : s.st.fringe.Perm (N :: rest))
    (hI : KInvSt sv H B s) :
    ∃ t, sv.kturnNC s N rest = some t ∧ KInvSt sv H B t ∧ StepNC sv.P.nbVars sv.dedup s.st t.st := by
  obtain ⟨c0, hc0, hl0, hv0⟩ := cleanCache_spec sv.P.nbVars s.st.openByLayer sv.P.nbVars s.st.firstActive s.cache hI.clen
  generalize hfa : cleanLoop sv.P.nbVars s.st.openByLayer sv.P.nbVars s.st.firstActive = fa
  obtain ⟨f1, f2, f3⟩ := popped_fields s.st N rest fa
  have hNok : C01.NodeOk sv.P N := hI.nodes N (hpop.mem_iff.mpr List.mem_cons_self)
  obtain ⟨p0, hroot, _⟩ := hNok
  have hdN := reach_depth_le hwf.nv hroot
  obtain ⟨g1, g2⟩ := afterPop_layers sv.P.nbVars s.st N rest fa hdN hpop hI.lay.1
  obtain ⟨t, me, r, x, hk, hst, hprog, hT⟩ := kprocessNC_inv hwf (popped s.st N rest fa) c0 N
    (hI.nodes N (hpop.mem_iff.mpr List.mem_cons_self))
    (by rw [f1]; exact fun c hc => hI.nodes c (hpop.mem_iff.mpr (List.mem_cons_of_mem _ hc)))
    (by rw [f2]; exact hI.lbLo) (by rw [f2, f3]; exact hI.solLb) (by rw [popped_more]; exact hI.noAbort)
    (by
      intro opt hopt
      rw [f1, f2, f3]
      exact cinvC_forget H opt (SolOf sv.P) (RgB B) _ (viewOf s.cache) (viewOf c0) _ _ hv0
        (cinvC_perm H opt (SolOf sv.P) (RgB B) hpop (hI.feas opt hopt)))
    (by rw [f2, f3]; exact hI.infeas) hl0 g1 (g2.trans hI.lay.2)
  refine ⟨t, ?_, hT, ?_⟩
  · unfold SolverCfg.kturnNC
    rw [hc0, hfa]
    exact hk
  · rw [hst]
    exact StepNC.pop s.st N rest fa me r x hpop hprog

end Ddo.C09

#print axioms Ddo.C09.kprocessNC_inv
#print axioms Ddo.C09.kturnNC_inv
