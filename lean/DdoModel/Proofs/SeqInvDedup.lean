import DdoModel.Proofs.SeqInv
/-! The duplicate-free fringe (`pushSpec true`, `NoDupFringe`): what a push and a whole
    `enqueue_cutset` do to the fringe, stated through two relations between sub-problems

* `Dom s c`  — `s` *dominates* `c`: same `(state, depth)`, `c.value ≤ s.value`, `c.ub ≤ s.ub`
               (what a coalesced entry is to each of the two entries it replaces);
* `Orig M s` — `s` *originates* from the set `M`: it is some `a ∈ M` whose bound was raised to the
               bound of some `b ∈ M` (`s = { a with ub := b.ub }`, `a.ub ≤ b.ub`).

`Coalesces F L` ("the duplicate-free fringe `F` is a coalescing of the multiset `L`"): every entry
of `F` originates from `L` and every entry of `L` is dominated by an entry of `F`.
`enqueue_true_spec` says that the fringe after `st.enqueue true cs` is a coalescing of exactly
the multiset the plain fringe would hold (`enqueue_false_spec`); `Inv.of_coalesce` transports the
coverage invariant along `Coalesces` when `Phi` is monotone in the value.  Core Lean only. -/
set_option linter.unusedSectionVars false
namespace Ddo
variable {S : Type} [DecidableEq S]

/-! ### one push -/

/-- the entry that replaces `y` when `x` is pushed on a fringe holding `y` with the same key -/
def coal (x y : SubP S) : SubP S :=
  if x.value > y.value then { x with ub := max x.ub y.ub } else { y with ub := max x.ub y.ub }

theorem pushSpec_false (q : List (SubP S)) (x : SubP S) : pushSpec false q x = x :: q := rfl
theorem pushSpec_true_nil (x : SubP S) : pushSpec true [] x = [x] := rfl
theorem pushSpec_true_cons (x y : SubP S) (r : List (SubP S)) :
    pushSpec true (y :: r) x =
      if y.state = x.state ∧ y.depth = x.depth then coal x y :: r else y :: pushSpec true r x := rfl

/-- `s` dominates `c` -/
structure Dom (s c : SubP S) : Prop where
  state : s.state = c.state
  depth : s.depth = c.depth
  value : c.value ≤ s.value
  ub : c.ub ≤ s.ub

theorem Dom.refl (c : SubP S) : Dom c c := ⟨rfl, rfl, Int.le_refl _, Int.le_refl _⟩
theorem Dom.trans {a b c : SubP S} (h1 : Dom a b) (h2 : Dom b c) : Dom a c :=
  ⟨h1.state.trans h2.state, h1.depth.trans h2.depth, Int.le_trans h2.value h1.value, Int.le_trans h2.ub h1.ub⟩

/-- `s` is an element of `M` whose bound was raised to the bound of an element of `M` -/
def Orig (M : SubP S → Prop) (s : SubP S) : Prop :=
  ∃ a b, M a ∧ M b ∧ s = { a with ub := b.ub } ∧ a.ub ≤ b.ub

theorem Orig.of_mem {M : SubP S → Prop} {s : SubP S} (h : M s) : Orig M s :=
  ⟨s, s, h, h, rfl, Int.le_refl _⟩
theorem Orig.bind {M1 M : SubP S → Prop} {s : SubP S} (h : Orig M1 s) (hM : ∀ a, M1 a → Orig M a) : Orig M s := by
  obtain ⟨a1, b1, ha1, hb1, rfl, hle⟩ := h
  obtain ⟨a, b, ha, _, rfl, hab⟩ := hM a1 ha1
  obtain ⟨a', b', _, hb', rfl, hab'⟩ := hM b1 hb1
  exact ⟨a, b', ha, hb', rfl, Int.le_trans hab hle⟩
theorem Orig.mono {M1 M : SubP S → Prop} {s : SubP S} (h : Orig M1 s) (hM : ∀ a, M1 a → M a) : Orig M s :=
  h.bind (fun a ha => Orig.of_mem (hM a ha))

/-- the coalesced entry is one of the two, with the larger of the two bounds -/
theorem coal_orig (x y : SubP S) : Orig (fun c => c = x ∨ c = y) (coal x y) := by
  unfold coal
  rcases Int.le_total x.ub y.ub with h | h
  · have hm : max x.ub y.ub = y.ub := by omega
    rw [hm]
    split
    · exact ⟨x, y, Or.inl rfl, Or.inr rfl, rfl, h⟩
    · exact ⟨y, y, Or.inr rfl, Or.inr rfl, rfl, Int.le_refl _⟩
  · have hm : max x.ub y.ub = x.ub := by omega
    rw [hm]
    split
    · exact ⟨x, x, Or.inl rfl, Or.inl rfl, rfl, Int.le_refl _⟩
    · exact ⟨y, x, Or.inr rfl, Or.inl rfl, rfl, h⟩

/-- the coalesced entry dominates both -/
theorem coal_dom (x y : SubP S) (h : y.state = x.state ∧ y.depth = x.depth) :
    Dom (coal x y) x ∧ Dom (coal x y) y := by
  unfold coal
  split
  · exact ⟨⟨rfl, rfl, Int.le_refl _, by simp only; omega⟩, ⟨h.1.symm, h.2.symm, by simp only; omega, by simp only; omega⟩⟩
  · exact ⟨⟨h.1, h.2, by simp only; omega, by simp only; omega⟩, ⟨rfl, rfl, Int.le_refl _, by simp only; omega⟩⟩

theorem coal_key (x y : SubP S) (h : y.state = x.state ∧ y.depth = x.depth) :
    (coal x y).state = y.state ∧ (coal x y).depth = y.depth :=
  ⟨(coal_dom x y h).2.state, (coal_dom x y h).2.depth⟩

/-- every entry after a push originates from the old entries and the pushed node -/
theorem pushSpec_true_orig (q : List (SubP S)) (x : SubP S) :
    ∀ s ∈ pushSpec true q x, Orig (fun c => c = x ∨ c ∈ q) s := by
  induction q with
  | nil =>
    intro s hs
    rw [pushSpec_true_nil] at hs
    rcases List.mem_cons.mp hs with e | e
    · exact Orig.of_mem (Or.inl e)
    · cases e
  | cons y r ih =>
    intro s hs
    rw [pushSpec_true_cons] at hs
    split at hs
    · rcases List.mem_cons.mp hs with e | e
      · subst e
        exact (coal_orig x y).mono (fun a ha => ha.elim Or.inl (fun h => Or.inr (h ▸ List.mem_cons_self)))
      · exact Orig.of_mem (Or.inr (List.mem_cons_of_mem _ e))
    · rcases List.mem_cons.mp hs with e | e
      · exact Orig.of_mem (Or.inr (e ▸ List.mem_cons_self))
      · exact (ih s e).mono (fun a ha => ha.elim Or.inl (fun h => Or.inr (List.mem_cons_of_mem _ h)))

/-- the pushed node and every old entry is dominated by an entry of the new fringe -/
theorem pushSpec_true_surv (q : List (SubP S)) (x : SubP S) :
    ∀ c, (c = x ∨ c ∈ q) → ∃ s ∈ pushSpec true q x, Dom s c := by
  induction q with
  | nil =>
    intro c hc
    rcases hc with e | e
    · exact ⟨x, by rw [pushSpec_true_nil]; exact List.mem_cons_self, e ▸ Dom.refl _⟩
    · cases e
  | cons y r ih =>
    intro c hc
    rw [pushSpec_true_cons]
    split
    · next hk =>
      rcases hc with e | e
      · exact ⟨coal x y, List.mem_cons_self, e ▸ (coal_dom x y hk).1⟩
      · rcases List.mem_cons.mp e with e | e
        · exact ⟨coal x y, List.mem_cons_self, e ▸ (coal_dom x y hk).2⟩
        · exact ⟨c, List.mem_cons_of_mem _ e, Dom.refl _⟩
    · rcases hc with e | e
      · obtain ⟨s, hs, hd⟩ := ih c (Or.inl e)
        exact ⟨s, List.mem_cons_of_mem _ hs, hd⟩
      · rcases List.mem_cons.mp e with e | e
        · exact ⟨y, List.mem_cons_self, e ▸ Dom.refl _⟩
        · obtain ⟨s, hs, hd⟩ := ih c (Or.inr e)
          exact ⟨s, List.mem_cons_of_mem _ hs, hd⟩

/-- a push adds at most one entry, and never removes one -/
theorem pushSpec_length (dedup : Bool) (q : List (SubP S)) (x : SubP S) :
    q.length ≤ (pushSpec dedup q x).length ∧ (pushSpec dedup q x).length ≤ q.length + 1 := by
  cases dedup
  · rw [pushSpec_false]; simp
  · induction q with
    | nil => rw [pushSpec_true_nil]; simp
    | cons y r ih =>
      rw [pushSpec_true_cons]
      split
      · simp
      · simp only [List.length_cons]; omega

/-! ### the fringe stays duplicate-free -/

/-- no two entries with the same `(state, depth)` -/
def KeysNodup (q : List (SubP S)) : Prop :=
  q.Pairwise (fun a b => ¬ (a.state = b.state ∧ a.depth = b.depth))

/-- the key of an entry of the new fringe is the key of the pushed node or of an old entry -/
theorem pushSpec_true_key (q : List (SubP S)) (x : SubP S) :
    ∀ s ∈ pushSpec true q x, (s.state = x.state ∧ s.depth = x.depth) ∨ ∃ c ∈ q, s.state = c.state ∧ s.depth = c.depth := by
  intro s hs
  obtain ⟨a, b, ha, _, rfl, _⟩ := pushSpec_true_orig q x s hs
  rcases ha with e | e
  · exact Or.inl ⟨by rw [e], by rw [e]⟩
  · exact Or.inr ⟨a, e, rfl, rfl⟩

theorem pushSpec_true_keysNodup (q : List (SubP S)) (x : SubP S) (h : KeysNodup q) :
    KeysNodup (pushSpec true q x) := by
  unfold KeysNodup at *
  induction q with
  | nil => rw [pushSpec_true_nil]; exact List.pairwise_singleton _ _
  | cons y r ih =>
    rw [pushSpec_true_cons]
    obtain ⟨hy, hr⟩ := List.pairwise_cons.mp h
    split
    · next hk =>
      obtain ⟨k1, k2⟩ := coal_key x y hk
      refine List.pairwise_cons.mpr ⟨fun b hb => ?_, hr⟩
      rw [k1, k2]; exact hy b hb
    · next hk =>
      refine List.pairwise_cons.mpr ⟨fun b hb => ?_, ih hr⟩
      rcases pushSpec_true_key r x b hb with ⟨e1, e2⟩ | ⟨c, hc, e1, e2⟩
      · rw [e1, e2]; exact hk
      · rw [e1, e2]; exact hy c hc

/-! ### `enqueue_cutset` with the duplicate-free fringe -/

/-- `F` is a coalescing of the multiset `L` -/
def Coalesces (F : List (SubP S)) (L : SubP S → Prop) : Prop :=
  (∀ s ∈ F, Orig L s) ∧ (∀ c, L c → ∃ s ∈ F, Dom s c)

theorem Coalesces.refl (F : List (SubP S)) : Coalesces F (fun c => c ∈ F) :=
  ⟨fun _ hs => Orig.of_mem hs, fun c hc => ⟨c, hc, Dom.refl c⟩⟩

theorem Coalesces.congr {F : List (SubP S)} {L L' : SubP S → Prop} (h : Coalesces F L) (e : ∀ c, L c ↔ L' c) :
    Coalesces F L' :=
  ⟨fun s hs => (h.1 s hs).mono (fun a ha => (e a).mp ha), fun c hc => h.2 c ((e c).mpr hc)⟩

/-- coalescing is transitive: a coalescing `F` of (the members of) a coalescing-like family `L1` of `L` -/
theorem Coalesces.trans {F : List (SubP S)} {L1 L : SubP S → Prop} (h : Coalesces F L1)
    (hO : ∀ a, L1 a → Orig L a) (hD : ∀ c, L c → ∃ s, L1 s ∧ Dom s c) : Coalesces F L := by
  refine ⟨fun s hs => (h.1 s hs).bind hO, fun c hc => ?_⟩
  obtain ⟨s1, hs1, hd1⟩ := hD c hc
  obtain ⟨s, hs, hd⟩ := h.2 s1 hs1
  exact ⟨s, hs, hd.trans hd1⟩

theorem enqOne_true_spec (st : SeqSt S) (c0 : SubP S) :
    (enqOne true st c0).bestLb = st.bestLb ∧ (enqOne true st c0).bestSol = st.bestSol ∧
    (enqOne true st c0).bestUb = st.bestUb ∧ (enqOne true st c0).abort = st.abort ∧
    (KeysNodup st.fringe → KeysNodup (enqOne true st c0).fringe) ∧
    Coalesces (enqOne true st c0).fringe
      (fun c => c ∈ st.fringe ∨ (c = c0 ∧ c0.ub > st.bestLb)) := by
  unfold enqOne
  by_cases hgt : c0.ub > st.bestLb
  · have hm : Coalesces (pushSpec true st.fringe c0)
        (fun c => c ∈ st.fringe ∨ (c = c0 ∧ c0.ub > st.bestLb)) := by
      refine ⟨fun s hs => (pushSpec_true_orig _ _ s hs).mono (fun a ha => ?_), fun c hc => ?_⟩
      · exact ha.elim (fun h => Or.inr ⟨h, hgt⟩) Or.inl
      · exact pushSpec_true_surv _ _ c (hc.elim Or.inr (fun h => Or.inl h.1))
    have hk := pushSpec_true_keysNodup st.fringe c0
    rw [if_pos hgt]
    simp only
    cases bumpLayer st.openByLayer c0.depth
        ((pushSpec true st.fringe c0).length - st.fringe.length) with
    | some l => exact ⟨rfl, rfl, rfl, rfl, hk, hm⟩
    | none => exact ⟨rfl, rfl, rfl, rfl, hk, hm⟩
  · rw [if_neg hgt]
    refine ⟨rfl, rfl, rfl, rfl, id, (Coalesces.refl st.fringe).congr (fun c => ?_)⟩
    constructor
    · intro h; exact Or.inl h
    · rintro (h | ⟨_, h⟩)
      · exact h
      · exact absurd h hgt

/-- **specification of `enqueue_cutset` on the duplicate-free fringe**: the new fringe is a
    coalescing of the old fringe together with the cut-set nodes that beat the incumbent
    (exactly the multiset of `enqueue_false_spec`): every new entry is one of these, with the bound
    of one of these that is not smaller; each of these is dominated by a new entry.  The incumbent,
    `best_ub`, `abort` are untouched and the fringe stays duplicate-free. -/
theorem enqueue_true_spec (st : SeqSt S) (cs : List (SubP S)) :
    (st.enqueue true cs).bestLb = st.bestLb ∧ (st.enqueue true cs).bestSol = st.bestSol ∧
    (st.enqueue true cs).bestUb = st.bestUb ∧ (st.enqueue true cs).abort = st.abort ∧
    (KeysNodup st.fringe → KeysNodup (st.enqueue true cs).fringe) ∧
    Coalesces (st.enqueue true cs).fringe
      (fun c => c ∈ st.fringe ∨ ∃ c0 ∈ cs, c = c0 ∧ c0.ub > st.bestLb) := by
  rw [enqueue_eq_foldl]
  induction cs generalizing st with
  | nil =>
    refine ⟨rfl, rfl, rfl, rfl, id, (Coalesces.refl st.fringe).congr (fun c => ?_)⟩
    simp
  | cons c0 cs ih =>
    simp only [List.foldl_cons]
    obtain ⟨h1, h2, h3, h4, hk, h5⟩ := enqOne_true_spec st c0
    obtain ⟨i1, i2, i3, i4, ik, i5⟩ := ih (enqOne true st c0)
    refine ⟨i1.trans h1, i2.trans h2, i3.trans h3, i4.trans h4, fun h => ik (hk h), ?_⟩
    rw [h1] at i5
    refine i5.trans ?_ ?_
    · rintro a (ha | ⟨c1, hc1, e, hg⟩)
      · exact (h5.1 a ha).mono (fun b hb => hb.elim Or.inl (fun h => Or.inr ⟨c0, List.mem_cons_self, h.1, h.2⟩))
      · exact Orig.of_mem (Or.inr ⟨c1, List.mem_cons_of_mem _ hc1, e, hg⟩)
    · rintro c (hc | ⟨c1, hc1, e, hg⟩)
      · obtain ⟨s, hs, hd⟩ := h5.2 c (Or.inl hc)
        exact ⟨s, Or.inl hs, hd⟩
      · rcases List.mem_cons.mp hc1 with e1 | e1
        · subst e1
          obtain ⟨s, hs, hd⟩ := h5.2 c (Or.inr ⟨e, hg⟩)
          exact ⟨s, Or.inl hs, hd⟩
        · exact ⟨c, Or.inr ⟨c1, e1, e, hg⟩, Dom.refl c⟩

/-- the duplicate-free fringe after `enqueue_cutset` is a coalescing of the plain multiset fringe -/
theorem enqueue_true_coalesces_false (st : SeqSt S) (cs : List (SubP S)) :
    Coalesces (st.enqueue true cs).fringe (fun c => c ∈ (st.enqueue false cs).fringe) := by
  obtain ⟨_, _, _, _, _, h⟩ := enqueue_true_spec st cs
  obtain ⟨_, _, _, _, e⟩ := enqueue_false_spec st cs
  exact h.congr (fun c => (e c).symm)

/-! ### transporting the coverage invariant along a coalescing -/

theorem EInt.le_antisymm' {a b : EInt} (h1 : a ≤ b) (h2 : b ≤ a) : a = b := by
  cases a <;> cases b <;> simp_all <;> omega

section
variable (Phi : SubP S → EInt) (opt : Int) (Sol : List Dec → Int → Prop)

/-- `Phi` reads a sub-problem only through `(state, depth, value)`, monotonically in the value -/
def PhiMono : Prop :=
  ∀ a b : SubP S, a.state = b.state → a.depth = b.depth → a.value ≤ b.value → Phi a ≤ Phi b

/-- monotonicity implies that `Phi` ignores the bound (the `hPhi` of `C01.process_inv`) … -/
theorem PhiMono.ub_irrel (h : PhiMono Phi) (c : SubP S) (u : Int) : Phi { c with ub := u } = Phi c :=
  EInt.le_antisymm' (h _ _ rfl rfl (Int.le_refl _)) (h _ _ rfl rfl (Int.le_refl _))

/-- … and the path -/
theorem PhiMono.path_irrel (h : PhiMono Phi) (c : SubP S) (p : List Dec) : Phi { c with path := p } = Phi c :=
  EInt.le_antisymm' (h _ _ rfl rfl (Int.le_refl _)) (h _ _ rfl rfl (Int.le_refl _))

/-- the intended `Phi`: value so far plus the potential `H depth state` of the best completion -/
theorem phiMono_of_potential (H : Nat → S → EInt) : PhiMono (fun c : SubP S => (H c.depth c.state).addI c.value) := by
  intro a b hs hd hv
  show (H a.depth a.state).addI a.value ≤ (H b.depth b.state).addI b.value
  rw [hs, hd]
  cases h : H b.depth b.state with
  | none => exact EInt.none_le _
  | some z => show z + a.value ≤ z + b.value; omega

/-- **the coverage invariant passes from a multiset of open sub-problems to any coalescing of it** -/
theorem Inv.of_coalesce (hmono : PhiMono Phi) {L F : List (SubP S)} {lb : Int} {sol : Option (List Dec)}
    (hinv : Inv Phi opt Sol L lb sol) (hco : Coalesces F (fun c => c ∈ L)) : Inv Phi opt Sol F lb sol := by
  have hgood : ∀ s ∈ F, Good Phi opt s := by
    intro s hs
    obtain ⟨a, b, ha, _, rfl, _⟩ := hco.1 s hs
    intro y hy; rw [hmono.ub_irrel] at hy; exact hinv.good a ha y hy
  refine ⟨hgood, ?_, hinv.lbOk, hinv.solOk, fun hgt => ?_⟩
  · intro s hs
    obtain ⟨a, b, ha, _, rfl, hab⟩ := hco.1 s hs
    intro y hy hlt; rw [hmono.ub_irrel] at hy
    have := hinv.ubOk a ha y hy hlt
    simp only; omega
  · obtain ⟨c, hc, hP, hU⟩ := hinv.cover hgt
    obtain ⟨s, hs, hd⟩ := hco.2 c hc
    have hle : Phi c ≤ Phi s := hmono c s hd.state.symm hd.depth.symm hd.value
    rw [hP] at hle
    cases hPs : Phi s with
    | none => rw [hPs] at hle; exact absurd hle (by simp)
    | some y =>
      rw [hPs] at hle
      have h1 : opt ≤ y := by simpa using hle
      have h2 : y ≤ opt := hgood s hs y hPs
      have : y = opt := by omega
      rw [this] at hPs
      exact ⟨s, hs, hPs, Int.le_trans hU hd.ub⟩

end
end Ddo
