import DdoModel.Proofs.ParDomDefs
/-! # The PARALLEL solver with the shared dominance checker — side conditions, bookkeeping, progress

The analogues of `ParClosed.pstep_pcinv`, `ParClosed.pstep_layinv`, `ParClosed.pstep_progress` for the instance of `ParSys.Step`
with the compilations of the diagram model **with the dominance checker enabled** (`okRd`, `okXd`: adversarial store). -/
set_option linter.unusedSectionVars false
set_option linter.unusedVariables false
namespace Ddo.ParDom
open Ddo Ddo.Truth Ddo.Closed Ddo.ParSys Ddo.ParClosed Ddo.C10
open Ddo.C01 (SolverCfg WellFormed toOut SolOf)
variable {S K : Type} [DecidableEq S] [DecidableEq K]

/-- `C01.isSol_le` for any key type of the rule -/
theorem isSol_le' {sv : SolverCfg S} {H : Nat → S → EInt} {B0 B : Int} (hwf : WellFormed sv H B0 B)
    (cfg : Cfg S K) (hP : cfg.P = sv.P) (p0 : List Dec) (w : Int) (sol : Option (List Dec)) (h : IsSol cfg p0 w sol) :
    w ≤ B ∧ ∃ p, sol = some p := by
  obtain ⟨k, s, q, L, hr, _, _, hsol⟩ := h
  rw [hP] at hr
  exact ⟨(hwf.bound.value_le hwf.nv hr).2, _, hsol⟩

/-- what a restricted compilation (checker enabled, any store) of an exactly reached node reports -/
theorem okRd_facts {dv : DSolverCfg S K} {H : Nat → S → EInt} {B0 B : Int} (hwf : WellFormed dv.sv H B0 B)
    {n : SubP S} {lb : Int} {o : DDOut S} (hn : C01.NodeOk dv.sv.P n) (hok : okRd dv n lb o) :
    ∀ w, o.bestExact = some w → w ≤ B ∧ ∃ p, o.bestExactSol = some p := by
  obtain ⟨p0, hroot, hperm⟩ := hn
  obtain ⟨store, hst, hlen, hout, rfl⟩ := hok
  have hBN : NoClamp dv.sv.P dv.sv.R n.value B := hwf.bound.noClamp_at hwf.nv hroot
  intro w hw
  have hs : IsSol (dv.cfg .restricted n lb) p0 w (toOut (dv.compR store n lb).2.1).bestExactSol :=
    isSol_restricted (dv.cfg .restricted n lb) B p0 (Cache.init dv.sv.P.nbVars) store 0 none rfl hBN hroot hout w hw
  exact isSol_le' hwf _ rfl p0 w _ hs

/-- the same for a relaxed compilation, and its cut-set -/
theorem okXd_facts {dv : DSolverCfg S K} {H : Nat → S → EInt} {B0 B : Int} (hwf : WellFormed dv.sv H B0 B)
    {n : SubP S} {lb : Int} {o : DDOut S} (hn : C01.NodeOk dv.sv.P n) (hok : okXd dv n lb o) :
    (∀ w, o.bestExact = some w → w ≤ B ∧ ∃ p, o.bestExactSol = some p) ∧
    (∀ c ∈ o.cutset, C01.NodeOk dv.sv.P c ∧ n.depth < c.depth ∧ c.depth ≤ dv.sv.P.nbVars) := by
  obtain ⟨p0, hroot, hperm⟩ := hn
  obtain ⟨store, hst, hlen, hout, rfl⟩ := hok
  have hBN : NoClamp dv.sv.P dv.sv.R n.value B := hwf.bound.noClamp_at hwf.nv hroot
  refine ⟨fun w hw => ?_, fun c hc => ?_⟩
  · have hs : IsSol (dv.cfg .relaxed n lb) p0 w (toOut (dv.compX store n lb).2.1).bestExactSol :=
      isSol_relaxed_dom (dv.cfg .relaxed n lb) dv.D rfl B p0 (Cache.init dv.sv.P.nbVars) store 0 rfl rfl (hwf.width n)
        hBN hroot hout w hw
    exact isSol_le' hwf _ rfl p0 w _ hs
  · have hc : c ∈ (dv.compX store n lb).2.1.cutset := hc
    obtain ⟨q, hq, hpath⟩ := C08.cutset_exact (dv.cfg .relaxed n lb) B p0 (Cache.init dv.sv.P.nbVars) store 0 none hroot hBN
      hout _ (.inl rfl) c hc
    have hprog := C08.cutset_progress (dv.cfg .relaxed n lb) B p0 (Cache.init dv.sv.P.nbVars) store 0 none rfl hroot hBN
      hout _ (.inl rfl) c hc
    refine ⟨⟨p0 ++ q, hq, ?_⟩, hprog, reach_depth_le hwf.nv hq⟩
    rw [hpath]
    exact List.Perm.append hperm (List.reverse_perm q)

/-! ## the side conditions as an invariant -/

theorem dwokp_wake {dv : DSolverCfg S K} {B : Int} {w : WSt S} (h : DWOkP dv B w) : DWOkP dv B w.wake := by
  cases w <;> first | exact h | exact ⟨fun n hn => (by cases hn), trivial⟩

theorem dwokp_free {dv : DSolverCfg S K} {B : Int} {w : WSt S} (hn : w.node = none) (hs : DWInv dv B w) : DWOkP dv B w :=
  ⟨fun n h => (by rw [hn] at h; cases h), hs⟩

theorem dwokp_keep {dv : DSolverCfg S K} {B : Int} {w w' : WSt S} {n : SubP S} (h : DWOkP dv B w) (hn : w.node = some n)
    (hn' : w'.node = some n) (hs : DWInv dv B w') : DWOkP dv B w' :=
  ⟨fun m hm => (by rw [hn'] at hm; injection hm with hm; subst hm; exact h.node _ hn), hs⟩

/-- **every section of every worker preserves `DPCInv`** (`opt` exists: the `infeas` field of `BaseOk` is vacuous) -/
theorem step_dpcinv {dv : DSolverCfg S K} {H : Nat → S → EInt} {B0 B opt : Int} (hwf : WellFormed dv.sv H B0 B)
    (hopt : (H 0 dv.sv.P.init).addI dv.sv.P.initVal = some opt) {s t : Sys S}
    (h : Step dv.sv.dedup (okRd dv) (okXd dv) s t) (hI : DPCInv dv H B s) : DPCInv dv H B t := by
  have hmem : ∀ {i : Nat} {w : WSt S}, s.ws[i]? = some w → DWOkP dv B w :=
    fun hw => hI.ws _ (List.mem_of_getElem? hw)
  have hinf0 : ∀ {o : DDOut S}, (H 0 dv.sv.P.init).addI dv.sv.P.initVal = none → o.bestExact = none :=
    fun hinf => by rw [hopt] at hinf; cases hinf
  cases h with
  | gwAborted i hw ha => exact ⟨hI.base, mem_set_elim hI.ws (dwokp_free rfl trivial)⟩
  | gwComplete i hw ha ho hf =>
    exact ⟨hI.base.of_eq (fun c hc => hc) rfl rfl, mem_set_elim hI.ws (dwokp_free rfl trivial)⟩
  | gwWait i hw ha ho hf => exact ⟨hI.base, mem_set_elim hI.ws (dwokp_free rfl trivial)⟩
  | gwStarve i N rest c' k hw ha hp hl =>
    rw [popLoop_single] at hl
    split at hl
    · injection hl with hc _
      subst hc
      exact ⟨hI.base.of_eq (fun c hc => by cases hc) rfl rfl, hI.ws⟩
    · injection hl with _ hl; injection hl with hl; cases hl
  | gwItem i N rest c' nn k c'' hw ha hp hl ht =>
    obtain ⟨rfl, rfl⟩ := popLoop_item hl
    obtain ⟨t1, t2, t3, _⟩ := take_spec ht
    have hN : nn ∈ s.crit.base.fringe := (mem_of_popMax hp nn).mpr (Or.inl rfl)
    refine ⟨hI.base.of_eq (fun c hc => ?_) t2 t3, mem_set_elim hI.ws ⟨fun m hm => ?_, trivial⟩⟩
    · rw [t1] at hc
      exact (mem_of_popMax hp c).mpr (Or.inr hc)
    · injection hm with hm; subst hm; exact hI.base.fr _ hN
  | gwCrash i N rest c' nn k hw ha hp hl ht =>
    obtain ⟨rfl, rfl⟩ := popLoop_item hl
    have hN : nn ∈ s.crit.base.fringe := (mem_of_popMax hp nn).mpr (Or.inl rfl)
    refine ⟨hI.base.of_eq (fun c hc => ?_) rfl rfl, mem_set_elim hI.ws ⟨fun m hm => ?_, trivial⟩⟩
    · exact (mem_of_popMax hp c).mpr (Or.inr hc)
    · injection hm with hm; subst hm; exact hI.base.fr _ hN
  | readLbR i n hw =>
    refine ⟨hI.base, mem_set_elim hI.ws ?_⟩
    split
    · exact dwokp_keep (hmem hw) rfl rfl trivial
    · exact dwokp_keep (hmem hw) rfl rfl ⟨hI.base.lbLo, hI.base.lbHi⟩
  | compileR i n lb r hw hok =>
    refine ⟨hI.base, mem_set_elim hI.ws ?_⟩
    cases r with
    | ok o => exact dwokp_keep (hmem hw) rfl rfl (hok o rfl)
    | cutoff => exact dwokp_keep (hmem hw) rfl rfl trivial
  | updateR i n lb o hw =>
    have f1 := okRd_facts hwf ((hmem hw).node n rfl) (hmem hw).stage
    refine ⟨baseOk_update hI.base f1 hinf0, mem_set_elim hI.ws ?_⟩
    split
    · exact dwokp_keep (hmem hw) rfl rfl trivial
    · exact dwokp_keep (hmem hw) rfl rfl trivial
  | readLbX i n hw =>
    exact ⟨hI.base, mem_set_elim hI.ws (dwokp_keep (hmem hw) rfl rfl ⟨hI.base.lbLo, hI.base.lbHi⟩)⟩
  | compileX i n lb r hw hok =>
    refine ⟨hI.base, mem_set_elim hI.ws ?_⟩
    cases r with
    | ok o => exact dwokp_keep (hmem hw) rfl rfl (hok o rfl)
    | cutoff => exact dwokp_keep (hmem hw) rfl rfl trivial
  | updateX i n lb o hw =>
    obtain ⟨f1, _⟩ := okXd_facts hwf ((hmem hw).node n rfl) (hmem hw).stage
    refine ⟨baseOk_update hI.base f1 hinf0, mem_set_elim hI.ws ?_⟩
    split
    · exact dwokp_keep (hmem hw) rfl rfl trivial
    · exact dwokp_keep (hmem hw) rfl rfl (hmem hw).stage
  | enqueue i n lb o hw =>
    obtain ⟨_, f3⟩ := okXd_facts hwf ((hmem hw).node n rfl) (hmem hw).stage
    obtain ⟨e1, e2⟩ := enqueue_lb_sol dv.sv.dedup s.crit.base o.cutset
    refine ⟨⟨?_, ?_, ?_, ?_, ?_⟩, mem_set_elim hI.ws (dwokp_keep (hmem hw) rfl rfl trivial)⟩
    · exact enqueue_forall (C01.NodeOk dv.sv.P) (C01.nodeOk_ub dv.sv.P) dv.sv.dedup s.crit.base o.cutset hI.base.fr
        (fun c hc => (f3 c hc).1)
    · show iMin ≤ (s.crit.base.enqueue dv.sv.dedup o.cutset).bestLb
      rw [e1]; exact hI.base.lbLo
    · show (s.crit.base.enqueue dv.sv.dedup o.cutset).bestLb ≤ B
      rw [e1]; exact hI.base.lbHi
    · show (s.crit.base.enqueue dv.sv.dedup o.cutset).bestSol = none → (s.crit.base.enqueue dv.sv.dedup o.cutset).bestLb = iMin
      rw [e1, e2]; exact hI.base.solLb
    · show _ → (s.crit.base.enqueue dv.sv.dedup o.cutset).bestLb = iMin ∧ (s.crit.base.enqueue dv.sv.dedup o.cutset).bestSol = none
      rw [e1, e2]; exact hI.base.infeas
  | abort i n top hw htop =>
    exact ⟨hI.base.of_eq (fun c hc => by cases hc) rfl rfl, mem_set_elim hI.ws (dwokp_keep (hmem hw) rfl rfl trivial)⟩
  | notify i n te c' hw hn =>
    obtain ⟨n1, _, _, _⟩ := notify_spec hn
    refine ⟨by rw [n1]; exact hI.base, mem_set_elim (fun w hw' => ?_) ?_⟩
    · obtain ⟨w0, hw0, rfl⟩ := List.mem_map.mp hw'
      exact dwokp_wake (hI.ws w0 hw0)
    · cases te
      · exact dwokp_free rfl trivial
      · exact dwokp_free rfl trivial

/-- **`DPCInv` holds initially** -/
theorem init_dpcinv {dv : DSolverCfg S K} {H : Nat → S → EInt} {B0 B : Int} (hwf : WellFormed dv.sv H B0 B) (U : Nat) :
    DPCInv dv H B (Sys.init dv.sv.P none dv.sv.dedup U) := by
  refine ⟨(init_pcinv hwf none (fun _ _ h => by cases h) U).base, ?_⟩
  intro w hw
  have hw : w ∈ List.replicate U (WSt.idle : WSt S) := hw
  rw [List.eq_of_mem_replicate hw]
  exact dwokp_free rfl trivial

/-! ## the bookkeeping -/

/-- **every section of every worker preserves the bookkeeping invariant** — and the panic step `gwCrash` is not enabled -/
theorem step_dlayinv {dv : DSolverCfg S K} {H : Nat → S → EInt} {B0 B : Int} (hwf : WellFormed dv.sv H B0 B) {s t : Sys S}
    (h : Step dv.sv.dedup (okRd dv) (okXd dv) s t) (hI : DPCInv dv H B s) (hL : LayInv dv.sv s) : LayInv dv.sv t := by
  have hmem : ∀ {i : Nat} {w : WSt S}, s.ws[i]? = some w → DWOkP dv B w :=
    fun hw => hI.ws _ (List.mem_of_getElem? hw)
  cases h with
  | gwAborted i hw ha => exact ⟨hL.crit, handLay_set hL.hand hw rfl rfl (fun e => by cases e) rfl rfl rfl⟩
  | gwComplete i hw ha ho hf =>
    exact ⟨⟨hL.crit.openLen, hL.crit.openOk, hL.crit.noPanic⟩,
      handLay_set hL.hand hw rfl rfl (fun e => by cases e) rfl rfl rfl⟩
  | gwWait i hw ha ho hf => exact ⟨hL.crit, handLay_set hL.hand hw rfl rfl (fun _ => ho) rfl rfl rfl⟩
  | gwStarve i N rest c' k hw ha hp hl =>
    rw [popLoop_single] at hl
    split at hl
    · injection hl with hc _
      subst hc
      refine ⟨⟨?_, fun _ => ⟨?_, fun d hd' => ?_⟩, hL.crit.noPanic⟩,
        ⟨hL.hand.ongoLen, hL.hand.ongoCnt, hL.hand.cnt, hL.hand.len, hL.hand.noCrash, hL.hand.parked⟩⟩
      · show (s.crit.base.openByLayer.map (fun _ => 0)).length = _
        rw [List.length_map]; exact hL.crit.openLen
      · show (s.crit.base.openByLayer.map (fun _ => 0)).length = _
        rw [List.length_map]; exact hL.crit.openLen
      · show (s.crit.base.openByLayer.map (fun _ => 0))[d]? = some (cntD [] d)
        rw [List.getElem?_map, List.getElem?_eq_getElem (by rw [hL.crit.openLen]; omega)]
        rfl
    · injection hl with _ hl; injection hl with hl; cases hl
  | gwItem i N rest c' nn k c'' hw ha hp hl ht =>
    obtain ⟨rfl, rfl⟩ := popLoop_item hl
    obtain ⟨t1, _, _, _, t5, t6, t7, _⟩ := take_spec ht
    obtain ⟨l, ol, h1, h2, h3, h4, h5⟩ := take_full ht
    have hN : nn.depth ≤ dv.sv.P.nbVars :=
      node_depth_le hwf (hI.base.fr nn ((mem_of_popMax hp nn).mpr (Or.inl rfl)))
    obtain ⟨l', hl', hlay⟩ := open_dec (hL.crit.openOk ha) hp.1 hN
    have hll : l = l' := by
      have h1 : decLayer s.crit.base.openByLayer nn.depth = some l := h1
      rw [hl'] at h1; exact (Option.some.inj h1).symm
    refine ⟨⟨by rw [h3, hll]; exact hlay.1, fun _ => ?_, by rw [h5]; exact hL.crit.noPanic⟩, ?_⟩
    · rw [h3, hll, t1]; exact hlay
    · exact handLay_take hL.hand hw hN h2 h4 t6 (by rw [t7, List.length_set]; rfl)
  | gwCrash i N rest c' nn k hw ha hp hl ht =>
    obtain ⟨rfl, rfl⟩ := popLoop_item hl
    have hN : nn.depth ≤ dv.sv.P.nbVars :=
      node_depth_le hwf (hI.base.fr nn ((mem_of_popMax hp nn).mpr (Or.inl rfl)))
    obtain ⟨c'', hc''⟩ := take_ne_none hL hw ha hp hN
    rw [hc''] at ht; cases ht
  | readLbR i n hw =>
    refine ⟨hL.crit, handLay_set hL.hand hw ?_ ?_ (fun e => ?_) rfl rfl rfl⟩
    · split <;> rfl
    · split <;> rfl
    · split at e <;> cases e
  | compileR i n lb r hw hok =>
    refine ⟨hL.crit, handLay_set hL.hand hw ?_ ?_ (fun e => ?_) rfl rfl rfl⟩
    · cases r <;> rfl
    · cases r <;> rfl
    · cases r <;> cases e
  | updateR i n lb o hw =>
    refine ⟨critLay_update o hL.crit, handLay_set hL.hand hw ?_ ?_ (fun e => ?_) rfl rfl rfl⟩
    · split <;> rfl
    · split <;> rfl
    · split at e <;> cases e
  | readLbX i n hw => exact ⟨hL.crit, handLay_set hL.hand hw rfl rfl (fun e => by cases e) rfl rfl rfl⟩
  | compileX i n lb r hw hok =>
    refine ⟨hL.crit, handLay_set hL.hand hw ?_ ?_ (fun e => ?_) rfl rfl rfl⟩
    · cases r <;> rfl
    · cases r <;> rfl
    · cases r <;> cases e
  | updateX i n lb o hw =>
    refine ⟨critLay_update o hL.crit, handLay_set hL.hand hw ?_ ?_ (fun e => ?_) rfl rfl rfl⟩
    · split <;> rfl
    · split <;> rfl
    · split at e <;> cases e
  | enqueue i n lb o hw =>
    obtain ⟨_, f3⟩ := okXd_facts hwf ((hmem hw).node n rfl) (hmem hw).stage
    exact ⟨critLay_enqueue dv.sv.dedup o.cutset (fun c hc => (f3 c hc).2.2) hL.crit,
      handLay_set hL.hand hw rfl rfl (fun e => by cases e) rfl rfl rfl⟩
  | abort i n top hw htop =>
    exact ⟨⟨hL.crit.openLen, fun ha => (by cases ha), hL.crit.noPanic⟩,
      handLay_set hL.hand hw rfl rfl (fun e => by cases e) rfl rfl rfl⟩
  | notify i n te c' hw hn =>
    obtain ⟨n1, n2, n3, _⟩ := notify_spec hn
    obtain ⟨ol, h1, h2⟩ := notify_full hn
    have hN : n.depth ≤ dv.sv.P.nbVars := node_depth_le hwf ((hmem hw).node n rfl)
    refine ⟨by rw [n1]; exact hL.crit, ?_⟩
    cases te
    · exact handLay_notify hL.hand hw hN h1 h2 n2 (by rw [n3, List.length_set]) .idle (Or.inl rfl)
    · exact handLay_notify hL.hand hw hN h1 h2 n2 (by rw [n3, List.length_set]) .done (Or.inr rfl)

/-! ## progress -/

/-- a compilation of an exactly reached node from the empty store ends normally and its answer is an `okRd` / `okXd` answer -/
theorem store0_ok {dv : DSolverCfg S K} {H : Nat → S → EInt} {B0 B : Int} (hwf : WellFormed dv.sv H B0 B)
    {n : SubP S} (hn : C01.NodeOk dv.sv.P n) (lb : Int) :
    okRd dv n lb (toOut (dv.compR (DomStore.init dv.sv.P.nbVars) n lb).2.1) ∧
    okXd dv n lb (toOut (dv.compX (DomStore.init dv.sv.P.nbVars) n lb).2.1) := by
  obtain ⟨p0, hroot, _⟩ := hn
  have hlen : (DomStore.init dv.sv.P.nbVars : DomStore S K).layers.length = dv.sv.P.nbVars + 1 := by
    simp [DomStore.init]
  have hno : ∀ ct, (compile (dv.cfg ct n lb) (Cache.init dv.sv.P.nbVars) (DomStore.init dv.sv.P.nbVars) 0 none).1 = .ok :=
    fun ct => compile_no_crash_dom (dv.cfg ct n lb) dv.D rfl B p0 _ _ 0 rfl (hwf.width n) hwf.nv
      (hwf.bound.noClamp_at hwf.nv hroot) hroot hlen
  exact ⟨⟨_, storeReach_init dv.D dv.sv.P _, hlen, hno .restricted, rfl⟩,
    ⟨_, storeReach_init dv.D dv.sv.P _, hlen, hno .relaxed, rfl⟩⟩

/-- **no deadlock, no lost wake-up, no panic**: some step that cuts nothing off is enabled as long as a worker has not left -/
theorem qstep_progress {dv : DSolverCfg S K} {H : Nat → S → EInt} {B0 B : Int} (hwf : WellFormed dv.sv H B0 B) {s : Sys S}
    (hI : DPCInv dv H B s) (hL : LayInv dv.sv s) (hnc : NoCut s) (hlive : ¬ AllDone s) : ∃ t, QStep dv s t := by
  -- some worker is neither gone nor parked
  have hex : ∃ w ∈ s.ws, w ≠ WSt.done ∧ w ≠ WSt.waiting := by
    by_cases hwait : WSt.waiting ∈ s.ws
    · have h0 := hL.hand.parked hwait
      rw [hL.hand.cnt] at h0
      have hpos : 0 < s.ws.countP WSt.holds := by omega
      obtain ⟨w, hw, hh⟩ := List.countP_pos_iff.mp hpos
      refine ⟨w, hw, ?_, ?_⟩ <;> intro e <;> rw [e] at hh <;> cases hh
    · have : ∃ w ∈ s.ws, w ≠ WSt.done := by
        apply Classical.byContradiction
        intro hno
        apply hlive
        intro w hw
        apply Classical.byContradiction
        intro hne
        exact hno ⟨w, hw, hne⟩
      obtain ⟨w, hw, hne⟩ := this
      exact ⟨w, hw, hne, fun e => hwait (e ▸ hw)⟩
  obtain ⟨w, hw, h1, h2⟩ := hex
  obtain ⟨i, hi⟩ := List.mem_iff_getElem?.mp hw
  have hcr := hL.hand.noCrash w hw
  have hwok := hI.ws w hw
  have ha : s.crit.base.abort = false := hnc.1
  have hws : ∀ w ∈ s.ws, ∀ n, w ≠ WSt.abortS n := fun w hw n => (hnc.2 w hw n).1
  have key : ∀ (c : ParCrit S) (w' : WSt S), (∀ n, w' ≠ WSt.abortS n) → NoAbortS { crit := c, ws := s.ws.set i w' } :=
    fun c w' hw' => mem_set_elim (P := fun w => ∀ n, w ≠ WSt.abortS n) hws hw'
  cases w with
  | idle =>
    cases hp : popMax s.crit.base.fringe with
    | none =>
      have hf := popMax_none hp
      by_cases ho : s.crit.ongoing = 0
      · exact ⟨_, .gwComplete s i hi ha ho hf, key _ _ (fun n => by simp)⟩
      · exact ⟨_, .gwWait s i hi ha ho hf, key _ _ (fun n => by simp)⟩
    | some p =>
      obtain ⟨N, rest⟩ := p
      have hpm := popMax_popMax hp
      by_cases hle : N.ub ≤ s.crit.base.bestLb
      · refine ⟨_, .gwStarve s i N rest (starved (setFringe s.crit rest)) 1 hi ha hpm ?_, hws⟩
        rw [popLoop_single]
        exact if_pos hle
      · have hl : popLoop (setFringe s.crit rest) [(N, true)] 0 = (setFringe s.crit rest, some (some N), 1) := by
          rw [popLoop_single]; exact if_neg hle
        have hN : N.depth ≤ dv.sv.P.nbVars :=
          node_depth_le hwf (hI.base.fr N ((mem_of_popMax hpm N).mpr (Or.inl rfl)))
        obtain ⟨c'', hc''⟩ := take_ne_none hL hi ha hpm hN
        exact ⟨_, .gwItem s i N rest _ N 1 c'' hi ha hpm hl hc'', key _ _ (fun n => by simp)⟩
  | waiting => exact absurd rfl h2
  | done => exact absurd rfl h1
  | crashed n => cases hcr
  | readR n => exact ⟨_, .readLbR s i n hi, key _ _ (fun m => by split <;> simp)⟩
  | compR n lb =>
    refine ⟨_, .compileR s i n lb (.ok (toOut (dv.compR (DomStore.init dv.sv.P.nbVars) n lb).2.1)) hi
      (fun o ho => ?_), key _ _ (fun m => by simp [WSt.afterR])⟩
    injection ho with ho; subst ho
    exact (store0_ok hwf (hwok.node n rfl) lb).1
  | updR n lb o => exact ⟨_, .updateR s i n lb o hi, key _ _ (fun m => by split <;> simp)⟩
  | readX n => exact ⟨_, .readLbX s i n hi, key _ _ (fun m => by simp)⟩
  | compX n lb =>
    refine ⟨_, .compileX s i n lb (.ok (toOut (dv.compX (DomStore.init dv.sv.P.nbVars) n lb).2.1)) hi
      (fun o ho => ?_), key _ _ (fun m => by simp [WSt.afterX])⟩
    injection ho with ho; subst ho
    exact (store0_ok hwf (hwok.node n rfl) lb).2
  | updX n lb o => exact ⟨_, .updateX s i n lb o hi, key _ _ (fun m => by split <;> simp)⟩
  | enq n lb o => exact ⟨_, .enqueue s i n lb o hi, key _ _ (fun m => by simp)⟩
  | abortS n => exact absurd rfl (hws _ hw n)
  | fin n te =>
    obtain ⟨c', hc'⟩ := notify_ne_none hL hi (node_depth_le hwf (hwok.node n rfl))
    refine ⟨_, .notify s i n te c' hi hc', ?_⟩
    refine mem_set_elim (P := fun w => ∀ n, w ≠ WSt.abortS n) (fun w hw' m e => ?_) (fun m => by split <;> simp)
    obtain ⟨w0, hw0, rfl⟩ := List.mem_map.mp hw'
    have : w0 = .abortS m := by cases w0 <;> simp_all [WSt.wake]
    exact hws w0 hw0 m this

end Ddo.ParDom
