import DdoModel.Proofs.CompatProcess
import DdoModel.Proofs.Theta
/-! C10e — **the core argument of `theta_sound` with the dominance checker on** (`Proofs/ThetaCore.lean`, re-proved).

Differences with `Ddo.Theta.FF` / `gt_all`:
* ONE level: the first alternative is `w + h ≤ O` for a pseudo-incumbent `O ≥ bk` (for us `O = opt - 1`, `bk = bkOf lb bestExact < opt`);
  the thresholds are still the ones the code computes with the real `bk` (`ownTheta bk`);
* the potential `H` is only asked `RubOk`, and at the terminal layer a *defined* potential is `0` (`termN`; `Potential.term` says
  `= some 0`);
* a new class of nodes: `Drop l p` — the positions dropped by `_filter_with_dominance`.  Such a node is neither deleted nor pruned
  by the cache, sits strictly above the terminal layer, was never expanded (no `StepF` is asked of it), its `rub` field still
  bounds every potential of its state (it is `iMax`), the item `(state, value)` itself is not hot (`own`), and the threshold `θp`
  it enters `ownTheta` with is `some tp` where no value `≤ tp` is hot (`theta`, fourth clause: `DomOk`). -/
set_option linter.unusedSectionVars false
set_option linter.unusedVariables false
namespace Ddo.C10d
open Ddo Ddo.C01 Ddo.Closed Ddo.C09 Ddo.C10 Ddo.C10c Ddo.Truth Ddo.Theta Ddo.Bounds
variable {S K : Type} [DecidableEq S] [DecidableEq K]

/-- "no value `≤ tp` of the state `s` at absolute depth `k` beats the pseudo-incumbent `O`" -/
def DomOkAt (H : Nat → S → EInt) (O : Int) (k : Nat) (s : S) (tp : Int) : Prop :=
  ∀ v, v ≤ tp → ∀ h, H k s = some h → v + h ≤ O

/-- the facts about the finished diagram `L3` with both filters (`nE` = index of the terminal layer, if any; `bk` = the incumbent
    the thresholds are computed with; `O ≥ bk` the level everything is read at; `Drop` = positions dropped by the checker) -/
structure FFJ (cfg : Cfg S K) (H : Nat → S → EInt) (B : Int) (cache : Cache S) (L3 : List (List (Node S))) (nE : Nat)
    (bk O : Int) (Drop : Nat → Nat → Prop) : Prop where
  lmax : ∀ (l p : Nat) (n3 : Node S), getNode L3 l p = some n3 → l ≤ nE
  rng : ∀ (l p : Nat) (n3 : Node S), getNode L3 l p = some n3 → Cover.Within (Cover.Bd B l) n3.value
  cacheN : ∀ (l p : Nat) (n3 : Node S), getNode L3 l p = some n3 → n3.deleted = false → n3.cache = true →
    l < nE ∧ ∃ (t : Thr) (tf : Int), lookup cfg cache n3 = some t ∧ n3.value ≤ t.value ∧ n3.theta = some tf ∧ tf ≤ t.value
  liveN : ∀ (l p : Nat) (n3 : Node S), getNode L3 l p = some n3 → n3.deleted = false → n3.cache = false → l < nE → ¬ Drop l p →
    n3.rub = cfg.R.rub n3.state ∧ StepF cfg H B L3 l p n3
  /-- a node dropped by the checker -/
  dropN : ∀ (l p : Nat) (n3 : Node S), getNode L3 l p = some n3 → Drop l p →
    n3.deleted = false ∧ n3.cache = false ∧ l < nE ∧
    (∀ h, H (cfg.root.depth + l) n3.state = some h → h ≤ n3.rub) ∧
    (∀ h, H (cfg.root.depth + l) n3.state = some h → n3.value + h ≤ O)
  termN : ∀ (p : Nat) (n3 : Node S), getNode L3 nE p = some n3 →
    n3.deleted = false ∧ n3.cache = false ∧ n3.cutset = false ∧ n3.rub = iMax ∧
    (∀ h, H (cfg.root.depth + nE) n3.state = some h → h = 0) ∧ L3.length = nE + 1
  theta : ∀ (l p : Nat) (n3 : Node S), getNode L3 l p = some n3 → n3.deleted = false →
    ∃ θp : Option Int, n3.theta = ownTheta bk n3 θp ∧
      (∀ (p' : Nat) (m3 : Node S) (t : Int) (e : Arc), getNode L3 (l + 1) p' = some m3 → m3.deleted = false →
        m3.theta = some t → e ∈ m3.inb → e.fromP = p → ∃ tp, θp = some tp ∧ tp ≤ satSub t e.cost) ∧
      (l = nE → n3.above = true → ∃ tp, θp = some tp ∧ tp ≤ bk) ∧
      (Drop l p → ∃ tp, θp = some tp ∧ DomOkAt H O (cfg.root.depth + l) n3.state tp)
  flagStep : ∀ (l p p' : Nat) (n3 m3 : Node S) (e : Arc), getNode L3 l p = some n3 → n3.above = true → n3.cutset = false →
    getNode L3 (l + 1) p' = some m3 → e ∈ m3.inb → e.fromL = l → e.fromP = p → m3.above = true
  good : ∀ (l0 p0 : Nat) (c3 : Node S), getNode L3 l0 p0 = some c3 → c3.cutset = true →
    ∀ (l p : Nat) (h : Int) (r : Nat), Path L3 H cfg.root.depth B l p h r →
      ∃ n3, getNode L3 l p = some n3 ∧ n3.marked = true ∧ h ≤ n3.vbot

/-- the hypotheses on the model and the magnitudes -/
structure HypFJ (cfg : Cfg S K) (H : Nat → S → EInt) (B M : Int) (nE : Nat) (bk O : Int) : Prop where
  R : RubOk cfg.R H
  lbMax : cfg.lb < iMax
  lbBk : cfg.lb ≤ bk
  bkO : bk ≤ O
  B0 : 0 ≤ B
  M0 : 0 ≤ M
  small : M + Cover.Bd B nE ≤ big

/-- the statement without thresholds -/
def NPJ (cfg : Cfg S K) (H : Nat → S → EInt) (B M : Int) (cache : Cache S) (L3 : List (List (Node S))) (nE : Nat) (O : Int)
    (l p : Nat) (n3 : Node S) : Prop :=
  ∀ h, H (cfg.root.depth + l) n3.state = some h →
    n3.value + h ≤ O ∨ CutBy cfg H B M cache L3 l p (n3.value + h) ∨ Path L3 H cfg.root.depth B l p h (nE - l)

/-- the statement with thresholds -/
def GTJ (cfg : Cfg S K) (H : Nat → S → EInt) (B M : Int) (cache : Cache S) (L3 : List (List (Node S))) (nE : Nat) (bk O : Int)
    (l p : Nat) (n3 : Node S) : Prop :=
  ∀ w, Cover.Within (M + Cover.Bd B l) w → (∀ t, n3.theta = some t → w ≤ t) →
    ∀ h, H (cfg.root.depth + l) n3.state = some h →
      w + h ≤ O ∨ Handed cfg H L3 nE bk l (w + h) ∨ CutBy cfg H B M cache L3 l p (w + h) ∨
      (n3.above = false ∧ Path L3 H cfg.root.depth B l p h (nE - l))

section
variable {cfg : Cfg S K} {H : Nat → S → EInt} {B M : Int} {cache : Cache S} {L3 : List (List (Node S))} {nE : Nat} {bk O : Int}
  {Drop : Nat → Nat → Prop}

theorem bd_stepJ (hy : HypFJ cfg H B M nE bk O) {l : Nat} (hl : l < nE) :
    M + Cover.Bd B l + B = M + Cover.Bd B (l + 1) ∧ M + Cover.Bd B (l + 1) ≤ big ∧ M + Cover.Bd B l ≤ big := by
  have h1 := Cover.Bd_succ B l
  have h2 : Cover.Bd B (l + 1) ≤ Cover.Bd B nE := Cover.Bd_mono hy.B0 (by omega)
  have h3 := hy.small
  have h4 := hy.B0
  refine ⟨by omega, by omega, by omega⟩

theorem bd_leJ (hy : HypFJ cfg H B M nE bk O) {l : Nat} (hl : l ≤ nE) : M + Cover.Bd B l ≤ big := by
  have h2 : Cover.Bd B l ≤ Cover.Bd B nE := Cover.Bd_mono hy.B0 (by omega)
  have h3 := hy.small
  omega

/-- **nodes without thresholds** -/
theorem npj_all (hf : FFJ cfg H B cache L3 nE bk O Drop) (hy : HypFJ cfg H B M nE bk O) :
    ∀ (d l p : Nat) (n3 : Node S), l + d = nE → getNode L3 l p = some n3 → n3.deleted = false →
      NPJ cfg H B M cache L3 nE O l p n3 := by
  intro d
  induction d with
  | zero =>
    intro l p n3 hl hn hdel h hH
    have hl' : l = nE := by omega
    subst hl'
    obtain ⟨_, _, _, _, hH0, hlen⟩ := hf.termN p n3 hn
    have h0 := hH0 h hH
    subst h0
    right; right
    rw [Nat.sub_self]
    exact .term l p n3 hlen.symm hn hH
  | succ d ih =>
    intro l p n3 hl hn hdel h hH
    have hlt : l < nE := by omega
    have hrng := hf.rng l p n3 hn
    by_cases hc : n3.cache = true
    · obtain ⟨_, t, tf, ht, hvt, _, _⟩ := hf.cacheN l p n3 hn hdel hc
      right; left
      refine ⟨l, p, n3, t, n3.value, h, Nat.le_refl _, fun _ => rfl, hn, hdel, hc, ht, hvt, ?_, hH, Int.le_refl _⟩
      have := hy.M0
      unfold Cover.Within at hrng ⊢
      omega
    · have hc' : n3.cache = false := by simpa using hc
      by_cases hD : Drop l p
      · left
        exact (hf.dropN l p n3 hn hD).2.2.2.2 h hH
      obtain ⟨hrub, hstep⟩ := hf.liveN l p n3 hn hdel hc' hlt hD
      by_cases htest : satAdd (cfg.R.rub n3.state) n3.value > cfg.lb
      · obtain ⟨p', m3, e, h', hm, hmd, he, hfl, hfp, hw, hH', hle, hval⟩ := hstep htest h hH
        have hH'' : H (cfg.root.depth + (l + 1)) m3.state = some h' := by rw [← Nat.add_assoc]; exact hH'
        rcases ih (l + 1) p' m3 (by omega) hm hmd h' hH'' with h1 | h1 | h1
        · left; omega
        · right; left; exact h1.up (by omega)
        · right; right
          rw [show nE - l = (nE - (l + 1)) + 1 by omega]
          exact .step l p p' n3 m3 e h h' _ hn hm he hfl hfp hw hH hH' hle hval h1
      · left
        have := rub_fail htest hy.lbMax (hy.R _ _ _ hH)
        have := hy.lbBk
        have := hy.bkO
        omega

/-- a path reaches the terminal layer -/
theorem path_termJ {l p : Nat} {h : Int} (hl : l ≤ nE) (hp : Path L3 H cfg.root.depth B l p h (nE - l)) :
    ∃ pt tn, getNode L3 nE pt = some tn := by
  obtain ⟨n, hn, _⟩ := hp.node
  obtain ⟨pt, tn, htn, _⟩ := hp.terminal n hn
  rw [show l + (nE - l) = nE by omega] at htn
  exact ⟨pt, tn, htn⟩

/-- **nodes with thresholds** -/
theorem gtj_all (hf : FFJ cfg H B cache L3 nE bk O Drop) (hy : HypFJ cfg H B M nE bk O) :
    ∀ (d l p : Nat) (n3 : Node S), l + d = nE → getNode L3 l p = some n3 → n3.deleted = false →
      GTJ cfg H B M cache L3 nE bk O l p n3 := by
  have hbkO := hy.bkO
  intro d
  induction d with
  | zero =>
    intro l p n3 hl hn hdel w hw hth h hH
    have hl' : l = nE := by omega
    subst hl'
    obtain ⟨_, hc, hcut, hrub, hH0, hlen⟩ := hf.termN p n3 hn
    have h0 := hH0 h hH
    subst h0
    obtain ⟨θp, hθ, _, hterm, _⟩ := hf.theta l p n3 hn hdel
    have hwb : -big ≤ w := by
      have := bd_leJ hy (Nat.le_refl l)
      unfold Cover.Within at hw; omega
    unfold ownTheta at hθ
    rw [hc] at hθ
    simp only [Bool.false_eq_true, if_false] at hθ
    by_cases hr : satAdd n3.value n3.rub ≤ bk
    · rw [if_pos hr] at hθ
      left
      have h1 := hth _ hθ
      rw [hrub] at h1
      have := satSub_chain (h := 0) hwb h1 (by unfold iMax; omega)
      omega
    · rw [if_neg hr, hcut] at hθ
      simp only [Bool.false_eq_true, if_false] at hθ
      by_cases hab : n3.above = true
      · obtain ⟨tp, htp, hle⟩ := hterm rfl hab
        rw [htp] at hθ
        simp only [Option.isNone_some, Bool.and_false, Bool.false_eq_true, if_false] at hθ
        left
        have := hth _ hθ
        omega
      · right; right; right
        refine ⟨by simpa using hab, ?_⟩
        rw [Nat.sub_self]
        exact .term l p n3 hlen.symm hn hH
  | succ d ih =>
    intro l p n3 hl hn hdel w hw hth h hH
    have hlt : l < nE := by omega
    obtain ⟨hb1, hb2, hb3⟩ := bd_stepJ hy hlt
    have hwb : -big ≤ w ∧ w ≤ big := by unfold Cover.Within at hw; omega
    by_cases hc : n3.cache = true
    · obtain ⟨_, t, tf, ht, hvt, htf, htfle⟩ := hf.cacheN l p n3 hn hdel hc
      right; right; left
      have := hth tf htf
      exact ⟨l, p, n3, t, w, h, Nat.le_refl _, fun _ => rfl, hn, hdel, hc, ht, by omega, hw, hH, Int.le_refl _⟩
    have hc' : n3.cache = false := by simpa using hc
    obtain ⟨θp, hθ, hkids, _, hdrop⟩ := hf.theta l p n3 hn hdel
    unfold ownTheta at hθ
    rw [hc'] at hθ
    simp only [Bool.false_eq_true, if_false] at hθ
    by_cases hD : Drop l p
    · -- **dropped by the checker**: no value below its threshold, nor its own value, is hot
      left
      obtain ⟨_, _, _, hrubD, hown⟩ := hf.dropN l p n3 hn hD
      obtain ⟨tp, htp, hdom⟩ := hdrop hD
      by_cases hr : satAdd n3.value n3.rub ≤ bk
      · rw [if_pos hr] at hθ
        have h1 := hth _ hθ
        have := satSub_chain hwb.1 h1 (hrubD h hH)
        omega
      rw [if_neg hr] at hθ
      by_cases hcut : n3.cutset = true
      · rw [hcut] at hθ
        simp only [if_true] at hθ
        by_cases hlocb : satAdd n3.value n3.vbot ≤ bk
        · rw [if_pos hlocb, htp, Option.getD_some] at hθ
          have h1 := hth _ hθ
          exact hdom w (by omega) h hH
        · rw [if_neg hlocb] at hθ
          have h1 := hth _ hθ
          have := hown h hH
          omega
      · have hcut' : n3.cutset = false := by simpa using hcut
        rw [hcut', htp] at hθ
        simp only [Option.isNone_some, Bool.and_false, Bool.false_eq_true, if_false] at hθ
        exact hdom w (hth tp hθ) h hH
    obtain ⟨hrub, hstep⟩ := hf.liveN l p n3 hn hdel hc' hlt hD
    have hrle := hy.R _ _ _ hH
    by_cases hr : satAdd n3.value n3.rub ≤ bk
    · rw [if_pos hr] at hθ
      left
      have h1 := hth _ hθ
      rw [hrub] at h1
      have := satSub_chain hwb.1 h1 hrle
      omega
    rw [if_neg hr] at hθ
    have htest : satAdd (cfg.R.rub n3.state) n3.value > cfg.lb := by
      rw [satAdd_comm, ← hrub]
      have := hy.lbBk
      omega
    have child : (∀ tp, θp = some tp → w ≤ tp) →
        w + h ≤ O ∨ Handed cfg H L3 nE bk l (w + h) ∨ CutBy cfg H B M cache L3 l p (w + h) ∨
        ∃ (p' : Nat) (m3 : Node S) (e : Arc), getNode L3 (l + 1) p' = some m3 ∧ e ∈ m3.inb ∧ e.fromL = l ∧ e.fromP = p ∧
          m3.above = false ∧ Path L3 H cfg.root.depth B l p h (nE - l) := by
      intro hwθ
      obtain ⟨p', m3, e, h', hm, hmd, he, hfl, hfp, hwc, hH', hle, hval⟩ := hstep htest h hH
      have hH'' : H (cfg.root.depth + (l + 1)) m3.state = some h' := by rw [← Nat.add_assoc]; exact hH'
      have hw' : Cover.Within (M + Cover.Bd B (l + 1)) (w + e.cost) := by
        rw [← hb1]; unfold Cover.Within at hw hwc ⊢; omega
      have hth' : ∀ t, m3.theta = some t → w + e.cost ≤ t := by
        intro t ht
        obtain ⟨tp, htp, hle'⟩ := hkids p' m3 t e hm hmd ht he hfp
        have h1 := hwθ tp htp
        have h2 : w ≤ satSub t e.cost := by omega
        exact satSub_chain hwb.1 h2 (Int.le_refl _)
      rcases ih (l + 1) p' m3 (by omega) hm hmd (w + e.cost) hw' hth' h' hH'' with h1 | h1 | h1 | ⟨h1, h2⟩
      · left; omega
      · right; left; exact h1.mono (by omega) (by omega)
      · right; right; left; exact h1.up (by omega)
      · right; right; right
        refine ⟨p', m3, e, hm, he, hfl, hfp, h1, ?_⟩
        rw [show nE - l = (nE - (l + 1)) + 1 by omega]
        exact .step l p p' n3 m3 e h h' _ hn hm he hfl hfp hwc hH hH' hle hval h2
    by_cases hcut : n3.cutset = true
    · rw [hcut] at hθ
      simp only [if_true] at hθ
      by_cases hlocb : satAdd n3.value n3.vbot ≤ bk
      · rw [if_pos hlocb] at hθ
        have h1 := hth _ hθ
        have hwθ : ∀ tp, θp = some tp → w ≤ tp := by
          intro tp htp
          rw [htp, Option.getD_some] at h1
          omega
        rcases child hwθ with c1 | c1 | c1 | ⟨p', m3, e, _, _, _, _, _, hpath⟩
        · exact .inl c1
        · exact .inr (.inl c1)
        · exact .inr (.inr (.inl c1))
        · left
          obtain ⟨n3', hn3', _, hvb⟩ := hf.good l p n3 hn hcut l p h _ hpath
          rw [hn] at hn3'; cases hn3'
          have h2 : w ≤ satSub bk n3.vbot := by omega
          have := satSub_chain hwb.1 h2 hvb
          omega
      · rw [if_neg hlocb] at hθ
        have h1 := hth _ hθ
        by_cases hT : (∃ pt tn, getNode L3 nE pt = some tn) ∧ n3.marked = true
        · right; left
          exact ⟨l, p, n3, h, Nat.le_refl _, hn, hdel, hcut, hT.2, by omega, by omega, hT.1, hH, by omega⟩
        · rcases npj_all hf hy (d + 1) l p n3 hl hn hdel h hH with c1 | c1 | c1
          · left; omega
          · right; right; left; exact c1.mono (by omega)
          · exfalso
            apply hT
            refine ⟨path_termJ (by omega) c1, ?_⟩
            obtain ⟨n3', hn3', hmk, _⟩ := hf.good l p n3 hn hcut l p h _ c1
            rw [hn] at hn3'; cases hn3'
            exact hmk
    · have hcut' : n3.cutset = false := by simpa using hcut
      rw [hcut'] at hθ
      simp only [Bool.false_eq_true, if_false] at hθ
      have hwθ : ∀ tp, θp = some tp → w ≤ tp := by
        intro tp htp
        rw [htp] at hθ
        simp only [Option.isNone_some, Bool.and_false, Bool.false_eq_true, if_false] at hθ
        exact hth tp hθ
      rcases child hwθ with c1 | c1 | c1 | ⟨p', m3, e, hm, he, hfl, hfp, hmab, hpath⟩
      · exact .inl c1
      · exact .inr (.inl c1)
      · exact .inr (.inr (.inl c1))
      · right; right; right
        refine ⟨?_, hpath⟩
        cases hab : n3.above with
        | false => rfl
        | true =>
          have := hf.flagStep l p p' n3 m3 e hn hab hcut' hm he hfl hfp
          rw [hmab] at this; cases this

end
end Ddo.C10d

#print axioms Ddo.C10d.npj_all
#print axioms Ddo.C10d.gtj_all
