import DdoModel.Proofs.ParCacheCutInv
/-! # The parallel caching solver with cut-off — bookkeeping after an abort: never panics, never deadlocks

`LayInvK` (the bookkeeping invariant of `Proofs/ParCacheLay.lean`) contains `abort = false` and
`open_by_layer[d] = #fringe(d) + #gwW(d)`.  `abort_search` runs `fringe.clear()` **without touching `open_by_layer`**: the second
clause is false from then on.  It is not needed any more: the counter is only decremented in the pop loop of `get_workload`
(`gwDrop`, `gwTake`, zeroed by `gwStarve`), which nobody enters once the flag is up — `abort_search` takes the mutex
(`LockFree`: nobody is inside `get_workload`) and `gwAborted` pre-empts `gwToPop`.  What is kept (`LayC`): the `ongoing` side
(`HandK`: `ongoing_by_layer`, `ongoing`, one cell of `upper_bounds` per worker, nobody crashed, a parked worker implies work in
progress, mutual exclusion), the cache shape and the log (`LogK`; `cache.clear()` keeps the `nbVars + 1` layers), the length of
`open_by_layer` (so that the `open_by_layer[depth] += …` of an `enqueue_cutset` that happens after the abort is in range), and
`noPop`: no worker is in the pop loop. -/
set_option linter.unusedSectionVars false
set_option linter.unusedVariables false
namespace Ddo.ParCache
open Ddo Ddo.C09 Ddo.ParSys Ddo.Closed Ddo.ParClosed
open Ddo.C01 (SolverCfg WellFormed toOut SolOf)
variable {S : Type} [DecidableEq S]

structure LayC (n : Nat) (s : KSys S) : Prop where
  hand : HandK n s.crit s.ws
  lg : LogK n s.cache s.log s.ws
  openLen : s.crit.base.openByLayer.length = n + 1
  noPanic : s.crit.base.crashed = false
  noPop : ∀ w ∈ s.ws, w ≠ KW.gwP ∧ ∀ m, w ≠ KW.gwW m

def KW.isPop : KW S → Bool
  | .gwP | .gwW _ => true
  | _ => false

theorem notPop_of {w : KW S} (h : w.isPop = false) : w ≠ KW.gwP ∧ ∀ m, w ≠ KW.gwW m :=
  ⟨(fun e => by rw [e] at h; cases h), (fun m e => by rw [e] at h; cases h)⟩

/-- at the moment the mutex is free the invariant of the system without cut-off gives `LayC` -/
theorem layC_of_lay {n : Nat} {s : KSys S} (hL : LayInvK n s) (hl : LockFree s) : LayC n s :=
  ⟨hL.hand, hL.lg, hL.opn.openLen, hL.opn.noPanic, fun w hw =>
    ⟨(fun e => by have := hl w hw; rw [e] at this; cases this), (fun m e => by have := hl w hw; rw [e] at this; cases this)⟩⟩

theorem layC_noPanic {n : Nat} {s : KSys S} (hL : LayC n s) : NoPanic s := ⟨hL.hand.noCrash, hL.noPanic⟩

theorem clear_length (c : Cache S) : c.clear.layers.length = c.layers.length := by
  unfold Cache.clear; simp

/-- worker `i` changes stage keeping its taken node; the counters of the `ongoing` side are left alone -/
theorem layC_local {n : Nat} {s : KSys S} {i : Nat} {w w' : KW S} {c' : ParCrit S} {cache' : Cache S}
    {log' : List (Cache S)} (hL : LayC n s) (hw : s.ws[i]? = some w) (hnode : w'.node = w.node) (hcr : w' ≠ .crashed)
    (hwait : w' ≠ .waiting) (hgw : w'.inGw = true → w.inGw = true ∨ LockFree s)
    (hpop : w' ≠ KW.gwP ∧ ∀ m, w' ≠ KW.gwW m) (hk : w'.k0 ≤ log'.length)
    (hc : cache'.layers.length = n + 1) (hh : log'.head? = some cache') (hl : s.log.length ≤ log'.length)
    (e0 : c'.base.openByLayer.length = n + 1) (e3 : c'.base.crashed = false)
    (e5 : c'.ongoingByLayer = s.crit.ongoingByLayer) (e6 : c'.ongoing = s.crit.ongoing)
    (e7 : c'.upperBounds = s.crit.upperBounds) :
    LayC n { crit := c', cache := cache', log := log', ws := s.ws.set i w' } :=
  ⟨handK_set hL.hand hw hnode hcr (fun e => absurd e hwait)
      (fun h => (hgw h).imp id (fun hl => (lockFree_iff _).mpr hl)) e5 e6 (by rw [e7]),
    logK_set hL.lg hc hh hl hk, e0, e3, mem_set_elim hL.noPop hpop⟩

theorem wake_noPop {w : KW S} (h : w ≠ KW.gwP ∧ ∀ m, w ≠ KW.gwW m) : w.wake ≠ KW.gwP ∧ ∀ m, w.wake ≠ KW.gwW m := by
  cases w <;> first | exact h | exact notPop_of rfl

/-- `notify_node_finished` does not panic (the `ongoing` side alone) -/
theorem notify_definedC {n : Nat} {s : KSys S} {i : Nat} {m : SubP S} (hH : HandK n s.crit s.ws)
    (hw : s.ws[i]? = some (.fin m)) (hN : m.depth ≤ n) : ∃ c', s.crit.notifyFinished i m.depth = some c' := by
  have hmem := List.mem_of_getElem? hw
  have h1 : s.crit.ongoing ≠ 0 := by
    rw [hH.cnt]
    have : 0 < s.ws.countP KW.holds := List.countP_pos_iff.mpr ⟨_, hmem, rfl⟩
    omega
  have hi : i < s.crit.upperBounds.length := by
    rw [← hH.len]; exact (List.getElem?_eq_some_iff.mp hw).1
  have h3 : 0 < handD s.ws m.depth := cntF_pos KW.node hmem rfl
  unfold ParCrit.notifyFinished decLayer
  rw [if_neg h1, if_pos hi, hH.ongoCnt m.depth hN]
  simp only
  rw [if_neg (by omega)]
  exact ⟨_, rfl⟩

/-- **never panics after an abort**: under `LayC` no `crash` step is enabled -/
theorem no_panicsC {n : Nat} {s : KSys S} {i : Nat} {w : KW S} (hL : LayC n s) (hD : DepthOk n s)
    (hw : s.ws[i]? = some w) : ¬ Panics n s i w := by
  have hmem := List.mem_of_getElem? hw
  intro hp
  cases w with
  | gwC =>
    obtain ⟨hc, hcl⟩ := hp
    obtain ⟨c', h⟩ := clearLayer_def s.cache s.crit.base.firstActive (by rw [hL.lg.cacheLen]; have := hc.1; omega)
    rw [h] at hcl; cases hcl
  | gwP => exact (hL.noPop _ hmem).1 rfl
  | gwW m => exact (hL.noPop _ hmem).2 m rfl
  | wrR m lb o cv ups todo =>
    cases todo with
    | nil => exact hp
    | cons u todo =>
      have hu := hD.todo _ hmem m lb o cv ups (u :: todo) (Or.inl rfl) u List.mem_cons_self
      obtain ⟨c', hc'⟩ := update_def s.cache u.1 u.2.1 (upThr u) (by rw [hL.lg.cacheLen]; omega)
      have hp : s.cache.update u.1 u.2.1 (upThr u) = none := hp
      rw [hc'] at hp; cases hp
  | wrX m lb o cv ups todo =>
    cases todo with
    | nil => exact hp
    | cons u todo =>
      have hu := hD.todo _ hmem m lb o cv ups (u :: todo) (Or.inr rfl) u List.mem_cons_self
      obtain ⟨c', hc'⟩ := update_def s.cache u.1 u.2.1 (upThr u) (by rw [hL.lg.cacheLen]; omega)
      have hp : s.cache.update u.1 u.2.1 (upThr u) = none := hp
      rw [hc'] at hp; cases hp
  | fin m =>
    obtain ⟨c', hc'⟩ := notify_definedC hL.hand hw (hD.held _ hmem m (Or.inl rfl))
    have hp : s.crit.notifyFinished i m.depth = none := hp
    rw [hc'] at hp; cases hp
  | _ => exact hp

/-- `abort_search` by a compiling worker keeps `LayC` -/
theorem abort_layC {n : Nat} {s : KSys S} {i : Nat} {w : KW S} {m : SubP S} (hL : LayC n s) (hw : s.ws[i]? = some w)
    (hnode : w.node = some m) (top : Option Int) : LayC n (abortK s i m top) :=
  layC_local (c' := s.crit.abortSearch m.ub top) hL hw (by rw [hnode]; rfl) (by intro e; cases e) (by intro e; cases e)
    (fun e => by cases e) (notPop_of rfl) (Nat.zero_le _)
    (by rw [clear_length]; exact hL.lg.cacheLen) rfl (Nat.le_succ _) hL.openLen hL.noPanic rfl rfl rfl

/-- **every step taken once the flag is up preserves `LayC`** — `crash` included: it is not enabled -/
theorem kstepC_layC {n : Nat} {dedup : Bool} {okR okX : SubP S → Int → Cache S → DDOut S → List (Up S) → Prop}
    {s t : KSysC S} (h : KStepC n dedup okR okX s t) (hL : LayC n s.k) (hD : DepthOk n s.k)
    (ha' : s.k.crit.base.abort = true) : LayC n t.k := by
  have hH := hL.hand
  have hG := hL.lg
  have np : ∀ {a : KW S}, (a ≠ KW.gwP ∧ ∀ m, a ≠ KW.gwW m) → True := fun _ => trivial
  cases h with
  | gwEnter s e i hw hl =>
    exact layC_local (c' := s.crit) hL hw rfl (by intro e; cases e) (by intro e; cases e) (fun _ => Or.inr hl)
      (notPop_of rfl) (Nat.zero_le _) hG.cacheLen hG.logHead (Nat.le_refl _)
      hL.openLen hL.noPanic rfl rfl rfl
  | gwClear s e i c' hw hc hcl =>
    exact ⟨⟨hH.ongoLen, hH.ongoCnt, hH.cnt, hH.len, hH.noCrash, hH.parked, hH.mutex⟩,
      logK_push hG (by rw [clearLayer_length hcl]; exact hG.cacheLen), hL.openLen, hL.noPanic, hL.noPop⟩
  | gwAborted s e i hw hc ha =>
    exact layC_local (c' := s.crit) hL hw rfl (by intro e; cases e) (by intro e; cases e) (fun e => by cases e)
      (notPop_of rfl) (Nat.zero_le _) hG.cacheLen hG.logHead (Nat.le_refl _)
      hL.openLen hL.noPanic rfl rfl rfl
  | gwComplete s e i hw hc ha ho hf => have ha' : s.crit.base.abort = true := ha'; rw [ha] at ha'; cases ha'
  | gwWait s e i hw hc ha ho hf => have ha' : s.crit.base.abort = true := ha'; rw [ha] at ha'; cases ha'
  | gwToPop s e i hw hc ha hf => have ha' : s.crit.base.abort = true := ha'; rw [ha] at ha'; cases ha'
  | gwEmpty s e i hw hf => exact absurd rfl (hL.noPop _ (List.mem_of_getElem? hw)).1
  | gwStarve s e i N rest hw hp hub => exact absurd rfl (hL.noPop _ (List.mem_of_getElem? hw)).1
  | gwDrop s e i N rest c' hw hp hub hme hd => exact absurd rfl (hL.noPop _ (List.mem_of_getElem? hw)).1
  | gwKeep s e i N rest hw hp hub hme => exact absurd rfl (hL.noPop _ (List.mem_of_getElem? hw)).1
  | gwTake s e i m c' crit' hw hu ht => exact absurd rfl ((hL.noPop _ (List.mem_of_getElem? hw)).2 m)
  | readLbR s e i m hw hl =>
    refine layC_local (c' := s.crit) hL hw ?_ ?_ ?_ (fun e => ?_) ?_ ?_ hG.cacheLen hG.logHead (Nat.le_refl _)
      hL.openLen hL.noPanic rfl rfl rfl
    · split <;> rfl
    · split <;> (intro e; cases e)
    · split <;> (intro e; cases e)
    · split at e <;> cases e
    · split <;> exact notPop_of rfl
    · split
      · exact Nat.zero_le _
      · exact Nat.le_refl _
  | compileR s e i m lb k0 cv o ups hw hcv hok =>
    exact layC_local (c' := s.crit) hL hw rfl (by intro e; cases e) (by intro e; cases e) (fun e => by cases e)
      (notPop_of rfl) (Nat.zero_le _) hG.cacheLen hG.logHead (Nat.le_refl _)
      hL.openLen hL.noPanic rfl rfl rfl
  | writeR s e i m lb o cv ups u todo c' hw hu =>
    exact layC_local (c' := s.crit) hL hw rfl (by intro e; cases e) (by intro e; cases e) (fun e => by cases e)
      (notPop_of rfl) (Nat.zero_le _) (by rw [update_length hu]; exact hG.cacheLen) rfl
      (Nat.le_succ _) hL.openLen hL.noPanic rfl rfl rfl
  | updateR s e i m lb o cv ups hw hl =>
    obtain ⟨_, _, _, f4, _⟩ := updateBest_fringe s.crit.base o
    refine layC_local (c' := s.crit.updateBest o) hL hw ?_ ?_ ?_ (fun e => ?_) ?_ ?_ hG.cacheLen hG.logHead
      (Nat.le_refl _) (by show (s.crit.base.updateBest o).openByLayer.length = _; rw [f4]; exact hL.openLen)
      ((updateBest_crashed s.crit.base o).trans hL.noPanic) rfl rfl rfl
    · split <;> rfl
    · split <;> (intro e; cases e)
    · split <;> (intro e; cases e)
    · split at e <;> cases e
    · split <;> exact notPop_of rfl
    · split <;> exact Nat.zero_le _
  | readLbX s e i m hw hl =>
    exact layC_local (c' := s.crit) hL hw rfl (by intro e; cases e) (by intro e; cases e) (fun e => by cases e)
      (notPop_of rfl) (Nat.le_refl _) hG.cacheLen hG.logHead (Nat.le_refl _)
      hL.openLen hL.noPanic rfl rfl rfl
  | compileX s e i m lb k0 cv o ups hw hcv hok =>
    exact layC_local (c' := s.crit) hL hw rfl (by intro e; cases e) (by intro e; cases e) (fun e => by cases e)
      (notPop_of rfl) (Nat.zero_le _) hG.cacheLen hG.logHead (Nat.le_refl _)
      hL.openLen hL.noPanic rfl rfl rfl
  | writeX s e i m lb o cv ups u todo c' hw hu =>
    exact layC_local (c' := s.crit) hL hw rfl (by intro e; cases e) (by intro e; cases e) (fun e => by cases e)
      (notPop_of rfl) (Nat.zero_le _) (by rw [update_length hu]; exact hG.cacheLen) rfl
      (Nat.le_succ _) hL.openLen hL.noPanic rfl rfl rfl
  | updateX s e i m lb o cv ups hw hl =>
    obtain ⟨_, _, _, f4, _⟩ := updateBest_fringe s.crit.base o
    refine layC_local (c' := s.crit.updateBest o) hL hw ?_ ?_ ?_ (fun e => ?_) ?_ ?_ hG.cacheLen hG.logHead
      (Nat.le_refl _) (by show (s.crit.base.updateBest o).openByLayer.length = _; rw [f4]; exact hL.openLen)
      ((updateBest_crashed s.crit.base o).trans hL.noPanic) rfl rfl rfl
    · split <;> rfl
    · split <;> (intro e; cases e)
    · split <;> (intro e; cases e)
    · split at e <;> cases e
    · split <;> exact notPop_of rfl
    · split <;> exact Nat.zero_le _
  | enqueue s e i m lb o cv ups hw hl =>
    have hmem := List.mem_of_getElem? hw
    have hcs : ∀ c ∈ o.cutset, c.depth ≤ n := hD.cut _ hmem m lb o cv ups rfl
    obtain ⟨g1, g2, _⟩ := enqueue_len n dedup o.cutset hcs _ hL.openLen
    exact layC_local (c' := s.crit.enqueue dedup o.cutset) hL hw rfl (by intro e; cases e) (by intro e; cases e)
      (fun e => by cases e) (notPop_of rfl) (Nat.zero_le _) hG.cacheLen hG.logHead
      (Nat.le_refl _) g1 (g2.trans hL.noPanic) rfl rfl rfl
  | abortR s e i m lb k0 top hw hl htop => exact abort_layC hL hw rfl top
  | abortX s e i m lb k0 top hw hl htop => exact abort_layC hL hw rfl top
  | notify s e i m c' hw hl hi hn =>
    have hmem := List.mem_of_getElem? hw
    have hN := hD.held _ hmem m (Or.inl rfl)
    obtain ⟨n1, n2, n3, _⟩ := notify_spec hn
    obtain ⟨ol, h1, h2⟩ := notify_full hn
    refine ⟨handK_notify hH hw hN h1 h2 n2 (by rw [n3, List.length_set]),
      ⟨hG.cacheLen, hG.logHead, mem_set_elim (fun w hw' => ?_) (Nat.zero_le _)⟩,
      by show c'.base.openByLayer.length = _; rw [n1]; exact hL.openLen,
      by show c'.base.crashed = _; rw [n1]; exact hL.noPanic,
      mem_set_elim (fun w hw' => ?_) (notPop_of rfl)⟩
    · obtain ⟨w0, hw0, rfl⟩ := List.mem_map.mp hw'
      rw [wake_k0]; exact hG.logK w0 hw0
    · obtain ⟨w0, hw0, rfl⟩ := List.mem_map.mp hw'
      exact wake_noPop (hL.noPop w0 hw0)
  | notifyExit s e i m c' hw hl hi hn =>
    have hmem := List.mem_of_getElem? hw
    have hN := hD.held _ hmem m (Or.inl rfl)
    obtain ⟨n1, n2, n3, _⟩ := notify_spec hn
    obtain ⟨ol, h1, h2⟩ := notify_full hn
    have hlt : i < (s.ws.map KW.wake).length := by
      rw [List.length_map]; exact (List.getElem?_eq_some_iff.mp hw).1
    have hidle : ((s.ws.map KW.wake).set i KW.idle)[i]? = some KW.idle := by
      rw [List.getElem?_set_self hlt]
    have hH1 := handK_notify hH hw hN h1 h2 n2 (by rw [n3, List.length_set])
    have hH2 := handK_set (c' := c') (w' := KW.done) hH1 hidle rfl (by intro e; cases e) (fun e => by cases e)
      (fun e => by cases e) rfl rfl rfl
    rw [List.set_set] at hH2
    refine ⟨hH2,
      ⟨hG.cacheLen, hG.logHead, mem_set_elim (fun w hw' => ?_) (Nat.zero_le _)⟩,
      by show c'.base.openByLayer.length = _; rw [n1]; exact hL.openLen,
      by show c'.base.crashed = _; rw [n1]; exact hL.noPanic,
      mem_set_elim (fun w hw' => ?_) (notPop_of rfl)⟩
    · obtain ⟨w0, hw0, rfl⟩ := List.mem_map.mp hw'
      rw [wake_k0]; exact hG.logK w0 hw0
    · obtain ⟨w0, hw0, rfl⟩ := List.mem_map.mp hw'
      exact wake_noPop (hL.noPop w0 hw0)
  | crash s e i w hw hp => exact absurd hp (no_panicsC hL hD hw)

end Ddo.ParCache
